(* Refutation witnesses for the code before the two fixes (by computation). *)
From Coq Require Import String.
From GoRes Require Import Mux.Spec Mux.ProofsFlat.
Open Scope N_scope.

Lemma registration_v0_refuted_pf : exists pat hid grp par,
  tvalid pat && nodupb (placeholder_names (ptoks pat)) && isSome (pgroup par grp pat) = true /\
  is_ok (add_v0star empty_node pat hid grp par) = false.
Proof. exists (s2b "a.*"), 1, [], false. vm_compute. split; reflexivity. Qed.

Lemma lookup_total_v0_refuted_pf : exists root pat hid grp name,
  let root' := out_state (add_v0grp root pat hid grp false) in
  is_ok (add_v0grp root pat hid grp false) = true /\ get_handler_node [] root' name = LPanic /\
  exists g, get_handler_node [] (out_state (add root pat hid grp false)) name = LHit hid [] [(s2b "id", s2b "x")] g.
Proof.
  exists (out_state (mount_node empty_node (s2b "sub") empty_node)), (s2b "sub.$id"), 1, (s2b "${id}"), (s2b "sub.x").
  vm_compute. split; [reflexivity|]. split; [reflexivity|]. eexists. reflexivity.
Qed.

(* before 4459494: "<path>." was taken for the mux path itself *)
Lemma lookup_v0dot_refuted_pf : exists path ops name,
  let root := frun empty_node ops in
  is_valid_path path = true /\ validate_node root = true /\
  (exists toks p hid, spec_strip path name = Some toks /\ best_of fst (fregs empty_node ops) toks = Some (p, hid) /\
      get_handler_node_v0dot path root name = LNone /\
      exists ls ps g, get_handler_node path root name = LHit hid ls ps g).
Proof.
  exists (s2b "svc"), [FHandle (s2b "*") 2 [] false], (s2b "svc.").
  vm_compute. split; [reflexivity|]. split; [reflexivity|].
  eexists _, _, _. split; [reflexivity|]. split; [reflexivity|]. split; [reflexivity|].
  eexists _, _, _. reflexivity.
Qed.

(* before de9a2b8: a listener could name an anonymous placeholder of an already registered handler *)
Lemma params_exact_v0_refuted_pf : exists pat hid lpat l name,
  let root1 := out_state (add empty_node pat hid [] false) in
  is_ok (add empty_node pat hid [] false) = true /\
  is_ok (add_listener root1 lpat l) = false /\
  is_ok (add_listener_v0 root1 lpat l) = true /\
  pvalues (ptoks pat) (tokens name) = [] /\
  exists g, get_handler_node [] (out_state (add_listener_v0 root1 lpat l)) name = LHit hid [l] [(s2b "w", s2b "foo")] g.
Proof.
  exists (s2b "a.*"), 1, (s2b "a.$w"), 7, (s2b "a.foo"). vm_compute.
  repeat (split; [reflexivity|]). eexists. reflexivity.
Qed.
