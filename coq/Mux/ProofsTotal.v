(* lookup_total for mounted arrangements: every index read by GetHandler is in range. *)
From GoRes Require Import Mux.Spec Pattern.Lemmas Mux.ProofsMatch Mux.ProofsFetch Mux.ProofsFlat Mux.ProofsReg
  Mux.ProofsLookup Mux.ProofsMount Mux.ProofsMountSt Mux.ProofsMi Mux.ProofsNorm.
From Coq Require Import Lia Arith PeanoNat.
Open Scope N_scope.

Lemma at_path_out_gen : forall A (o : outcome A) a, o = Ok a -> a = out_state o.
Proof. intros A o a H. rewrite H. reflexivity. Qed.

Fixpoint all_lit (p : list ptok) : bool :=
  match p with [] => true | PLit _ :: r => all_lit r | _ => false end.
Lemma all_lit_lits : forall a, all_lit (lits a) = true.
Proof. induction a; cbn; auto. Qed.
Lemma all_lit_app : forall a b, all_lit (a ++ b) = all_lit a && all_lit b.
Proof. induction a as [|[t|x| |] a IH]; intros b; cbn; auto. Qed.
Lemma all_lit_nth : forall p k, all_lit p = true -> nth_error p k <> Some PAnon.
Proof.
  induction p as [|[t|x| |] p IH]; intros k H E; cbn in H; try discriminate; destruct k; cbn in E; try discriminate.
  eapply IH; eauto.
Qed.
Lemma lits_nth : forall a k, nth_error (lits a) k <> Some PAnon.
Proof. intros. apply all_lit_nth, all_lit_lits. Qed.
Lemma lits_not_full : forall a, ~ ends_full (lits a).
Proof.
  intros a (p0 & E). assert (X : all_lit (p0 ++ [PFull]) = true) by (rewrite <- E; apply all_lit_lits).
  rewrite all_lit_app in X. cbn in X. rewrite Bool.andb_false_r in X. discriminate.
Qed.

Definition gidx_ok (path : list ptok) (m : nat) (g : gpart) : Prop :=
  match g with GIdx j => nth_error path (j + m) = Some PAnon | GNeg => False | GStr _ => True end.
(* the node invariant, for a node at [path] visited with mountIdx m *)
Definition PT (path : list ptok) (m : nat) (n : node) : Prop :=
  (node_mounted n = true -> all_lit path = true) /\
  (forall x, In x (node_plist n) -> nth_error path (snd x + m) = Some PAnon) /\
  (forall hid parts, node_hs n = Some (hid, Some parts) -> forall g, In g parts -> gidx_ok path m g) /\
  (ends_full path -> node_hs n <> None \/ node_ls n <> []).
Definition QT (pre : list ptok) (ps : list pparam) (mi : nat) : Prop :=
  (mi <= length pre)%nat /\ all_lit (firstn mi pre) = true /\
  forall x, In x ps -> nth_error pre (snd x + mi) = Some PAnon.

Lemma PT_loc : forall path m n n', loc_eq n n' -> PT path m n -> PT path m n'.
Proof.
  intros path m n n' (E1 & E2 & E3 & E4) (A & B & C & D). unfold PT, node_plist in *. rewrite E1, E2, E3, E4. auto.
Qed.
Lemma PT_empty : forall path m, ~ ends_full path -> PT path m empty_node.
Proof.
  intros path m NE. split; [discriminate|]. split; [intros x []|]. split; [intros hid parts X; discriminate|]. intros X. contradiction.
Qed.

Lemma nth_app_some : forall A (l : list A) e k x, nth_error l k = Some x -> nth_error (l ++ e) k = Some x.
Proof. intros A l e k x H. rewrite nth_error_app1; [exact H|]. apply nth_error_Some. congruence. Qed.

Lemma QT_step : forall pre ps mi l e, PT pre mi l -> QT pre ps mi ->
  QT (pre ++ [e]) ps (if node_mounted l then length pre else mi).
Proof.
  intros pre ps mi l e (A & _) (L & F & X). destruct (node_mounted l).
  - specialize (A eq_refl). split; [rewrite app_length; cbn; lia|]. split.
    + rewrite firstn_app, firstn_all, Nat.sub_diag. cbn. rewrite app_nil_r. exact A.
    + intros x Ix. exfalso. eapply all_lit_nth; [exact A|apply X, Ix].
  - split; [rewrite app_length; cbn; lia|]. split.
    + rewrite firstn_app. replace (mi - length pre)%nat with 0%nat by lia. cbn. rewrite app_nil_r. exact F.
    + intros x Ix. apply nth_app_some, X, Ix.
Qed.
Lemma QT_snoc : forall pre ps mi l tn, PT pre mi l -> QT pre ps mi ->
  QT (pre ++ [PAnon]) (ps ++ [(tn, length pre - (if node_mounted l then length pre else mi))%nat])
     (if node_mounted l then length pre else mi).
Proof.
  intros pre ps mi l tn HP HQ. pose proof (QT_step pre ps mi l PAnon HP HQ) as (L & F & X).
  set (mi' := if node_mounted l then length pre else mi) in *.
  assert (L' : (mi' <= length pre)%nat) by (unfold mi'; destruct HQ as (L0 & _); destruct (node_mounted l); lia).
  split; [exact L|]. split; [exact F|]. intros x Ix. apply in_app_iff in Ix as [Ix|[<-|[]]]; [apply X, Ix|].
  cbn [snd]. replace (length pre - mi' + mi')%nat with (length pre) by lia.
  rewrite nth_error_app2 by lia. rewrite Nat.sub_diag. reflexivity.
Qed.

(* ---- the group parsed for a pattern refers to its $-tokens ---- *)
Definition tags_ok (path : list ptok) (g : group) : Prop :=
  forall parts, g = Some parts -> forall p, In p parts -> match p with GIdx j => nth_error path j = Some PAnon | GNeg => False | GStr _ => True end.

Lemma find_tok_nth : forall tag l j k, find_tok tag l j = Some k -> (j <= k)%nat /\ nth_error l (k - j) = Some tag.
Proof.
  induction l as [|t r IH]; intros j k H; cbn in H; [discriminate|]. destruct (beq t tag) eqn:B.
  - injection H as <-. apply beq_eq in B. subst. rewrite Nat.sub_diag. split; [lia|reflexivity].
  - destruct (IH _ _ H) as [L N]. split; [lia|]. replace (k - j)%nat with (S (k - S j)) by lia. exact N.
Qed.
Lemma parse_group_go_tags : forall toks g md r, parse_group_go toks md g = Some r ->
  forall p, In p r -> match p with GIdx j => exists tag, nth_error toks j = Some (dollar :: tag) | GNeg => False | GStr _ => True end.
Proof.
  induction g as [|c g IH]; intros md r H p I.
  - cbn in H. destruct md as [acc| |acc]; try discriminate. injection H as <-.
    unfold flush in I. destruct acc; [destruct I|]. destruct I as [<-|[]]. exact Logic.I.
  - cbn in H. destruct md as [acc| |acc].
    + destruct (c =? dollar).
      * destruct (parse_group_go toks GDollar g) as [r'|] eqn:E; [|discriminate]. injection H as <-.
        unfold flush in I. destruct acc; [eapply IH; eauto|]. destruct I as [<-|I]; [exact Logic.I|eapply IH; eauto].
      * eapply IH; eauto.
    + destruct (c =? lbrace); [eapply IH; eauto|discriminate].
    + destruct (c =? rbrace).
      * destruct acc as [|a acc]; [discriminate|].
        destruct (find_tok (dollar :: rev (a :: acc)) toks 0) as [j|] eqn:F; [|discriminate].
        destruct (parse_group_go toks (GDef []) g) as [r'|] eqn:E; [|discriminate]. cbn in H. injection H as <-.
        destruct I as [<-|I]; [|eapply IH; eauto]. apply find_tok_nth in F as [_ F]. rewrite Nat.sub_0_r in F. eauto.
      * destruct (tag_char c); [eapply IH; eauto|discriminate].
Qed.
Lemma sk_nth : forall toks j t, nth_error toks j = Some t -> nth_error (sk toks) j = Some (sk1 t).
Proof. intros. unfold sk. apply map_nth_error. assumption. Qed.
Lemma tags_ok_pgroup : forall par grp pat g a, pgroup par grp pat = Some g ->
  tags_ok (sk (a ++ split_pattern pat)) (gshift (length a) g).
Proof.
  intros par grp pat g a PG parts E p I. destruct g as [l|]; [|discriminate]. cbn in E. injection E as <-.
  apply in_map_iff in I. destruct I as (p0 & <- & I0).
  assert (X : match p0 with GIdx j => exists tag, nth_error (split_pattern pat) j = Some (dollar :: tag) | GNeg => False | GStr _ => True end).
  { unfold pgroup in PG. destruct par; [injection PG as <-; destruct I0|].
    unfold parse_group in PG. destruct grp as [|c grp]; [discriminate|].
    destruct (parse_group_go (split_pattern pat) (GDef []) (c :: grp)) as [r|] eqn:E; [|discriminate].
    injection PG as <-. eapply parse_group_go_tags; eauto. }
  destruct p0 as [x|j|]; cbn [gshift_part]; auto. destruct X as (tag & N).
  rewrite sk_app, nth_error_app2 by (rewrite sk_length; lia). rewrite sk_length.
  replace (j + length a - length a)%nat with j by lia. rewrite (sk_nth _ _ _ N). reflexivity.
Qed.

Lemma nth_firstn_lt : forall A (l : list A) m k, (k < m)%nat -> nth_error (firstn m l) k = nth_error l k.
Proof.
  induction l as [|x l IH]; intros m k H; destruct m; try lia; [destruct k; reflexivity|].
  destruct k; [reflexivity|]. cbn. apply IH. lia.
Qed.

(* ---- the two actions keep PT ---- *)
Lemma add_fin_PT : forall hid G path fr n ps' m, tags_ok path G -> QT path ps' m ->
  (PT path m n \/ n = empty_node) -> PT path m (out_state (add_fin true hid G fr n ps' m)).
Proof.
  intros hid G path fr n ps' m TG (L & F & X) Pn.
  destruct (add_fin true hid G fr n ps' m) as [n'|e n'] eqn:E; cbn [out_state].
  - destruct (loc_add_fin _ _ _ _ _ _ _ _ E) as (HS & E1 & E2 & E3 & E4 & _).
    assert (MO : node_mounted n = true -> all_lit path = true).
    { destruct Pn as [(A & _)| ->]; [exact A|discriminate]. }
    split; [rewrite E3; exact MO|]. split; [|split].
    + intros x Ix. unfold node_plist in Ix. rewrite E4 in Ix. apply X, Ix.
    + intros hid' parts Hh g Ig. rewrite E1 in Hh. injection Hh as _ Hh.
      destruct G as [l|]; [|destruct m; discriminate]. rewrite rebase_group_some in Hh. injection Hh as <-.
      apply in_map_iff in Ig. destruct Ig as (p0 & <- & I0). specialize (TG l eq_refl p0 I0).
      destruct p0 as [x|j|]; cbn [rebase_part gidx_ok]; auto.
      destruct (Nat.ltb_spec j m) as [Lt|Ge].
      * cbn. eapply (all_lit_nth (firstn m path) j F). rewrite nth_firstn_lt by exact Lt. exact TG.
      * cbn. replace (j - m + m)%nat with j by lia. exact TG.
    + intros _. left. congruence.
  - pose proof E as E'. apply add_fin_panic_state in E'. subst n'. destruct Pn as [Pn| ->]; [exact Pn|cbn in E; discriminate E].
Qed.

Lemma listen_fin_PT : forall l path fr n ps' m, QT path ps' m ->
  (PT path m n \/ n = empty_node) -> PT path m (out_state (listen_fin l fr n ps' m)).
Proof.
  intros l path fr n ps' m (L & F & X) Pn.
  destruct (listen_fin l fr n ps' m) as [n'|e n'] eqn:E; cbn [out_state].
  - destruct (loc_listen_fin _ _ _ _ _ _ E) as (E1 & E2 & E3 & E4 & _).
    split; [|split; [|split]].
    + rewrite E3. destruct Pn as [(A & _)| ->]; [exact A|discriminate].
    + intros x Ix. unfold node_plist in Ix. rewrite E4 in Ix. apply X, Ix.
    + rewrite E1. destruct Pn as [(_ & _ & C & _)| ->]; [exact C|intros hid parts Y; discriminate].
    + intros _. right. rewrite E2. destruct (node_ls n); discriminate.
  - pose proof E as E'. apply listen_fin_panic_state in E'. subst n'. destruct Pn as [Pn| ->]; [exact Pn|cbn in E; discriminate E].
Qed.

Lemma QT_nil : QT [] [] 0.
Proof. split; [cbn; lia|]. split; [reflexivity|intros x []]. Qed.

Lemma add_ok_inv : forall s pat hid grp par s', add s pat hid grp par = Ok s' ->
  exists g, pgroup par grp pat = Some g /\ is_valid pat = true.
Proof.
  intros s pat hid grp par s' H. rewrite add_unfold in H. destruct (pgroup par grp pat) as [g|]; [|discriminate].
  destruct (is_valid pat); [eauto|discriminate].
Qed.

(* Handle on the mux at path a of the top-level trie T *)
Lemma handle_PT : forall T a s pat hid grp par T',
  forallb littok a = true -> node_at a T = Some s -> (a <> [] -> node_mounted s = true) ->
  at_path a (fun r => add r pat hid grp par) T = Ok T' -> InvM PT [] 0 T -> InvM PT [] 0 T'.
Proof.
  intros T a s pat hid grp par T' La Hs HM AP I.
  destruct (at_path_ok _ _ _ _ AP _ Hs) as (s' & Es). destruct (add_ok_inv _ _ _ _ _ _ Es) as (g & PG & V).
  rewrite (handle_normal T a s pat hid grp par g La Hs HM PG V) in AP.
  rewrite (at_path_out_gen _ _ _ AP).
  apply (fetch_invm PT PT_loc PT_empty false _ (add_fin_keeps true hid _) QT QT_step QT_snoc
           (a ++ split_pattern pat) [] 0%nat [] false T true).
  - cbn [length]. rewrite AP. reflexivity.
  - intros fr n ps' m _ HQ Pn. cbn [app] in *. apply add_fin_PT; [eapply tags_ok_pgroup; eauto|exact HQ|exact Pn].
  - exact QT_nil.
  - left. exact I.
Qed.

Lemma listen_PT : forall T a s pat l T',
  forallb littok a = true -> node_at a T = Some s -> (a <> [] -> node_mounted s = true) ->
  at_path a (fun r => add_listener r pat l) T = Ok T' -> InvM PT [] 0 T -> InvM PT [] 0 T'.
Proof.
  intros T a s pat l T' La Hs HM AP I.
  rewrite (listen_normal T a s pat l La Hs HM) in AP.
  rewrite (at_path_out_gen _ _ _ AP).
  apply (fetch_invm PT PT_loc PT_empty false _ (listen_fin_keeps l) QT QT_step QT_snoc
           (a ++ split_pattern pat) [] 0%nat [] false T true).
  - cbn [length]. rewrite AP. reflexivity.
  - intros fr n ps' m _ HQ Pn. cbn [app] in *. apply listen_fin_PT; assumption.
  - exact QT_nil.
  - left. exact I.
Qed.

(* ---- placing a mounted subtree ---- *)
Section MountInv.
Variable P : list ptok -> nat -> node -> Prop.
Hypothesis P_loc : forall path m n n', loc_eq n n' -> P path m n -> P path m n'.
Hypothesis P_empty : forall path m, ~ ends_full path -> P path m empty_node.

Lemma mount_invm : forall M full, forallb littok full = true -> full <> [] ->
  forall pre mi ps l l', fetch_gen false mount_fin (Some M) full (length pre) mi ps false l = Ok l' ->
  InvM P pre mi l -> (forall m0, InvM P (pre ++ lits full) m0 M) -> InvM P pre mi l'.
Proof.
  intros M. induction full as [|t rest IH]; intros LT NE pre mi ps l l' H I IMt; [congruence|].
  cbn [forallb] in LT. apply Bool.andb_true_iff in LT as [L1 L2].
  destruct l as [hs pp li pa wi mo ls]. rewrite (fetch_mount_cons _ _ _ _ _ _ _ _ _ _ _ _ _ _ _ _ L1) in H.
  pose proof (step_ok_lit hs pp li pa wi mo ls t) as SO.
  set (l := Node hs pp li pa wi mo ls) in *.
  assert (LEN : length (pre ++ [PLit t]) = S (length pre)) by (rewrite app_length; cbn; lia).
  assert (MI : (if mo then length pre else mi) = (if node_mounted l then length pre else mi)) by reflexivity.
  assert (PATH : forall m0, InvM P ((pre ++ [PLit t]) ++ lits rest) m0 M).
  { intros m0. rewrite <- app_assoc. exact (IMt m0). }
  destruct (lit_get t li) as [c|] eqn:E.
  - destruct rest as [|t2 r2]; [cbn in H; discriminate|].
    destruct (fetch_gen false mount_fin (Some M) (t2 :: r2) (S (length pre)) (if mo then length pre else mi) ps false c) as [c'|e c'] eqn:F; [|discriminate].
    cbn in H. injection H as <-.
    apply (InvM_mk P P_loc pre mi l (PLit t) _ _ c' SO I). rewrite <- MI.
    rewrite <- LEN in F. apply (IH L2 ltac:(discriminate) _ _ _ _ _ F); [|exact PATH].
    rewrite MI. apply (InvM_child P pre mi l (PLit t) c I E).
  - destruct rest as [|t2 r2].
    + cbn in H. injection H as <-. apply (InvM_mk P P_loc pre mi l (PLit t) _ _ M SO I).
      specialize (PATH (if node_mounted l then length pre else mi)). cbn [lits map] in PATH. rewrite app_nil_r in PATH. exact PATH.
    + cbn [is_nil] in H.
      destruct (fetch_gen false mount_fin (Some M) (t2 :: r2) (S (length pre)) (if mo then length pre else mi) ps false empty_node) as [c'|e c'] eqn:F; [|discriminate].
      cbn in H. injection H as <-.
      apply (InvM_mk P P_loc pre mi l (PLit t) _ _ c' SO I). rewrite <- MI.
      rewrite <- LEN in F. apply (IH L2 ltac:(discriminate) _ _ _ _ _ F); [|exact PATH].
      intros q n m Rq. apply reachm_empty in Rq as (-> & -> & ->). rewrite app_nil_r. apply P_empty.
      intros X. apply ends_full_snoc in X. discriminate.
Qed.
End MountInv.

Lemma reachm_shift : forall l i mi q n m, reachm l i mi q n m -> forall d, reachm l (i + d) (mi + d) q n (m + d).
Proof.
  induction 1; intros d; [constructor| | |];
    (specialize (IHreachm d); change (S i + d)%nat with (S (i + d)) in IHreachm;
     replace ((if node_mounted l then i else mi) + d)%nat with (if node_mounted l then (i + d)%nat else (mi + d)%nat) in IHreachm
       by (destruct (node_mounted l); reflexivity);
     econstructor; eauto).
Qed.

Lemma ends_full_app_r : forall x q, q <> [] -> ends_full (x ++ q) -> ends_full q.
Proof.
  intros x q NE (p0 & E). destruct (exists_last NE) as (q0 & z & ->). rewrite app_assoc in E.
  apply app_inj_tail in E as [_ ->]. exists q0. reflexivity.
Qed.

Lemma PT_shift : forall full q m n, q <> [] -> PT q m n -> PT (lits full ++ q) (m + length full) n.
Proof.
  intros full q m n NE (A & B & C & D).
  assert (LL : length (lits full) = length full) by (unfold lits; apply map_length).
  assert (NTH : forall k, nth_error (lits full ++ q) (k + (m + length full)) = nth_error q (k + m)).
  { intros k. rewrite nth_error_app2 by lia. f_equal. lia. }
  split; [|split; [|split]].
  - intros X. rewrite all_lit_app, all_lit_lits. apply A, X.
  - intros x Ix. rewrite NTH. apply B, Ix.
  - intros hid parts Hh g Ig. specialize (C hid parts Hh g Ig). destruct g as [x|j|]; cbn in *; auto. rewrite NTH. exact C.
  - intros X. apply D. eapply ends_full_app_r; eauto.
Qed.

Lemma PT_mounted_sub : forall Sb full m0, InvM PT [] 0 Sb -> InvM PT (lits full) m0 (set_mounted Sb).
Proof.
  intros Sb full m0 I q n m Rq.
  assert (LL : length (lits full) = length full) by (unfold lits; apply map_length). rewrite LL in Rq.
  pose proof (I [] Sb 0%nat (RM_nil Sb _ _)) as (A0 & B0 & C0 & D0). cbn [app] in *.
  assert (KID : forall e c, match e with
                  | PLit t => lit_get t (node_lits (set_mounted Sb)) = Some c
                  | PAnon => node_param (set_mounted Sb) = Some c
                  | PFull => node_wild (set_mounted Sb) = Some c
                  | PParam _ => False end ->
                match e with
                  | PLit t => lit_get t (node_lits Sb) = Some c
                  | PAnon => node_param Sb = Some c
                  | PFull => node_wild Sb = Some c
                  | PParam _ => False end) by (destruct Sb; cbn; auto).
  assert (MS : node_mounted (set_mounted Sb) = true) by (destruct Sb; reflexivity).
  assert (STEP : forall e c q' , match e with
                  | PLit t => lit_get t (node_lits Sb) = Some c
                  | PAnon => node_param Sb = Some c
                  | PFull => node_wild Sb = Some c
                  | PParam _ => False end ->
                 reachm c (S (length full)) (length full) q' n m -> PT (lits full ++ e :: q') m n).
  { intros e c q' HC R1. destruct (reach_reachm _ _ _ (reachm_reach _ _ _ _ _ _ R1) 1%nat 0%nat) as (m' & R0).
    pose proof (reachm_shift _ _ _ _ _ _ R0 (length full)) as R2. cbn [Nat.add] in R2.
    destruct (reachm_det _ _ _ _ _ _ R1 _ _ R2) as [_ ->].
    apply PT_shift; [discriminate|]. apply (I (e :: q') n m').
    cbn [length]. destruct e; try tauto; econstructor; eauto; destruct (node_mounted Sb); exact R0. }
  inversion Rq; subst.
  - rewrite app_nil_r. split; [|split; [|split]].
    + intros _. apply all_lit_lits.
    + intros x Ix. exfalso. assert (node_plist (set_mounted Sb) = node_plist Sb) as EP by (destruct Sb; reflexivity).
      rewrite EP in Ix. specialize (B0 x Ix). destruct (snd x + 0)%nat; discriminate.
    + intros hid parts Hh g Ig. assert (node_hs (set_mounted Sb) = node_hs Sb) as EH by (destruct Sb; reflexivity).
      rewrite EH in Hh. specialize (C0 hid parts Hh g Ig). destruct g as [x|j|]; cbn in *; auto. destruct (j + 0)%nat; discriminate.
    + intros X. destruct (lits_not_full _ X).
  - rewrite MS in H0. apply (STEP (PLit t) c p (KID (PLit t) c H) H0).
  - rewrite MS in H0. apply (STEP PAnon c p (KID PAnon c H) H0).
  - rewrite MS in H0. apply (STEP PFull c p (KID PFull c H) H0).
Qed.

Lemma mount_PT : forall T a s toks Sb T',
  forallb littok a = true -> forallb littok toks = true -> toks <> [] -> node_at a T = Some s ->
  at_path a (fun r => fetch_gen false mount_fin (Some (set_mounted Sb)) toks 0 0 [] false r) T = Ok T' ->
  InvM PT [] 0 T -> InvM PT [] 0 Sb -> InvM PT [] 0 T'.
Proof.
  intros T a s toks Sb T' La Lt NE Hs AP I IS.
  rewrite (mount_normal T a s toks _ La Lt Hs) in AP.
  apply (mount_invm PT PT_loc PT_empty (set_mounted Sb) (a ++ toks)) with (pre := []) (mi := 0%nat) (ps := []) (l := T).
  - rewrite forallb_app, La, Lt. reflexivity.
  - destruct a; [exact NE|discriminate].
  - exact AP.
  - exact I.
  - intros m0. cbn [app]. apply PT_mounted_sub, IS.
Qed.

(* ---- the state invariant ---- *)
Definition InvT (st : state) : Prop := forall t p T, nth_error st t = Some (p, Top T) -> InvM PT [] 0 T.

Lemma InvT_nil : InvT [].
Proof. intros t p T H. destruct t; discriminate. Qed.

Lemma run_op_InvT : forall st o st', WFst st -> InvT st ->
  match o with ORoute _ _ _ => False | _ => True end -> run_op st o = Ok st' -> InvT st'.
Proof.
  intros st o st' W IT NR H. destruct o; cbn [run_op] in H; try tauto.
  - unfold new_mux in H. destruct (is_valid_path path); [|discriminate]. injection H as <-.
    intros t p T Ht. destruct (Nat.lt_ge_cases t (length st)) as [L|L].
    + rewrite nth_error_app1 in Ht by exact L. eapply IT; eauto.
    + rewrite nth_error_app2 in Ht by exact L. destruct (t - length st)%nat as [|x]; cbn in Ht; [|destruct x; discriminate].
      injection Ht as <- <-. intros q n m0 Rq. apply reachm_empty in Rq as (-> & -> & ->).
      apply PT_empty. intros X. destruct (lits_not_full [] X).
  - unfold do_handle in H.
    destruct (with_root_ok _ _ _ _ W H) as (t & a & p & T & s & T' & TO & Ht & Hs & La & HM & AP & ->).
    intros t0 p0 T0 H0. rewrite (set_top_nth st t p T T' Ht) in H0.
    destruct (Nat.eqb t0 t); [|eapply IT; eauto]. injection H0 as <- <-.
    apply (handle_PT T a s pat hid grp par T' La Hs HM AP (IT _ _ _ Ht)).
  - unfold do_listen in H.
    destruct (with_root_ok _ _ _ _ W H) as (t & a & p & T & s & T' & TO & Ht & Hs & La & HM & AP & ->).
    intros t0 p0 T0 H0. rewrite (set_top_nth st t p T T' Ht) in H0.
    destruct (Nat.eqb t0 t); [|eapply IT; eauto]. injection H0 as <- <-.
    apply (listen_PT T a s pat l T' La Hs HM AP (IT _ _ _ Ht)).
  - destruct (do_mount_ok _ _ _ _ _ W H) as (t & a & p & T & s & S & subpath & T' & TO & Ht & Hs & La & HM & ES & TS & Lt & NE & AP & TREE & _).
    intros t0 p0 T0 H0. destruct (TREE _ _ _ H0) as (_ & [(-> & -> & ->)|(_ & H0')]); [|eapply IT; eauto].
    apply (mount_PT T a s _ S T' La Lt NE Hs AP (IT _ _ _ Ht) (IT _ _ _ ES)).
Qed.

Lemma run_all_full : forall ops st st' R, noroute ops = true -> WFst st -> Inv1 st R -> InvT st ->
  run_all st ops = Some st' -> WFst st' /\ Inv1 st' (R ++ regs ops) /\ InvT st'.
Proof.
  induction ops as [|o r IH]; intros st st' R NR W I1 IT H.
  - cbn in H. injection H as <-. unfold regs. cbn. rewrite app_nil_r. auto.
  - cbn [run_all] in H. destruct (run_op st o) as [s1|e s1] eqn:E; [|discriminate].
    cbn [noroute forallb] in NR. apply Bool.andb_true_iff in NR as [N1 N2].
    assert (IT1 : InvT s1).
    { eapply run_op_InvT; [exact W|exact IT| |exact E]. destruct o; try exact I. discriminate N1. }
    destruct o; cbn [run_op] in E; try discriminate N1.
    + destruct (new_step _ _ _ _ W I1 E) as (W1 & I1' & _). apply (IH _ _ _ N2 W1 I1' IT1 H).
    + destruct (handle_step _ _ _ _ _ _ _ _ W I1 E) as (W1 & I1').
      destruct (IH _ _ _ N2 W1 I1' IT1 H) as (A & B & C). split; [exact A|]. split; [|exact C].
      unfold regs in *. cbn [handles map]. rewrite <- app_assoc in B. exact B.
    + destruct (listen_step _ _ _ _ _ _ W I1 E) as (W1 & I1'). apply (IH _ _ _ N2 W1 I1' IT1 H).
    + destruct (mount_step _ _ _ _ _ _ W I1 E) as (W1 & I1'). apply (IH _ _ _ N2 W1 I1' IT1 H).
Qed.

Lemma accepted_full : forall ops st, run_all [] ops = Some st ->
  WFst st /\ Inv1 st (regs (desugar ops 0)) /\ InvT st.
Proof.
  intros ops st H. apply run_all_desugar in H. cbn [length] in H.
  apply (run_all_full _ [] st [] (noroute_desugar ops 0) WFst_nil Inv1_nil InvT_nil H).
Qed.

(* ---- where the search arrives ---- *)
Lemma find_arrival : forall toks l i mi n m, find l toks i mi = Some (n, m) ->
  exists p, p <> [] /\ reachm l i mi p n m /\ pmatch p toks = true.
Proof.
  induction toks as [|t rest IH]; intros l i mi n m H; [discriminate|].
  rewrite find_unfold in H. cbv zeta in H. set (mi' := if node_mounted l then i else mi) in *.
  assert (CR : forall c, child_res (Some c) rest i mi' = Some (n, m) ->
               exists q, reachm c (S i) mi' q n m /\ pmatch q rest = true).
  { intros c Hr. cbn [child_res] in Hr. destruct rest as [|t2 r2].
    - destruct (node_hs c); [|discriminate]. injection Hr as <- <-. exists []. split; [constructor|reflexivity].
    - destruct (IH _ _ _ _ _ Hr) as (q & _ & R & M). eauto. }
  destruct (lit_get t (node_lits l)) as [c|] eqn:EL.
  - destruct (child_res (Some c) rest i mi') as [r|] eqn:E1.
    + injection H as ->. destruct (CR c E1) as (q & R & M). exists (PLit t :: q). split; [discriminate|].
      split; [eapply RM_lit; eauto|]. cbn. rewrite beq_refl. exact M.
    + destruct (node_param l) as [c2|] eqn:EP.
      * destruct (child_res (Some c2) rest i mi') as [r|] eqn:E2.
        -- injection H as ->. destruct (CR c2 E2) as (q & R & M). exists (PAnon :: q). split; [discriminate|].
           split; [eapply RM_par; eauto|exact M].
        -- destruct (node_wild l) as [w|] eqn:EW; [|discriminate]. injection H as <- <-. exists [PFull].
           split; [discriminate|]. split; [eapply RM_wild; [exact EW|constructor]|reflexivity].
      * cbn [child_res] in H. destruct (node_wild l) as [w|] eqn:EW; [|discriminate]. injection H as <- <-. exists [PFull].
        split; [discriminate|]. split; [eapply RM_wild; [exact EW|constructor]|reflexivity].
  - cbn [child_res] in H. destruct (node_param l) as [c2|] eqn:EP.
    + destruct (child_res (Some c2) rest i mi') as [r|] eqn:E2.
      * injection H as ->. destruct (CR c2 E2) as (q & R & M). exists (PAnon :: q). split; [discriminate|].
        split; [eapply RM_par; eauto|exact M].
      * destruct (node_wild l) as [w|] eqn:EW; [|discriminate]. injection H as <- <-. exists [PFull].
        split; [discriminate|]. split; [eapply RM_wild; [exact EW|constructor]|reflexivity].
    + cbn [child_res] in H. destruct (node_wild l) as [w|] eqn:EW; [|discriminate]. injection H as <- <-. exists [PFull].
      split; [discriminate|]. split; [eapply RM_wild; [exact EW|constructor]|reflexivity].
Qed.

Lemma node_at_reach : forall a T s, node_at a T = Some s -> reach T (lits a) s.
Proof.
  induction a as [|t r IH]; intros T s H; cbn in H.
  - injection H as <-. constructor.
  - destruct (lit_get t (node_lits T)) as [c|] eqn:E; [|discriminate]. cbn. eapply R_lit; eauto.
Qed.
Lemma reachm_app : forall l i mi p n m, reachm l i mi p n m ->
  forall q x m2, reachm n (i + length p) m q x m2 -> reachm l i mi (p ++ q) x m2.
Proof.
  induction 1; intros q x m2 R2; cbn [length app] in *.
  - rewrite Nat.add_0_r in R2. exact R2.
  - eapply RM_lit; eauto. apply IHreachm. rewrite Nat.add_succ_r in R2. exact R2.
  - eapply RM_par; eauto. apply IHreachm. rewrite Nat.add_succ_r in R2. exact R2.
  - eapply RM_wild; eauto. apply IHreachm. rewrite Nat.add_succ_r in R2. exact R2.
Qed.
Lemma reachm_mounted_first : forall s p n m, node_mounted s = true -> p <> [] -> reachm s 0 0 p n m ->
  forall d md, reachm s d md p n (m + d).
Proof.
  intros s p n m MS NE R d md. inversion R; subst; try congruence; rewrite MS in *;
    (pose proof (reachm_shift _ _ _ _ _ _ H0 d) as R2; cbn [Nat.add] in R2; econstructor; eauto; rewrite MS; exact R2).
Qed.
Lemma abs_reach : forall a T s p n m, node_at a T = Some s -> (a <> [] -> node_mounted s = true) -> p <> [] ->
  reachm s 0 0 p n m -> reachm T 0 0 (lits a ++ p) n (m + length a).
Proof.
  intros a T s p n m Hs HM NE R. destruct a as [|t0 r0].
  - cbn in Hs. injection Hs as <-. cbn. rewrite Nat.add_0_r. exact R.
  - specialize (HM ltac:(discriminate)).
    destruct (reach_reachm _ _ _ (node_at_reach _ _ _ Hs) 0%nat 0%nat) as (ms & R1).
    eapply reachm_app; [exact R1|]. cbn [Nat.add]. unfold lits. rewrite map_length.
    apply reachm_mounted_first; assumption.
Qed.

Lemma total_node : forall T a s path name, InvM PT [] 0 T -> forallb littok a = true ->
  node_at a T = Some s -> (a <> [] -> node_mounted s = true) -> get_handler_node path s name <> LPanic.
Proof.
  intros T a s path name I La Hs HM. unfold get_handler_node, get_handler_node_gen.
  destruct (strip_path_gen false path name) as [| |sub]; [discriminate| |].
  - destruct (node_hs s) as [[hid g]|] eqn:HS; [|discriminate].
    destruct (group_to_string_ok name [] g) as (x & ->); [|discriminate].
    intros parts -> y Iy. destruct (reach_reachm _ _ _ (node_at_reach _ _ _ Hs) 0%nat 0%nat) as (ms & R1).
    destruct (I _ _ _ R1) as (_ & _ & C & _). cbn [app] in C. specialize (C hid parts HS y Iy).
    destruct y as [z|j|]; cbn in *; auto. destruct (lits_nth _ _ C).
  - set (tk := tokens sub). rewrite match_find.
    destruct (find s tk 0 0) as [[n m]|] eqn:F; [|discriminate].
    destruct (find_arrival _ _ _ _ _ _ F) as (p & NE & R & M).
    pose proof (abs_reach a T s p n m Hs HM NE R) as RA.
    destruct (I _ _ _ RA) as (_ & B & C & _). cbn [app] in B, C.
    assert (LL : length (lits a) = length a) by (unfold lits; apply map_length).
    assert (NTH : forall k, nth_error (lits a ++ p) (k + (m + length a)) = nth_error p (k + m)).
    { intros k. rewrite nth_error_app2 by lia. f_equal. lia. }
    pose proof (pmatch_length _ _ M) as PL.
    unfold hit. destruct (read_params_ok tk m (node_plist n)) as (ps & ->).
    { intros x Ix. specialize (B x Ix). rewrite NTH in B. assert (snd x + m < length p)%nat by (apply nth_error_Some; congruence). lia. }
    destruct (node_hs n) as [[hid g]|] eqn:HS; [|discriminate].
    destruct (group_to_string_ok name (skipn m tk) g) as (x & ->); [|discriminate].
    intros parts -> y Iy. specialize (C hid parts eq_refl y Iy). destruct y as [z|j|]; cbn in *; auto.
    rewrite NTH in C. assert (j + m < length p)%nat by (apply nth_error_Some; congruence).
    rewrite skipn_length. lia.
Qed.

Lemma root_of_ok : forall st k, WFst st -> (k < length st)%nat ->
  exists t a p T s, top_of st k = Some (t, a) /\ nth_error st t = Some (p, Top T) /\ node_at a T = Some s /\
                    forallb littok a = true /\ (a <> [] -> node_mounted s = true) /\ root_of st k = Some s.
Proof.
  intros st k W L. destruct (nth_error st k) as [[p0 lc]|] eqn:E; [|apply nth_error_None in E; lia].
  assert (TO : exists t a, top_of st k = Some (t, a)).
  { unfold top_of. rewrite E. destruct lc; eauto. }
  destruct TO as (t & a & TO). destruct (top_of_wf _ _ _ _ W TO) as (La & p & T & s & A & B & C).
  exists t, a, p, T, s. repeat (split; [assumption|]). unfold root_of, tree_of. rewrite TO, A. exact B.
Qed.

Lemma lookup_total_pf : forall ops st k name, run_all [] ops = Some st -> (k < length st)%nat ->
  get_handler st k name <> LPanic.
Proof.
  intros ops st k name H L. destruct (accepted_full _ _ H) as (W & _ & IT).
  destruct (root_of_ok st k W L) as (t & a & p & T & s & TO & Ht & Hs & La & HM & RO).
  unfold get_handler. rewrite RO. eapply total_node; eauto.
Qed.
