(* The positions of the muxes as computed from the op list alone ([slocs]) are those of the model state. *)
From GoRes Require Import Mux.Spec Pattern.Lemmas Mux.ProofsMatch Mux.ProofsFetch Mux.ProofsFlat Mux.ProofsMount Mux.ProofsMountSt.
From Coq Require Import Lia Arith PeanoNat.
Open Scope N_scope.

Definition row (st : state) (k : nat) : option sloc :=
  match top_of st k with Some (t, a) => Some (path_of st k, t, a) | None => None end.
Definition LocEq (st : state) (ss : list sloc) : Prop := forall k, nth_error ss k = row st k.

Lemma row_none : forall st k, row st k = None <-> (length st <= k)%nat.
Proof.
  intros st k. unfold row, top_of. split.
  - intros H. apply nth_error_None. destruct (nth_error st k) as [[p [T|t a]]|]; [discriminate|discriminate|reflexivity].
  - intros H. apply nth_error_None in H. rewrite H. reflexivity.
Qed.
Lemma LocEq_length : forall st ss, LocEq st ss -> length ss = length st.
Proof.
  intros st ss H. destruct (Nat.lt_trichotomy (length ss) (length st)) as [L|[L|L]]; [|exact L|].
  - exfalso. assert (X : nth_error ss (length ss) = None) by (apply nth_error_None; lia).
    rewrite H in X. apply row_none in X. lia.
  - exfalso. assert (X : row st (length st) = None) by (apply row_none; lia).
    rewrite <- H in X. apply nth_error_None in X. lia.
Qed.

Lemma run_op_loc : forall st o st' ss, WFst st -> LocEq st ss ->
  match o with ORoute _ _ _ => False | _ => True end -> run_op st o = Ok st' -> LocEq st' (sl_step ss o).
Proof.
  intros st o st' ss W LE NR H. pose proof (LocEq_length _ _ LE) as LEN.
  destruct o; cbn [run_op sl_step] in *; try tauto.
  - unfold new_mux in H. destruct (is_valid_path path); [|discriminate]. injection H as <-.
    intros k. unfold row, top_of, path_of. destruct (Nat.lt_ge_cases k (length st)) as [L|L].
    + rewrite !nth_error_app1 by lia. apply LE.
    + rewrite !nth_error_app2 by lia. rewrite LEN. destruct (k - length st)%nat as [|x] eqn:D.
      * cbn. replace k with (length st) by lia. reflexivity.
      * destruct x; reflexivity.
  - unfold do_handle in H.
    destruct (with_root_ok _ _ _ _ W H) as (t & a & p & T & s & T' & TO & Ht & Hs & La & HM & AP & ->).
    intros k. rewrite LE. unfold row, path_of. rewrite (set_top_top_of st t p T T' Ht), (set_top_nth st t p T T' Ht).
    destruct (Nat.eqb k t) eqn:E; [|reflexivity]. apply Nat.eqb_eq in E. subst k. rewrite Ht. reflexivity.
  - unfold do_listen in H.
    destruct (with_root_ok _ _ _ _ W H) as (t & a & p & T & s & T' & TO & Ht & Hs & La & HM & AP & ->).
    intros k. rewrite LE. unfold row, path_of. rewrite (set_top_top_of st t p T T' Ht), (set_top_nth st t p T T' Ht).
    destruct (Nat.eqb k t) eqn:E; [|reflexivity]. apply Nat.eqb_eq in E. subst k. rewrite Ht. reflexivity.
  - destruct (do_mount_ok _ _ _ _ _ W H) as (t & a & p & T & s & S0 & subpath & T' & TO & Ht & Hs & La & HM & ES & TS & Lt & NE & AP & TREE & TOP & PATH).
    assert (Rm : row st m = Some (path_of st m, t, a)) by (unfold row; rewrite TO; reflexivity).
    assert (Rs : row st sub = Some (subpath, sub, [])) by (unfold row, top_of, path_of; rewrite ES; reflexivity).
    rewrite (LE m), (LE sub), Rm, Rs.
    intros k. rewrite nth_error_map. pose proof (LE k) as LK. unfold sloc in *. rewrite LK. unfold row. rewrite TOP, PATH.
    destruct (top_of st k) as [[t1 a1]|]; [|reflexivity]. cbn [option_map moved].
    destruct (Nat.eqb t1 sub); reflexivity.
Qed.

Lemma run_all_loc : forall ops st st' ss, noroute ops = true -> WFst st -> (exists R, Inv1 st R) -> LocEq st ss ->
  run_all st ops = Some st' -> LocEq st' (fold_left sl_step ops ss).
Proof.
  induction ops as [|o r IH]; intros st st' ss NR W I1 LE H.
  - cbn in H. injection H as <-. exact LE.
  - cbn [run_all] in H. destruct (run_op st o) as [s1|e s1] eqn:E; [|discriminate].
    cbn [noroute forallb] in NR. apply Bool.andb_true_iff in NR as [N1 N2].
    assert (NRo : match o with ORoute _ _ _ => False | _ => True end) by (destruct o; try exact I; discriminate N1).
    pose proof (run_op_loc st o s1 ss W LE NRo E) as LE1. destruct I1 as (R & I1).
    assert (WI : WFst s1 /\ exists R2, Inv1 s1 R2).
    { destruct o; cbn [run_op] in E; try tauto.
      - destruct (new_step _ _ _ _ W I1 E) as (A & B & _). eauto.
      - destruct (handle_step _ _ _ _ _ _ _ _ W I1 E) as (A & B). eauto.
      - destruct (listen_step _ _ _ _ _ _ W I1 E) as (A & B). eauto.
      - destruct (mount_step _ _ _ _ _ _ W I1 E) as (A & B). eauto. }
    destruct WI as (W1 & I2). cbn [fold_left]. eapply IH; eauto.
Qed.

Lemma slocs_spec_pf : forall ops st, run_all [] ops = Some st ->
  forall k, nth_error (slocs (desugar ops 0)) k =
            match top_of st k with Some (t, a) => Some (path_of st k, t, a) | None => None end.
Proof.
  intros ops st H. apply run_all_desugar in H. cbn [length] in H.
  apply (run_all_loc _ [] st [] (noroute_desugar ops 0) WFst_nil (ex_intro _ [] Inv1_nil)); [|exact H].
  intros k. unfold row, top_of. destruct k; reflexivity.
Qed.

(* mount_patterns with the positions computed from the op list alone *)
Lemma mount_patterns_ops_pf : forall ops st, run_all [] ops = Some st ->
  let ops' := desugar ops 0 in
  forall t p T, nth_error st t = Some (p, Top T) -> forall q hid,
  has_hid T q hid <->
  exists r, In r (handles ops') /\ sr_hid r = hid /\ top_mux (slocs ops') (sr_mux r) = Some t /\
            q = skel (map ptok_of (full_toks (slocs ops') r)).
Proof.
  intros ops st H ops' t p T Ht q hid. rewrite (mount_patterns_skel_pf ops st H t p T Ht q hid). fold ops'.
  pose proof (slocs_spec_pf ops st H) as SL. fold ops' in SL.
  split.
  - intros (r & a & I & Hh & TO & Q). exists r. split; [exact I|]. split; [exact Hh|].
    unfold top_mux, full_toks. rewrite SL, TO. auto.
  - intros (r & I & Hh & TM & Q). unfold top_mux, full_toks in *. rewrite SL in TM, Q.
    destruct (top_of st (sr_mux r)) as [[t1 a1]|] eqn:TO; [|discriminate]. injection TM as ->.
    exists r, a1. auto.
Qed.
