(* group_spec and params_exact for one mux without mounts. *)
From GoRes Require Import Mux.Spec Pattern.Lemmas Mux.ProofsMatch Mux.ProofsOrder Mux.ProofsFetch Mux.ProofsFlat
  Mux.ProofsLookup Mux.ProofsTop Mux.ProofsReg.
From Coq Require Import Lia Arith PeanoNat.
Open Scope N_scope.

(* ---- in a flat trie fetch hands fin the pattern's own params and mountIdx 0 ---- *)
Definition tok_param (i : nat) (t : bytes) : list pparam :=
  match t with c :: tn => if c =? dollar then [(tn, i)] else [] | [] => [] end.
Fixpoint pparams (i : nat) (toks : list bytes) : list pparam :=
  match toks with [] => [] | t :: r => tok_param i t ++ pparams (S i) r end.

Lemma fetch_step_ps : forall v0 t rest i mi ps l edge child ps' mk,
  fetch_step v0 t rest i mi ps l = FS_go _ _ _ _ _ _ _ edge child ps' mk -> ps' = ps ++ tok_param (i - mi) t.
Proof.
  intros v0 t rest i mi ps [hs pp lits pa wi mo ls] edge child ps' mk H.
  cbn [fetch_step] in H. destruct t as [|c tn]; [discriminate|]. cbn [tok_param].
  destruct ((c =? dollar) || (c =? star)) eqn:PH.
  - destruct (if v0 then is_nil tn else Bool.eqb (c =? dollar) (is_nil tn)); [discriminate|].
    destruct ((c =? dollar) && has_name tn ps); [discriminate|]. injection H as _ _ <- _.
    destruct (c =? dollar); [reflexivity|rewrite app_nil_r; reflexivity].
  - apply Bool.orb_false_iff in PH as [D _]. rewrite D, app_nil_r. destruct (c =? gt).
    + destruct (negb (is_nil tn) || negb (is_nil rest)); [discriminate|]. injection H as _ _ <- _. reflexivity.
    + injection H as _ _ <- _. reflexivity.
Qed.

Lemma flat_step_child : forall v0 t rest i mi ps l edge child ps' mk,
  fetch_step v0 t rest i mi ps l = FS_go _ _ _ _ _ _ _ edge child ps' mk ->
  Inv P_flat [] l -> Inv P_flat [] child.
Proof.
  intros v0 t rest i mi ps l edge child ps' mk ST FL.
  destruct (fetch_step_ok _ _ _ _ _ _ _ _ _ _ _ ST) as ([_ SC] & _).
  intros q m Rq. destruct edge as [b0| | |]; try tauto; destruct SC as [-> _];
    destruct (reach_coe _ _ _ Rq) as [(c & E & Rc)|(E & -> & ->)]; try reflexivity.
  - apply (FL (PLit b0 :: q)). eapply R_lit; eauto.
  - apply (FL (PAnon :: q)). eapply R_par; eauto.
  - apply (FL (PFull :: q)). eapply R_wild; eauto.
Qed.

Lemma fetch_flat_norm : forall v0 fin toks i ps fr l F,
  F = ps ++ pparams i toks -> Inv P_flat [] l ->
  fetch_gen v0 fin None toks i 0 ps fr l = fetch_gen v0 (fun fr n _ _ => fin fr n F 0%nat) None toks i 0 ps fr l.
Proof.
  induction toks as [|t rest IH]; intros i ps fr l F EF FL.
  - cbn [fetch_gen pparams] in *. rewrite app_nil_r in EF. subst F. reflexivity.
  - rewrite !fetch_cons. cbv zeta.
    assert (ML : node_mounted l = false) by (apply (FL [] l (R_nil l))). rewrite ML.
    destruct (fetch_step v0 t rest i 0 ps l) as [e|edge child ps' mk] eqn:ST; [reflexivity|].
    f_equal. apply IH.
    + rewrite (fetch_step_ps _ _ _ _ _ _ _ _ _ _ _ ST), Nat.sub_0_r, <- app_assoc. exact EF.
    + eapply flat_step_child; eauto.
Qed.

(* ---- the group string is the substituted template ---- *)
Section GroupSubst.
Variable pt : list bytes.       (* pattern tokens *)
Variable nt : list bytes.       (* name tokens *)
Variable vals : amap.
Hypothesis link : forall tag,
  match find_tok (dollar :: tag) pt 0 with
  | Some j => exists v, nth_error nt j = Some v /\ alookup tag vals = Some v
  | None => alookup tag vals = None
  end.

Definition pre_of (md : gmode) : bytes := match md with GDef acc => rev acc | _ => [] end.
Definition smode_of (md : gmode) : smode := match md with GDef _ => SText | GDollar => SDollar | GTag acc => STag acc end.
Definition obind {A B} (o : option A) (f : A -> option B) : option B := match o with Some a => f a | None => None end.

Lemma group_concat_flush : forall acc r,
  group_concat nt (flush acc r) = option_map (fun s => rev acc ++ s) (group_concat nt r).
Proof.
  intros acc r. unfold flush. destruct acc as [|a acc]; cbn [group_concat].
  - destruct (group_concat nt r); reflexivity.
  - destruct (group_concat nt r); reflexivity.
Qed.

Lemma parse_subst : forall g md,
  obind (parse_group_go pt md g) (group_concat nt) =
  option_map (fun s => pre_of md ++ s) (subst_go vals (smode_of md) g).
Proof.
  induction g as [|c g IH]; intros md.
  - destruct md as [acc| |acc]; cbn; try reflexivity.
    rewrite group_concat_flush. reflexivity.
  - destruct md as [acc| |acc]; cbn [parse_group_go subst_go smode_of pre_of].
    + destruct (c =? dollar).
      * specialize (IH GDollar). cbn [smode_of pre_of] in IH.
        destruct (parse_group_go pt GDollar g) as [r|]; cbn [obind] in *.
        -- rewrite group_concat_flush, IH. destruct (subst_go vals SDollar g); reflexivity.
        -- destruct (subst_go vals SDollar g); [discriminate|reflexivity].
      * specialize (IH (GDef (c :: acc))). cbn [smode_of pre_of] in IH. rewrite IH.
        destruct (subst_go vals SText g); cbn; [|reflexivity]. rewrite <- app_assoc. reflexivity.
    + destruct (c =? lbrace); [apply (IH (GTag []))|reflexivity].
    + destruct (c =? rbrace).
      * destruct acc as [|a acc]; [reflexivity|].
        pose proof (link (rev (a :: acc))) as L.
        destruct (find_tok (dollar :: rev (a :: acc)) pt 0) as [j|].
        -- destruct L as (v & N & A). rewrite A. specialize (IH (GDef [])). cbn [smode_of pre_of rev app] in IH.
           destruct (parse_group_go pt (GDef []) g) as [r|]; cbn [obind ocons group_concat] in *.
           ++ rewrite N. destruct (group_concat nt r); destruct (subst_go vals SText g); cbn in *; congruence.
           ++ destruct (subst_go vals SText g); [discriminate|reflexivity].
        -- rewrite L. reflexivity.
      * destruct (tag_char c); [apply (IH (GTag (c :: acc)))|reflexivity].
Qed.
End GroupSubst.

Lemma group_to_string_concat : forall rname nt parts,
  group_to_string rname nt (Some parts) = group_concat nt parts.
Proof.
  intros rname nt [|a r]; [reflexivity|]. destruct a as [x|j|]; try reflexivity.
  destruct r; [cbn; rewrite app_nil_r; reflexivity|reflexivity].
Qed.

Lemma find_tok_ge : forall tag l j k, find_tok tag l j = Some k -> (j <= k)%nat.
Proof.
  induction l as [|t r IH]; intros j k H; cbn in H; [discriminate|].
  destruct (beq t tag); [injection H as <-; lia|]. apply IH in H. lia.
Qed.

Lemma ptok_of_dollar : forall n, ptok_of (dollar :: n) = PParam n.
Proof. reflexivity. Qed.
Lemma ptok_of_not_param : forall t, (forall n, t <> dollar :: n) -> forall x, ptok_of t <> PParam x.
Proof.
  intros t H x E. unfold ptok_of, kind in E. destruct t as [|c r]; [discriminate|].
  destruct (c =? dollar) eqn:D; [apply N.eqb_eq in D; subst; eapply H; reflexivity|].
  destruct (c =? star); [discriminate|]. destruct (c =? gt); discriminate.
Qed.

Lemma link_pvalues : forall pt nt, pmatch (map ptok_of pt) nt = true -> forall tag j,
  match find_tok (dollar :: tag) pt j with
  | Some k => exists v, nth_error nt (k - j) = Some v /\ alookup tag (pvalues (map ptok_of pt) nt) = Some v
  | None => alookup tag (pvalues (map ptok_of pt) nt) = None
  end.
Proof.
  induction pt as [|t r IH]; intros nt M tag j; [reflexivity|].
  cbn [map] in M. destruct nt as [|x s]; [apply pmatch_nil_inv in M; discriminate|].
  cbn [find_tok].
  destruct (pmatch_cons_inv _ _ _ _ M) as [[E1 E2]|(NF & M' & _)].
  - (* the final '>' *)
    cbn [map]. rewrite E1. destruct r; [|discriminate]. cbn [find_tok pvalues].
    destruct (beq t (dollar :: tag)) eqn:B; [|reflexivity].
    apply beq_eq in B. subst t. discriminate.
  - destruct (beq t (dollar :: tag)) eqn:B.
    + apply beq_eq in B. subst t. rewrite Nat.sub_diag. cbn [map pvalues nth_error]. rewrite ptok_of_dollar.
      exists x. split; [reflexivity|]. cbn [alookup]. rewrite beq_refl. reflexivity.
    + specialize (IH s M' tag (S j)).
      assert (AL : alookup tag (pvalues (map ptok_of (t :: r)) (x :: s)) = alookup tag (pvalues (map ptok_of r) s)).
      { cbn [map pvalues]. destruct (ptok_of t) as [a|n| |] eqn:PT; try reflexivity.
        cbn [alookup]. destruct (beq tag n) eqn:B2; [|reflexivity]. exfalso.
        apply beq_eq in B2. subst n. unfold ptok_of, kind in PT. destruct t as [|c tn]; [discriminate|].
        destruct (c =? dollar) eqn:D.
        - injection PT as <-. apply N.eqb_eq in D. subst c. rewrite beq_refl in B. discriminate.
        - destruct (c =? star); [discriminate|]. destruct (c =? gt); discriminate. }
      rewrite AL. destruct (find_tok (dollar :: tag) r (S j)) as [k|] eqn:F; [|exact IH].
      destruct IH as (v & N & A). exists v. split; [|exact A].
      apply find_tok_ge in F. replace (k - j)%nat with (S (k - S j)) by lia. exact N.
Qed.

Lemma pmatch_skel : forall p s, pmatch (skel p) s = pmatch p s.
Proof.
  induction p as [|a p IH]; intros s; [reflexivity|].
  destruct a; cbn [skel map skel1 pmatch]; fold (skel p); try (destruct s; [reflexivity|rewrite IH; reflexivity]).
  destruct p; reflexivity.
Qed.

Lemma group_spec_lemma : forall par grp pat g name nt,
  pgroup par grp pat = Some g -> pmatch (ptoks pat) nt = true ->
  group_to_string name nt g = group_spec_of par grp name (pvalues (ptoks pat) nt).
Proof.
  intros par grp pat g name nt PG M. unfold pgroup in PG. unfold group_spec_of. destruct par.
  - injection PG as <-. reflexivity.
  - unfold parse_group in PG. destruct grp as [|c grp]; [injection PG as <-; reflexivity|].
    destruct (parse_group_go (split_pattern pat) (GDef []) (c :: grp)) as [parts|] eqn:E; [|discriminate].
    injection PG as <-. rewrite group_to_string_concat.
    pose proof (parse_subst (split_pattern pat) nt (pvalues (ptoks pat) nt)) as PS.
    assert (L : forall tag, match find_tok (dollar :: tag) (split_pattern pat) 0 with
                | Some j => exists v, nth_error nt j = Some v /\ alookup tag (pvalues (ptoks pat) nt) = Some v
                | None => alookup tag (pvalues (ptoks pat) nt) = None end).
    { intros tag. pose proof (link_pvalues (split_pattern pat) nt M tag 0%nat) as X.
      destruct (find_tok (dollar :: tag) (split_pattern pat) 0) as [k|]; [|exact X].
      rewrite Nat.sub_0_r in X. exact X. }
    specialize (PS L (c :: grp) (GDef [])). rewrite E in PS. cbn [obind smode_of pre_of rev app] in PS.
    rewrite PS. destruct (subst_go (pvalues (ptoks pat) nt) SText (c :: grp)); reflexivity.
Qed.

(* ---- reading the params of the pattern's own param list gives pvalues ---- *)
Lemma read_pparams : forall pt nt i pre, pmatch (map ptok_of pt) nt = true -> length pre = i ->
  read_params (pre ++ nt) 0 (pparams i pt) = Some (pvalues (map ptok_of pt) nt).
Proof.
  induction pt as [|t r IH]; intros nt i pre M L; [reflexivity|].
  cbn [map] in M. destruct nt as [|x s]; [apply pmatch_nil_inv in M; discriminate|].
  cbn [pparams map].
  destruct (pmatch_cons_inv _ _ _ _ M) as [[E1 E2]|(NF & M' & _)].
  - destruct r; [|discriminate]. rewrite E1. cbn [pparams pvalues]. rewrite app_nil_r.
    unfold ptok_of, kind in E1. destruct t as [|c tn]; [discriminate|]. cbn [tok_param].
    destruct (c =? dollar); [discriminate|]. reflexivity.
  - specialize (IH s (S i) (pre ++ [x]) M' ltac:(rewrite app_length; cbn; lia)).
    rewrite <- app_assoc in IH. cbn [app] in IH.
    destruct t as [|c tn]; [cbn [tok_param app pvalues ptok_of kind]; exact IH|].
    cbn [tok_param]. unfold ptok_of at 1, kind. destruct (c =? dollar) eqn:D.
    + cbn [app read_params pvalues]. rewrite Nat.add_0_r.
      rewrite nth_error_app2 by lia. rewrite L, Nat.sub_diag. cbn [nth_error]. rewrite IH. reflexivity.
    + cbn [app]. destruct (c =? star); [exact IH|]. destruct (c =? gt); exact IH.
Qed.

(* ---- the registry invariant: a handler in the trie is one accepted Handle call ---- *)
Lemma fregs_fent : forall ops root, fregs root ops = map (fun e => (e_skel e, e_hid e)) (fent root ops).
Proof.
  induction ops as [|o r IH]; intros root; [reflexivity|]. cbn [fregs fent]. rewrite map_app, IH.
  destruct o; [destruct (is_ok _)|]; reflexivity.
Qed.

Definition P_reg (S : list entry) (path : list ptok) (n : node) : Prop :=
  forall hid g, node_hs n = Some (hid, g) ->
    exists e, In e S /\ e_hid e = hid /\ e_skel e = path /\ pgroup (e_par e) (e_grp e) (e_pat e) = Some g /\
              node_params n = Some (pparams 0 (split_pattern (e_pat e))).

Lemma P_reg_loc : forall S path n n', loc_eq n n' -> P_reg S path n -> P_reg S path n'.
Proof. intros S path n n' (E1 & E2 & _ & _) H. unfold P_reg in *. rewrite E1, E2. exact H. Qed.
Lemma P_reg_empty : forall S path, P_reg S path empty_node.
Proof. intros S path hid g X. discriminate. Qed.
Lemma P_reg_mono : forall S S' path n, (forall e, In e S -> In e S') -> P_reg S path n -> P_reg S' path n.
Proof.
  intros S S' path n Sub H hid g X.
  destruct (H hid g X) as (e & I & R). exists e. split; [apply Sub, I|exact R].
Qed.

Lemma add_flat_norm : forall root pat hid grp par, Inv P_flat [] root ->
  add root pat hid grp par =
  match pgroup par grp pat with
  | None => Panic EGroup root
  | Some g => if negb (is_valid pat) then Panic EInvalid root
              else fetch_gen false (fun fr n _ _ => add_fin true hid g fr n (pparams 0 (split_pattern pat)) 0%nat)
                             None (split_pattern pat) 0 0 [] false root
  end.
Proof.
  intros root pat hid grp par FL. rewrite add_unfold.
  destruct (pgroup par grp pat) as [g|]; [|reflexivity]. destruct (negb (is_valid pat)); [reflexivity|].
  apply fetch_flat_norm; [reflexivity|exact FL].
Qed.

Lemma const_fin_kids : forall hid g ps0 fr n (ps : list pparam) (mi : nat),
  kids_eq n (out_state ((fun fr n (_ : list pparam) (_ : nat) => add_fin true hid g fr n ps0 0%nat) fr n ps mi)).
Proof. intros. apply add_fin_kids. Qed.

Lemma frun_op_reg : forall S root o,
  Inv P_flat [] root -> Inv (P_reg S) [] root ->
  Inv (P_reg (S ++ match o with
                   | FHandle pat hid grp par => if is_ok (frun_op root o) then [Ent pat hid grp par] else []
                   | FListen _ _ => [] end)) [] (out_state (frun_op root o)).
Proof.
  intros S root o FL I.
  destruct o as [pat hid grp par|pat l]; cbn [frun_op] in *.
  - set (S' := S ++ (if is_ok (add root pat hid grp par) then [Ent pat hid grp par] else [])).
    assert (I' : Inv (P_reg S') [] root).
    { intros q m Rq. eapply P_reg_mono; [|apply I, Rq]. intros e Ie. apply in_app_iff. left. exact Ie. }
    assert (SB : is_ok (add root pat hid grp par) = true -> In (Ent pat hid grp par) S').
    { intros X. unfold S'. rewrite X. apply in_app_iff. right. left. reflexivity. }
    clearbody S'.
    remember (is_ok (add root pat hid grp par)) as b eqn:Hb. symmetry in Hb.
    revert Hb. rewrite (add_flat_norm root pat hid grp par FL). intros Hb.
    destruct (pgroup par grp pat) as [g|] eqn:PG; [|exact I'].
    destruct (negb (is_valid pat)); [exact I'|].
    apply (fetch_inv (P_reg S') (P_reg_loc S') (fun path _ => P_reg_empty S' path) false _
             (const_fin_kids hid g (pparams 0 (split_pattern pat))) Q_true
             (fun _ _ _ _ => Logic.I) (fun _ _ _ _ _ => Logic.I) _ _ _ _ _ _ _ b Hb); auto; try exact Logic.I.
    intros fr n ps' Hb' _ Pn. cbn [app] in *.
    assert (Pn' : P_reg S' (sk (split_pattern pat)) n) by (destruct Pn as [X| ->]; [exact X|apply P_reg_empty]).
    destruct (add_fin true hid g fr n (pparams 0 (split_pattern pat)) 0%nat) as [n'|e n'] eqn:E; cbn [out_state].
    + cbn in Hb'. subst b. destruct (loc_add_fin _ _ _ _ _ _ _ _ E) as (HS & E1 & _ & _ & E2 & _).
      intros hid' g' X. rewrite E1 in X. cbn in X. injection X as <- <-.
      exists (Ent pat hid grp par). split; [apply SB; symmetry; exact Hb'|].
      split; [reflexivity|]. split; [apply skel_ptoks|]. split; [exact PG|exact E2].
    + apply add_fin_panic_state in E. subst n'. exact Pn'.
  - rewrite app_nil_r.
    apply (listen_inv (P_reg S) (P_reg_loc S) (fun path _ => P_reg_empty S path) Q_true
             (fun _ _ _ _ => Logic.I) (fun _ _ _ _ _ => Logic.I) Logic.I)
      with (b := is_ok (add_listener root pat l)); auto.
    intros fr n ps' _ _ Pn.
    assert (Pn' : P_reg S (sk (split_pattern pat)) n) by (destruct Pn as [X| ->]; [exact X|apply P_reg_empty]).
    destruct (listen_fin l fr n ps' 0%nat) as [n'|e n'] eqn:E; cbn [out_state].
    + destruct (loc_listen_fin _ _ _ _ _ _ E) as (E1 & _ & _ & E2 & E3).
      intros hid g X. rewrite E1 in X. destruct (Pn' hid g X) as (e & Ie & A & B & C & D).
      exists e. repeat split; auto. rewrite E2. destruct E3 as [E3|E3]; congruence.
    + apply listen_fin_panic_state in E. subst n'. exact Pn'.
Qed.

Lemma frun_reg : forall ops S root,
  flat_inv root -> Inv (P_reg S) [] root -> Inv (P_reg (S ++ fent root ops)) [] (frun root ops).
Proof.
  induction ops as [|o r IH]; intros S root FI I; cbn [frun fent].
  - rewrite app_nil_r. exact I.
  - rewrite app_assoc. apply IH.
    + apply (flat_inv_frun [o] root FI).
    + apply frun_op_reg; [apply FI|exact I].
Qed.

(* ---- accepted Handle calls have pairwise different skeletons ---- *)
Lemma fetch_ok_fin : forall v0 fin (Good : node -> Prop),
  (forall fr n ps mi n', fin fr n ps mi = Ok n' -> Good n) ->
  forall toks i mi ps fr l l', fetch_gen v0 fin None toks i mi ps fr l = Ok l' ->
  forall m, reach l (sk toks) m -> Good m.
Proof.
  intros v0 fin Good HG. induction toks as [|t rest IH]; intros i mi ps fr l l' H m Rm.
  - cbn in *. inversion Rm; subst. eapply HG; eauto.
  - rewrite fetch_cons in H. cbv zeta in H.
    destruct (fetch_step v0 t rest i (if node_mounted l then i else mi) ps l) as [e|edge child ps' mk] eqn:ST; [discriminate|].
    destruct (fetch_step_ok _ _ _ _ _ _ _ _ _ _ _ ST) as ([_ SC] & EE & _).
    destruct (fetch_gen v0 fin None rest (S i) (if node_mounted l then i else mi) ps' false child) as [c'|e c'] eqn:F; [|discriminate].
    change (sk (t :: rest)) with (sk1 t :: sk rest) in Rm. rewrite <- EE in Rm.
    apply (IH _ _ _ _ _ _ F).
    destruct edge as [b0|x| |]; [|destruct SC| |]; destruct SC as [-> _]; inversion Rm; subst;
      match goal with HH : _ = Some _ |- _ => rewrite HH end; cbn [child_or_empty]; assumption.
Qed.

Lemma add_ok_fresh : forall root pat hid grp par, is_ok (add root pat hid grp par) = true ->
  forall h, ~ has_pattern root (skel (ptoks pat)) h.
Proof.
  intros root pat hid grp par H h Hp. rewrite add_unfold in H.
  destruct (pgroup par grp pat) as [g|]; [|discriminate]. destruct (negb (is_valid pat)); [discriminate|].
  destruct (fetch_gen false (add_fin true hid g) None (split_pattern pat) 0 0 [] false root) as [l'|e l'] eqn:F; [|discriminate].
  apply has_pattern_reach in Hp. destruct Hp as (m & Rm & Em). rewrite skel_ptoks in Rm.
  assert (G : node_hs m = None).
  { apply (fetch_ok_fin false (add_fin true hid g) (fun n => node_hs n = None)) with (1 := fun fr n ps mi n' E => proj1 (loc_add_fin _ _ _ _ _ _ _ _ E)) (2 := F) (3 := Rm). }
  congruence.
Qed.

Lemma frun_op_keeps : forall root o q h, has_pattern root q h -> has_pattern (out_state (frun_op root o)) q h.
Proof.
  intros root o q h H. destruct o as [pat hid grp par|pat l]; cbn [frun_op].
  - destruct (add_pats root pat hid grp par) as (oh & _ & HP). apply HP. right. exact H.
  - apply listen_pats. exact H.
Qed.

Lemma fent_fresh : forall ops root e, In e (fent root ops) -> forall h, ~ has_pattern root (e_skel e) h.
Proof.
  induction ops as [|o r IH]; intros root e I h Hp; [destruct I|].
  cbn [fent] in I. apply in_app_iff in I as [I|I].
  - destruct o as [pat hid grp par|pat l]; [|destruct I].
    destruct (is_ok (frun_op root (FHandle pat hid grp par))) eqn:OK; [|destruct I].
    destruct I as [<-|[]]. eapply add_ok_fresh; eauto.
  - eapply IH; [exact I|]. apply frun_op_keeps. exact Hp.
Qed.

Lemma fent_unique : forall ops root e1 e2, In e1 (fent root ops) -> In e2 (fent root ops) ->
  e_skel e1 = e_skel e2 -> e1 = e2.
Proof.
  induction ops as [|o r IH]; intros root e1 e2 I1 I2 E; [destruct I1|].
  cbn [fent] in I1, I2. apply in_app_iff in I1, I2.
  assert (HD : forall e e', In e (match o with
                  | FHandle pat hid grp par => if is_ok (frun_op root o) then [Ent pat hid grp par] else []
                  | FListen _ _ => [] end) -> In e' (fent (out_state (frun_op root o)) r) -> e_skel e = e_skel e' -> False).
  { intros e e' Ie Ie' Es. destruct o as [pat hid grp par|pat l]; [|destruct Ie].
    destruct (is_ok (frun_op root (FHandle pat hid grp par))) eqn:OK; [|destruct Ie]. destruct Ie as [<-|[]].
    cbn [frun_op] in *. destruct (add_pats root pat hid grp par) as (oh & HR & HP). rewrite OK in HR.
    destruct HR as (g & ->). eapply (fent_fresh _ _ _ Ie' (hid, g)). apply HP. left. split; [|reflexivity].
    symmetry. exact Es. }
  destruct I1 as [I1|I1], I2 as [I2|I2].
  - destruct o as [pat hid grp par|pat l]; [|destruct I1]. destruct (is_ok _); [|destruct I1].
    destruct I1 as [<-|[]], I2 as [<-|[]]. reflexivity.
  - destruct (HD e1 e2 I1 I2 E).
  - destruct (HD e2 e1 I2 I1 (eq_sym E)).
  - eapply IH; eauto.
Qed.

(* ---- group_spec and params_exact for one mux ---- *)
Lemma lookup_full_flat_pf : forall path ops name,
  is_valid_path path = true ->
  validate_listeners (flat_state path ops) 0 = true ->
  match spec_strip path name with
  | None => get_handler (flat_state path ops) 0 name = LNone
  | Some toks =>
    match best_of e_skel (fent empty_node ops) toks with
    | None => get_handler (flat_state path ops) 0 name = LNone
    | Some e => exists ls gs,
        get_handler (flat_state path ops) 0 name = LHit (e_hid e) ls (pvalues (ptoks (e_pat e)) toks) gs /\
        group_spec_of (e_par e) (e_grp e) name (pvalues (ptoks (e_pat e)) toks) = Some gs
    end
  end.
Proof.
  intros path ops name VP VL. rewrite flat_state_eq in * by exact VP.
  rewrite get_handler_flat. rewrite validate_flat in VL. rewrite (spec_strip_code path name).
  pose proof (lookup_flat_pf path ops name VL) as H. cbv zeta in H.
  destruct (stripped_toks (strip_path path name)) as [tk|]; [|exact H].
  rewrite fregs_fent in H.
  assert (BM : forall l, best_of fst (map (fun e => (e_skel e, e_hid e)) l) tk =
                         option_map (fun e => (e_skel e, e_hid e)) (best_of e_skel l tk)).
  { induction l as [|x r IHl]; [reflexivity|]. cbn [map best_of fst]. rewrite IHl.
    destruct (pmatch (e_skel x) tk); [|reflexivity].
    destruct (best_of e_skel r tk) as [y|]; cbn [option_map fst]; [|reflexivity].
    destruct (better (e_skel y) (e_skel x)); reflexivity. }
  rewrite BM in H. destruct (best_of e_skel (fent empty_node ops) tk) as [e|] eqn:BO; cbn [option_map] in H; [|exact H].
  destruct H as (n & g & ps & gs & Rn & HS & M & RP & GS & E).
  destruct (best_of_some _ _ _ _ _ BO) as (Ie & _ & _).
  pose proof (frun_reg ops [] empty_node flat_inv_empty (Inv_empty _ _ (P_reg_empty [] []))) as IR.
  destruct (IR _ _ Rn _ _ HS) as (e' & Ie' & A & B & C & D). cbn [app] in *.
  assert (e' = e) by (eapply fent_unique; eauto). subst e'.
  assert (M' : pmatch (ptoks (e_pat e)) tk = true) by (rewrite <- pmatch_skel; exact M).
  exists (node_ls n), gs. split.
  - rewrite E. f_equal. unfold node_plist in RP. rewrite D in RP.
    pose proof (read_pparams (split_pattern (e_pat e)) tk 0%nat [] M' eq_refl) as RR. cbn [app] in RR.
    unfold ptoks. congruence.
  - rewrite <- (group_spec_lemma _ _ _ g name tk C M'). exact GS.
Qed.
