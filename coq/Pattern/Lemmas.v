(* Token-level helper lemmas for Pattern/Proofs.v *)
From GoRes Require Import Pattern.Spec.
From Coq Require Import Lia.
Open Scope N_scope.

(* ---------- basic facts ---------- *)
Lemma beq_refl : forall a, beq a a = true.
Proof. induction a as [|x a IH]; cbn [beq]; [reflexivity|]. rewrite N.eqb_refl, IH. reflexivity. Qed.

Lemma beq_eq : forall a b, beq a b = true -> a = b.
Proof.
  induction a as [|x a IH]; intros [|y b] H; cbn [beq] in H; try discriminate; [reflexivity|].
  apply andb_true_iff in H. destruct H as [H1 H2]. apply N.eqb_eq in H1. subst y.
  f_equal. apply IH. exact H2.
Qed.

Lemma beq_sym : forall a b, beq a b = beq b a.
Proof.
  induction a as [|x a IH]; intros [|y b]; cbn [beq]; try reflexivity.
  rewrite N.eqb_sym, IH. reflexivity.
Qed.

(* ---------- non-accumulating tokenizer ---------- *)
Fixpoint toks (s : bytes) : list bytes :=
  match s with
  | [] => [[]]
  | c :: s' => if c =? dot then [] :: toks s' else (c :: hd [] (toks s')) :: tl (toks s')
  end.

Lemma toks_eta : forall s, toks s = hd [] (toks s) :: tl (toks s).
Proof. destruct s as [|c s]; cbn [toks]; [reflexivity|]. destruct (c =? dot); reflexivity. Qed.

Lemma tokens_go_toks : forall s cur, tokens_go cur s = (rev cur ++ hd [] (toks s)) :: tl (toks s).
Proof.
  induction s as [|c s IH]; intros cur; cbn [tokens_go toks].
  - cbn [hd tl]. rewrite app_nil_r. reflexivity.
  - destruct (c =? dot); cbn [hd tl].
    + rewrite app_nil_r. rewrite IH. cbn [rev app]. rewrite <- toks_eta. reflexivity.
    + rewrite IH. cbn [rev]. rewrite <- app_assoc. reflexivity.
Qed.

Lemma tokens_toks : forall s, tokens s = toks s.
Proof. intros s. unfold tokens. rewrite tokens_go_toks. cbn [rev app]. symmetry. apply toks_eta. Qed.

Lemma toks_nil_iff : forall s, is_nil (hd [] (toks s)) && is_nil (tl (toks s)) = is_nil s.
Proof.
  destruct s as [|c s]; cbn [toks]; [reflexivity|].
  destruct (c =? dot); cbn [hd tl is_nil]; [|reflexivity].
  rewrite (toks_eta s). reflexivity.
Qed.

Lemma tl_toks_nonnil : forall s, is_nil (toks s) = false.
Proof. intros s. rewrite toks_eta. reflexivity. Qed.

(* boundary: empty or at a dot *)
Definition bnd (s : bytes) : bool := match s with [] => true | d :: _ => d =? dot end.

Lemma span_tok_spec : forall s,
  fst (span_tok s) = hd [] (toks s) /\ bnd (snd (span_tok s)) = true /\
  tl (toks (snd (span_tok s))) = tl (toks s).
Proof.
  induction s as [|c s IH]; cbn [span_tok toks].
  - cbn. auto.
  - destruct (N.eqb_spec c dot) as [E|E].
    + cbn [fst snd hd tl bnd toks]. subst c. rewrite N.eqb_refl. cbn [tl]. auto.
    + destruct (span_tok s) as [t r]. cbn [fst snd hd tl] in *. destruct IH as (H1 & H2 & H3).
      subst t. auto.
Qed.

Lemma bnd_hd : forall s, bnd s = true -> hd [] (toks s) = [].
Proof.
  destruct s as [|d s]; cbn [bnd toks]; [reflexivity|]. intros H. rewrite H. reflexivity.
Qed.

Lemma bnd_tl_nil : forall s, bnd s = true -> is_nil (tl (toks s)) = is_nil s.
Proof.
  intros s H. rewrite <- toks_nil_iff. rewrite (bnd_hd s H). reflexivity.
Qed.
Lemma beq_nil_l : forall x, beq [] x = is_nil x.
Proof. destruct x; reflexivity. Qed.
Lemma beq_nil_r : forall x, beq x [] = is_nil x.
Proof. destruct x; reflexivity. Qed.
Lemma tmatch_nil_l : forall y, tmatch [] y = is_nil y.
Proof. destruct y; reflexivity. Qed.
Lemma tmatch_nil_r : forall y, tmatch y [] = is_nil y.
Proof. destruct y; reflexivity. Qed.

Ltac ev_consts :=
  repeat match goal with
  | |- context [N.eqb ?a ?b] =>
    let v := eval vm_compute in (N.eqb a b) in
    match v with
    | true => change (N.eqb a b) with true
    | false => change (N.eqb a b) with false
    end
  | |- context [N.ltb ?a ?b] =>
    let v := eval vm_compute in (N.ltb a b) in
    match v with
    | true => change (N.ltb a b) with true
    | false => change (N.ltb a b) with false
    end
  end.

Ltac neqb c k := 
  destruct (N.eqb_spec c k) as [->|?]; 
  [| assert ((c =? k) = false) by (apply N.eqb_neq; assumption) ].

Ltac ccase c :=
  neqb c dot; [| neqb c dollar; [| neqb c star; [| neqb c gt ]]].

Ltac rwc := repeat match goal with H : N.eqb _ _ = false |- _ => progress rewrite H end.

Ltac smp := repeat (progress (cbn [tmatch kind beq hd tl is_nil starts_gt andb orb negb toks snd fst bnd]; ev_consts; rwc)).

Ltac neqb c k ::= 
  destruct (N.eqb_spec c k) as [->|?]; 
  [| assert ((c =? k) = false) by (apply N.eqb_neq; assumption);
     assert ((k =? c) = false) by (apply N.eqb_neq; apply not_eq_sym; assumption) ].

Lemma matches_go_spec : forall p,
  (forall s, matches_go true false p s = tmatch (toks p) (toks s)) /\
  (forall s, bnd s = true -> matches_go false true p s = tmatch (tl (toks p)) (tl (toks s))) /\
  (forall s, matches_go false false p s =
             beq (hd [] (toks p)) (hd [] (toks s)) && tmatch (tl (toks p)) (tl (toks s))).
Proof.
  induction p as [|c p IH].
  - assert (C : forall s, is_nil s = beq [] (hd [] (toks s)) && tmatch [] (tl (toks s))).
    { intros s. rewrite beq_nil_l, tmatch_nil_l. symmetry. apply toks_nil_iff. }
    split; [|split]; intros s.
    + cbn [matches_go toks]. rewrite (toks_eta s). cbn [tmatch kind]. apply C.
    + intros B. cbn [matches_go toks tl]. rewrite tmatch_nil_l. symmetry. apply bnd_tl_nil. exact B.
    + cbn [matches_go toks hd tl]. apply C.
  - destruct IH as (IHA & IHB & IHC).
    split; [|split]; intros s.
    + cbn [matches_go andb]. 
      destruct s as [|d s].
      * ccase c; smp; rewrite ?tmatch_nil_r, ?tl_toks_nonnil, ?andb_false_r; try reflexivity.
      * pose proof (span_tok_spec (d :: s)) as (S1 & S2 & S3).
        ccase c; smp; rewrite ?IHA, ?IHC, ?(IHB _ S2), ?S3.
        all: ccase d; smp; rewrite ?N.eqb_refl; smp; try reflexivity.
        all: rewrite ?tl_toks_nonnil, ?beq_nil_r, ?toks_nil_iff, ?andb_true_r; cbn [negb andb]; try reflexivity.
        destruct (c =? d); cbn [andb]; reflexivity.
    + intros B. cbn [matches_go andb].
      ccase c; smp.
      * destruct s as [|d s]; [smp; rewrite tmatch_nil_r, tl_toks_nonnil; reflexivity|].
        cbn [bnd] in B. apply N.eqb_eq in B. subst d. smp. apply IHA.
      * apply IHB, B.
      * apply IHB, B.
      * apply IHB, B.
      * apply IHB, B.
    + cbn [matches_go andb].
      destruct s as [|d s].
      * neqb c dot; smp; rewrite ?tmatch_nil_r, ?tl_toks_nonnil; reflexivity.
      * neqb c dot; smp; rewrite ?IHA, ?IHC.
        all: neqb d dot; smp; rewrite ?N.eqb_refl; try reflexivity.
        destruct (c =? d); cbn [andb]; reflexivity.
Qed.

Lemma matches_toks : forall p s, matches p s = tmatch (toks p) (toks s).
Proof. intros p s. unfold matches. apply (proj1 (matches_go_spec p)). Qed.

Lemma tvalues_nil_l : forall y m, tvalues [] y m = if is_nil y then Some m else None.
Proof. destruct y; reflexivity. Qed.
Lemma tvalues_nil_r : forall y m, tvalues y [] m = if is_nil y then Some m else None.
Proof. destruct y; reflexivity. Qed.

Ltac smpv := repeat (progress (cbn [tvalues tmatch kind beq hd tl is_nil starts_gt andb orb negb toks snd fst bnd lit_step fin]; ev_consts; rwc)).

Lemma values_go_spec : forall p,
  (forall s m, values_go VStart p s m = tvalues (toks p) (toks s) m) /\
  (forall s m, values_go VLit p s m =
     if beq (hd [] (toks p)) (hd [] (toks s)) then tvalues (tl (toks p)) (tl (toks s)) m else None) /\
  (forall s m acc v, bnd s = true -> values_go (VTag acc v) p s m =
     tvalues (tl (toks p)) (tl (toks s)) ((rev acc ++ hd [] (toks p), v) :: m)) /\
  (forall s m, bnd s = true -> values_go VAnon p s m = tvalues (tl (toks p)) (tl (toks s)) m).
Proof.
  induction p as [|c p IH].
  - assert (C : forall s m, fin s m = if beq [] (hd [] (toks s)) then tvalues [] (tl (toks s)) m else None).
    { intros s m. rewrite beq_nil_l, tvalues_nil_l. unfold fin. rewrite <- toks_nil_iff.
      destruct (is_nil (hd [] (toks s))); destruct (is_nil (tl (toks s))); reflexivity. }
    split; [|split; [|split]].
    + intros s m. cbn [values_go toks]. rewrite (toks_eta s). cbn [tvalues kind]. apply C.
    + intros s m. cbn [values_go toks hd tl]. apply C.
    + intros s m acc v B. cbn [values_go toks hd tl]. rewrite app_nil_r, tvalues_nil_l. unfold fin.
      rewrite (bnd_tl_nil s B). reflexivity.
    + intros s m B. cbn [values_go toks hd tl]. rewrite tvalues_nil_l. unfold fin.
      rewrite (bnd_tl_nil s B). reflexivity.
  - destruct IH as (IHS & IHL & IHT & IHA).
    split; [|split; [|split]].
    + intros s m. cbn [values_go].
      destruct s as [|d s].
      * ccase c; smpv; rewrite ?tvalues_nil_r, ?tl_toks_nonnil; rewrite ?andb_false_r; try reflexivity.
      * assert (NS : is_nil (d :: s) = false) by reflexivity.
        remember (d :: s) as S eqn:ES.
        pose proof (span_tok_spec S) as (S1 & S2 & S3).
        ccase c.
        -- subst S. smpv. neqb d dot; smpv; rewrite ?IHS; reflexivity.
        -- rewrite (surjective_pairing (span_tok S)), S1, (IHT _ _ _ _ S2), S3.
           rewrite (toks_eta S). smpv. rewrite toks_nil_iff, NS. reflexivity.
        -- rewrite (IHA _ _ S2), S3.
           rewrite (toks_eta S). smpv. rewrite toks_nil_iff, NS. reflexivity.
        -- rewrite (toks_eta S). smpv. rewrite toks_nil_iff, NS, beq_nil_r, toks_nil_iff. cbn [negb]. rewrite andb_true_r. reflexivity.
        -- subst S. smpv. destruct (N.eqb_spec c d) as [<-|Ecd].
           ++ rewrite IHL. smpv. rewrite N.eqb_refl. reflexivity.
           ++ apply N.eqb_neq in Ecd. neqb d dot; smpv; rewrite ?Ecd; reflexivity.
    + intros s m. cbn [values_go].
      destruct s as [|d s].
      * neqb c dot; smpv; rewrite ?tvalues_nil_r, ?tl_toks_nonnil; reflexivity.
      * smpv. destruct (N.eqb_spec c d) as [<-|Ecd].
        -- neqb c dot; smpv; rewrite ?IHS, ?IHL, ?N.eqb_refl; reflexivity.
        -- apply N.eqb_neq in Ecd. neqb c dot; neqb d dot; smpv; rewrite ?Ecd; try reflexivity.
           discriminate Ecd.
    + intros s m acc v B. cbn [values_go].
      neqb c dot; smpv.
      * destruct s as [|d s]; [smpv; rewrite tvalues_nil_r, tl_toks_nonnil; reflexivity|].
        cbn [bnd] in B. apply N.eqb_eq in B. subst d. smpv. rewrite app_nil_r. apply IHS.
      * rewrite (IHT _ _ _ _ B). cbn [rev]. rewrite <- app_assoc. reflexivity.
    + intros s m B. cbn [values_go].
      neqb c dot; smpv.
      * destruct s as [|d s]; [smpv; rewrite tvalues_nil_r, tl_toks_nonnil; reflexivity|].
        cbn [bnd] in B. apply N.eqb_eq in B. subst d. smpv. apply IHS.
      * apply IHA, B.
Qed.

Lemma values_toks : forall p s, values p s = tvalues (toks p) (toks s) [].
Proof. intros p s. unfold values. apply (proj1 (values_go_spec p)). Qed.
Lemma join_cons_toks : forall g t p, join (t :: map g (toks p)) = t ++ dot :: join (map g (toks p)).
Proof. intros g t p. rewrite (toks_eta p). reflexivity. Qed.
Lemma join_hd : forall c t ts, join ((c :: t) :: ts) = c :: join (t :: ts).
Proof. intros c t [|x ts]; reflexivity. Qed.

Ltac smpr := repeat (progress (unfold treplace; cbn [ map kind beq hd tl is_nil andb orb negb toks snd fst app]; ev_consts; rwc)).

Lemma replace_go_spec : forall f p,
  replace_go f RStart p = join (map (treplace f) (toks p)) /\
  replace_go f RMid p = join (hd [] (toks p) :: map (treplace f) (tl (toks p))) /\
  (forall acc, replace_go f (RTag acc) p =
     join (emit f (rev acc ++ hd [] (toks p)) :: map (treplace f) (tl (toks p)))).
Proof.
  intros f. induction p as [|c p IH].
  - split; [|split]; [reflexivity|reflexivity|]. intros acc. cbn [replace_go toks hd tl map join].
    rewrite app_nil_r. reflexivity.
  - destruct IH as (IHS & IHM & IHT). split; [|split].
    + cbn [replace_go]. ccase c; smpr.
      * rewrite IHS. rewrite join_cons_toks. reflexivity.
      * rewrite IHT. reflexivity.
      * rewrite IHM, join_hd. reflexivity.
      * rewrite IHM, join_hd. reflexivity.
      * rewrite IHM, join_hd. reflexivity.
    + cbn [replace_go]. neqb c dot; smpr.
      * rewrite IHS, join_cons_toks. reflexivity.
      * rewrite IHM, join_hd. reflexivity.
    + intros acc. cbn [replace_go]. neqb c dot; smpr.
      * rewrite IHS, join_cons_toks, app_nil_r. reflexivity.
      * rewrite IHT. cbn [rev]. rewrite <- app_assoc. reflexivity.
Qed.

Lemma replace_toks : forall f p, replace f p = join (map (treplace f) (toks p)).
Proof. intros f p. unfold replace. apply (proj1 (replace_go_spec f p)). Qed.
Ltac smpi := repeat (progress (cbn [tindex kind beq hd tl is_nil andb orb negb toks snd fst app]; ev_consts; rwc)).

Lemma index_go_spec : forall p i,
  index_wildcard_go true i p = tindex i (toks p) /\
  index_wildcard_go false i p = tindex (i + N.of_nat (length (hd [] (toks p))) + 1) (tl (toks p)).
Proof.
  induction p as [|c p IH]; intros i.
  - split; reflexivity.
  - destruct (IH (i + 1)) as (IHS & IHF). split.
    + cbn [index_wildcard_go]. ccase c; smpi.
      * rewrite IHS. f_equal. cbn [length]. lia.
      * reflexivity.
      * reflexivity.
      * rewrite beq_nil_r, toks_nil_iff. destruct (is_nil p); [reflexivity|].
        cbn [orb]. rewrite IHF. f_equal. cbn [length]. lia.
      * rewrite IHF. f_equal. cbn [length]. lia.
    + cbn [index_wildcard_go]. neqb c dot; smpi.
      * rewrite IHS. f_equal. cbn [length]. lia.
      * rewrite IHF. f_equal. cbn [length]. lia.
Qed.

Lemma index_toks : forall p, index_wildcard p = tindex 0 (toks p).
Proof. intros p. unfold index_wildcard. apply (proj1 (index_go_spec p 0)). Qed.
Definition tailv (ts : list bytes) : bool := is_nil ts || toks_valid ts.

Lemma toks_valid_cons : forall t ts, toks_valid (t :: ts) = tok_valid (is_nil ts) t && tailv ts.
Proof. intros t [|x ts]; unfold tailv; cbn [toks_valid is_nil orb]; [rewrite andb_true_r|]; reflexivity. Qed.

Lemma tailv_toks : forall p, tailv (toks p) = toks_valid (toks p).
Proof. intros p. unfold tailv. rewrite tl_toks_nonnil. reflexivity. Qed.

Ltac smpiv := repeat (progress (unfold char_ok, plain_char; cbn [tok_valid forallb existsb kind beq hd tl is_nil andb orb negb toks snd fst app]; ev_consts; rwc)).

Lemma is_valid_go_spec : forall p,
  is_valid_go true false false p = toks_valid (toks p) /\
  is_valid_go false true false p = is_nil (hd [] (toks p)) && tailv (tl (toks p)) /\
  is_valid_go false false true p =
    forallb plain_char (hd [] (toks p)) && existsb (fun x => negb (x =? dollar)) (hd [] (toks p)) && tailv (tl (toks p)) /\
  is_valid_go false false false p = forallb plain_char (hd [] (toks p)) && tailv (tl (toks p)).
Proof.
  induction p as [|c p IH].
  - repeat split; reflexivity.
  - destruct IH as (IHS & IHA & IHE & IHM).
    rewrite (toks_eta (c :: p)), toks_valid_cons.
    unfold plain_char, char_ok in *.
    repeat split; cbn [is_valid_go orb andb negb]; ccase c; smpiv;
    rewrite ?toks_nil_iff; try destruct ((c <? 33) || (126 <? c) || (c =? qmark)); cbn [negb andb];
    rewrite ?IHS, ?IHA, ?IHE, ?IHM, ?tailv_toks, ?andb_true_r; try reflexivity.
    destruct p; reflexivity.
Qed.

Lemma is_valid_toks : forall p, is_valid p = is_nil p || toks_valid (toks p).
Proof. intros [|c p]; [reflexivity|]. unfold is_valid. cbn [is_nil orb]. apply (proj1 (is_valid_go_spec (c :: p))). Qed.
Definition ridtok (t : bytes) : bool := negb (is_nil t) && forallb rid_char_ok t.

Ltac smprid := repeat (progress (cbn [before_q forallb existsb beq hd tl is_nil andb orb negb toks snd fst app]; ev_consts; rwc)).

Lemma is_valid_rid_go_spec : forall r,
  is_valid_rid_go true r = forallb ridtok (toks (before_q r)) /\
  is_valid_rid_go false r =
    forallb rid_char_ok (hd [] (toks (before_q r))) && forallb ridtok (tl (toks (before_q r))).
Proof.
  induction r as [|c r IH].
  - split; reflexivity.
  - destruct IH as (IHS & IHF).
    split; cbn [is_valid_rid_go]; neqb c qmark; smprid; try reflexivity.
    + neqb c dot; smprid; [reflexivity|]. unfold ridtok at 1. smprid. unfold rid_char_ok at 1. rwc.
      rewrite orb_false_r. destruct ((c <? 33) || (126 <? c) || (c =? star) || (c =? gt)); cbn [negb andb]; [reflexivity|].
      exact IHF.
    + neqb c dot; smprid.
      * exact IHS.
      * unfold rid_char_ok at 1. rwc.
        rewrite orb_false_r. destruct ((c <? 33) || (126 <? c) || (c =? star) || (c =? gt)); cbn [negb andb]; [reflexivity|].
        exact IHF.
Qed.

Lemma is_valid_rid_toks : forall r, is_valid_rid r = forallb ridtok (toks (before_q r)).
Proof. intros r. apply (proj1 (is_valid_rid_go_spec r)). Qed.
