(* Token-wise grammar: the one reading of patterns the property refers to. *)
From GoRes Require Export Pattern.Model.

Inductive tkind := KParam (name : bytes) | KAnon | KFull | KLit.
Definition kind (t : bytes) : tkind :=
  match t with
  | c :: r => if c =? dollar then KParam r else if c =? star then KAnon else if c =? gt then KFull else KLit
  | [] => KLit
  end.

Definition char_ok (c : N) : bool := negb ((c <? 33) || (126 <? c) || (c =? qmark)).
Definition plain_char (c : N) : bool := char_ok c && negb (c =? star) && negb (c =? gt).

(* one pattern token; [last] = it is the final token *)
Definition tok_valid (last : bool) (t : bytes) : bool :=
  match t with
  | [] => false
  | c :: r =>
    if c =? gt then is_nil r && last
    else if c =? star then is_nil r
    else if c =? dollar then forallb plain_char r && existsb (fun x => negb (x =? dollar)) r
    else char_ok c && forallb plain_char r
  end.
Fixpoint toks_valid (ts : list bytes) : bool :=
  match ts with
  | [] => true
  | [t] => tok_valid true t
  | t :: ts' => tok_valid false t && toks_valid ts'
  end.
Definition tvalid (p : bytes) : bool := is_nil p || toks_valid (tokens p).

Definition starts_gt (t : bytes) : bool := match t with c :: _ => c =? gt | [] => false end.

(* token-wise matching of a pattern token list against a name token list.
   A placeholder matches any one token except an empty final one and one starting
   with '>' ; the token ">" in final position matches one or more remaining tokens (the
   remaining text must be non-empty; any other token starting with '>' matches nothing); literals compare bytewise. *)
Fixpoint tmatch (ps ss : list bytes) : bool :=
  match ps, ss with
  | [], [] => true
  | pt :: ps', st :: ss' =>
    match kind pt with
    | KParam _ | KAnon => negb (is_nil st && is_nil ss') && negb (starts_gt st) && tmatch ps' ss'
    | KFull => beq pt [gt] && is_nil ps' && negb (is_nil st && is_nil ss')
    | KLit => beq pt st && tmatch ps' ss'
    end
  | _, _ => false
  end.

Fixpoint tvalues (ps ss : list bytes) (m : amap) : option amap :=
  match ps, ss with
  | [], [] => Some m
  | pt :: ps', st :: ss' =>
    match kind pt with
    | KParam n => if is_nil st && is_nil ss' then None else tvalues ps' ss' ((n, st) :: m)
    | KAnon => if is_nil st && is_nil ss' then None else tvalues ps' ss' m
    | KFull => if beq pt [gt] && is_nil ps' && negb (is_nil st && is_nil ss') then Some m else None
    | KLit => if beq pt st then tvalues ps' ss' m else None
    end
  | _, _ => None
  end.

Definition treplace (f : bytes -> option bytes) (t : bytes) : bytes :=
  match kind t with KParam n => emit f n | _ => t end.

Definition no_gt_start (s : bytes) : bool := forallb (fun t => negb (starts_gt t)) (tokens s).
Definition tag_names (p : bytes) : list bytes :=
  flat_map (fun t => match kind t with KParam n => [n] | _ => [] end) (tokens p).
Definition no_anon (p : bytes) : bool :=
  forallb (fun t => match kind t with KAnon | KFull => false | _ => true end) (tokens p).

Fixpoint nodupb (l : list bytes) : bool :=
  match l with [] => true | x :: r => negb (existsb (beq x) r) && nodupb r end.

Definition isSome {A} (o : option A) : bool := match o with Some _ => true | None => false end.


(* byte offset of the first wildcard token: '$'/'*' tokens always, '>' only as the
   one-byte final token (what IndexWildcard documents) *)
Fixpoint tindex (off : N) (ts : list bytes) : option N :=
  match ts with
  | [] => None
  | t :: ts' =>
    match kind t with
    | KParam _ | KAnon => Some off
    | KFull => if beq t [gt] && is_nil ts' then Some off else tindex (off + N.of_nat (length t) + 1) ts'
    | KLit => tindex (off + N.of_nat (length t) + 1) ts'
    end
  end.

Definition rid_char_ok (c : N) : bool := negb ((c <? 33) || (126 <? c) || (c =? star) || (c =? gt) || (c =? qmark)).
(* the part of a resource id before the first '?' *)
Fixpoint before_q (r : bytes) : bytes :=
  match r with [] => [] | c :: r' => if c =? qmark then [] else c :: before_q r' end.

(* ---- side conditions of valid_rid_is_valid_pattern (Props/C17.v) ---- *)
Definition no_dollar_tokens (s : bytes) : bool :=
  forallb (fun t => match t with c :: _ => negb (c =? dollar) | [] => true end) (tokens s).
Definition no_qmark (s : bytes) : bool := forallb (fun c => negb (c =? qmark)) s.
