(* Executable model of pattern.go (IsValid, Matches, Values, replace/ReplaceTag(s),
   IndexWildcard), types.go IsValidRID, resource.go isValidPart, mux.go isValidPath
   and the two functions of store.IDTransformer.  Each Go index loop is a
   structural recursion on the pattern bytes carrying the scanner's flags. *)
From GoRes Require Export Base.Bytes.

(* ---- IsValid ---- *)
Fixpoint is_valid_go (start alone emptytag : bool) (p : bytes) : bool :=
  match p with
  | [] => negb (start || emptytag)
  | c :: rest =>
    if c =? dot then
      if start || emptytag then false else is_valid_go true false emptytag rest
    else if alone || (c <? 33) || (126 <? c) || (c =? qmark) then false
    else if c =? gt then
      if negb start || negb (is_nil rest) then false else is_valid_go false alone emptytag rest
    else if c =? star then
      if negb start then false else is_valid_go false true emptytag rest
    else if c =? dollar then is_valid_go false alone (if start then true else emptytag) rest
    else is_valid_go false alone false rest
  end.
Definition is_valid (p : bytes) : bool :=
  match p with [] => true | _ => is_valid_go true false false p end.

(* ---- Matches ----
   [start]: the pattern cursor is at the first byte of a token (fix for the
   mid-token '$' defect: only then do '$' '*' '>' have wildcard meaning).
   [skip]: inside the skip loop over the rest of a wildcard token of p. *)
Fixpoint matches_go (start skip : bool) (p s : bytes) : bool :=
  match p with
  | [] => is_nil s
  | c :: p' =>
    if skip && negb (c =? dot) then matches_go false true p' s
    else match s with
      | [] => false
      | d :: s' =>
        if start && ((c =? dollar) || (c =? star)) then
          if d =? gt then false else matches_go false true p' (snd (span_tok s))
        else if start && (c =? gt) then is_nil p'
        else if c =? d then matches_go (c =? dot) false p' s' else false
      end
  end.
Definition matches (p s : bytes) : bool := matches_go true false p s.

(* the scanner as it was before the fix: '$' '*' '>' special in every position *)
Fixpoint matches_v0_go (skip : bool) (p s : bytes) : bool :=
  match p with
  | [] => is_nil s
  | c :: p' =>
    if skip && negb (c =? dot) then matches_v0_go true p' s
    else match s with
      | [] => false
      | d :: s' =>
        if (c =? dollar) || (c =? star) then
          if d =? gt then false else matches_v0_go true p' (snd (span_tok s))
        else if c =? gt then is_nil p'
        else if c =? d then matches_v0_go false p' s' else false
      end
  end.
Definition matches_v0 (p s : bytes) : bool := matches_v0_go false p s.

(* ---- Values ---- *)
Inductive vmode := VStart | VLit | VTag (acc v : bytes) | VAnon.
Definition lit_step (c : N) (s : bytes) : option bytes :=
  match s with d :: s' => if c =? d then Some s' else None | [] => None end.
Definition fin (s : bytes) (m : amap) : option amap := if is_nil s then Some m else None.

Fixpoint values_go (md : vmode) (p s : bytes) (m : amap) : option amap :=
  match p with
  | [] => match md with VTag acc v => fin s ((rev acc, v) :: m) | _ => fin s m end
  | c :: p' =>
    match md with
    | VTag acc v =>
      if c =? dot then
        match lit_step c s with Some s' => values_go VStart p' s' ((rev acc, v) :: m) | None => None end
      else values_go (VTag (c :: acc) v) p' s m
    | VAnon =>
      if c =? dot then
        match lit_step c s with Some s' => values_go VStart p' s' m | None => None end
      else values_go VAnon p' s m
    | VStart =>
      match s with
      | [] => None
      | _ =>
        if c =? dollar then let (v, srest) := span_tok s in values_go (VTag [] v) p' srest m
        else if c =? star then values_go VAnon p' (snd (span_tok s)) m
        else if c =? gt then (if is_nil p' then Some m else None)
        else match lit_step c s with
             | Some s' => values_go (if c =? dot then VStart else VLit) p' s' m
             | None => None end
      end
    | VLit =>
      match lit_step c s with
      | Some s' => values_go (if c =? dot then VStart else VLit) p' s' m
      | None => None end
    end
  end.
Definition values (p s : bytes) : option amap := values_go VStart p s [].

(* ---- replace / ReplaceTag / ReplaceTags ---- *)
Inductive rmode := RStart | RMid | RTag (acc : bytes).
Definition emit (f : bytes -> option bytes) (name : bytes) : bytes :=
  match f name with Some v => v | None => dollar :: name end.
Fixpoint replace_go (f : bytes -> option bytes) (md : rmode) (p : bytes) : bytes :=
  match p with
  | [] => match md with RTag acc => emit f (rev acc) | _ => [] end
  | c :: p' =>
    match md with
    | RTag acc =>
      if c =? dot then emit f (rev acc) ++ dot :: replace_go f RStart p'
      else replace_go f (RTag (c :: acc)) p'
    | RStart =>
      if c =? dollar then replace_go f (RTag []) p'
      else c :: replace_go f (if c =? dot then RStart else RMid) p'
    | RMid => c :: replace_go f (if c =? dot then RStart else RMid) p'
    end
  end.
Definition replace (f : bytes -> option bytes) (p : bytes) : bytes := replace_go f RStart p.
Definition replace_tags (m : amap) (p : bytes) : bytes := replace (fun t => alookup t m) p.
Definition replace_tag (tag v : bytes) (p : bytes) : bytes :=
  replace (fun t => if beq tag t then Some v else None) p.

(* ---- IndexWildcard: None = -1 ---- *)
Fixpoint index_wildcard_go (start : bool) (i : N) (p : bytes) : option N :=
  match p with
  | [] => None
  | c :: p' =>
    if c =? dot then index_wildcard_go true (i + 1) p'
    else if start && (((c =? gt) && is_nil p') || (c =? star) || (c =? dollar)) then Some i
    else index_wildcard_go false (i + 1) p'
  end.
Definition index_wildcard (p : bytes) : option N := index_wildcard_go true 0 p.

(* ---- types.go IsValidRID ---- *)
Fixpoint is_valid_rid_go (start : bool) (r : bytes) : bool :=
  match r with
  | [] => negb start
  | c :: r' =>
    if c =? qmark then negb start
    else if (c <? 33) || (126 <? c) || (c =? star) || (c =? gt) then false
    else if c =? dot then (if start then false else is_valid_rid_go true r')
    else is_valid_rid_go false r'
  end.
Definition is_valid_rid (r : bytes) : bool := is_valid_rid_go true r.

(* ---- resource.go isValidPart ---- *)
Definition part_char_ok (c : N) : bool :=
  negb ((c <? 33) || (126 <? c) || (c =? qmark) || (c =? star) || (c =? gt) || (c =? dot)).
Definition is_valid_part (p : bytes) : bool := negb (is_nil p) && forallb part_char_ok p.

(* ---- mux.go isValidPath ---- *)
Definition is_valid_path (p : bytes) : bool :=
  is_nil p || (is_valid p && match index_wildcard p with None => true | Some _ => false end).

(* ---- store.IDTransformer: IDToRID = ReplaceTag tag id ; RIDToID = pathParams[tag],
   the path params being the values of the pattern on the resource name ---- *)
Definition id_to_rid (tag : bytes) (p : bytes) (id : bytes) : bytes := replace_tag tag id p.
Definition rid_to_id (tag : bytes) (p : bytes) (rid : bytes) : option bytes :=
  match values p rid with Some m => alookup tag m | None => None end.
