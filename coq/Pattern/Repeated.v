(* Tag round trip for patterns in which a tag occurs more than once.
   Values keeps ONE value per tag (the association list is head-wins and the scanner
   conses every occurrence, so the LAST occurrence's token is the one looked up);
   ReplaceTags substitutes EVERY occurrence.  The round trip therefore holds exactly
   for the names in which all occurrences of a tag captured the same token: [consistent]. *)
From GoRes Require Import Pattern.Spec Pattern.Lemmas Pattern.Lemmas2 Pattern.Lemmas3 Pattern.Proofs.
From Coq Require Import Lia String.
Open Scope N_scope.

(* position-wise: wherever the pattern token is [$t], the name token at the same
   position is the value [m] gives to [t] (a tag without value is not consistent) *)
Fixpoint tconsistent (ps ss : list bytes) (m : amap) : bool :=
  match ps, ss with
  | pt :: ps', st :: ss' =>
    match kind pt with
    | KParam n => obeq (alookup n m) (Some st) && tconsistent ps' ss' m
    | _ => tconsistent ps' ss' m
    end
  | _, _ => true
  end.
Definition consistent (p s : bytes) (m : amap) : bool := tconsistent (tokens p) (tokens s) m.

Lemma obeq_some : forall o st, obeq o (Some st) = true -> o = Some st.
Proof.
  intros [x|] st H; cbn [obeq] in H; [|discriminate]. apply beq_eq in H. congruence.
Qed.

(* the substituted map [m'] is any map consistent with the name; extraction only has to succeed *)
Lemma troundtrip_rep : forall ps ss m0 m m',
  tvalues ps ss m0 = Some m -> tconsistent ps ss m' = true -> ngs ss = true ->
  tmatch (map (treplace (fun t => alookup t m')) ps) ss = true /\
  (forallb notanon ps = true -> map (treplace (fun t => alookup t m')) ps = ss) /\
  (forallb nodot ps = true -> forallb nodot ss = true ->
   forallb nodot (map (treplace (fun t => alookup t m')) ps) = true).
Proof.
  induction ps as [|pt ps IH]; intros [|st ss] m0 m m' H CO G; try discriminate.
  - repeat split; reflexivity.
  - cbn [tvalues] in H. cbn [tconsistent] in CO.
    cbn [ngs forallb] in G. apply andb_true_iff in G. destruct G as [G1 G2]. fold (ngs ss) in G2.
    apply negb_true_iff in G1.
    cbn [map]. unfold treplace at 1 3 5. unfold notanon at 1. cbn [forallb].
    destruct (kind pt) eqn:K.
    + apply andb_true_iff in CO. destruct CO as [CO1 CO2]. apply obeq_some in CO1.
      destruct (is_nil st && is_nil ss) eqn:NE; [discriminate|].
      destruct (IH _ _ _ _ H CO2 G2) as (A & B & C).
      assert (L : emit (fun t => alookup t m') name = st).
      { unfold emit. rewrite CO1. reflexivity. }
      rewrite L. split; [|split].
      * rewrite tmatch_self_head by exact G1. exact A.
      * intros NA. cbn [andb] in NA. rewrite (B NA). reflexivity.
      * intros D1 D2. apply andb_true_iff in D1, D2. destruct D1 as [_ D1]. destruct D2 as [D2 D3].
        rewrite D2. cbn [andb]. apply (C D1 D3).
    + destruct (is_nil st && is_nil ss) eqn:NE; [discriminate|].
      destruct (IH _ _ _ _ H CO G2) as (A & B & C). split; [|split].
      * cbn [tmatch]. rewrite K, NE, G1. exact A.
      * cbn [andb]. discriminate.
      * intros D1 D2. apply andb_true_iff in D1, D2. destruct D1 as [D0 D1]. destruct D2 as [D2 D3].
        rewrite D0. cbn [andb]. apply (C D1 D3).
    + destruct (beq pt [gt] && is_nil ps && negb (is_nil st && is_nil ss)) eqn:F; [|discriminate].
      split; [|split].
      * cbn [tmatch]. rewrite K. apply andb_true_iff in F. destruct F as [F1 F2]. apply andb_true_iff in F1.
        destruct F1 as [F0 F1]. destruct ps; [|discriminate]. cbn [map is_nil]. rewrite F0, F2. reflexivity.
      * cbn [andb]. discriminate.
      * intros D1 D2. apply andb_true_iff in F. destruct F as [F1 F2]. apply andb_true_iff in F1.
        destruct F1 as [F0 F1]. destruct ps; [|discriminate]. exact D1.
    + destruct (beq pt st) eqn:E; [|discriminate].
      destruct (IH _ _ _ _ H CO G2) as (A & B & C). split; [|split].
      * cbn [tmatch]. rewrite K, E. exact A.
      * intros NA. cbn [andb] in NA. rewrite (B NA). apply beq_eq in E. subst. reflexivity.
      * intros D1 D2. apply andb_true_iff in D1, D2. destruct D1 as [D0 D1]. destruct D2 as [D2 D3].
        rewrite D0. cbn [andb]. apply (C D1 D3).
Qed.

Lemma replace_roundtrip_repeated_pf : forall p s m,
  no_gt_start s = true -> values p s = Some m -> consistent p s m = true ->
  matches (replace_tags m p) s = true /\ (no_anon p = true -> replace_tags m p = s).
Proof.
  intros p s m G V CO. rewrite no_gt_start_ngs in G. rewrite values_toks in V.
  unfold consistent in CO. rewrite !tokens_toks in CO.
  destruct (troundtrip_rep _ _ _ _ _ V CO G) as (A & B & C).
  unfold replace_tags. rewrite replace_toks. split.
  - rewrite matches_toks, toks_join; [exact A| |apply C; apply toks_nodot].
    rewrite (toks_eta p). reflexivity.
  - intros NA. unfold no_anon in NA. rewrite tokens_toks in NA. rewrite (B NA). apply join_toks.
Qed.

(* without repeated tags every successful extraction is consistent: the theorem above subsumes
   replace_roundtrip *)
Lemma tnodup_consistent : forall ps ss m0 m,
  tvalues ps ss m0 = Some m -> nodupb (tagsT ps) = true -> tconsistent ps ss m = true.
Proof.
  induction ps as [|pt ps IH]; intros [|st ss] m0 m H ND; try reflexivity.
  cbn [tvalues] in H. rewrite tagsT_cons in ND. cbn [tconsistent].
  destruct (kind pt) eqn:K; cbn [app] in ND.
  - cbn [nodupb] in ND. apply andb_true_iff in ND. destruct ND as [ND1 ND2]. apply negb_true_iff in ND1.
    destruct (is_nil st && is_nil ss); [discriminate|].
    rewrite (tvalues_other _ _ _ _ _ H ND1). cbn [alookup]. rewrite beq_refl. cbn [obeq]. rewrite beq_refl.
    cbn [andb]. apply (IH _ _ _ H ND2).
  - destruct (is_nil st && is_nil ss); [discriminate|]. apply (IH _ _ _ H ND).
  - destruct (beq pt [gt] && is_nil ps && negb (is_nil st && is_nil ss)) eqn:F; [|discriminate].
    apply andb_true_iff in F. destruct F as [F1 _]. apply andb_true_iff in F1. destruct F1 as [_ F1].
    destruct ps; [|discriminate]. reflexivity.
  - destruct (beq pt st); [|discriminate]. apply (IH _ _ _ H ND).
Qed.

Lemma nodup_consistent_pf : forall p s m,
  nodupb (tag_names p) = true -> values p s = Some m -> consistent p s m = true.
Proof.
  intros p s m ND V. rewrite values_toks in V. unfold tag_names in ND. rewrite tokens_toks in ND.
  unfold consistent. rewrite !tokens_toks. apply (tnodup_consistent _ _ _ _ V ND).
Qed.

(* conversely, when the substitution gives back the name the extraction was consistent:
   for patterns without anonymous wildcards [consistent] is exactly the round-trip condition *)
Lemma tconsistent_of_eq : forall ps ss m0 m m',
  tvalues ps ss m0 = Some m -> (forall n, existsb (beq n) (tagsT ps) = true -> alookup n m' <> None) ->
  map (treplace (fun t => alookup t m')) ps = ss -> tconsistent ps ss m' = true.
Proof.
  induction ps as [|pt ps IH]; intros [|st ss] m0 m m' H DEF E; try reflexivity.
  cbn [tvalues] in H. cbn [map] in E. injection E as E1 E2. cbn [tconsistent].
  unfold treplace in E1.
  destruct (kind pt) eqn:K.
  - destruct (is_nil st && is_nil ss); [discriminate|].
    assert (D : alookup name m' <> None).
    { apply DEF. rewrite tagsT_cons, K. cbn [app existsb]. rewrite beq_refl. reflexivity. }
    unfold emit in E1. destruct (alookup name m') as [v|] eqn:L; [|congruence]. subst v.
    cbn [obeq]. rewrite beq_refl. cbn [andb]. apply (IH _ _ _ _ H); [|exact E2].
    intros n Hn. apply DEF. rewrite tagsT_cons, K. cbn [app existsb]. rewrite Hn. apply orb_true_r.
  - destruct (is_nil st && is_nil ss); [discriminate|]. apply (IH _ _ _ _ H); [|exact E2].
    intros n Hn. apply DEF. rewrite tagsT_cons, K. exact Hn.
  - destruct (beq pt [gt] && is_nil ps && negb (is_nil st && is_nil ss)) eqn:F; [|discriminate].
    apply andb_true_iff in F. destruct F as [F1 _]. apply andb_true_iff in F1. destruct F1 as [_ F1].
    destruct ps; [|discriminate]. reflexivity.
  - destruct (beq pt st); [|discriminate]. apply (IH _ _ _ _ H); [|exact E2].
    intros n Hn. apply DEF. rewrite tagsT_cons, K. exact Hn.
Qed.

(* every tag of the pattern has a value after a successful extraction *)
Lemma tvalues_defined : forall ps ss m0 m n,
  tvalues ps ss m0 = Some m ->
  existsb (beq n) (tagsT ps) = true \/ alookup n m0 <> None -> alookup n m <> None.
Proof.
  induction ps as [|pt ps IH]; intros [|st ss] m0 m n H D; try discriminate.
  - cbn in H. injection H as <-. destruct D as [D|D]; [discriminate|exact D].
  - cbn [tvalues] in H. rewrite tagsT_cons in D. destruct (kind pt) eqn:K; cbn [app] in D.
    + destruct (is_nil st && is_nil ss); [discriminate|]. apply (IH _ _ _ n H).
      cbn [existsb] in D. cbn [alookup].
      destruct (beq n name) eqn:E; [right; discriminate|].
      destruct D as [D|D]; [left; exact D|right; exact D].
    + destruct (is_nil st && is_nil ss); [discriminate|]. apply (IH _ _ _ n H D).
    + destruct (beq pt [gt] && is_nil ps && negb (is_nil st && is_nil ss)) eqn:F; [|discriminate].
      injection H as <-. apply andb_true_iff in F. destruct F as [F1 _]. apply andb_true_iff in F1.
      destruct F1 as [_ F1]. destruct ps; [|discriminate]. destruct D as [D|D]; [discriminate|exact D].
    + destruct (beq pt st); [|discriminate]. apply (IH _ _ _ n H D).
Qed.

(* extracted values are name tokens *)
Lemma tvalues_nodot : forall ps ss m0 m,
  tvalues ps ss m0 = Some m -> forallb nodot ss = true ->
  (forall k v, alookup k m0 = Some v -> nodot v = true) ->
  forall k v, alookup k m = Some v -> nodot v = true.
Proof.
  induction ps as [|pt ps IH]; intros [|st ss] m0 m H D M0; try discriminate.
  - cbn in H. injection H as <-. exact M0.
  - cbn [tvalues] in H. cbn [forallb] in D. apply andb_true_iff in D. destruct D as [D1 D2].
    destruct (kind pt) eqn:K.
    + destruct (is_nil st && is_nil ss); [discriminate|]. apply (IH _ _ _ H D2).
      intros k v. cbn [alookup]. destruct (beq k name); [intros Q; injection Q as <-; exact D1|apply M0].
    + destruct (is_nil st && is_nil ss); [discriminate|]. apply (IH _ _ _ H D2 M0).
    + destruct (beq pt [gt] && is_nil ps && negb (is_nil st && is_nil ss)); [|discriminate].
      injection H as <-. exact M0.
    + destruct (beq pt st); [|discriminate]. apply (IH _ _ _ H D2 M0).
Qed.

Lemma roundtrip_consistent_pf : forall p s m,
  values p s = Some m -> replace_tags m p = s -> consistent p s m = true.
Proof.
  intros p s m V E. unfold consistent. rewrite !tokens_toks.
  pose proof V as V'. rewrite values_toks in V'.
  apply (tconsistent_of_eq _ _ _ _ _ V').
  - intros n Hn. apply (tvalues_defined _ _ _ _ n V'). left. exact Hn.
  - unfold replace_tags in E. rewrite replace_toks in E.
    rewrite <- E. symmetry. apply toks_join.
    + rewrite (toks_eta p). reflexivity.
    + apply treplace_nodot; [|apply toks_nodot].
      intros n v. apply (tvalues_nodot _ _ _ _ V' (toks_nodot s)). intros k w Q. discriminate Q.
Qed.
