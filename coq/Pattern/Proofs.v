(* Proofs of the C17 statements (imported by Props/C17.v). *)
From GoRes Require Import Pattern.Spec Pattern.Lemmas Pattern.Lemmas2 Pattern.Lemmas3.
From Coq Require Import Lia.
Open Scope N_scope.

(* ---- the five scanners are the token-wise functions ---- *)
Lemma is_valid_spec_pf : forall p, is_valid p = tvalid p.
Proof. intros p. unfold tvalid. rewrite tokens_toks. apply is_valid_toks. Qed.

Lemma matches_tokenwise_pf : forall p s, matches p s = tmatch (tokens p) (tokens s).
Proof. intros p s. rewrite !tokens_toks. apply matches_toks. Qed.

Lemma values_tokenwise_pf : forall p s, values p s = tvalues (tokens p) (tokens s) [].
Proof. intros p s. rewrite !tokens_toks. apply values_toks. Qed.

Lemma replace_tokenwise_pf : forall f p, replace f p = join (map (treplace f) (tokens p)).
Proof. intros f p. rewrite tokens_toks. apply replace_toks. Qed.

Lemma index_wildcard_spec_pf : forall p, index_wildcard p = tindex 0 (tokens p).
Proof. intros p. rewrite tokens_toks. apply index_toks. Qed.

(* ---- validators ---- *)
Lemma valid_part_spec_pf : forall t,
  is_valid_part t = negb (is_nil t) && forallb (fun c => rid_char_ok c && negb (c =? dot)) t.
Proof.
  intros t. unfold is_valid_part. f_equal.
  induction t as [|c t IH]; cbn [forallb]; [reflexivity|].
  rewrite IH. f_equal. unfold part_char_ok, rid_char_ok.
  destruct (c <? 33), (126 <? c), (c =? qmark), (c =? star), (c =? gt), (c =? dot); reflexivity.
Qed.

Lemma valid_rid_spec_pf : forall r,
  is_valid_rid r = forallb (fun t => negb (is_nil t) && forallb rid_char_ok t) (tokens (before_q r)).
Proof. intros r. rewrite tokens_toks. apply is_valid_rid_toks. Qed.

Lemma valid_path_spec_pf : forall p,
  is_valid_path p = is_nil p || (tvalid p && forallb (fun t => match kind t with KLit => true | _ => false end) (tokens p)).
Proof.
  intros p. unfold is_valid_path, tvalid. rewrite is_valid_toks, index_toks, tokens_toks.
  destruct p as [|c p]; [reflexivity|]. cbn [is_nil orb].
  destruct (toks_valid (toks (c :: p))) eqn:V; cbn [andb]; [|reflexivity].
  apply tindex_none, V.
Qed.

(* ---- token-level consequences ---- *)

Lemma no_gt_start_ngs : forall s, no_gt_start s = ngs (toks s).
Proof. intros s. unfold no_gt_start, ngs. rewrite tokens_toks. reflexivity. Qed.

Lemma matches_iff_values_pf : forall p s, no_gt_start s = true -> matches p s = isSome (values p s).
Proof.
  intros p s H. rewrite no_gt_start_ngs in H. rewrite matches_toks, values_toks.
  apply tmatch_tvalues, H.
Qed.

Lemma covers_sound_pf : forall p q s,
  no_gt_start s = true -> matches p q = true -> matches q s = true -> matches p s = true.
Proof.
  intros p q s H. rewrite no_gt_start_ngs in H. rewrite !matches_toks. apply tcovers, H.
Qed.

(* completeness of covering: if p does not match q (both valid) some name of q is not a name of p *)
Lemma covers_complete_pf : forall p q, is_valid p = true -> is_valid q = true -> matches p q = false ->
  exists s, no_gt_start s = true /\ matches q s = true /\ matches p s = false.
Proof.
  intros p q VP VQ M. destruct q as [|d q0].
  - exists []. split; [reflexivity|]. split; [reflexivity|exact M].
  - set (q := d :: q0) in *. set (w := wit (length p)).
    assert (Wn : is_nil w = false) by reflexivity.
    assert (Wg : starts_gt w = false) by reflexivity.
    assert (Wd : nodot w = true) by apply (wit_nodot (S (length p))).
    assert (VQ' : tailv (toks q) = true).
    { rewrite tailv_toks. rewrite is_valid_toks in VQ. exact VQ. }
    assert (FO : fullok (toks p) = true).
    { destruct p as [|c p0]; [reflexivity|]. apply tailv_fullok. rewrite tailv_toks.
      rewrite is_valid_toks in VP. exact VP. }
    assert (FR : fresh w (toks p) = true).
    { apply (lenle_fresh (length p)); [apply toks_lenle|]. unfold w, wit. apply repeat_length. }
    set (S := inst w (toks p) (toks q)).
    assert (TS : toks (join S) = S).
    { apply toks_join.
      - unfold S. rewrite (toks_eta q). apply inst_nonnil.
      - apply inst_nodot; [exact Wd|apply toks_nodot]. }
    exists (join S). rewrite no_gt_start_ngs, !matches_toks, TS. rewrite matches_toks in M.
    split; [apply inst_ngs; exact Wg|]. split.
    + apply inst_q; assumption.
    + apply inst_p; assumption.
Qed.

Lemma replace_roundtrip_pf : forall p s m,
  no_gt_start s = true -> nodupb (tag_names p) = true -> values p s = Some m ->
  matches (replace_tags m p) s = true /\ (no_anon p = true -> replace_tags m p = s).
Proof.
  intros p s m G ND V. rewrite no_gt_start_ngs in G. rewrite values_toks in V.
  unfold tag_names in ND. rewrite tokens_toks in ND.
  destruct (troundtrip _ _ _ _ V ND G) as (A & B & C).
  unfold replace_tags. rewrite replace_toks. split.
  - rewrite matches_toks, toks_join; [exact A| |apply C; apply toks_nodot].
    rewrite (toks_eta p). reflexivity.
  - intros NA. unfold no_anon in NA. rewrite tokens_toks in NA. rewrite (B NA). apply join_toks.
Qed.

(* ---- id round trip ---- *)
(* NOTE: the statement without [is_valid p = true] is false: tag = [], p = ">.$", id = "a". *)
Lemma id_roundtrip_valid_pf : forall tag p id,
  is_valid p = true ->
  is_valid_part id = true -> nodupb (tag_names p) = true -> existsb (beq tag) (tag_names p) = true ->
  rid_to_id tag p (id_to_rid tag p id) = Some id.
Proof.
  intros tag p id VP VI ND EX. destruct (valid_part_nodot _ VI) as [NI DI].
  unfold tag_names in *. rewrite tokens_toks in *. fold (tagsT (toks p)) in *.
  rewrite is_valid_toks in VP.
  assert (TV : tailv (toks p) = true).
  { rewrite tailv_toks. destruct p as [|c p]; [discriminate EX|exact VP]. }
  unfold rid_to_id, id_to_rid, replace_tag. rewrite replace_toks, values_toks.
  rewrite toks_join.
  - destruct (tid tag id (toks p) [] NI TV ND) as (m & Hm & Hl). 
    match goal with |- match ?X with Some _ => _ | None => _ end = _ =>
      replace X with (Some m) by (symmetry; exact Hm) end.
    apply Hl, EX.
  - rewrite (toks_eta p). reflexivity.
  - apply treplace_nodot; [|apply toks_nodot].
    intros n v F. destruct (beq tag n); [|discriminate]. congruence.
Qed.

Lemma id_roundtrip_refuted_pf : exists tag p id,
  is_valid_part id = true /\ nodupb (tag_names p) = true /\ existsb (beq tag) (tag_names p) = true /\
  rid_to_id tag p (id_to_rid tag p id) <> Some id.
Proof.
  exists [], [gt; dot; dollar], [97].
  split; [vm_compute; reflexivity|]. split; [vm_compute; reflexivity|]. split; [vm_compute; reflexivity|].
  vm_compute. discriminate.
Qed.

(* ---- the scanner before the fix ---- *)
Lemma matches_v0_refuted_pf : exists p s,
  is_valid p = true /\ no_gt_start s = true /\ matches_v0 p s <> isSome (values p s).
Proof.
  exists [97; 36; 98], [97; 120; 121; 122].
  split; [vm_compute; reflexivity|]. split; [vm_compute; reflexivity|].
  vm_compute. discriminate.
Qed.

(* ---- a valid name part is a valid (single-token) resource id ---- *)
Lemma part_char_ok_inv : forall c, part_char_ok c = true ->
  (c <? 33) = false /\ (126 <? c) = false /\ (c =? qmark) = false /\ (c =? star) = false /\ (c =? gt) = false /\ (c =? dot) = false.
Proof.
  intros c H. unfold part_char_ok in H.
  destruct (c <? 33), (126 <? c), (c =? qmark), (c =? star), (c =? gt), (c =? dot); try discriminate H; repeat split; reflexivity.
Qed.
Lemma part_chars_rid_go : forall b t, forallb part_char_ok t = true -> (b = false \/ t <> []) -> is_valid_rid_go b t = true.
Proof.
  intros b t; revert b; induction t as [|c t IH]; intros b Hf Hb.
  - destruct Hb as [->|Hb]; [reflexivity|congruence].
  - cbn [forallb] in Hf. apply andb_prop in Hf as [Hc Hf].
    destruct (part_char_ok_inv c Hc) as (H1 & H2 & H3 & H4 & H5 & H6).
    cbn [is_valid_rid_go]. rewrite H1, H2, H3, H4, H5, H6. cbn [orb].
    apply IH; [exact Hf | left; reflexivity].
Qed.
Lemma valid_part_is_rid_pf : forall t, is_valid_part t = true -> is_valid_rid t = true.
Proof.
  intros t H. unfold is_valid_part in H. apply andb_prop in H as [Hn Hf].
  unfold is_valid_rid. apply part_chars_rid_go; [exact Hf|].
  right. destruct t; [discriminate Hn | congruence].
Qed.
