(* Proofs of the C17 statements (imported by Props/C17.v). *)
From GoRes Require Import Pattern.Spec.
From Coq Require Import Lia.
Open Scope N_scope.

(* TODO lemmas: is_valid_spec_pf matches_tokenwise_pf values_tokenwise_pf replace_tokenwise_pf
   index_wildcard_spec_pf matches_iff_values_pf replace_roundtrip_pf covers_sound_pf valid_part_spec_pf
   valid_rid_spec_pf valid_path_spec_pf id_roundtrip_pf matches_v0_refuted_pf *)
