(* Completeness of covering: witness construction *)
From GoRes Require Import Pattern.Spec Pattern.Lemmas Pattern.Lemmas2.
From Coq Require Import Lia PeanoNat.
Open Scope N_scope.

(* ---------- covers: completeness ---------- *)
Fixpoint fullok (ps : list bytes) : bool :=
  match ps with
  | [] => true
  | t :: ps' => match kind t with KFull => beq t [gt] && is_nil ps' | _ => true end && fullok ps'
  end.

Lemma tailv_fullok : forall ps, tailv ps = true -> fullok ps = true.
Proof.
  induction ps as [|pt ps IH]; intros V; [reflexivity|].
  unfold tailv in V. cbn [is_nil orb] in V. rewrite toks_valid_cons in V.
  apply andb_true_iff in V. destruct V as [V1 V2]. cbn [fullok]. rewrite (IH V2), andb_true_r.
  destruct (kind pt) eqn:K; try reflexivity.
  destruct (kind_full_valid _ _ K V1) as [F1 F2]. rewrite F1, F2. reflexivity.
Qed.

Lemma tok_valid_nonnil : forall l t, tok_valid l t = true -> is_nil t = false.
Proof. intros l [|c r] H; [discriminate|reflexivity]. Qed.

Lemma kind_starts_gt : forall t, kind t <> KFull -> starts_gt t = false.
Proof.
  intros [|c r] H; [reflexivity|]. cbn [kind starts_gt] in *.
  destruct (c =? dollar) eqn:E1.
  - apply N.eqb_eq in E1. subst c. reflexivity.
  - destruct (c =? star) eqn:E2.
    + apply N.eqb_eq in E2. subst c. reflexivity.
    + destruct (c =? gt); [exfalso; apply H; reflexivity|reflexivity].
Qed.

(* instantiate the name tokens of q: wildcards become the fresh literal w, the final ">" one or two w *)
Fixpoint inst (w : bytes) (ps qs : list bytes) : list bytes :=
  match qs with
  | [] => []
  | qt :: qs' =>
    match kind qt with
    | KLit => qt :: inst w (tl ps) qs'
    | KParam _ | KAnon => w :: inst w (tl ps) qs'
    | KFull => match ps with [_] => [w; w] | _ => [w] end
    end
  end.

Definition fresh (w : bytes) (ps : list bytes) : bool := forallb (fun t => negb (beq t w)) ps.

Section Inst.
  Context (w : bytes) (Wn : is_nil w = false) (Wg : starts_gt w = false) (Wd : nodot w = true).

  Lemma inst_nonnil : forall ps qt qs, is_nil (inst w ps (qt :: qs)) = false.
  Proof.
    intros ps qt qs. cbn [inst]. destruct (kind qt); try reflexivity.
    destruct ps as [|? [|? ?]]; reflexivity.
  Qed.

  Lemma inst_ngs : forall qs ps, ngs (inst w ps qs) = true.
  Proof.
    induction qs as [|qt qs IH]; intros ps; [reflexivity|].
    cbn [inst]. destruct (kind qt) eqn:K; cbn [ngs forallb]; fold (ngs (inst w (tl ps) qs)); rewrite ?IH, ?Wg; try reflexivity.
    - destruct ps as [|? [|? ?]]; cbn [ngs forallb]; rewrite Wg; reflexivity.
    - rewrite (kind_starts_gt qt) by congruence. reflexivity.
  Qed.

  Lemma inst_nodot : forall qs ps, forallb nodot qs = true -> forallb nodot (inst w ps qs) = true.
  Proof.
    induction qs as [|qt qs IH]; intros ps H; [reflexivity|].
    cbn [forallb] in H. apply andb_true_iff in H. destruct H as [H1 H2].
    cbn [inst]. destruct (kind qt) eqn:K; cbn [forallb]; rewrite ?(IH _ H2), ?Wd, ?H1; try reflexivity.
    destruct ps as [|? [|? ?]]; cbn [forallb]; rewrite Wd; reflexivity.
  Qed.

  Lemma inst_q : forall qs ps, tailv qs = true -> tmatch qs (inst w ps qs) = true.
  Proof.
    induction qs as [|qt qs IH]; intros ps V; [reflexivity|].
    unfold tailv in V. cbn [is_nil orb] in V. rewrite toks_valid_cons in V.
    apply andb_true_iff in V. destruct V as [V1 V2].
    cbn [inst]. destruct (kind qt) eqn:K; cbn [tmatch]; rewrite K.
    - rewrite Wn, Wg. cbn [andb negb]. apply IH, V2.
    - rewrite Wn, Wg. cbn [andb negb]. apply IH, V2.
    - destruct (kind_full_valid _ _ K V1) as [F1 F2]. rewrite F1, F2.
      destruct ps as [|? [|? ?]]; rewrite Wn; reflexivity.
    - rewrite beq_refl. apply IH, V2.
  Qed.

  Lemma inst_p : forall qs ps, fullok ps = true -> tailv qs = true -> fresh w ps = true ->
    tmatch ps qs = false -> tmatch ps (inst w ps qs) = false.
  Proof.
    induction qs as [|qt qs IH]; intros ps FO V FR H.
    - cbn [inst]. exact H.
    - unfold tailv in V. cbn [is_nil orb] in V. rewrite toks_valid_cons in V.
      apply andb_true_iff in V. destruct V as [V1 V2].
      pose proof (tok_valid_nonnil _ _ V1) as QN.
      destruct ps as [|pt ps].
      + rewrite tmatch_nil_l. apply inst_nonnil.
      + cbn [fullok] in FO. apply andb_true_iff in FO. destruct FO as [FO1 FO2].
        cbn [fresh forallb] in FR. apply andb_true_iff in FR. destruct FR as [FR1 FR2]. fold (fresh w ps) in FR2.
        apply negb_true_iff in FR1.
        cbn [tmatch] in H. rewrite QN in H. cbn [andb negb] in H.
        cbn [inst tl]. destruct (kind qt) eqn:KQ.
        * (* q wildcard *)
          rewrite (kind_starts_gt qt) in H by congruence. cbn [tmatch].
          destruct (kind pt) eqn:KP.
          -- rewrite Wn, Wg. cbn [andb negb] in *. apply (IH _ FO2 V2 FR2 H).
          -- rewrite Wn, Wg. cbn [andb negb] in *. apply (IH _ FO2 V2 FR2 H).
          -- rewrite FO1 in H. discriminate.
          -- rewrite FR1. reflexivity.
        * rewrite (kind_starts_gt qt) in H by congruence. cbn [tmatch].
          destruct (kind pt) eqn:KP.
          -- rewrite Wn, Wg. cbn [andb negb] in *. apply (IH _ FO2 V2 FR2 H).
          -- rewrite Wn, Wg. cbn [andb negb] in *. apply (IH _ FO2 V2 FR2 H).
          -- rewrite FO1 in H. discriminate.
          -- rewrite FR1. reflexivity.
        * (* q final ">" *)
          destruct ps as [|x ps]; cbn [tmatch]; destruct (kind pt) eqn:KP.
          -- rewrite andb_false_r. reflexivity.
          -- rewrite andb_false_r. reflexivity.
          -- rewrite FO1 in H. discriminate.
          -- rewrite FR1. reflexivity.
          -- rewrite andb_false_r. reflexivity.
          -- rewrite andb_false_r. reflexivity.
          -- rewrite andb_false_r in FO1. discriminate.
          -- rewrite FR1. reflexivity.
        * (* q literal *)
          rewrite (kind_starts_gt qt) in H by congruence. cbn [tmatch].
          destruct (kind pt) eqn:KP.
          -- rewrite QN, (kind_starts_gt qt) by congruence. cbn [andb negb] in *. apply (IH _ FO2 V2 FR2 H).
          -- rewrite QN, (kind_starts_gt qt) by congruence. cbn [andb negb] in *. apply (IH _ FO2 V2 FR2 H).
          -- rewrite FO1 in H. discriminate.
          -- destruct (beq pt qt); [|reflexivity]. cbn [andb] in *. apply (IH _ FO2 V2 FR2 H).
  Qed.
End Inst.

(* a literal longer than every token of p *)
Definition lenle (n : nat) (ts : list bytes) : bool := forallb (fun t => Nat.leb (length t) n) ts.

Lemma lenle_S : forall n ts, lenle n ts = true -> lenle (S n) ts = true.
Proof.
  intros n. induction ts as [|t ts IH]; intros H; [reflexivity|].
  cbn [lenle forallb] in *. apply andb_true_iff in H. destruct H as [H1 H2].
  fold (lenle n ts) in H2. fold (lenle (S n) ts). rewrite (IH H2), andb_true_r.
  apply Nat.leb_le in H1. apply Nat.leb_le. lia.
Qed.

Lemma toks_lenle : forall p, lenle (length p) (toks p) = true.
Proof.
  induction p as [|c p IH]; [reflexivity|].
  rewrite (toks_eta p) in IH. cbn [lenle forallb] in IH. apply andb_true_iff in IH. destruct IH as [H1 H2].
  fold (lenle (length p) (tl (toks p))) in H2. apply lenle_S in H2.
  cbn [toks length]. destruct (c =? dot).
  - cbn [lenle forallb]. fold (lenle (S (length p)) (toks p)). rewrite (toks_eta p).
    cbn [lenle forallb]. fold (lenle (S (length p)) (tl (toks p))). rewrite H2, andb_true_r.
    apply Nat.leb_le in H1. apply Nat.leb_le. lia.
  - cbn [lenle forallb]. fold (lenle (S (length p)) (tl (toks p))). rewrite H2, andb_true_r.
    apply Nat.leb_le in H1. apply Nat.leb_le. cbn [length]. lia.
Qed.

Lemma beq_length : forall a b, beq a b = true -> length a = length b.
Proof. intros a b H. apply beq_eq in H. subst. reflexivity. Qed.

Lemma lenle_fresh : forall n w ts, lenle n ts = true -> length w = S n -> fresh w ts = true.
Proof.
  intros n w. induction ts as [|t ts IH]; intros H L; [reflexivity|].
  cbn [lenle forallb] in H. apply andb_true_iff in H. destruct H as [H1 H2]. fold (lenle n ts) in H2.
  cbn [fresh forallb]. fold (fresh w ts). rewrite (IH H2 L), andb_true_r.
  apply Nat.leb_le in H1. destruct (beq t w) eqn:E; [|reflexivity].
  apply beq_length in E. lia.
Qed.

Definition wit (n : nat) : bytes := repeat 97 (S n).

Lemma wit_nodot : forall n, nodot (repeat 97 n) = true.
Proof. induction n as [|n IH]; [reflexivity|]. cbn [repeat nodot forallb]. exact IH. Qed.

