(* A resource id without query part and without $-tokens is a valid pattern and a valid path:
   whatever IsValidRID accepts can be registered and routed. *)
From GoRes Require Import Pattern.Spec Pattern.Lemmas Pattern.Lemmas2 Pattern.Lemmas3 Pattern.Proofs.
From Coq Require Import Lia.
Open Scope N_scope.

Lemma before_q_no_qmark : forall r, no_qmark r = true -> before_q r = r.
Proof.
  induction r as [|c r IH]; intros H; [reflexivity|].
  unfold no_qmark in H. cbn [forallb] in H. apply andb_prop in H as [Hc Hr].
  cbn [before_q]. destruct (c =? qmark); [discriminate Hc|]. f_equal. apply IH. exact Hr.
Qed.

Lemma rid_char_plain : forall c, rid_char_ok c = true -> plain_char c = true /\ char_ok c = true.
Proof.
  intros c H. unfold rid_char_ok in H. unfold plain_char, char_ok.
  destruct (c <? 33), (126 <? c), (c =? star), (c =? gt), (c =? qmark); try discriminate H; split; reflexivity.
Qed.

Definition ridtok' (t : bytes) : bool := negb (is_nil t) && forallb rid_char_ok t.
Definition nodollar (t : bytes) : bool := match t with c :: _ => negb (c =? dollar) | [] => true end.

Lemma ridtok_lit : forall t b, ridtok' t = true -> nodollar t = true ->
  tok_valid b t = true /\ kind t = KLit.
Proof.
  intros t b Hr Hd. destruct t as [|c r]; [discriminate Hr|].
  unfold ridtok' in Hr. cbn [is_nil negb andb forallb] in Hr. apply andb_prop in Hr as [Hc Hrest].
  cbn [nodollar] in Hd.
  assert (Hcc := Hc). unfold rid_char_ok in Hcc.
  destruct (c =? gt) eqn:Eg; [destruct (c <? 33), (126 <? c), (c =? star); discriminate Hcc|].
  destruct (c =? star) eqn:Es; [destruct (c <? 33), (126 <? c); discriminate Hcc|].
  destruct (c =? dollar) eqn:Ed; [discriminate Hd|].
  split.
  - cbn [tok_valid]. rewrite Eg, Es, Ed.
    destruct (rid_char_plain c Hc) as [_ Hok]. rewrite Hok. cbn [andb].
    clear -Hrest. induction r as [|x r IH]; [reflexivity|].
    cbn [forallb] in *. apply andb_prop in Hrest as [Hx Hr].
    destruct (rid_char_plain x Hx) as [Hp _]. rewrite Hp. cbn [andb]. apply IH. exact Hr.
  - cbn [kind]. rewrite Ed, Es, Eg. reflexivity.
Qed.

Lemma toks_valid_all : forall ts,
  ts <> [] -> (forall t, In t ts -> forall b, tok_valid b t = true) -> toks_valid ts = true.
Proof.
  induction ts as [|t ts IH]; intros Hne H; [congruence|].
  destruct ts as [|t2 ts].
  - cbn [toks_valid]. apply H. left. reflexivity.
  - change (toks_valid (t :: t2 :: ts)) with (tok_valid false t && toks_valid (t2 :: ts)).
    rewrite (H t (or_introl eq_refl)). cbn [andb].
    apply IH; [discriminate|]. intros t' Ht'. apply H. right. exact Ht'.
Qed.

Lemma tokens_nonempty : forall s, tokens s <> [].
Proof.
  intros s H. pose proof (tl_toks_nonnil s) as Hn. rewrite <- tokens_toks in Hn. rewrite H in Hn. discriminate Hn.
Qed.

Lemma valid_rid_is_valid_pattern_pf : forall r,
  is_valid_rid r = true -> no_qmark r = true -> no_dollar_tokens r = true ->
  is_valid r = true /\ is_valid_path r = true.
Proof.
  intros r Hrid Hq Hd.
  rewrite valid_rid_spec_pf, (before_q_no_qmark r Hq) in Hrid.
  unfold no_dollar_tokens in Hd.
  assert (Hall : forall t, In t (tokens r) -> forall b, tok_valid b t = true /\ kind t = KLit).
  { intros t Ht b. apply ridtok_lit.
    - rewrite forallb_forall in Hrid. apply (Hrid t Ht).
    - rewrite forallb_forall in Hd. apply (Hd t Ht). }
  assert (Hv : tvalid r = true).
  { unfold tvalid. apply Bool.orb_true_iff. right. apply toks_valid_all; [apply tokens_nonempty|].
    intros t Ht b. apply (Hall t Ht b). }
  split.
  - rewrite is_valid_spec_pf. exact Hv.
  - rewrite valid_path_spec_pf. apply Bool.orb_true_iff. right. rewrite Hv. cbn [andb].
    apply forallb_forall. intros t Ht. destruct (Hall t Ht true) as [_ Hk]. rewrite Hk. reflexivity.
Qed.
