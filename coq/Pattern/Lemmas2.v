(* Token-level theorems used by Pattern/Proofs.v *)
From GoRes Require Import Pattern.Spec Pattern.Lemmas.
From Coq Require Import Lia.
Open Scope N_scope.

(* ---------- join / toks inverse ---------- *)
Definition nodot (t : bytes) : bool := forallb (fun c => negb (c =? dot)) t.

Lemma toks_nodot : forall s, forallb nodot (toks s) = true.
Proof.
  induction s as [|c s IH]; cbn [toks]; [reflexivity|].
  rewrite (toks_eta s) in IH. cbn [forallb] in IH. apply andb_true_iff in IH. destruct IH as [H1 H2].
  destruct (c =? dot) eqn:E; cbn [forallb nodot]; fold (nodot (hd [] (toks s))).
  - rewrite (toks_eta s). cbn [forallb]. rewrite H1, H2. reflexivity.
  - rewrite E, H1, H2. reflexivity.
Qed.

Lemma toks_single : forall t, nodot t = true -> toks t = [t].
Proof.
  induction t as [|c t IH]; intros H; [reflexivity|].
  cbn [nodot forallb] in H. apply andb_true_iff in H. destruct H as [H1 H2].
  apply negb_true_iff in H1. cbn [toks]. rewrite H1, (IH H2). reflexivity.
Qed.

Lemma toks_app : forall t r, nodot t = true -> toks (t ++ dot :: r) = t :: toks r.
Proof.
  induction t as [|c t IH]; intros r H.
  - cbn [app toks]. rewrite N.eqb_refl. reflexivity.
  - cbn [nodot forallb] in H. apply andb_true_iff in H. destruct H as [H1 H2].
    apply negb_true_iff in H1. cbn [app toks]. rewrite H1, (IH r H2). reflexivity.
Qed.

Lemma toks_join : forall ts, is_nil ts = false -> forallb nodot ts = true -> toks (join ts) = ts.
Proof.
  induction ts as [|t ts IH]; intros NE H; [discriminate|].
  cbn [forallb] in H. apply andb_true_iff in H. destruct H as [H1 H2].
  destruct ts as [|x ts].
  - cbn [join]. apply toks_single, H1.
  - change (join (t :: x :: ts)) with (t ++ dot :: join (x :: ts)).
    rewrite (toks_app _ _ H1). f_equal. apply IH; [reflexivity|exact H2].
Qed.

Lemma join_toks : forall s, join (toks s) = s.
Proof.
  induction s as [|c s IH]; [reflexivity|]. cbn [toks].
  destruct (N.eqb_spec c dot) as [->|E].
  - rewrite (toks_eta s). change (join ([] :: hd [] (toks s) :: tl (toks s))) with (dot :: join (hd [] (toks s) :: tl (toks s))).
    rewrite <- toks_eta, IH. reflexivity.
  - rewrite join_hd, <- toks_eta, IH. reflexivity.
Qed.

(* ---------- matches iff values ---------- *)
Definition ngs (ss : list bytes) : bool := forallb (fun t => negb (starts_gt t)) ss.

Lemma tmatch_tvalues : forall ps ss m, ngs ss = true -> tmatch ps ss = isSome (tvalues ps ss m).
Proof.
  induction ps as [|pt ps IH]; intros [|st ss] m H; try reflexivity.
  cbn [ngs forallb] in H. apply andb_true_iff in H. destruct H as [H1 H2].
  cbn [tmatch tvalues]. destruct (kind pt).
  - rewrite H1. destruct (is_nil st && is_nil ss); cbn [negb andb isSome]; [reflexivity|]. apply IH, H2.
  - rewrite H1. destruct (is_nil st && is_nil ss); cbn [negb andb isSome]; [reflexivity|]. apply IH, H2.
  - destruct (beq pt [gt] && is_nil ps && negb (is_nil st && is_nil ss)); reflexivity.
  - destruct (beq pt st); cbn [andb isSome]; [|reflexivity]. apply IH, H2.
Qed.

(* ---------- covers ---------- *)
Lemma tmatch_nonempty : forall qt qs st ss,
  tmatch (qt :: qs) (st :: ss) = true -> is_nil qt && is_nil qs = false -> is_nil st && is_nil ss = false.
Proof.
  intros qt qs st ss H NE. cbn [tmatch] in H.
  destruct (is_nil st && is_nil ss) eqn:E; [|reflexivity]. exfalso.
  destruct (kind qt); cbn [negb andb] in H; try discriminate.
  - rewrite andb_false_r in H. discriminate.
  - apply andb_true_iff in E. destruct E as [E1 E2]. destruct ss; [|discriminate].
    rewrite tmatch_nil_r in H. apply andb_true_iff in H. destruct H as [H1 H2].
    destruct st; [|discriminate]. rewrite beq_nil_r in H1. rewrite H1, H2 in NE. discriminate.
Qed.

Lemma kind_lit_eq : forall a b, beq a b = true -> kind a = kind b.
Proof. intros a b H. apply beq_eq in H. subst. reflexivity. Qed.

Lemma starts_gt_kind : forall t, starts_gt t = false -> kind t <> KFull.
Proof.
  intros [|c r] H; cbn [kind]; [discriminate|]. cbn [starts_gt] in H. rewrite H.
  destruct (c =? dollar); [discriminate|]. destruct (c =? star); discriminate.
Qed.

Lemma tcovers : forall ps qs ss, ngs ss = true ->
  tmatch ps qs = true -> tmatch qs ss = true -> tmatch ps ss = true.
Proof.
  induction ps as [|pt ps IH]; intros qs ss G HPQ HQS.
  - rewrite tmatch_nil_l in HPQ. destruct qs; [|discriminate]. exact HQS.
  - destruct qs as [|qt qs]; [discriminate|]. destruct ss as [|st ss]; [rewrite tmatch_nil_r in HQS; discriminate|].
    pose proof (tmatch_nonempty _ _ _ _ HQS) as NE.
    cbn [ngs forallb] in G. apply andb_true_iff in G. destruct G as [G1 G2]. fold (ngs ss) in G2.
    cbn [tmatch] in HPQ |- *. destruct (kind pt) eqn:KP.
    + apply andb_true_iff in HPQ. destruct HPQ as [HPQ H3]. apply andb_true_iff in HPQ. destruct HPQ as [H1 H2].
      apply negb_true_iff in H1, H2. rewrite (NE H1), G1. cbn [negb andb].
      cbn [tmatch] in HQS. pose proof (starts_gt_kind _ H2) as NF.
      destruct (kind qt); try congruence.
      * apply andb_true_iff in HQS. destruct HQS as [_ HQS]. apply (IH _ _ G2 H3 HQS).
      * apply andb_true_iff in HQS. destruct HQS as [_ HQS]. apply (IH _ _ G2 H3 HQS).
      * apply andb_true_iff in HQS. destruct HQS as [_ HQS]. apply (IH _ _ G2 H3 HQS).
    + apply andb_true_iff in HPQ. destruct HPQ as [HPQ H3]. apply andb_true_iff in HPQ. destruct HPQ as [H1 H2].
      apply negb_true_iff in H1, H2. rewrite (NE H1), G1. cbn [negb andb].
      cbn [tmatch] in HQS. pose proof (starts_gt_kind _ H2) as NF.
      destruct (kind qt); try congruence.
      * apply andb_true_iff in HQS. destruct HQS as [_ HQS]. apply (IH _ _ G2 H3 HQS).
      * apply andb_true_iff in HQS. destruct HQS as [_ HQS]. apply (IH _ _ G2 H3 HQS).
      * apply andb_true_iff in HQS. destruct HQS as [_ HQS]. apply (IH _ _ G2 H3 HQS).
    + apply andb_true_iff in HPQ. destruct HPQ as [HPQ H3]. rewrite HPQ. apply negb_true_iff in H3.
      rewrite (NE H3). reflexivity.
    + apply andb_true_iff in HPQ. destruct HPQ as [H1 H2].
      cbn [tmatch] in HQS. rewrite <- (kind_lit_eq _ _ H1), KP in HQS.
      apply andb_true_iff in HQS. destruct HQS as [H3 H4].
      apply beq_eq in H1. subst qt. rewrite H3. cbn [andb]. apply (IH _ _ G2 H2 H4).
Qed.

(* ---------- replace round trip ---------- *)
Definition tagsT (ps : list bytes) : list bytes :=
  flat_map (fun t => match kind t with KParam n => [n] | _ => [] end) ps.
Definition notanon (t : bytes) : bool := match kind t with KAnon | KFull => false | _ => true end.

Lemma tagsT_cons : forall pt ps, tagsT (pt :: ps) = match kind pt with KParam n => [n] | _ => [] end ++ tagsT ps.
Proof. reflexivity. Qed.

Lemma kind_param : forall t n, kind t = KParam n -> t = dollar :: n.
Proof.
  intros [|c r] n H; cbn [kind] in H; [discriminate|].
  destruct (N.eqb_spec c dollar) as [->|E]; [congruence|].
  destruct (c =? star); [discriminate|]. destruct (c =? gt); discriminate.
Qed.

Lemma tvalues_other : forall ps ss m0 m k,
  tvalues ps ss m0 = Some m -> existsb (beq k) (tagsT ps) = false -> alookup k m = alookup k m0.
Proof.
  induction ps as [|pt ps IH]; intros [|st ss] m0 m k H NI; try discriminate.
  - cbn in H. congruence.
  - cbn [tvalues] in H. rewrite tagsT_cons in NI. destruct (kind pt) eqn:K; cbn [app] in NI.
    + cbn [existsb] in NI. apply orb_false_iff in NI. destruct NI as [N1 N2].
      destruct (is_nil st && is_nil ss); [discriminate|].
      rewrite (IH _ _ _ _ H N2). cbn [alookup]. rewrite N1. reflexivity.
    + destruct (is_nil st && is_nil ss); [discriminate|]. apply (IH _ _ _ _ H NI).
    + destruct (beq pt [gt] && is_nil ps && negb (is_nil st && is_nil ss)); congruence.
    + destruct (beq pt st); [|discriminate]. apply (IH _ _ _ _ H NI).
Qed.

Lemma tmatch_self_head : forall st xs ss, starts_gt st = false ->
  tmatch (st :: xs) (st :: ss) = tmatch xs ss.
Proof.
  intros [|c r] xs ss G.
  - reflexivity.
  - cbn [tmatch kind starts_gt is_nil andb negb]. cbn [starts_gt] in G.
    destruct (c =? dollar); [rewrite G; reflexivity|].
    destruct (c =? star); [rewrite G; reflexivity|].
    rewrite G. rewrite beq_refl. reflexivity.
Qed.

Lemma troundtrip : forall ps ss m0 m,
  tvalues ps ss m0 = Some m -> nodupb (tagsT ps) = true -> ngs ss = true ->
  tmatch (map (treplace (fun t => alookup t m)) ps) ss = true /\
  (forallb notanon ps = true -> map (treplace (fun t => alookup t m)) ps = ss) /\
  (forallb nodot ps = true -> forallb nodot ss = true ->
   forallb nodot (map (treplace (fun t => alookup t m)) ps) = true).
Proof.
  induction ps as [|pt ps IH]; intros [|st ss] m0 m H ND G; try discriminate.
  - repeat split; reflexivity.
  - cbn [tvalues] in H. rewrite tagsT_cons in ND.
    cbn [ngs forallb] in G. apply andb_true_iff in G. destruct G as [G1 G2]. fold (ngs ss) in G2.
    apply negb_true_iff in G1.
    cbn [map]. unfold treplace at 1 3 5. unfold notanon at 1. cbn [forallb].
    destruct (kind pt) eqn:K; cbn [app] in ND.
    + cbn [nodupb] in ND. apply andb_true_iff in ND. destruct ND as [ND1 ND2]. apply negb_true_iff in ND1.
      destruct (is_nil st && is_nil ss) eqn:NE; [discriminate|].
      destruct (IH _ _ _ H ND2 G2) as (A & B & C).
      assert (L : emit (fun t => alookup t m) name = st).
      { unfold emit. rewrite (tvalues_other _ _ _ _ _ H ND1). cbn [alookup]. rewrite beq_refl. reflexivity. }
      rewrite L. split; [|split].
      * rewrite tmatch_self_head by exact G1. exact A.
      * intros NA. cbn [andb] in NA. rewrite (B NA). reflexivity.
      * intros D1 D2. apply andb_true_iff in D1, D2. destruct D1 as [_ D1]. destruct D2 as [D2 D3].
        rewrite D2. cbn [andb]. apply (C D1 D3).
    + destruct (is_nil st && is_nil ss) eqn:NE; [discriminate|].
      destruct (IH _ _ _ H ND G2) as (A & B & C). split; [|split].
      * cbn [tmatch]. rewrite K, NE, G1. exact A.
      * cbn [andb]. discriminate.
      * intros D1 D2. apply andb_true_iff in D1, D2. destruct D1 as [D0 D1]. destruct D2 as [D2 D3].
        rewrite D0. cbn [andb]. apply (C D1 D3).
    + destruct (beq pt [gt] && is_nil ps && negb (is_nil st && is_nil ss)) eqn:F; [|discriminate].
      split; [|split].
      * cbn [tmatch]. rewrite K. apply andb_true_iff in F. destruct F as [F1 F2]. apply andb_true_iff in F1.
        destruct F1 as [F0 F1]. destruct ps; [|discriminate]. cbn [map is_nil]. rewrite F0, F2. reflexivity.
      * cbn [andb]. discriminate.
      * intros D1 D2. apply andb_true_iff in F. destruct F as [F1 F2]. apply andb_true_iff in F1.
        destruct F1 as [F0 F1]. destruct ps; [|discriminate]. exact D1.
    + destruct (beq pt st) eqn:E; [|discriminate].
      destruct (IH _ _ _ H ND G2) as (A & B & C). split; [|split].
      * cbn [tmatch]. rewrite K, E. exact A.
      * intros NA. cbn [andb] in NA. rewrite (B NA). apply beq_eq in E. subst. reflexivity.
      * intros D1 D2. apply andb_true_iff in D1, D2. destruct D1 as [D0 D1]. destruct D2 as [D2 D3].
        rewrite D0. cbn [andb]. apply (C D1 D3).
Qed.

(* ---------- valid path ---------- *)

Definition islit (t : bytes) : bool := match kind t with KLit => true | _ => false end.

Lemma tindex_none : forall ts off, toks_valid ts = true ->
  match tindex off ts with None => true | Some _ => false end = forallb islit ts.
Proof.
  induction ts as [|t ts IH]; intros off V; [reflexivity|].
  rewrite toks_valid_cons in V. apply andb_true_iff in V. destruct V as [V1 V2].
  cbn [tindex forallb]. unfold islit at 1.
  destruct t as [|c r]; cbn [kind tok_valid] in *; [discriminate|].
  destruct (c =? dollar); [reflexivity|].
  destruct (c =? star); [reflexivity|].
  assert (T : match tindex (off + N.of_nat (length (c :: r)) + 1) ts with None => true | Some _ => false end
              = forallb islit ts).
  { unfold tailv in V2. destruct ts as [|x ts]; [reflexivity|]. apply IH. exact V2. }
  destruct (N.eqb_spec c gt) as [->|E].
  - cbn [beq]. rewrite N.eqb_refl, beq_nil_r. cbn [andb]. rewrite V1. reflexivity.
  - cbn [andb]. exact T.
Qed.


(* ---------- id round trip ---------- *)

Lemma kind_full_valid : forall l pt, kind pt = KFull -> tok_valid l pt = true -> beq pt [gt] = true /\ l = true.
Proof.
  intros l [|c r] K V; cbn [kind tok_valid] in *; [discriminate|].
  destruct (c =? dollar); [discriminate|]. destruct (c =? star); [discriminate|].
  destruct (N.eqb_spec c gt) as [->|E]; [|discriminate].
  apply andb_true_iff in V. destruct V as [V1 V2]. cbn [beq]. rewrite N.eqb_refl, beq_nil_r, V1. auto.
Qed.

Lemma kind_nonlit_nonnil : forall pt, kind pt <> KLit -> is_nil pt = false.
Proof. intros [|c r] H; [exfalso; apply H; reflexivity|reflexivity]. Qed.

Lemma tid : forall tag id ps m0, is_nil id = false -> tailv ps = true -> nodupb (tagsT ps) = true ->
  exists m, tvalues ps (map (treplace (fun t => if beq tag t then Some id else None)) ps) m0 = Some m /\
            (existsb (beq tag) (tagsT ps) = true -> alookup tag m = Some id).
Proof.
  intros tag id. induction ps as [|pt ps IH]; intros m0 NI V ND.
  - exists m0. split; [reflexivity|discriminate].
  - unfold tailv in V. cbn [is_nil orb] in V. rewrite toks_valid_cons in V.
    apply andb_true_iff in V. destruct V as [V1 V2].
    rewrite tagsT_cons in *. cbn [map tvalues].
    assert (TR : treplace (fun t => if beq tag t then Some id else None) pt =
                 match kind pt with KParam n => emit (fun t => if beq tag t then Some id else None) n | _ => pt end)
      by reflexivity.
    rewrite !TR. clear TR.
    destruct (kind pt) eqn:K; cbn [app] in *.
    + cbn [nodupb] in ND. apply andb_true_iff in ND. destruct ND as [ND1 ND2]. apply negb_true_iff in ND1.
      unfold emit. destruct (beq tag name) eqn:E.
      * rewrite NI. cbn [andb].
        destruct (IH ((name, id) :: m0) NI V2 ND2) as (m & Hm & Hl). exists m. split; [exact Hm|].
        intros _. apply beq_eq in E. subst name.
        rewrite (tvalues_other _ _ _ _ _ Hm ND1). cbn [alookup]. rewrite beq_refl. reflexivity.
      * cbn [is_nil andb].
        destruct (IH ((name, dollar :: name) :: m0) NI V2 ND2) as (m & Hm & Hl). exists m. split; [exact Hm|].
        cbn [existsb]. rewrite E. cbn [orb]. exact Hl.
    + rewrite (kind_nonlit_nonnil pt) by congruence. cbn [andb]. apply (IH m0 NI V2 ND).
    + destruct (kind_full_valid _ _ K V1) as [F1 F2]. rewrite F1, F2.
      rewrite (kind_nonlit_nonnil pt) by congruence. cbn [andb negb].
      exists m0. split; [reflexivity|]. destruct ps; [|discriminate]. discriminate.
    + rewrite beq_refl. apply (IH m0 NI V2 ND).
Qed.

Lemma treplace_nodot : forall f ps, (forall n v, f n = Some v -> nodot v = true) ->
  forallb nodot ps = true -> forallb nodot (map (treplace f) ps) = true.
Proof.
  intros f ps Hf. induction ps as [|pt ps IH]; intros H; [reflexivity|].
  cbn [forallb] in H. apply andb_true_iff in H. destruct H as [H1 H2].
  cbn [map forallb]. rewrite (IH H2), andb_true_r.
  unfold treplace. destruct (kind pt) eqn:K; try exact H1.
  unfold emit. destruct (f name) eqn:F; [apply (Hf _ _ F)|].
  rewrite <- (kind_param _ _ K). exact H1.
Qed.

Lemma valid_part_nodot : forall id, is_valid_part id = true -> is_nil id = false /\ nodot id = true.
Proof.
  intros id H. unfold is_valid_part in H. apply andb_true_iff in H. destruct H as [H1 H2].
  apply negb_true_iff in H1. split; [exact H1|]. clear H1.
  induction id as [|c r IH]; [reflexivity|].
  cbn [forallb] in H2. apply andb_true_iff in H2. destruct H2 as [H2 H3].
  cbn [nodot forallb]. fold (nodot r). rewrite (IH H3), andb_true_r.
  unfold part_char_ok in H2. destruct (c =? dot); [|reflexivity].
  rewrite !orb_true_r in H2. discriminate.
Qed.

