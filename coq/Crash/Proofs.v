(* C12 - the lemmas Props/C12.v states, assembled. *)
From GoRes Require Import Crash.Spec Crash.ProofsMap Crash.ProofsExec.
From GoRes Require Export Crash.ProofsAcked Crash.ProofsInit Crash.ProofsRebuild.
Open Scope N_scope.

(* acked_durable in terms of [crash n] of the write-set log *)
Lemma acked_durable_crash_pf : forall g c0 ops sched n t,
  let tr := trace (run g c0 ops sched) in
  commits (firstn t tr) = crash n (commits tr) ->
  exists j, (j = acks (firstn t tr) \/ j = S (acks (firstn t tr))) /\ (j <= length ops)%nat /\
            sst_eq (abs (reopen c0 (crash n (commits tr)))) (spec_run (abs c0) (firstn j ops)).
Proof.
  intros g c0 ops sched n t tr H. rewrite <- H. apply (acked_durable_pf g c0 ops sched t).
Qed.

(* the code before the fix: RebuildIndexes fails on the marker of a store without prefix *)
Definition g_v0 : cfg := Cfg [] [([105; 97], fun v => Some (fst v))].
Definition ls_v0 : list lifetime :=
  [([Init [([115], ([120], []))]], [AClient; AClient; AClient; AClient; AClient; AIndex], 100%nat)].

Lemma rebuild_v0_empty_prefix_refuted_pf :
  exists g ls, prefix g = [] /\
    (forall c', rebuild_indexes_v0 g (run_all g [] ls) <> RbOk c') /\
    (exists c', rebuild_indexes g (run_all g [] ls) = RbOk c'
                /\ has_key (KIdx [105; 97] [120] [115]) c' = true
                /\ has_key (KIdx [105; 97] [120] [115]) (rb_content (rebuild_indexes_v0 g (run_all g [] ls))) = false).
Proof.
  exists g_v0, ls_v0. split; [reflexivity|]. split.
  - intros c' H. vm_compute in H. discriminate.
  - eexists. split; [vm_compute; reflexivity|]. split; vm_compute; reflexivity.
Qed.

(* ---- BadgerDB's per-transaction limit ---- *)
(* an Init beyond the limit is an Init that fails and changes nothing; every other call is untouched *)
Lemma limit_op_cases_pf : forall lim c o,
  limit_op lim c o = o \/
  (exists s, o = Init s /\ valid_seeds s = true /\ limit_op lim c o = InitErr (lim - 1)
             /\ failing_init (limit_op lim c o) /\ snd (compile_op c (limit_op lim c o)) = c).
Proof.
  intros lim c o. destruct o as [i v|i v|i|s|n]; cbn [limit_op]; auto.
  destruct (init_too_big lim c s) eqn:E; [right|left; reflexivity].
  exists s. unfold init_too_big in E. apply andb_true_iff in E. destruct E as [E _].
  apply andb_true_iff in E. destruct E as [E Hv]. apply andb_true_iff in E. destruct E as [_ Hm].
  split; [reflexivity|]. split; [exact Hv|]. split; [reflexivity|]. split; [exact I|].
  cbn [compile_op]. destruct (isSomeV (get KMark c)); reflexivity.
Qed.

(* RebuildIndexes under the limit: either it succeeds and restores the indexes exactly, or it fails
   and has changed no value and not the marker (the indexes are empty then) *)
Lemma rebuild_lim_pf : forall lim g ls,
  let c := run_all g [] ls in
  (exists c', rebuild_indexes_lim lim g c = RbOk c' /\ index_exact g c' /\
              (forall k, is_idx_of g k = false -> get k c' = get k c)) \/
  (exists d, rebuild_indexes_lim lim g c = RbErr d /\
             (forall k, is_idx_of g k = false -> get k d = get k c) /\
             (forall k, is_idx_of g k = true -> get k d = None)).
Proof.
  intros lim g ls c. unfold rebuild_indexes_lim.
  destruct (negb (is_nil (idxs g)) && negb (Nat.eqb lim 0) && negb (scan_fails g (drop_indexes g c))
            && Nat.leb lim (length (rebuild_ws g (drop_indexes g c)))).
  - right. exists (drop_indexes g c). split; [reflexivity|]. split; intros k Hk; rewrite drop_indexes_filter.
    + apply get_filter_in. unfold idx_pred. rewrite Hk. reflexivity.
    + apply get_filter_out. unfold idx_pred. rewrite Hk. reflexivity.
  - left. apply rebuild_restores_pf.
Qed.

(* ---- the byte layout keeps structured keys apart ---- *)
Definition no_byte (b : N) (s : bytes) : bool := forallb (fun x => negb (x =? b)) s.
Definition no_dollar_start (s : bytes) : bool := match s with x :: _ => negb (x =? dollar) | [] => true end.
(* ids as go-res resource-name parts: no NUL, not starting with '$' *)
Definition safe_id (i : id) : bool := no_byte 0 i && no_dollar_start i && negb (is_nil i).
Definition safe_key (k : key) : bool :=
  match k with
  | KVal i => safe_id i
  | KMark => true
  | KIdx n _ i => no_byte 58 n && safe_id i
  end.
Definition safe_cfg (g : cfg) : bool := no_byte 0 (prefix g) && no_dollar_start (prefix g).

Lemma no_byte_app : forall b x y, no_byte b (x ++ y) = no_byte b x && no_byte b y.
Proof. intros. unfold no_byte. apply forallb_app. Qed.

Lemma no_byte_not_in : forall b s, no_byte b s = true -> ~ In b s.
Proof.
  intros b s H Hin. unfold no_byte in H. rewrite forallb_forall in H. specialize (H b Hin).
  rewrite N.eqb_refl in H. discriminate.
Qed.

(* split at the first occurrence of a byte absent from both heads *)
Lemma split_first : forall b x x' y y', no_byte b x = true -> no_byte b x' = true ->
  x ++ b :: y = x' ++ b :: y' -> x = x' /\ y = y'.
Proof.
  intros b x. induction x as [|a x IH]; intros [|a' x'] y y' H1 H2 E; cbn [app] in E.
  - inversion E. auto.
  - inversion E. subst. cbn in H2. rewrite N.eqb_refl in H2. discriminate.
  - inversion E. subst. cbn in H1. rewrite N.eqb_refl in H1. discriminate.
  - inversion E. subst. cbn in H1, H2. apply andb_true_iff in H1, H2.
    destruct (IH x' y y' (proj2 H1) (proj2 H2) H3) as [-> ->]. auto.
Qed.

(* split at the last occurrence: the tails are free of the byte *)
Lemma split_last : forall b x x' y y', no_byte b y = true -> no_byte b y' = true ->
  x ++ b :: y = x' ++ b :: y' -> x = x' /\ y = y'.
Proof.
  intros b x x' y y' H1 H2 E.
  assert (E' : rev y ++ b :: rev x = rev y' ++ b :: rev x').
  { apply (f_equal (@rev N)) in E. rewrite !rev_app_distr in E. cbn [rev] in E.
    rewrite <- !app_assoc in E. exact E. }
  assert (R : forall s, no_byte b s = true -> no_byte b (rev s) = true).
  { intros s Hs. unfold no_byte in *. rewrite forallb_forall in *. intros z Hz. apply Hs. apply in_rev. exact Hz. }
  destruct (split_first b _ _ _ _ (R _ H1) (R _ H2) E') as [Ea Eb].
  apply (f_equal (@rev N)) in Ea, Eb. rewrite !rev_involutive in Ea, Eb. auto.
Qed.

Lemma enc_key_inj_pf : forall g a b, safe_cfg g = true -> safe_key a = true -> safe_key b = true ->
  enc_key g a = enc_key g b -> a = b.
Proof.
  intros g a b Hg Ha Hb E. unfold safe_cfg in Hg. apply andb_true_iff in Hg. destruct Hg as [Hp0 Hpd].
  assert (Z : forall i, safe_id i = true -> no_byte 0 i = true /\ no_dollar_start i = true /\ i <> []).
  { intros i H. unfold safe_id in H. apply andb_true_iff in H. destruct H as [H H3].
    apply andb_true_iff in H. destruct H as [H1 H2]. repeat split; auto. destruct i; [discriminate|congruence]. }
  assert (NZ : forall n ik i, ~ no_byte 0 (n ++ 58 :: ik ++ 0 :: i) = true).
  { intros n ik i H. apply no_byte_not_in in H. apply H. apply in_or_app. right. right.
    apply in_or_app. right. left. reflexivity. }
  destruct a as [i| |n ik i], b as [i'| |n' ik' i']; cbn [enc_key safe_key] in *.
  - apply app_inv_head in E. congruence.
  - exfalso. destruct (Z i Ha) as [_ [Hd Hn]]. destruct (prefix g) as [|p ps]; cbn [app] in E.
    + destruct i as [|x i]; [congruence|]. inversion E. subst. cbn in Hd. unfold dollar in Hd. discriminate.
    + inversion E. subst. cbn in Hpd. unfold dollar in Hpd. discriminate.
  - exfalso. apply (NZ n' ik' i'). rewrite <- E, no_byte_app, Hp0. destruct (Z i Ha) as [-> _]. reflexivity.
  - exfalso. destruct (Z i' Hb) as [_ [Hd Hn]]. destruct (prefix g) as [|p ps]; cbn [app] in E.
    + destruct i' as [|x i']; [congruence|]. inversion E. subst. cbn in Hd. unfold dollar in Hd. discriminate.
    + inversion E. subst. cbn in Hpd. unfold dollar in Hpd. discriminate.
  - reflexivity.
  - exfalso. apply (NZ n' ik' i'). rewrite <- E. cbn [no_byte forallb]. fold (no_byte 0 (prefix g ++ [105; 110; 105; 116])).
    rewrite no_byte_app, Hp0. reflexivity.
  - exfalso. apply (NZ n ik i). rewrite E, no_byte_app, Hp0. destruct (Z i' Hb) as [-> _]. reflexivity.
  - exfalso. apply (NZ n ik i). rewrite E. cbn [no_byte forallb]. fold (no_byte 0 (prefix g ++ [105; 110; 105; 116])).
    rewrite no_byte_app, Hp0. reflexivity.
  - apply andb_true_iff in Ha, Hb. destruct Ha as [Hn Hi], Hb as [Hn' Hi'].
    destruct (split_first 58 _ _ _ _ Hn Hn' E) as [-> E2].
    destruct (Z i Hi) as [Hz _]. destruct (Z i' Hi') as [Hz' _].
    destruct (split_last 0 _ _ _ _ Hz Hz' E2) as [-> ->]. reflexivity.
Qed.
