(* C12 - crash model of store/badgerstore (store.go Create/Update/Delete/Init,
   querystore.go handleChange -> task queue -> updateIndex, RebuildIndexes).

   The database is the list of committed atomic write-sets.  TRUSTED (stated
   here as definitions, not proved): BadgerDB's DB.Update commits its whole
   write-set atomically and durably (SyncWrites = true) or not at all, so a
   crash keeps a prefix of the list of committed write-sets ([crash]) and
   nothing partial; reopening replays the kept write-sets ([reopen]).

   Keys are structured (value key / init marker / index entry); their byte
   layout ([enc_key]) is used only by the correspondence check.  No proofs here. *)
From GoRes Require Export Base.Bytes.
Open Scope N_scope.

Definition id := bytes.
(* a stored value: the harness uses struct{A,B string}; index functions are arbitrary *)
Definition value := (bytes * bytes)%type.
Definition empty_val : value := ([], []).
Definition veqb (a b : value) : bool := beq (fst a) (fst b) && beq (snd a) (snd b).

Inductive key :=
| KVal (i : id)                      (* <prefix><id> *)
| KMark                              (* $<prefix>init *)
| KIdx (name ik : bytes) (i : id).   (* <name>:<ik>\x00<id> *)

Definition key_eqb (a b : key) : bool :=
  match a, b with
  | KVal i, KVal j => beq i j
  | KMark, KMark => true
  | KIdx n k i, KIdx n' k' i' => beq n n' && beq k k' && beq i i'
  | _, _ => false
  end.

Inductive wr := WSet (k : key) (v : value) | WDel (k : key).
Definition writeset := list wr.

(* database content: association list, every key at most once when built by put/del *)
Definition content := list (key * value).

Fixpoint get (k : key) (c : content) : option value :=
  match c with
  | [] => None
  | (k', v) :: c' => if key_eqb k k' then Some v else get k c'
  end.
Definition remove (k : key) (c : content) : content :=
  filter (fun kv => negb (key_eqb k (fst kv))) c.
Definition put (k : key) (v : value) (c : content) : content := (k, v) :: remove k c.
Definition apply_wr (c : content) (w : wr) : content :=
  match w with WSet k v => put k v c | WDel k => remove k c end.
Definition apply_ws (c : content) (ws : writeset) : content := fold_left apply_wr ws c.

(* ---- the trusted BadgerDB behaviour ---- *)
Definition crash (n : nat) (log : list writeset) : list writeset := firstn n log.
Definition reopen (c0 : content) (log : list writeset) : content := fold_left apply_ws log c0.

(* ---- store configuration ---- *)
Record cfg := Cfg {
  prefix : bytes;                                   (* st.prefix: "" or "<p>." *)
  idxs : list (bytes * (value -> option bytes))     (* (Index.Name, Index.Key); None = nil key *)
}.

(* ---- client operations ---- *)
Inductive op :=
| Create (i : id) (v : value)
| Update (i : id) (v : value)
| Delete (i : id)
| Init (seeds : list (id * value))    (* in the order the OnChange callbacks are called *)
(* an Init call that FAILS for a reason outside the seed ids: the add callback got a value of the
   wrong type, the init callback returned an error, or a seed could not be encoded (setValue
   error) after [nset] other seeds were already set inside the transaction.  The transaction is
   aborted: explicit outcome "error, nothing changed".  The same outcome stands for an Init whose
   transaction exceeds BadgerDB's per-transaction limit (ErrTxnTooBig, see [limit_op]).  (Empty / duplicate seed ids are decided
   by [valid_seeds] on [Init] itself.)  With the marker present Init returns nil before any of this. *)
| InitErr (nset : nat).

Definition isSomeV (o : option value) : bool := match o with Some _ => true | None => false end.

Fixpoint mem_id (i : id) (l : list id) : bool :=
  match l with [] => false | j :: l' => beq i j || mem_id i l' end.
Fixpoint nodup_ids (l : list id) : bool :=
  match l with [] => true | i :: l' => negb (mem_id i l') && nodup_ids l' end.
(* Init's add callback rejects an empty id and a duplicate id *)
Definition valid_seeds (s : list (id * value)) : bool :=
  forallb (fun iv => negb (is_nil (fst iv))) s && nodup_ids (map fst s).

(* crash points (verifhook.Crash names) *)
Definition pt_create_before : N := 1.
Definition pt_create_committed : N := 2.
Definition pt_update_before : N := 3.
Definition pt_update_committed : N := 4.
Definition pt_delete_before : N := 5.
Definition pt_delete_committed : N := 6.
Definition pt_init_seed_set : N := 7.
Definition pt_init_before_marker : N := 8.
Definition pt_index_before : N := 9.
Definition pt_index_committed : N := 10.

Inductive origin := FromInit | FromOp.
(* an index task: (id, before, after) as passed to handleChange *)
Definition task := (id * option value * option value)%type.

(* what the client goroutine does, in program order *)
Inductive mstep :=
| SHit (pt : N)                         (* passes a crash point *)
| SCommit (o : origin) (ws : writeset)  (* DB.Update returns nil: ws is committed *)
| SEnq (t : task)                       (* callOnChange -> handleChange -> tq.Do *)
| SAck (ok : bool).                     (* the call returns (ok = nil error) and is acknowledged *)

(* seeds whose key does not exist yet *)
Definition created_seeds (c : content) (s : list (id * value)) : list (id * value) :=
  filter (fun iv => negb (isSomeV (get (KVal (fst iv)) c))) s.
Definition init_ws (cr : list (id * value)) : writeset :=
  map (fun iv => WSet (KVal (fst iv)) (snd iv)) cr ++ [WSet KMark empty_val].

(* one call, on the value content [c] the client sees; returns the steps and the content after *)
Definition compile_op (c : content) (o : op) : list mstep * content :=
  match o with
  | Create i v =>
      if is_nil i then ([SAck false], c)
      else match get (KVal i) c with
           | Some _ => ([SHit pt_create_before; SAck false], c)
           | None => let ws := [WSet (KVal i) v] in
                     ([SHit pt_create_before; SCommit FromOp ws; SHit pt_create_committed;
                       SEnq (i, None, Some v); SAck true], apply_ws c ws)
           end
  | Update i v =>
      match get (KVal i) c with
      | None => ([SHit pt_update_before; SAck false], c)
      | Some b => let ws := [WSet (KVal i) v] in
                  ([SHit pt_update_before; SCommit FromOp ws; SHit pt_update_committed;
                    SEnq (i, Some b, Some v); SAck true], apply_ws c ws)
      end
  | Delete i =>
      match get (KVal i) c with
      | None => ([SHit pt_delete_before; SAck false], c)
      | Some b => let ws := [WDel (KVal i)] in
                  ([SHit pt_delete_before; SCommit FromOp ws; SHit pt_delete_committed;
                    SEnq (i, Some b, None); SAck true], apply_ws c ws)
      end
  | InitErr nset =>
      if isSomeV (get KMark c) then ([SAck true], c)
      else (map (fun _ => SHit pt_init_seed_set) (repeat tt nset) ++ [SAck false], c)
  | Init s =>
      if isSomeV (get KMark c) then ([SAck true], c)
      else if negb (valid_seeds s) then ([SAck false], c)
      else let cr := created_seeds c s in
           let ws := init_ws cr in
           (map (fun _ => SHit pt_init_seed_set) cr
              (* OnChange is called INSIDE the transaction, before it commits *)
              ++ map (fun iv => SEnq (fst iv, None, Some (snd iv))) cr
              ++ [SHit pt_init_before_marker; SCommit FromInit ws; SAck true],
            apply_ws c ws)
  end.

Fixpoint compile (c : content) (ops : list op) : list mstep :=
  match ops with
  | [] => []
  | o :: r => let (ms, c') := compile_op c o in ms ++ compile c' r
  end.

(* ---- BadgerDB's per-transaction limit (TRUSTED, measured by the harness on the real database):
   a read-write transaction holding [lim] or more writes fails with ErrTxnTooBig at the write that
   reaches the limit (lim = DB.MaxBatchCount() - 1; 0 stands for "never reached").  Init then
   fails after lim - 1 seeds were set and leaves nothing. ---- *)
Definition init_too_big (lim : nat) (c : content) (s : list (id * value)) : bool :=
  negb (Nat.eqb lim 0) && negb (isSomeV (get KMark c)) && valid_seeds s
  && Nat.leb lim (S (length (created_seeds c s))).
Definition limit_op (lim : nat) (c : content) (o : op) : op :=
  match o with
  | Init s => if init_too_big lim c s then InitErr (lim - 1) else o
  | _ => o
  end.
(* the workload as the limited database executes it *)
Fixpoint limit_ops (lim : nat) (c : content) (ops : list op) : list op :=
  match ops with
  | [] => []
  | o :: r => let o' := limit_op lim c o in o' :: limit_ops lim (snd (compile_op c o')) r
  end.

(* ---- updateIndex: the write-set of one index task (does not read the database) ---- *)
Definition okey (kf : value -> option bytes) (v : option value) : option bytes :=
  match v with Some x => kf x | None => None end.
Definition obytes_eq (a b : option bytes) : bool :=
  match a, b with Some x, Some y => beq x y | None, None => true | _, _ => false end.
Definition idx_wrs (ix : bytes * (value -> option bytes)) (t : task) : writeset :=
  let '(i, b, a) := t in
  let bk := okey (snd ix) b in
  let ak := okey (snd ix) a in
  if obytes_eq bk ak then []
  else (match bk with Some k => [WDel (KIdx (fst ix) k i)] | None => [] end)
    ++ (match ak with Some k => [WSet (KIdx (fst ix) k i) empty_val] | None => [] end).
Definition index_ws (g : cfg) (t : task) : writeset := flat_map (fun ix => idx_wrs ix t) (idxs g).

(* ---- the process: client goroutine + task-queue goroutine, interleaved by a schedule ---- *)
Inductive ev :=
| ECommit (o : origin) (ws : writeset)   (* a value transaction of the client goroutine committed *)
| EIdxCommit (ws : writeset)             (* an index transaction of the task-queue goroutine committed *)
| EAck (ok : bool)
| EHit (pt : N).
Inductive act := AClient | AIndex.
Record mstate := MS { prog : list mstep; queue : list task; trace : list ev }.

Definition step (g : cfg) (s : mstate) (a : act) : mstate :=
  match a with
  | AClient =>
      match prog s with
      | [] => s
      | SHit pt :: p => MS p (queue s) (trace s ++ [EHit pt])
      | SCommit o ws :: p => MS p (queue s) (trace s ++ [ECommit o ws])
      | SEnq t :: p => MS p (queue s ++ [t]) (trace s)
      | SAck ok :: p => MS p (queue s) (trace s ++ [EAck ok])
      end
  | AIndex =>
      match queue s with
      | [] => s
      | t :: q =>
          let ws := index_ws g t in
          MS (prog s) q (trace s ++ EHit pt_index_before
                           :: (if is_nil ws then [] else [EIdxCommit ws]) ++ [EHit pt_index_committed])
      end
  end.
Definition exec (g : cfg) (sched : list act) (s : mstate) : mstate := fold_left (step g) sched s.
(* one process lifetime on the database content c0 *)
Definition run (g : cfg) (c0 : content) (ops : list op) (sched : list act) : mstate :=
  exec g sched (MS (compile c0 ops) [] []).

Fixpoint commits (tr : list ev) : list writeset :=
  match tr with
  | [] => []
  | ECommit _ ws :: r => ws :: commits r
  | EIdxCommit ws :: r => ws :: commits r
  | _ :: r => commits r
  end.
Fixpoint acks (tr : list ev) : nat :=
  match tr with
  | [] => 0%nat
  | EAck _ :: r => S (acks r)
  | _ :: r => acks r
  end.
(* write-sets committed by Init *)
Fixpoint init_commits (tr : list ev) : list writeset :=
  match tr with
  | [] => []
  | ECommit FromInit ws :: r => ws :: init_commits r
  | _ :: r => init_commits r
  end.
Definition ws_val_ids (ws : writeset) : list id :=
  flat_map (fun w => match w with WSet (KVal i) _ => [i] | _ => [] end) ws.

(* the process is killed when its trace is [firstn t] of the full one; what survives *)
Definition durable (c0 : content) (tr : list ev) : content := reopen c0 (commits tr).

(* several process lifetimes: (workload, schedule, kill time) *)
Definition lifetime := (list op * list act * nat)%type.
Definition life_trace (g : cfg) (c0 : content) (l : lifetime) : list ev :=
  let '(ops, sched, t) := l in firstn t (trace (run g c0 ops sched)).
Fixpoint run_all (g : cfg) (c0 : content) (ls : list lifetime) : content :=
  match ls with
  | [] => c0
  | l :: r => run_all g (durable c0 (life_trace g c0 l)) r
  end.
(* all surviving events of all lifetimes, in order *)
Fixpoint trace_all (g : cfg) (c0 : content) (ls : list lifetime) : list ev :=
  match ls with
  | [] => []
  | l :: r => life_trace g c0 l ++ trace_all g (durable c0 (life_trace g c0 l)) r
  end.

(* ---- RebuildIndexes ---- *)
Definition is_idx_of (g : cfg) (k : key) : bool :=
  match k with KIdx n _ _ => existsb (fun ix => beq n (fst ix)) (idxs g) | _ => false end.
(* DropPrefix(idx.getQuery(nil)) for every index *)
Definition drop_indexes (g : cfg) (c : content) : content :=
  filter (fun kv => negb (is_idx_of g (fst kv))) c.
Definition entry_ws (g : cfg) (i : id) (v : value) : writeset :=
  flat_map (fun ix => match snd ix v with Some ik => [WSet (KIdx (fst ix) ik i) empty_val] | None => [] end) (idxs g).
(* the iteration over keys having the store prefix: all value keys; with an empty prefix also
   the marker (skipped by the bytes.Equal test) and the index keys (all dropped before) *)
Definition rebuild_ws (g : cfg) (c : content) : writeset :=
  flat_map (fun kv => match fst kv with KVal i => entry_ws g i (snd kv) | _ => [] end) c.
Inductive rb_result := RbOk (c : content) | RbErr (c : content).
(* with an empty prefix every remaining key is unmarshalled as a value: an index entry of an
   index that is not configured any more (empty data) makes json.Unmarshal fail *)
Definition scan_fails (g : cfg) (d : content) : bool :=
  is_nil (prefix g) && existsb (fun kv => match fst kv with KIdx _ _ _ => true | _ => false end) d.
Definition rebuild_indexes (g : cfg) (c : content) : rb_result :=
  if is_nil (idxs g) then RbOk c
  else let d := drop_indexes g c in
       if scan_fails g d then RbErr d else RbOk (apply_ws d (rebuild_ws g d)).
(* with the per-transaction limit: the single transaction that writes the new entries fails with
   ErrTxnTooBig after the old entries were dropped; otherwise as above *)
Definition rebuild_indexes_lim (lim : nat) (g : cfg) (c : content) : rb_result :=
  let d := drop_indexes g c in
  if negb (is_nil (idxs g)) && negb (Nat.eqb lim 0) && negb (scan_fails g d)
     && Nat.leb lim (length (rebuild_ws g d))
  then RbErr d else rebuild_indexes g c.
(* before the fix in /repo the marker was unmarshalled as a value when the prefix is empty:
   json.Unmarshal of empty data fails after the indexes were dropped *)
Definition rebuild_indexes_v0 (g : cfg) (c : content) : rb_result :=
  if is_nil (idxs g) then RbOk c
  else let d := drop_indexes g c in
       if scan_fails g d || (is_nil (prefix g) && isSomeV (get KMark d)) then RbErr d
       else RbOk (apply_ws d (rebuild_ws g d)).
Definition rb_content (r : rb_result) : content := match r with RbOk c => c | RbErr c => c end.

(* index entries of a content / the index the stored values call for *)
Definition has_key (k : key) (c : content) : bool := isSomeV (get k c).
Definition wanted (g : cfg) (c : content) (k : key) : bool :=
  match k with
  | KIdx n ik i =>
      match get (KVal i) c with
      | Some v => existsb (fun ix => beq n (fst ix) && obytes_eq (snd ix v) (Some ik)) (idxs g)
      | None => false
      end
  | _ => false
  end.
(* ids listed by an unrestricted query on index [n] *)
Definition query_ids (n : bytes) (c : content) : list id :=
  flat_map (fun kv => match fst kv with KIdx n' _ i => if beq n n' then [i] else [] | _ => [] end) c.

(* ---- byte layout (index.go getKey, store.go) ---- *)
Definition enc_key (g : cfg) (k : key) : bytes :=
  match k with
  | KVal i => prefix g ++ i
  | KMark => dollar :: prefix g ++ [105; 110; 105; 116]
  | KIdx n ik i => n ++ 58 :: ik ++ 0 :: i
  end.
