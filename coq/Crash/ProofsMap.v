(* C12 - finite-map lemmas about content / write-sets / logs. *)
From GoRes Require Import Crash.Spec.
Open Scope N_scope.

Lemma beq_refl : forall a, beq a a = true.
Proof. induction a as [|x a IH]; cbn [beq]; [reflexivity|]. rewrite N.eqb_refl, IH. reflexivity. Qed.

Lemma beq_eq : forall a b, beq a b = true -> a = b.
Proof.
  induction a as [|x a IH]; intros [|y b] H; cbn [beq] in H; try discriminate; [reflexivity|].
  apply andb_true_iff in H. destruct H as [H1 H2]. apply N.eqb_eq in H1. apply IH in H2. congruence.
Qed.

Lemma beq_sym : forall a b, beq a b = beq b a.
Proof.
  intros a b. destruct (beq a b) eqn:E.
  - apply beq_eq in E. subst. symmetry. apply beq_refl.
  - destruct (beq b a) eqn:E2; [|reflexivity]. apply beq_eq in E2. subst. rewrite beq_refl in E. discriminate.
Qed.

Lemma key_eqb_refl : forall k, key_eqb k k = true.
Proof. destruct k; cbn [key_eqb]; rewrite ?beq_refl; reflexivity. Qed.

Lemma key_eqb_eq : forall a b, key_eqb a b = true -> a = b.
Proof.
  destruct a, b; cbn [key_eqb]; intro H; try discriminate; try reflexivity.
  - apply beq_eq in H. congruence.
  - apply andb_true_iff in H. destruct H as [H H3]. apply andb_true_iff in H. destruct H as [H1 H2].
    apply beq_eq in H1, H2, H3. congruence.
Qed.

Lemma key_eqb_sym : forall a b, key_eqb a b = key_eqb b a.
Proof.
  intros a b. destruct (key_eqb a b) eqn:E.
  - apply key_eqb_eq in E. subst. symmetry. apply key_eqb_refl.
  - destruct (key_eqb b a) eqn:E2; [|reflexivity]. apply key_eqb_eq in E2. subst. rewrite key_eqb_refl in E. discriminate.
Qed.

Lemma get_remove : forall k k' c, get k (remove k' c) = if key_eqb k k' then None else get k c.
Proof.
  intros k k' c. induction c as [|[k2 v] c IH]; cbn [remove filter get fst].
  - destruct (key_eqb k k'); reflexivity.
  - destruct (key_eqb k' k2) eqn:E; cbn [negb].
    + fold (remove k' c). rewrite IH. apply key_eqb_eq in E. subst k2.
      destruct (key_eqb k k'); reflexivity.
    + cbn [get]. fold (remove k' c). rewrite IH.
      destruct (key_eqb k k2) eqn:E2; [|reflexivity].
      apply key_eqb_eq in E2. subst k2. rewrite key_eqb_sym, E. reflexivity.
Qed.

Lemma get_put : forall k k' v c, get k (put k' v c) = if key_eqb k k' then Some v else get k c.
Proof.
  intros. unfold put. cbn [get]. destruct (key_eqb k k') eqn:E; [reflexivity|].
  rewrite get_remove, E. reflexivity.
Qed.

(* the effect of a write-set / a log on one key *)
Definition wr_get (k : key) (d : option value) (w : wr) : option value :=
  match w with
  | WSet k' v => if key_eqb k k' then Some v else d
  | WDel k' => if key_eqb k k' then None else d
  end.
Definition ws_get (k : key) (d : option value) (ws : writeset) : option value := fold_left (wr_get k) ws d.
Definition log_get (k : key) (d : option value) (log : list writeset) : option value := fold_left (ws_get k) log d.

Lemma get_apply_wr : forall k c w, get k (apply_wr c w) = wr_get k (get k c) w.
Proof. intros k c [k' v|k']; cbn [apply_wr wr_get]; [apply get_put|apply get_remove]. Qed.

Lemma get_apply_ws : forall k ws c, get k (apply_ws c ws) = ws_get k (get k c) ws.
Proof.
  intros k ws. induction ws as [|w ws IH]; intro c; [reflexivity|].
  unfold apply_ws, ws_get in *. cbn [fold_left]. rewrite IH, get_apply_wr. reflexivity.
Qed.

Lemma get_reopen : forall k log c, get k (reopen c log) = log_get k (get k c) log.
Proof.
  intros k log. induction log as [|ws log IH]; intro c; [reflexivity|].
  unfold reopen, log_get in *. cbn [fold_left]. rewrite IH, get_apply_ws. reflexivity.
Qed.

Lemma ws_get_app : forall k d a b, ws_get k d (a ++ b) = ws_get k (ws_get k d a) b.
Proof. intros. unfold ws_get. apply fold_left_app. Qed.

Lemma reopen_app : forall c a b, reopen c (a ++ b) = reopen (reopen c a) b.
Proof. intros. unfold reopen. apply fold_left_app. Qed.

Lemma reopen_cons : forall c ws l, reopen c (ws :: l) = reopen (apply_ws c ws) l.
Proof. reflexivity. Qed.

(* keys written by a write-set *)
Definition wr_key (w : wr) : key := match w with WSet k _ => k | WDel k => k end.

Lemma ws_get_untouched : forall k ws d,
  (forall w, In w ws -> key_eqb k (wr_key w) = false) -> ws_get k d ws = d.
Proof.
  intros k ws. induction ws as [|w ws IH]; intros d H; [reflexivity|].
  unfold ws_get in *. cbn [fold_left].
  assert (Hw : wr_get k d w = d).
  { specialize (H w (or_introl eq_refl)). destruct w; cbn [wr_get wr_key] in *; rewrite H; reflexivity. }
  rewrite Hw. apply IH. intros w' Hin. apply H. right. exact Hin.
Qed.

(* a write-set of WSets only: the key is present afterwards iff it was present or is set *)
Definition sets_key (k : key) (w : wr) : bool := match w with WSet k' _ => key_eqb k k' | WDel _ => false end.
Definition only_sets (ws : writeset) : Prop := forall w, In w ws -> exists k v, w = WSet k v.

Lemma ws_get_only_sets : forall k ws d, only_sets ws ->
  isSomeV (ws_get k d ws) = isSomeV d || existsb (sets_key k) ws.
Proof.
  intros k ws. induction ws as [|w ws IH]; intros d H.
  - cbn. rewrite orb_false_r. reflexivity.
  - unfold ws_get in *. cbn [fold_left existsb].
    rewrite IH by (intros w' Hin; apply H; right; exact Hin).
    destruct (H w (or_introl eq_refl)) as [k' [v ->]]. cbn [wr_get sets_key].
    destruct (key_eqb k k'); cbn [isSomeV orb]; [rewrite orb_true_r; reflexivity|reflexivity].
Qed.

Lemma get_filter_out : forall (p : key -> bool) k c, p k = false ->
  get k (filter (fun kv => p (fst kv)) c) = None.
Proof.
  intros p k c Hp. induction c as [|[k2 v] c IH]; [reflexivity|].
  cbn [filter fst]. destruct (p k2) eqn:E; [|exact IH].
  cbn [get]. destruct (key_eqb k k2) eqn:E2; [|exact IH].
  apply key_eqb_eq in E2. subst. congruence.
Qed.

Lemma get_filter_in : forall (p : key -> bool) k c, p k = true ->
  get k (filter (fun kv => p (fst kv)) c) = get k c.
Proof.
  intros p k c Hp. induction c as [|[k2 v] c IH]; [reflexivity|].
  cbn [filter fst get]. destruct (p k2) eqn:E.
  - cbn [get]. rewrite IH. reflexivity.
  - destruct (key_eqb k k2) eqn:E2; [|exact IH]. apply key_eqb_eq in E2. subst. congruence.
Qed.

Lemma get_in : forall k v c, get k c = Some v -> In (k, v) c.
Proof.
  intros k v c. induction c as [|[k2 v2] c IH]; cbn [get]; intro H; [discriminate|].
  destruct (key_eqb k k2) eqn:E.
  - apply key_eqb_eq in E. left. congruence.
  - right. apply IH. exact H.
Qed.

Lemma in_get_some : forall k v c, In (k, v) c -> isSomeV (get k c) = true.
Proof.
  intros k v c. induction c as [|[k2 v2] c IH]; intro H; [destruct H|].
  cbn [get]. destruct (key_eqb k k2) eqn:E; [reflexivity|].
  destruct H as [H|H]; [|apply IH; exact H]. inversion H. subst. rewrite key_eqb_refl in E. discriminate.
Qed.

(* contents built by put / remove have every key once *)
Definition wf (c : content) : Prop := NoDup (map fst c).

Lemma in_remove : forall k kv c, In kv (remove k c) -> In kv c.
Proof. intros k kv c H. unfold remove in H. apply filter_In in H. tauto. Qed.

Lemma wf_filter : forall (p : key * value -> bool) c, wf c -> wf (filter p c).
Proof.
  intros p c. unfold wf. induction c as [|kv c IH]; intro H; [constructor|].
  cbn [filter]. inversion H as [|x l Hn Hd]. subst.
  destruct (p kv); [|apply IH; exact Hd].
  cbn [map]. constructor; [|apply IH; exact Hd].
  intro Hin. apply Hn. apply in_map_iff in Hin. destruct Hin as [kv' [E Hin]].
  apply filter_In in Hin. apply in_map_iff. exists kv'. tauto.
Qed.

Lemma wf_put : forall k v c, wf c -> wf (put k v c).
Proof.
  intros k v c H. unfold put, wf. cbn [map fst]. constructor.
  - intro Hin. apply in_map_iff in Hin. destruct Hin as [[k2 v2] [E Hin]]. cbn [fst] in E. subst k2.
    unfold remove in Hin. apply filter_In in Hin. destruct Hin as [_ Hf]. cbn [fst] in Hf.
    rewrite key_eqb_refl in Hf. discriminate.
  - apply (wf_filter _ c H).
Qed.

Lemma wf_apply_ws : forall ws c, wf c -> wf (apply_ws c ws).
Proof.
  induction ws as [|w ws IH]; intros c H; [exact H|].
  unfold apply_ws in *. cbn [fold_left]. apply IH.
  destruct w; cbn [apply_wr]; [apply wf_put; exact H|apply (wf_filter _ c H)].
Qed.

Lemma wf_reopen : forall log c, wf c -> wf (reopen c log).
Proof.
  induction log as [|ws log IH]; intros c H; [exact H|].
  rewrite reopen_cons. apply IH. apply wf_apply_ws. exact H.
Qed.

Lemma wf_in_get : forall k v c, wf c -> In (k, v) c -> get k c = Some v.
Proof.
  intros k v c. unfold wf. induction c as [|[k2 v2] c IH]; intros Hw Hin; [destruct Hin|].
  cbn [map fst] in Hw. inversion Hw as [|x l Hn Hd]. subst.
  cbn [get]. destruct Hin as [Hin|Hin].
  - inversion Hin. subst. rewrite key_eqb_refl. reflexivity.
  - destruct (key_eqb k k2) eqn:E; [|apply IH; assumption].
    apply key_eqb_eq in E. subst k2. exfalso. apply Hn. apply in_map_iff. exists (k, v). tauto.
Qed.

(* prefixes *)
Lemma prefix_of_nil : forall A (l : list A), prefix_of [] l.
Proof. intros. exists l. reflexivity. Qed.

Lemma firstn_prefix : forall A n (l : list A), prefix_of (firstn n l) l.
Proof. intros. exists (skipn n l). symmetry. apply firstn_skipn. Qed.

Lemma prefix_of_trans : forall A (a b c : list A), prefix_of a b -> prefix_of b c -> prefix_of a c.
Proof. intros A a b c [r1 H1] [r2 H2]. exists (r1 ++ r2). subst. rewrite app_assoc. reflexivity. Qed.

Lemma prefix_of_cons_inv : forall A (x : A) p l, prefix_of p (x :: l) -> p = [] \/ exists p', p = x :: p' /\ prefix_of p' l.
Proof.
  intros A x p l [r H]. destruct p as [|y p]; [left; reflexivity|right].
  cbn in H. inversion H. subst. exists p. split; [reflexivity|exists r; reflexivity].
Qed.
