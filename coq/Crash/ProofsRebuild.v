(* C12 - rebuild_restores: after RebuildIndexes the index entries are exactly those the stored
   values call for, for every content reachable through any lifetimes and kills. *)
From GoRes Require Import Crash.Spec Crash.ProofsMap Crash.ProofsExec Crash.ProofsAcked Crash.ProofsInit.
Open Scope N_scope.

Definition idx_pred (g : cfg) (k : key) : bool := negb (is_idx_of g k).

Lemma drop_indexes_filter : forall g c, drop_indexes g c = filter (fun kv => idx_pred g (fst kv)) c.
Proof. reflexivity. Qed.

Lemma rebuild_ws_in : forall g d w, In w (rebuild_ws g d) ->
  exists i v ix ik, In (KVal i, v) d /\ In ix (idxs g) /\ snd ix v = Some ik /\ w = WSet (KIdx (fst ix) ik i) empty_val.
Proof.
  intros g d w H. unfold rebuild_ws in H. apply in_flat_map in H. destruct H as [[k v] [Hin Hw]].
  cbn [fst snd] in Hw. destruct k as [i| |n ik i]; try destruct Hw.
  unfold entry_ws in Hw. apply in_flat_map in Hw. destruct Hw as [ix [Hix Hw]].
  destruct (snd ix v) as [ik|] eqn:E; [|destruct Hw]. destruct Hw as [<-|[]].
  exists i, v, ix, ik. auto.
Qed.

Lemma rebuild_ws_intro : forall g d i v ix ik, In (KVal i, v) d -> In ix (idxs g) -> snd ix v = Some ik ->
  In (WSet (KIdx (fst ix) ik i) empty_val) (rebuild_ws g d).
Proof.
  intros g d i v ix ik Hin Hix E. unfold rebuild_ws. apply in_flat_map. exists (KVal i, v). split; [exact Hin|].
  cbn [fst snd]. unfold entry_ws. apply in_flat_map. exists ix. split; [exact Hix|]. rewrite E. left. reflexivity.
Qed.

Lemma rebuild_only_sets : forall g d, only_sets (rebuild_ws g d).
Proof.
  intros g d w H. apply rebuild_ws_in in H. destruct H as [i [v [ix [ik [_ [_ [_ ->]]]]]]]. eauto.
Qed.

Lemma rebuild_ws_idx_only : forall g d, ws_idx_only g (rebuild_ws g d).
Proof.
  intros g d w H. apply rebuild_ws_in in H. destruct H as [i [v [ix [ik [_ [Hix [_ ->]]]]]]].
  cbn [wr_key]. apply is_idx_of_intro. exact Hix.
Qed.

Lemma untouched_by_idx_only : forall g ws k d, ws_idx_only g ws -> is_idx_of g k = false -> ws_get k d ws = d.
Proof.
  intros g ws k d H Hk. apply ws_get_untouched. intros w Hw.
  destruct (key_eqb k (wr_key w)) eqn:E; [|reflexivity].
  apply key_eqb_eq in E. subst k. rewrite (H w Hw) in Hk. discriminate.
Qed.

Lemma obytes_eq_eq : forall a b, obytes_eq a b = true -> a = b.
Proof. intros [a|] [b|] H; cbn in H; try discriminate; [apply beq_eq in H; congruence|reflexivity]. Qed.

(* the heart: on a content with unique keys whose scan cannot fail *)
Lemma rebuild_core : forall g c, wf c -> scan_fails g (drop_indexes g c) = false ->
  exists c', rebuild_indexes g c = RbOk c' /\ index_exact g c' /\
             (forall k, is_idx_of g k = false -> get k c' = get k c).
Proof.
  intros g c Hwf Hscan. unfold rebuild_indexes.
  destruct (idxs g) as [|ix0 ixs] eqn:Eidx; cbn [is_nil].
  { exists c. split; [reflexivity|]. split; [|auto].
    intros n ik i H. cbn [is_idx_of] in H. rewrite Eidx in H. discriminate. }
  rewrite Hscan. set (d := drop_indexes g c). exists (apply_ws d (rebuild_ws g d)).
  split; [reflexivity|].
  assert (Hwfd : wf d) by (apply wf_filter; exact Hwf).
  assert (Hkeep : forall k, is_idx_of g k = false -> get k (apply_ws d (rebuild_ws g d)) = get k c).
  { intros k Hk. rewrite get_apply_ws, (untouched_by_idx_only g) by (auto using rebuild_ws_idx_only).
    subst d. rewrite drop_indexes_filter. apply get_filter_in. unfold idx_pred. rewrite Hk. reflexivity. }
  split; [|exact Hkeep].
  intros n ik i Hk. unfold has_key, wanted.
  rewrite (Hkeep (KVal i) eq_refl).
  rewrite get_apply_ws, (ws_get_only_sets _ _ _ (rebuild_only_sets g d)).
  assert (Hd : get (KIdx n ik i) d = None).
  { subst d. rewrite drop_indexes_filter. apply get_filter_out. unfold idx_pred. rewrite Hk. reflexivity. }
  rewrite Hd. cbn [isSomeV orb].
  assert (Hv : get (KVal i) d = get (KVal i) c).
  { subst d. rewrite drop_indexes_filter. apply get_filter_in. reflexivity. }
  apply Bool.eq_iff_eq_true. split; intro H.
  - apply existsb_exists in H. destruct H as [w [Hw Hs]].
    apply rebuild_ws_in in Hw. destruct Hw as [i' [v [ix [ik' [Hin [Hix [E ->]]]]]]].
    cbn [sets_key] in Hs. apply key_eqb_eq in Hs. inversion Hs. subst.
    rewrite <- Hv, (wf_in_get _ _ _ Hwfd Hin). apply existsb_exists. exists ix. split; [exact Hix|].
    rewrite beq_refl, E. cbn. apply beq_refl.
  - destruct (get (KVal i) c) as [v|] eqn:Ev; [|discriminate].
    apply existsb_exists in H. destruct H as [ix [Hix H]]. apply andb_true_iff in H. destruct H as [H1 H2].
    apply beq_eq in H1. apply obytes_eq_eq in H2. subst n.
    apply existsb_exists. exists (WSet (KIdx (fst ix) ik i) empty_val). split.
    + apply (rebuild_ws_intro g d i v ix ik); [apply get_in; congruence|exact Hix|exact H2].
    + cbn [sets_key]. apply key_eqb_refl.
Qed.

Lemma scan_ok : forall g c, (no_foreign g c \/ is_nil (prefix g) = false) -> scan_fails g (drop_indexes g c) = false.
Proof.
  intros g c [H|H]; unfold scan_fails; [|rewrite H; reflexivity].
  destruct (existsb _ (drop_indexes g c)) eqn:E; [|apply andb_false_r].
  exfalso. apply existsb_exists in E. destruct E as [[k v] [Hin Hk]]. cbn [fst] in Hk.
  unfold drop_indexes in Hin. apply filter_In in Hin. destruct Hin as [Hin Hf]. cbn [fst] in Hf.
  destruct k as [i| |n ik i]; try discriminate.
  rewrite (H n ik i) in Hf; [discriminate|]. unfold has_key. apply (in_get_some _ v). exact Hin.
Qed.

Lemma rebuild_restores_any_pf : forall g log,
  let c := reopen [] log in
  (no_foreign g c \/ is_nil (prefix g) = false) ->
  exists c', rebuild_indexes g c = RbOk c' /\ index_exact g c' /\
             (forall k, is_idx_of g k = false -> get k c' = get k c).
Proof.
  intros g log c H. apply rebuild_core; [|apply scan_ok; exact H].
  subst c. apply wf_reopen. constructor.
Qed.

(* ---- reachable contents hold index entries of configured indexes only ---- *)
Definition wr_nf (g : cfg) (w : wr) : Prop := vkey (wr_key w) = true \/ is_idx_of g (wr_key w) = true.
Definition ws_nf (g : cfg) (ws : writeset) : Prop := forall w, In w ws -> wr_nf g w.

Lemma nf_apply_ws : forall g c ws, no_foreign g c -> ws_nf g ws -> no_foreign g (apply_ws c ws).
Proof.
  intros g c ws Hc Hws n ik i H. unfold has_key in H. rewrite get_apply_ws in H.
  destruct (existsb (fun w => key_eqb (KIdx n ik i) (wr_key w)) ws) eqn:E.
  - apply existsb_exists in E. destruct E as [w [Hw Hk]]. apply key_eqb_eq in Hk.
    destruct (Hws w Hw) as [Hv|Hi]; rewrite <- Hk in *; [discriminate|exact Hi].
  - rewrite ws_get_untouched in H; [apply Hc; exact H|].
    intros w Hw. destruct (key_eqb (KIdx n ik i) (wr_key w)) eqn:Ek; [|reflexivity].
    assert (Ht : existsb (fun w => key_eqb (KIdx n ik i) (wr_key w)) ws = true)
      by (apply existsb_exists; exists w; auto).
    congruence.
Qed.

Lemma nf_reopen : forall g log c, no_foreign g c -> Forall (ws_nf g) log -> no_foreign g (reopen c log).
Proof.
  intros g log. induction log as [|ws log IH]; intros c Hc Hl; [exact Hc|].
  inversion Hl. subst. rewrite reopen_cons. apply IH; [apply nf_apply_ws; assumption|assumption].
Qed.

Definition ev_vk (e : ev) : Prop :=
  match e with ECommit _ ws => forall w, In w ws -> vkey (wr_key w) = true | _ => True end.

Lemma init_ws_vk : forall cr w, In w (init_ws cr) -> vkey (wr_key w) = true.
Proof.
  intros cr w H. unfold init_ws in H. apply in_app_or in H. destruct H as [H|[<-|[]]]; [|reflexivity].
  apply in_map_iff in H. destruct H as [iv [<- _]]. reflexivity.
Qed.

Lemma compile_op_vk : forall c o, Forall ev_vk (cl_vis (fst (compile_op c o))).
Proof.
  intros c o. destruct o as [i v|i v|i|sd|n];
    [| | | |cbn [compile_op]; destruct (isSomeV (get KMark c)); cbn [fst];
            [|rewrite cl_vis_app, cl_vis_hits]; repeat constructor].
  - cbn [compile_op]. destruct (is_nil i); [repeat constructor|].
    destruct (get (KVal i) c); repeat constructor. intros w [<-|[]]. reflexivity.
  - cbn [compile_op]. destruct (get (KVal i) c); repeat constructor. intros w [<-|[]]. reflexivity.
  - cbn [compile_op]. destruct (get (KVal i) c); repeat constructor. intros w [<-|[]]. reflexivity.
  - destruct (marked c) eqn:Em.
    + cbn [compile_op]. unfold marked in Em. rewrite Em. repeat constructor.
    + destruct (valid_seeds sd) eqn:Ev.
      * destruct (compile_init_unmarked c sd Em Ev) as [-> _]. repeat constructor. exact (init_ws_vk _).
      * cbn [compile_op]. unfold marked in Em. rewrite Em, Ev. repeat constructor.
Qed.

Lemma compile_vk : forall ops c, Forall ev_vk (cl_vis (compile c ops)).
Proof.
  induction ops as [|o r IH]; intro c; [constructor|].
  rewrite compile_cons, cl_vis_app. apply Forall_app. split; [apply compile_op_vk|apply IH].
Qed.

Lemma Forall_prefix : forall A (P : A -> Prop) p l, prefix_of p l -> Forall P l -> Forall P p.
Proof. intros A P p l [r ->] H. apply Forall_app in H. tauto. Qed.

Lemma commits_nf : forall g tr, Forall (ev_ok g) tr -> Forall ev_vk (vis tr) -> Forall (ws_nf g) (commits tr).
Proof.
  intros g tr. induction tr as [|e tr IH]; intros H1 H2; [constructor|].
  inversion H1 as [|x y He Hr]. subst.
  destruct e; cbn [commits vis filter vis_ev] in *; fold (vis tr) in *.
  - inversion H2 as [|x y Hv Hr2]. subst. constructor; [|apply IH; assumption].
    intros w Hw. left. apply Hv. exact Hw.
  - constructor; [|apply IH; assumption]. intros w Hw. right. apply He. exact Hw.
  - inversion H2. subst. apply IH; assumption.
  - apply IH; assumption.
Qed.

Lemma life_nf : forall g c l, no_foreign g c -> no_foreign g (durable c (life_trace g c l)).
Proof.
  intros g c [[ops sched] t] H. cbn [life_trace]. unfold durable. apply nf_reopen; [exact H|].
  apply commits_nf; [apply Forall_firstn, run_ok|].
  eapply Forall_prefix; [apply killed_vis_prefix|apply compile_vk].
Qed.

Lemma run_all_nf : forall g ls c, no_foreign g c -> no_foreign g (run_all g c ls).
Proof.
  intros g ls. induction ls as [|l r IH]; intros c H; [exact H|].
  cbn [run_all]. apply IH. apply life_nf. exact H.
Qed.

Lemma commits_app : forall a b, commits (a ++ b) = commits a ++ commits b.
Proof.
  induction a as [|e a IH]; intro b; [reflexivity|].
  destruct e; cbn [app commits]; rewrite IH; reflexivity.
Qed.

Lemma run_all_reopen : forall g ls c, run_all g c ls = reopen c (commits (trace_all g c ls)).
Proof.
  intros g ls. induction ls as [|l r IH]; intro c; [reflexivity|].
  cbn [run_all trace_all]. rewrite commits_app, reopen_app. apply IH.
Qed.

Lemma rebuild_restores_pf : forall g ls,
  let c := run_all g [] ls in
  exists c', rebuild_indexes g c = RbOk c' /\ index_exact g c' /\
             (forall k, is_idx_of g k = false -> get k c' = get k c).
Proof.
  intros g ls c. subst c. rewrite run_all_reopen. apply rebuild_restores_any_pf. left.
  rewrite <- run_all_reopen. apply run_all_nf. intros n ik i H. discriminate.
Qed.
