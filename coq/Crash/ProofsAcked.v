(* C12 - acked_durable: the durable state of a killed process is the specification state
   after the acknowledged calls, or after those plus the call in flight. *)
From GoRes Require Import Crash.Spec Crash.ProofsMap Crash.ProofsExec.
Open Scope N_scope.

Lemma sst_eq_refl : forall s, sst_eq s s.
Proof. intro s. split; reflexivity. Qed.
Lemma sst_eq_sym : forall a b, sst_eq a b -> sst_eq b a.
Proof. intros a b [H1 H2]. split; [intro i; symmetry; apply H1|symmetry; exact H2]. Qed.
Lemma sst_eq_trans : forall a b c, sst_eq a b -> sst_eq b c -> sst_eq a c.
Proof. intros a b c [H1 H2] [H3 H4]. split; [intro i; rewrite H1; apply H3|congruence]. Qed.

Lemma spec_step_congr : forall a b o, sst_eq a b -> sst_eq (spec_step a o) (spec_step b o).
Proof.
  intros a b o [Hv Hi]. destruct o as [i v|i v|i|s|n]; cbn [spec_step]; [| | | |split; assumption].
  - destruct (is_nil i); [split; assumption|]. rewrite <- (Hv i).
    destruct (sval a i); [split; assumption|].
    split; cbn [sset sval sinit]; [intro j; destruct (beq j i); [reflexivity|apply Hv]|exact Hi].
  - rewrite <- (Hv i). destruct (sval a i); [|split; assumption].
    split; cbn [sset sval sinit]; [intro j; destruct (beq j i); [reflexivity|apply Hv]|exact Hi].
  - rewrite <- (Hv i). destruct (sval a i); [|split; assumption].
    split; cbn [sset sval sinit]; [intro j; destruct (beq j i); [reflexivity|apply Hv]|exact Hi].
  - rewrite <- Hi. destruct (sinit a) eqn:Ea; [split; [exact Hv|congruence]|].
    destruct (negb (valid_seeds s)); [split; [exact Hv|congruence]|].
    split; cbn [sval sinit]; [intro j; rewrite (Hv j); reflexivity|reflexivity].
Qed.

Lemma spec_run_congr : forall ops a b, sst_eq a b -> sst_eq (spec_run a ops) (spec_run b ops).
Proof.
  induction ops as [|o ops IH]; intros a b H; [exact H|].
  unfold spec_run in *. cbn [fold_left]. apply IH. apply spec_step_congr. exact H.
Qed.

(* ---- seeds ---- *)
Lemma mem_id_false_lookup : forall j l, mem_id j (map fst l) = false -> seed_lookup j l = None.
Proof.
  intros j l. induction l as [|[i v] l IH]; intro H; [reflexivity|].
  cbn [map fst mem_id] in H. apply orb_false_iff in H. destruct H as [H1 H2].
  cbn [seed_lookup]. rewrite H1. apply IH. exact H2.
Qed.

Definition seed_wrs (l : list (id * value)) : writeset := map (fun iv => WSet (KVal (fst iv)) (snd iv)) l.

Lemma ws_get_seeds : forall j l d, nodup_ids (map fst l) = true ->
  ws_get (KVal j) d (seed_wrs l) = match seed_lookup j l with Some v => Some v | None => d end.
Proof.
  intros j l. induction l as [|[i v] l IH]; intros d H; [reflexivity|].
  cbn [map fst nodup_ids] in H. apply andb_true_iff in H. destruct H as [H1 H2].
  unfold ws_get in *. cbn [seed_wrs map fold_left fst snd wr_get key_eqb seed_lookup].
  fold (seed_wrs l). rewrite IH by exact H2.
  destruct (beq j i) eqn:E; [|reflexivity].
  apply beq_eq in E. subst i. apply negb_true_iff in H1.
  rewrite (mem_id_false_lookup j l H1). reflexivity.
Qed.

Lemma ws_get_seeds_mark : forall l d, ws_get KMark d (seed_wrs l) = d.
Proof.
  intros. apply ws_get_untouched. intros w H. unfold seed_wrs in H. apply in_map_iff in H.
  destruct H as [iv [<- _]]. reflexivity.
Qed.

Lemma mem_id_filter : forall j (p : id * value -> bool) l,
  mem_id j (map fst (filter p l)) = true -> mem_id j (map fst l) = true.
Proof.
  intros j p l. induction l as [|iv l IH]; intro H; [exact H|].
  cbn [filter] in H. cbn [map mem_id]. destruct (p iv).
  - cbn [map mem_id] in H. apply orb_true_iff in H. apply orb_true_iff. destruct H; [left|right]; auto.
  - apply orb_true_iff. right. auto.
Qed.

Lemma nodup_ids_filter : forall (p : id * value -> bool) l,
  nodup_ids (map fst l) = true -> nodup_ids (map fst (filter p l)) = true.
Proof.
  intros p l. induction l as [|iv l IH]; intro H; [reflexivity|].
  cbn [map nodup_ids] in H. apply andb_true_iff in H. destruct H as [H1 H2].
  cbn [filter]. destruct (p iv); [|apply IH; exact H2].
  cbn [map nodup_ids]. apply andb_true_iff. split; [|apply IH; exact H2].
  apply negb_true_iff. apply negb_true_iff in H1.
  destruct (mem_id (fst iv) (map fst (filter p l))) eqn:E; [|reflexivity].
  apply mem_id_filter in E. congruence.
Qed.

Lemma lookup_created : forall c j s, get (KVal j) c = None ->
  seed_lookup j (created_seeds c s) = seed_lookup j s.
Proof.
  intros c j s Hj. induction s as [|[i v] s IH]; [reflexivity|].
  unfold created_seeds in *. cbn [filter fst seed_lookup].
  destruct (beq j i) eqn:E.
  - apply beq_eq in E. subst i. rewrite Hj. cbn [isSomeV negb seed_lookup]. rewrite beq_refl. reflexivity.
  - destruct (negb (isSomeV (get (KVal i) c))); [cbn [seed_lookup]; rewrite E|]; exact IH.
Qed.

Lemma lookup_created_present : forall c j s, isSomeV (get (KVal j) c) = true ->
  seed_lookup j (created_seeds c s) = None.
Proof.
  intros c j s Hj. induction s as [|[i v] s IH]; [reflexivity|].
  unfold created_seeds in *. cbn [filter fst].
  destruct (isSomeV (get (KVal i) c)) eqn:Ei; cbn [negb]; [exact IH|].
  cbn [seed_lookup]. destruct (beq j i) eqn:E; [|exact IH].
  apply beq_eq in E. subst i. congruence.
Qed.

Lemma valid_seeds_nodup : forall s, valid_seeds s = true -> nodup_ids (map fst s) = true.
Proof. intros s H. unfold valid_seeds in H. apply andb_true_iff in H. tauto. Qed.

(* Init's write-set on an uninitialised store *)
Lemma abs_init : forall c s, valid_seeds s = true ->
  sst_eq (abs (apply_ws c (init_ws (created_seeds c s))))
         (SS (fun j => match get (KVal j) c with Some x => Some x | None => seed_lookup j s end) true).
Proof.
  intros c s Hv. unfold init_ws. fold (seed_wrs (created_seeds c s)). split; cbn [abs sval sinit].
  - intro j. rewrite get_apply_ws, ws_get_app.
    rewrite ws_get_seeds by (apply nodup_ids_filter, valid_seeds_nodup; exact Hv).
    unfold ws_get. cbn [fold_left wr_get key_eqb].
    destruct (get (KVal j) c) as [x|] eqn:E.
    + rewrite lookup_created_present by (rewrite E; reflexivity). reflexivity.
    + rewrite lookup_created by exact E. destruct (seed_lookup j s); reflexivity.
  - rewrite get_apply_ws, ws_get_app. unfold ws_get at 1. cbn [fold_left wr_get key_eqb]. reflexivity.
Qed.

Lemma cl_vis_hits : forall A (l : list A) p, cl_vis (map (fun _ => SHit p) l) = [].
Proof. intros. induction l as [|x l IH]; [reflexivity|exact IH]. Qed.
Lemma cl_vis_enqs : forall A (l : list A) (f : A -> task), cl_vis (map (fun x => SEnq (f x)) l) = [].
Proof. intros. induction l as [|x l IH]; [reflexivity|exact IH]. Qed.

(* one call: it either commits nothing and the specification state is unchanged, or it commits
   exactly one write-set that realises the specification step *)
Lemma compile_op_shape : forall c o,
  (exists b, cl_vis (fst (compile_op c o)) = [EAck b] /\ snd (compile_op c o) = c
             /\ sst_eq (abs c) (spec_step (abs c) o)) \/
  (exists og ws, cl_vis (fst (compile_op c o)) = [ECommit og ws; EAck true]
             /\ snd (compile_op c o) = apply_ws c ws
             /\ sst_eq (abs (apply_ws c ws)) (spec_step (abs c) o)).
Proof.
  intros c [i v|i v|i|s|n]; cbn [compile_op spec_step abs sval sinit];
    [| | | |left; destruct (isSomeV (get KMark c));
            [exists true|exists false; cbn [fst]; rewrite cl_vis_app, cl_vis_hits]; repeat split].
  - destruct (is_nil i); [left; exists false; repeat split|].
    destruct (get (KVal i) c) eqn:E; [left; exists false; repeat split|].
    right. exists FromOp, [WSet (KVal i) v]. repeat split; cbn [abs sset sval sinit apply_ws fold_left apply_wr].
    + intro j. rewrite get_put. reflexivity.
    + rewrite get_put. reflexivity.
  - destruct (get (KVal i) c) eqn:E; [|left; exists false; repeat split].
    right. exists FromOp, [WSet (KVal i) v]. repeat split; cbn [abs sset sval sinit apply_ws fold_left apply_wr].
    + intro j. rewrite get_put. reflexivity.
    + rewrite get_put. reflexivity.
  - destruct (get (KVal i) c) eqn:E; [|left; exists false; repeat split].
    right. exists FromOp, [WDel (KVal i)]. repeat split; cbn [abs sset sval sinit apply_ws fold_left apply_wr].
    + intro j. rewrite get_remove. reflexivity.
    + rewrite get_remove. reflexivity.
  - destruct (isSomeV (get KMark c)) eqn:Em; [left; exists true; repeat split|].
    destruct (valid_seeds s) eqn:Ev; cbn [negb]; [|left; exists false; repeat split].
    right. exists FromInit, (init_ws (created_seeds c s)). cbn [fst snd]. split; [|split; [reflexivity|]].
    + rewrite !cl_vis_app, cl_vis_hits.
      rewrite (cl_vis_enqs _ (created_seeds c s) (fun iv => (fst iv, None, Some (snd iv)))). reflexivity.
    + apply abs_init. exact Ev.
Qed.

Lemma compile_cons : forall c o r,
  compile c (o :: r) = fst (compile_op c o) ++ compile (snd (compile_op c o)) r.
Proof. intros. cbn [compile]. destruct (compile_op c o). reflexivity. Qed.

(* the client's visible events, cut anywhere *)
Lemma client_prefix_spec : forall ops c0 P,
  prefix_of P (cl_vis (compile c0 ops)) ->
  exists j, (j = acks P \/ j = S (acks P)) /\ (j <= length ops)%nat /\
            sst_eq (abs (reopen c0 (commits P))) (spec_run (abs c0) (firstn j ops)).
Proof.
  induction ops as [|o r IH]; intros c0 P HP.
  - destruct HP as [q HP]. cbn in HP. symmetry in HP. apply app_eq_nil in HP. destruct HP as [-> _].
    exists 0%nat. repeat split; auto.
  - rewrite compile_cons, cl_vis_app in HP.
    destruct (compile_op_shape c0 o) as [[b [Hs [Hc He]]]|[og [ws [Hs [Hc He]]]]]; rewrite Hs, Hc in HP.
    + apply prefix_of_cons_inv in HP. destruct HP as [->|[P' [-> HP']]].
      * exists 0%nat. repeat split; auto. cbn. lia.
      * destruct (IH c0 P' HP') as [j [Hj [Hl Hq]]].
        exists (S j). split; [cbn [acks]; destruct Hj; [left|right]; congruence|].
        split; [cbn [length]; lia|].
        cbn [commits firstn]. unfold spec_run in *. cbn [fold_left].
        eapply sst_eq_trans; [exact Hq|]. apply spec_run_congr. exact He.
    + apply prefix_of_cons_inv in HP. destruct HP as [->|[P1 [-> HP1]]].
      * exists 0%nat. repeat split; auto. cbn. lia.
      * apply prefix_of_cons_inv in HP1. destruct HP1 as [->|[P' [-> HP']]].
        -- exists 1%nat. split; [right; reflexivity|]. split; [cbn [length]; lia|].
           cbn [commits firstn]. unfold spec_run. cbn [fold_left reopen]. exact He.
        -- destruct (IH (apply_ws c0 ws) P' HP') as [j [Hj [Hl Hq]]].
           exists (S j). split; [cbn [acks]; destruct Hj; [left|right]; congruence|].
           split; [cbn [length]; lia|].
           cbn [commits firstn]. rewrite reopen_cons. unfold spec_run in *. cbn [fold_left].
           eapply sst_eq_trans; [exact Hq|]. apply spec_run_congr. exact He.
Qed.

Lemma abs_durable_vis : forall g c0 tr, Forall (ev_ok g) tr ->
  sst_eq (abs (durable c0 tr)) (abs (durable c0 (vis tr))).
Proof.
  intros g c0 tr H. split; cbn [abs sval sinit].
  - intro i. apply (durable_vis g); [reflexivity|exact H].
  - rewrite (durable_vis g c0 tr KMark); [reflexivity|reflexivity|exact H].
Qed.

Lemma acked_durable_pf : forall g c0 ops sched t,
  let tr := firstn t (trace (run g c0 ops sched)) in
  exists j, (j = acks tr \/ j = S (acks tr)) /\ (j <= length ops)%nat /\
            sst_eq (abs (durable c0 tr)) (spec_run (abs c0) (firstn j ops)).
Proof.
  intros g c0 ops sched t tr.
  assert (Hok : Forall (ev_ok g) tr) by (apply Forall_firstn, run_ok).
  destruct (client_prefix_spec ops c0 (vis tr) (killed_vis_prefix g c0 ops sched t)) as [j [Hj [Hl Hq]]].
  exists j. rewrite acks_vis in Hj. split; [exact Hj|]. split; [exact Hl|].
  eapply sst_eq_trans; [apply (abs_durable_vis g); exact Hok|exact Hq].
Qed.

(* [crash n] of the log of committed write-sets and "killed after t events" are the same thing *)
Lemma crash_is_kill_pf : forall n tr, exists t, crash n (commits tr) = commits (firstn t tr).
Proof.
  intros n tr. revert n. induction tr as [|e tr IH]; intro n.
  - exists 0%nat. destruct n; reflexivity.
  - destruct n as [|n].
    + exists 0%nat. reflexivity.
    + destruct e; cbn [commits].
      * destruct (IH n) as [t Ht]. exists (S t). unfold crash in *. cbn [firstn commits]. rewrite Ht. reflexivity.
      * destruct (IH n) as [t Ht]. exists (S t). unfold crash in *. cbn [firstn commits]. rewrite Ht. reflexivity.
      * destruct (IH (S n)) as [t Ht]. exists (S t). cbn [firstn commits]. exact Ht.
      * destruct (IH (S n)) as [t Ht]. exists (S t). cbn [firstn commits]. exact Ht.
Qed.

Lemma kill_is_crash_pf : forall t tr, exists n, commits (firstn t tr) = crash n (commits tr).
Proof.
  intros t tr. revert t. induction tr as [|e tr IH]; intro t.
  - exists 0%nat. destruct t; reflexivity.
  - destruct t as [|t]; [exists 0%nat; reflexivity|].
    destruct (IH t) as [n Hn]. destruct e; cbn [firstn commits].
    + exists (S n). unfold crash in *. cbn [firstn]. rewrite Hn. reflexivity.
    + exists (S n). unfold crash in *. cbn [firstn]. rewrite Hn. reflexivity.
    + exists n. exact Hn.
    + exists n. exact Hn.
Qed.
