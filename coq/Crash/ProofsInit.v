(* C12 - init_once: over any sequence of process lifetimes, each killed anywhere, Init seeds the
   store exactly once, completely or not at all, and never again once the marker is durable. *)
From GoRes Require Import Crash.Spec Crash.ProofsMap Crash.ProofsExec Crash.ProofsAcked.
Open Scope N_scope.

Definition marked (c : content) : bool := isSomeV (get KMark c).

(* ---- specification level ---- *)
Lemma spec_step_init_mono : forall s o, sinit s = true -> sinit (spec_step s o) = true.
Proof.
  intros s o H. destruct o as [i v|i v|i|sd|n]; cbn [spec_step]; [| | | |exact H].
  - destruct (is_nil i); [exact H|]. destruct (sval s i); exact H.
  - destruct (sval s i); exact H.
  - destruct (sval s i); exact H.
  - rewrite H. exact H.
Qed.

Lemma spec_run_init_mono : forall ops s, sinit s = true -> sinit (spec_run s ops) = true.
Proof.
  induction ops as [|o ops IH]; intros s H; [exact H|].
  unfold spec_run in *. cbn [fold_left]. apply IH. apply spec_step_init_mono. exact H.
Qed.

Lemma spec_step_absent : forall s o i, sinit s = true -> sval s i = None -> creates i [o] = false ->
  sval (spec_step s o) i = None.
Proof.
  intros s o i Hi Hn Hc. destruct o as [j v|j v|j|sd|n]; cbn [spec_step creates] in *; [| | | |exact Hn].
  - rewrite orb_false_r in Hc. destruct (is_nil j); [exact Hn|].
    destruct (sval s j); [exact Hn|]. cbn [sset sval]. rewrite Hc. exact Hn.
  - destruct (sval s j) eqn:E; [|exact Hn]. cbn [sset sval].
    destruct (beq i j) eqn:Eb; [|exact Hn]. apply beq_eq in Eb. subst. congruence.
  - destruct (sval s j) eqn:E; [|exact Hn]. cbn [sset sval].
    destruct (beq i j); [reflexivity|exact Hn].
  - rewrite Hi. exact Hn.
Qed.

Lemma creates_cons : forall i o r, creates i (o :: r) = creates i [o] || creates i r.
Proof. intros i o r. destruct o; cbn [creates]; rewrite ?orb_false_r; reflexivity. Qed.

Lemma spec_run_absent : forall ops s i, sinit s = true -> sval s i = None -> creates i ops = false ->
  sval (spec_run s ops) i = None.
Proof.
  induction ops as [|o ops IH]; intros s i Hi Hn Hc; [exact Hn|].
  rewrite creates_cons in Hc. apply orb_false_iff in Hc. destruct Hc as [H1 H2].
  unfold spec_run in *. cbn [fold_left]. apply IH; [apply spec_step_init_mono; exact Hi| |exact H2].
  apply spec_step_absent; assumption.
Qed.

Lemma creates_firstn : forall j i ops, creates i ops = false -> creates i (firstn j ops) = false.
Proof.
  induction j as [|j IH]; intros i ops H; [reflexivity|].
  destruct ops as [|o r]; [reflexivity|]. cbn [firstn].
  rewrite creates_cons in *. apply orb_false_iff in H. destruct H as [H1 H2].
  rewrite H1. cbn [orb]. apply IH. exact H2.
Qed.

(* ---- compile level ---- *)
Lemma init_commits_app : forall a b, init_commits (a ++ b) = init_commits a ++ init_commits b.
Proof.
  induction a as [|e a IH]; intro b; [reflexivity|].
  destruct e as [[|] ws|ws|x|p]; cbn [app init_commits]; rewrite IH; reflexivity.
Qed.

Lemma init_commits_prefix_nil : forall P L, prefix_of P L -> init_commits L = [] -> init_commits P = [].
Proof.
  intros P L [q ->] H. rewrite init_commits_app in H. apply app_eq_nil in H. tauto.
Qed.

Lemma marked_put_val : forall c i v, marked (put (KVal i) v c) = marked c.
Proof. intros. unfold marked. rewrite get_put. reflexivity. Qed.
Lemma marked_remove_val : forall c i, marked (remove (KVal i) c) = marked c.
Proof. intros. unfold marked. rewrite get_remove. reflexivity. Qed.

Lemma compile_op_marked : forall c o, marked c = true ->
  init_commits (cl_vis (fst (compile_op c o))) = [] /\ marked (snd (compile_op c o)) = true.
Proof.
  intros c o H. destruct o as [i v|i v|i|sd|n]; cbn [compile_op];
    [| | | |unfold marked in H; rewrite H; split; [reflexivity|exact H]].
  - destruct (is_nil i); [split; [reflexivity|exact H]|].
    destruct (get (KVal i) c); [split; [reflexivity|exact H]|].
    split; [reflexivity|]. cbn. rewrite marked_put_val. exact H.
  - destruct (get (KVal i) c); [|split; [reflexivity|exact H]].
    split; [reflexivity|]. cbn. rewrite marked_put_val. exact H.
  - destruct (get (KVal i) c); [|split; [reflexivity|exact H]].
    split; [reflexivity|]. cbn. rewrite marked_remove_val. exact H.
  - unfold marked in H. rewrite H. split; [reflexivity|exact H].
Qed.

Lemma compile_marked_no_init : forall ops c, marked c = true -> init_commits (cl_vis (compile c ops)) = [].
Proof.
  induction ops as [|o r IH]; intros c H; [reflexivity|].
  rewrite compile_cons, cl_vis_app, init_commits_app.
  destruct (compile_op_marked c o H) as [H1 H2]. rewrite H1, (IH _ H2). reflexivity.
Qed.

Lemma created_all : forall c s, (forall i, get (KVal i) c = None) -> created_seeds c s = s.
Proof.
  intros c s H. unfold created_seeds. induction s as [|iv s IH]; [reflexivity|].
  cbn [filter]. rewrite H. cbn [isSomeV negb]. rewrite IH. reflexivity.
Qed.

Lemma compile_init_unmarked : forall c s, marked c = false -> valid_seeds s = true ->
  cl_vis (fst (compile_op c (Init s))) = [ECommit FromInit (init_ws (created_seeds c s)); EAck true]
  /\ snd (compile_op c (Init s)) = apply_ws c (init_ws (created_seeds c s)).
Proof.
  intros c s Hm Hv. cbn [compile_op]. unfold marked in Hm. rewrite Hm, Hv. cbn [negb fst snd].
  split; [|reflexivity].
  rewrite !cl_vis_app, cl_vis_hits.
  rewrite (cl_vis_enqs _ (created_seeds c s) (fun iv => (fst iv, None, Some (snd iv)))). reflexivity.
Qed.

Lemma marked_after_init : forall c s, valid_seeds s = true ->
  marked (apply_ws c (init_ws (created_seeds c s))) = true.
Proof. intros c s Hv. destruct (abs_init c s Hv) as [_ H]. exact H. Qed.

(* ---- one lifetime ---- *)
Lemma life_marker_mono : forall g c l, marked c = true -> marked (durable c (life_trace g c l)) = true.
Proof.
  intros g c [[ops sched] t] H. cbn [life_trace].
  destruct (acked_durable_pf g c ops sched t) as [j [_ [_ [_ Hs]]]].
  cbn [abs sinit] in Hs. unfold marked. rewrite Hs. apply spec_run_init_mono. exact H.
Qed.

Lemma life_marked_no_init : forall g c l, marked c = true -> init_commits (life_trace g c l) = [].
Proof.
  intros g c [[ops sched] t] H. cbn [life_trace]. rewrite <- init_commits_vis.
  eapply init_commits_prefix_nil; [apply killed_vis_prefix|]. apply compile_marked_no_init. exact H.
Qed.

Lemma life_absent : forall g c l i, marked c = true -> get (KVal i) c = None ->
  creates i (fst (fst l)) = false -> get (KVal i) (durable c (life_trace g c l)) = None.
Proof.
  intros g c [[ops sched] t] i Hm Hn Hc. cbn [life_trace fst] in *.
  destruct (acked_durable_pf g c ops sched t) as [j [_ [_ [Hs _]]]].
  cbn [abs sval] in Hs. rewrite Hs. apply spec_run_absent; [exact Hm|exact Hn|].
  apply creates_firstn. exact Hc.
Qed.

Lemma compile_op_failing : forall c o, marked c = false -> failing_init o ->
  cl_vis (fst (compile_op c o)) = [EAck false] /\ snd (compile_op c o) = c.
Proof.
  intros c o Hm Hf. unfold marked in Hm. destruct o as [i v|i v|i|sd|n]; cbn [failing_init] in Hf; try (exfalso; exact Hf).
  - cbn [compile_op]. rewrite Hm, Hf. cbn. split; reflexivity.
  - cbn [compile_op]. rewrite Hm. cbn [fst snd]. rewrite cl_vis_app, cl_vis_hits. split; reflexivity.
Qed.

(* the client's visible events of a lifetime "failing Inits, Init seeds, workload" on an
   uninitialised store without values, cut anywhere *)
Lemma unmarked_prefix : forall f, Forall failing_init f -> forall c seeds w P,
  valid_seeds seeds = true -> marked c = false -> (forall i, get (KVal i) c = None) ->
  prefix_of P (cl_vis (compile c (f ++ Init seeds :: w))) ->
  (commits P = [] /\ init_commits P = []) \/
  (marked (reopen c (commits P)) = true /\ init_commits P = [init_ws seeds]).
Proof.
  intros f Hf. induction Hf as [|o f Ho Hf IH]; intros c seeds w P Hv Hm Hn HP.
  - cbn [app] in HP. rewrite compile_cons, cl_vis_app in HP.
    destruct (compile_init_unmarked c seeds Hm Hv) as [Hs Hc]. rewrite Hs, Hc in HP.
    rewrite (created_all c seeds Hn) in HP.
    set (c1 := apply_ws c (init_ws seeds)) in *.
    assert (Hm1 : marked c1 = true).
    { subst c1. rewrite <- (created_all c seeds Hn) at 1. apply marked_after_init. exact Hv. }
    apply prefix_of_cons_inv in HP. destruct HP as [->|[P1 [-> HP1]]]; [left; split; reflexivity|].
    right. cbn [init_commits commits]. rewrite reopen_cons. fold c1.
    apply prefix_of_cons_inv in HP1. destruct HP1 as [->|[P' [-> HP']]].
    + split; [exact Hm1|reflexivity].
    + cbn [commits init_commits]. split.
      * destruct (client_prefix_spec w c1 P' HP') as [j [_ [_ [_ Hq]]]].
        cbn [abs sinit] in Hq. unfold marked. rewrite Hq. apply spec_run_init_mono. exact Hm1.
      * rewrite (init_commits_prefix_nil P' _ HP' (compile_marked_no_init w c1 Hm1)). reflexivity.
  - cbn [app] in HP. rewrite compile_cons, cl_vis_app in HP.
    destruct (compile_op_failing c o Hm Ho) as [Hs Hc]. rewrite Hs, Hc in HP.
    apply prefix_of_cons_inv in HP. destruct HP as [->|[P' [-> HP']]]; [left; split; reflexivity|].
    cbn [commits init_commits]. apply (IH c seeds w P' Hv Hm Hn HP').
Qed.

Lemma life_unmarked : forall g c seeds f w sched t,
  Forall failing_init f ->
  valid_seeds seeds = true -> marked c = false -> (forall i, get (KVal i) c = None) ->
  let tr := life_trace g c (f ++ Init seeds :: w, sched, t) in
  (marked (durable c tr) = false /\ init_commits tr = [] /\ forall i, get (KVal i) (durable c tr) = None) \/
  (marked (durable c tr) = true /\ init_commits tr = [init_ws seeds]).
Proof.
  intros g c seeds f w sched t Hf Hv Hm Hn tr. subst tr. cbn [life_trace].
  set (tr := firstn t (trace (run g c (f ++ Init seeds :: w) sched))).
  assert (Hok : Forall (ev_ok g) tr) by (apply Forall_firstn, run_ok).
  pose proof (killed_vis_prefix g c (f ++ Init seeds :: w) sched t) as HP. fold tr in HP.
  unfold marked. rewrite (durable_vis g c tr KMark eq_refl Hok). rewrite <- init_commits_vis.
  destruct (unmarked_prefix f Hf c seeds w (vis tr) Hv Hm Hn HP) as [[H1 H2]|[H1 H2]].
  - left. split; [|split; [exact H2|]].
    + unfold durable. rewrite H1. exact Hm.
    + intro i. rewrite (durable_vis g c tr (KVal i) eq_refl Hok). unfold durable. rewrite H1. apply Hn.
  - right. split; [exact H1|exact H2].
Qed.

(* ---- sequences of lifetimes ---- *)
Lemma all_marked : forall g ls c, marked c = true ->
  init_commits (trace_all g c ls) = [] /\ marked (run_all g c ls) = true.
Proof.
  intros g ls. induction ls as [|l r IH]; intros c H; [split; [reflexivity|exact H]|].
  cbn [trace_all run_all]. rewrite init_commits_app, (life_marked_no_init g c l H).
  apply IH. apply life_marker_mono. exact H.
Qed.

Lemma all_unmarked : forall g seeds ls c,
  valid_seeds seeds = true -> Forall (starts_with_init seeds) ls ->
  marked c = false -> (forall i, get (KVal i) c = None) ->
  (marked (run_all g c ls) = false /\ init_commits (trace_all g c ls) = []
     /\ forall i, get (KVal i) (run_all g c ls) = None) \/
  (marked (run_all g c ls) = true /\ init_commits (trace_all g c ls) = [init_ws seeds]).
Proof.
  intros g seeds ls. induction ls as [|l r IH]; intros c Hv Hf Hm Hn.
  - left. cbn. auto.
  - inversion Hf as [|x y Hl Hr]. subst. destruct l as [[ops sched] t].
    destruct Hl as [f [w [Hw Hff]]]. cbn [fst] in Hw. subst ops.
    cbn [trace_all run_all]. rewrite init_commits_app.
    destruct (life_unmarked g c seeds f w sched t Hff Hv Hm Hn) as [[H1 [H2 H3]]|[H1 H2]]; rewrite H2.
    + cbn [app]. apply IH; assumption.
    + right. destruct (all_marked g r _ H1) as [H4 H5]. rewrite H4. split; [exact H5|reflexivity].
Qed.

Lemma mem_id_in : forall i l, In i l -> mem_id i l = true.
Proof.
  intros i l. induction l as [|j l IH]; intro H; [destruct H|].
  cbn [mem_id]. destruct H as [->|H]; [rewrite beq_refl; reflexivity|rewrite (IH H); apply orb_true_r].
Qed.

Lemma nodup_ids_NoDup : forall l, nodup_ids l = true -> NoDup l.
Proof.
  induction l as [|i l IH]; intro H; [constructor|].
  cbn [nodup_ids] in H. apply andb_true_iff in H. destruct H as [H1 H2].
  constructor; [|apply IH; exact H2]. intro Hin. apply mem_id_in in Hin. rewrite Hin in H1. discriminate.
Qed.

Lemma ws_val_ids_init : forall s, ws_val_ids (init_ws s) = map fst s.
Proof.
  intro s. unfold ws_val_ids, init_ws. rewrite flat_map_app. cbn [flat_map app]. rewrite app_nil_r.
  induction s as [|iv s IH]; [reflexivity|]. cbn [map flat_map app]. rewrite IH. reflexivity.
Qed.

Lemma init_once_pf : forall g seeds ls,
  valid_seeds seeds = true -> Forall (starts_with_init seeds) ls ->
  let tr := trace_all g [] ls in
  let c := run_all g [] ls in
  (length (init_commits tr) <= 1)%nat /\
  NoDup (flat_map ws_val_ids (init_commits tr)) /\
  (isSomeV (get KMark c) = false -> init_commits tr = [] /\ forall i, get (KVal i) c = None) /\
  (isSomeV (get KMark c) = true -> init_commits tr = [init_ws seeds]).
Proof.
  intros g seeds ls Hv Hf tr c. subst tr c.
  destruct (all_unmarked g seeds ls [] Hv Hf eq_refl (fun _ => eq_refl)) as [[H1 [H2 H3]]|[H1 H2]];
    unfold marked in H1; rewrite H1, H2.
  - split; [cbn; lia|]. split; [constructor|]. split; [auto|discriminate].
  - split; [cbn; lia|]. split; [|split; [discriminate|reflexivity]].
    cbn [flat_map]. rewrite app_nil_r, ws_val_ids_init. apply nodup_ids_NoDup, valid_seeds_nodup. exact Hv.
Qed.

Lemma init_noop_when_marked_pf : forall g c0 ls, isSomeV (get KMark c0) = true ->
  init_commits (trace_all g c0 ls) = [] /\ isSomeV (get KMark (run_all g c0 ls)) = true.
Proof. intros g c0 ls H. apply (all_marked g ls c0 H). Qed.

Lemma init_never_resurrects_pf : forall g ls c0 i,
  isSomeV (get KMark c0) = true -> get (KVal i) c0 = None ->
  (forall l, In l ls -> creates i (fst (fst l)) = false) ->
  get (KVal i) (run_all g c0 ls) = None.
Proof.
  intros g ls. induction ls as [|l r IH]; intros c0 i Hm Hn Hc; [exact Hn|].
  cbn [run_all]. apply IH.
  - apply (life_marker_mono g c0 l Hm).
  - apply life_absent; [exact Hm|exact Hn|apply Hc; left; reflexivity].
  - intros l' Hin. apply Hc. right. exact Hin.
Qed.
