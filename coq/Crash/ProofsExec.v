(* C12 - invariants of the interleaved process (client goroutine + index goroutine). *)
From GoRes Require Import Crash.Spec Crash.ProofsMap.
Open Scope N_scope.

(* what the client goroutine contributes to the durable state and to the acknowledgements *)
Definition vis_ev (e : ev) : bool := match e with ECommit _ _ => true | EAck _ => true | _ => false end.
Definition vis (tr : list ev) : list ev := filter vis_ev tr.
Definition cl_ev (m : mstep) : list ev :=
  match m with SCommit o ws => [ECommit o ws] | SAck b => [EAck b] | _ => [] end.
Definition cl_vis (ms : list mstep) : list ev := flat_map cl_ev ms.

Lemma cl_vis_app : forall a b, cl_vis (a ++ b) = cl_vis a ++ cl_vis b.
Proof. intros. unfold cl_vis. apply flat_map_app. Qed.

Lemma vis_app : forall a b, vis (a ++ b) = vis a ++ vis b.
Proof. intros. unfold vis. apply filter_app. Qed.

(* one step consumes at most one program step and appends its visible events *)
Lemma step_inv : forall g s a,
  exists d, prog s = d ++ prog (step g s a) /\ vis (trace (step g s a)) = vis (trace s) ++ cl_vis d.
Proof.
  intros g s [|]; cbn [step].
  - destruct (prog s) as [|m p] eqn:E.
    + exists []. rewrite E. cbn. rewrite app_nil_r. split; reflexivity.
    + exists [m]. destruct m; cbn [prog trace]; rewrite ?vis_app; cbn; rewrite ?app_nil_r; split; reflexivity.
  - destruct (queue s) as [|t q] eqn:E.
    + exists []. cbn. rewrite app_nil_r. split; reflexivity.
    + exists []. cbn [prog trace]. rewrite vis_app. split; [reflexivity|].
      destruct (is_nil (index_ws g t)); cbn; rewrite app_nil_r; reflexivity.
Qed.

Lemma exec_inv : forall g sched s,
  exists d, prog s = d ++ prog (exec g sched s) /\ vis (trace (exec g sched s)) = vis (trace s) ++ cl_vis d.
Proof.
  intros g sched. induction sched as [|a sched IH]; intro s.
  - exists []. cbn. rewrite app_nil_r. split; reflexivity.
  - unfold exec in *. cbn [fold_left].
    destruct (step_inv g s a) as [d1 [H1 H2]].
    destruct (IH (step g s a)) as [d2 [H3 H4]].
    exists (d1 ++ d2). split.
    + rewrite H1 at 1. rewrite H3 at 1. rewrite app_assoc. reflexivity.
    + rewrite H4, H2, cl_vis_app, app_assoc. reflexivity.
Qed.

Lemma run_vis_prefix : forall g c0 ops sched,
  prefix_of (vis (trace (run g c0 ops sched))) (cl_vis (compile c0 ops)).
Proof.
  intros. unfold run. destruct (exec_inv g sched (MS (compile c0 ops) [] [])) as [d [H1 H2]].
  cbn [prog trace] in H1, H2.
  exists (cl_vis (prog (exec g sched (MS (compile c0 ops) [] [])))).
  rewrite H2. cbn [vis filter app]. rewrite <- cl_vis_app, <- H1. reflexivity.
Qed.

Lemma filter_firstn_prefix : forall A (f : A -> bool) n l, prefix_of (filter f (firstn n l)) (filter f l).
Proof.
  intros. exists (filter f (skipn n l)). rewrite <- filter_app, firstn_skipn. reflexivity.
Qed.

Lemma killed_vis_prefix : forall g c0 ops sched t,
  prefix_of (vis (firstn t (trace (run g c0 ops sched)))) (cl_vis (compile c0 ops)).
Proof.
  intros. eapply prefix_of_trans; [apply filter_firstn_prefix|apply run_vis_prefix].
Qed.

(* ---- index transactions write index keys of configured indexes only ---- *)
Definition ws_idx_only (g : cfg) (ws : writeset) : Prop := forall w, In w ws -> is_idx_of g (wr_key w) = true.
Definition ev_ok (g : cfg) (e : ev) : Prop := match e with EIdxCommit ws => ws_idx_only g ws | _ => True end.

Lemma is_idx_of_intro : forall g ix ik i, In ix (idxs g) -> is_idx_of g (KIdx (fst ix) ik i) = true.
Proof.
  intros g ix ik i H. cbn [is_idx_of]. apply existsb_exists. exists ix. split; [exact H|apply beq_refl].
Qed.

Lemma index_ws_idx_only : forall g t, ws_idx_only g (index_ws g t).
Proof.
  intros g [[i b] a] w H. unfold index_ws in H. apply in_flat_map in H. destruct H as [ix [Hix Hw]].
  unfold idx_wrs in Hw. destruct (obytes_eq _ _); [destruct Hw|].
  apply in_app_or in Hw. destruct Hw as [Hw|Hw].
  - destruct (okey (snd ix) b); [|destruct Hw]. destruct Hw as [<-|[]]. cbn [wr_key]. apply is_idx_of_intro. exact Hix.
  - destruct (okey (snd ix) a); [|destruct Hw]. destruct Hw as [<-|[]]. cbn [wr_key]. apply is_idx_of_intro. exact Hix.
Qed.

Lemma step_ok : forall g s a, Forall (ev_ok g) (trace s) -> Forall (ev_ok g) (trace (step g s a)).
Proof.
  intros g s [|] H; cbn [step].
  - destruct (prog s) as [|m p]; [exact H|].
    destruct m; cbn [trace]; try exact H; apply Forall_app; split; try exact H; repeat constructor.
  - destruct (queue s) as [|t q]; [exact H|]. cbn [trace]. apply Forall_app. split; [exact H|].
    constructor; [exact I|]. apply Forall_app. split.
    + destruct (is_nil (index_ws g t)); constructor; [|constructor]. cbn [ev_ok]. apply index_ws_idx_only.
    + repeat constructor.
Qed.

Lemma exec_ok : forall g sched s, Forall (ev_ok g) (trace s) -> Forall (ev_ok g) (trace (exec g sched s)).
Proof.
  intros g sched. induction sched as [|a sched IH]; intros s H; [exact H|].
  unfold exec in *. cbn [fold_left]. apply IH. apply step_ok. exact H.
Qed.

Lemma run_ok : forall g c0 ops sched, Forall (ev_ok g) (trace (run g c0 ops sched)).
Proof. intros. unfold run. apply exec_ok. constructor. Qed.

Lemma Forall_firstn : forall A (P : A -> Prop) n l, Forall P l -> Forall P (firstn n l).
Proof.
  intros A P n l H. rewrite <- (firstn_skipn n l) in H. apply Forall_app in H. tauto.
Qed.

(* a key that is not an index key *)
Definition vkey (k : key) : bool := match k with KIdx _ _ _ => false | _ => true end.

Lemma is_idx_of_not_vkey : forall g k k', vkey k = true -> is_idx_of g k' = true -> key_eqb k k' = false.
Proof. intros g k k' Hv Hi. destruct k, k'; cbn in *; try reflexivity; discriminate. Qed.

(* index transactions do not change value keys or the marker *)
Lemma log_get_vis : forall g k tr d, vkey k = true -> Forall (ev_ok g) tr ->
  log_get k d (commits tr) = log_get k d (commits (vis tr)).
Proof.
  intros g k tr. induction tr as [|e tr IH]; intros d Hv H; [reflexivity|].
  inversion H as [|x l He Hr]. subst.
  destruct e; cbn [commits vis filter vis_ev]; fold (vis tr); cbn [commits].
  - unfold log_get in *. cbn [fold_left]. apply IH; assumption.
  - unfold log_get in *. cbn [fold_left]. rewrite (ws_get_untouched k ws d).
    + apply IH; assumption.
    + intros w Hw. apply (is_idx_of_not_vkey g); [exact Hv|apply He; exact Hw].
  - apply IH; assumption.
  - apply IH; assumption.
Qed.

Lemma acks_vis : forall tr, acks (vis tr) = acks tr.
Proof.
  induction tr as [|e tr IH]; [reflexivity|].
  destruct e; cbn [vis filter vis_ev acks]; fold (vis tr); cbn [acks]; rewrite ?IH; reflexivity.
Qed.

Lemma init_commits_vis : forall tr, init_commits (vis tr) = init_commits tr.
Proof.
  induction tr as [|e tr IH]; [reflexivity|].
  destruct e as [[|] ws|ws|b|p]; cbn [vis filter vis_ev init_commits]; fold (vis tr); cbn [init_commits]; rewrite ?IH; reflexivity.
Qed.

(* the durable value keys / marker of a killed process depend on the client's events only *)
Lemma durable_vis : forall g c0 tr k, vkey k = true -> Forall (ev_ok g) tr ->
  get k (durable c0 tr) = get k (durable c0 (vis tr)).
Proof.
  intros. unfold durable. rewrite !get_reopen. apply (log_get_vis g); assumption.
Qed.
