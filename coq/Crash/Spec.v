(* C12 - abstract specification the crash model is proved against: the store is a
   map id -> value plus the "initialised" flag; an operation either applies completely
   or (when it fails) changes nothing. *)
From GoRes Require Export Crash.Model.
Open Scope N_scope.

Record sstate := SS { sval : id -> option value; sinit : bool }.

Definition sset (s : sstate) (i : id) (o : option value) : sstate :=
  SS (fun j => if beq j i then o else sval s j) (sinit s).

Fixpoint seed_lookup (i : id) (s : list (id * value)) : option value :=
  match s with
  | [] => None
  | (j, v) :: r => if beq i j then Some v else seed_lookup i r
  end.

Definition spec_step (s : sstate) (o : op) : sstate :=
  match o with
  | Create i v => if is_nil i then s else match sval s i with Some _ => s | None => sset s i (Some v) end
  | Update i v => match sval s i with Some _ => sset s i (Some v) | None => s end
  | Delete i => match sval s i with Some _ => sset s i None | None => s end
  | InitErr _ => s
  | Init seeds =>
      if sinit s then s
      else if negb (valid_seeds seeds) then s
      else SS (fun j => match sval s j with Some x => Some x | None => seed_lookup j seeds end) true
  end.
Definition spec_run (s : sstate) (ops : list op) : sstate := fold_left spec_step ops s.

(* what a database content means *)
Definition abs (c : content) : sstate := SS (fun i => get (KVal i) c) (isSomeV (get KMark c)).
Definition sst_eq (a b : sstate) : Prop := (forall i, sval a i = sval b i) /\ sinit a = sinit b.

(* same finite map *)
Definition ceq (a b : content) : Prop := forall k, get k a = get k b.

(* every index entry of the configured indexes is wanted by a stored value and vice versa *)
Definition index_exact (g : cfg) (c : content) : Prop :=
  forall n ik i, is_idx_of g (KIdx n ik i) = true ->
    has_key (KIdx n ik i) c = wanted g c (KIdx n ik i).
(* all index entries belong to configured indexes *)
Definition no_foreign (g : cfg) (c : content) : Prop :=
  forall n ik i, has_key (KIdx n ik i) c = true -> is_idx_of g (KIdx n ik i) = true.

Definition prefix_of {A} (p l : list A) : Prop := exists r, l = p ++ r.

(* an Init call that fails (and must change nothing) on an uninitialised store *)
Definition failing_init (o : op) : Prop :=
  match o with InitErr _ => True | Init s => valid_seeds s = false | _ => False end.
(* lifetimes that all start with any number of failing Init calls followed by Init of the same seeds *)
Definition starts_with_init (seeds : list (id * value)) (l : lifetime) : Prop :=
  exists f w, fst (fst l) = f ++ Init seeds :: w /\ Forall failing_init f.
Fixpoint creates (i : id) (ops : list op) : bool :=
  match ops with
  | [] => false
  | Create j _ :: r => beq i j || creates i r
  | _ :: r => creates i r
  end.
