(* What properties C04 and C05 say, as definitions over the model's inputs and
   outputs (no reference to how the model computes). *)
From GoRes Require Export Req.Model.
From Coq Require Import String.
Open Scope N_scope.

Definition isSome {A} (o : option A) : bool := match o with Some _ => true | None => false end.
Definition no_dot (s : bytes) : bool := forallb (fun c => negb (c =? dot)) s.

(* ---------- C04: counting responses ---------- *)
(* a reply subject is an inbox: it is neither an event subject nor a connection-token subject *)
Definition inbox_like (r : bytes) : bool :=
  negb (prefix_b (s2b "event.") r) && negb (prefix_b (s2b "conn.") r).
Definition is_pre (p : payload) : bool := match p with PPre _ => true | _ => false end.
(* every message on the reply subject that is not a timeout pre-response *)
Definition is_response_on (reply : bytes) (m : pubmsg) : bool :=
  beq (p_subj m) reply && negb (is_pre (p_pay m)).
Definition responses (reply : bytes) (ms : list pubmsg) : list pubmsg := filter (is_response_on reply) ms.

Definition known_type (rt : bytes) : bool :=
  beq rt t_access || beq rt t_get || beq rt t_call || beq rt t_auth.
Definition decoded (p : inpayload) : option reqdata :=
  match p with InEmpty => Some rd_zero | InJson d => Some d | InBad _ => None end.
(* the requests that are deliberately left unanswered: the resource is matched,
   the payload decodes, and it is an access request without access handler
   (left to another service) - or the type is none of the four *)
Definition silent (cfg : config) (m : msg) (rt rn : bytes) : bool :=
  match cfg rn, decoded (ms_data m) with
  | Some mh, Some _ => (beq rt t_access && negb (isSome (h_access (m_h mh)))) || negb (known_type rt)
  | _, _ => false
  end.

(* ---------- C05: which handler ---------- *)
Fixpoint first_some {A} (l : list (option A)) : option A :=
  match l with
  | [] => None
  | Some x :: _ => Some x
  | None :: r => first_some r
  end.
Definition tagged {A} (h : hid) (o : option A) : option (hid * A) :=
  match o with Some x => Some (h, x) | None => None end.
(* the handler the property names: for call and auth the named method, else the
   * method, with new preferring the dedicated new handler *)
Definition spec_invoked (h : handlers) (rt me : bytes) : option (hid * script) :=
  if beq rt t_access then tagged HAccess (h_access h)
  else if beq rt t_get then tagged HGet (h_get h)
  else if beq rt t_call then
    first_some [ (if beq me (s2b "new") then tagged HNew (h_new h) else None);
                 tagged (HCall me) (lookup me (h_call h));
                 tagged (HCall [star]) (lookup [star] (h_call h)) ]
  else if beq rt t_auth then
    first_some [ tagged (HAuth me) (lookup me (h_auth h));
                 tagged (HAuth [star]) (lookup [star] (h_auth h)) ]
  else None.

(* invocations by the service itself (not the nested ones made by Value()) *)
Definition outer_invocations (l : list lentry) : list obs :=
  flat_map (fun e => match e with
                     | LInvoke o => if o_forvalue o then [] else [o]
                     | LValue _ _ => []
                     | LParsed _ _ => []
                     end) l.

(* what the handler must see: the decoded payload field by field, the subject's
   type, name and method, params and group from routing *)
Definition expected_obs (mh : hmatch) (h : hid) (rt rn me : bytes) (d : reqdata) : obs :=
  Obs (h_pid (m_h mh)) h false rt me rn (m_params mh) (q_query d) (m_group mh)
      (q_cid d) (q_token d) (q_params d) (q_header d) (q_host d) (q_raddr d) (q_uri d) (q_ishttp d).

Definition err_data (e : rerr) : option jv :=
  match e_data e with VNull => None | d => Some (to_jv d) end.
Definition one_error (reply : bytes) (e : rerr) : list pubmsg :=
  [Pub reply (PError (e_code e) (e_msg e) None None)].

(* the Request a matched, decodable message is turned into *)
Definition req_ctx (m : msg) (mh : hmatch) (rt rn me : bytes) (d : reqdata) : ctx :=
  Ctx (ms_reply m) rt rn me (m_h mh) (m_params mh) (m_group mh) d.
Definition is_internal_error (p : payload) : Prop :=
  exists msg d m, p = PError code_internal msg d m.

(* the raw value ParseToken (true) / ParseParams (false) decodes *)
Definition raw_of (c : ctx) (tk : bool) : bytes := if tk then q_token (c_d c) else q_params (c_d c).
