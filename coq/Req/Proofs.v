(* Proofs for C04 (exactly one response, panics contained). *)
From GoRes Require Import Req.Spec.
From Coq Require Import String Lia.
Open Scope N_scope.

(* ---------- byte strings ---------- *)
Lemma beq_refl : forall a, beq a a = true.
Proof. induction a as [|x a IH]; cbn [beq]; [reflexivity|]. rewrite N.eqb_refl, IH. reflexivity. Qed.

Lemma beq_eq : forall a b, beq a b = true -> a = b.
Proof.
  induction a as [|x a IH]; destruct b as [|y b]; cbn [beq]; intros E; try discriminate; [reflexivity|].
  apply andb_prop in E. destruct E as [E1 E2]. apply N.eqb_eq in E1. apply IH in E2. congruence.
Qed.

Lemma beq_false_of_neq : forall a b, a <> b -> beq a b = false.
Proof. intros a b N. destruct (beq a b) eqn:E; [|reflexivity]. apply beq_eq in E. contradiction. Qed.

Lemma prefix_app : forall p x, prefix_b p (p ++ x) = true.
Proof. induction p as [|c p IH]; intros x; cbn [prefix_b app]; [reflexivity|]. rewrite N.eqb_refl, IH. reflexivity. Qed.

(* ---------- counting responses ---------- *)
Definition cnt (R : bytes) (l : list pubmsg) : nat := List.length (responses R l).

Lemma cnt_app : forall R a b, cnt R (a ++ b) = (cnt R a + cnt R b)%nat.
Proof. intros. unfold cnt, responses. rewrite filter_app, List.app_length. reflexivity. Qed.

Lemma cnt_nil : forall R, cnt R [] = 0%nat.
Proof. reflexivity. Qed.

Lemma cnt_reply : forall R p, is_pre p = false -> cnt R [Pub R p] = 1%nat.
Proof.
  intros R p Hp. unfold cnt, responses, is_response_on. cbn [filter p_subj p_pay].
  rewrite beq_refl, Hp. reflexivity.
Qed.

Lemma cnt_pre : forall R S ms, cnt R [Pub S (PPre ms)] = 0%nat.
Proof.
  intros. unfold cnt, responses, is_response_on. cbn [filter p_subj p_pay is_pre].
  rewrite andb_false_r. reflexivity.
Qed.

Lemma cnt_other : forall R S p, beq S R = false -> cnt R [Pub S p] = 0%nat.
Proof.
  intros R S p E. unfold cnt, responses, is_response_on. cbn [filter p_subj p_pay]. rewrite E. reflexivity.
Qed.

Lemma inbox_not_event : forall R rn n, inbox_like R = true -> beq (event_subject rn n) R = false.
Proof.
  intros R rn n HI. destruct (beq (event_subject rn n) R) eqn:E; [|reflexivity].
  apply beq_eq in E. subst R. unfold inbox_like, event_subject in HI.
  rewrite prefix_app in HI. discriminate.
Qed.

Lemma inbox_not_token : forall R cid, inbox_like R = true -> beq (token_subject cid) R = false.
Proof.
  intros R cid HI. destruct (beq (token_subject cid) R) eqn:E; [|reflexivity].
  apply beq_eq in E. subst R. unfold inbox_like, token_subject in HI.
  rewrite prefix_app in HI. rewrite andb_false_r in HI. discriminate.
Qed.

(* ---------- the invariant: replied <-> exactly one response published ---------- *)
Definition Inv (R : bytes) (s : rstate) : Prop :=
  cnt R (pubs s) = if replied s then 1%nat else 0%nat.

Lemma err_payload_not_pre : forall e m, is_pre (err_payload e m) = false.
Proof. intros [e|] m; cbn [err_payload]; [destruct (e_data e)|]; reflexivity. Qed.

Lemma reply_cases : forall c s p s' o, reply c s p = (s', o) ->
  (replied s = true /\ s' = s /\ o = Some (PVStr already_sent)) \/
  (replied s = false /\ s' = St true (status s) (rhdr s) (pubs s ++ [Pub (c_reply c) p]) (log s) /\ o = None).
Proof.
  intros c s p s' o H. unfold reply in H. destruct (replied s) eqn:E; inversion H; subst; auto.
Qed.

Lemma reply_inv : forall c s p s' o,
  is_pre p = false -> reply c s p = (s', o) -> Inv (c_reply c) s -> Inv (c_reply c) s'.
Proof.
  intros c s p s' o Hp H HI. apply reply_cases in H. destruct H as [[E [-> _]]|[E [-> _]]]; [exact HI|].
  unfold Inv in *. cbn [pubs replied]. rewrite E in HI. rewrite cnt_app, HI, cnt_reply by exact Hp. reflexivity.
Qed.

Lemma reply_fst : forall c s p, replied s = false ->
  fst (reply c s p) = St true (status s) (rhdr s) (pubs s ++ [Pub (c_reply c) p]) (log s).
Proof. intros c s p E. unfold reply. rewrite E. reflexivity. Qed.

Lemma reply_error_inv : forall c s e m s' o,
  reply_error c s e m = (s', o) -> Inv (c_reply c) s -> Inv (c_reply c) s'.
Proof. intros c s e m s' o H. eapply reply_inv; [apply err_payload_not_pre|exact H]. Qed.

Lemma success_inv : forall c s v w m s' o,
  success c s v w m = (s', o) -> Inv (c_reply c) s -> Inv (c_reply c) s'.
Proof.
  intros c s v w m s' o H. unfold success in H. destruct (val_ok v).
  - eapply reply_inv; [|exact H]; reflexivity.
  - eapply reply_error_inv; exact H.
Qed.

Lemma do_replyk_inv : forall c s k s' o,
  do_replyk c s k = (s', o) -> Inv (c_reply c) s -> Inv (c_reply c) s'.
Proof.
  intros c s k s' o H HI. unfold do_replyk in H.
  destruct k;
    repeat match type of H with
           | context [if ?b then _ else _] => destruct b eqn:?
           end;
    try (eapply success_inv; eassumption);
    try (eapply reply_error_inv; eassumption);
    try (eapply reply_inv; [|eassumption|assumption]; reflexivity);
    try (inversion H; subst; assumption).
Qed.

Lemma event_out_cnt : forall R c n v ms p,
  inbox_like R = true -> event_out c n v = (ms, p) -> cnt R ms = 0%nat.
Proof.
  intros R c n v ms p HI H. unfold event_out in H.
  destruct (lookup n reserved_events); [inversion H; reflexivity|].
  destruct (negb (Pattern.Model.is_valid_part n)); [inversion H; reflexivity|].
  destruct v; inversion H; subst; try reflexivity; apply cnt_other; apply inbox_not_event; exact HI.
Qed.

(* nested get: only events are published *)
Lemma gstep_cnt : forall R c g a g' o,
  inbox_like R = true -> gstep c g a = (g', o) -> cnt R (g_pubs g) = 0%nat -> cnt R (g_pubs g') = 0%nat.
Proof.
  intros R c g a g' o HI H H0. unfold gstep, g_set_value, g_set_err in H.
  destruct a as [k|ms|n v|p|n|k v|v|rq|tk z po].
  - destruct k; destruct (g_replied g); inversion H; subst; exact H0.
  - inversion H; subst; exact H0.
  - destruct (event_out c n v) as [ms p] eqn:E. inversion H; subst. cbn [g_pubs].
    rewrite cnt_app, H0. eapply event_out_cnt in E; [|exact HI]. rewrite E. reflexivity.
  - inversion H; subst; exact H0.
  - inversion H; subst; exact H0.
  - inversion H; subst; exact H0.
  - inversion H; subst; exact H0.
  - destruct rq; inversion H; subst; exact H0.
  - inversion H; subst; exact H0.
Qed.

Lemma run_gscript_cnt : forall R c sc g g' o,
  inbox_like R = true -> run_gscript c g sc = (g', o) -> cnt R (g_pubs g) = 0%nat -> cnt R (g_pubs g') = 0%nat.
Proof.
  intros R c sc. induction sc as [|a sc IH]; intros g g' o HI H H0; cbn [run_gscript] in H.
  - inversion H; subst; exact H0.
  - destruct (gstep c g a) as [g1 [p|]] eqn:E.
    + inversion H; subst. eapply gstep_cnt; eassumption.
    + eapply IH; [exact HI|exact H|]. eapply gstep_cnt; eassumption.
Qed.

Lemma g_recover_pubs : forall g p, g_pubs (g_recover g p) = g_pubs g.
Proof.
  intros g p. unfold g_recover. destruct (g_replied g); [reflexivity|].
  destruct p as [[e|m]|m|m]; reflexivity.
Qed.

Lemma run_get_cnt : forall R c ms ls v e,
  inbox_like R = true -> run_get c = (ms, ls, v, e) -> cnt R ms = 0%nat.
Proof.
  intros R c ms ls v e HI H. unfold run_get in H. destruct (h_get (c_h c)) as [sc|].
  - destruct (run_gscript c (GSt false VNull None []) sc) as [g1 out] eqn:E.
    apply run_gscript_cnt with (R := R) in E; [|exact HI|reflexivity].
    destruct out as [p|].
    + inversion H; subst. rewrite g_recover_pubs. exact E.
    + destruct (g_replied g1); inversion H; subst; exact E.
  - inversion H; subst; reflexivity.
Qed.

Lemma step_inv : forall c s a s' o,
  inbox_like (c_reply c) = true -> step c s a = (s', o) -> Inv (c_reply c) s -> Inv (c_reply c) s'.
Proof.
  intros c s a s' o HB H HI. unfold step in H.
  destruct a as [k|ms|n v|p|n|k v|v|rq|tk z po].
  - eapply do_replyk_inv; eassumption.
  - destruct (ms <? 0)%Z; inversion H; subst; [exact HI|].
    unfold Inv in *. cbn [publish pubs replied]. rewrite cnt_app, cnt_pre, HI. lia.
  - destruct (event_out c n v) as [ms p] eqn:E. inversion H; subst.
    unfold Inv in *. cbn [publish_all pubs replied]. rewrite cnt_app, HI.
    eapply event_out_cnt in E; [|exact HB]. rewrite E. lia.
  - inversion H; subst; exact HI.
  - destruct (negb (q_ishttp (c_d c))); [inversion H; subst; exact HI|].
    destruct (replied s) eqn:ER; inversion H; subst; [exact HI|].
    unfold Inv in *. cbn [pubs replied]. rewrite ER in *. exact HI.
  - destruct (negb (q_ishttp (c_d c))); [inversion H; subst; exact HI|].
    destruct (replied s) eqn:ER; inversion H; subst; [exact HI|].
    unfold Inv in *. cbn [pubs replied]. rewrite ER in *. exact HI.
  - destruct (val_ok v); inversion H; subst; [|exact HI].
    unfold Inv in *. cbn [publish pubs replied]. rewrite cnt_app, HI.
    rewrite cnt_other by (apply inbox_not_token; exact HB). lia.
  - destruct (run_get c) as [[[ms ls] v] e] eqn:E.
    apply run_get_cnt with (R := c_reply c) in E; [|exact HB].
    assert (HS : Inv (c_reply c) (St (replied s) (status s) (rhdr s) (pubs s ++ ms) (log s ++ ls))).
    { unfold Inv in *. cbn [pubs replied]. rewrite cnt_app, HI, E. lia. }
    destruct rq; [destruct e|]; inversion H; subst; exact HS.
  - destruct (is_nil (if tk then q_token (c_d c) else q_params (c_d c))); [inversion H; subst; exact HI|].
    destruct po; inversion H; subst; exact HI.
Qed.

Lemma run_script_inv : forall c sc s s' o,
  inbox_like (c_reply c) = true -> run_script c s sc = (s', o) -> Inv (c_reply c) s -> Inv (c_reply c) s'.
Proof.
  intros c sc. induction sc as [|a sc IH]; intros s s' o HB H HI; cbn [run_script] in H.
  - inversion H; subst; exact HI.
  - destruct (step c s a) as [s1 [p|]] eqn:E.
    + inversion H; subst. eapply step_inv; eassumption.
    + eapply IH; [exact HB|exact H|]. eapply step_inv; eassumption.
Qed.

(* ---------- finish / recover: afterwards exactly one response, never a crash ---------- *)
Lemma finish_done : forall c r, fst (finish c r) = Done.
Proof.
  intros c [s [p|]]; cbn [finish].
  - unfold recover, recover_gen. destruct (replied s).
    + destruct p as [[[e|]|m]|m|m]; reflexivity.
    + destruct p as [g|m|m]; reflexivity.
  - destruct (replied s); reflexivity.
Qed.

Lemma reply_error_fst_cnt : forall c s e m,
  replied s = false -> Inv (c_reply c) s -> cnt (c_reply c) (pubs (fst (reply_error c s e m))) = 1%nat.
Proof.
  intros c s e m E HI. unfold reply_error. rewrite reply_fst by exact E. cbn [pubs].
  unfold Inv in HI. rewrite E in HI. rewrite cnt_app, HI, cnt_reply by apply err_payload_not_pre. reflexivity.
Qed.

Lemma finish_one : forall c s out,
  Inv (c_reply c) s -> cnt (c_reply c) (pubs (snd (finish c (s, out)))) = 1%nat.
Proof.
  intros c s out HI. cbn [finish]. destruct out as [p|].
  - unfold recover, recover_gen. destruct (replied s) eqn:E.
    + assert (H1 : cnt (c_reply c) (pubs s) = 1%nat) by (unfold Inv in HI; rewrite E in HI; exact HI).
      destruct p as [[[e|]|m]|m|m]; exact H1.
    + destruct p as [g|m|m]; cbn [snd]; apply reply_error_fst_cnt; assumption.
  - destruct (replied s) eqn:E; cbn [snd].
    + unfold Inv in HI; rewrite E in HI; exact HI.
    + apply reply_error_fst_cnt; assumption.
Qed.

Lemma inv_st0 : forall R, Inv R st0.
Proof. reflexivity. Qed.

Lemma inv_add_log : forall R s e, Inv R s -> Inv R (add_log s e).
Proof. intros R s e H. exact H. Qed.

Inductive sel_kind := SKsilent | SKanswer.
Definition sel_kind_of (x : selection) : sel_kind :=
  match x with SelSilent => SKsilent | _ => SKanswer end.

Lemma execute_handler_cnt : forall c,
  inbox_like (c_reply c) = true ->
  cnt (c_reply c) (pubs (snd (execute_handler c))) =
  match select_handler (c_h c) (c_rtype c) (c_method c) with SelSilent => 0%nat | _ => 1%nat end.
Proof.
  intros c HB. unfold execute_handler.
  destruct (select_handler (c_h c) (c_rtype c) (c_method c)) as [|e|h sc].
  - reflexivity.
  - cbn [snd]. apply reply_error_fst_cnt; [reflexivity|apply inv_st0].
  - destruct (run_script c (add_log st0 (LInvoke (outer_obs c h))) sc) as [s out] eqn:E.
    apply finish_one. eapply run_script_inv; [exact HB|exact E|]. apply inv_add_log, inv_st0.
Qed.

Lemma select_method_answer : forall mk tbl me, select_method mk tbl me <> SelSilent.
Proof.
  intros mk tbl me. unfold select_method.
  destruct (lookup me tbl); [discriminate|]. destruct (lookup star_key tbl); discriminate.
Qed.

(* the selection is silent exactly for access without handler and unknown types *)
Lemma select_silent_iff : forall h rt me,
  (match select_handler h rt me with SelSilent => true | _ => false end) =
  ((beq rt t_access && negb (isSome (h_access h))) || negb (known_type rt)).
Proof.
  intros h rt me. unfold select_handler, known_type.
  destruct (beq rt t_access) eqn:Ea.
  - destruct (h_access h); reflexivity.
  - destruct (beq rt t_get) eqn:Eg.
    + destruct (h_get h); reflexivity.
    + destruct (beq rt t_call) eqn:Ec.
      * destruct (if beq me (s2b "new") then h_new h else None); [reflexivity|].
        pose proof (select_method_answer HCall (h_call h) me) as N.
        destruct (select_method HCall (h_call h) me); [contradiction|reflexivity|reflexivity].
      * destruct (beq rt t_auth) eqn:Eu.
        -- pose proof (select_method_answer HAuth (h_auth h) me) as N.
           destruct (select_method HAuth (h_auth h) me); [contradiction|reflexivity|reflexivity].
        -- reflexivity.
Qed.

Lemma is_nil_false : forall {A} (l : list A), l <> [] -> is_nil l = false.
Proof. intros A [|x l] H; [contradiction|reflexivity]. Qed.

Theorem exactly_one_response_pf : forall cfg m rt rn me,
  ms_reply m <> [] -> inbox_like (ms_reply m) = true ->
  split_subject (ms_subj m) = Some (rt, rn, me) ->
  List.length (responses (ms_reply m) (pubs (snd (handle_request cfg m)))) =
  if silent cfg m rt rn then 0%nat else 1%nat.
Proof.
  intros cfg m rt rn me HR HB HS. fold (cnt (ms_reply m) (pubs (snd (handle_request cfg m)))).
  unfold handle_request. rewrite (is_nil_false _ HR), HS.
  unfold process_request, silent. destruct (cfg rn) as [mh|].
  - destruct (ms_data m) as [|d|em]; cbn [decoded].
    + rewrite <- select_silent_iff with (me := me).
      set (c := Ctx (ms_reply m) rt rn me (m_h mh) (m_params mh) (m_group mh) rd_zero).
      change (ms_reply m) with (c_reply c) at 1. rewrite execute_handler_cnt by exact HB.
      cbn [c_h c_rtype c_method c]. destruct (select_handler (m_h mh) rt me); reflexivity.
    + rewrite <- select_silent_iff with (me := me).
      set (c := Ctx (ms_reply m) rt rn me (m_h mh) (m_params mh) (m_group mh) d).
      change (ms_reply m) with (c_reply c) at 1. rewrite execute_handler_cnt by exact HB.
      cbn [c_h c_rtype c_method c]. destruct (select_handler (m_h mh) rt me); reflexivity.
    + cbn [snd]. change (ms_reply m) with (c_reply (bare_ctx (ms_reply m))) at 1.
      apply reply_error_fst_cnt; [reflexivity|apply inv_st0].
  - cbn [snd]. change (ms_reply m) with (c_reply (bare_ctx (ms_reply m))) at 1.
    apply reply_error_fst_cnt; [reflexivity|apply inv_st0].
Qed.

(* in the silent case nothing at all is published and no handler runs *)
Theorem access_unhandled_silent_pf : forall cfg m rt rn me,
  ms_reply m <> [] -> split_subject (ms_subj m) = Some (rt, rn, me) ->
  silent cfg m rt rn = true ->
  pubs (snd (handle_request cfg m)) = [] /\ log (snd (handle_request cfg m)) = [].
Proof.
  intros cfg m rt rn me HR HS HQ. unfold handle_request. rewrite (is_nil_false _ HR), HS.
  unfold process_request, silent in *. destruct (cfg rn) as [mh|]; [|discriminate].
  destruct (ms_data m) as [|d|em]; cbn [decoded] in HQ; try discriminate;
    rewrite <- select_silent_iff with (me := me) in HQ; unfold execute_handler;
    cbn [c_h c_rtype c_method];
    destruct (select_handler (m_h mh) rt me); try discriminate; split; reflexivity.
Qed.

(* ---------- panics are contained ---------- *)
Lemma execute_handler_done : forall c, fst (execute_handler c) = Done.
Proof.
  intros c. unfold execute_handler. destruct (select_handler (c_h c) (c_rtype c) (c_method c)); try reflexivity.
  apply finish_done.
Qed.

Theorem panic_contained_pf : forall cfg m, fst (handle_request cfg m) = Done.
Proof.
  intros cfg m. unfold handle_request. destruct (is_nil (ms_reply m)); [reflexivity|].
  destruct (split_subject (ms_subj m)) as [[[rt rn] me]|]; [|reflexivity].
  unfold process_request. destruct (cfg rn); [|reflexivity].
  destruct (ms_data m); try reflexivity; apply execute_handler_done.
Qed.

(* ... so a worker answers a sequence of requests as if each came alone *)
Theorem sequence_unaffected_pf : forall cfg ms,
  handle_requests cfg ms = (Done, map (fun m => snd (handle_request cfg m)) ms).
Proof.
  intros cfg ms. induction ms as [|m ms IH]; cbn [handle_requests map]; [reflexivity|].
  pose proof (panic_contained_pf cfg m) as HD.
  destruct (handle_request cfg m) as [o s]. cbn [fst] in HD. subst o. rewrite IH. reflexivity.
Qed.

(* the recover switch before the fix: reply, then panic of a nil pointer of the Error type escapes *)
Definition v0_ctx : ctx :=
  Ctx (s2b "_INBOX.1") t_call (s2b "test.m") (s2b "x")
      (H 0 None None None [(s2b "x", [AReply (KOK VNull); APanic PNilErr])] []) [] (s2b "test.m") rd_zero.
Theorem recover_v0_refuted_pf :
  fst (execute_handler_v0 v0_ctx) = Crash /\ fst (execute_handler v0_ctx) = Done /\
  List.length (responses (c_reply v0_ctx) (pubs (snd (execute_handler v0_ctx)))) = 1%nat.
Proof. vm_compute. repeat split. Qed.
