(* Proofs for C05 (subject split, handler selection, unaltered fields, error codes,
   outcome -> response). *)
From GoRes Require Import Req.Spec Req.Proofs.
From Coq Require Import String Lia.
Open Scope N_scope.

(* ---------- split ---------- *)
Lemma span_tok_app : forall t r, no_dot t = true -> span_tok (t ++ dot :: r) = (t, dot :: r).
Proof.
  induction t as [|c t IH]; intros r H; cbn [app span_tok].
  - rewrite N.eqb_refl. reflexivity.
  - cbn [no_dot forallb] in H. apply andb_prop in H. destruct H as [H1 H2].
    destruct (c =? dot); [discriminate|]. fold (no_dot t) in H2. rewrite (IH r H2). reflexivity.
Qed.

Lemma span_tok_no_dot : forall t, no_dot t = true -> span_tok t = (t, []).
Proof.
  induction t as [|c t IH]; intros H; cbn [span_tok]; [reflexivity|].
  cbn [no_dot forallb] in H. apply andb_prop in H. destruct H as [H1 H2].
  destruct (c =? dot); [discriminate|]. fold (no_dot t) in H2. rewrite (IH H2). reflexivity.
Qed.

Lemma split_last_no_dot : forall m, no_dot m = true -> split_last m = None.
Proof.
  induction m as [|c m IH]; intros H; cbn [split_last]; [reflexivity|].
  cbn [no_dot forallb] in H. apply andb_prop in H. destruct H as [H1 H2].
  fold (no_dot m) in H2. rewrite (IH H2). destruct (c =? dot); [discriminate|reflexivity].
Qed.

Lemma split_last_app : forall r m, no_dot m = true -> split_last (r ++ dot :: m) = Some (r, m).
Proof.
  induction r as [|c r IH]; intros m H; cbn [app split_last].
  - rewrite (split_last_no_dot m H), N.eqb_refl. reflexivity.
  - rewrite (IH m H). reflexivity.
Qed.

Theorem split_method_pf : forall t r m,
  (t = t_call \/ t = t_auth) -> no_dot m = true ->
  split_subject (t ++ dot :: r ++ dot :: m) = Some (t, r, m).
Proof.
  intros t r m Ht Hm. unfold split_subject.
  assert (Hd : no_dot t = true) by (destruct Ht; subst t; reflexivity).
  rewrite (span_tok_app t _ Hd).
  assert (Hb : beq t t_call || beq t t_auth = true).
  { destruct Ht; subst t; [rewrite beq_refl|rewrite (beq_refl t_auth), orb_true_r]; reflexivity. }
  rewrite Hb, (split_last_app r m Hm). reflexivity.
Qed.

Theorem split_plain_pf : forall t r,
  no_dot t = true -> t <> t_call -> t <> t_auth ->
  split_subject (t ++ dot :: r) = Some (t, r, []).
Proof.
  intros t r Hd Hc Ha. unfold split_subject. rewrite (span_tok_app t _ Hd).
  rewrite (beq_false_of_neq _ _ Hc), (beq_false_of_neq _ _ Ha). reflexivity.
Qed.

(* the error exits of handleRequest *)
Theorem split_errors_pf :
  (forall s, no_dot s = true -> split_subject s = None) /\
  (forall t m, (t = t_call \/ t = t_auth) -> no_dot m = true -> split_subject (t ++ dot :: m) = None).
Proof.
  split.
  - intros s H. unfold split_subject. rewrite (span_tok_no_dot s H). reflexivity.
  - intros t m Ht Hm. unfold split_subject.
    assert (Hd : no_dot t = true) by (destruct Ht; subst t; reflexivity).
    rewrite (span_tok_app t _ Hd).
    assert (Hb : beq t t_call || beq t t_auth = true).
    { destruct Ht; subst t; [rewrite beq_refl|rewrite (beq_refl t_auth), orb_true_r]; reflexivity. }
    rewrite Hb, (split_last_no_dot m Hm). reflexivity.
Qed.

(* ---------- which handler ---------- *)
Definition nothing_reply (rt : bytes) : selection :=
  if beq rt t_access then SelSilent
  else if beq rt t_get then SelStatic err_not_found
  else if beq rt t_call || beq rt t_auth then SelStatic err_method_not_found
  else SelSilent.

Lemma select_spec : forall h rt me,
  select_handler h rt me =
  match spec_invoked h rt me with
  | Some (hd, sc) => SelRun hd sc
  | None => nothing_reply rt
  end.
Proof.
  intros h rt me. unfold select_handler, spec_invoked, nothing_reply, select_method, star_key, tagged.
  destruct (beq rt t_access) eqn:Ea; [destruct (h_access h); reflexivity|].
  destruct (beq rt t_get) eqn:Eg; [destruct (h_get h); reflexivity|].
  destruct (beq rt t_call) eqn:Ec.
  - cbn [first_some orb].
    destruct (beq me (s2b "new")); [destruct (h_new h); [reflexivity|]|];
      (destruct (lookup me (h_call h)); [reflexivity|]; destruct (lookup [star] (h_call h)); reflexivity).
  - destruct (beq rt t_auth) eqn:Eu; [|reflexivity]. cbn [first_some orb].
    destruct (lookup me (h_auth h)); [reflexivity|]; destruct (lookup [star] (h_auth h)); reflexivity.
Qed.

Lemma handle_request_matched : forall cfg m rt rn me mh d,
  ms_reply m <> [] -> split_subject (ms_subj m) = Some (rt, rn, me) ->
  cfg rn = Some mh -> decoded (ms_data m) = Some d ->
  handle_request cfg m = execute_handler (req_ctx m mh rt rn me d).
Proof.
  intros cfg m rt rn me mh d HR HS HC HD. unfold handle_request, process_request.
  rewrite (is_nil_false _ HR), HS, HC. destruct (ms_data m); cbn [decoded] in HD; inversion HD; subst; reflexivity.
Qed.

(* the handler run is the one the property names, with exactly its script and
   with the expected observation *)
Theorem dispatch_spec_pf : forall cfg m rt rn me mh d,
  ms_reply m <> [] -> split_subject (ms_subj m) = Some (rt, rn, me) ->
  cfg rn = Some mh -> decoded (ms_data m) = Some d ->
  match spec_invoked (m_h mh) rt me with
  | Some (hd, sc) =>
    handle_request cfg m =
    finish (req_ctx m mh rt rn me d)
           (run_script (req_ctx m mh rt rn me d)
                       (add_log st0 (LInvoke (expected_obs mh hd rt rn me d))) sc)
  | None => log (snd (handle_request cfg m)) = []
  end.
Proof.
  intros cfg m rt rn me mh d HR HS HC HD.
  rewrite (handle_request_matched cfg m rt rn me mh d HR HS HC HD).
  unfold execute_handler. cbn [req_ctx c_h c_rtype c_method]. rewrite select_spec.
  destruct (spec_invoked (m_h mh) rt me) as [[hd sc]|]; [reflexivity|].
  unfold nothing_reply. destruct (beq rt t_access); [reflexivity|].
  destruct (beq rt t_get); [reflexivity|]. destruct (beq rt t_call || beq rt t_auth); reflexivity.
Qed.

(* ---------- the log only grows by nested invocations and Value results ---------- *)
Lemma outer_app : forall a b, outer_invocations (a ++ b) = outer_invocations a ++ outer_invocations b.
Proof. intros. unfold outer_invocations. apply flat_map_app. Qed.

Lemma reply_log : forall c s p, log (fst (reply c s p)) = log s.
Proof. intros c s p. unfold reply. destruct (replied s); reflexivity. Qed.

Lemma do_replyk_log : forall c s k, log (fst (do_replyk c s k)) = log s.
Proof.
  intros c s k. unfold do_replyk, success, reply_error.
  destruct k;
    repeat match goal with
           | |- context [if ?b then _ else _] => destruct b
           end; try apply reply_log; reflexivity.
Qed.

Lemma run_get_log : forall c ms ls v e, run_get c = (ms, ls, v, e) -> outer_invocations ls = [].
Proof.
  intros c ms ls v e H. unfold run_get in H. destruct (h_get (c_h c)).
  - destruct (run_gscript c (GSt false VNull None []) s) as [g1 out]. inversion H; subst. reflexivity.
  - inversion H; subst. reflexivity.
Qed.

Lemma step_log : forall c s a s' o, step c s a = (s', o) ->
  exists l, log s' = log s ++ l /\ outer_invocations l = [].
Proof.
  intros c s a s' o H. unfold step in H. destruct a as [k|ms|n v|p|n|k v|v|rq|tk z po].
  - exists []. rewrite app_nil_r. split; [|reflexivity].
    replace s' with (fst (do_replyk c s k)) by (rewrite H; reflexivity). apply do_replyk_log.
  - exists []. rewrite app_nil_r. split; [|reflexivity]. destruct (ms <? 0)%Z; inversion H; subst; reflexivity.
  - exists []. rewrite app_nil_r. split; [|reflexivity].
    destruct (event_out c n v). inversion H; subst; reflexivity.
  - exists []. rewrite app_nil_r. split; [|reflexivity]. inversion H; subst; reflexivity.
  - exists []. rewrite app_nil_r. split; [|reflexivity].
    destruct (negb (q_ishttp (c_d c))); [inversion H; subst; reflexivity|].
    destruct (replied s); inversion H; subst; reflexivity.
  - exists []. rewrite app_nil_r. split; [|reflexivity].
    destruct (negb (q_ishttp (c_d c))); [inversion H; subst; reflexivity|].
    destruct (replied s); inversion H; subst; reflexivity.
  - exists []. rewrite app_nil_r. split; [|reflexivity]. destruct (val_ok v); inversion H; subst; reflexivity.
  - destruct (run_get c) as [[[ms ls] v] e] eqn:E. apply run_get_log in E.
    destruct rq; [destruct e|]; inversion H; subst; cbn [log add_log].
    + exists ls. split; [reflexivity|exact E].
    + exists (ls ++ [LValue v None]). rewrite app_assoc. split; [reflexivity|].
      rewrite outer_app, E. reflexivity.
    + exists (ls ++ [LValue v e]). rewrite app_assoc. split; [reflexivity|].
      rewrite outer_app, E. reflexivity.
  - destruct (is_nil (if tk then q_token (c_d c) else q_params (c_d c))).
    + inversion H; subst. exists [LParsed tk z]. split; reflexivity.
    + destruct po; inversion H; subst.
      * exists [LParsed tk seen]. split; reflexivity.
      * exists []. rewrite app_nil_r. split; reflexivity.
Qed.

Lemma run_script_log : forall c sc s s' o, run_script c s sc = (s', o) ->
  exists l, log s' = log s ++ l /\ outer_invocations l = [].
Proof.
  intros c sc. induction sc as [|a sc IH]; intros s s' o H; cbn [run_script] in H.
  - inversion H; subst. exists []. rewrite app_nil_r. split; reflexivity.
  - destruct (step c s a) as [s1 [p|]] eqn:E.
    + inversion H; subst. eapply step_log; exact E.
    + apply step_log in E. destruct E as [l1 [E1 E2]].
      apply IH in H. destruct H as [l2 [H1 H2]].
      exists (l1 ++ l2). rewrite H1, E1, app_assoc. split; [reflexivity|].
      rewrite outer_app, E2, H2. reflexivity.
Qed.

Lemma finish_log : forall c s out, log (snd (finish c (s, out))) = log s.
Proof.
  intros c s out. cbn [finish]. destruct out as [p|].
  - unfold recover, recover_gen. destruct (replied s) eqn:E.
    + destruct p as [[[e|]|m]|m|m]; reflexivity.
    + destruct p as [g|m|m]; cbn [snd]; unfold reply_error; apply reply_log.
  - destruct (replied s); cbn [snd]; [reflexivity|]. unfold reply_error; apply reply_log.
Qed.

(* exactly one invocation by the service, and it saw the request exactly as sent *)
Theorem fields_unaltered_pf : forall cfg m rt rn me mh d hd sc,
  ms_reply m <> [] -> split_subject (ms_subj m) = Some (rt, rn, me) ->
  cfg rn = Some mh -> decoded (ms_data m) = Some d ->
  spec_invoked (m_h mh) rt me = Some (hd, sc) ->
  outer_invocations (log (snd (handle_request cfg m))) = [expected_obs mh hd rt rn me d] /\
  exists rest, log (snd (handle_request cfg m)) = LInvoke (expected_obs mh hd rt rn me d) :: rest.
Proof.
  intros cfg m rt rn me mh d hd sc HR HS HC HD HI.
  pose proof (dispatch_spec_pf cfg m rt rn me mh d HR HS HC HD) as HX. rewrite HI in HX. rewrite HX.
  destruct (run_script (req_ctx m mh rt rn me d) (add_log st0 (LInvoke (expected_obs mh hd rt rn me d))) sc)
    as [s out] eqn:E.
  rewrite finish_log. apply run_script_log in E. destruct E as [l [E1 E2]]. rewrite E1.
  cbn [log add_log st0 app]. split.
  - change (LInvoke (expected_obs mh hd rt rn me d) :: l) with ([LInvoke (expected_obs mh hd rt rn me d)] ++ l).
    rewrite outer_app, E2. reflexivity.
  - exists l. reflexivity.
Qed.

(* ---------- nothing can be invoked: the response code ---------- *)
Theorem nothing_invocable_code_pf : forall cfg m rt rn me,
  ms_reply m <> [] -> split_subject (ms_subj m) = Some (rt, rn, me) ->
  let s := snd (handle_request cfg m) in
  (cfg rn = None -> pubs s = one_error (ms_reply m) err_not_found /\ log s = []) /\
  (forall mh em, cfg rn = Some mh -> ms_data m = InBad em ->
     pubs s = one_error (ms_reply m) (internal em) /\ log s = []) /\
  (forall mh d, cfg rn = Some mh -> decoded (ms_data m) = Some d -> spec_invoked (m_h mh) rt me = None ->
     log s = [] /\
     pubs s = if beq rt t_access then []
              else if beq rt t_get then one_error (ms_reply m) err_not_found
              else if beq rt t_call || beq rt t_auth then one_error (ms_reply m) err_method_not_found
              else []).
Proof.
  intros cfg m rt rn me HR HS s. split; [|split].
  - intros HC. subst s. unfold handle_request, process_request. rewrite (is_nil_false _ HR), HS, HC.
    split; reflexivity.
  - intros mh em HC HB. subst s. unfold handle_request, process_request. rewrite (is_nil_false _ HR), HS, HC, HB.
    split; reflexivity.
  - intros mh d HC HD HN. subst s.
    rewrite (handle_request_matched cfg m rt rn me mh d HR HS HC HD).
    unfold execute_handler. cbn [req_ctx c_h c_rtype c_method]. rewrite select_spec, HN.
    unfold nothing_reply. destruct (beq rt t_access); [split; reflexivity|].
    destruct (beq rt t_get); [split; reflexivity|].
    destruct (beq rt t_call || beq rt t_auth); split; reflexivity.
Qed.

(* ---------- handler outcome -> response ---------- *)
Lemma err_payload_verbatim : forall e m, val_ok (e_data e) = true ->
  err_payload (Some e) m = PError (e_code e) (e_msg e) (err_data e) m.
Proof. intros e m H. unfold err_payload, err_data. destruct (e_data e); try discriminate; reflexivity. Qed.

Lemma err_payload_internal : forall m0 m, is_internal_error (err_payload (Some (internal m0)) m).
Proof. intros. cbn. repeat eexists. Qed.

(* a handler that returned or panicked without having replied: one response,
   determined by the outcome alone *)
Theorem outcome_to_response_pf : forall c s out,
  replied s = false ->
  exists p, pubs (snd (finish c (s, out))) = pubs s ++ [Pub (c_reply c) p] /\
    match out with
    | None => p = PError code_internal (e_msg err_missing_response) None None
    | Some (PVError (GErr (Some e))) =>
        (val_ok (e_data e) = true -> p = PError (e_code e) (e_msg e) (err_data e) (cur_meta s)) /\
        (val_ok (e_data e) = false -> is_internal_error p)
    | Some _ => is_internal_error p
    end.
Proof.
  intros c s out HR. cbn [finish]. destruct out as [p|].
  - unfold recover, recover_gen. rewrite HR.
    destruct p as [[[e|]|m]|m|m]; cbn [snd to_error]; unfold reply_error; rewrite reply_fst by exact HR; cbn [pubs];
      eexists; (split; [reflexivity|]).
    + split; intros HV; [apply err_payload_verbatim; exact HV|].
      unfold err_payload. destruct (e_data e); try discriminate. repeat eexists.
    + cbn. repeat eexists.
    + apply err_payload_internal.
    + apply err_payload_internal.
    + apply err_payload_internal.
  - rewrite HR. cbn [snd]. unfold reply_error. rewrite reply_fst by exact HR. cbn [pubs].
    eexists. split; reflexivity.
Qed.

(* a handler that had replied: the outcome adds nothing *)
Theorem outcome_after_reply_pf : forall c s out,
  replied s = true -> snd (finish c (s, out)) = s.
Proof.
  intros c s out HR. cbn [finish]. destruct out as [p|].
  - unfold recover, recover_gen. rewrite HR. destruct p as [[[e|]|m]|m|m]; reflexivity.
  - rewrite HR. reflexivity.
Qed.

(* an *Error passed to Error() is sent verbatim (with the meta set so far) *)
Theorem error_verbatim_pf : forall c s e,
  replied s = false -> val_ok (e_data e) = true ->
  step c s (AReply (KError (EErr e))) =
  (St true (status s) (rhdr s)
      (pubs s ++ [Pub (c_reply c) (PError (e_code e) (e_msg e) (err_data e) (cur_meta s))]) (log s), None).
Proof.
  intros c s e HR HV. cbn [step do_replyk errarg_gerr to_error]. unfold reply_error, reply.
  rewrite HR, (err_payload_verbatim e _ HV). reflexivity.
Qed.

(* any other error value passed to Error(), and a nil pointer, give system.internalError *)
Theorem error_other_pf : forall c s ea,
  replied s = false -> (ea = ENilErr \/ exists msg, ea = EGoErr msg) ->
  exists p, is_internal_error p /\
    step c s (AReply (KError ea)) = (St true (status s) (rhdr s) (pubs s ++ [Pub (c_reply c) p]) (log s), None).
Proof.
  intros c s ea HR [->|[msg ->]]; cbn [step do_replyk errarg_gerr to_error]; unfold reply_error, reply; rewrite HR;
    eexists; (split; [|reflexivity]); cbn; repeat eexists.
Qed.

(* ParseParams / ParseToken: the target holds what encoding/json decoded from the raw value sent; a
   decode error (handler not having replied) is answered with system.invalidParams carrying the
   decoder's message (params) resp. system.internalError (token) *)

Theorem parse_seen_pf : forall c s tk zero v,
  step c s (AParse tk zero (ParseOk v)) =
  (add_log s (LParsed tk (if is_nil (raw_of c tk) then zero else v)), None).
Proof.
  intros. unfold raw_of. destruct tk; cbn [step]; [destruct (q_token (c_d c))|destruct (q_params (c_d c))]; reflexivity.
Qed.

Theorem parse_error_response_pf : forall c s tk zero m,
  replied s = false -> raw_of c tk <> [] ->
  pubs (snd (finish c (step c s (AParse tk zero (ParseFail m))))) =
  pubs s ++ [Pub (c_reply c)
               (if tk then PError code_internal (s2b "Internal error: " ++ m) None (cur_meta s)
                else PError code_invalid_params m None (cur_meta s))].
Proof.
  intros c s tk zero m HR HN. unfold raw_of in HN.
  destruct tk; cbn [step]; rewrite (is_nil_false _ HN); cbn [finish]; unfold recover, recover_gen;
    rewrite HR; cbn [snd to_error]; unfold reply_error; rewrite reply_fst by exact HR; reflexivity.
Qed.
