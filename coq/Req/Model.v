(* Executable model of the request path of go-res:
     service.go   handleRequest (subject split), processRequest (no match / payload
                  not JSON / field copy)
     request.go   executeHandler (dispatch switch, missing-response fallback, the
                  four-way recover switch) and the Request reply API
     getrequest.go  Value()/RequireValue() through the get handler with the
                  in-memory reply sink, and its own recover switch
     resource.go  Event (custom events) as far as a handler script can call it.

   Handlers are SCRIPTS (lists of actions) interpreted against the model of the
   Request API; a Go panic is an explicit [pval] that unwinds the script to the
   recover model.  Routing (Mux.GetHandler) is a black box: a [config] maps a
   resource name to the matched handler set, path params and group (C06).
   encoding/json is trusted: the request payload enters as its decoded record
   ([InJson]), as empty, or as "does not decode" with the decoder's error text;
   published payloads are ASTs.  No proofs here. *)
From GoRes Require Export Base.Bytes.
From GoRes Require Import Pattern.Model.
From Coq Require Export ZArith.
From Coq Require Import String.
Open Scope N_scope.

(* ---------- generic helpers ---------- *)
Fixpoint lookup {A} (k : bytes) (l : list (bytes * A)) : option A :=
  match l with
  | [] => None
  | (k', v) :: l' => if beq k k' then Some v else lookup k l'
  end.

Fixpoint prefix_b (p s : bytes) : bool :=
  match p, s with
  | [], _ => true
  | x :: p', y :: s' => (x =? y) && prefix_b p' s'
  | _ :: _, [] => false
  end.

(* strings.LastIndexByte(s,'.') as a split: Some (s[:i], s[i+1:]) *)
Fixpoint split_last (s : bytes) : option (bytes * bytes) :=
  match s with
  | [] => None
  | c :: s' =>
    match split_last s' with
    | Some (a, b) => Some (c :: a, b)
    | None => if c =? dot then Some ([], s') else None
    end
  end.

(* ---------- values a handler hands to the API, and JSON as published ---------- *)
Inductive jv :=
| JNull | JBool (b : bool) | JNum (z : Z) | JStr (s : bytes)
| JArr (l : list jv) | JObj (l : list (bytes * jv)).

(* VBad: a Go value json.Marshal rejects (the harness uses [make(chan int)]) *)
Inductive val :=
| VNull | VStr (s : bytes) | VInt (z : Z) | VBool (b : bool)
| VMap (m : list (bytes * bytes)) | VList (l : list Z) | VBad.
Definition val_ok (v : val) : bool := match v with VBad => false | _ => true end.
Definition to_jv (v : val) : jv :=
  match v with
  | VNull => JNull | VStr s => JStr s | VInt z => JNum z | VBool b => JBool b
  | VMap m => JObj (map (fun kv => (fst kv, JStr (snd kv))) m)
  | VList l => JArr (map JNum l)
  | VBad => JNull
  end.

(* *res.Error ; a non-nil Go [error] value ; a panic value *)
Record rerr := RErr { e_code : bytes; e_msg : bytes; e_data : val }.
Inductive gerr :=
| GErr (e : option rerr)      (* dynamic type *Error; None = the nil pointer *)
| GOther (msg : bytes).       (* any other error type, msg = errors.go errString(err): Error(), or "panic in Error method" if that panics *)
Inductive pval :=
| PVError (g : gerr)          (* panic(err) *)
| PVStr (s : bytes)           (* panic("...") *)
| PVOther (text : bytes).     (* any other value, text = fmt.Sprintf("%v", v) *)

Definition code_internal := s2b "system.internalError".
Definition code_not_found := s2b "system.notFound".
Definition code_method_not_found := s2b "system.methodNotFound".
Definition code_invalid_params := s2b "system.invalidParams".
Definition code_invalid_query := s2b "system.invalidQuery".
Definition code_access_denied := s2b "system.accessDenied".
Definition err_internal := RErr code_internal (s2b "Internal error") VNull.
Definition err_not_found := RErr code_not_found (s2b "Not found") VNull.
Definition err_method_not_found := RErr code_method_not_found (s2b "Method not found") VNull.
Definition err_invalid_params := RErr code_invalid_params (s2b "Invalid parameters") VNull.
Definition err_invalid_query := RErr code_invalid_query (s2b "Invalid query") VNull.
Definition err_access_denied := RErr code_access_denied (s2b "Access denied") VNull.
Definition err_missing_response := RErr code_internal (s2b "Internal error: missing response") VNull.
(* errors.go InternalError / ToError *)
Definition internal (m : bytes) : rerr := RErr code_internal (s2b "Internal error: " ++ m) VNull.
Definition to_error (g : gerr) : option rerr :=
  match g with GErr e => e | GOther m => Some (internal m) end.
(* json.Marshal's error text for the VBad value *)
Definition bad_marshal_msg := s2b "json: unsupported type: chan int".

(* ---------- what is published ---------- *)
Definition hdr := list (bytes * list bytes).
Definition meta := option (Z * hdr).        (* status, header; None = no "meta" member *)
Inductive payload :=
| PResult (v : jv) (m : meta)                              (* {"result":v[,"meta":m]} *)
| PResource (rid : bytes) (m : meta)                       (* {"resource":{"rid":..}[,"meta":m]} *)
| PError (code msg : bytes) (data : option jv) (m : meta)  (* {"error":{..}[,"meta":m]} *)
| PPre (ms : Z)                                            (* timeout:"<ms>"  (pre-response) *)
| PEvt (v : option jv)                                     (* event payload, None = empty *)
| PRaw (b : bytes).                                        (* anything else (never produced by the model) *)
Record pubmsg := Pub { p_subj : bytes; p_pay : payload }.

(* ---------- handler scripts ---------- *)
Inductive errarg := EErr (e : rerr) | ENilErr | EGoErr (msg : bytes).
Inductive replyk :=
| KOK (v : val) | KResource (rid : bytes) | KError (e : errarg)
| KNotFound | KMethodNotFound | KInvalidParams (m : bytes) | KInvalidQuery (m : bytes)
| KAccess (g : bool) (c : bytes) | KAccessDenied | KAccessGranted
| KModel (v : val) | KQueryModel (v : val) (q : bytes)
| KCollection (v : val) | KQueryCollection (v : val) (q : bytes)
| KNew (rid : bytes).
Inductive panick :=
| PErr (e : rerr) | PNilErr | PGoErr (msg : bytes) | PStr (s : bytes) | POther (text : bytes).
Inductive parse_out := ParseOk (seen : bytes) | ParseFail (errmsg : bytes).
Inductive action :=
| AReply (k : replyk)
| ATimeout (ms : Z)                 (* r.Timeout(ms * time.Millisecond) *)
| AEvent (name : bytes) (v : val)   (* r.Event(name, v) *)
| APanic (p : panick)
| ASetStatus (n : Z)                (* r.SetResponseStatus(n) *)
| AHeader (k v : bytes)             (* h := r.ResponseHeader(); h[k] = append(h[k], v) *)
| ATokenEvent (v : val)             (* r.TokenEvent(v) *)
| AValue (require : bool)           (* r.Value() / r.RequireValue() *)
| AParse (token : bool) (zero : bytes) (o : parse_out).
  (* r.ParseParams(&t) / r.ParseToken(&t) into a typed target t.  encoding/json is trusted: [o] is
     json.Unmarshal's outcome for THIS request's raw params/token and the target's type (the value the
     target then holds, re-marshalled, or the error text), [zero] the target's untouched value. *)
Definition script := list action.

(* res.Handler as far as requests are concerned; [h_pid] identifies the registered pattern *)
Record handlers := H {
  h_pid : N;
  h_access : option script; h_get : option script; h_new : option script;
  h_call : list (bytes * script); h_auth : list (bytes * script) }.
(* mux.go Match *)
Record hmatch := HM { m_h : handlers; m_params : amap; m_group : bytes }.
Definition config := bytes -> option hmatch.

(* codec.go resRequest, decoded *)
Record reqdata := RD {
  q_cid : bytes; q_params : bytes; q_token : bytes; q_header : hdr;
  q_host : bytes; q_raddr : bytes; q_uri : bytes; q_query : bytes; q_ishttp : bool }.
Definition rd_zero := RD [] [] [] [] [] [] [] [] false.
Inductive inpayload := InEmpty | InJson (d : reqdata) | InBad (errmsg : bytes).
Record msg := Msg { ms_subj : bytes; ms_reply : bytes; ms_data : inpayload }.

(* ---------- what an invoked handler observes ---------- *)
Inductive hid := HAccess | HGet | HNew | HCall (key : bytes) | HAuth (key : bytes).
Record obs := Obs {
  o_pid : N; o_hid : hid; o_forvalue : bool;
  o_type : bytes; o_method : bytes; o_rname : bytes; o_pparams : amap; o_query : bytes; o_group : bytes;
  o_cid : bytes; o_token : bytes; o_params : bytes; o_header : hdr;
  o_host : bytes; o_raddr : bytes; o_uri : bytes; o_ishttp : bool }.
Inductive lentry :=
| LInvoke (o : obs)
| LValue (v : val) (e : option gerr)      (* what Value()/RequireValue() returned *)
| LParsed (token : bool) (seen : bytes).  (* what the target of ParseParams/ParseToken holds afterwards *)

(* ---------- handleRequest: subject split ---------- *)
Definition t_access := s2b "access".
Definition t_get := s2b "get".
Definition t_call := s2b "call".
Definition t_auth := s2b "auth".
Definition split_subject (subj : bytes) : option (bytes * bytes * bytes) :=
  match span_tok subj with
  | (_, []) => None                                  (* no '.' *)
  | (rt, _ :: rest) =>
    if beq rt t_call || beq rt t_auth then
      match split_last rest with
      | None => None                                 (* no method *)
      | Some (rn, me) => Some (rt, rn, me)
      end
    else Some (rt, rest, [])
  end.

(* ---------- Request state ---------- *)
Record ctx := Ctx {
  c_reply : bytes; c_rtype : bytes; c_rname : bytes; c_method : bytes;
  c_h : handlers; c_pparams : amap; c_group : bytes; c_d : reqdata }.
Record rstate := St {
  replied : bool; status : Z; rhdr : hdr; pubs : list pubmsg; log : list lentry }.

Definition cur_meta (s : rstate) : meta :=
  if (status s =? 0)%Z && is_nil (rhdr s) then None else Some (status s, rhdr s).
Definition publish (s : rstate) (subj : bytes) (p : payload) : rstate :=
  St (replied s) (status s) (rhdr s) (pubs s ++ [Pub subj p]) (log s).
Definition publish_all (s : rstate) (ms : list pubmsg) : rstate :=
  St (replied s) (status s) (rhdr s) (pubs s ++ ms) (log s).
Definition add_log (s : rstate) (e : lentry) : rstate :=
  St (replied s) (status s) (rhdr s) (pubs s) (log s ++ [e]).

Definition already_sent := s2b "res: response already sent on request".
(* Request.reply *)
Definition reply (c : ctx) (s : rstate) (p : payload) : rstate * option pval :=
  if replied s then (s, Some (PVStr already_sent))
  else (St true (status s) (rhdr s) (pubs s ++ [Pub (c_reply c) p]) (log s), None).

(* Request.error: a nil *Error becomes system.internalError; data that does not
   marshal gives the static internal error without meta *)
Definition err_payload (e : option rerr) (m : meta) : payload :=
  match e with
  | None => PError code_internal (e_msg err_internal) None m
  | Some e =>
    match e_data e with
    | VBad => PError code_internal (e_msg err_internal) None None
    | VNull => PError (e_code e) (e_msg e) None m
    | d => PError (e_code e) (e_msg e) (Some (to_jv d)) m
    end
  end.
Definition reply_error (c : ctx) (s : rstate) (e : option rerr) (m : meta) : rstate * option pval :=
  reply c s (err_payload e m).
(* Request.success: marshal failure -> error(ToError(err), nil) *)
Definition success (c : ctx) (s : rstate) (v : val) (wrap : jv -> jv) (m : meta) : rstate * option pval :=
  if val_ok v then reply c s (PResult (wrap (to_jv v)) m)
  else reply_error c s (Some (internal bad_marshal_msg)) None.

Definition with_query (k : bytes) (q : bytes) (j : jv) : jv :=
  JObj ((k, j) :: (if is_nil q then [] else [(s2b "query", JStr q)])).
Definition access_obj (g : bool) (cl : bytes) : jv :=
  JObj ((if g then [(s2b "get", JBool true)] else []) ++ (if is_nil cl then [] else [(s2b "call", JStr cl)])).
Definition errarg_gerr (e : errarg) : gerr :=
  match e with EErr e => GErr (Some e) | ENilErr => GErr None | EGoErr m => GOther m end.
Definition panic_val (p : panick) : pval :=
  match p with
  | PErr e => PVError (GErr (Some e)) | PNilErr => PVError (GErr None)
  | PGoErr m => PVError (GOther m) | PStr s => PVStr s | POther t => PVOther t
  end.

(* the reply methods of *Request *)
Definition do_replyk (c : ctx) (s : rstate) (k : replyk) : rstate * option pval :=
  let m := cur_meta s in
  match k with
  | KOK v => success c s v (fun j => j) m
  | KResource rid =>
    if is_valid_rid rid then reply c s (PResource rid m)
    else (s, Some (PVStr (s2b "res: invalid resource ID: " ++ rid)))
  | KError e => reply_error c s (to_error (errarg_gerr e)) m
  | KNotFound => reply_error c s (Some err_not_found) m
  | KMethodNotFound => reply_error c s (Some err_method_not_found) m
  | KInvalidParams msg =>
    reply_error c s (Some (if is_nil msg then err_invalid_params else RErr code_invalid_params msg VNull)) m
  | KInvalidQuery msg =>
    reply_error c s (Some (if is_nil msg then err_invalid_query else RErr code_invalid_query msg VNull)) m
  | KAccess g cl =>
    if negb g && is_nil cl then reply_error c s (Some err_access_denied) m
    else reply c s (PResult (access_obj g cl) m)
  | KAccessDenied => reply_error c s (Some err_access_denied) m
  | KAccessGranted => reply c s (PResult (access_obj true [star]) m)
  | KModel v => success c s v (with_query (s2b "model") []) None
  | KQueryModel v q => success c s v (with_query (s2b "model") q) None
  | KCollection v => success c s v (with_query (s2b "collection") []) None
  | KQueryCollection v q => success c s v (with_query (s2b "collection") q) None
  | KNew rid =>
    if is_valid_rid rid then reply c s (PResult (JObj [(s2b "rid", JStr rid)]) None)
    else (s, Some (PVStr (s2b "res: invalid reference RID: " ++ rid)))
  end.

(* resource.Event: reserved names and invalid names panic *)
Definition reserved_events : list (bytes * bytes) :=
  [ (s2b "change", s2b "res: use ChangeEvent to send change events");
    (s2b "delete", s2b "res: ""delete"" is a reserved event name");
    (s2b "add", s2b "res: use AddEvent to send add events");
    (s2b "remove", s2b "res: use RemoveEvent to send remove events");
    (s2b "patch", s2b "res: ""patch"" is a reserved event name");
    (s2b "reaccess", s2b "res: use ReaccessEvent to send a reaccess event");
    (s2b "unsubscribe", s2b "res: ""unsubscribe"" is a reserved event name");
    (s2b "query", s2b "res: ""query"" is a reserved event name") ].
Definition event_subject (rname name : bytes) : bytes := s2b "event." ++ rname ++ dot :: name.
Definition token_subject (cid : bytes) : bytes := s2b "conn." ++ cid ++ s2b ".token".
(* messages to publish, panic *)
Definition event_out (c : ctx) (name : bytes) (v : val) : list pubmsg * option pval :=
  match lookup name reserved_events with
  | Some m => ([], Some (PVStr m))
  | None =>
    if negb (is_valid_part name) then ([], Some (PVStr (s2b "res: invalid event name")))
    else match v with
         | VNull => ([Pub (event_subject (c_rname c) name) (PEvt None)], None)
         | VBad => ([], None)                     (* marshal error is only logged *)
         | _ => ([Pub (event_subject (c_rname c) name) (PEvt (Some (to_jv v)))], None)
         end
  end.

Fixpoint hadd (k v : bytes) (h : hdr) : hdr :=
  match h with
  | [] => [(k, [v])]
  | (k', vs) :: h' => if beq k k' then (k', vs ++ [v]) :: h' else (k', vs) :: hadd k v h'
  end.

(* ---------- getrequest.go: the nested get request behind Value() ---------- *)
Record gstate := GSt {
  g_replied : bool; g_value : val; g_err : option gerr; g_pubs : list pubmsg }.
Definition already_sent_get := s2b "res: response already sent on get request".
Definition g_set_value (g : gstate) (v : val) : gstate * option pval :=
  if g_replied g then (g, Some (PVStr already_sent_get))
  else (GSt true v (g_err g) (g_pubs g), None).
Definition g_set_err (g : gstate) (e : gerr) : gstate * option pval :=
  if g_replied g then (g, Some (PVStr already_sent_get))
  else (GSt true (g_value g) (Some e) (g_pubs g), None).
(* actions that are not methods of the GetRequest interface cannot be written
   against a *getRequest: they are skipped *)
Definition gstep (c : ctx) (g : gstate) (a : action) : gstate * option pval :=
  match a with
  | AReply (KModel v) | AReply (KQueryModel v _) | AReply (KCollection v) | AReply (KQueryCollection v _) =>
    g_set_value g v
  | AReply KNotFound => g_set_err g (GErr (Some err_not_found))
  | AReply (KInvalidQuery m) =>
    g_set_err g (GErr (Some (if is_nil m then err_invalid_query else RErr code_invalid_query m VNull)))
  | AReply (KError e) => g_set_err g (errarg_gerr e)
  | AReply _ => (g, None)
  | ATimeout _ => (g, None)
  | AEvent name v =>
    let (ms, p) := event_out c name v in
    (GSt (g_replied g) (g_value g) (g_err g) (g_pubs g ++ ms), p)
  | APanic p => (g, Some (panic_val p))
  | AValue false => (g, Some (PVStr (s2b "Value() called within get request handler")))
  | AValue true => (g, Some (PVStr (s2b "RequireValue() called within get request handler")))
  | ASetStatus _ | AHeader _ _ | ATokenEvent _ | AParse _ _ _ => (g, None)
  end.
Fixpoint run_gscript (c : ctx) (g : gstate) (sc : script) : gstate * option pval :=
  match sc with
  | [] => (g, None)
  | a :: r => match gstep c g a with
              | (g', None) => run_gscript c g' r
              | (g', Some p) => (g', Some p)
              end
  end.

Definition quote_name (n : bytes) : bytes := 34 :: n ++ [34].     (* %#v of a name without quote or backslash *)
Definition missing_get_msg (rname : bytes) : bytes :=
  s2b "missing response on get request for " ++ quote_name rname.

(* what a get handler reads from a *getRequest *)
Definition nested_obs (c : ctx) : obs :=
  Obs (h_pid (c_h c)) HGet true [] [] (c_rname c) (c_pparams c) (q_query (c_d c)) (c_group c)
      [] [] [] [] [] [] [] false.

(* getRequest.executeHandler's recover switch: it only ever stores an error *)
Definition g_recover (g : gstate) (p : pval) : gstate :=
  if g_replied g then g
  else match p with
       | PVError (GErr e) => GSt true (g_value g) (Some (GErr e)) (g_pubs g)
       | PVError (GOther m) | PVStr m | PVOther m =>
         GSt true (g_value g) (Some (GErr (Some (internal m)))) (g_pubs g)
       end.

(* resource.Value(): (published messages, log entries, value, err) *)
Definition run_get (c : ctx) : list pubmsg * list lentry * val * option gerr :=
  match h_get (c_h c) with
  | None => ([], [], VNull, Some (GErr (Some err_not_found)))
  | Some sc =>
    let g0 := GSt false VNull None [] in
    let (g1, out) := run_gscript c g0 sc in
    let g2 :=
      match out with
      | None =>
        if g_replied g1 then g1
        else GSt true (g_value g1) (Some (GErr (Some (internal (missing_get_msg (c_rname c)))))) (g_pubs g1)
      | Some p => g_recover g1 p
      end in
    (g_pubs g2, [LInvoke (nested_obs c)], g_value g2, g_err g2)
  end.

(* ---------- the Request API, one action ---------- *)
Definition step (c : ctx) (s : rstate) (a : action) : rstate * option pval :=
  match a with
  | AReply k => do_replyk c s k
  | ATimeout ms =>
    if (ms <? 0)%Z then (s, Some (PVStr (s2b "res: negative timeout duration")))
    else (publish s (c_reply c) (PPre ms), None)
  | AEvent name v => let (ms, p) := event_out c name v in (publish_all s ms, p)
  | APanic p => (s, Some (panic_val p))
  | ASetStatus n =>
    if negb (q_ishttp (c_d c)) then (s, Some (PVStr (s2b "call to SetResponseStatus when IsHTTP is false")))
    else if replied s then (s, Some (PVStr (s2b "call to SetResponseStatus after reply")))
    else (St (replied s) n (rhdr s) (pubs s) (log s), None)
  | AHeader k v =>
    if negb (q_ishttp (c_d c)) then (s, Some (PVStr (s2b "call to ResponseHeader when IsHTTP is false")))
    else if replied s then (s, Some (PVStr (s2b "call to ResponseHeader after reply")))
    else (St (replied s) (status s) (hadd k v (rhdr s)) (pubs s) (log s), None)
  | ATokenEvent v =>
    if val_ok v then
      (publish s (token_subject (q_cid (c_d c))) (PEvt (Some (JObj [(s2b "token", to_jv v)]))), None)
    else (s, None)
  | AParse tk zero o =>
    (* no params/token: nothing is decoded; a decode error panics with a system.invalidParams
       (params) resp. system.internalError (token) error of the library's type *)
    if is_nil (if tk then q_token (c_d c) else q_params (c_d c)) then (add_log s (LParsed tk zero), None)
    else match o with
         | ParseOk v => (add_log s (LParsed tk v), None)
         | ParseFail m =>
           (s, Some (PVError (GErr (Some (if tk then internal m else RErr code_invalid_params m VNull)))))
         end
  | AValue require =>
    match run_get c with
    | (ms, ls, v, e) =>
      let s1 := St (replied s) (status s) (rhdr s) (pubs s ++ ms) (log s ++ ls) in
      if require then
        match e with
        | Some g => (s1, Some (PVError g))
        | None => (add_log s1 (LValue v None), None)
        end
      else (add_log s1 (LValue v e), None)
    end
  end.
Fixpoint run_script (c : ctx) (s : rstate) (sc : script) : rstate * option pval :=
  match sc with
  | [] => (s, None)
  | a :: r => match step c s a with
              | (s', None) => run_script c s' r
              | (s', Some p) => (s', Some p)
              end
  end.

(* ---------- executeHandler ---------- *)
Inductive outcome := Done | Crash.     (* Crash: a panic escapes executeHandler and kills the worker *)

Inductive selection :=
| SelSilent                                   (* no handling, no reply *)
| SelStatic (e : rerr)                        (* static error reply *)
| SelRun (h : hid) (sc : script).
Definition star_key : bytes := [star].
Definition select_method (mk : bytes -> hid) (tbl : list (bytes * script)) (me : bytes) : selection :=
  match lookup me tbl with
  | Some sc => SelRun (mk me) sc
  | None => match lookup star_key tbl with
            | Some sc => SelRun (mk star_key) sc
            | None => SelStatic err_method_not_found
            end
  end.
Definition select_handler (h : handlers) (rt me : bytes) : selection :=
  if beq rt t_access then
    match h_access h with None => SelSilent | Some sc => SelRun HAccess sc end
  else if beq rt t_get then
    match h_get h with None => SelStatic err_not_found | Some sc => SelRun HGet sc end
  else if beq rt t_call then
    match (if beq me (s2b "new") then h_new h else None) with
    | Some sc => SelRun HNew sc
    | None => select_method HCall (h_call h) me
    end
  else if beq rt t_auth then select_method HAuth (h_auth h) me
  else SelSilent.

Definition outer_obs (c : ctx) (h : hid) : obs :=
  let d := c_d c in
  Obs (h_pid (c_h c)) h false (c_rtype c) (c_method c) (c_rname c) (c_pparams c) (q_query d) (c_group c)
      (q_cid d) (q_token d) (q_params d) (q_header d) (q_host d) (q_raddr d) (q_uri d) (q_ishttp d).

(* the deferred recover switch of Request.executeHandler: every branch replies
   only if no reply was sent yet.  [v0] = the switch before the fix 2eb2ca1:
   its *Error branch evaluated e.Message when a reply was already sent - a nil
   dereference for a nil *Error inside the deferred function, which nothing
   recovers (the worker goroutine and with it the process dies). *)
Definition recover_gen (v0 : bool) (c : ctx) (s : rstate) (p : pval) : outcome * rstate :=
  if replied s then
    match p with
    | PVError (GErr None) => (if v0 then Crash else Done, s)
    | _ => (Done, s)
    end
  else
    match p with
    | PVError g => (Done, fst (reply_error c s (to_error g) (cur_meta s)))
    | PVStr m | PVOther m => (Done, fst (reply_error c s (Some (internal m)) (cur_meta s)))
    end.
Definition recover := recover_gen false.

(* after the handler returned / panicked *)
Definition finish (c : ctx) (r : rstate * option pval) : outcome * rstate :=
  match r with
  | (s, None) => if replied s then (Done, s) else (Done, fst (reply_error c s (Some err_missing_response) None))
  | (s, Some p) => recover c s p
  end.

Definition st0 : rstate := St false 0%Z [] [] [].
Definition execute_handler (c : ctx) : outcome * rstate :=
  match select_handler (c_h c) (c_rtype c) (c_method c) with
  | SelSilent => (Done, st0)
  | SelStatic e => (Done, fst (reply_error c st0 (Some e) None))
  | SelRun h sc => finish c (run_script c (add_log st0 (LInvoke (outer_obs c h))) sc)
  end.
(* executeHandler as it was before the fix, for the refutation witness *)
Definition execute_handler_v0 (c : ctx) : outcome * rstate :=
  match select_handler (c_h c) (c_rtype c) (c_method c) with
  | SelRun h sc =>
    match run_script c (add_log st0 (LInvoke (outer_obs c h))) sc with
    | (s, Some p) => recover_gen true c s p
    | r => finish c r
    end
  | _ => execute_handler c
  end.

(* ---------- processRequest / handleRequest ---------- *)
Definition bare_ctx (reply : bytes) : ctx := Ctx reply [] [] [] (H 0 None None None [] []) [] [] rd_zero.
Definition process_request (cfg : config) (m : msg) (rt rn me : bytes) : outcome * rstate :=
  match cfg rn with
  | None => (Done, fst (reply_error (bare_ctx (ms_reply m)) st0 (Some err_not_found) None))
  | Some mh =>
    match ms_data m with
    | InBad em => (Done, fst (reply_error (bare_ctx (ms_reply m)) st0 (Some (internal em)) None))
    | InEmpty => execute_handler (Ctx (ms_reply m) rt rn me (m_h mh) (m_params mh) (m_group mh) rd_zero)
    | InJson d => execute_handler (Ctx (ms_reply m) rt rn me (m_h mh) (m_params mh) (m_group mh) d)
    end
  end.
Definition handle_request (cfg : config) (m : msg) : outcome * rstate :=
  if is_nil (ms_reply m) then (Done, st0)
  else match split_subject (ms_subj m) with
       | None => (Done, st0)
       | Some (rt, rn, me) => process_request cfg m rt rn me
       end.

(* a worker processing requests one after the other; a crash ends everything *)
Fixpoint handle_requests (cfg : config) (ms : list msg) : outcome * list rstate :=
  match ms with
  | [] => (Done, [])
  | m :: r =>
    match handle_request cfg m with
    | (Crash, s) => (Crash, [s])
    | (Done, s) => let (o, ss) := handle_requests cfg r in (o, s :: ss)
    end
  end.
