(* Executable model of the event methods of resource.go (Event, ChangeEvent,
   AddEvent, RemoveEvent, CreateEvent, DeleteEvent, ReaccessEvent, ResetEvent),
   of Service.event / rawEvent (service.go), of Request.Timeout / OK(nil) /
   reply and the recover of Request.executeHandler (request.go), as far as the
   effects "apply handler called / message published / listener called" go.

   A Go value (interface{}) is [VNil] (nil), [VJson j] (json.Marshal gives the
   text j) or [VBad n] (json.Marshal fails).  A map[string]interface{} is a
   list of (key, value) sorted by key (encoding/json sorts map keys; keys are
   plain: no character that JSON escapes).  A Go panic is an explicit outcome.
   One event call yields the effects in the order they happen on the calling
   goroutine, and the panic (if any) that unwinds out of the call. *)
From GoRes Require Export Base.Bytes Pattern.Model.
From Coq Require Export ZArith.
From Coq Require Import String.
Open Scope N_scope.

Inductive rtype := TUnset | TModel | TCollection.          (* Handler.Type *)
Inductive kind := KChange | KAdd | KRemove | KCreate | KDelete | KCustom.
Inductive value := VNil | VJson (j : bytes) | VBad (n : N).
Definition vmap := list (bytes * value).
(* error returned by an apply handler: a *res.Error, any other error (msg = Error()), or a
   typed-nil *res.Error returned as a (non-nil) error interface.  Whatever the value, the apply
   handler FAILED: the event methods only test err != nil *)
Inductive err := ERes (code msg : bytes) | EPlain (msg : bytes) | ENilRes.
(* behaviour of the apply handler at one call *)
Inductive apply (R : Type) := Absent | Ok (r : R) | Fails (e : err).
Arguments Absent {R}.
Arguments Ok {R} r.
Arguments Fails {R} e.
(* what an apply handler returned, as recorded in the effect log *)
Inductive aret := RFail (e : err) | RChange (rev : option vmap) | RUnit | RVal (v : value).

(* res.Event as handed to a listener (Resource = its ResourceName) ; also used
   for the arguments an apply handler receives *)
Record evrec := Ev {
  ev_name : bytes; ev_rid : bytes;
  ev_new : option vmap; ev_old : option vmap;
  ev_value : value; ev_idx : Z; ev_data : value; ev_payload : value }.

Inductive panic :=
| PWrongType (k : kind)      (* change on a collection, add/remove on a model *)
| PNegIdx (k : kind)
| PReserved (name : bytes)
| PBadName
| PApply (e : err)           (* panic(err) with the error of the apply handler *)
| PReplied                   (* second reply *)
| PNegTimeout.

Inductive effect :=
| EApply (k : kind) (args : evrec) (ret : aret)
| EPublish (subj pay : bytes)
| EListen (lid : N) (ev : evrec).
Definition outcome := (list effect * option panic)%type.

(* ---- constants ---- *)
Definition n_change : bytes := Eval compute in s2b "change".
Definition n_add : bytes := Eval compute in s2b "add".
Definition n_remove : bytes := Eval compute in s2b "remove".
Definition n_create : bytes := Eval compute in s2b "create".
Definition n_delete : bytes := Eval compute in s2b "delete".
Definition n_reaccess : bytes := Eval compute in s2b "reaccess".
Definition n_patch : bytes := Eval compute in s2b "patch".
Definition n_unsubscribe : bytes := Eval compute in s2b "unsubscribe".
Definition n_query : bytes := Eval compute in s2b "query".

(* the switch at the head of resource.Event: panic text per reserved name *)
Definition reserved_msg (name : bytes) : option bytes :=
  if beq name n_change then Some (s2b "res: use ChangeEvent to send change events")
  else if beq name n_create then Some (s2b "res: use CreateEvent to send create events")
  else if beq name n_delete then Some (s2b "res: ""delete"" is a reserved event name")
  else if beq name n_add then Some (s2b "res: use AddEvent to send add events")
  else if beq name n_remove then Some (s2b "res: use RemoveEvent to send remove events")
  else if beq name n_patch then Some (s2b "res: ""patch"" is a reserved event name")
  else if beq name n_reaccess then Some (s2b "res: use ReaccessEvent to send a reaccess event")
  else if beq name n_unsubscribe then Some (s2b "res: ""unsubscribe"" is a reserved event name")
  else if beq name n_query then Some (s2b "res: ""query"" is a reserved event name")
  else None.

(* ---- decimal printing (strconv.Itoa / FormatInt) ---- *)
Fixpoint dec_go (fuel : nat) (n : N) (acc : bytes) : bytes :=
  match fuel with
  | O => acc
  | S f => let d := 48 + n mod 10 in
           let q := n / 10 in
           if q =? 0 then d :: acc else dec_go f q (d :: acc)
  end.
Definition dec_N (n : N) : bytes := dec_go (S (N.size_nat n)) n [].
Definition dec_Z (z : Z) : bytes :=
  match z with Zneg p => 45 :: dec_N (Npos p) | _ => dec_N (Z.to_N z) end.

(* ---- payloads (json.Marshal of changeEvent / addEvent / removeEvent) ---- *)
Definition enc_value (v : value) : option bytes :=
  match v with VNil => Some (s2b "null") | VJson j => Some j | VBad _ => None end.
Fixpoint enc_fields (m : vmap) : option bytes :=
  match m with
  | [] => Some []
  | (k, v) :: r =>
    match enc_value v, enc_fields r with
    | Some j, Some t => Some (34 :: k ++ 34 :: 58 :: j ++ match r with [] => [] | _ => 44 :: t end)
    | _, _ => None
    end
  end.
Definition enc_map (m : vmap) : option bytes :=
  match enc_fields m with Some t => Some (123 :: t ++ [125]) | None => None end.
Definition change_payload (changed : vmap) : option bytes :=
  match enc_map changed with Some t => Some (s2b "{""values"":" ++ t ++ [125]) | None => None end.
Definition add_payload (v : value) (idx : Z) : option bytes :=
  match enc_value v with
  | Some j => Some (s2b "{""value"":" ++ j ++ s2b ",""idx"":" ++ dec_Z idx ++ [125])
  | None => None
  end.
Definition remove_payload (idx : Z) : option bytes := Some (s2b "{""idx"":" ++ dec_Z idx ++ [125]).
(* Service.event: nil data is sent raw with an empty payload *)
Definition custom_payload (v : value) : option bytes :=
  match v with VNil => Some [] | VJson j => Some j | VBad _ => None end.
Definition reset_payload (rid : bytes) : bytes := s2b "{""resources"":[""" ++ rid ++ s2b """]}".
(* strconv.FormatInt(int64(d/time.Millisecond), 10) for a duration of us microseconds *)
Definition timeout_payload (us : Z) : bytes := s2b "timeout:""" ++ dec_Z (Z.quot us 1000) ++ [34].
Definition ok_payload : bytes := s2b "{""result"":null}".
Definition missing_payload : bytes :=
  s2b "{""error"":{""code"":""system.internalError"",""message"":""Internal error: missing response""}}".

Definition subject (rid name : bytes) : bytes := s2b "event." ++ rid ++ dot :: name.
Definition reset_subject : bytes := s2b "system.reset".

(* Service.event: a marshal error is logged, nothing is published *)
Definition publish (subj : bytes) (pay : option bytes) : list effect :=
  match pay with Some p => [EPublish subj p] | None => [] end.
(* for _, cb := range r.listeners { cb(ev) } with listeners that only look at the event *)
Definition notify (ls : list N) (ev : evrec) : list effect := map (fun l => EListen l ev) ls.
Definition nf_plain (ls : list N) (ev : evrec) : outcome := (notify ls ev, None).
(* effects so far, then what follows (whose panic, if any, unwinds the whole call) *)
Definition finish (pre : list effect) (n : outcome) : outcome := (pre ++ fst n, snd n).

(* ---- the event methods; [nf ev] is the listener loop handed the event record ---- *)
Section Methods.
Variable nf : evrec -> outcome.

Definition change_event (ty : rtype) (rid : bytes) (changed : vmap)
    (ap : apply (option vmap)) : outcome :=
  match ty with
  | TCollection => ([], Some (PWrongType KChange))
  | _ =>
    match changed with
    | [] => ([], None)                                    (* len(changed) == 0: return *)
    | _ =>
      let args := Ev n_change rid (Some changed) None VNil 0 VNil VNil in
      let send rev := finish (publish (subject rid n_change) (change_payload changed))
                             (nf (Ev n_change rid (Some changed) rev VNil 0 VNil VNil)) in
      match ap with
      | Absent => send None
      | Fails e => ([EApply KChange args (RFail e)], Some (PApply e))
      | Ok rev =>
        match rev with
        | Some [] => ([EApply KChange args (RChange rev)], None)   (* rev != nil && len(rev) == 0 *)
        | _ => finish [EApply KChange args (RChange rev)] (send rev)
        end
      end
    end
  end.

Definition add_event (ty : rtype) (rid : bytes) (v : value) (idx : Z) (ap : apply unit) : outcome :=
  match ty with
  | TModel => ([], Some (PWrongType KAdd))
  | _ =>
    if (idx <? 0)%Z then ([], Some (PNegIdx KAdd)) else
    let args := Ev n_add rid None None v idx VNil VNil in
    let send := finish (publish (subject rid n_add) (add_payload v idx)) (nf args) in
    match ap with
    | Absent => send
    | Fails e => ([EApply KAdd args (RFail e)], Some (PApply e))
    | Ok _ => finish [EApply KAdd args RUnit] send
    end
  end.

Definition remove_event (ty : rtype) (rid : bytes) (idx : Z) (ap : apply value) : outcome :=
  match ty with
  | TModel => ([], Some (PWrongType KRemove))
  | _ =>
    if (idx <? 0)%Z then ([], Some (PNegIdx KRemove)) else
    let args := Ev n_remove rid None None VNil idx VNil VNil in
    let send v := finish (publish (subject rid n_remove) (remove_payload idx))
                         (nf (Ev n_remove rid None None v idx VNil VNil)) in
    match ap with
    | Absent => send VNil
    | Fails e => ([EApply KRemove args (RFail e)], Some (PApply e))
    | Ok v => finish [EApply KRemove args (RVal v)] (send v)
    end
  end.

Definition create_event (rid : bytes) (data : value) (ap : apply unit) : outcome :=
  let args := Ev n_create rid None None VNil 0 data VNil in
  let send := finish (publish (subject rid n_create) (Some [])) (nf args) in
  match ap with
  | Absent => send
  | Fails e => ([EApply KCreate args (RFail e)], Some (PApply e))
  | Ok _ => finish [EApply KCreate args RUnit] send
  end.

Definition delete_event (rid : bytes) (ap : apply value) : outcome :=
  let args := Ev n_delete rid None None VNil 0 VNil VNil in
  let send d := finish (publish (subject rid n_delete) (Some []))
                       (nf (Ev n_delete rid None None VNil 0 d VNil)) in
  match ap with
  | Absent => send VNil
  | Fails e => ([EApply KDelete args (RFail e)], Some (PApply e))
  | Ok d => finish [EApply KDelete args (RVal d)] (send d)
  end.

Definition custom_event (rid : bytes) (name : bytes) (payload : value) : outcome :=
  match reserved_msg name with
  | Some _ => ([], Some (PReserved name))
  | None =>
    if negb (is_valid_part name) then ([], Some PBadName) else
    finish (publish (subject rid name) (custom_payload payload))
           (nf (Ev name rid None None VNil 0 VNil payload))
  end.
End Methods.

(* ---- callbacks: scripts of actions ---- *)
Inductive action :=
| AChange (changed : vmap) (ap : apply (option vmap))
| AAdd (v : value) (idx : Z) (ap : apply unit)
| ARemove (idx : Z) (ap : apply value)
| ACreate (data : value) (ap : apply unit)
| ADelete (ap : apply value)
| ACustom (name : bytes) (payload : value)
| AReaccess
| AReset
| ATimeout (us : Z)          (* Request.Timeout(us * time.Microsecond) *)
| AReply.                    (* Request.OK(nil) *)

(* a call request handler (with the reply subject of the request) or a
   Service.With callback (a Resource has neither Timeout nor OK) *)
Inductive ctx := CtxCall (reply : bytes) | CtxWith.

Definition event_call_g (nf : evrec -> outcome) (ty : rtype) (rid : bytes) (a : action) : outcome :=
  match a with
  | AChange c ap => change_event nf ty rid c ap
  | AAdd v i ap => add_event nf ty rid v i ap
  | ARemove i ap => remove_event nf ty rid i ap
  | ACreate d ap => create_event nf rid d ap
  | ADelete ap => delete_event nf rid ap
  | ACustom n v => custom_event nf rid n v
  | AReaccess => ([EPublish (subject rid n_reaccess) []], None)
  | AReset => ([EPublish reset_subject (reset_payload rid)], None)
  | ATimeout _ | AReply => ([], None)
  end.
(* listeners that only look at the event *)
Definition event_call (ty : rtype) (rid : bytes) (ls : list N) (a : action) : outcome :=
  event_call_g (nf_plain ls) ty rid a.

(* ---- re-entrant listeners: a listener may react to an event by emitting another event on
   ev.Resource (the same resource object) from inside the listener call.  The inner event's
   effects happen where the Go code produces them: inside the outer listener loop, before the
   remaining outer listeners run; a panic of the inner call unwinds the outer call too.  One
   level: a listener does not react to an event emitted by a reaction. ---- *)
Record lst := L { l_id : N; l_react : option action }.
Fixpoint notify_r (inner : action -> outcome) (ls : list lst) (ev : evrec) : outcome :=
  match ls with
  | [] => ([], None)
  | l :: r =>
    match l_react l with
    | None => finish [EListen (l_id l) ev] (notify_r inner r ev)
    | Some a' =>
      let i := inner a' in
      match snd i with
      | Some q => (EListen (l_id l) ev :: fst i, Some q)
      | None => finish (EListen (l_id l) ev :: fst i) (notify_r inner r ev)
      end
    end
  end.
Definition event_call_r (ty : rtype) (rid : bytes) (ls : list lst) (a : action) : outcome :=
  event_call_g (notify_r (event_call ty rid (map l_id ls)) ls) ty rid a.

(* one action given the request's replied flag; returns the new flag *)
Definition exec_action (cx : ctx) (ty : rtype) (rid : bytes) (ls : list lst) (replied : bool)
    (a : action) : outcome * bool :=
  match a, cx with
  | ATimeout us, CtxCall reply =>
    if (us <? 0)%Z then (([], Some PNegTimeout), replied)
    else (([EPublish reply (timeout_payload us)], None), replied)
  | AReply, CtxCall reply =>
    if replied then (([], Some PReplied), true)
    else (([EPublish reply ok_payload], None), true)
  | ATimeout _, CtxWith => (([], None), replied)
  | AReply, CtxWith => (([], None), replied)
  | _, _ => (event_call_r ty rid ls a, replied)
  end.

(* the handler body: actions in program order until the first panic *)
Fixpoint run_script (cx : ctx) (ty : rtype) (rid : bytes) (ls : list lst) (replied : bool)
    (s : list action) : list effect * bool * option panic :=
  match s with
  | [] => ([], replied, None)
  | a :: s' =>
    let '((e, p), r') := exec_action cx ty rid ls replied a in
    match p with
    | Some _ => (e, r', p)
    | None => let '(e', r'', p') := run_script cx ty rid ls r' s' in (e ++ e', r'', p')
    end
  end.

(* ---- executeHandler: recover + missing-response fallback ---- *)
Definition panic_text (p : panic) : bytes :=
  match p with
  | PWrongType KChange => s2b "res: change event not allowed on Collections"
  | PWrongType KAdd => s2b "res: add event not allowed on models"
  | PWrongType KRemove => s2b "res: remove event not allowed on models"
  | PWrongType _ => []
  | PNegIdx KAdd => s2b "res: add event idx less than zero"
  | PNegIdx KRemove => s2b "res: remove event idx less than zero"
  | PNegIdx _ => []
  | PReserved name => match reserved_msg name with Some m => m | None => [] end
  | PBadName => s2b "res: invalid event name"
  | PApply (ERes _ m) => m
  | PApply (EPlain m) => m
  | PApply ENilRes => []
  | PReplied => s2b "res: response already sent on request"
  | PNegTimeout => s2b "res: negative timeout duration"
  end.
(* the recovered panic value as the With callback's own recover sees it:
   (code of a *res.Error or [], text) *)
Definition panic_obs (p : panic) : bytes * bytes :=
  match p with
  | PApply (ERes c m) => (c, m)
  | PApply ENilRes => (s2b "<nil *Error>", [])
  | _ => ([], panic_text p)
  end.
(* *Error verbatim, everything else through ToError / InternalError *)
Definition err_code_msg (p : panic) : bytes * bytes :=
  match p with
  | PApply (ERes c m) => (c, m)
  | PApply ENilRes => (s2b "system.internalError", s2b "Internal error")   (* Request.error: nil *Error *)
  | _ => (s2b "system.internalError", s2b "Internal error: " ++ panic_text p)
  end.
(* JSON string escaping of the two characters that occur in the texts above *)
Definition json_esc (s : bytes) : bytes :=
  flat_map (fun c => if c =? 34 then [92; 34] else if c =? 92 then [92; 92] else [c]) s.
Definition error_payload (p : panic) : bytes :=
  let (c, m) := err_code_msg p in
  s2b "{""error"":{""code"":""" ++ json_esc c ++ s2b """,""message"":""" ++ json_esc m ++ s2b """}}".

Definition closing (cx : ctx) (replied : bool) (p : option panic) : list effect :=
  match cx with
  | CtxWith => []
  | CtxCall reply =>
    if replied then []
    else [EPublish reply (match p with Some q => error_payload q | None => missing_payload end)]
  end.

Definition run_callback (cx : ctx) (ty : rtype) (rid : bytes) (ls : list lst) (s : list action)
    : list effect * option panic :=
  let '(e, r, p) := run_script cx ty rid ls false s in (e ++ closing cx r p, p).

(* ---- a group: callbacks executed one after the other on the group's worker ---- *)
Record callback := CB {
  cb_ctx : ctx; cb_ty : rtype; cb_rid : bytes; cb_ls : list lst; cb_script : list action }.
Definition run_cb (cb : callback) : list effect * option panic :=
  run_callback (cb_ctx cb) (cb_ty cb) (cb_rid cb) (cb_ls cb) (cb_script cb).
(* the worker appends each callback's effects to the log, in queue order *)
Definition run_group (cbs : list callback) : list effect :=
  fold_left (fun log cb => log ++ fst (run_cb cb)) cbs [].

(* the messages on the connection *)
Fixpoint pubs (l : list effect) : list (bytes * bytes) :=
  match l with
  | [] => []
  | EPublish s p :: r => (s, p) :: pubs r
  | _ :: r => pubs r
  end.
