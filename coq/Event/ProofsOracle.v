(* Proofs for C08, part 3: the decidable form of the property used by
   Run_C08.violations (Event/Spec.v viol_event) accepts every log of the model. *)
From GoRes Require Import Event.Spec Event.Proofs.
Open Scope N_scope.

Lemma beq_refl : forall b, beq b b = true.
Proof. induction b as [|x b IH]; [reflexivity|]. cbn [beq]. rewrite N.eqb_refl, IH. reflexivity. Qed.
Lemma value_eqb_refl : forall v, value_eqb v v = true.
Proof. destruct v; cbn; [reflexivity|apply beq_refl|apply N.eqb_refl]. Qed.
Lemma vmap_eqb_refl : forall m, vmap_eqb m m = true.
Proof.
  induction m as [|[k v] m IH]; [reflexivity|]. cbn [vmap_eqb].
  rewrite beq_refl, value_eqb_refl, IH. reflexivity.
Qed.
Lemma ovmap_eqb_refl : forall m, ovmap_eqb m m = true.
Proof. destruct m; [apply vmap_eqb_refl|reflexivity]. Qed.
Lemma evrec_eqb_refl : forall e, evrec_eqb e e = true.
Proof.
  intros e. unfold evrec_eqb.
  rewrite !beq_refl, !ovmap_eqb_refl, !value_eqb_refl, Z.eqb_refl. reflexivity.
Qed.
Lemma kind_eqb_refl : forall k, kind_eqb k k = true.
Proof. destruct k; reflexivity. Qed.
Lemma list_eqb_N_refl : forall l, list_eqb N.eqb l l = true.
Proof. induction l as [|x l IH]; [reflexivity|]. cbn [list_eqb]. rewrite N.eqb_refl, IH. reflexivity. Qed.

(* ---- facts about the listener block ---- *)
Section Notify.
  Variables (ls : list N) (ev : evrec).
  Lemma notify_no_pub : existsb is_pub (notify ls ev) = false.
  Proof. unfold notify. induction ls as [|l r IH]; [reflexivity|exact IH]. Qed.
  Lemma notify_no_apply : existsb is_apply (notify ls ev) = false.
  Proof. unfold notify. induction ls as [|l r IH]; [reflexivity|exact IH]. Qed.
  Lemma notify_lids : lids (notify ls ev) = ls.
  Proof. unfold notify. induction ls as [|l r IH]; [reflexivity|]. cbn [map lids]. rewrite IH. reflexivity. Qed.
  Lemma notify_sorted : forall k, k <= 2 -> ranks_sorted k (notify ls ev) = true.
  Proof.
    unfold notify. induction ls as [|l r IH]; intros k Hk; [reflexivity|].
    cbn [map ranks_sorted rank]. rewrite (proj2 (N.leb_le k 2) Hk). apply IH. apply N.le_refl.
  Qed.
  Lemma notify_count_apply : count is_apply (notify ls ev) = O.
  Proof. unfold count, notify. induction ls as [|l r IH]; [reflexivity|exact IH]. Qed.
  Lemma notify_count_pub : count is_pub (notify ls ev) = O.
  Proof. unfold count, notify. induction ls as [|l r IH]; [reflexivity|exact IH]. Qed.
  Lemma notify_log_ret : log_ret (notify ls ev) = None.
  Proof. unfold notify. induction ls as [|l r IH]; [reflexivity|exact IH]. Qed.
  Lemma notify_forallb : forall (f : effect -> bool),
    (forall l, f (EListen l ev) = true) -> forallb f (notify ls ev) = true.
  Proof.
    intros f H. unfold notify. induction ls as [|l r IH]; [reflexivity|].
    cbn [map forallb]. rewrite H, IH. reflexivity.
  Qed.
End Notify.

Lemma not_failed : forall a r, apply_fails a = None -> ret_of a = Some r -> ret_failed (Some r) = false.
Proof.
  intros a r F R. destruct a; cbn in *; try discriminate R;
    destruct ap as [|x|e]; cbn in *; try discriminate F; inversion R; reflexivity.
Qed.
Lemma not_nothing : forall a r, nothing_changed a = false -> ret_of a = Some r -> ret_nothing (Some r) = false.
Proof.
  intros a r NC R. destruct a; cbn in *; try discriminate R;
    destruct ap as [|x|e]; cbn in *; try discriminate R; inversion R; subst; try reflexivity.
  destruct x as [[|]|]; try reflexivity. discriminate NC.
Qed.
Lemma unmarshalable_if_no_payload : forall a, is_event a = true -> payload_of a = None -> marshalable a = false.
Proof.
  intros a E P. destruct (marshalable a) eqn:M; [|reflexivity].
  destruct (payload_some _ E M) as [pay HP]. congruence.
Qed.

Theorem oracle_accepts_model_pf : forall ty rid ls a,
  is_event a = true -> viol_event ty rid ls a (fst (event_call ty rid ls a)) = [].
Proof.
  intros ty rid ls a E. rewrite (event_call_spec_pf _ _ _ _ E). unfold spec_call.
  pose proof (ret_of_has_apply _ E) as HA.
  destruct (invalid_call ty a) as [q|] eqn:I.
  { unfold viol_event. rewrite I. cbn. destruct (marshalable a); reflexivity. }
  destruct (empty_change a) eqn:EC.
  { unfold viol_event. rewrite I, EC. cbn. destruct (marshalable a); reflexivity. }
  destruct (apply_fails a) as [e|] eqn:F.
  { rewrite (ret_of_fails _ _ F). unfold viol_event. rewrite I, EC. cbn.
    rewrite kind_eqb_refl, evrec_eqb_refl. cbn. destruct (marshalable a); reflexivity. }
  destruct (nothing_changed a) eqn:NC.
  { destruct (nothing_changed_ret _ NC) as [_ [r Hr]]. rewrite Hr.
    assert (RN : ret_nothing (Some r) = true).
    { destruct a; cbn in NC; try discriminate NC. destruct ap as [|[[|]|]|]; try discriminate NC.
      cbn in Hr. inversion Hr. reflexivity. }
    unfold viol_event. rewrite I, EC. cbn [fst log_ret existsb is_pub is_listen orb andb].
    rewrite RN. cbn. rewrite kind_eqb_refl, evrec_eqb_refl. cbn.
    destruct r; destruct (marshalable a); reflexivity. }
  cbn [fst]. unfold expected_record.
  destruct (ret_of a) as [r|] eqn:R; destruct (payload_of a) as [pay|] eqn:P;
    unfold viol_event; rewrite I, EC; cbn [publish app log_ret isSomeP orb negb andb].
  - (* apply ; publish ; listeners *)
    rewrite (not_failed _ _ F R), (not_nothing _ _ NC R).
    cbn [existsb is_pub is_listen is_apply orb andb negb ranks_sorted rank count filter length forallb lids].
    rewrite notify_sorted by (apply N.leb_le; reflexivity).
    fold (count is_apply (notify ls (record_from rid a (Some r)))).
    fold (count is_pub (notify ls (record_from rid a (Some r)))).
    rewrite notify_count_apply, notify_count_pub, notify_lids, list_eqb_N_refl.
    rewrite kind_eqb_refl, evrec_eqb_refl.
    rewrite notify_forallb by (intros l; apply evrec_eqb_refl).
    cbn. destruct (marshalable a); destruct (has_apply a); reflexivity.
  - (* apply ; listeners (value not serialisable) *)
    rewrite (not_failed _ _ F R), (not_nothing _ _ NC R).
    rewrite (unmarshalable_if_no_payload _ E P).
    cbn [existsb is_pub is_listen is_apply orb andb negb ranks_sorted rank count filter length forallb lids].
    rewrite notify_no_pub, notify_sorted by (apply N.leb_le; reflexivity).
    fold (count is_apply (notify ls (record_from rid a (Some r)))).
    fold (count is_pub (notify ls (record_from rid a (Some r)))).
    rewrite notify_count_apply, notify_count_pub.
    rewrite kind_eqb_refl, evrec_eqb_refl.
    rewrite notify_forallb by (intros l; apply evrec_eqb_refl).
    cbn. destruct (existsb is_listen (notify ls (record_from rid a (Some r)))); destruct (has_apply a); reflexivity.
  - (* publish ; listeners (no handler) *)
    cbn [isSomeP] in HA. rewrite <- HA.
    cbn [existsb is_pub is_listen is_apply orb andb negb ranks_sorted rank count filter length forallb lids ret_failed ret_nothing].
    rewrite notify_log_ret.
    rewrite notify_sorted by (apply N.leb_le; reflexivity).
    fold (count is_apply (notify ls (record_from rid a None))).
    fold (count is_pub (notify ls (record_from rid a None))).
    rewrite notify_count_apply, notify_count_pub, notify_lids, list_eqb_N_refl.
    rewrite notify_forallb by (intros l; apply evrec_eqb_refl).
    cbn. destruct (marshalable a); destruct (has_apply a); reflexivity.
  - (* listeners only *)
    cbn [isSomeP] in HA. rewrite <- HA.
    rewrite (unmarshalable_if_no_payload _ E P).
    rewrite notify_log_ret, notify_no_pub.
    cbn [ret_failed ret_nothing orb andb negb].
    rewrite notify_sorted by (apply N.leb_le; reflexivity).
    rewrite notify_count_apply, notify_count_pub.
    rewrite notify_forallb by (intros l; apply evrec_eqb_refl).
    cbn. destruct (existsb is_listen (notify ls (record_from rid a None))); reflexivity.
Qed.

(* ================= completeness: an accepted log has the property's shape ================= *)
Lemma beq_eq : forall a b, beq a b = true -> a = b.
Proof.
  induction a as [|x a IH]; destruct b as [|y b]; cbn [beq]; intros H; try discriminate H; [reflexivity|].
  apply andb_prop in H. destruct H as [H1 H2]. apply N.eqb_eq in H1. subst. f_equal. apply IH. exact H2.
Qed.
Lemma value_eqb_eq : forall a b, value_eqb a b = true -> a = b.
Proof.
  destruct a, b; cbn; intros H; try discriminate H; [reflexivity| |].
  - apply beq_eq in H. subst. reflexivity.
  - apply N.eqb_eq in H. subst. reflexivity.
Qed.
Lemma vmap_eqb_eq : forall a b, vmap_eqb a b = true -> a = b.
Proof.
  induction a as [|[k v] a IH]; destruct b as [|[k' v'] b]; cbn [vmap_eqb]; intros H; try discriminate H; [reflexivity|].
  apply andb_prop in H. destruct H as [H H3]. apply andb_prop in H. destruct H as [H1 H2].
  apply beq_eq in H1. apply value_eqb_eq in H2. subst. f_equal. apply IH. exact H3.
Qed.
Lemma ovmap_eqb_eq : forall a b, ovmap_eqb a b = true -> a = b.
Proof.
  destruct a, b; cbn; intros H; try discriminate H; [|reflexivity]. apply vmap_eqb_eq in H. subst. reflexivity.
Qed.
Lemma evrec_eqb_eq : forall a b, evrec_eqb a b = true -> a = b.
Proof.
  intros [n1 r1 nw1 o1 v1 i1 d1 p1] [n2 r2 nw2 o2 v2 i2 d2 p2]. unfold evrec_eqb.
  cbn [ev_name ev_rid ev_new ev_old ev_value ev_idx ev_data ev_payload]. intros H.
  repeat match goal with
         | H : (_ && _)%bool = true |- _ => apply andb_prop in H; destruct H
         end.
  repeat match goal with
         | H : beq _ _ = true |- _ => apply beq_eq in H
         | H : ovmap_eqb _ _ = true |- _ => apply ovmap_eqb_eq in H
         | H : value_eqb _ _ = true |- _ => apply value_eqb_eq in H
         | H : (_ =? _)%Z = true |- _ => apply Z.eqb_eq in H
         end.
  subst. reflexivity.
Qed.
Lemma kind_eqb_eq : forall a b, kind_eqb a b = true -> a = b.
Proof. destruct a, b; cbn; intros H; try discriminate H; reflexivity. Qed.
Lemma list_eqb_N_eq : forall a b, list_eqb N.eqb a b = true -> a = b.
Proof.
  induction a as [|x a IH]; destruct b as [|y b]; cbn [list_eqb]; intros H; try discriminate H; [reflexivity|].
  apply andb_prop in H. destruct H as [H1 H2]. apply N.eqb_eq in H1. subst. f_equal. apply IH. exact H2.
Qed.

(* ---- a rank-sorted log is applies ++ publishes ++ listeners ---- *)
Lemma sorted2 : forall l, ranks_sorted 2 l = true -> forallb is_listen l = true.
Proof.
  induction l as [|e l IH]; intros H; [reflexivity|]. cbn [ranks_sorted] in H.
  apply andb_prop in H. destruct H as [H1 H2]. destruct e; cbn in H1; try discriminate H1.
  cbn [forallb is_listen]. apply IH. exact H2.
Qed.
Lemma sorted1 : forall l, ranks_sorted 1 l = true ->
  exists lp ll, l = lp ++ ll /\ forallb is_pub lp = true /\ forallb is_listen ll = true.
Proof.
  induction l as [|e l IH]; intros H.
  - exists [], []. repeat split.
  - cbn [ranks_sorted] in H. apply andb_prop in H. destruct H as [H1 H2]. destruct e; cbn in H1; try discriminate H1.
    + destruct (IH H2) as [lp [ll [-> [A B]]]]. exists (EPublish subj pay :: lp), ll. repeat split; assumption.
    + exists [], (EListen lid ev :: l). split; [reflexivity|]. split; [reflexivity|].
      cbn [forallb is_listen]. apply sorted2. exact H2.
Qed.
Lemma sorted0 : forall l, ranks_sorted 0 l = true ->
  exists la lp ll, l = la ++ lp ++ ll /\
    forallb is_apply la = true /\ forallb is_pub lp = true /\ forallb is_listen ll = true.
Proof.
  induction l as [|e l IH]; intros H.
  - exists [], [], []. repeat split.
  - cbn [ranks_sorted] in H. apply andb_prop in H. destruct H as [_ H2]. destruct e; cbn [rank] in H2.
    + destruct (IH H2) as [la [lp [ll [-> [A [B C]]]]]]. exists (EApply k args ret :: la), lp, ll.
      repeat split; assumption.
    + destruct (sorted1 _ H2) as [lp [ll [-> [B C]]]]. exists [], (EPublish subj pay :: lp), ll.
      repeat split; assumption.
    + exists [], [], (EListen lid ev :: l). repeat split. cbn [forallb is_listen]. apply sorted2. exact H2.
Qed.

Lemma count_app : forall f a b, count f (a ++ b) = (count f a + count f b)%nat.
Proof. intros f a b. unfold count. rewrite filter_app, app_length. reflexivity. Qed.
Lemma count_all : forall f l, forallb f l = true -> count f l = length l.
Proof.
  intros f. induction l as [|e l IH]; intros H; [reflexivity|]. cbn [forallb] in H.
  apply andb_prop in H. destruct H as [H1 H2]. unfold count in *. cbn [filter]. rewrite H1. cbn [length].
  rewrite (IH H2). reflexivity.
Qed.
Lemma existsb_none : forall (f g : effect -> bool) l,
  forallb g l = true -> (forall e, g e = true -> f e = false) -> existsb f l = false.
Proof.
  intros f g. induction l as [|e l IH]; intros H D; [reflexivity|]. cbn [forallb] in H.
  apply andb_prop in H. destruct H as [H1 H2]. cbn [existsb]. rewrite (D _ H1). apply IH; assumption.
Qed.
Lemma count_none : forall (f g : effect -> bool) l,
  forallb g l = true -> (forall e, g e = true -> f e = false) -> count f l = O.
Proof.
  intros f g. induction l as [|e l IH]; intros H D; [reflexivity|]. cbn [forallb] in H.
  apply andb_prop in H. destruct H as [H1 H2]. unfold count in *. cbn [filter]. rewrite (D _ H1).
  apply IH; assumption.
Qed.
Lemma pub_not_apply : forall e, is_pub e = true -> is_apply e = false.
Proof. destruct e; cbn; intros H; try discriminate H; reflexivity. Qed.
Lemma listen_not_apply : forall e, is_listen e = true -> is_apply e = false.
Proof. destruct e; cbn; intros H; try discriminate H; reflexivity. Qed.
Lemma apply_not_pub : forall e, is_apply e = true -> is_pub e = false.
Proof. destruct e; cbn; intros H; try discriminate H; reflexivity. Qed.
Lemma listen_not_pub : forall e, is_listen e = true -> is_pub e = false.
Proof. destruct e; cbn; intros H; try discriminate H; reflexivity. Qed.
Lemma apply_not_listen : forall e, is_apply e = true -> is_listen e = false.
Proof. destruct e; cbn; intros H; try discriminate H; reflexivity. Qed.
Lemma pub_not_listen : forall e, is_pub e = true -> is_listen e = false.
Proof. destruct e; cbn; intros H; try discriminate H; reflexivity. Qed.

Lemma lids_app : forall a b, lids (a ++ b) = lids a ++ lids b.
Proof. induction a as [|e a IH]; intros b; [reflexivity|]. destruct e; cbn [app lids]; rewrite IH; reflexivity. Qed.
Lemma lids_none : forall l, existsb is_listen l = false -> lids l = [].
Proof.
  induction l as [|e l IH]; intros H; [reflexivity|]. cbn [existsb] in H. apply Bool.orb_false_iff in H.
  destruct H as [H1 H2]. destruct e; cbn in H1; try discriminate H1; cbn [lids]; apply IH; exact H2.
Qed.
Lemma log_ret_none : forall l, existsb is_apply l = false -> log_ret l = None.
Proof.
  induction l as [|e l IH]; intros H; [reflexivity|]. cbn [existsb] in H. apply Bool.orb_false_iff in H.
  destruct H as [H1 H2]. destruct e; cbn in H1; try discriminate H1; cbn [log_ret]; apply IH; exact H2.
Qed.
Lemma listens_are_notify : forall ev (f : effect -> bool) ll,
  (forall i ev', f (EListen i ev') = evrec_eqb ev' ev) ->
  forallb is_listen ll = true -> forallb f ll = true ->
  ll = notify (lids ll) ev.
Proof.
  intros ev f ll F. induction ll as [|e ll IH]; intros L C; [reflexivity|]. cbn [forallb] in L, C.
  apply andb_prop in L. destruct L as [L1 L2]. apply andb_prop in C. destruct C as [C1 C2].
  destruct e; cbn in L1; try discriminate L1. rewrite F in C1. apply evrec_eqb_eq in C1. subst.
  cbn [lids notify map]. f_equal. apply IH; assumption.
Qed.
Lemma length_le1 : forall A (l : list A), (length l <=? 1)%nat = true -> l = [] \/ exists x, l = [x].
Proof.
  intros A [|x [|y l]] H; [left; reflexivity|right; exists x; reflexivity|discriminate H].
Qed.
Lemma forallb_app_l : forall A (f : A -> bool) a b, forallb f (a ++ b) = true -> forallb f a = true /\ forallb f b = true.
Proof. intros A f a b H. rewrite forallb_app in H. apply andb_prop in H. exact H. Qed.

Ltac clause H c :=
  match type of H with
  | (if ?b then _ else _) = [] => destruct b eqn:c; [discriminate H|clear H]
  end.

Theorem oracle_complete_pf : forall ty rid ls a l,
  is_event a = true -> marshalable a = true -> viol_event ty rid ls a l = [] ->
  ((invalid_call ty a <> None \/ empty_change a = true) /\ l = [])
  \/
  (invalid_call ty a = None /\ empty_change a = false /\
   exists r, l = [EApply (kind_of a) (apply_args rid a) r] /\
             (ret_failed (Some r) = true \/ ret_nothing (Some r) = true))
  \/
  (invalid_call ty a = None /\ empty_change a = false /\
   ret_failed (log_ret l) = false /\ ret_nothing (log_ret l) = false /\
   (has_apply a = true -> log_ret l <> None) /\
   exists subj pay,
     l = match log_ret l with
         | Some r => [EApply (kind_of a) (apply_args rid a) r]
         | None => []
         end
         ++ [EPublish subj pay]
         ++ map (fun i => EListen i (record_from rid a (log_ret l))) ls).
Proof.
  intros ty rid ls a l E M V. unfold viol_event in V. rewrite M in V.
  apply app_eq_nil in V. destruct V as [V1 V]. apply app_eq_nil in V. destruct V as [V2 V].
  apply app_eq_nil in V. destruct V as [V3 V]. apply app_eq_nil in V. destruct V as [V4 V].
  apply app_eq_nil in V. destruct V as [V7 V]. apply app_eq_nil in V. destruct V as [V8 V9].
  clause V1 C1. clause V2 C2. clause V8 C8. clause V9 C9.
  assert (S3 : ranks_sorted 0 l = true /\ (count is_apply l <=? 1)%nat = true /\ (count is_pub l <=? 1)%nat = true).
  { destruct (ranks_sorted 0 l); [|discriminate V3]. destruct (count is_apply l <=? 1)%nat; [|discriminate V3].
    destruct (count is_pub l <=? 1)%nat; [|discriminate V3]. repeat split. }
  clear V3. destruct S3 as [SO [CA CP]].
  assert (C4 : forallb (fun e => match e with
                        | EListen _ ev => evrec_eqb ev (record_from rid a (log_ret l))
                        | EApply k x _ => kind_eqb k (kind_of a) && evrec_eqb x (apply_args rid a)
                        | _ => true end) l = true).
  { match type of V4 with (if ?b then _ else _) = [] => destruct b; [reflexivity|discriminate V4] end. }
  clear V4.
  (* invalid / empty: nothing *)
  destruct (isSomeP (invalid_call ty a) || empty_change a)%bool eqn:IE.
  { left. cbn [andb] in C8. destruct l; [|discriminate C8]. split; [|reflexivity].
    apply Bool.orb_true_iff in IE. destruct IE as [X|X]; [left|right; exact X].
    destruct (invalid_call ty a); [discriminate|discriminate X]. }
  apply Bool.orb_false_iff in IE. destruct IE as [I EC].
  assert (I' : invalid_call ty a = None) by (destruct (invalid_call ty a); [discriminate I|reflexivity]).
  right.
  (* decompose the log *)
  destruct (sorted0 _ SO) as [la [lp [ll [EQ [FA [FP FL]]]]]].
  assert (PA : existsb is_pub la = false) by (eapply existsb_none; [exact FA|exact apply_not_pub]).
  assert (LA : existsb is_listen la = false) by (eapply existsb_none; [exact FA|exact apply_not_listen]).
  assert (AP : existsb is_apply lp = false) by (eapply existsb_none; [exact FP|exact pub_not_apply]).
  assert (LP : existsb is_listen lp = false) by (eapply existsb_none; [exact FP|exact pub_not_listen]).
  assert (AL : existsb is_apply ll = false) by (eapply existsb_none; [exact FL|exact listen_not_apply]).
  assert (PL : existsb is_pub ll = false) by (eapply existsb_none; [exact FL|exact listen_not_pub]).
  assert (NA : length la = count is_apply l).
  { subst l. rewrite !count_app, (count_all _ _ FA),
      (count_none is_apply is_pub lp FP pub_not_apply),
      (count_none is_apply is_listen ll FL listen_not_apply). lia. }
  assert (NP : length lp = count is_pub l).
  { subst l. rewrite !count_app, (count_all _ _ FP),
      (count_none is_pub is_apply la FA apply_not_pub),
      (count_none is_pub is_listen ll FL listen_not_pub). lia. }
  rewrite <- NA in CA. rewrite <- NP in CP.
  apply length_le1 in CA. apply length_le1 in CP.
  (* contents of the apply entry and of the listener entries *)
  rewrite EQ in C4. apply forallb_app_l in C4. destruct C4 as [C4a C4]. apply forallb_app_l in C4. destruct C4 as [_ C4l].
  rewrite <- EQ in C4l.
  assert (LL : ll = notify (lids ll) (record_from rid a (log_ret l))).
  { eapply listens_are_notify; [|exact FL|exact C4l]. intros i ev'. reflexivity. }
  assert (LIDS : lids l = lids ll).
  { rewrite EQ, !lids_app, (lids_none _ LA), (lids_none _ LP). reflexivity. }
  assert (PUB : existsb is_pub l = existsb is_pub lp).
  { rewrite EQ, !existsb_app, PA, PL. cbn. rewrite Bool.orb_false_r. reflexivity. }
  assert (APP : existsb is_apply l = existsb is_apply la).
  { rewrite EQ, !existsb_app, AP, AL. cbn. rewrite Bool.orb_false_r. reflexivity. }
  assert (LR : log_ret l = match la with EApply _ _ r :: _ => Some r | _ => None end).
  { rewrite EQ. destruct la as [|e la'].
    - cbn [app]. apply log_ret_none. rewrite existsb_app, AP, AL. reflexivity.
    - cbn [forallb] in FA. apply andb_prop in FA. destruct FA as [FA1 _]. destruct e; try discriminate FA1. reflexivity. }
  assert (LA1 : la = [] \/ exists r, la = [EApply (kind_of a) (apply_args rid a) r]).
  { destruct CA as [->|[e ->]]; [left; reflexivity|right].
    cbn [forallb] in FA, C4a. rewrite Bool.andb_true_r in FA, C4a. destruct e; try discriminate FA.
    apply andb_prop in C4a. destruct C4a as [K X]. apply kind_eqb_eq in K. apply evrec_eqb_eq in X. subst.
    exists ret. reflexivity. }
  (* failed / nothing changed: the apply entry alone *)
  destruct (ret_failed (log_ret l) || ret_nothing (log_ret l))%bool eqn:FN.
  { left. split; [exact I'|]. split; [exact EC|].
    assert (AF : (existsb is_pub l || existsb is_listen l)%bool = false).
    { apply Bool.orb_true_iff in FN. destruct FN as [X|X]; rewrite X in *; [exact C1|exact C2]. }
    apply Bool.orb_false_iff in AF. destruct AF as [NPUB NLIS].
    assert (lp = []).
    { rewrite PUB in NPUB. destruct lp as [|e lp']; [reflexivity|]. cbn [forallb] in FP.
      apply andb_prop in FP. destruct FP as [X _]. cbn [existsb] in NPUB. rewrite X in NPUB. discriminate NPUB. }
    assert (ll = []).
    { rewrite EQ, !existsb_app in NLIS. apply Bool.orb_false_iff in NLIS. destruct NLIS as [_ NLIS].
      apply Bool.orb_false_iff in NLIS. destruct NLIS as [_ NLIS].
      destruct ll as [|e ll']; [reflexivity|]. cbn [forallb] in FL.
      apply andb_prop in FL. destruct FL as [X _]. cbn [existsb] in NLIS. rewrite X in NLIS. discriminate NLIS. }
    subst lp ll. rewrite !app_nil_r in EQ. destruct LA1 as [->|[r ->]].
    - subst l. cbn in FN. discriminate FN.
    - exists r. split; [exact EQ|]. rewrite LR in FN. apply Bool.orb_true_iff in FN. exact FN. }
  apply Bool.orb_false_iff in FN. destruct FN as [NF NN].
  right. split; [exact I'|]. split; [exact EC|]. split; [exact NF|]. split; [exact NN|].
  rewrite I, EC, NF, NN in C9. cbn [negb andb] in C9. apply Bool.orb_false_iff in C9. destruct C9 as [P9 A9].
  apply Bool.negb_false_iff in P9.
  split.
  { intros HAP. rewrite HAP in A9. cbn [andb] in A9. apply Bool.negb_false_iff in A9.
    rewrite APP in A9. rewrite LR. destruct la as [|e la']; [discriminate A9|].
    cbn [forallb] in FA. apply andb_prop in FA. destruct FA as [FA1 _]. destruct e; try discriminate FA1. discriminate. }
  rewrite P9 in V7.
  assert (L7 : lids l = ls).
  { destruct (list_eqb N.eqb (lids l) ls) eqn:X; [apply list_eqb_N_eq; exact X|discriminate V7]. }
  assert (exists subj pay, lp = [EPublish subj pay]) as [subj [pay ->]].
  { rewrite PUB in P9. destruct CP as [->|[e ->]]; [discriminate P9|].
    cbn [forallb] in FP. rewrite Bool.andb_true_r in FP. destruct e; try discriminate FP. eexists; eexists; reflexivity. }
  exists subj, pay. rewrite LIDS in L7. rewrite L7 in LL.
  rewrite LR. rewrite LR in LL. rewrite EQ at 1.
  destruct LA1 as [->|[r ->]]; rewrite LL at 1; reflexivity.
Qed.
