(* Proofs for C08, part 4: listeners that react to an event by emitting another
   event on ev.Resource from inside their call (one level of nesting). *)
From GoRes Require Import Event.Spec Event.Proofs.
Open Scope N_scope.

(* the listener loop, declaratively: listener by listener, each sees the SAME record ev, a
   reaction's effects come right after its listener's entry, the first panicking reaction ends
   the loop *)
Lemma notify_r_spec_pf : forall inner ls ev,
  notify_r inner ls ev = (concat (map (block inner ev) (ran inner ls)), first_panic inner ls).
Proof.
  intros inner ls ev. induction ls as [|l r IH]; [reflexivity|].
  cbn [notify_r ran first_panic]. unfold react_panic.
  destruct (l_react l) as [a'|] eqn:R.
  - destruct (snd (inner a')) as [q|] eqn:P.
    + cbn [map concat]. unfold block. rewrite R, app_nil_r. reflexivity.
    + rewrite IH. unfold finish. cbn [fst snd map concat]. change (block inner ev l) with (EListen (l_id l) ev :: match l_react l with Some x => fst (inner x) | None => [] end). rewrite R.
      rewrite <- app_comm_cons. reflexivity.
  - rewrite IH. unfold finish. cbn [fst snd map concat]. change (block inner ev l) with (EListen (l_id l) ev :: match l_react l with Some x => fst (inner x) | None => [] end). rewrite R. reflexivity.
Qed.

Lemma ran_all_pf : forall inner ls, first_panic inner ls = None -> ran inner ls = ls.
Proof.
  intros inner. induction ls as [|l r IH]; intros H; [reflexivity|].
  cbn [ran first_panic] in *. destruct (react_panic inner l); [discriminate H|]. f_equal. apply IH. exact H.
Qed.

Lemma ran_prefix_pf : forall inner ls, exists k, ran inner ls = firstn k ls.
Proof.
  intros inner. induction ls as [|l r IH]; [exists O; reflexivity|].
  cbn [ran]. destruct (react_panic inner l).
  - exists 1%nat. reflexivity.
  - destruct IH as [k Hk]. exists (S k). cbn [firstn]. rewrite Hk. reflexivity.
Qed.

Lemma notify_r_plain_pf : forall inner ls ev,
  no_reaction ls = true -> notify_r inner ls ev = nf_plain (map l_id ls) ev.
Proof.
  intros inner ls ev. induction ls as [|l r IH]; intros H; [reflexivity|].
  unfold no_reaction in H. cbn [forallb] in H. apply andb_prop in H. destruct H as [H1 H2].
  cbn [notify_r]. destruct (l_react l); [discriminate H1|]. rewrite (IH H2). reflexivity.
Qed.

(* without reacting listeners the re-entrant model is the plain one *)
Theorem reentrant_conservative_pf : forall ty rid ls a,
  is_event a = true -> no_reaction ls = true -> event_call_r ty rid ls a = event_call ty rid (map l_id ls) a.
Proof.
  intros ty rid ls a E NR. unfold event_call_r, event_call.
  rewrite !(event_call_g_spec_pf _ _ _ _ E). unfold spec_call_g.
  destruct (invalid_call ty a); [reflexivity|]. destruct (empty_change a); [reflexivity|].
  destruct (apply_fails a); [reflexivity|]. destruct (nothing_changed a); [reflexivity|].
  rewrite (notify_r_plain_pf _ _ _ NR). reflexivity.
Qed.

Theorem event_shape_reentrant_pf : forall ty rid ls a effs p,
  is_event a = true -> marshalable a = true -> event_call_r ty rid ls a = (effs, p) ->
  let inner := event_call ty rid (map l_id ls) in
  ((invalid_call ty a <> None \/ empty_change a = true) /\ effs = [] /\ p = invalid_call ty a)
  \/
  (invalid_call ty a = None /\ empty_change a = false /\
   exists ret, ret_of a = Some ret /\ effs = [EApply (kind_of a) (apply_args rid a) ret] /\
     ((exists e, apply_fails a = Some e /\ ret = RFail e /\ p = Some (PApply e)) \/
      (apply_fails a = None /\ nothing_changed a = true /\ p = None)))
  \/
  (invalid_call ty a = None /\ empty_change a = false /\ apply_fails a = None /\
   nothing_changed a = false /\ p = first_panic inner ls /\
   exists pay,
     effs = match ret_of a with
            | Some ret => [EApply (kind_of a) (apply_args rid a) ret]
            | None => []
            end
            ++ [EPublish (subject rid (event_name a)) pay]
            ++ concat (map (block inner (expected_record rid a)) (ran inner ls))).
Proof.
  intros ty rid ls a effs p E M H inner. unfold event_call_r in H.
  rewrite (event_call_g_spec_pf _ _ _ _ E) in H. unfold spec_call_g in H.
  destruct (invalid_call ty a) as [q|] eqn:I.
  { left. inversion H; subst. split; [left; discriminate|split; reflexivity]. }
  destruct (empty_change a) eqn:EC.
  { left. inversion H; subst. split; [right; reflexivity|split; reflexivity]. }
  right.
  destruct (apply_fails a) as [e|] eqn:F.
  { left. split; [reflexivity|split; [reflexivity|]].
    rewrite (ret_of_fails _ _ F) in H. inversion H; subst.
    exists (RFail e). split; [apply ret_of_fails; exact F|split; [reflexivity|]].
    left. exists e. repeat split; reflexivity. }
  destruct (nothing_changed a) eqn:NC.
  { left. split; [reflexivity|split; [reflexivity|]].
    destruct (nothing_changed_ret _ NC) as [_ [r Hr]]. rewrite Hr in H. inversion H; subst.
    exists r. split; [exact Hr|split; [reflexivity|]]. right. repeat split; reflexivity. }
  right. destruct (payload_some _ E M) as [pay Hp]. rewrite Hp in H. cbn [publish] in H.
  rewrite notify_r_spec_pf in H. unfold finish in H. cbn [fst snd] in H.
  inversion H; subst. repeat (split; [reflexivity|]). exists pay. reflexivity.
Qed.

(* the failing / no-op / invalid cases do not even reach the listeners, re-entrant or not *)
Theorem failed_publishes_nothing_reentrant_pf : forall ty rid ls a effs p,
  is_event a = true -> event_call_r ty rid ls a = (effs, p) ->
  (invalid_call ty a <> None \/ empty_change a = true \/ apply_fails a <> None \/ nothing_changed a = true) ->
  no_pub_no_listen effs /\
  ((invalid_call ty a <> None \/ empty_change a = true) -> effs = []) /\
  (invalid_call ty a <> None -> p = invalid_call ty a) /\
  (invalid_call ty a = None -> empty_change a = false -> forall e, apply_fails a = Some e -> p = Some (PApply e)).
Proof. intros ty rid ls a effs p. unfold event_call_r. apply failed_publishes_nothing_g_pf. Qed.

(* every listener the outer event calls - before, at and AFTER a re-entrant one - is handed the
   OUTER event's record: its entry in the effect list is EListen id (expected_record rid a) *)
Theorem listener_payload_reentrant_pf : forall ty rid ls a l,
  let inner := event_call ty rid (map l_id ls) in
  In l (ran inner ls) ->
  exists tl, block inner (expected_record rid a) l = EListen (l_id l) (expected_record rid a) :: tl /\
             tl = match l_react l with Some a' => fst (inner a') | None => [] end.
Proof. intros ty rid ls a l inner H. eexists. split; reflexivity. Qed.
