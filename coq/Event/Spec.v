(* Specification side of C08: the property's own vocabulary (which calls are
   invalid / no-ops / failing, what a listener must be given), the per-action
   decomposition of a callback, interleavings of group traces, and the decidable
   form of the property on a recorded effect log (used by Run_C08.violations and
   proved to accept every log of the model). No proofs here. *)
From GoRes Require Export Event.Model.
Open Scope N_scope.

(* ---- classification of an event call, from its inputs only ---- *)
Definition is_event (a : action) : bool :=
  match a with
  | AChange _ _ | AAdd _ _ _ | ARemove _ _ | ACreate _ _ | ADelete _ | ACustom _ _ => true
  | _ => false
  end.
Definition kind_of (a : action) : kind :=
  match a with
  | AChange _ _ => KChange | AAdd _ _ _ => KAdd | ARemove _ _ => KRemove
  | ACreate _ _ => KCreate | ADelete _ => KDelete | _ => KCustom
  end.
Definition event_name (a : action) : bytes :=
  match a with
  | AChange _ _ => n_change | AAdd _ _ _ => n_add | ARemove _ _ => n_remove
  | ACreate _ _ => n_create | ADelete _ => n_delete | ACustom n _ => n | _ => []
  end.

(* the pre-defined and reserved event names that Resource.Event refuses *)
Definition reserved_names : list bytes :=
  [n_change; n_create; n_delete; n_add; n_remove; n_patch; n_reaccess; n_unsubscribe; n_query].
Definition reserved (name : bytes) : bool := existsb (beq name) reserved_names.

(* "the call is invalid (wrong resource type, negative index, reserved or malformed event name)" *)
Definition invalid_call (ty : rtype) (a : action) : option panic :=
  match a with
  | AChange _ _ => match ty with TCollection => Some (PWrongType KChange) | _ => None end
  | AAdd _ idx _ =>
    match ty with
    | TModel => Some (PWrongType KAdd)
    | _ => if (idx <? 0)%Z then Some (PNegIdx KAdd) else None
    end
  | ARemove idx _ =>
    match ty with
    | TModel => Some (PWrongType KRemove)
    | _ => if (idx <? 0)%Z then Some (PNegIdx KRemove) else None
    end
  | ACustom name _ =>
    if reserved name then Some (PReserved name)
    else if is_valid_part name then None else Some PBadName
  | _ => None
  end.
(* "(... empty change)" *)
Definition empty_change (a : action) : bool := match a with AChange [] _ => true | _ => false end.
(* "the apply handler fails" *)
Definition apply_fails (a : action) : option err :=
  match a with
  | AChange _ (Fails e) | AAdd _ _ (Fails e) | ARemove _ (Fails e)
  | ACreate _ (Fails e) | ADelete (Fails e) => Some e
  | _ => None
  end.
(* "or reports that a change event changes nothing": a non-nil empty revert map *)
Definition nothing_changed (a : action) : bool :=
  match a with AChange _ (Ok (Some [])) => true | _ => false end.
Definition has_apply (a : action) : bool :=
  match a with
  | AChange _ Absent | AAdd _ _ Absent | ARemove _ Absent | ACreate _ Absent | ADelete Absent => false
  | AChange _ _ | AAdd _ _ _ | ARemove _ _ | ACreate _ _ | ADelete _ => true
  | _ => false
  end.
(* what the apply handler returns at this call (None: no handler) *)
Definition ret_of (a : action) : option aret :=
  match a with
  | AChange _ (Ok rev) => Some (RChange rev)
  | AAdd _ _ (Ok _) | ACreate _ (Ok _) => Some RUnit
  | ARemove _ (Ok v) | ADelete (Ok v) => Some (RVal v)
  | _ => match apply_fails a with Some e => Some (RFail e) | None => None end
  end.
(* documented precondition of the API: the published values are JSON-serialisable *)
Definition is_bad (v : value) : bool := match v with VBad _ => true | _ => false end.
Definition marshalable (a : action) : bool :=
  match a with
  | AChange c _ => forallb (fun kv => negb (is_bad (snd kv))) c
  | AAdd v _ _ => negb (is_bad v)
  | ACustom _ v => negb (is_bad v)
  | _ => true
  end.

(* what the apply handler must be called with *)
Definition apply_args (rid : bytes) (a : action) : evrec :=
  match a with
  | AChange c _ => Ev n_change rid (Some c) None VNil 0 VNil VNil
  | AAdd v i _ => Ev n_add rid None None v i VNil VNil
  | ARemove i _ => Ev n_remove rid None None VNil i VNil VNil
  | ACreate d _ => Ev n_create rid None None VNil 0 d VNil
  | ADelete _ => Ev n_delete rid None None VNil 0 VNil VNil
  | _ => Ev [] rid None None VNil 0 VNil VNil
  end.
(* what every listener must be handed, given what the apply handler returned:
   name, resource, the new values of the call, and the old values / removed
   value / deleted data exactly as returned by apply (nil without a handler) *)
Definition record_from (rid : bytes) (a : action) (r : option aret) : evrec :=
  match a with
  | AChange c _ =>
    Ev n_change rid (Some c) (match r with Some (RChange rev) => rev | _ => None end) VNil 0 VNil VNil
  | AAdd v i _ => Ev n_add rid None None v i VNil VNil
  | ARemove i _ =>
    Ev n_remove rid None None (match r with Some (RVal v) => v | _ => VNil end) i VNil VNil
  | ACreate d _ => Ev n_create rid None None VNil 0 d VNil
  | ADelete _ =>
    Ev n_delete rid None None VNil 0 (match r with Some (RVal v) => v | _ => VNil end) VNil
  | ACustom n v => Ev n rid None None VNil 0 VNil v
  | _ => Ev [] rid None None VNil 0 VNil VNil
  end.
Definition expected_record (rid : bytes) (a : action) : evrec := record_from rid a (ret_of a).

(* the payload the call publishes (None: json.Marshal fails, or not an event) *)
Definition payload_of (a : action) : option bytes :=
  match a with
  | AChange c _ => change_payload c
  | AAdd v i _ => add_payload v i
  | ARemove i _ => remove_payload i
  | ACreate _ _ | ADelete _ => Some []
  | ACustom _ v => custom_payload v
  | _ => None
  end.
(* the complete behaviour of one event call in the property's vocabulary *)
Definition spec_call (ty : rtype) (rid : bytes) (ls : list N) (a : action) : outcome :=
  match invalid_call ty a with
  | Some q => ([], Some q)
  | None =>
    if empty_change a then ([], None) else
    let pre := match ret_of a with
               | Some r => [EApply (kind_of a) (apply_args rid a) r]
               | None => []
               end in
    match apply_fails a with
    | Some e => (pre, Some (PApply e))
    | None =>
      if nothing_changed a then (pre, None)
      else (pre ++ publish (subject rid (event_name a)) (payload_of a)
                ++ notify ls (expected_record rid a), None)
    end
  end.

(* the same for an arbitrary listener loop [nf] *)
Definition spec_call_g (nf : evrec -> outcome) (ty : rtype) (rid : bytes) (a : action) : outcome :=
  match invalid_call ty a with
  | Some q => ([], Some q)
  | None =>
    if empty_change a then ([], None) else
    let pre := match ret_of a with
               | Some r => [EApply (kind_of a) (apply_args rid a) r]
               | None => []
               end in
    match apply_fails a with
    | Some e => (pre, Some (PApply e))
    | None =>
      if nothing_changed a then (pre, None)
      else finish pre (finish (publish (subject rid (event_name a)) (payload_of a))
                              (nf (expected_record rid a)))
    end
  end.

(* ---- re-entrant listeners, declaratively ---- *)
(* what happens during the call of listener l with the event record ev: the listener sees ev,
   then (if it reacts) the whole inner event call runs *)
Definition block (inner : action -> outcome) (ev : evrec) (l : lst) : list effect :=
  EListen (l_id l) ev :: match l_react l with Some a' => fst (inner a') | None => [] end.
Definition react_panic (inner : action -> outcome) (l : lst) : option panic :=
  match l_react l with Some a' => snd (inner a') | None => None end.
(* the listeners that get called: all of them, up to and including the first whose reaction panics *)
Fixpoint ran (inner : action -> outcome) (ls : list lst) : list lst :=
  match ls with
  | [] => []
  | l :: r => l :: match react_panic inner l with Some _ => [] | None => ran inner r end
  end.
Fixpoint first_panic (inner : action -> outcome) (ls : list lst) : option panic :=
  match ls with
  | [] => None
  | l :: r => match react_panic inner l with Some q => Some q | None => first_panic inner r end
  end.
Definition no_reaction (ls : list lst) : bool :=
  forallb (fun l => match l_react l with None => true | Some _ => false end) ls.

Definition no_pub_no_listen (l : list effect) : Prop :=
  forall e, In e l -> match e with EApply _ _ _ => True | _ => False end.

(* ---- a callback, action by action ---- *)
(* the actions that get to run, each with the replied flag it sees *)
Fixpoint executed (cx : ctx) (ty : rtype) (rid : bytes) (ls : list lst) (replied : bool)
    (s : list action) : list (action * bool) :=
  match s with
  | [] => []
  | a :: s' =>
    let '((_, p), r') := exec_action cx ty rid ls replied a in
    (a, replied) :: match p with Some _ => [] | None => executed cx ty rid ls r' s' end
  end.
(* effects / messages of one action on its own *)
Definition action_effects (cx : ctx) (ty : rtype) (rid : bytes) (ls : list lst) (ar : action * bool)
    : list effect := fst (fst (exec_action cx ty rid ls (snd ar) (fst ar))).
Definition action_msgs (cx : ctx) (ty : rtype) (rid : bytes) (ls : list lst) (ar : action * bool)
    : list (bytes * bytes) := pubs (action_effects cx ty rid ls ar).
(* replied flag and panic at the end of the handler body *)
Definition final_state (cx : ctx) (ty : rtype) (rid : bytes) (ls : list lst) (s : list action)
    : bool * option panic :=
  let '(_, r, p) := run_script cx ty rid ls false s in (r, p).
Definition closing_msgs (cx : ctx) (ty : rtype) (rid : bytes) (ls : list lst) (s : list action)
    : list (bytes * bytes) :=
  let (r, p) := final_state cx ty rid ls s in pubs (closing cx r p).
Definition callback_msgs (cb : callback) : list (bytes * bytes) := pubs (fst (run_cb cb)).

(* ---- interleavings ---- *)
Inductive Merge {A : Type} : list A -> list A -> list A -> Prop :=
| Merge_nil : Merge [] [] []
| Merge_l : forall x l1 l2 l, Merge l1 l2 l -> Merge (x :: l1) l2 (x :: l)
| Merge_r : forall x l1 l2 l, Merge l1 l2 l -> Merge l1 (x :: l2) (x :: l).
(* t is an interleaving of the lists ls (each list keeps its own order) *)
Fixpoint merges {A : Type} (ls : list (list A)) (t : list A) : Prop :=
  match ls with
  | [] => t = []
  | l :: r => exists t', merges r t' /\ Merge l t' t
  end.
(* the publications of a group, labelled with the group id *)
Definition group_trace (g : N * list callback) : list (N * (bytes * bytes)) :=
  map (pair (fst g)) (pubs (run_group (snd g))).
Definition project (g : N) (trace : list (N * (bytes * bytes))) : list (bytes * bytes) :=
  map snd (filter (fun m => fst m =? g) trace).

(* ---- decidable equality ---- *)
Definition value_eqb (a b : value) : bool :=
  match a, b with
  | VNil, VNil => true
  | VJson x, VJson y => beq x y
  | VBad x, VBad y => x =? y
  | _, _ => false
  end.
Fixpoint vmap_eqb (a b : vmap) : bool :=
  match a, b with
  | [], [] => true
  | (k, v) :: a', (k', v') :: b' => beq k k' && value_eqb v v' && vmap_eqb a' b'
  | _, _ => false
  end.
Definition ovmap_eqb (a b : option vmap) : bool :=
  match a, b with Some x, Some y => vmap_eqb x y | None, None => true | _, _ => false end.
Definition evrec_eqb (a b : evrec) : bool :=
  beq (ev_name a) (ev_name b) && beq (ev_rid a) (ev_rid b) &&
  ovmap_eqb (ev_new a) (ev_new b) && ovmap_eqb (ev_old a) (ev_old b) &&
  value_eqb (ev_value a) (ev_value b) && (ev_idx a =? ev_idx b)%Z &&
  value_eqb (ev_data a) (ev_data b) && value_eqb (ev_payload a) (ev_payload b).
Definition err_eqb (a b : err) : bool :=
  match a, b with
  | ERes c m, ERes c' m' => beq c c' && beq m m'
  | EPlain m, EPlain m' => beq m m'
  | ENilRes, ENilRes => true
  | _, _ => false
  end.
Definition aret_eqb (a b : aret) : bool :=
  match a, b with
  | RFail e, RFail e' => err_eqb e e'
  | RChange r, RChange r' => ovmap_eqb r r'
  | RUnit, RUnit => true
  | RVal v, RVal v' => value_eqb v v'
  | _, _ => false
  end.
Definition kind_eqb (a b : kind) : bool :=
  match a, b with
  | KChange, KChange | KAdd, KAdd | KRemove, KRemove | KCreate, KCreate
  | KDelete, KDelete | KCustom, KCustom => true
  | _, _ => false
  end.
Definition effect_eqb (a b : effect) : bool :=
  match a, b with
  | EApply k x r, EApply k' x' r' => kind_eqb k k' && evrec_eqb x x' && aret_eqb r r'
  | EPublish s p, EPublish s' p' => beq s s' && beq p p'
  | EListen l e, EListen l' e' => (l =? l') && evrec_eqb e e'
  | _, _ => false
  end.
Fixpoint list_eqb {A} (f : A -> A -> bool) (a b : list A) : bool :=
  match a, b with
  | [], [] => true
  | x :: a', y :: b' => f x y && list_eqb f a' b'
  | _, _ => false
  end.

(* ---- the property on ONE event call's recorded effects ---- *)
Definition is_apply (e : effect) : bool := match e with EApply _ _ _ => true | _ => false end.
Definition is_pub (e : effect) : bool := match e with EPublish _ _ => true | _ => false end.
Definition is_listen (e : effect) : bool := match e with EListen _ _ => true | _ => false end.
Definition rank (e : effect) : N :=
  match e with EApply _ _ _ => 0 | EPublish _ _ => 1 | EListen _ _ => 2 end.
Fixpoint ranks_sorted (prev : N) (l : list effect) : bool :=
  match l with
  | [] => true
  | e :: r => (prev <=? rank e) && ranks_sorted (rank e) r
  end.
Definition count (f : effect -> bool) (l : list effect) : nat := length (filter f l).
(* what the apply handler returned, according to the log *)
Fixpoint log_ret (l : list effect) : option aret :=
  match l with
  | [] => None
  | EApply _ _ r :: _ => Some r
  | _ :: t => log_ret t
  end.
Fixpoint lids (l : list effect) : list N :=
  match l with
  | [] => []
  | EListen i _ :: t => i :: lids t
  | _ :: t => lids t
  end.
Definition ret_failed (r : option aret) : bool := match r with Some (RFail _) => true | _ => false end.
Definition ret_nothing (r : option aret) : bool :=
  match r with Some (RChange (Some [])) => true | _ => false end.
Definition isSomeP {A} (o : option A) : bool := match o with Some _ => true | None => false end.

(* violation codes of one event call [a] whose recorded effects are [l]:
   1 publish/listener although the apply handler failed
   2 publish/listener although apply-change reported that nothing changed
   3 order is not apply; publish; listeners (or more than one apply / publish)
   4 a listener was handed something else than name, resource, new values and what apply returned
   7 the listeners called are not exactly the registered ones, in registration order
   8 an invalid call or an empty change had an effect
   9 a valid call with a succeeding / absent apply handler published nothing, or skipped the apply handler *)
Definition viol_event (ty : rtype) (rid : bytes) (ls : list N) (a : action) (l : list effect) : list N :=
  let r := log_ret l in
  let after := existsb is_pub l || existsb is_listen l in
  let published := existsb is_pub l in
  (if ret_failed r && after then [1] else []) ++
  (if ret_nothing r && after then [2] else []) ++
  (if ranks_sorted 0 l && (count is_apply l <=? 1)%nat && (count is_pub l <=? 1)%nat then [] else [3]) ++
  (if forallb (fun e => match e with
                        | EListen _ ev => evrec_eqb ev (record_from rid a r)
                        | EApply k x _ => kind_eqb k (kind_of a) && evrec_eqb x (apply_args rid a)
                        | _ => true end) l then [] else [4]) ++
  (if published then (if list_eqb N.eqb (lids l) ls then [] else [7])
   else if marshalable a && negb (is_nil (lids l)) then [7] else []) ++
  (if (isSomeP (invalid_call ty a) || empty_change a) && negb (is_nil l) then [8] else []) ++
  (if negb (isSomeP (invalid_call ty a)) && negb (empty_change a) && marshalable a
      && negb (ret_failed r) && negb (ret_nothing r)
      && (negb published || (has_apply a && negb (existsb is_apply l))) then [9] else []).
