(* Proofs for C08, part 1: one event call. *)
From GoRes Require Import Event.Spec.
Open Scope N_scope.

(* ---- the switch in Event() rejects exactly the documented reserved names ---- *)
Lemma reserved_msg_reserved : forall name, isSomeP (reserved_msg name) = reserved name.
Proof.
  intros name. unfold reserved_msg, reserved, reserved_names. cbn [existsb].
  destruct (beq name n_change); [reflexivity|].
  destruct (beq name n_create); [reflexivity|].
  destruct (beq name n_delete); [reflexivity|].
  destruct (beq name n_add); [reflexivity|].
  destruct (beq name n_remove); [reflexivity|].
  destruct (beq name n_patch); [reflexivity|].
  destruct (beq name n_reaccess); [reflexivity|].
  destruct (beq name n_unsubscribe); [reflexivity|].
  destruct (beq name n_query); reflexivity.
Qed.

(* ---- the model is the specification, call by call, for ANY listener loop ---- *)
Lemma custom_event_spec : forall nf ty rid n v,
  custom_event nf rid n v = spec_call_g nf ty rid (ACustom n v).
Proof.
  intros nf ty rid n v. unfold custom_event, spec_call_g, invalid_call.
  pose proof (reserved_msg_reserved n) as R.
  destruct (reserved_msg n) as [m|]; cbn [isSomeP] in R; rewrite <- R.
  - reflexivity.
  - destruct (is_valid_part n); reflexivity.
Qed.

Lemma event_call_g_spec_pf : forall nf ty rid a,
  is_event a = true -> event_call_g nf ty rid a = spec_call_g nf ty rid a.
Proof.
  intros nf ty rid a E. destruct a; try discriminate E; cbn [event_call_g].
  - (* change *)
    unfold change_event, spec_call_g. cbn [invalid_call].
    destruct ty; try reflexivity;
      (destruct changed as [|kv c]; [reflexivity|]);
      (destruct ap as [|[[|kv' r']|]|e]; reflexivity).
  - (* add *)
    unfold add_event, spec_call_g. cbn [invalid_call].
    destruct ty; try reflexivity;
      (destruct (idx <? 0)%Z; [reflexivity|]);
      (destruct ap as [|[]|e]; reflexivity).
  - (* remove *)
    unfold remove_event, spec_call_g. cbn [invalid_call].
    destruct ty; try reflexivity;
      (destruct (idx <? 0)%Z; [reflexivity|]);
      (destruct ap as [|v|e]; reflexivity).
  - (* create *)
    unfold create_event, spec_call_g. cbn [invalid_call].
    destruct ap as [|[]|e]; reflexivity.
  - (* delete *)
    unfold delete_event, spec_call_g. cbn [invalid_call].
    destruct ap as [|v|e]; reflexivity.
  - apply custom_event_spec.
Qed.

Lemma spec_call_plain : forall ty rid ls a, spec_call_g (nf_plain ls) ty rid a = spec_call ty rid ls a.
Proof.
  intros ty rid ls a. unfold spec_call_g, spec_call.
  destruct (invalid_call ty a); [reflexivity|]. destruct (empty_change a); [reflexivity|].
  destruct (apply_fails a); [reflexivity|]. destruct (nothing_changed a); reflexivity.
Qed.

Lemma event_call_spec_pf : forall ty rid ls a,
  is_event a = true -> event_call ty rid ls a = spec_call ty rid ls a.
Proof.
  intros ty rid ls a E. unfold event_call. rewrite (event_call_g_spec_pf _ _ _ _ E). apply spec_call_plain.
Qed.

(* ---- payloads exist for serialisable values ---- *)
Lemma enc_fields_some : forall c,
  forallb (fun kv => negb (is_bad (snd kv))) c = true -> exists t, enc_fields c = Some t.
Proof.
  induction c as [|[k v] c IH]; intros H.
  - exists []. reflexivity.
  - cbn [forallb snd] in H. apply andb_prop in H. destruct H as [Hv Hc].
    destruct (IH Hc) as [t Ht]. cbn [enc_fields]. rewrite Ht.
    destruct v; cbn [is_bad negb] in Hv; try discriminate Hv; cbn [enc_value]; eexists; reflexivity.
Qed.

Lemma payload_some : forall a,
  is_event a = true -> marshalable a = true -> exists pay, payload_of a = Some pay.
Proof.
  intros a E M. destruct a; try discriminate E; cbn [payload_of marshalable] in *.
  - destruct (enc_fields_some _ M) as [t Ht]. unfold change_payload, enc_map. rewrite Ht.
    eexists; reflexivity.
  - unfold add_payload. destruct v; try discriminate M; cbn [enc_value]; eexists; reflexivity.
  - unfold remove_payload. eexists; reflexivity.
  - eexists; reflexivity.
  - eexists; reflexivity.
  - unfold custom_payload. destruct payload; try discriminate M; eexists; reflexivity.
Qed.

Lemma ret_of_has_apply : forall a, is_event a = true -> isSomeP (ret_of a) = has_apply a.
Proof.
  intros a E. destruct a; try discriminate E; cbn.
  - destruct ap as [|r|e]; reflexivity.
  - destruct ap as [|r|e]; reflexivity.
  - destruct ap as [|r|e]; reflexivity.
  - destruct ap as [|r|e]; reflexivity.
  - destruct ap as [|r|e]; reflexivity.
  - reflexivity.
Qed.

Lemma ret_of_fails : forall a e, apply_fails a = Some e -> ret_of a = Some (RFail e).
Proof.
  intros a e H. destruct a; cbn in *; try discriminate H;
    destruct ap as [|r|e']; cbn in *; try discriminate H; congruence.
Qed.

Lemma nothing_changed_ret : forall a, nothing_changed a = true -> apply_fails a = None /\ exists r, ret_of a = Some r.
Proof.
  intros a H. destruct a; cbn in H; try discriminate H.
  destruct ap as [|[[|]|]|]; try discriminate H. split; [reflexivity|eexists; reflexivity].
Qed.

(* ---- event_shape ---- *)
Theorem event_shape_pf : forall ty rid ls a effs p,
  is_event a = true -> marshalable a = true -> event_call ty rid ls a = (effs, p) ->
  (* (i) invalid call or empty change: nothing at all happens (no apply either) *)
  ((invalid_call ty a <> None \/ empty_change a = true) /\ effs = [] /\ p = invalid_call ty a)
  \/
  (* (ii) the apply handler ran and failed (panic), or reported that nothing changed: nothing else *)
  (invalid_call ty a = None /\ empty_change a = false /\
   exists ret, ret_of a = Some ret /\ effs = [EApply (kind_of a) (apply_args rid a) ret] /\
     ((exists e, apply_fails a = Some e /\ ret = RFail e /\ p = Some (PApply e)) \/
      (apply_fails a = None /\ nothing_changed a = true /\ p = None)))
  \/
  (* (iii) apply (iff a handler exists), then ONE publish, then the listeners in registration order *)
  (invalid_call ty a = None /\ empty_change a = false /\ apply_fails a = None /\
   nothing_changed a = false /\ p = None /\
   exists pay,
     effs = match ret_of a with
            | Some ret => [EApply (kind_of a) (apply_args rid a) ret]
            | None => []
            end
            ++ [EPublish (subject rid (event_name a)) pay]
            ++ map (fun l => EListen l (expected_record rid a)) ls).
Proof.
  intros ty rid ls a effs p E M H. rewrite (event_call_spec_pf _ _ _ _ E) in H.
  unfold spec_call in H.
  destruct (invalid_call ty a) as [q|] eqn:I.
  { left. inversion H; subst. split; [left; discriminate|split; reflexivity]. }
  destruct (empty_change a) eqn:EC.
  { left. inversion H; subst. split; [right; reflexivity|split; reflexivity]. }
  right.
  destruct (apply_fails a) as [e|] eqn:F.
  { left. split; [reflexivity|split; [reflexivity|]].
    rewrite (ret_of_fails _ _ F) in H. inversion H; subst.
    exists (RFail e). split; [apply ret_of_fails; exact F|split; [reflexivity|]].
    left. exists e. repeat split; reflexivity. }
  destruct (nothing_changed a) eqn:NC.
  { left. split; [reflexivity|split; [reflexivity|]].
    destruct (nothing_changed_ret _ NC) as [_ [r Hr]]. rewrite Hr in H. inversion H; subst.
    exists r. split; [exact Hr|split; [reflexivity|]]. right. repeat split; reflexivity. }
  right. destruct (payload_some _ E M) as [pay Hp]. rewrite Hp in H. cbn [publish] in H.
  inversion H; subst. repeat (split; [reflexivity|]). exists pay. reflexivity.
Qed.

(* ---- failed_publishes_nothing ---- *)
Theorem failed_publishes_nothing_g_pf : forall nf ty rid a effs p,
  is_event a = true -> event_call_g nf ty rid a = (effs, p) ->
  (invalid_call ty a <> None \/ empty_change a = true \/ apply_fails a <> None \/ nothing_changed a = true) ->
  no_pub_no_listen effs /\
  (* and in the invalid / empty cases not even the apply handler runs *)
  ((invalid_call ty a <> None \/ empty_change a = true) -> effs = []) /\
  (* a failing apply handler and an invalid call unwind the caller *)
  (invalid_call ty a <> None -> p = invalid_call ty a) /\
  (invalid_call ty a = None -> empty_change a = false -> forall e, apply_fails a = Some e -> p = Some (PApply e)).
Proof.
  intros nf ty rid a effs p E H C. rewrite (event_call_g_spec_pf _ _ _ _ E) in H.
  unfold spec_call_g in H.
  destruct (invalid_call ty a) as [q|] eqn:I.
  { inversion H; subst. split; [intros e []|]. split; [reflexivity|]. split; [reflexivity|]. discriminate. }
  destruct (empty_change a) eqn:EC.
  { inversion H; subst. split; [intros e []|]. split; [reflexivity|].
    split; [intros X; exfalso; apply X; reflexivity|]. discriminate. }
  assert (PRE : forall e, In e (match ret_of a with
                                 | Some r => [EApply (kind_of a) (apply_args rid a) r]
                                 | None => [] end) -> match e with EApply _ _ _ => True | _ => False end).
  { intros e He. destruct (ret_of a); [destruct He as [<-|[]]; exact Logic.I|destruct He]. }
  destruct (apply_fails a) as [e|] eqn:F.
  { inversion H; subst. split; [exact PRE|]. split; [intros [X|X]; [exfalso; apply X; reflexivity|discriminate X]|].
    split; [intros X; exfalso; apply X; reflexivity|]. intros _ _ e' He'. congruence. }
  destruct (nothing_changed a) eqn:NC.
  { inversion H; subst. split; [exact PRE|]. split; [intros [X|X]; [exfalso; apply X; reflexivity|discriminate X]|].
    split; [intros X; exfalso; apply X; reflexivity|]. intros _ _ e' He'. discriminate He'. }
  exfalso. destruct C as [X|[X|[X|X]]]; try discriminate X; apply X; reflexivity.
Qed.

Theorem failed_publishes_nothing_pf : forall ty rid ls a effs p,
  is_event a = true -> event_call ty rid ls a = (effs, p) ->
  (invalid_call ty a <> None \/ empty_change a = true \/ apply_fails a <> None \/ nothing_changed a = true) ->
  no_pub_no_listen effs /\
  ((invalid_call ty a <> None \/ empty_change a = true) -> effs = []) /\
  (invalid_call ty a <> None -> p = invalid_call ty a) /\
  (invalid_call ty a = None -> empty_change a = false -> forall e, apply_fails a = Some e -> p = Some (PApply e)).
Proof. intros ty rid ls a effs p. unfold event_call. apply failed_publishes_nothing_g_pf. Qed.

(* ---- listener_payload ---- *)
Lemma in_pre_not_listen : forall a rid l ev,
  ~ In (EListen l ev) (match ret_of a with
                       | Some r => [EApply (kind_of a) (apply_args rid a) r]
                       | None => [] end).
Proof. intros a rid l ev H. destruct (ret_of a); [destruct H as [H|[]]; discriminate H|destruct H]. Qed.

Theorem listener_payload_pf : forall ty rid ls a effs p l ev,
  is_event a = true -> event_call ty rid ls a = (effs, p) -> In (EListen l ev) effs ->
  In l ls /\ ev = expected_record rid a /\
  ev_name ev = event_name a /\ ev_rid ev = rid.
Proof.
  intros ty rid ls a effs p l ev E H IN. rewrite (event_call_spec_pf _ _ _ _ E) in H.
  unfold spec_call in H.
  assert (G : ev = expected_record rid a -> ev_name ev = event_name a /\ ev_rid ev = rid).
  { intros ->. destruct a; try discriminate E; split; reflexivity. }
  destruct (invalid_call ty a); [inversion H; subst; destruct IN|].
  destruct (empty_change a); [inversion H; subst; destruct IN|].
  destruct (apply_fails a); [inversion H; subst; exfalso; eapply in_pre_not_listen; exact IN|].
  destruct (nothing_changed a); [inversion H; subst; exfalso; eapply in_pre_not_listen; exact IN|].
  inversion H; subst. apply in_app_or in IN. destruct IN as [IN|IN].
  { exfalso; eapply in_pre_not_listen; exact IN. }
  apply in_app_or in IN. destruct IN as [IN|IN].
  { unfold publish in IN. destruct (payload_of a); [destruct IN as [X|[]]; discriminate X|destruct IN]. }
  unfold notify in IN. apply in_map_iff in IN. destruct IN as [l' [EQ IN]]. inversion EQ; subst.
  split; [exact IN|]. split; [reflexivity|]. apply G. reflexivity.
Qed.

(* the apply handler is called with the call's own arguments, and its result is what the log says *)
Theorem apply_args_pf : forall ty rid ls a effs p k x r,
  is_event a = true -> event_call ty rid ls a = (effs, p) -> In (EApply k x r) effs ->
  k = kind_of a /\ x = apply_args rid a /\ ret_of a = Some r.
Proof.
  intros ty rid ls a effs p k x r E H IN. rewrite (event_call_spec_pf _ _ _ _ E) in H.
  unfold spec_call in H.
  assert (PRE : In (EApply k x r) (match ret_of a with
                                   | Some r => [EApply (kind_of a) (apply_args rid a) r]
                                   | None => [] end) ->
                k = kind_of a /\ x = apply_args rid a /\ ret_of a = Some r).
  { destruct (ret_of a); [intros [X|[]]; inversion X; subst; repeat split|intros []]. }
  destruct (invalid_call ty a); [inversion H; subst; destruct IN|].
  destruct (empty_change a); [inversion H; subst; destruct IN|].
  destruct (apply_fails a); [inversion H; subst; exact (PRE IN)|].
  destruct (nothing_changed a); [inversion H; subst; exact (PRE IN)|].
  inversion H; subst. apply in_app_or in IN. destruct IN as [IN|IN]; [exact (PRE IN)|].
  apply in_app_or in IN. destruct IN as [IN|IN].
  { unfold publish in IN. destruct (payload_of a); [destruct IN as [X|[]]; discriminate X|destruct IN]. }
  unfold notify in IN. apply in_map_iff in IN. destruct IN as [l' [EQ _]]. discriminate EQ.
Qed.

(* ---- what the code does with a value json.Marshal rejects (outside the documented
   precondition): the apply handler and the listeners run, nothing is published ---- *)
Theorem unmarshalable_listens_without_publish_pf : forall ty rid ls a,
  is_event a = true -> invalid_call ty a = None -> empty_change a = false -> apply_fails a = None ->
  nothing_changed a = false -> payload_of a = None ->
  event_call ty rid ls a =
  (match ret_of a with Some r => [EApply (kind_of a) (apply_args rid a) r] | None => [] end
   ++ map (fun l => EListen l (expected_record rid a)) ls, None).
Proof.
  intros ty rid ls a E I EC F NC P. rewrite (event_call_spec_pf _ _ _ _ E). unfold spec_call.
  rewrite I, EC, F, NC, P. reflexivity.
Qed.
