(* Proofs for C08, part 2: program order inside a callback, the publication
   trace of a group, and faithfulness of the tagged log of Run_C08. *)
From GoRes Require Import Event.Spec Event.Proofs Run.Run_C08.
Open Scope N_scope.

Lemma pubs_app : forall a b, pubs (a ++ b) = pubs a ++ pubs b.
Proof.
  induction a as [|x a IH]; intros b; [reflexivity|].
  destruct x; cbn [app pubs]; rewrite IH; reflexivity.
Qed.

Lemma pubs_concat : forall l, pubs (concat l) = concat (map pubs l).
Proof.
  induction l as [|x l IH]; [reflexivity|]. cbn [concat map]. rewrite pubs_app, IH. reflexivity.
Qed.

(* ---- program order ---- *)
Lemma run_script_pubs : forall cx ty rid ls s replied e r p,
  run_script cx ty rid ls replied s = (e, r, p) ->
  pubs e = concat (map (action_msgs cx ty rid ls) (executed cx ty rid ls replied s)).
Proof.
  intros cx ty rid ls. induction s as [|a s IH]; intros replied e r p H.
  - cbn in H. inversion H; subst. reflexivity.
  - cbn [run_script executed] in *.
    destruct (exec_action cx ty rid ls replied a) as [[e0 p0] r0] eqn:X.
    cbn [map concat]. unfold action_msgs at 1, action_effects. cbn [fst snd]. rewrite X. cbn [fst].
    destruct p0 as [q|].
    + inversion H; subst. cbn [map concat]. rewrite app_nil_r. reflexivity.
    + destruct (run_script cx ty rid ls r0 s) as [[e1 r1] p1] eqn:Y.
      inversion H; subst. rewrite pubs_app. f_equal. eapply IH. exact Y.
Qed.

Theorem program_order_pf : forall cx ty rid ls s,
  pubs (fst (run_callback cx ty rid ls s)) =
  concat (map (action_msgs cx ty rid ls) (executed cx ty rid ls false s)) ++ closing_msgs cx ty rid ls s.
Proof.
  intros cx ty rid ls s. unfold run_callback, closing_msgs, final_state.
  destruct (run_script cx ty rid ls false s) as [[e r] p] eqn:R. cbn [fst].
  rewrite pubs_app. f_equal. eapply run_script_pubs. exact R.
Qed.

(* the executed actions are a prefix of the script: everything up to and including the first
   action that panics, the whole script if none does *)
Lemma executed_prefix_gen : forall cx ty rid ls s replied,
  exists k, map fst (executed cx ty rid ls replied s) = firstn k s.
Proof.
  intros cx ty rid ls. induction s as [|a s IH]; intros replied.
  - exists O. reflexivity.
  - cbn [executed]. destruct (exec_action cx ty rid ls replied a) as [[e0 p0] r0].
    destruct p0 as [q|].
    + exists 1%nat. reflexivity.
    + destruct (IH r0) as [k Hk]. exists (S k). cbn [map fst firstn]. rewrite Hk. reflexivity.
Qed.

Lemma executed_all_gen : forall cx ty rid ls s replied e r,
  run_script cx ty rid ls replied s = (e, r, None) ->
  map fst (executed cx ty rid ls replied s) = s.
Proof.
  intros cx ty rid ls. induction s as [|a s IH]; intros replied e r H; [reflexivity|].
  cbn [run_script executed] in *.
  destruct (exec_action cx ty rid ls replied a) as [[e0 p0] r0].
  destruct p0 as [q|]; [discriminate H|].
  destruct (run_script cx ty rid ls r0 s) as [[e1 r1] p1] eqn:Y.
  inversion H; subst. cbn [map fst]. f_equal. eapply IH. exact Y.
Qed.

Theorem executed_prefix_pf : forall cx ty rid ls s,
  (exists k, map fst (executed cx ty rid ls false s) = firstn k s) /\
  (snd (run_callback cx ty rid ls s) = None -> map fst (executed cx ty rid ls false s) = s).
Proof.
  intros cx ty rid ls s. split; [apply executed_prefix_gen|].
  unfold run_callback. destruct (run_script cx ty rid ls false s) as [[e r] p] eqn:R. cbn [snd].
  intros ->. eapply executed_all_gen. exact R.
Qed.

(* a panicking action is the last one that runs *)
Lemma executed_stops_gen : forall cx ty rid ls s replied pre a rp post,
  executed cx ty rid ls replied s = pre ++ (a, rp) :: post ->
  snd (fst (exec_action cx ty rid ls rp a)) <> None -> post = [].
Proof.
  intros cx ty rid ls. induction s as [|b s IH]; intros replied pre a rp post H P.
  - destruct pre; discriminate H.
  - cbn [executed] in H. destruct (exec_action cx ty rid ls replied b) as [[e0 p0] r0] eqn:X.
    destruct pre as [|x pre].
    + cbn [app] in H. inversion H; subst. rewrite X in P. cbn [fst snd] in P.
      destruct p0; [reflexivity|exfalso; apply P; reflexivity].
    + cbn [app] in H. inversion H; subst. destruct p0.
      * destruct pre; discriminate H2.
      * eapply IH; eassumption.
Qed.

Theorem panic_ends_script_pf : forall cx ty rid ls s pre a rp post,
  executed cx ty rid ls false s = pre ++ (a, rp) :: post ->
  snd (fst (exec_action cx ty rid ls rp a)) <> None -> post = [].
Proof. intros. eapply executed_stops_gen; eassumption. Qed.

(* ---- the group ---- *)
Lemma fold_left_log : forall (f : callback -> list effect) cbs acc,
  fold_left (fun log cb => log ++ f cb) cbs acc = acc ++ concat (map f cbs).
Proof.
  intros f. induction cbs as [|cb cbs IH]; intros acc.
  - cbn. rewrite app_nil_r. reflexivity.
  - cbn [fold_left map concat]. rewrite IH, app_assoc. reflexivity.
Qed.

Lemma run_group_concat : forall cbs, run_group cbs = concat (map (fun cb => fst (run_cb cb)) cbs).
Proof. intros cbs. unfold run_group. rewrite fold_left_log. reflexivity. Qed.

Lemma run_group_msgs : forall cbs, pubs (run_group cbs) = concat (map callback_msgs cbs).
Proof.
  intros cbs. rewrite run_group_concat, pubs_concat, map_map. reflexivity.
Qed.

Lemma Merge_nil_l : forall A (l2 l : list A), Merge [] l2 l -> l = l2.
Proof.
  intros A l2 l H. remember [] as l1 eqn:E. induction H; [reflexivity|discriminate E|].
  f_equal. apply IHMerge. exact E.
Qed.
Lemma Merge_nil_r : forall A (l1 l : list A), Merge l1 [] l -> l = l1.
Proof.
  intros A l1 l H. remember [] as l2 eqn:E. induction H; [reflexivity| |discriminate E].
  f_equal. apply IHMerge. exact E.
Qed.
Lemma Merge_filter : forall A (P : A -> bool) (l1 l2 l : list A),
  Merge l1 l2 l -> Merge (filter P l1) (filter P l2) (filter P l).
Proof.
  intros A P l1 l2 l H. induction H; cbn [filter].
  - constructor.
  - destruct (P x); [constructor|]; exact IHMerge.
  - destruct (P x); [constructor|]; exact IHMerge.
Qed.
Lemma Merge_in : forall A (l1 l2 l : list A) x, Merge l1 l2 l -> In x l -> In x l1 \/ In x l2.
Proof.
  intros A l1 l2 l x H. induction H; intros IN.
  - destruct IN.
  - destruct IN as [->|IN]; [left; left; reflexivity|].
    destruct (IHMerge IN) as [X|X]; [left; right; exact X|right; exact X].
  - destruct IN as [->|IN]; [right; left; reflexivity|].
    destruct (IHMerge IN) as [X|X]; [left; exact X|right; right; exact X].
Qed.

Lemma merges_labels : forall groups t m,
  merges (map group_trace groups) t -> In m t -> In (fst m) (map fst groups).
Proof.
  induction groups as [|g groups IH]; intros t m H IN.
  - cbn in H. subst. destruct IN.
  - cbn [map merges] in H. destruct H as [t' [H1 H2]].
    destruct (Merge_in _ _ _ _ _ H2 IN) as [X|X].
    + left. unfold group_trace in X. apply in_map_iff in X. destruct X as [y [<- _]]. reflexivity.
    + right. eapply IH; eassumption.
Qed.

Lemma filter_all : forall A (P : A -> bool) l, (forall x, In x l -> P x = true) -> filter P l = l.
Proof.
  intros A P. induction l as [|x l IH]; intros H; [reflexivity|]. cbn [filter].
  rewrite (H x (or_introl eq_refl)). f_equal. apply IH. intros y Hy. apply H. right. exact Hy.
Qed.
Lemma filter_none : forall A (P : A -> bool) l, (forall x, In x l -> P x = false) -> filter P l = [].
Proof.
  intros A P. induction l as [|x l IH]; intros H; [reflexivity|]. cbn [filter].
  rewrite (H x (or_introl eq_refl)). apply IH. intros y Hy. apply H. right. exact Hy.
Qed.

Lemma group_trace_label : forall g x, In x (group_trace g) -> fst x = fst g.
Proof. intros g x H. unfold group_trace in H. apply in_map_iff in H. destruct H as [y [<- _]]. reflexivity. Qed.

Lemma project_own : forall g, project (fst g) (group_trace g) = pubs (run_group (snd g)).
Proof.
  intros g. unfold project. rewrite filter_all.
  - unfold group_trace. rewrite map_map. cbn [snd]. apply map_id.
  - intros x Hx. rewrite (group_trace_label _ _ Hx). apply N.eqb_refl.
Qed.

(* Hypothesis of the theorem = what C01/C02 establish: the callbacks of one group execute
   sequentially in submission order (run_group), groups interleave arbitrarily (merges). *)
Theorem group_total_order_pf : forall (groups : list (N * list callback)) trace,
  NoDup (map fst groups) ->
  merges (map group_trace groups) trace ->
  forall g cbs, In (g, cbs) groups -> project g trace = concat (map callback_msgs cbs).
Proof.
  induction groups as [|g0 groups IH]; intros trace ND H g cbs IN; [destruct IN|].
  cbn [map merges] in H. destruct H as [t' [H1 H2]].
  cbn [map] in ND. inversion ND as [|x xs NI ND']; subst.
  pose proof (Merge_filter _ (fun m => fst m =? g) _ _ _ H2) as MF.
  destruct IN as [->|IN].
  - (* the head group: nothing of the other groups carries its label *)
    cbn [fst] in *.
    assert (Z : filter (fun m : N * (bytes * bytes) => fst m =? g) t' = []).
    { apply filter_none. intros m Hm. apply N.eqb_neq. intros EQ. apply NI. rewrite <- EQ.
      eapply merges_labels; eassumption. }
    rewrite Z in MF. apply Merge_nil_r in MF. unfold project. rewrite MF.
    change (project (fst (g, cbs)) (group_trace (g, cbs)) = concat (map callback_msgs cbs)).
    rewrite project_own. cbn [snd]. apply run_group_msgs.
  - (* a later group: the head group contributes nothing to the projection *)
    assert (NE : fst g0 <> g).
    { intros EQ. apply NI. rewrite EQ. change g with (fst (g, cbs)). apply in_map. exact IN. }
    assert (Z : filter (fun m : N * (bytes * bytes) => fst m =? g) (group_trace g0) = []).
    { apply filter_none. intros m Hm. rewrite (group_trace_label _ _ Hm). apply N.eqb_neq. exact NE. }
    rewrite Z in MF. apply Merge_nil_l in MF. unfold project. rewrite MF.
    exact (IH t' ND' H1 g cbs IN).
Qed.

(* a single group alone on the connection: the trace IS the concatenation *)
Corollary single_group_trace_pf : forall cbs, pubs (run_group cbs) = concat (map callback_msgs cbs).
Proof. exact run_group_msgs. Qed.

(* ---- the tagged log of Run_C08 is the model's log ---- *)
Lemma map_snd_pair : forall A B (i : A) (l : list B), map snd (map (pair i) l) = l.
Proof. intros. rewrite map_map. cbn [snd]. apply map_id. Qed.

Lemma tag_script_erase : forall cx ty rid ls s replied i t r p,
  tag_script cx ty rid ls replied i s = (t, r, p) ->
  run_script cx ty rid ls replied s = (map snd t, r, p).
Proof.
  intros cx ty rid ls. induction s as [|a s IH]; intros replied i t r p H.
  - cbn in H. inversion H; subst. reflexivity.
  - cbn [tag_script run_script] in *.
    destruct (exec_action cx ty rid ls replied a) as [[e0 p0] r0].
    destruct p0 as [q|].
    + inversion H; subst. rewrite map_snd_pair. reflexivity.
    + destruct (tag_script cx ty rid ls r0 (i + 1) s) as [[t1 r1] p1] eqn:Y.
      rewrite (IH _ _ _ _ _ Y). inversion H; subst. rewrite map_app, map_snd_pair. reflexivity.
Qed.

Lemma tag_cb_erase : forall cb,
  map snd (fst (tag_cb cb)) = fst (run_cb cb) /\ snd (tag_cb cb) = snd (run_cb cb).
Proof.
  intros cb. unfold tag_cb, run_cb, run_callback.
  destruct (tag_script (cb_ctx cb) (cb_ty cb) (cb_rid cb) (cb_ls cb) false 0 (cb_script cb))
    as [[t r] p] eqn:Y.
  rewrite (tag_script_erase _ _ _ _ _ _ _ _ _ _ Y). cbn [fst snd].
  rewrite map_app, map_snd_pair. split; reflexivity.
Qed.

Theorem tag_group_erase_pf : forall cbs i, map snd (tag_group i cbs) = run_group cbs.
Proof.
  intros cbs i. rewrite run_group_concat. revert i.
  induction cbs as [|cb cbs IH]; intros i; [reflexivity|].
  cbn [tag_group map concat]. rewrite map_app, IH. f_equal.
  rewrite map_map. cbn [snd]. exact (proj1 (tag_cb_erase cb)).
Qed.
