(* Executable model of the two shipped stores (C11):
     store/badgerstore/store.go  (Read/Write txns over BadgerDB, keylock per id)
     store/mockstore/store.go    (in-memory map, one global RWMutex)
   One [op] is one method call on a transaction for id [i].  What the
   environment decides is carried by the op: whether the Go value has the wrong
   dynamic type, whether a registered BeforeChange callback vetoes the change,
   and what mockstore's NewID callback would return.  Values are their canonical
   JSON bytes.  No proofs here. *)
From GoRes Require Export Base.Bytes.

Definition id := bytes.
Definition val := bytes.

Record env := Env {
  e_wrongtype : bool;   (* reflect.TypeOf(v) differs from the store's type (badgerstore only checks) *)
  e_vetoat : nat;       (* 1-based index, in registration order, of the first BeforeChange listener that returns an
                           error for this change; 0 = none does (badgerstore only has them).  At most the number
                           of registered listeners. *)
  e_newid : id;         (* what Store.NewID() returns if it is called (mockstore only) *)
  e_unenc : bool        (* the value has the store's type but cannot be encoded: json.Marshal / MarshalBinary
                           returns an error (NaN, Inf, func, chan, failing MarshalJSON ...).  badgerstore encodes
                           inside the transaction AFTER the BeforeChange listeners; mockstore never encodes. *)
}.
Definition env0 : env := Env false 0%nat [] false.
(* some BeforeChange callback returns an error for this change *)
Definition e_veto (e : env) : bool := negb (Nat.eqb (e_vetoat e) 0).

Inductive op :=
| OCreate (i : id) (v : val) (e : env)
| OUpdate (i : id) (v : val) (e : env)
| ODelete (i : id) (e : env)
| OValue (i : id)
| OExists (i : id).

Inductive result :=
| ROk                 (* mutation returned nil *)
| RVal (v : val)      (* Value returned (v, nil) *)
| RBool (b : bool)    (* Exists *)
| ENotFound           (* store.ErrNotFound (= res.ErrNotFound) *)
| EDuplicate          (* store.ErrDuplicate *)
| EMissingID          (* errors.New("missing ID") *)
| EType               (* "... value is of type %s, expected type %s" *)
| EVeto               (* the BeforeChange callback's error *)
| RPanic              (* mockstore: "callback NewID returned empty string" *)
| EEncode             (* the encoder's error (json: unsupported value / type, error calling MarshalJSON) *)
| EOther.             (* any other error (none is produced by the current code on these inputs) *)

(* one OnChange invocation: id, value before (None = Go nil), value after *)
Definition cbcall := (id * option val * option val)%type.
Definition outcome := (result * list cbcall)%type.

Definition is_some {A} (o : option A) : bool := match o with Some _ => true | None => false end.

(* stored content: key bytes -> value; head wins *)
Definition kvstate := amap.
Definition adel (k : bytes) (m : amap) : amap := filter (fun kv => negb (beq k (fst kv))) m.
Definition aset (k : bytes) (v : val) (m : amap) : amap := (k, v) :: adel k m.

(* ---- badgerstore ---- *)
(* SetPrefix: "" stays "", otherwise prefix + "." *)
Definition mk_prefix (raw : bytes) : bytes := if is_nil raw then [] else raw ++ [dot].
(* rname = []byte(st.prefix + id) *)
Definition bkey (pfx : bytes) (i : id) : bytes := pfx ++ i.
(* Store.getValue: badger.ErrEmptyKey and ErrKeyNotFound both become ErrNotFound *)
Definition bget (pfx : bytes) (st : kvstate) (i : id) : option val :=
  if is_nil (bkey pfx i) then None else alookup (bkey pfx i) st.

Definition bstep (pfx : bytes) (st : kvstate) (o : op) : kvstate * result * list cbcall :=
  match o with
  | OCreate i v e =>
      if e_wrongtype e then (st, EType, [])              (* vv.Type() != t, before anything else *)
      else if is_nil i then (st, EMissingID, [])         (* the store does not generate IDs *)
      else match alookup (bkey pfx i) st with            (* txn.Get(rname) == nil error *)
           | Some _ => (st, EDuplicate, [])
           | None =>
               if e_veto e then (st, EVeto, [])          (* callBeforeChange inside DB.Update: nothing written *)
               else if e_unenc e then (st, EEncode, [])  (* setValue: marshal error aborts the transaction *)
               else (aset (bkey pfx i) v st, ROk, [(i, None, Some v)])
           end
  | OUpdate i v e =>
      if e_wrongtype e then (st, EType, [])
      else match bget pfx st i with                      (* wt.v is always nil: value receivers *)
           | None => (st, ENotFound, [])
           | Some b =>
               if e_veto e then (st, EVeto, [])
               else if e_unenc e then (st, EEncode, [])
               else (aset (bkey pfx i) v st, ROk, [(i, Some b, Some v)])
           end
  | ODelete i e =>
      match bget pfx st i with
      | None => (st, ENotFound, [])
      | Some b =>
          if e_veto e then (st, EVeto, [])
          else (adel (bkey pfx i) st, ROk, [(i, Some b, None)])
      end
  | OValue i =>
      match bget pfx st i with
      | None => (st, ENotFound, [])
      | Some b => (st, RVal b, [])
      end
  | OExists i => (st, RBool (is_some (bget pfx st i)), [])
  end.

(* The BeforeChange calls made by one operation (callBeforeChange inside the DB.Update
   closure): listener index (1-based, registration order), id, value before, value
   after.  Every Create/Update/Delete that gets past the type, id and existence checks
   calls each of the [nl] registered listeners once, in order, up to and including the
   first one that returns an error. *)
Definition bccall := (nat * id * option val * option val)%type.
Fixpoint bc_go (n : nat) (idx : nat) (vetoat : nat) (i : id) (b a : option val) : list bccall :=
  match n with
  | O => []
  | S n' => (idx, i, b, a) :: if Nat.eqb idx vetoat then [] else bc_go n' (S idx) vetoat i b a
  end.
Definition bc_calls (nl : nat) (vetoat : nat) (i : id) (b a : option val) : list bccall :=
  bc_go nl 1 vetoat i b a.

Definition bstep_bc (pfx : bytes) (nl : nat) (st : kvstate) (o : op) : list bccall :=
  match o with
  | OCreate i v e =>
      if e_wrongtype e then []
      else if is_nil i then []
      else match alookup (bkey pfx i) st with
           | Some _ => []
           | None => bc_calls nl (e_vetoat e) i None (Some v)
           end
  | OUpdate i v e =>
      if e_wrongtype e then []
      else match bget pfx st i with
           | None => []
           | Some b => bc_calls nl (e_vetoat e) i (Some b) (Some v)
           end
  | ODelete i e =>
      match bget pfx st i with
      | None => []
      | Some b => bc_calls nl (e_vetoat e) i (Some b) None
      end
  | _ => []
  end.

(* BeforeChange calls along a history *)
Fixpoint run_bc {St : Type} (step : St -> op -> St * result * list cbcall) (bcf : St -> op -> list bccall)
    (st : St) (ops : list op) : list (list bccall) :=
  match ops with
  | [] => []
  | o :: r => bcf st o :: run_bc step bcf (fst (fst (step st o))) r
  end.

(* badgerstore as it was before the fix commit "Create returns store.ErrDuplicate and
   rejects an empty ID; an empty ID reads as not found": kept for the refutation witnesses *)
Definition bget_v0 (pfx : bytes) (st : kvstate) (i : id) : option val + unit :=
  if is_nil (bkey pfx i) then inr tt (* badger.ErrEmptyKey passed through *) else inl (alookup (bkey pfx i) st).
Definition bstep_v0 (pfx : bytes) (st : kvstate) (o : op) : kvstate * result * list cbcall :=
  match o with
  | OCreate i v e =>
      if e_wrongtype e then (st, EType, [])
      else match bget_v0 pfx st i with
           | inr _ => (st, EOther, [])
           | inl (Some _) => (st, EOther, [])             (* fmt.Errorf("cannot create because ...") *)
           | inl None =>
               if e_veto e then (st, EVeto, [])
               else (aset (bkey pfx i) v st, ROk, [(i, None, Some v)])
           end
  | OUpdate i v e =>
      if e_wrongtype e then (st, EType, [])
      else match bget_v0 pfx st i with
           | inr _ => (st, EOther, [])
           | inl None => (st, ENotFound, [])
           | inl (Some b) =>
               if e_veto e then (st, EVeto, [])
               else if e_unenc e then (st, EEncode, [])
               else (aset (bkey pfx i) v st, ROk, [(i, Some b, Some v)])
           end
  | ODelete i e =>
      match bget_v0 pfx st i with
      | inr _ => (st, EOther, [])
      | inl None => (st, ENotFound, [])
      | inl (Some b) =>
          if e_veto e then (st, EVeto, [])
          else (adel (bkey pfx i) st, ROk, [(i, Some b, None)])
      end
  | OValue i =>
      match bget_v0 pfx st i with
      | inr _ => (st, EOther, [])
      | inl None => (st, ENotFound, [])
      | inl (Some b) => (st, RVal b, [])
      end
  | OExists i => (st, RBool (match bget_v0 pfx st i with inl (Some _) => true | _ => false end), [])
  end.

(* ---- mockstore ---- (default behaviour: no OnCreate/OnUpdate/... overrides) *)
Definition mcreate (st : kvstate) (j : id) (v : val) : kvstate * result * list cbcall :=
  match alookup j st with
  | Some _ => (st, EDuplicate, [])
  | None => (aset j v st, ROk, [(j, None, Some v)])
  end.

Definition mstep (newid : bool) (st : kvstate) (o : op) : kvstate * result * list cbcall :=
  match o with
  | OCreate i v e =>
      if is_nil i then
        if negb newid then (st, EMissingID, [])
        else if is_nil (e_newid e) then (st, RPanic, [])
        else mcreate st (e_newid e) v
      else mcreate st i v
  | OUpdate i v e =>
      if is_nil i then (st, ENotFound, [])
      else match alookup i st with
           | None => (st, ENotFound, [])
           | Some b => (aset i v st, ROk, [(i, Some b, Some v)])
           end
  | ODelete i e =>
      if is_nil i then (st, ENotFound, [])
      else match alookup i st with
           | None => (st, ENotFound, [])
           | Some b => (adel i st, ROk, [(i, Some b, None)])
           end
  | OValue i =>
      if is_nil i then (st, ENotFound, [])
      else match alookup i st with
           | None => (st, ENotFound, [])
           | Some b => (st, RVal b, [])
           end
  | OExists i => (st, RBool (negb (is_nil i) && is_some (alookup i st)), [])
  end.

(* ---- folding a step function over a history ---- *)
Fixpoint run {St : Type} (step : St -> op -> St * result * list cbcall) (st : St) (ops : list op)
  : St * list outcome :=
  match ops with
  | [] => (st, [])
  | o :: r =>
      let '(st1, res, cbs) := step st o in
      let '(st2, outs) := run step st1 r in
      (st2, (res, cbs) :: outs)
  end.

(* what a reader sees for id i: the abstraction used by the refinement theorems.
   mockstore is the prefix-less instance (the empty id never reads as present). *)
Definition view (pfx : bytes) (st : kvstate) (i : id) : option val := bget pfx st i.

(* ---- transactions and locks ----
   badgerstore: Read(id) = kl.RLock(id), Write(id) = kl.Lock(id) on a keylock
   (one RWMutex per key); mockstore: st.RLock() / st.Lock() on one RWMutex.
   Both are the same LTS with a different lock key function. *)
Inductive mode := MRead | MWrite.
Inductive opk :=
| KCreate (v : val) (e : env) | KUpdate (v : val) (e : env) | KDelete (e : env) | KValue | KExists.
Definition mk_op (i : id) (k : opk) : op :=
  match k with
  | KCreate v e => OCreate i v e
  | KUpdate v e => OUpdate i v e
  | KDelete e => ODelete i e
  | KValue => OValue i
  | KExists => OExists i
  end.
Definition is_mut (k : opk) : bool :=
  match k with KCreate _ _ | KUpdate _ _ | KDelete _ => true | _ => false end.

Inductive label :=
| LBegin (x : N) (md : mode) (i : id)   (* st.Read(i) / st.Write(i) returns transaction x *)
| LDo (x : N) (k : opk)                 (* a method call on transaction x *)
| LClose (x : N).                       (* x.Close() *)

Record lockst := LK { readers : nat; writer : bool }.
Definition lk_free : lockst := LK 0 false.
Definition locks := list (bytes * lockst).       (* missing = free; head wins *)
Fixpoint lget (k : bytes) (L : locks) : lockst :=
  match L with
  | [] => lk_free
  | (k', l) :: L' => if beq k k' then l else lget k L'
  end.
Definition lset (k : bytes) (l : lockst) (L : locks) : locks := (k, l) :: L.

Definition opens := list (N * (mode * id)).
Fixpoint oget (x : N) (O : opens) : option (mode * id) :=
  match O with
  | [] => None
  | (y, e) :: O' => if x =? y then Some e else oget x O'
  end.
Definition odel (x : N) (O : opens) : opens := filter (fun e => negb (x =? fst e)) O.

Definition lkey_badger (i : id) : bytes := i.
Definition lkey_mock (i : id) : bytes := [].

Record tstate (St : Type) := TS { t_locks : locks; t_open : opens; t_db : St }.
Arguments TS {St}. Arguments t_locks {St}. Arguments t_open {St}. Arguments t_db {St}.

Definition event := (N * op * result * list cbcall)%type.

Definition tstep {St : Type} (step : St -> op -> St * result * list cbcall) (lkey : id -> bytes)
    (s : tstate St) (l : label) : option (tstate St * list event) :=
  match l with
  | LBegin x md i =>
      match oget x (t_open s) with
      | Some _ => None
      | None =>
          let k := lkey i in
          let lk := lget k (t_locks s) in
          match md with
          | MRead =>
              if writer lk then None      (* RLock blocks while a writer holds the lock *)
              else Some (TS (lset k (LK (S (readers lk)) false) (t_locks s)) ((x, (md, i)) :: t_open s) (t_db s), [])
          | MWrite =>
              if writer lk || negb (Nat.eqb (readers lk) 0) then None   (* Lock blocks *)
              else Some (TS (lset k (LK 0 true) (t_locks s)) ((x, (md, i)) :: t_open s) (t_db s), [])
          end
      end
  | LDo x k =>
      match oget x (t_open s) with
      | None => None
      | Some (md, i) =>
          if is_mut k && (match md with MRead => true | MWrite => false end) then None  (* ReadTxn has no mutators *)
          else
            let '(db, r, cbs) := step (t_db s) (mk_op i k) in
            Some (TS (t_locks s) (t_open s) db, [(x, mk_op i k, r, cbs)])
      end
  | LClose x =>
      match oget x (t_open s) with
      | None => None
      | Some (md, i) =>
          let k := lkey i in
          let lk := lget k (t_locks s) in
          let lk' := match md with
                     | MRead => LK (pred (readers lk)) (writer lk)
                     | MWrite => LK (readers lk) false
                     end in
          Some (TS (lset k lk' (t_locks s)) (odel x (t_open s)) (t_db s), [])
      end
  end.

Fixpoint texec {St : Type} (step : St -> op -> St * result * list cbcall) (lkey : id -> bytes)
    (s : tstate St) (ls : list label) : option (tstate St * list event) :=
  match ls with
  | [] => Some (s, [])
  | l :: r =>
      match tstep step lkey s l with
      | None => None
      | Some (s1, ev1) =>
          match texec step lkey s1 r with
          | None => None
          | Some (s2, ev2) => Some (s2, ev1 ++ ev2)
          end
      end
  end.

Definition tinit {St : Type} (db : St) : tstate St := TS [] [] db.
