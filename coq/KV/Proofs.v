(* C11: the store models refine the finite-map specification; callback chains;
   per-id independence and commutation of the specification. *)
From stdpp Require Import gmap.
From GoRes Require Import KV.Spec.

(* ---------- byte strings and association lists ---------- *)
Lemma kv_beq_iff : forall a b, beq a b = true <-> a = b.
Proof.
  induction a as [|x a IH]; destruct b as [|y b]; cbn [beq]; split; intros H; try congruence; try reflexivity.
  - apply andb_true_iff in H. destruct H as [H1 H2]. apply N.eqb_eq in H1. apply IH in H2. congruence.
  - inversion H; subst. apply andb_true_iff. split; [apply N.eqb_refl | apply IH; reflexivity].
Qed.
Lemma kv_beq_refl : forall a, beq a a = true.
Proof. intros a. apply kv_beq_iff. reflexivity. Qed.
Lemma kv_beq_neq : forall a b, a <> b -> beq a b = false.
Proof. intros a b H. destruct (beq a b) eqn:E; [|reflexivity]. apply kv_beq_iff in E. contradiction. Qed.
Lemma kv_beq_false : forall a b, beq a b = false -> a <> b.
Proof. intros a b H E. subst. rewrite kv_beq_refl in H. discriminate. Qed.
Lemma kv_beq_sym : forall a b, beq a b = beq b a.
Proof.
  intros a b. destruct (beq a b) eqn:E.
  - apply kv_beq_iff in E. subst. symmetry. apply kv_beq_refl.
  - symmetry. apply kv_beq_neq. intros H. subst. rewrite kv_beq_refl in E. discriminate.
Qed.
Lemma kv_is_nil_true : forall (l : bytes), is_nil l = true -> l = [].
Proof. intros [|x l] H; [reflexivity | discriminate]. Qed.
Lemma kv_is_nil_app : forall (p i : bytes), is_nil i = false -> is_nil (p ++ i) = false.
Proof. intros [|a p] [|b i] H; try reflexivity; discriminate. Qed.

Lemma alookup_adel_eq : forall k m, alookup k (adel k m) = None.
Proof.
  intros k m. induction m as [|[k' v] m IH]; [reflexivity|].
  unfold adel in *. cbn [filter fst]. destruct (beq k k') eqn:E; cbn [negb]; [exact IH|].
  cbn [alookup]. rewrite E. exact IH.
Qed.
Lemma alookup_adel_ne : forall k k' m, k' <> k -> alookup k' (adel k m) = alookup k' m.
Proof.
  intros k k' m Hne. induction m as [|[k2 v] m IH]; [reflexivity|].
  unfold adel in *. cbn [filter fst alookup]. destruct (beq k k2) eqn:E; cbn [negb].
  - apply kv_beq_iff in E. subst k2. rewrite (kv_beq_neq k' k Hne). exact IH.
  - cbn [alookup]. destruct (beq k' k2); [reflexivity | exact IH].
Qed.
Lemma alookup_aset_eq : forall k v m, alookup k (aset k v m) = Some v.
Proof. intros. unfold aset. cbn [alookup]. rewrite kv_beq_refl. reflexivity. Qed.
Lemma alookup_aset_ne : forall k k' v m, k' <> k -> alookup k' (aset k v m) = alookup k' m.
Proof.
  intros k k' v m Hne. unfold aset. cbn [alookup]. rewrite (kv_beq_neq k' k Hne).
  apply alookup_adel_ne. exact Hne.
Qed.

(* ---------- the abstraction function ---------- *)
Lemma strip_app : forall p i, strip p (p ++ i) = Some i.
Proof. induction p as [|a p IH]; intros i; cbn [strip app]; [reflexivity|]. rewrite N.eqb_refl. apply IH. Qed.
Lemma strip_some : forall p k i, strip p k = Some i -> k = p ++ i.
Proof.
  induction p as [|a p IH]; intros k i H; cbn [strip] in H.
  - inversion H. reflexivity.
  - destruct k as [|b k]; [discriminate|]. destruct (N.eqb_spec a b) as [E|E]; [|discriminate].
    subst b. cbn [app]. f_equal. apply IH. exact H.
Qed.

(* prefix + id: two ids never share a key *)
Lemma bkey_inj : forall p i j, bkey p i = bkey p j -> i = j.
Proof. intros p i j H. unfold bkey in H. eapply app_inv_head. exact H. Qed.

Lemma abs_lookup_pf : forall p st i, abs p st !! i = view p st i.
Proof.
  intros p st i. unfold view, bget, bkey. induction st as [|[k v] st IH].
  - unfold abs. cbn [foldr alookup]. rewrite lookup_empty. destruct (is_nil (p ++ i)); reflexivity.
  - unfold abs in *. cbn [foldr fst snd alookup].
    destruct (strip p k) as [i'|] eqn:Es.
    + apply strip_some in Es. subst k.
      destruct (is_nil (p ++ i')) eqn:En.
      * rewrite IH. destruct (is_nil (p ++ i)) eqn:En2; [reflexivity|].
        apply kv_is_nil_true in En. rewrite En.
        rewrite kv_beq_neq; [reflexivity|]. intros H. rewrite H in En2. discriminate.
      * destruct (decide (i = i')) as [->|Hne].
        -- rewrite lookup_insert. rewrite En. rewrite kv_beq_refl. reflexivity.
        -- rewrite lookup_insert_ne by congruence. rewrite IH.
           rewrite (kv_beq_neq (p ++ i) (p ++ i')); [reflexivity|].
           intros H. apply app_inv_head in H. contradiction.
    + rewrite IH. destruct (is_nil (p ++ i)); [reflexivity|].
      rewrite kv_beq_neq; [reflexivity|]. intros H. subst k. rewrite strip_app in Es. discriminate.
Qed.

Lemma abs_aset : forall p st i v, is_nil (p ++ i) = false ->
  abs p (aset (bkey p i) v st) = <[i := v]> (abs p st).
Proof.
  intros p st i v Hn. apply map_eq. intros j. rewrite abs_lookup_pf. unfold view, bget, bkey.
  destruct (decide (j = i)) as [->|Hne].
  - rewrite lookup_insert, Hn, alookup_aset_eq. reflexivity.
  - rewrite lookup_insert_ne by congruence. rewrite abs_lookup_pf. unfold view, bget, bkey.
    destruct (is_nil (p ++ j)); [reflexivity|]. apply alookup_aset_ne.
    intros H. apply app_inv_head in H. contradiction.
Qed.
Lemma abs_adel : forall p st i, abs p (adel (bkey p i) st) = delete i (abs p st).
Proof.
  intros p st i. apply map_eq. intros j. rewrite abs_lookup_pf. unfold view, bget, bkey.
  destruct (decide (j = i)) as [->|Hne].
  - rewrite lookup_delete, alookup_adel_eq. destruct (is_nil (p ++ i)); reflexivity.
  - rewrite lookup_delete_ne by congruence. rewrite abs_lookup_pf. unfold view, bget, bkey.
    destruct (is_nil (p ++ j)); [reflexivity|]. apply alookup_adel_ne.
    intros H. apply app_inv_head in H. contradiction.
Qed.

(* ---------- one step refines ---------- *)
Lemma bget_some_nonnil : forall p st i b, bget p st i = Some b -> is_nil (p ++ i) = false.
Proof. intros p st i b H. unfold bget, bkey in H. destruct (is_nil (p ++ i)); [discriminate | reflexivity]. Qed.

Lemma bstep_refines : forall p st o,
  spec_step cfg_badger (abs p st) o =
  let '(st', r, cbs) := bstep p st o in (abs p st', r, cbs).
Proof.
  intros p st o. destruct o as [i v e|i v e|i e|i|i]; cbn [spec_step bstep cfg_badger s_checks s_genid touch andb negb].
  - destruct (e_wrongtype e); [reflexivity|]. cbn [andb].
    rewrite andb_false_r, andb_true_r. cbn [negb].
    destruct (is_nil i) eqn:Ei; [reflexivity|].
    rewrite abs_lookup_pf. unfold view, bget. unfold bkey at 1. rewrite (kv_is_nil_app p i Ei).
    destruct (alookup (bkey p i) st); [reflexivity|].
    destruct (e_veto e); [reflexivity|]. destruct (e_unenc e); [reflexivity|].
    rewrite abs_aset by (apply kv_is_nil_app; exact Ei). reflexivity.
  - destruct (e_wrongtype e); [reflexivity|]. cbn [andb].
    rewrite abs_lookup_pf. unfold view. destruct (bget p st i) eqn:Eb; [|reflexivity].
    destruct (e_veto e); [reflexivity|]. destruct (e_unenc e); [reflexivity|].
    rewrite abs_aset by (eapply bget_some_nonnil; exact Eb). reflexivity.
  - rewrite abs_lookup_pf. unfold view. destruct (bget p st i) eqn:Eb; [|reflexivity].
    destruct (e_veto e); [reflexivity|]. rewrite abs_adel. reflexivity.
  - rewrite abs_lookup_pf. unfold view. destruct (bget p st i); reflexivity.
  - rewrite abs_lookup_pf. reflexivity.
Qed.

Lemma view_nil_pfx : forall st i, view [] st i = if is_nil i then None else alookup i st.
Proof. reflexivity. Qed.

Lemma mcreate_refines : forall st j v, is_nil j = false ->
  match abs [] st !! j with
  | Some _ => (abs [] st, EDuplicate, [])
  | None => (<[j := v]> (abs [] st), ROk, [(j, None, Some v)])
  end = let '(st', r, cbs) := mcreate st j v in (abs [] st', r, cbs).
Proof.
  intros st j v Hj. rewrite abs_lookup_pf, view_nil_pfx, Hj. unfold mcreate.
  destruct (alookup j st); [reflexivity|].
  pose proof (abs_aset [] st j v Hj) as A. unfold bkey in A. cbn [app] in A. rewrite A. reflexivity.
Qed.

Lemma mstep_refines : forall nid st o,
  spec_step (cfg_mock nid) (abs [] st) o =
  let '(st', r, cbs) := mstep nid st o in (abs [] st', r, cbs).
Proof.
  intros nid st o. destruct o as [i v e|i v e|i e|i|i]; cbn [spec_step mstep cfg_mock s_checks s_genid touch andb].
  - destruct (is_nil i) eqn:Ei; cbn [andb].
    + destruct nid; cbn [negb]; [|reflexivity].
      destruct (is_nil (e_newid e)) eqn:Eg; [reflexivity|]. apply mcreate_refines. exact Eg.
    + rewrite Ei. apply mcreate_refines. exact Ei.
  - rewrite abs_lookup_pf, view_nil_pfx. destruct (is_nil i) eqn:Ei; [reflexivity|].
    destruct (alookup i st); [|reflexivity].
    pose proof (abs_aset [] st i v Ei) as A. unfold bkey in A. cbn [app] in A. rewrite A. reflexivity.
  - rewrite abs_lookup_pf, view_nil_pfx. destruct (is_nil i) eqn:Ei; [reflexivity|].
    destruct (alookup i st); [|reflexivity].
    pose proof (abs_adel [] st i) as A. unfold bkey in A. cbn [app] in A. rewrite A. reflexivity.
  - rewrite abs_lookup_pf, view_nil_pfx. destruct (is_nil i); [reflexivity|]. destruct (alookup i st); reflexivity.
  - rewrite abs_lookup_pf, view_nil_pfx. destruct (is_nil i); reflexivity.
Qed.

(* ---------- whole histories ---------- *)
Lemma run_refines {St : Type} (step : St -> op -> St * result * list cbcall) (c : scfg) (f : St -> smap) :
  (forall st o, spec_step c (f st) o = let '(st', r, cbs) := step st o in (f st', r, cbs)) ->
  forall ops st, run (spec_step c) (f st) ops = let '(st', outs) := run step st ops in (f st', outs).
Proof.
  intros Hstep. induction ops as [|o ops IH]; intros st; cbn [run]; [reflexivity|].
  rewrite Hstep. destruct (step st o) as [[st1 r] cbs]. rewrite IH.
  destruct (run step st1 ops) as [st2 outs]. reflexivity.
Qed.

Lemma refines_badger_pf : forall pfx st ops,
  run (spec_step cfg_badger) (abs pfx st) ops =
  let '(st', outs) := run (bstep pfx) st ops in (abs pfx st', outs).
Proof. intros pfx st ops. apply run_refines. intros. apply bstep_refines. Qed.

Lemma refines_mock_pf : forall newid st ops,
  run (spec_step (cfg_mock newid)) (abs [] st) ops =
  let '(st', outs) := run (mstep newid) st ops in (abs [] st', outs).
Proof. intros newid st ops. apply run_refines. intros. apply mstep_refines. Qed.

(* ---------- the specification, factored: decision on the current value + one write ---------- *)
Inductive wr := WNone | WSet (v : val) | WDel.
Definition apply_wr (w : wr) (j : id) (m : smap) : smap :=
  match w with WNone => m | WSet v => <[j := v]> m | WDel => delete j m end.
Definition wr_val (w : wr) (cur : option val) : option val :=
  match w with WNone => cur | WSet v => Some v | WDel => None end.

Definition decide_op (c : scfg) (cur : option val) (o : op) : wr * result * list cbcall :=
  let j := touch c o in
  match o with
  | OCreate i v e =>
      if s_checks c && e_wrongtype e then (WNone, EType, [])
      else if is_nil i && negb (s_genid c) then (WNone, EMissingID, [])
      else if is_nil j then (WNone, RPanic, [])
      else match cur with
           | Some _ => (WNone, EDuplicate, [])
           | None => if s_checks c && e_veto e then (WNone, EVeto, [])
                     else if s_checks c && e_unenc e then (WNone, EEncode, [])
                     else (WSet v, ROk, [(j, None, Some v)])
           end
  | OUpdate i v e =>
      if s_checks c && e_wrongtype e then (WNone, EType, [])
      else match cur with
           | None => (WNone, ENotFound, [])
           | Some b => if s_checks c && e_veto e then (WNone, EVeto, [])
                       else if s_checks c && e_unenc e then (WNone, EEncode, [])
                       else (WSet v, ROk, [(j, Some b, Some v)])
           end
  | ODelete i e =>
      match cur with
      | None => (WNone, ENotFound, [])
      | Some b => if s_checks c && e_veto e then (WNone, EVeto, []) else (WDel, ROk, [(j, Some b, None)])
      end
  | OValue i => match cur with None => (WNone, ENotFound, []) | Some b => (WNone, RVal b, []) end
  | OExists i => (WNone, RBool (is_some cur), [])
  end.

Lemma spec_step_decide : forall c m o,
  spec_step c m o =
  let '(w, r, cbs) := decide_op c (m !! touch c o) o in (apply_wr w (touch c o) m, r, cbs).
Proof.
  intros c m o. destruct o as [i v e|i v e|i e|i|i]; cbn [spec_step decide_op].
  - destruct (s_checks c && e_wrongtype e); [reflexivity|].
    destruct (is_nil i && negb (s_genid c)); [reflexivity|].
    destruct (is_nil (touch c (OCreate i v e))); [reflexivity|].
    destruct (m !! touch c (OCreate i v e)); [reflexivity|].
    destruct (s_checks c && e_veto e); [reflexivity|]. destruct (s_checks c && e_unenc e); reflexivity.
  - cbn [touch]. destruct (s_checks c && e_wrongtype e); [reflexivity|].
    destruct (m !! i); [|reflexivity]. destruct (s_checks c && e_veto e); [reflexivity|].
    destruct (s_checks c && e_unenc e); reflexivity.
  - cbn [touch]. destruct (m !! i); [|reflexivity]. destruct (s_checks c && e_veto e); reflexivity.
  - cbn [touch]. destruct (m !! i); reflexivity.
  - reflexivity.
Qed.

Lemma apply_wr_ne : forall w j m k, k <> j -> apply_wr w j m !! k = m !! k.
Proof.
  intros w j m k H. destruct w; cbn [apply_wr]; [reflexivity| |].
  - apply lookup_insert_ne. congruence.
  - apply lookup_delete_ne. congruence.
Qed.
Lemma apply_wr_eq : forall w j m, apply_wr w j m !! j = wr_val w (m !! j).
Proof.
  intros w j m. destruct w; cbn [apply_wr wr_val]; [reflexivity| |].
  - apply lookup_insert.
  - apply lookup_delete.
Qed.

(* what decide_op can produce: a success writes and calls back exactly once with
   (id, current value, new value); everything else writes nothing and calls nothing *)
Lemma decide_shape : forall c cur o w r cbs,
  decide_op c cur o = (w, r, cbs) ->
  (r = ROk /\ is_mutation o = true /\ cbs = [(touch c o, cur, wr_val w cur)]) \/
  (r <> ROk /\ w = WNone /\ cbs = []).
Proof.
  intros c cur o w r cbs H. destruct o as [i v e|i v e|i e|i|i]; cbn [decide_op] in H.
  - destruct (s_checks c && e_wrongtype e); [inversion H; right; repeat split; congruence|].
    destruct (is_nil i && negb (s_genid c)); [inversion H; right; repeat split; congruence|].
    destruct (is_nil (touch c (OCreate i v e))); [inversion H; right; repeat split; congruence|].
    destruct cur; [inversion H; right; repeat split; congruence|].
    destruct (s_checks c && e_veto e); [inversion H; right; repeat split; congruence|].
    destruct (s_checks c && e_unenc e); inversion H; [right; repeat split; congruence|].
    left. repeat split.
  - destruct (s_checks c && e_wrongtype e); [inversion H; right; repeat split; congruence|].
    destruct cur; [|inversion H; right; repeat split; congruence].
    destruct (s_checks c && e_veto e); [inversion H; right; repeat split; congruence|].
    destruct (s_checks c && e_unenc e); inversion H; [right; repeat split; congruence|].
    left. repeat split.
  - destruct cur; [|inversion H; right; repeat split; congruence].
    destruct (s_checks c && e_veto e); inversion H; [right; repeat split; congruence|].
    left. repeat split.
  - destruct cur; inversion H; right; repeat split; congruence.
  - inversion H; right; repeat split; congruence.
Qed.

(* the property's per-operation clauses, on the specification *)
Lemma spec_step_exact_pf : forall c m o m' r cbs,
  spec_step c m o = (m', r, cbs) ->
  (r = ROk /\ is_mutation o = true /\
   cbs = [(touch c o, m !! touch c o, m' !! touch c o)] /\
   (forall k, k <> touch c o -> m' !! k = m !! k)) \/
  (r <> ROk /\ cbs = [] /\ m' = m).
Proof.
  intros c m o m' r cbs H. rewrite spec_step_decide in H.
  destruct (decide_op c (m !! touch c o) o) as [[w r0] cbs0] eqn:Ed.
  inversion H; subst; clear H.
  destruct (decide_shape _ _ _ _ _ _ Ed) as [(Hr & Hm & Hc)|(Hr & Hw & Hc)].
  - left. repeat split; try assumption.
    + rewrite apply_wr_eq. exact Hc.
    + intros k Hk. apply apply_wr_ne. exact Hk.
  - right. subst w. repeat split; assumption.
Qed.

Lemma failed_changes_nothing_pf : forall c m o m' r cbs,
  spec_step c m o = (m', r, cbs) -> is_failure r = true -> m' = m /\ cbs = [].
Proof.
  intros c m o m' r cbs H Hf. destruct (spec_step_exact_pf _ _ _ _ _ _ H) as [(Hr & _)|(_ & Hc & Hm)].
  - subst r. discriminate.
  - split; assumption.
Qed.

Lemma reads_change_nothing_pf : forall c m o m' r cbs,
  spec_step c m o = (m', r, cbs) -> is_mutation o = false -> m' = m /\ cbs = [].
Proof.
  intros c m o m' r cbs H Hf. destruct (spec_step_exact_pf _ _ _ _ _ _ H) as [(_ & Hm & _)|(_ & Hc & Hm)].
  - congruence.
  - split; assumption.
Qed.

(* error clauses of the property *)
Lemma create_existing_duplicate_pf : forall c (m : smap) (i : id) v e b,
  is_nil i = false -> (s_checks c && e_wrongtype e) = false -> m !! i = Some b ->
  spec_step c m (OCreate i v e) = (m, EDuplicate, []).
Proof.
  intros c m i v e b Hi Ht Hb. cbn [spec_step touch]. rewrite Ht, Hi. cbn [andb]. rewrite Hi, Hb. reflexivity.
Qed.
Lemma create_empty_id_fails_pf : forall c m v e,
  s_genid c = false -> exists r, is_failure r = true /\ spec_step c m (OCreate [] v e) = (m, r, []).
Proof.
  intros c m v e Hg. cbn [spec_step touch is_nil]. rewrite Hg. cbn [negb andb].
  destruct (s_checks c && e_wrongtype e); eexists; split; try reflexivity; reflexivity.
Qed.
Lemma missing_not_found_pf : forall c m i,
  m !! i = None ->
  (forall v e, (s_checks c && e_wrongtype e) = false -> spec_step c m (OUpdate i v e) = (m, ENotFound, [])) /\
  (forall e, spec_step c m (ODelete i e) = (m, ENotFound, [])) /\
  spec_step c m (OValue i) = (m, ENotFound, []) /\
  spec_step c m (OExists i) = (m, RBool false, []).
Proof.
  intros c m i H. split; [|split; [|split]].
  - intros v e Ht. cbn [spec_step]. rewrite Ht, H. reflexivity.
  - intros e. cbn [spec_step]. rewrite H. reflexivity.
  - cbn [spec_step]. rewrite H. reflexivity.
  - cbn [spec_step]. rewrite H. reflexivity.
Qed.
Lemma wrongtype_or_veto_fails_pf : forall c m o m' r cbs,
  s_checks c = true ->
  match o with
  | OCreate _ _ e | OUpdate _ _ e => e_wrongtype e || e_veto e || e_unenc e
  | ODelete _ e => e_veto e
  | _ => false
  end = true ->
  spec_step c m o = (m', r, cbs) -> is_failure r = true /\ m' = m /\ cbs = [].
Proof.
  intros c m o m' r cbs Hc Hf H.
  assert (Hr : is_failure r = true).
  { destruct o as [i v e|i v e|i e|i|i]; try discriminate; cbn [spec_step] in H; rewrite Hc in H; cbn [andb] in H.
    - destruct (e_wrongtype e); [inversion H; reflexivity|]. cbn [orb] in Hf.
      destruct (is_nil i && negb (s_genid c)); [inversion H; reflexivity|].
      destruct (is_nil (touch c (OCreate i v e))); [inversion H; reflexivity|].
      destruct (m !! touch c (OCreate i v e)); [inversion H; reflexivity|].
      destruct (e_veto e); [inversion H; reflexivity|]. cbn [orb] in Hf. rewrite Hf in H. inversion H; reflexivity.
    - destruct (e_wrongtype e); [inversion H; reflexivity|]. cbn [orb] in Hf.
      destruct (m !! i); [|inversion H; reflexivity].
      destruct (e_veto e); [inversion H; reflexivity|]. cbn [orb] in Hf. rewrite Hf in H. inversion H; reflexivity.
    - rewrite Hf in H. destruct (m !! i); inversion H; reflexivity. }
  split; [exact Hr|]. eapply failed_changes_nothing_pf; eassumption.
Qed.

(* reads inside a write transaction see its own writes *)
Lemma read_your_writes_pf : forall c m o m' cbs,
  spec_step c m o = (m', ROk, cbs) ->
  spec_step c m' (OValue (touch c o)) =
    (m', match m' !! touch c o with Some v => RVal v | None => ENotFound end, []) /\
  match o with
  | OCreate _ v _ | OUpdate _ v _ => m' !! touch c o = Some v
  | ODelete _ _ => m' !! touch c o = None
  | _ => True
  end.
Proof.
  intros c m o m' cbs H. split.
  - cbn [spec_step]. destruct (m' !! touch c o); reflexivity.
  - rewrite spec_step_decide in H.
    destruct (decide_op c (m !! touch c o) o) as [[w r0] cbs0] eqn:Ed. inversion H; subst; clear H.
    rewrite apply_wr_eq.
    destruct o as [i v e|i v e|i e|i|i]; cbn [decide_op] in Ed; try exact I.
    + destruct (s_checks c && e_wrongtype e); [discriminate|].
      destruct (is_nil i && negb (s_genid c)); [discriminate|].
      destruct (is_nil (touch c (OCreate i v e))); [discriminate|].
      destruct (m !! touch c (OCreate i v e)); [discriminate|].
      destruct (s_checks c && e_veto e); [discriminate|]. destruct (s_checks c && e_unenc e); inversion Ed. reflexivity.
    + destruct (s_checks c && e_wrongtype e); [discriminate|].
      destruct (m !! touch c (OUpdate i v e)); [|discriminate].
      destruct (s_checks c && e_veto e); [discriminate|]. destruct (s_checks c && e_unenc e); inversion Ed. reflexivity.
    + destruct (m !! touch c (ODelete i e)); [|discriminate].
      destruct (s_checks c && e_veto e); inversion Ed. reflexivity.
Qed.

(* ---------- callback chain ---------- *)
Lemma cbs_on_app : forall i a b, cbs_on i (a ++ b) = cbs_on i a ++ cbs_on i b.
Proof. intros. unfold cbs_on. rewrite filter_app, map_app. reflexivity. Qed.

Lemma chain_app : forall l1 l2 init,
  chain init l1 -> chain (chain_end init l1) l2 -> chain init (l1 ++ l2).
Proof.
  induction l1 as [|[b a] l1 IH]; intros l2 init H1 H2; cbn [app chain chain_end] in *; [exact H2|].
  destruct H1 as [Hb H1]. split; [exact Hb|]. apply IH; assumption.
Qed.
Lemma chain_end_app : forall l1 l2 init, chain_end init (l1 ++ l2) = chain_end (chain_end init l1) l2.
Proof. induction l1 as [|[b a] l1 IH]; intros; cbn [app chain_end]; [reflexivity | apply IH]. Qed.

Lemma spec_step_cb : forall c m o m' r cbs i,
  spec_step c m o = (m', r, cbs) ->
  (cbs_on i cbs = [] /\ m' !! i = m !! i) \/ cbs_on i cbs = [(m !! i, m' !! i)].
Proof.
  intros c m o m' r cbs i H. destruct (spec_step_exact_pf _ _ _ _ _ _ H) as [(_ & _ & Hc & Hk)|(_ & Hc & Hm)].
  - subst cbs. unfold cbs_on, cb_on. cbn [filter fst snd].
    destruct (beq (touch c o) i) eqn:E.
    + apply kv_beq_iff in E. subst i. right. reflexivity.
    + left. split; [reflexivity|]. apply Hk. intros E'. subst i. rewrite kv_beq_refl in E. discriminate.
  - subst. left. split; reflexivity.
Qed.

Lemma spec_chain : forall c ops m i,
  let '(m', outs) := run (spec_step c) m ops in
  chain (m !! i) (cbs_on i (cbs_of outs)) /\ chain_end (m !! i) (cbs_on i (cbs_of outs)) = m' !! i.
Proof.
  intros c. induction ops as [|o ops IH]; intros m i; cbn [run].
  - cbn. split; [exact I | reflexivity].
  - destruct (spec_step c m o) as [[m1 r] cbs] eqn:Es. specialize (IH m1 i).
    destruct (run (spec_step c) m1 ops) as [m2 outs]. destruct IH as [IH1 IH2].
    unfold cbs_of in *. cbn [map snd concat]. rewrite cbs_on_app.
    destruct (spec_step_cb _ _ _ _ _ _ i Es) as [[Hn He]|Hn]; rewrite Hn.
    + cbn [app]. rewrite <- He. split; assumption.
    + cbn [app chain chain_end]. repeat split; assumption.
Qed.

Lemma callback_chain_spec_pf : forall c m ops i m' outs,
  run (spec_step c) m ops = (m', outs) ->
  chain (m !! i) (cbs_on i (cbs_of outs)) /\ chain_end (m !! i) (cbs_on i (cbs_of outs)) = m' !! i.
Proof. intros c m ops i m' outs H. pose proof (spec_chain c ops m i) as P. rewrite H in P. exact P. Qed.

Lemma callback_chain_badger_pf : forall pfx st ops i st' outs,
  run (bstep pfx) st ops = (st', outs) ->
  chain (view pfx st i) (cbs_on i (cbs_of outs)) /\
  chain_end (view pfx st i) (cbs_on i (cbs_of outs)) = view pfx st' i.
Proof.
  intros pfx st ops i st' outs H. pose proof (refines_badger_pf pfx st ops) as R. rewrite H in R.
  rewrite <- !abs_lookup_pf. eapply callback_chain_spec_pf. exact R.
Qed.
Lemma callback_chain_mock_pf : forall newid st ops i st' outs,
  run (mstep newid) st ops = (st', outs) ->
  chain (view [] st i) (cbs_on i (cbs_of outs)) /\
  chain_end (view [] st i) (cbs_on i (cbs_of outs)) = view [] st' i.
Proof.
  intros newid st ops i st' outs H. pose proof (refines_mock_pf newid st ops) as R. rewrite H in R.
  rewrite <- !abs_lookup_pf. eapply callback_chain_spec_pf. exact R.
Qed.

(* ---------- per-id independence ---------- *)
Lemma spec_step_other : forall c m o i, touch c o <> i -> (fst (fst (spec_step c m o))) !! i = m !! i.
Proof.
  intros c m o i H. rewrite spec_step_decide.
  destruct (decide_op c (m !! touch c o) o) as [[w r] cbs]. cbn [fst]. apply apply_wr_ne. congruence.
Qed.
Lemma spec_step_local : forall c m1 m2 o,
  m1 !! touch c o = m2 !! touch c o ->
  snd (fst (spec_step c m1 o)) = snd (fst (spec_step c m2 o)) /\
  snd (spec_step c m1 o) = snd (spec_step c m2 o) /\
  fst (fst (spec_step c m1 o)) !! touch c o = fst (fst (spec_step c m2 o)) !! touch c o.
Proof.
  intros c m1 m2 o H. rewrite !spec_step_decide. rewrite H.
  destruct (decide_op c (m2 !! touch c o) o) as [[w r] cbs]. cbn [fst snd].
  repeat split. rewrite !apply_wr_eq, H. reflexivity.
Qed.

Lemma per_id_gen : forall c i ops m1 m2,
  m1 !! i = m2 !! i ->
  outs_on c i ops (snd (run (spec_step c) m1 ops)) = snd (run (spec_step c) m2 (ops_on c i ops)) /\
  fst (run (spec_step c) m1 ops) !! i = fst (run (spec_step c) m2 (ops_on c i ops)) !! i.
Proof.
  intros c i. induction ops as [|o ops IH]; intros m1 m2 H.
  - cbn. split; [reflexivity | exact H].
  - unfold ops_on in *. cbn [run filter].
    destruct (beq (touch c o) i) eqn:E.
    + apply kv_beq_iff in E. cbn [run].
      assert (H' : m1 !! touch c o = m2 !! touch c o) by (rewrite E; exact H).
      destruct (spec_step_local c m1 m2 o H') as (Hr & Hc & Hm).
      destruct (spec_step c m1 o) as [[m1' r1] c1]. destruct (spec_step c m2 o) as [[m2' r2] c2].
      cbn [fst snd] in Hr, Hc, Hm. subst r2 c2. rewrite E in Hm.
      specialize (IH m1' m2' Hm).
      destruct (run (spec_step c) m1' ops) as [ma oa].
      destruct (run (spec_step c) m2' (filter (fun o0 => beq (touch c o0) i) ops)) as [mb ob].
      cbn [fst snd outs_on] in *. rewrite <- E at 1. rewrite kv_beq_refl.
      destruct IH as [IH1 IH2]. split; [f_equal; exact IH1 | exact IH2].
    + pose proof (spec_step_other c m1 o i (kv_beq_false _ _ E)) as Ho.
      destruct (spec_step c m1 o) as [[m1' r1] c1]. cbn [fst] in Ho.
      assert (Hm : m1' !! i = m2 !! i) by (rewrite Ho; exact H).
      specialize (IH m1' m2 Hm).
      destruct (run (spec_step c) m1' ops) as [ma oa].
      cbn [fst snd outs_on] in *. rewrite E. exact IH.
Qed.

Lemma per_id_independent_pf : forall c m ops i m' outs mi outsi,
  run (spec_step c) m ops = (m', outs) ->
  run (spec_step c) m (ops_on c i ops) = (mi, outsi) ->
  outs_on c i ops outs = outsi /\ m' !! i = mi !! i.
Proof.
  intros c m ops i m' outs mi outsi H1 H2.
  pose proof (per_id_gen c i ops m m eq_refl) as P. rewrite H1, H2 in P. exact P.
Qed.

(* operations on different ids commute *)
Lemma apply_wr_comm : forall w1 w2 j1 j2 m, j1 <> j2 ->
  apply_wr w2 j2 (apply_wr w1 j1 m) = apply_wr w1 j1 (apply_wr w2 j2 m).
Proof.
  intros w1 w2 j1 j2 m H. apply map_eq. intros k.
  destruct (decide (k = j1)) as [->|H1].
  - rewrite apply_wr_ne by exact H. rewrite !apply_wr_eq. rewrite apply_wr_ne by exact H. reflexivity.
  - rewrite (apply_wr_ne w1 j1 _ k H1).
    destruct (decide (k = j2)) as [->|H2].
    + rewrite !apply_wr_eq. rewrite apply_wr_ne by exact H1. reflexivity.
    + rewrite !apply_wr_ne by assumption. reflexivity.
Qed.

Lemma spec_step_commute_pf : forall c m o1 o2 m' x1 x2,
  touch c o1 <> touch c o2 ->
  run (spec_step c) m [o1; o2] = (m', [x1; x2]) ->
  run (spec_step c) m [o2; o1] = (m', [x2; x1]).
Proof.
  intros c m o1 o2 m' x1 x2 Hne H. cbn [run] in *.
  destruct (spec_step c m o1) as [[ma r1] c1] eqn:S1.
  destruct (spec_step c ma o2) as [[mb r2] c2] eqn:S2.
  inversion H; subst; clear H.
  rewrite spec_step_decide in S1.
  destruct (decide_op c (m !! touch c o1) o1) as [[w1 r1'] c1'] eqn:E1. inversion S1; subst; clear S1.
  rewrite spec_step_decide in S2.
  rewrite apply_wr_ne in S2 by congruence.
  destruct (decide_op c (m !! touch c o2) o2) as [[w2 r2'] c2'] eqn:E2. inversion S2; subst; clear S2.
  rewrite (spec_step_decide c m o2). rewrite E2.
  rewrite (spec_step_decide c _ o1). rewrite apply_wr_ne by congruence. rewrite E1.
  rewrite (apply_wr_comm w1 w2 (touch c o1) (touch c o2) m Hne). reflexivity.
Qed.

(* regrouping a history id by id *)
Lemma ops_on_app : forall c i a b, ops_on c i (a ++ b) = ops_on c i a ++ ops_on c i b.
Proof. intros. unfold ops_on. apply filter_app. Qed.
Lemma ops_on_idem : forall c i ops, ops_on c i (ops_on c i ops) = ops_on c i ops.
Proof.
  intros c i ops. unfold ops_on. induction ops as [|o ops IH]; [reflexivity|].
  cbn [filter]. destruct (beq (touch c o) i) eqn:E; [|exact IH]. cbn [filter]. rewrite E, IH. reflexivity.
Qed.
Lemma ops_on_other : forall c i j ops, i <> j -> ops_on c i (ops_on c j ops) = [].
Proof.
  intros c i j ops H. unfold ops_on. induction ops as [|o ops IH]; [reflexivity|].
  cbn [filter]. destruct (beq (touch c o) j) eqn:E; [|exact IH]. cbn [filter].
  apply kv_beq_iff in E. rewrite E. rewrite (kv_beq_neq j i) by congruence. exact IH.
Qed.
Lemma ops_on_none : forall c i ops, (forall o, In o ops -> touch c o <> i) -> ops_on c i ops = [].
Proof.
  intros c i ops H. unfold ops_on. induction ops as [|o ops IH]; [reflexivity|].
  cbn [filter]. rewrite (kv_beq_neq (touch c o) i) by (apply H; left; reflexivity).
  apply IH. intros o' Ho'. apply H. right. exact Ho'.
Qed.

Lemma ops_on_serialize_notin : forall c i ids ops, ~ In i ids -> ops_on c i (serialize c ids ops) = [].
Proof.
  intros c i ids ops. unfold serialize. induction ids as [|j ids IH]; intros H; [reflexivity|].
  cbn [map concat]. rewrite ops_on_app. rewrite ops_on_other.
  - cbn [app]. apply IH. intros Hin. apply H. right. exact Hin.
  - intros E. apply H. left. symmetry. exact E.
Qed.
Lemma ops_on_serialize : forall c i ids ops,
  List.NoDup ids -> (forall o, In o ops -> In (touch c o) ids) ->
  ops_on c i (serialize c ids ops) = ops_on c i ops.
Proof.
  intros c i ids ops Hnd Hcov.
  destruct (in_dec (list_eq_dec N.eq_dec) i ids) as [Hin|Hnin].
  - clear Hcov. induction ids as [|j ids IH]; [destruct Hin|].
    unfold serialize in *. cbn [map concat]. rewrite ops_on_app.
    inversion Hnd as [|? ? Hj Hnd']; subst.
    destruct (list_eq_dec N.eq_dec i j) as [->|Hne].
    + rewrite ops_on_idem. fold (serialize c ids ops). rewrite ops_on_serialize_notin by exact Hj.
      apply app_nil_r.
    + rewrite ops_on_other by exact Hne. cbn [app]. apply IH; [exact Hnd'|].
      destruct Hin as [E|Hin]; [congruence | exact Hin].
  - rewrite ops_on_serialize_notin by exact Hnin. symmetry. apply ops_on_none.
    intros o Ho E. apply Hnin. rewrite <- E. apply Hcov. exact Ho.
Qed.

(* an interleaved history and the one with each id's operations contiguous end in
   the same map and give every id the same outcomes in the same order *)
Lemma serialize_equiv_pf : forall c m ops ids m1 outs1 m2 outs2,
  List.NoDup ids -> (forall o, In o ops -> In (touch c o) ids) ->
  run (spec_step c) m ops = (m1, outs1) ->
  run (spec_step c) m (serialize c ids ops) = (m2, outs2) ->
  m1 = m2 /\ forall i, outs_on c i ops outs1 = outs_on c i (serialize c ids ops) outs2.
Proof.
  intros c m ops ids m1 outs1 m2 outs2 Hnd Hcov H1 H2.
  assert (P : forall i, outs_on c i ops outs1 = outs_on c i (serialize c ids ops) outs2 /\ m1 !! i = m2 !! i).
  { intros i.
    destruct (run (spec_step c) m (ops_on c i ops)) as [mi outsi] eqn:Hi.
    destruct (per_id_independent_pf _ _ _ i _ _ _ _ H1 Hi) as [A1 A2].
    assert (Hi' : run (spec_step c) m (ops_on c i (serialize c ids ops)) = (mi, outsi))
      by (rewrite ops_on_serialize by assumption; exact Hi).
    destruct (per_id_independent_pf _ _ _ i _ _ _ _ H2 Hi') as [B1 B2].
    split; congruence. }
  split.
  - apply map_eq. intros i. apply P.
  - intros i. apply P.
Qed.

(* ---------- BeforeChange calls ---------- *)
Lemma bstep_bc_refines_pf : forall pfx nl st o,
  bstep_bc pfx nl st o = spec_bc cfg_badger nl (abs pfx st) o.
Proof.
  intros pfx nl st o. unfold spec_bc. cbn [cfg_badger s_checks s_genid negb].
  destruct o as [i v e|i v e|i e|i|i]; cbn [bstep_bc touch andb]; try reflexivity.
  - destruct (e_wrongtype e); [reflexivity|]. rewrite andb_true_r.
    destruct (is_nil i) eqn:Ei; [reflexivity|]. rewrite andb_false_r, Ei.
    rewrite abs_lookup_pf. unfold view, bget. unfold bkey at 2. rewrite (kv_is_nil_app pfx i Ei).
    reflexivity.
  - destruct (e_wrongtype e); [reflexivity|]. rewrite abs_lookup_pf. reflexivity.
  - rewrite abs_lookup_pf. reflexivity.
Qed.

Lemma spec_bc_mock_pf : forall newid nl m o, spec_bc (cfg_mock newid) nl m o = [].
Proof. reflexivity. Qed.

Lemma bstep_state_refines : forall pfx st o,
  fst (fst (spec_step cfg_badger (abs pfx st) o)) = abs pfx (fst (fst (bstep pfx st o))).
Proof.
  intros pfx st o. rewrite bstep_refines. destruct (bstep pfx st o) as [[st' r] cbs]. reflexivity.
Qed.

Lemma run_bc_refines_badger_pf : forall pfx nl ops st,
  run_bc (bstep pfx) (bstep_bc pfx nl) st ops =
  run_bc (spec_step cfg_badger) (spec_bc cfg_badger nl) (abs pfx st) ops.
Proof.
  intros pfx nl. induction ops as [|o ops IH]; intros st; cbn [run_bc]; [reflexivity|].
  rewrite bstep_bc_refines_pf, bstep_state_refines, IH. reflexivity.
Qed.

(* listeners 1..n in order, all with the same arguments, stopping at the first veto *)
Lemma bc_go_shape : forall n idx k i b a,
  bc_go n idx k i b a =
  map (fun x => (x, i, b, a))
      (seq idx (if (idx <=? k)%nat && (k <? idx + n)%nat then (k - idx + 1)%nat else n)).
Proof.
  induction n as [|n IH]; intros idx k i b a; cbn [bc_go].
  - destruct (Nat.leb_spec idx k); destruct (Nat.ltb_spec k (idx + 0)); cbn [andb]; try reflexivity. lia.
  - destruct (Nat.eqb_spec idx k) as [E|E].
    + subst k. rewrite Nat.leb_refl. destruct (Nat.ltb_spec idx (idx + S n)); [|lia]. cbn [andb].
      replace (idx - idx + 1)%nat with 1%nat by lia. reflexivity.
    + rewrite IH.
      destruct (Nat.leb_spec idx k); destruct (Nat.ltb_spec k (idx + S n)); cbn [andb];
      destruct (Nat.leb_spec (S idx) k); destruct (Nat.ltb_spec k (S idx + n)); cbn [andb]; try lia.
      * replace (k - idx + 1)%nat with (S (k - S idx + 1)) by lia. reflexivity.
      * reflexivity.
      * reflexivity.
Qed.

Lemma bc_calls_shape_pf : forall nl k i b a,
  bc_calls nl k i b a =
  map (fun x => (x, i, b, a)) (seq 1 (if Nat.eqb k 0 || (nl <? k)%nat then nl else k)).
Proof.
  intros nl k i b a. unfold bc_calls. rewrite bc_go_shape. f_equal. f_equal.
  destruct (Nat.eqb_spec k 0); destruct (Nat.ltb_spec nl k); destruct (Nat.leb_spec 1 k);
    destruct (Nat.ltb_spec k (1 + nl)); cbn [andb orb]; lia.
Qed.

(* BeforeChange listeners are called exactly for the operations that reach the listener
   stage, i.e. those that end in success or in a veto; the outcome is a veto exactly
   when some listener vetoes *)
Lemma spec_bc_stage_pf : forall c nl m o m' r cbs,
  s_checks c = true -> spec_step c m o = (m', r, cbs) ->
  (is_mutation o = true /\
   r = (if negb (Nat.eqb (vetoat_of o) 0) then EVeto else if unenc_of o then EEncode else ROk) /\
   spec_bc c nl m o = bc_calls nl (vetoat_of o) (touch c o) (m !! touch c o) (after_of o)) \/
  (r <> ROk /\ r <> EVeto /\ r <> EEncode /\ spec_bc c nl m o = []).
Proof.
  intros c nl m o m' r cbs Hc H. unfold spec_bc. rewrite Hc. cbn [negb].
  destruct o as [i v e|i v e|i e|i|i]; cbn [spec_step] in H; rewrite ?Hc in H; cbn [andb] in H;
    cbn [vetoat_of after_of is_mutation].
  - destruct (e_wrongtype e); [inversion H; right; repeat split; congruence|].
    destruct (is_nil i && negb (s_genid c)); [inversion H; right; repeat split; congruence|].
    destruct (is_nil (touch c (OCreate i v e))); [inversion H; right; repeat split; congruence|].
    destruct (m !! touch c (OCreate i v e)) eqn:El; [inversion H; right; repeat split; congruence|].
    left. unfold e_veto in H. cbn [unenc_of]. split; [reflexivity|].
    destruct (Nat.eqb (e_vetoat e) 0); cbn [negb] in H; [|inversion H; split; reflexivity].
    destruct (e_unenc e); inversion H; split; reflexivity.
  - destruct (e_wrongtype e); [inversion H; right; repeat split; congruence|]. cbn [touch].
    destruct (m !! i) eqn:El; [|inversion H; right; repeat split; congruence].
    left. unfold e_veto in H. cbn [unenc_of]. split; [reflexivity|].
    destruct (Nat.eqb (e_vetoat e) 0); cbn [negb] in H; [|inversion H; split; reflexivity].
    destruct (e_unenc e); inversion H; split; reflexivity.
  - cbn [touch]. destruct (m !! i) eqn:El; [|inversion H; right; repeat split; congruence].
    left. unfold e_veto in H. cbn [unenc_of]. split; [reflexivity|].
    destruct (Nat.eqb (e_vetoat e) 0); cbn [negb] in H; inversion H; split; reflexivity.
  - right. destruct (m !! i); inversion H; repeat split; congruence.
  - right. inversion H; repeat split; congruence.
Qed.

(* ---------- results do not depend on the registered listeners ---------- *)
Lemma results_independent_of_listeners_pf : forall pfx newid c st (m : smap) o o',
  op_sim o o' ->
  bstep pfx st o = bstep pfx st o' /\ mstep newid st o = mstep newid st o' /\ spec_step c m o = spec_step c m o'.
Proof.
  intros pfx newid c st m o o' H.
  destruct o as [i v e|i v e|i e|i|i]; destruct o' as [i' v' e'|i' v' e'|i' e'|i'|i']; cbn [op_sim] in H; try contradiction.
  - destruct H as (-> & -> & Hw & Hv & Hn & Hu). cbn [bstep mstep spec_step touch]. rewrite Hw, Hv, Hn, Hu. repeat split.
  - destruct H as (-> & -> & Hw & Hv & Hn & Hu). cbn [bstep mstep spec_step touch]. rewrite Hw, Hv, Hu. repeat split.
  - destruct H as (-> & Hw & Hv & Hn & Hu). cbn [bstep mstep spec_step touch]. rewrite Hv. repeat split.
  - subst. repeat split.
  - subst. repeat split.
Qed.
