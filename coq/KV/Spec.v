(* Abstract specification for C11: one operation at a time on a finite map
   id -> value (std++ gmap).  [s_checks]: the store checks the value type and has
   BeforeChange callbacks (badgerstore); [s_genid]: the store generates ids
   (mockstore with NewID set). *)
From stdpp Require Import gmap.
From GoRes Require Export KV.Model.

Record scfg := SC { s_checks : bool; s_genid : bool }.
Definition cfg_badger : scfg := SC true false.
Definition cfg_mock (newid : bool) : scfg := SC false newid.

Notation smap := (gmap id val).

(* the id an operation acts on *)
Definition touch (c : scfg) (o : op) : id :=
  match o with
  | OCreate i _ e => if is_nil i && s_genid c then e_newid e else i
  | OUpdate i _ _ | ODelete i _ | OValue i | OExists i => i
  end.

Definition spec_step (c : scfg) (m : smap) (o : op) : smap * result * list cbcall :=
  match o with
  | OCreate i v e =>
      if s_checks c && e_wrongtype e then (m, EType, [])
      else if is_nil i && negb (s_genid c) then (m, EMissingID, [])
      else
        let j := touch c o in
        if is_nil j then (m, RPanic, [])          (* the id generator broke its contract *)
        else match m !! j with
             | Some _ => (m, EDuplicate, [])
             | None =>
                 if s_checks c && e_veto e then (m, EVeto, [])
                 else if s_checks c && e_unenc e then (m, EEncode, [])
                 else (<[j := v]> m, ROk, [(j, None, Some v)])
             end
  | OUpdate i v e =>
      if s_checks c && e_wrongtype e then (m, EType, [])
      else match m !! i with
           | None => (m, ENotFound, [])
           | Some b =>
               if s_checks c && e_veto e then (m, EVeto, [])
               else if s_checks c && e_unenc e then (m, EEncode, [])
               else (<[i := v]> m, ROk, [(i, Some b, Some v)])
           end
  | ODelete i e =>
      match m !! i with
      | None => (m, ENotFound, [])
      | Some b =>
          if s_checks c && e_veto e then (m, EVeto, [])
          else (delete i m, ROk, [(i, Some b, None)])
      end
  | OValue i =>
      match m !! i with
      | None => (m, ENotFound, [])
      | Some b => (m, RVal b, [])
      end
  | OExists i => (m, RBool (is_some (m !! i)), [])
  end.

(* BeforeChange calls of one operation: made exactly when the operation reaches the
   listener stage (a mutation of a checking store that is neither ill-typed nor
   rejected for its id or the (non-)existence of the value) *)
Definition spec_bc (c : scfg) (nl : nat) (m : smap) (o : op) : list bccall :=
  if negb (s_checks c) then [] else
  match o with
  | OCreate i v e =>
      if e_wrongtype e then []
      else if is_nil i && negb (s_genid c) then []
      else let j := touch c o in
        if is_nil j then []
        else match m !! j with
             | Some _ => []
             | None => bc_calls nl (e_vetoat e) j None (Some v)
             end
  | OUpdate i v e =>
      if e_wrongtype e then []
      else match m !! i with
           | None => []
           | Some b => bc_calls nl (e_vetoat e) i (Some b) (Some v)
           end
  | ODelete i e =>
      match m !! i with
      | None => []
      | Some b => bc_calls nl (e_vetoat e) i (Some b) None
      end
  | _ => []
  end.

(* the value an operation would write *)
Definition after_of (o : op) : option val :=
  match o with OCreate _ v _ | OUpdate _ v _ => Some v | _ => None end.
Definition unenc_of (o : op) : bool :=
  match o with OCreate _ _ e | OUpdate _ _ e => e_unenc e | _ => false end.
Definition vetoat_of (o : op) : nat :=
  match o with OCreate _ _ e | OUpdate _ _ e | ODelete _ e => e_vetoat e | _ => 0%nat end.

(* abstraction: the finite map a reader of the concrete content sees.  Keys not
   under the prefix and the empty key (badger.ErrEmptyKey / mockstore's
   empty-id rule) are invisible.  foldr: the head of the association list wins. *)
Fixpoint strip (p k : bytes) : option bytes :=
  match p, k with
  | [], _ => Some k
  | a :: p', b :: k' => if (a =? b)%N then strip p' k' else None
  | _ :: _, [] => None
  end.

Definition abs (pfx : bytes) (st : kvstate) : smap :=
  foldr (fun kv m =>
           match strip pfx (fst kv) with
           | Some i => if is_nil (fst kv) then m else <[i := snd kv]> m
           | None => m
           end) ∅ st.

(* two calls that differ at most in WHICH BeforeChange listener vetoes (hence also in how many
   listeners are registered: none, one, several), but agree on whether one does *)
Definition env_sim (e e' : env) : Prop :=
  e_wrongtype e = e_wrongtype e' /\ e_veto e = e_veto e' /\ e_newid e = e_newid e' /\ e_unenc e = e_unenc e'.
Definition op_sim (o o' : op) : Prop :=
  match o, o' with
  | OCreate i v e, OCreate i' v' e' => i = i' /\ v = v' /\ env_sim e e'
  | OUpdate i v e, OUpdate i' v' e' => i = i' /\ v = v' /\ env_sim e e'
  | ODelete i e, ODelete i' e' => i = i' /\ env_sim e e'
  | OValue i, OValue i' => i = i'
  | OExists i, OExists i' => i = i'
  | _, _ => False
  end.

(* classification of results *)
Definition is_failure (r : result) : bool :=
  match r with ENotFound | EDuplicate | EMissingID | EType | EVeto | RPanic | EEncode | EOther => true | _ => false end.
Definition is_mutation (o : op) : bool :=
  match o with OCreate _ _ _ | OUpdate _ _ _ | ODelete _ _ => true | _ => false end.

(* callbacks of a run, and their projection on one id *)
Definition cbs_of (outs : list outcome) : list cbcall := concat (map snd outs).
Definition cb_on (i : id) (cb : cbcall) : bool := beq (fst (fst cb)) i.
Definition cbs_on (i : id) (cbs : list cbcall) : list (option val * option val) :=
  map (fun cb => (snd (fst cb), snd cb)) (filter (cb_on i) cbs).

(* before_{k+1} = after_k, the first before is [init]; returns the last after *)
Fixpoint chain (init : option val) (l : list (option val * option val)) : Prop :=
  match l with
  | [] => True
  | (b, a) :: r => b = init /\ chain a r
  end.
Fixpoint chain_end (init : option val) (l : list (option val * option val)) : option val :=
  match l with
  | [] => init
  | (_, a) :: r => chain_end a r
  end.

(* per-id projection of a history and of its outcomes *)
Definition ops_on (c : scfg) (i : id) (ops : list op) : list op :=
  filter (fun o => beq (touch c o) i) ops.
Fixpoint outs_on (c : scfg) (i : id) (ops : list op) (outs : list outcome) : list outcome :=
  match ops, outs with
  | o :: ops', x :: outs' => if beq (touch c o) i then x :: outs_on c i ops' outs' else outs_on c i ops' outs'
  | _, _ => []
  end.
(* the history regrouped so that each id's operations are contiguous *)
Definition serialize (c : scfg) (ids : list id) (ops : list op) : list op :=
  concat (map (fun i => ops_on c i ops) ids).

(* ---- transaction LTS over the specification ---- *)
Definition ev_op (e : event) : op := snd (fst (fst e)).
Definition ev_out (e : event) : outcome := (snd (fst e), snd e).

(* open transactions x <> y conflict when they share a lock key and one writes *)
Definition excl (lkey : id -> bytes) (O : opens) : Prop :=
  forall x y mx ix my iy,
    oget x O = Some (mx, ix) -> oget y O = Some (my, iy) -> x <> y ->
    lkey ix = lkey iy -> mx = MRead /\ my = MRead.
