(* C11, locking discipline: in every execution of the transaction LTS the lock
   table agrees with the table of open transactions, hence two transactions
   sharing a lock key are never open together unless both are reads. *)
From stdpp Require Import gmap.
From GoRes Require Import KV.Spec KV.Proofs.

Definition mode_eqb (a b : mode) : bool :=
  match a, b with MRead, MRead | MWrite, MWrite => true | _, _ => false end.

(* number of open transactions of mode md on lock key k *)
Definition hit (lkey : id -> bytes) (md : mode) (k : bytes) (e : N * (mode * id)) : bool :=
  mode_eqb (fst (snd e)) md && beq (lkey (snd (snd e))) k.
Definition cnt (lkey : id -> bytes) (md : mode) (k : bytes) (O : opens) : nat :=
  length (filter (hit lkey md k) O).

Definition lock_ok (lkey : id -> bytes) (L : locks) (O : opens) : Prop :=
  forall k,
    readers (lget k L) = cnt lkey MRead k O /\
    ((writer (lget k L) = false /\ cnt lkey MWrite k O = 0%nat) \/
     (writer (lget k L) = true /\ cnt lkey MWrite k O = 1%nat /\ cnt lkey MRead k O = 0%nat)).

Definition inv {St} (lkey : id -> bytes) (s : tstate St) : Prop :=
  List.NoDup (map fst (t_open s)) /\ lock_ok lkey (t_locks s) (t_open s).

(* ---- open-transaction table ---- *)
Lemma oget_none_notin : forall x O, oget x O = None -> ~ In x (map fst O).
Proof.
  intros x O. induction O as [|[y e] O IH]; cbn [oget map fst In]; intros H; [tauto|].
  destruct (N.eqb_spec x y) as [E|E]; [discriminate|]. intros [H1|H1]; [congruence | exact (IH H H1)].
Qed.
Lemma oget_some_in : forall x O e, oget x O = Some e -> In x (map fst O).
Proof.
  intros x O e. induction O as [|[y e'] O IH]; cbn [oget map fst In]; intros H; [discriminate|].
  destruct (N.eqb_spec x y) as [E|E]; [left; congruence | right; exact (IH H)].
Qed.
Lemma odel_notin : forall x O, ~ In x (map fst O) -> odel x O = O.
Proof.
  intros x O. induction O as [|[y e] O IH]; intros H; [reflexivity|].
  unfold odel in *. cbn [filter fst map In] in *.
  destruct (N.eqb_spec x y) as [E|E]; [exfalso; apply H; left; congruence|].
  cbn [negb]. f_equal. apply IH. tauto.
Qed.
Lemma odel_map_incl : forall x y O, In y (map fst (odel x O)) -> In y (map fst O).
Proof.
  intros x y O. induction O as [|[z e] O IH]; [tauto|].
  unfold odel in *. cbn [filter fst map In]. destruct (x =? z); cbn [negb map fst In]; tauto.
Qed.
Lemma odel_nodup : forall x O, List.NoDup (map fst O) -> List.NoDup (map fst (odel x O)).
Proof.
  intros x O. induction O as [|[z e] O IH]; intros H; [exact H|].
  inversion H as [|? ? Hz Hnd]; subst. unfold odel in *. cbn [filter fst].
  destruct (x =? z); cbn [negb]; [apply IH; exact Hnd|].
  cbn [map fst]. constructor; [|apply IH; exact Hnd].
  intros Hin. apply Hz. eapply odel_map_incl. exact Hin.
Qed.
Lemma oget_odel_ne : forall x y O, y <> x -> oget y (odel x O) = oget y O.
Proof.
  intros x y O H. induction O as [|[z e] O IH]; [reflexivity|].
  unfold odel in *. cbn [filter fst oget]. destruct (N.eqb_spec x z) as [E|E]; cbn [negb oget].
  - subst z. destruct (N.eqb_spec y x); [contradiction | exact IH].
  - destruct (y =? z); [reflexivity | exact IH].
Qed.

(* ---- counting ---- *)
Lemma cnt_cons : forall lkey md k e O,
  cnt lkey md k (e :: O) = ((if hit lkey md k e then 1 else 0) + cnt lkey md k O)%nat.
Proof. intros. unfold cnt. cbn [filter]. destruct (hit lkey md k e); reflexivity. Qed.

Lemma cnt_odel : forall lkey md k x O mx ix,
  List.NoDup (map fst O) -> oget x O = Some (mx, ix) ->
  cnt lkey md k O = ((if hit lkey md k (x, (mx, ix)) then 1 else 0) + cnt lkey md k (odel x O))%nat.
Proof.
  intros lkey md k x O mx ix. induction O as [|[z e] O IH]; intros Hnd H; [discriminate|].
  inversion Hnd as [|? ? Hz Hnd']; subst. cbn [oget] in H.
  destruct (N.eqb_spec x z) as [E|E].
  - subst z. inversion H; subst e.
    assert (Hd : odel x ((x, (mx, ix)) :: O) = O).
    { unfold odel. cbn [filter fst]. rewrite N.eqb_refl. cbn [negb]. apply odel_notin. exact Hz. }
    rewrite Hd. apply cnt_cons.
  - assert (Hd : odel x ((z, e) :: O) = (z, e) :: odel x O).
    { unfold odel. cbn [filter fst]. destruct (N.eqb_spec x z); [contradiction | reflexivity]. }
    rewrite Hd, !cnt_cons, (IH Hnd' H). lia.
Qed.

Lemma cnt_ge1 : forall lkey x O mx ix,
  oget x O = Some (mx, ix) -> (1 <= cnt lkey mx (lkey ix) O)%nat.
Proof.
  intros lkey x O mx ix. induction O as [|[z e] O IH]; intros H; [discriminate|].
  cbn [oget] in H. rewrite cnt_cons. destruct (x =? z).
  - inversion H; subst e. unfold hit. cbn [fst snd]. rewrite kv_beq_refl.
    destruct mx; cbn [mode_eqb andb]; lia.
  - specialize (IH H). lia.
Qed.

Lemma hit_self : forall lkey mx ix, hit lkey mx (lkey ix) (0%N, (mx, ix)) = true.
Proof. intros. unfold hit. cbn [fst snd]. rewrite kv_beq_refl. destruct mx; reflexivity. Qed.
Lemma hit_x_irrelevant : forall lkey md k x y e, hit lkey md k (x, e) = hit lkey md k (y, e).
Proof. reflexivity. Qed.
Lemma hit_other_key : forall lkey md k x mx ix, k <> lkey ix -> hit lkey md k (x, (mx, ix)) = false.
Proof.
  intros. unfold hit. cbn [fst snd]. rewrite (kv_beq_neq (lkey ix) k) by congruence. apply andb_false_r.
Qed.
Lemma hit_other_mode : forall lkey k x ix, hit lkey MWrite k (x, (MRead, ix)) = false /\ hit lkey MRead k (x, (MWrite, ix)) = false.
Proof. intros. split; reflexivity. Qed.

Lemma lget_lset : forall k k' l L, lget k' (lset k l L) = if beq k' k then l else lget k' L.
Proof. reflexivity. Qed.

(* ---- mutual exclusion follows from the invariant ---- *)
Lemma inv_excl {St} : forall lkey (s : tstate St), inv lkey s -> excl lkey (t_open s).
Proof.
  intros lkey s [Hnd Hl] x y mx ix my iy Hx Hy Hne Hk.
  pose proof (cnt_odel lkey mx (lkey ix) x _ mx ix Hnd Hx) as Cx.
  rewrite (hit_x_irrelevant lkey mx (lkey ix) x 0%N), hit_self in Cx.
  assert (Hy' : oget y (odel x (t_open s)) = Some (my, iy)) by (rewrite oget_odel_ne by congruence; exact Hy).
  pose proof (cnt_ge1 lkey y _ my iy Hy') as Cy. rewrite <- Hk in Cy.
  destruct (Hl (lkey ix)) as [_ [[_ W0]|[_ [W1 R0]]]].
  - (* no writer on this key: both are reads *)
    destruct mx.
    + destruct my; [split; reflexivity|].
      pose proof (cnt_odel lkey MWrite (lkey ix) x _ MRead ix Hnd Hx) as C2.
      cbn [hit fst snd mode_eqb andb] in C2. lia.
    + lia.
  - (* one writer, no reader *)
    destruct mx.
    + lia.
    + destruct my.
      * pose proof (cnt_odel lkey MRead (lkey ix) x _ MWrite ix Hnd Hx) as C2.
        cbn [hit fst snd mode_eqb andb] in C2. lia.
      * lia.
Qed.

(* ---- the invariant is preserved by every step ---- *)
Lemma inv_init {St} : forall lkey (db : St), inv lkey (tinit db).
Proof.
  intros lkey db. split; [constructor|]. intros k. cbn. split; [reflexivity|]. left. split; reflexivity.
Qed.

Lemma inv_step {St} : forall (step : St -> op -> St * result * list cbcall) lkey s l s' evs,
  inv lkey s -> tstep step lkey s l = Some (s', evs) -> inv lkey s'.
Proof.
  intros step lkey s l s' evs [Hnd Hl] H. destruct l as [x md i|x k|x]; cbn [tstep] in H.
  - (* Begin *)
    destruct (oget x (t_open s)) eqn:Ho; [discriminate|].
    pose proof (oget_none_notin _ _ Ho) as Hx.
    destruct md.
    + destruct (writer (lget (lkey i) (t_locks s))) eqn:Hw; [discriminate|].
      inversion H; subst; clear H. split; cbn [t_open t_locks].
      * cbn [map fst]. constructor; assumption.
      * intros k. rewrite lget_lset, !cnt_cons. destruct (Hl k) as [HR HW].
        destruct (beq k (lkey i)) eqn:E.
        -- apply kv_beq_iff in E. subst k. cbn [readers writer].
           unfold hit. cbn [fst snd mode_eqb andb]. rewrite kv_beq_refl.
           split; [lia|]. left. split; [reflexivity|].
           destruct HW as [[_ W0]|[W1 _]]; [lia | congruence].
        -- rewrite !hit_other_key by (apply kv_beq_false; exact E). cbn [Nat.add]. split; assumption.
    + destruct (writer (lget (lkey i) (t_locks s))) eqn:Hw; [discriminate|]. cbn [orb] in H.
      destruct (Nat.eqb_spec (readers (lget (lkey i) (t_locks s))) 0) as [Hr|Hr]; [|discriminate].
      cbn [negb] in H. inversion H; subst; clear H. split; cbn [t_open t_locks].
      * cbn [map fst]. constructor; assumption.
      * intros k. rewrite lget_lset, !cnt_cons. destruct (Hl k) as [HR HW].
        destruct (beq k (lkey i)) eqn:E.
        -- apply kv_beq_iff in E. subst k. cbn [readers writer].
           unfold hit. cbn [fst snd mode_eqb andb]. rewrite kv_beq_refl.
           destruct HW as [[_ W0]|[W1 _]]; [|congruence].
           split; [lia|]. right. repeat split; lia.
        -- rewrite !hit_other_key by (apply kv_beq_false; exact E). cbn [Nat.add]. split; assumption.
  - (* Do: locks and open transactions unchanged *)
    destruct (oget x (t_open s)) as [[md i]|]; [|discriminate].
    destruct (is_mut k && match md with MRead => true | MWrite => false end); [discriminate|].
    destruct (step (t_db s) (mk_op i k)) as [[db r] cbs]. inversion H; subst; clear H.
    split; assumption.
  - (* Close *)
    destruct (oget x (t_open s)) as [[md i]|] eqn:Ho; [|discriminate].
    inversion H; subst; clear H. split; cbn [t_open t_locks].
    + apply odel_nodup. exact Hnd.
    + intros k. rewrite lget_lset. destruct (Hl k) as [HR HW].
      pose proof (cnt_odel lkey MRead k x _ md i Hnd Ho) as CR.
      pose proof (cnt_odel lkey MWrite k x _ md i Hnd Ho) as CW.
      destruct (beq k (lkey i)) eqn:E.
      * apply kv_beq_iff in E. subst k.
        destruct md; cbn [readers writer]; unfold hit in CR, CW; cbn [fst snd mode_eqb andb] in CR, CW;
          try rewrite kv_beq_refl in CR; try rewrite kv_beq_refl in CW.
        -- split; [lia|]. destruct HW as [[W0 C0]|[W1 [C1 R0]]]; [left; split; [exact W0 | lia] | lia].
        -- split; [lia|]. left. split; [reflexivity|].
           destruct HW as [[W0 C0]|[W1 [C1 R0]]]; lia.
      * rewrite !hit_other_key in CR, CW by (apply kv_beq_false; exact E).
        cbn [Nat.add] in CR, CW. rewrite <- CR, <- CW. split; assumption.
Qed.

Lemma inv_exec {St} : forall (step : St -> op -> St * result * list cbcall) lkey ls s s' evs,
  inv lkey s -> texec step lkey s ls = Some (s', evs) -> inv lkey s'.
Proof.
  intros step lkey. induction ls as [|l ls IH]; intros s s' evs Hi H; cbn [texec] in H.
  - inversion H; subst. exact Hi.
  - destruct (tstep step lkey s l) as [[s1 ev1]|] eqn:E1; [|discriminate].
    destruct (texec step lkey s1 ls) as [[s2 ev2]|] eqn:E2; [|discriminate].
    inversion H; subst. eapply IH; [|exact E2]. eapply inv_step; eassumption.
Qed.

(* every reachable state: transactions sharing a lock key are open together only if all read *)
Lemma per_id_serial_pf {St} : forall (step : St -> op -> St * result * list cbcall) lkey db ls s evs,
  texec step lkey (tinit db) ls = Some (s, evs) -> excl lkey (t_open s).
Proof. intros. apply inv_excl. eapply inv_exec; [apply inv_init | eassumption]. Qed.

(* while transaction x on id ix is open, no other transaction makes progress as a
   writer on an id with the same lock key: it cannot begin, and if it is open it is
   a reader (so none of its steps mutates) *)
Lemma no_write_progress_pf {St} : forall (step : St -> op -> St * result * list cbcall) lkey db ls s evs x mx ix,
  texec step lkey (tinit db) ls = Some (s, evs) ->
  oget x (t_open s) = Some (mx, ix) ->
  forall y, y <> x ->
    (forall i, lkey i = lkey ix -> tstep step lkey s (LBegin y MWrite i) = None) /\
    (mx = MWrite -> forall i, lkey i = lkey ix -> tstep step lkey s (LBegin y MRead i) = None) /\
    (forall k my iy, oget y (t_open s) = Some (my, iy) -> lkey iy = lkey ix ->
       my = MRead /\ (is_mut k = true -> tstep step lkey s (LDo y k) = None)).
Proof.
  intros step lkey db ls s evs x mx ix Hex Hx y Hne.
  assert (Hi : inv lkey s) by (eapply inv_exec; [apply inv_init | eassumption]).
  pose proof (inv_excl lkey s Hi) as Hex'. destruct Hi as [Hnd Hl].
  pose proof (cnt_ge1 lkey x _ mx ix Hx) as C1.
  destruct (Hl (lkey ix)) as [HR HW].
  split; [|split].
  - intros i Hk. cbn [tstep]. destruct (oget y (t_open s)); [reflexivity|]. rewrite Hk.
    destruct mx.
    + destruct (writer (lget (lkey ix) (t_locks s))); [reflexivity|]. cbn [orb].
      destruct (Nat.eqb_spec (readers (lget (lkey ix) (t_locks s))) 0) as [Hr|Hr]; [lia | reflexivity].
    + destruct HW as [[_ W0]|[W1 _]]; [lia|]. rewrite W1. reflexivity.
  - intros -> i Hk. cbn [tstep]. destruct (oget y (t_open s)); [reflexivity|]. rewrite Hk.
    destruct HW as [[_ W0]|[W1 _]]; [lia|]. rewrite W1. reflexivity.
  - intros k my iy Hy Hk. destruct (Hex' y x my iy mx ix Hy Hx Hne Hk) as [-> _].
    split; [reflexivity|]. intros Hm. cbn [tstep]. rewrite Hy, Hm. reflexivity.
Qed.

(* an LTS execution is a fold of the step function over its operations in order *)
Lemma texec_is_run_pf {St} : forall (step : St -> op -> St * result * list cbcall) lkey ls s s' evs,
  texec step lkey s ls = Some (s', evs) ->
  run step (t_db s) (map ev_op evs) = (t_db s', map ev_out evs).
Proof.
  intros step lkey. induction ls as [|l ls IH]; intros s s' evs H; cbn [texec] in H.
  - inversion H; subst. reflexivity.
  - destruct (tstep step lkey s l) as [[s1 ev1]|] eqn:E1; [|discriminate].
    destruct (texec step lkey s1 ls) as [[s2 ev2]|] eqn:E2; [|discriminate].
    inversion H; subst; clear H. specialize (IH _ _ _ E2).
    destruct l as [x md i|x k|x]; cbn [tstep] in E1.
    + destruct (oget x (t_open s)); [discriminate|].
      destruct md.
      * destruct (writer (lget (lkey i) (t_locks s))); [discriminate|]. inversion E1; subst. exact IH.
      * destruct (writer (lget (lkey i) (t_locks s)) || negb (Nat.eqb (readers (lget (lkey i) (t_locks s))) 0)); [discriminate|].
        inversion E1; subst. exact IH.
    + destruct (oget x (t_open s)) as [[md i]|]; [|discriminate].
      destruct (is_mut k && match md with MRead => true | MWrite => false end); [discriminate|].
      destruct (step (t_db s) (mk_op i k)) as [[db r] cbs] eqn:Es. inversion E1; subst; clear E1.
      cbn [app map run ev_op ev_out fst snd t_db] in *. rewrite Es, IH. reflexivity.
    + destruct (oget x (t_open s)) as [[md i]|]; [|discriminate]. inversion E1; subst. exact IH.
Qed.

(* any interleaved execution over the specification is equivalent to the history
   in which each id's operations are contiguous *)
Lemma exec_equiv_contiguous_pf : forall c lkey m ls s evs ids m2 outs2,
  texec (spec_step c) lkey (tinit m) ls = Some (s, evs) ->
  List.NoDup ids -> (forall o, In o (map ev_op evs) -> In (touch c o) ids) ->
  run (spec_step c) m (serialize c ids (map ev_op evs)) = (m2, outs2) ->
  t_db s = m2 /\
  forall i, outs_on c i (map ev_op evs) (map ev_out evs) = outs_on c i (serialize c ids (map ev_op evs)) outs2.
Proof.
  intros c lkey m ls s evs ids m2 outs2 H Hnd Hcov H2.
  pose proof (texec_is_run_pf _ _ _ _ _ _ H) as R. cbn [tinit t_db] in R.
  eapply serialize_equiv_pf; eassumption.
Qed.
