(* Byte strings shared by all models.  A Go string / []byte is a [list N]
   (one N per byte; theorems never need the bound < 256, so they hold for a
   superset of the real inputs).  Cases files emit strings as N lists. *)
From Coq Require Export List NArith Bool Lia.
From Coq Require Import Ascii String.
Export ListNotations.
Open Scope N_scope.

Definition bytes := list N.

Definition is_nil {A} (l : list A) : bool := match l with [] => true | _ => false end.

Fixpoint beq (a b : bytes) : bool :=
  match a, b with
  | [], [] => true
  | x :: a', y :: b' => (x =? y) && beq a' b'
  | _, _ => false
  end.

Definition s2b (s : string) : bytes := map N_of_ascii (list_ascii_of_string s).

Definition dot : N := 46.
Definition dollar : N := 36.
Definition star : N := 42.
Definition gt : N := 62.
Definition qmark : N := 63.

(* split a byte string at every '.' : "a..b" -> [a;[];b], "" -> [[]] *)
Fixpoint tokens_go (cur : bytes) (s : bytes) : list bytes :=
  match s with
  | [] => [rev cur]
  | c :: s' => if c =? dot then rev cur :: tokens_go [] s' else tokens_go (c :: cur) s'
  end.
Definition tokens (s : bytes) : list bytes := tokens_go [] s.

Fixpoint join (ts : list bytes) : bytes :=
  match ts with
  | [] => []
  | [t] => t
  | t :: ts' => t ++ dot :: join ts'
  end.

(* (token prefix up to the next '.', rest starting at that '.' or []) *)
Fixpoint span_tok (s : bytes) : bytes * bytes :=
  match s with
  | [] => ([], [])
  | c :: s' => if c =? dot then ([], s) else let (t, r) := span_tok s' in (c :: t, r)
  end.

(* association lists standing for Go map[string]string; head wins *)
Definition amap := list (bytes * bytes).
Fixpoint alookup (k : bytes) (m : amap) : option bytes :=
  match m with
  | [] => None
  | (k', v) :: m' => if beq k k' then Some v else alookup k m'
  end.
Definition obeq (a b : option bytes) : bool :=
  match a, b with Some x, Some y => beq x y | None, None => true | _, _ => false end.
(* same finite map *)
Definition amap_eq (a b : amap) : bool :=
  forallb (fun kv => obeq (alookup (fst kv) a) (alookup (fst kv) b)) (a ++ b).
