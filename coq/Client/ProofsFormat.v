(* The timeout pre-response format produced by the service is understood by SendRequest. *)
From GoRes Require Import Client.Spec.
Open Scope N_scope.

Lemma dec_go_acc : forall f n acc, dec_go f n acc = dec_go f n [] ++ acc.
Proof.
  induction f as [| f IH]; intros n acc.
  - reflexivity.
  - cbn [dec_go]. destruct (n <? 10).
    + reflexivity.
    + rewrite IH. rewrite (IH (n / 10) [48 + n mod 10]). rewrite <- app_assoc. reflexivity.
Qed.

Definition dstep (a c : N) : N := a * 10 + (c - 48).
Lemma digits_val_app : forall l c, digits_val (l ++ [c]) = dstep (digits_val l) c.
Proof. intros l c. unfold digits_val. rewrite fold_left_app. reflexivity. Qed.

Lemma is_digit_small : forall d, d < 10 -> is_digit (48 + d) = true.
Proof.
  intros d H. unfold is_digit.
  destruct (N.leb_spec 48 (48 + d)); [| lia]. destruct (N.leb_spec (48 + d) 57); [reflexivity | lia].
Qed.

Lemma dec_go_spec : forall f n,
  n < 2 ^ N.of_nat f -> 0 < n ->
  forallb is_digit (dec_go f n []) = true /\ digits_val (dec_go f n []) = n /\ dec_go f n [] <> [].
Proof.
  induction f as [| f IH]; intros n Hlt Hpos.
  - change (2 ^ N.of_nat 0) with 1 in Hlt. lia.
  - cbn [dec_go]. destruct (N.ltb_spec n 10) as [H10 | H10].
    + rewrite (N.mod_small n 10 H10). cbn [forallb]. rewrite (is_digit_small n H10).
      repeat split; [| discriminate]. unfold digits_val. cbn [fold_left]. lia.
    + rewrite dec_go_acc.
      assert (Hq : n / 10 < 2 ^ N.of_nat f).
      { rewrite Nat2N.inj_succ, N.pow_succ_r' in Hlt. set (X := 2 ^ N.of_nat f) in *.
        clearbody X. apply N.div_lt_upper_bound; [discriminate | lia]. }
      assert (Hqpos : 0 < n / 10).
      { apply N.div_str_pos. lia. }
      destruct (IH (n / 10) Hq Hqpos) as (Hd & Hv & Hne).
      rewrite forallb_app, Hd. cbn [forallb].
      assert (Hm : n mod 10 < 10) by (apply N.mod_lt; lia).
      rewrite (is_digit_small _ Hm). split; [reflexivity |]. split.
      * rewrite digits_val_app, Hv. unfold dstep.
        pose proof (N.div_mod' n 10) as E.
        remember (n / 10) as q. remember (n mod 10) as m. clear - E. lia.
      * intros E. apply app_eq_nil in E. destruct E as [_ E]. discriminate.
Qed.

Lemma dec_spec : forall n,
  forallb is_digit (dec n) = true /\ digits_val (dec n) = n /\ dec n <> [].
Proof.
  intros n. unfold dec. destruct (N.eq_dec n 0) as [-> | Hn].
  - vm_compute. repeat split. discriminate.
  - apply dec_go_spec; [| lia].
    rewrite Nat2N.inj_succ, N2Nat.id, N.pow_succ_r'. pose proof (N.size_gt n) as Hs.
    set (X := 2 ^ N.size n) in *. clearbody X. lia.
Qed.

Lemma digit_range : forall c, is_digit c = true -> 48 <= c <= 57.
Proof.
  intros c H. unfold is_digit in H. apply andb_prop in H. destruct H as [H1 H2].
  apply N.leb_le in H1. apply N.leb_le in H2. lia.
Qed.

Lemma scan_q_digits : forall ds,
  forallb is_digit ds = true -> scan_q (ds ++ [34]) = Some (ds ++ [34], []).
Proof.
  induction ds as [| c ds IH]; intros H.
  - reflexivity.
  - cbn [forallb] in H. apply andb_prop in H. destruct H as [Hc Hds].
    apply digit_range in Hc. cbn [app scan_q].
    destruct (N.eqb_spec c 34) as [E | _]; [lia |].
    destruct (N.eqb_spec c 92) as [E | _]; [lia |].
    rewrite (IH Hds). reflexivity.
Qed.

Lemma unq_digits : forall ds fuel,
  forallb is_digit ds = true -> (length ds < fuel)%nat -> unq_go fuel (ds ++ [34]) = Some ds.
Proof.
  induction ds as [| c ds IH]; intros fuel H Hf.
  - destruct fuel as [| f]; [inversion Hf |]. reflexivity.
  - cbn [forallb] in H. apply andb_prop in H. destruct H as [Hc Hds].
    apply digit_range in Hc. destruct fuel as [| f]; [inversion Hf |].
    cbn [app unq_go].
    destruct (N.eqb_spec c 34) as [E | _]; [lia |].
    destruct (N.eqb_spec c 10) as [E | _]; [lia |].
    destruct (N.eqb_spec c 92) as [E | _]; [lia |].
    rewrite (IH f Hds); [reflexivity |]. cbn [length] in Hf. lia.
Qed.

Lemma atoi_digits : forall ds,
  forallb is_digit ds = true -> ds <> [] -> (Z.of_N (digits_val ds) < 2 ^ 63)%Z ->
  atoi ds = Some (Z.of_N (digits_val ds)).
Proof.
  intros ds H Hne Hr. destruct ds as [| c r]; [contradiction |].
  pose proof H as H'. cbn [forallb] in H'. apply andb_prop in H'. destruct H' as [Hc _].
  apply digit_range in Hc. unfold atoi.
  destruct (N.eqb_spec c 45) as [E | _]; [lia |].
  destruct (N.eqb_spec c 43) as [E | _]; [lia |].
  rewrite H. destruct (Z.ltb_spec (Z.of_N (digits_val (c :: r))) (2 ^ 63)) as [_ | Hge]; [reflexivity | lia].
Qed.

Lemma service_format_understood_pf : forall ms : N,
  (Z.of_N ms < 2 ^ 63)%Z ->
  is_pre (timeout_payload ms) = true /\
  pre_timeout (timeout_payload ms) = Some (wrap64 (Z.of_N ms * 1000000)).
Proof.
  intros ms Hr. destruct (dec_spec ms) as (Hd & Hv & Hne).
  split; [reflexivity |].
  unfold pre_timeout, tag_lookup, timeout_payload, timeout_key.
  cbn [app length lookup_go skip_spaces].
  change (116 =? 32) with false. cbv iota.
  cbn [scan_key].
  change ((32 <? 116) && negb (116 =? 58) && negb (116 =? 34) && negb (116 =? 127)) with true.
  change ((32 <? 105) && negb (105 =? 58) && negb (105 =? 34) && negb (105 =? 127)) with true.
  change ((32 <? 109) && negb (109 =? 58) && negb (109 =? 34) && negb (109 =? 127)) with true.
  change ((32 <? 101) && negb (101 =? 58) && negb (101 =? 34) && negb (101 =? 127)) with true.
  change ((32 <? 111) && negb (111 =? 58) && negb (111 =? 34) && negb (111 =? 127)) with true.
  change ((32 <? 117) && negb (117 =? 58) && negb (117 =? 34) && negb (117 =? 127)) with true.
  change ((32 <? 58) && negb (58 =? 58) && negb (58 =? 34) && negb (58 =? 127)) with false.
  cbv iota beta.
  change ((58 =? 58) && (34 =? 34)) with true. cbv iota.
  rewrite (scan_q_digits _ Hd).
  change (beq [116; 105; 109; 101; 111; 117; 116] [116; 105; 109; 101; 111; 117; 116]) with true.
  cbv iota. unfold unquote_body. rewrite (unq_digits _ _ Hd); [| rewrite app_length; cbn [length]; lia].
  rewrite (atoi_digits _ Hd Hne); rewrite Hv; [reflexivity | exact Hr].
Qed.
