(* Declarative vocabulary for the C19 statements: what it means for a run of
   pre-responses to be received (each one before the deadline then in force, the
   deadline being moved only by valid timeout announcements), and when the wait
   stops.  No recursion over the history: [received] is an inductive relation. *)
From GoRes Require Export Client.Model.
Open Scope Z_scope.

(* the callback invocations one received pre-response causes *)
Definition note (ncb : nat) (p : bytes) : list (nat * Z) :=
  match pre_timeout p with Some d => notify ncb d | None => [] end.

(* ... and a whole run of them: every callback once per valid announcement, in order *)
Definition notes (ncb : nat) (pre : list (Z * bytes)) : list (nat * Z) :=
  flat_map (fun a => note ncb (snd a)) pre.

(* [received now dl pre now' dl']: starting at time [now] with the timer due at [dl], every
   message of [pre] is a pre-response that arrives strictly before the deadline then in
   force; afterwards the clock shows [now'] and the timer is due at [dl'].
   A message stamped earlier than [now] is already waiting and is taken at [now]. *)
Inductive received : Z -> Z -> list (Z * bytes) -> Z -> Z -> Prop :=
| rec_nil : forall now dl, received now dl [] now dl
| rec_extend : forall now dl t0 p d rest now' dl',        (* valid announcement: deadline := arrival + d *)
    is_pre p = true -> Z.max now t0 < dl -> pre_timeout p = Some d ->
    received (Z.max now t0) (Z.max now t0 + d) rest now' dl' ->
    received now dl ((t0, p) :: rest) now' dl'
| rec_ignore : forall now dl t0 p rest now' dl',          (* any other pre-response: deadline unchanged *)
    is_pre p = true -> Z.max now t0 < dl -> pre_timeout p = None ->
    received (Z.max now t0) dl rest now' dl' ->
    received now dl ((t0, p) :: rest) now' dl'.

(* what follows the received pre-responses ends the wait with a timeout: nothing more
   arrives, or the next message arrives at or after the deadline *)
Definition silent (now dl : Z) (rest : list (Z * bytes)) : Prop :=
  rest = [] \/ exists t0 p post, rest = (t0, p) :: post /\ dl <= Z.max now t0.

(* the next message is a real response that arrives before the deadline *)
Definition answered (now dl : Z) (rest : list (Z * bytes)) (t : Z) (p : bytes) : Prop :=
  exists t0 post, rest = (t0, p) :: post /\ is_pre p = false /\ t = Z.max now t0 /\ t < dl.

(* a real response arrives before the current deadline somewhere in the history *)
Definition some_answer (T : Z) (arr : list (Z * bytes)) : Prop :=
  exists pre rest now' dl' t p, arr = pre ++ rest /\ received 0 T pre now' dl' /\ answered now' dl' rest t p.

(* ---- what the service writes in Request.Timeout (request.go, queryevent.go):
   the bytes of "timeout:" followed by the quoted strconv.FormatInt(ms, 10), ms >= 0 ---- *)
Fixpoint dec_go (fuel : nat) (n : N) (acc : bytes) : bytes :=
  match fuel with
  | O => acc
  | S f =>
    let acc' := (48 + n mod 10)%N :: acc in
    if (n <? 10)%N then acc' else dec_go f (n / 10)%N acc'
  end.
Definition dec (n : N) : bytes := dec_go (S (N.to_nat (N.size n))) n [].
Definition timeout_payload (ms : N) : bytes := timeout_key ++ [58; 34]%N ++ dec ms ++ [34]%N.
