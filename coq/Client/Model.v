(* Executable virtual-time model of resprot.SendRequest (resprot/resprot.go) and of
   everything it calls to classify a message: the first-byte pre-response test,
   reflect.StructTag.Lookup("timeout"), strconv.Unquote, strconv.Atoi and the
   int64 arithmetic of time.Duration(ms) * time.Millisecond.

   Time is an integer number of nanoseconds (Z) since the call; an inbox history is
   a list of arrivals (absolute arrival time, payload) in inbox (FIFO) order.  The
   model has no real timers: a message is received iff its arrival time is strictly
   before the deadline then in force (a tie goes to the timer); Go's select may pick
   either side on a tie, which is the part of C19 outside the theorem.

   No proofs in this file. *)
From GoRes Require Export Base.Bytes.
From Coq Require Export ZArith.
Open Scope N_scope.

(* ---- `len(msg.Data) == 0 || (msg.Data[0]|32) < 'a' || (msg.Data[0]|32) > 'z'` is the
        NOT-a-pre-response test ---- *)
Definition is_pre (p : bytes) : bool :=
  match p with
  | [] => false
  | c :: _ => let c' := N.lor c 32 in (97 <=? c') && (c' <=? 122)
  end.

(* ---- reflect.StructTag.Lookup ---- *)
Fixpoint skip_spaces (s : bytes) : bytes :=
  match s with
  | c :: r => if c =? 32 then skip_spaces r else s
  | [] => []
  end.

(* the key scan: bytes > space that are not a colon, a double quote (34) or 0x7f *)
Fixpoint scan_key (s : bytes) : bytes * bytes :=
  match s with
  | c :: r =>
    if (32 <? c) && negb (c =? 58) && negb (c =? 34) && negb (c =? 127)
    then let (k, r') := scan_key r in (c :: k, r')
    else ([], s)
  | [] => ([], [])
  end.

(* the quoted-value scan, started after the opening quote: a backslash skips the next
   byte; result = (bytes up to and including the closing quote, rest of the tag);
   None = ran off the end (`i >= len(tag)`) *)
Fixpoint scan_q (s : bytes) : option (bytes * bytes) :=
  match s with
  | [] => None
  | c :: r =>
    if c =? 34 then Some ([34], r)
    else if c =? 92 then
      match r with
      | [] => None
      | e :: r' => match scan_q r' with Some (q, rest) => Some (c :: e :: q, rest) | None => None end
      end
    else match scan_q r with Some (q, rest) => Some (c :: q, rest) | None => None end
  end.

(* ---- strconv.Unquote of a double-quoted string (argument: everything after the
   opening quote, closing quote included).  Output bytes >= 0x80 stand for themselves
   (Go re-encodes runes as UTF-8 and substitutes U+FFFD for invalid input): the only
   consumer is Atoi, which rejects every such byte either way. ---- *)
Definition unhex (c : N) : option N :=
  if (48 <=? c) && (c <=? 57) then Some (c - 48)
  else if (97 <=? c) && (c <=? 102) then Some (c - 97 + 10)
  else if (65 <=? c) && (c <=? 70) then Some (c - 65 + 10)
  else None.

Fixpoint take_hex (n : nat) (acc : N) (s : bytes) : option (N * bytes) :=
  match n with
  | O => Some (acc, s)
  | S n' =>
    match s with
    | [] => None
    | c :: r => match unhex c with Some x => take_hex n' (acc * 16 + x) r | None => None end
    end
  end.

Definition valid_rune (v : N) : bool := (v <? 55296) || ((57343 <? v) && (v <=? 1114111)).
Definition is_oct (c : N) : bool := (48 <=? c) && (c <=? 55).

(* strconv.UnquoteChar after a backslash, with the double quote as quote: e = the escape letter *)
Definition unescape (e : N) (s : bytes) : option (N * bytes) :=
  if e =? 97 then Some (7, s)            (* \a *)
  else if e =? 98 then Some (8, s)       (* \b *)
  else if e =? 102 then Some (12, s)     (* \f *)
  else if e =? 110 then Some (10, s)     (* \n *)
  else if e =? 114 then Some (13, s)     (* \r *)
  else if e =? 116 then Some (9, s)      (* \t *)
  else if e =? 118 then Some (11, s)     (* \v *)
  else if e =? 120 then take_hex 2 0 s   (* \xHH *)
  else if e =? 117 then                  (* \uHHHH *)
    match take_hex 4 0 s with Some (v, r) => if valid_rune v then Some (v, r) else None | None => None end
  else if e =? 85 then                   (* \UHHHHHHHH *)
    match take_hex 8 0 s with Some (v, r) => if valid_rune v then Some (v, r) else None | None => None end
  else if is_oct e then                  (* \ooo *)
    match s with
    | d1 :: d2 :: r =>
      if is_oct d1 && is_oct d2 then
        let v := ((e - 48) * 8 + (d1 - 48)) * 8 + (d2 - 48) in
        if 255 <? v then None else Some (v, r)
      else None
    | _ => None
    end
  else if e =? 92 then Some (92, s)      (* \\ *)
  else if e =? 34 then Some (34, s)      (* backslash, double quote *)
  else None.                             (* \' and everything else *)

Fixpoint unq_go (fuel : nat) (s : bytes) : option bytes :=
  match fuel with
  | O => None
  | S f =>
    match s with
    | [] => None                                              (* no terminating quote *)
    | c :: r =>
      if c =? 34 then (if is_nil r then Some [] else None)    (* Unquote: len(rem) > 0 is an error *)
      else if c =? 10 then None                               (* raw newline *)
      else if c =? 92 then
        match r with
        | [] => None
        | e :: r2 =>
          match unescape e r2 with
          | Some (v, r3) => option_map (cons v) (unq_go f r3)
          | None => None
          end
        end
      else option_map (cons c) (unq_go f r)
    end
  end.
Definition unquote_body (q : bytes) : option bytes := unq_go (S (length q)) q.

(* the loop over the key:value pairs of the tag; every round consumes at least one byte, so fuel = S (length tag)
   never runs out *)
Fixpoint lookup_go (fuel : nat) (key tag : bytes) : option bytes :=
  match fuel with
  | O => None
  | S f =>
    match skip_spaces tag with
    | [] => None
    | t =>
      let (name, r) := scan_key t in
      match name, r with
      | _ :: _, c1 :: c2 :: body =>
        if (c1 =? 58) && (c2 =? 34) then
          match scan_q body with
          | None => None
          | Some (q, rest) => if beq key name then unquote_body q else lookup_go f key rest
          end
        else None
      | _, _ => None
      end
    end
  end.
Definition tag_lookup (key tag : bytes) : option bytes := lookup_go (S (length tag)) key tag.

(* ---- strconv.Atoi on a 64-bit platform: [+-]?[0-9]+ that fits int64 ---- *)
Definition is_digit (c : N) : bool := (48 <=? c) && (c <=? 57).
Definition digits_val (ds : bytes) : N := fold_left (fun a c => a * 10 + (c - 48)) ds 0.
Definition atoi (s : bytes) : option Z :=
  let '(neg, ds) :=
    match s with
    | c :: r => if c =? 45 then (true, r) else if c =? 43 then (false, r) else (false, s)
    | [] => (false, [])
    end in
  match ds with
  | [] => None
  | _ =>
    if forallb is_digit ds then
      let n := Z.of_N (digits_val ds) in
      if neg then (if (n <=? 2 ^ 63)%Z then Some (- n)%Z else None)
      else (if (n <? 2 ^ 63)%Z then Some n else None)
    else None
  end.

(* int64 wrap-around of `time.Duration(ms) * time.Millisecond` *)
Definition wrap64 (z : Z) : Z := ((z + 2 ^ 63) mod 2 ^ 64 - 2 ^ 63)%Z.

Definition timeout_key : bytes := [116; 105; 109; 101; 111; 117; 116].   (* "timeout" *)

(* Some d = the message is a timeout pre-response announcing the Duration d (ns);
   None = no timeout tag, unquote error or Atoi error: the message is dropped silently *)
Definition pre_timeout (p : bytes) : option Z :=
  match tag_lookup timeout_key p with
  | Some v => match atoi v with Some ms => Some (wrap64 (ms * 1000000)) | None => None end
  | None => None
  end.

(* ---- the error VALUE a failing step hands to res.InternalError (errors.go).  What the code
   looks at is only err.Error(), guarded by errString against a panicking Error method;
   the dynamic type (a *res.Error with its own code, a wrapper around one) plays no role. ---- *)
Inductive errval :=
| EPlain (text : bytes)                     (* errors.New, a nats sentinel, a json error: Error() = text *)
| ERes (code msg : bytes)                   (* a non-nil *res.Error: Error() = Message *)
| EResNil                                   (* a nil *res.Error in a non-nil error interface: Error() panics *)
| EWrap (text : bytes) (inner : errval)     (* fmt.Errorf wrapping inner: text fixed at construction, Unwrap() = inner *)
| ELazy (prefix : bytes) (inner : errval).  (* json.MarshalerError: Error() = prefix ++ inner.Error(), computed when called *)

(* err.Error(); None = it panics *)
Fixpoint err_text (e : errval) : option bytes :=
  match e with
  | EPlain t => Some t
  | ERes _ m => Some m
  | EResNil => None
  | EWrap t _ => Some t
  | ELazy p i => match err_text i with Some t => Some (p ++ t) | None => None end
  end.
Definition panic_text : bytes := [112; 97; 110; 105; 99; 32; 105; 110; 32; 69; 114; 114; 111; 114; 32; 109; 101; 116; 104; 111; 100].   (* panic in Error method *)
Definition err_string (e : errval) : bytes :=       (* errors.go errString *)
  match err_text e with Some t => t | None => panic_text end.

Definition code_internal : bytes := [115; 121; 115; 116; 101; 109; 46; 105; 110; 116; 101; 114; 110; 97; 108; 69; 114; 114; 111; 114].   (* system.internalError *)
Definition prefix_internal : bytes := [73; 110; 116; 101; 114; 110; 97; 108; 32; 101; 114; 114; 111; 114; 58; 32].   (* Internal error: *)
Definition code_timeout : bytes := [115; 121; 115; 116; 101; 109; 46; 116; 105; 109; 101; 111; 117; 116].   (* system.timeout *)
Definition msg_timeout : bytes := [82; 101; 113; 117; 101; 115; 116; 32; 116; 105; 109; 101; 111; 117; 116].   (* Request timeout *)

(* res.InternalError(err) as (Code, Message); Data is nil *)
Definition internal_error (e : errval) : bytes * bytes := (code_internal, prefix_internal ++ err_string e).

(* ---- SendRequest ---- *)
Inductive fail := FNone | FMarshal (e : errval) | FSubscribe (e : errval) | FPublish (e : errval).
Definition fail_err (k : fail) : option errval :=
  match k with FNone => None | FMarshal e | FSubscribe e | FPublish e => Some e end.
Inductive outcome :=
| OResponse (p : bytes)      (* ParseResponse(p) is returned *)
| OTimeout                   (* Error = res.ErrTimeout *)
| OInternal (k : fail).      (* Error = res.InternalError(err of step k) *)

(* the (Code, Message) of the Error field SendRequest itself sets; None for OResponse, where the
   whole Response is ParseResponse's *)
Definition res_error (o : outcome) : option (bytes * bytes) :=
  match o with
  | OResponse _ => None
  | OTimeout => Some (code_timeout, msg_timeout)
  | OInternal k => match fail_err k with Some e => Some (internal_error e) | None => None end
  end.

(* `for _, f := range onTimeoutExtend { f(d) }` : (callback index, duration) *)
Definition notify (ncb : nat) (d : Z) : list (nat * Z) := map (fun i => (i, d)) (seq 0 ncb).

Record loopres := LR {
  l_out : outcome;
  l_cbs : list (nat * Z);    (* callback invocations, in order *)
  l_time : Z;                (* virtual time of the return *)
  l_deadline : Z;            (* deadline in force at the return *)
  l_taken : nat              (* messages taken from the inbox *)
}.

(* the select loop at time [now] with the timer set to fire at [dl]; an arrival stamped
   before [now] is already waiting in the channel and is received at [now] *)
Fixpoint wait (ncb : nat) (now dl : Z) (arr : list (Z * bytes)) : loopres :=
  match arr with
  | [] => LR OTimeout [] (Z.max now dl) dl 0
  | (t0, p) :: rest =>
    let t := Z.max now t0 in
    if (dl <=? t)%Z then LR OTimeout [] (Z.max now dl) dl 0          (* case <-timer.C *)
    else if negb (is_pre p) then LR (OResponse p) [] t dl 1          (* return ParseResponse(msg.Data) *)
    else
      match pre_timeout p with
      | Some d =>                                                     (* timer.Stop(); timer = NewTimer(d); callbacks *)
        let r := wait ncb t (t + d)%Z rest in
        LR (l_out r) (notify ncb d ++ l_cbs r) (l_time r) (l_deadline r) (S (l_taken r))
      | None =>                                                       (* ignored; the timer keeps running *)
        let r := wait ncb t dl rest in
        LR (l_out r) (l_cbs r) (l_time r) (l_deadline r) (S (l_taken r))
      end
  end.

(* ---- the same loop WITHOUT the tie rule, and with callbacks that take time: the set of results
   the code may produce when select's choice is not determined.  [W] = how close (ns) the timer and
   a message have to become ready for either to be chosen; [cbd] = how long each extension callback
   blocks (the timer is re-armed BEFORE the callbacks run, so a deadline can expire, and further
   messages queue up, while they run).  Whichever side is chosen is handled as what it is: the
   timer gives the timeout error, a message goes through the same classification as in [wait]. ---- *)
Definition wrap_taken (cbs : list (nat * Z)) (r : loopres) : loopres :=
  LR (l_out r) (cbs ++ l_cbs r) (l_time r) (l_deadline r) (S (l_taken r)).

Fixpoint wait_nd (W cbd : Z) (ncb : nat) (now dl : Z) (arr : list (Z * bytes)) : list loopres :=
  match arr with
  | [] => [LR OTimeout [] (Z.max now dl) dl 0]
  | (t0, p) :: rest =>
    let tm := Z.max now t0 in      (* the message is ready *)
    let tt := Z.max now dl in      (* the timer is ready *)
    (if (tt <=? tm + W)%Z then [LR OTimeout [] tt dl 0] else []) ++
    (if (tm <=? tt + W)%Z then
       if negb (is_pre p) then [LR (OResponse p) [] tm dl 1]
       else
         match pre_timeout p with
         | Some d => map (wrap_taken (notify ncb d))
                         (wait_nd W cbd ncb (tm + Z.of_nat ncb * cbd)%Z (tm + d)%Z rest)
         | None => map (wrap_taken []) (wait_nd W cbd ncb tm dl rest)
         end
     else [])
  end.

Record result := R {
  r_out : outcome;
  r_cbs : list (nat * Z);
  r_time : Z;
  r_deadline : Z;
  r_taken : nat;
  r_subscribed : bool;       (* nc.ChanSubscribe succeeded *)
  r_published : bool;        (* nc.PublishRequest succeeded *)
  r_released : bool          (* sub.Unsubscribe() ran before the return *)
}.

(* a return statement: the deferred calls registered so far run *)
Definition ret (subscribed published deferred : bool) (l : loopres) : result :=
  R (l_out l) (l_cbs l) (l_time l) (l_deadline l) (l_taken l) subscribed published deferred.

(* [k] = which connection/marshal step fails (FNone: none), [T] = the timeout argument,
   [arr] = what is delivered to the inbox after the publish *)
Definition send (ncb : nat) (k : fail) (T : Z) (arr : list (Z * bytes)) : result :=
  match k with
  | FMarshal _ => ret false false false (LR (OInternal k) [] 0 0 0)      (* json.Marshal error *)
  | _ =>
    match k with
    | FSubscribe _ => ret false false false (LR (OInternal k) [] 0 0 0) (* ChanSubscribe error: nothing deferred yet *)
    | _ =>
      let deferred := true in                                                  (* defer sub.Unsubscribe() *)
      match k with
      | FPublish _ => ret true false deferred (LR (OInternal k) [] 0 0 0) (* PublishRequest error *)
      | _ => ret true true deferred (wait ncb 0 T arr)                         (* timer := NewTimer(timeout); for { select } *)
      end
    end
  end.
