(* Proofs for C19 (statements in Props/C19.v). *)
From GoRes Require Import Client.Spec.
Open Scope Z_scope.

(* ---- the loop consumes a received run of pre-responses ---- *)
Lemma wait_received : forall ncb now dl pre now' dl',
  received now dl pre now' dl' ->
  forall rest,
    wait ncb now dl (pre ++ rest) =
    let r := wait ncb now' dl' rest in
    LR (l_out r) (notes ncb pre ++ l_cbs r) (l_time r) (l_deadline r) (length pre + l_taken r).
Proof.
  intros ncb now dl pre now' dl' H.
  induction H as [now dl | now dl t0 p d rest0 now' dl' Hp Hlt Hd Hr IH | now dl t0 p rest0 now' dl' Hp Hlt Hd Hr IH];
    intros rest.
  - cbn [app notes flat_map length Nat.add]. destruct (wait ncb now dl rest); reflexivity.
  - cbn [app wait].
    destruct (Z.leb_spec dl (Z.max now t0)) as [Hle | _]; [lia |].
    rewrite Hp. cbn [negb]. rewrite Hd. rewrite IH. cbn zeta.
    cbn [l_out l_cbs l_time l_deadline l_taken notes flat_map snd length Nat.add].
    unfold note at 1. rewrite Hd. fold (notes ncb rest0). rewrite app_assoc. reflexivity.
  - cbn [app wait].
    destruct (Z.leb_spec dl (Z.max now t0)) as [Hle | _]; [lia |].
    rewrite Hp. cbn [negb]. rewrite Hd. rewrite IH. cbn zeta.
    cbn [l_out l_cbs l_time l_deadline l_taken notes flat_map snd length Nat.add].
    unfold note at 1. rewrite Hd. fold (notes ncb rest0). reflexivity.
Qed.

Lemma wait_silent : forall ncb now dl rest,
  silent now dl rest -> wait ncb now dl rest = LR OTimeout [] (Z.max now dl) dl 0.
Proof.
  intros ncb now dl rest [-> | (t0 & p & post & -> & Hle)].
  - reflexivity.
  - cbn [wait]. destruct (Z.leb_spec dl (Z.max now t0)) as [_ | Hlt]; [reflexivity | lia].
Qed.

Lemma wait_answered : forall ncb now dl rest t p,
  answered now dl rest t p -> wait ncb now dl rest = LR (OResponse p) [] t dl 1.
Proof.
  intros ncb now dl rest t p (t0 & post & -> & Hp & -> & Hlt).
  cbn [wait]. destruct (Z.leb_spec dl (Z.max now t0)) as [Hle | _]; [lia |].
  rewrite Hp. reflexivity.
Qed.

(* every history splits into a received run followed by silence or an answer *)
Lemma decompose : forall arr now dl,
  exists pre rest now' dl',
    arr = pre ++ rest /\ received now dl pre now' dl' /\
    (silent now' dl' rest \/ exists t p, answered now' dl' rest t p).
Proof.
  induction arr as [| [t0 p] arr IH]; intros now dl.
  - exists [], [], now, dl. split; [reflexivity |]. split; [constructor |]. left. left. reflexivity.
  - destruct (Z.leb_spec dl (Z.max now t0)) as [Hle | Hlt].
    + exists [], ((t0, p) :: arr), now, dl. split; [reflexivity |]. split; [constructor |].
      left. right. exists t0, p, arr. split; [reflexivity | exact Hle].
    + destruct (is_pre p) eqn:Hp.
      * destruct (pre_timeout p) as [d |] eqn:Hd.
        -- destruct (IH (Z.max now t0) (Z.max now t0 + d)) as (pre & rest & now' & dl' & -> & Hr & Hs).
           exists ((t0, p) :: pre), rest, now', dl'. split; [reflexivity |]. split; [| exact Hs].
           eapply rec_extend; eassumption.
        -- destruct (IH (Z.max now t0) dl) as (pre & rest & now' & dl' & -> & Hr & Hs).
           exists ((t0, p) :: pre), rest, now', dl'. split; [reflexivity |]. split; [| exact Hs].
           eapply rec_ignore; eassumption.
      * exists [], ((t0, p) :: arr), now, dl. split; [reflexivity |]. split; [constructor |].
        right. exists (Z.max now t0), p. exists t0, arr. repeat split; assumption.
Qed.

Lemma send_none : forall ncb T arr,
  send ncb FNone T arr = ret true true true (wait ncb 0 T arr).
Proof. reflexivity. Qed.

(* ---- first_real_response ---- *)
Lemma first_real_response_pf : forall ncb T pre t0 p post now' dl',
  received 0 T pre now' dl' -> is_pre p = false -> Z.max now' t0 < dl' ->
  let r := send ncb FNone T (pre ++ (t0, p) :: post) in
  r_out r = OResponse p /\ r_time r = Z.max now' t0 /\ r_taken r = S (length pre) /\
  r_cbs r = notes ncb pre /\
  forall post', send ncb FNone T (pre ++ (t0, p) :: post') = r.
Proof.
  intros ncb T pre t0 p post now' dl' Hr Hp Hlt.
  assert (HA : forall q, wait ncb 0 T (pre ++ (t0, p) :: q) =
                         LR (OResponse p) (notes ncb pre) (Z.max now' t0) dl' (S (length pre))).
  { intros q. rewrite (wait_received ncb _ _ _ _ _ Hr).
    rewrite (wait_answered ncb now' dl' ((t0, p) :: q) (Z.max now' t0) p).
    - cbn zeta. cbn [l_out l_cbs l_time l_deadline l_taken]. rewrite app_nil_r.
      rewrite Nat.add_1_r. reflexivity.
    - exists t0, q. repeat split; assumption. }
  cbn zeta. rewrite send_none, HA. cbn [ret r_out r_time r_taken r_cbs l_out l_cbs l_time l_deadline l_taken].
  repeat split. intros post'. rewrite send_none, HA. reflexivity.
Qed.

(* ---- deadline_extended ---- *)
Lemma deadline_extended_pf : forall ncb T pre rest now' dl',
  received 0 T pre now' dl' ->
  (silent now' dl' rest \/ exists t p, answered now' dl' rest t p) ->
  let r := send ncb FNone T (pre ++ rest) in
  r_deadline r = dl' /\ r_cbs r = notes ncb pre /\ (length pre <= r_taken r <= S (length pre))%nat.
Proof.
  intros ncb T pre rest now' dl' Hr Hs. cbn zeta. rewrite send_none.
  rewrite (wait_received ncb _ _ _ _ _ Hr). cbn zeta.
  destruct Hs as [Hs | (t & p & Ha)].
  - rewrite (wait_silent ncb _ _ _ Hs).
    cbn [ret r_deadline r_cbs r_taken l_out l_cbs l_time l_deadline l_taken].
    rewrite app_nil_r. repeat split; lia.
  - rewrite (wait_answered ncb _ _ _ _ _ Ha).
    cbn [ret r_deadline r_cbs r_taken l_out l_cbs l_time l_deadline l_taken].
    rewrite app_nil_r. repeat split; lia.
Qed.

Lemma received_snoc : forall now dl pre now' dl',
  received now dl pre now' dl' ->
  forall t0 p, is_pre p = true -> Z.max now' t0 < dl' ->
  received now dl (pre ++ [(t0, p)]) (Z.max now' t0)
           (match pre_timeout p with Some d => Z.max now' t0 + d | None => dl' end).
Proof.
  intros now dl pre now' dl' H.
  induction H as [now dl | now dl t1 q d rest0 now' dl' Hq Hlt1 Hd Hr IH | now dl t1 q rest0 now' dl' Hq Hlt1 Hd Hr IH];
    intros t0 p Hp Hlt.
  - cbn [app]. destruct (pre_timeout p) as [d |] eqn:Hd.
    + eapply rec_extend; try eassumption. constructor.
    + eapply rec_ignore; try eassumption. constructor.
  - cbn [app]. eapply rec_extend; try eassumption. apply IH; assumption.
  - cbn [app]. eapply rec_ignore; try eassumption. apply IH; assumption.
Qed.

(* one valid announcement, then silence: the timer fires at arrival + announced duration and
   every callback has been told the duration exactly once, in registration order *)
Lemma deadline_step_pf : forall ncb T pre t0 p d now' dl',
  received 0 T pre now' dl' -> is_pre p = true -> Z.max now' t0 < dl' -> pre_timeout p = Some d ->
  let r := send ncb FNone T (pre ++ [(t0, p)]) in
  r_out r = OTimeout /\ r_deadline r = Z.max now' t0 + d /\
  r_time r = Z.max (Z.max now' t0) (Z.max now' t0 + d) /\
  r_cbs r = r_cbs (send ncb FNone T pre) ++ map (fun i => (i, d)) (seq 0 ncb).
Proof.
  intros ncb T pre t0 p d now' dl' Hr Hp Hlt Hd. cbn zeta.
  pose proof (received_snoc _ _ _ _ _ Hr t0 p Hp Hlt) as Hr2. rewrite Hd in Hr2.
  rewrite !send_none.
  pose proof (wait_received ncb _ _ _ _ _ Hr2 []) as E2. rewrite app_nil_r in E2. rewrite E2.
  pose proof (wait_received ncb _ _ _ _ _ Hr []) as E1. rewrite app_nil_r in E1. rewrite E1.
  cbn zeta. cbn [wait ret r_out r_deadline r_time r_cbs l_out l_cbs l_time l_deadline l_taken].
  rewrite !app_nil_r. unfold notes. rewrite flat_map_app. cbn [flat_map snd]. rewrite app_nil_r.
  unfold note at 2. rewrite Hd. unfold notify. repeat split.
Qed.

(* a pre-response without a usable timeout tag changes nothing *)
Lemma invalid_pre_ignored_pf : forall ncb T pre t0 p rest now' dl',
  received 0 T pre now' dl' -> is_pre p = true -> Z.max now' t0 < dl' -> pre_timeout p = None ->
  let r := send ncb FNone T (pre ++ (t0, p) :: rest) in
  let r' := ret true true true (wait ncb (Z.max now' t0) dl' rest) in
  r_out r = r_out r' /\ r_deadline r = r_deadline r' /\ r_time r = r_time r' /\
  r_cbs r = notes ncb pre ++ r_cbs r'.
Proof.
  intros ncb T pre t0 p rest now' dl' Hr Hp Hlt Hd. cbn zeta.
  pose proof (received_snoc _ _ _ _ _ Hr t0 p Hp Hlt) as Hr2. rewrite Hd in Hr2.
  rewrite send_none.
  replace (pre ++ (t0, p) :: rest) with ((pre ++ [(t0, p)]) ++ rest) by (rewrite <- app_assoc; reflexivity).
  rewrite (wait_received ncb _ _ _ _ _ Hr2). cbn zeta.
  cbn [ret r_out r_deadline r_time r_cbs l_out l_cbs l_time l_deadline l_taken].
  unfold notes. rewrite flat_map_app. cbn [flat_map snd]. unfold note at 2. rewrite Hd.
  rewrite !app_nil_r. repeat split.
Qed.

(* ---- timeout_iff_silence ---- *)
Lemma timeout_when_silent_pf : forall ncb T pre rest now' dl',
  received 0 T pre now' dl' -> silent now' dl' rest ->
  let r := send ncb FNone T (pre ++ rest) in
  r_out r = OTimeout /\ r_time r = Z.max now' dl' /\ r_taken r = length pre.
Proof.
  intros ncb T pre rest now' dl' Hr Hs. cbn zeta. rewrite send_none.
  rewrite (wait_received ncb _ _ _ _ _ Hr). cbn zeta. rewrite (wait_silent ncb _ _ _ Hs).
  cbn [ret r_out r_time r_taken l_out l_cbs l_time l_deadline l_taken]. repeat split. lia.
Qed.

Lemma timeout_iff_silence_pf : forall ncb T arr,
  r_out (send ncb FNone T arr) = OTimeout <-> ~ some_answer T arr.
Proof.
  intros ncb T arr. split.
  - intros Ho (pre & rest & now' & dl' & t & p & -> & Hr & Ha).
    rewrite send_none in Ho. rewrite (wait_received ncb _ _ _ _ _ Hr) in Ho. cbn zeta in Ho.
    rewrite (wait_answered ncb _ _ _ _ _ Ha) in Ho. cbn in Ho. discriminate.
  - intros Hn. destruct (decompose arr 0 T) as (pre & rest & now' & dl' & -> & Hr & [Hs | (t & p & Ha)]).
    + apply (timeout_when_silent_pf ncb T pre rest now' dl' Hr Hs).
    + exfalso. apply Hn. exists pre, rest, now', dl', t, p. repeat split; assumption.
Qed.

Lemma history_decomposes_pf : forall T arr,
  exists pre rest now' dl',
    arr = pre ++ rest /\ received 0 T pre now' dl' /\
    (silent now' dl' rest \/ exists t p, answered now' dl' rest t p).
Proof. intros T arr. apply decompose. Qed.

Lemma no_failure_no_internal_pf : forall ncb T arr k,
  r_out (send ncb FNone T arr) <> OInternal k.
Proof.
  intros ncb T arr k. destruct (decompose arr 0 T) as (pre & rest & now' & dl' & -> & Hr & [Hs | (t & p & Ha)]);
    rewrite send_none, (wait_received ncb _ _ _ _ _ Hr); cbn zeta.
  - rewrite (wait_silent ncb _ _ _ Hs). cbn. discriminate.
  - rewrite (wait_answered ncb _ _ _ _ _ Ha). cbn. discriminate.
Qed.

(* ---- failures_are_internal_no_wait ---- *)
Lemma failures_are_internal_no_wait_pf : forall ncb k e T arr,
  fail_err k = Some e ->
  let r := send ncb k T arr in
  r_out r = OInternal k /\
  res_error (r_out r) = Some (code_internal, prefix_internal ++ err_string e) /\
  r_time r = 0 /\ r_cbs r = [] /\ r_taken r = 0%nat /\ r_published r = false.
Proof.
  intros ncb k e T arr Hk. destruct k; cbn in Hk; [discriminate | | |]; inversion Hk; subst;
    cbn; repeat split.
Qed.

(* whatever the failing step's error is - a *res.Error with its own code included - the code
   reported is system.internalError and the message is the error's text behind the prefix *)
Lemma failure_keeps_no_code_pf : forall ncb k T arr code msg,
  k <> FNone ->
  res_error (r_out (send ncb k T arr)) = Some (code, msg) ->
  code = code_internal /\ code <> code_timeout /\
  exists e, fail_err k = Some e /\ msg = prefix_internal ++ err_string e.
Proof.
  intros ncb k T arr code msg Hk H.
  destruct k; [contradiction | | |]; cbn in H; inversion H; subst;
    (split; [reflexivity |]); (split; [discriminate |]); eexists; split; reflexivity.
Qed.

Lemma internal_only_on_failure_pf : forall ncb k T arr k',
  r_out (send ncb k T arr) = OInternal k' -> k = k' /\ k <> FNone.
Proof.
  intros ncb k T arr k' H. destruct k.
  - exfalso. eapply no_failure_no_internal_pf. exact H.
  - cbn in H. inversion H. split; [reflexivity | discriminate].
  - cbn in H. inversion H. split; [reflexivity | discriminate].
  - cbn in H. inversion H. split; [reflexivity | discriminate].
Qed.

(* the timeout code is reported only by the timer, never by a failing step (not even one
   failing with res.ErrTimeout itself) *)
Lemma timeout_code_only_from_timer_pf : forall ncb k T arr msg,
  res_error (r_out (send ncb k T arr)) = Some (code_timeout, msg) ->
  k = FNone /\ r_out (send ncb k T arr) = OTimeout.
Proof.
  intros ncb k T arr msg H. destruct k.
  - split; [reflexivity |]. destruct (r_out (send ncb FNone T arr)) as [p | | k'] eqn:E.
    + cbn in H. discriminate.
    + reflexivity.
    + exfalso. eapply no_failure_no_internal_pf. exact E.
  - cbn in H. discriminate.
  - cbn in H. discriminate.
  - cbn in H. discriminate.
Qed.

(* ---- unsubscribed_on_every_path ---- *)
Lemma unsubscribed_on_every_path_pf : forall ncb k T arr,
  let r := send ncb k T arr in
  r_released r = r_subscribed r /\
  (r_subscribed r = true <-> (forall e, k <> FMarshal e) /\ (forall e, k <> FSubscribe e)).
Proof.
  intros ncb k T arr. destruct k as [| e | e | e]; cbn; (split; [reflexivity |]); split.
  - intros _. split; intros e; discriminate.
  - reflexivity.
  - discriminate.
  - intros [H _]. exfalso. exact (H e eq_refl).
  - discriminate.
  - intros [_ H]. exfalso. exact (H e eq_refl).
  - intros _. split; intros e'; discriminate.
  - reflexivity.
Qed.

(* ---- ties and slow callbacks: what the property allows when select's choice is open ---- *)
Lemma nd_outcomes_pf : forall W cbd ncb arr now dl r,
  In r (wait_nd W cbd ncb now dl arr) ->
  exists pre rest,
    arr = pre ++ rest /\ Forall (fun a => is_pre (snd a) = true) pre /\ l_cbs r = notes ncb pre /\
    (l_out r = OTimeout \/
     exists t0 p post, rest = (t0, p) :: post /\ is_pre p = false /\ l_out r = OResponse p).
Proof.
  intros W cbd ncb arr. induction arr as [| [t0 p] arr IH]; intros now dl r Hin.
  - cbn in Hin. destruct Hin as [<- | []]. exists [], []. repeat split; [constructor | left; reflexivity].
  - cbn [wait_nd] in Hin. apply in_app_or in Hin. destruct Hin as [Hin | Hin].
    + destruct (Z.max now dl <=? Z.max now t0 + W); [| contradiction].
      destruct Hin as [<- | []]. exists [], ((t0, p) :: arr).
      repeat split; [constructor | left; reflexivity].
    + destruct (Z.max now t0 <=? Z.max now dl + W); [| contradiction].
      destruct (is_pre p) eqn:Hp; cbn [negb] in Hin.
      * destruct (pre_timeout p) as [d |] eqn:Hd; apply in_map_iff in Hin;
          destruct Hin as (r' & <- & Hin'); apply IH in Hin';
          destruct Hin' as (pre & rest & -> & Hall & Hcbs & Hout);
          exists ((t0, p) :: pre), rest; (split; [reflexivity |]);
          (split; [constructor; [exact Hp | exact Hall] |]);
          (split; [| exact Hout]); cbn [wrap_taken l_cbs notes flat_map snd]; unfold note at 1; rewrite Hd;
          fold (notes ncb pre); rewrite Hcbs; reflexivity.
      * destruct Hin as [<- | []]. exists [], ((t0, p) :: arr).
        repeat split; [constructor |]. right. exists t0, p, arr. repeat split. exact Hp.
Qed.

(* the tie rule of [wait] (the timer wins) picks one of the allowed results *)
Lemma det_in_nd_pf : forall W ncb arr now dl,
  0 <= W -> In (wait ncb now dl arr) (wait_nd W 0 ncb now dl arr).
Proof.
  intros W ncb arr. induction arr as [| [t0 p] arr IH]; intros now dl HW.
  - left. reflexivity.
  - cbn [wait wait_nd]. apply in_or_app.
    destruct (Z.leb_spec dl (Z.max now t0)) as [Hle | Hlt].
    + left. destruct (Z.leb_spec (Z.max now dl) (Z.max now t0 + W)) as [_ | H]; [left; reflexivity | lia].
    + right. destruct (Z.leb_spec (Z.max now t0) (Z.max now dl + W)) as [_ | H]; [| lia].
      destruct (is_pre p); cbn [negb]; [| left; reflexivity].
      destruct (pre_timeout p) as [d |]; apply in_map_iff.
      * exists (wait ncb (Z.max now t0) (Z.max now t0 + d) arr). split; [reflexivity |].
        rewrite Z.mul_0_r, Z.add_0_r. apply IH. exact HW.
      * exists (wait ncb (Z.max now t0) dl arr). split; [reflexivity |]. apply IH. exact HW.
Qed.
