(* C02 - callbacks of a group run exactly once, in submission order.
   Only statements; proofs are `exact <lemma of Sched/Proofs_C02.v>`. *)
From stdpp Require Import gmap.
From GoRes Require Import Sched.Spec Sched.Proofs_C02.

(* For every trace (any number of serve cycles and shutdowns): the callbacks of group g started so
   far, followed by those still pending on the group's live work item, form a subsequence of the
   callbacks accepted for g, in acceptance order: order is kept, nothing is invented. *)
Theorem started_in_order : forall tr s g,
  irun iinit tr = Some s -> g <> 0%N ->
  sublist (glog (gstart s) g ++ pend (base s) g) (glog (genq s) g).
Proof. exact started_in_order_pf. Qed.

(* never run twice (any group, the empty group included), given distinct callback identities *)
Theorem at_most_once : forall tr s g,
  irun iinit tr = Some s -> NoDup (checked_cbs tr) -> NoDup (glog (gstart s) g).
Proof. exact at_most_once_pf. Qed.

(* As long as Shutdown has not begun closing: started ++ pending IS the accepted sequence
   (a prefix has started, the rest is pending on the registered work item: nothing dropped). *)
Theorem fifo_prefix : forall tr s g,
  irun iinit tr = Some s -> has_close tr = false -> g <> 0%N ->
  glog (genq s) g = glog (gstart s) g ++ pend (base s) g.
Proof. exact fifo_prefix_pf. Qed.

(* ... and once nothing more can happen without the environment, everything accepted has started:
   no callback is stranded (no lost wake-up). *)
Theorem no_loss : forall tr s g,
  irun iinit tr = Some s -> has_close tr = false -> svc (base s) = Started -> quiescent (base s) ->
  NoDup (checked_cbs tr) ->
  glog (gstart s) g ≡ₚ glog (genq s) g /\ (g <> 0%N -> glog (gstart s) g = glog (genq s) g).
Proof. exact no_loss_pf. Qed.

Example fifo_nonvacuous : exists tr s,
  irun iinit tr = Some s /\ has_close tr = false /\
  glog (genq s) 5%N = [100; 101; 102]%N /\ glog (gstart s) 5%N = [100; 101]%N /\ pend (base s) 5%N = [102%N].
Proof. exact fifo_nonvacuous_pf. Qed.
