(* C05 - requests are dispatched to the right handler with unaltered data.
   Only statements; every proof is `exact <lemma of Req/ProofsDispatch.v>`. *)
From Coq Require Import String.
From GoRes Require Import Req.Spec Req.Proofs Req.ProofsDispatch.
Open Scope N_scope.

(* subject <type>.<resource>.<method> for call and auth: ANY resource name r -
   dots, tokens equal to type or method names included - and any dot-free method *)
Theorem split_spec : forall t r m,
  (t = t_call \/ t = t_auth) -> no_dot m = true ->
  split_subject (t ++ dot :: r ++ dot :: m) = Some (t, r, m).
Proof. exact split_method_pf. Qed.

(* subject <type>.<resource> for every other dot-free type (get, access, ...) *)
Theorem split_spec_plain : forall t r,
  no_dot t = true -> t <> t_call -> t <> t_auth ->
  split_subject (t ++ dot :: r) = Some (t, r, []).
Proof. exact split_plain_pf. Qed.

(* the error exits: no dot at all; call/auth without a method *)
Theorem split_errors :
  (forall s, no_dot s = true -> split_subject s = None) /\
  (forall t m, (t = t_call \/ t = t_auth) -> no_dot m = true -> split_subject (t ++ dot :: m) = None).
Proof. exact split_errors_pf. Qed.

(* the handler the property names ([spec_invoked]: named method, else *, new
   preferring the dedicated handler; Get; Access) of the routed pattern is the
   one that runs - exactly its script, on a Request carrying the expected
   observation; if there is none, no handler runs *)
Theorem dispatch_spec : forall cfg m rt rn me mh d,
  ms_reply m <> [] -> split_subject (ms_subj m) = Some (rt, rn, me) ->
  cfg rn = Some mh -> decoded (ms_data m) = Some d ->
  match spec_invoked (m_h mh) rt me with
  | Some (hd, sc) =>
    handle_request cfg m =
    finish (req_ctx m mh rt rn me d)
           (run_script (req_ctx m mh rt rn me d)
                       (add_log st0 (LInvoke (expected_obs mh hd rt rn me d))) sc)
  | None => log (snd (handle_request cfg m)) = []
  end.
Proof. exact dispatch_spec_pf. Qed.

(* exactly one invocation by the service, first in the log, and what the handler
   reads is the decoded payload field by field, the subject's parts, and the
   routing result's params and group *)
Theorem fields_unaltered : forall cfg m rt rn me mh d hd sc,
  ms_reply m <> [] -> split_subject (ms_subj m) = Some (rt, rn, me) ->
  cfg rn = Some mh -> decoded (ms_data m) = Some d ->
  spec_invoked (m_h mh) rt me = Some (hd, sc) ->
  outer_invocations (log (snd (handle_request cfg m))) = [expected_obs mh hd rt rn me d] /\
  exists rest, log (snd (handle_request cfg m)) = LInvoke (expected_obs mh hd rt rn me d) :: rest.
Proof. exact fields_unaltered_pf. Qed.

(* nothing can be invoked: system.notFound (no resource, or no get handler),
   system.methodNotFound (no such call/auth method), system.internalError
   (payload not JSON), nothing for access *)
Theorem nothing_invocable_code : forall cfg m rt rn me,
  ms_reply m <> [] -> split_subject (ms_subj m) = Some (rt, rn, me) ->
  let s := snd (handle_request cfg m) in
  (cfg rn = None -> pubs s = one_error (ms_reply m) err_not_found /\ log s = []) /\
  (forall mh em, cfg rn = Some mh -> ms_data m = InBad em ->
     pubs s = one_error (ms_reply m) (internal em) /\ log s = []) /\
  (forall mh d, cfg rn = Some mh -> decoded (ms_data m) = Some d -> spec_invoked (m_h mh) rt me = None ->
     log s = [] /\
     pubs s = if beq rt t_access then []
              else if beq rt t_get then one_error (ms_reply m) err_not_found
              else if beq rt t_call || beq rt t_auth then one_error (ms_reply m) err_method_not_found
              else []).
Proof. exact nothing_invocable_code_pf. Qed.

(* a handler that returned or panicked without a reply: one response determined
   by the outcome - an error of the library's type verbatim (code, message, data,
   with the meta set so far), anything else system.internalError *)
Theorem outcome_to_response : forall c s out,
  replied s = false ->
  exists p, pubs (snd (finish c (s, out))) = pubs s ++ [Pub (c_reply c) p] /\
    match out with
    | None => p = PError code_internal (e_msg err_missing_response) None None
    | Some (PVError (GErr (Some e))) =>
        (val_ok (e_data e) = true -> p = PError (e_code e) (e_msg e) (err_data e) (cur_meta s)) /\
        (val_ok (e_data e) = false -> is_internal_error p)
    | Some _ => is_internal_error p
    end.
Proof. exact outcome_to_response_pf. Qed.

(* a handler that had replied: returning or panicking adds nothing *)
Theorem outcome_after_reply : forall c s out,
  replied s = true -> snd (finish c (s, out)) = s.
Proof. exact outcome_after_reply_pf. Qed.

(* an error of the library's type passed to Error is sent verbatim *)
Theorem error_verbatim : forall c s e,
  replied s = false -> val_ok (e_data e) = true ->
  step c s (AReply (KError (EErr e))) =
  (St true (status s) (rhdr s)
      (pubs s ++ [Pub (c_reply c) (PError (e_code e) (e_msg e) (err_data e) (cur_meta s))]) (log s), None).
Proof. exact error_verbatim_pf. Qed.

(* any other error value passed to Error, and a nil pointer: system.internalError *)
Theorem error_other : forall c s ea,
  replied s = false -> (ea = ENilErr \/ exists msg, ea = EGoErr msg) ->
  exists p, is_internal_error p /\
    step c s (AReply (KError ea)) = (St true (status s) (rhdr s) (pubs s ++ [Pub (c_reply c) p]) (log s), None).
Proof. exact error_other_pf. Qed.

(* ---------- non-vacuity ---------- *)
Definition ex_err := RErr (s2b "test.custom") (s2b "Custom") (VInt 7).
Definition ex_handlers : handlers :=
  H 1 (Some [AReply KAccessGranted]) (Some [AReply (KModel VNull)]) (Some [AReply (KNew (s2b "test.x"))])
    [ (s2b "set", [APanic (PErr ex_err)]); ([star], [AReply (KError (EErr ex_err))]) ]
    [ (s2b "login", []) ].
Definition ex_d := RD (s2b "cid1") (s2b "{""a"":1}") (s2b "{""u"":2}") [(s2b "H", [s2b "v"])]
                      (s2b "host") (s2b "1.2.3.4") (s2b "/ws") (s2b "q=1") true.
Definition ex_mh := HM ex_handlers [(s2b "id", s2b "call")] (s2b "grp").
Definition ex_cfg : config := fun rn => if beq rn (s2b "test.call.get.set") then Some ex_mh else None.
Definition ex_msg (subj : string) : msg := Msg (s2b subj) (s2b "_INBOX.r1") (InJson ex_d).
Definition ex_hids (subj : string) : list hid :=
  map o_hid (outer_invocations (log (snd (handle_request ex_cfg (ex_msg subj))))).
Definition ex_pubs (subj : string) : list pubmsg := pubs (snd (handle_request ex_cfg (ex_msg subj))).

(* a resource name made of type and method names splits at the first and the last dot only *)
Example split_nonvacuous :
  split_subject (s2b "call.test.call.get.set.new") = Some (t_call, s2b "test.call.get.set", s2b "new") /\
  split_subject (s2b "get.test.call.get.set") = Some (t_get, s2b "test.call.get.set", []) /\
  split_subject (s2b "auth.auth.auth") = Some (t_auth, s2b "auth", s2b "auth") /\
  split_subject (s2b "call.nomethod") = None.
Proof. vm_compute. repeat split. Qed.

Example dispatch_nonvacuous :
  map ex_hids ["call.test.call.get.set.set"; "call.test.call.get.set.other"; "call.test.call.get.set.new";
               "auth.test.call.get.set.login"; "auth.test.call.get.set.x"; "get.test.call.get.set";
               "access.test.call.get.set"]%string
  = [[HCall (s2b "set")]; [HCall [star]]; [HNew]; [HAuth (s2b "login")]; []; [HGet]; [HAccess]] /\
  spec_invoked ex_handlers t_call (s2b "new") = Some (HNew, [AReply (KNew (s2b "test.x"))]) /\
  (* panicked and passed errors arrive verbatim, a silent auth handler and a missing method give the system errors *)
  ex_pubs "call.test.call.get.set.set" =
    [Pub (s2b "_INBOX.r1") (PError (s2b "test.custom") (s2b "Custom") (Some (JNum 7)) None)] /\
  ex_pubs "call.test.call.get.set.other" = ex_pubs "call.test.call.get.set.set" /\
  ex_pubs "auth.test.call.get.set.login" = one_error (s2b "_INBOX.r1") err_missing_response /\
  ex_pubs "auth.test.call.get.set.x" = one_error (s2b "_INBOX.r1") err_method_not_found /\
  ex_pubs "get.test.unknown" = one_error (s2b "_INBOX.r1") err_not_found.
Proof. vm_compute. repeat split. Qed.

Example fields_nonvacuous :
  outer_invocations (log (snd (handle_request ex_cfg (ex_msg "call.test.call.get.set.set")))) =
  [Obs 1 (HCall (s2b "set")) false t_call (s2b "set") (s2b "test.call.get.set") [(s2b "id", s2b "call")] (s2b "q=1")
       (s2b "grp") (s2b "cid1") (s2b "{""u"":2}") (s2b "{""a"":1}") [(s2b "H", [s2b "v"])]
       (s2b "host") (s2b "1.2.3.4") (s2b "/ws") true].
Proof. vm_compute. reflexivity. Qed.

(* ParseParams / ParseToken into a typed target: the value seen is the decoder's value for the raw
   params / token sent (nothing is decoded when there is none) ... *)
Theorem parse_seen : forall c s tk zero v,
  step c s (AParse tk zero (ParseOk v)) =
  (add_log s (LParsed tk (if is_nil (raw_of c tk) then zero else v)), None).
Proof. exact parse_seen_pf. Qed.

(* ... and a decode error, the handler not having replied, is answered with system.invalidParams and
   the decoder's message (params) resp. system.internalError (token) *)
Theorem parse_error_response : forall c s tk zero m,
  replied s = false -> raw_of c tk <> [] ->
  pubs (snd (finish c (step c s (AParse tk zero (ParseFail m))))) =
  pubs s ++ [Pub (c_reply c)
               (if tk then PError code_internal (s2b "Internal error: " ++ m) None (cur_meta s)
                else PError code_invalid_params m None (cur_meta s))].
Proof. exact parse_error_response_pf. Qed.
