(* C11 - the shipped stores behave like a per-id linearizable map with exact
   change callbacks.  Only statements; every proof is `exact <lemma of KV/Proofs*.v>`. *)
From stdpp Require Import gmap.
From GoRes Require Import KV.Spec KV.Proofs KV.ProofsLTS.
From Coq Require Import String.
Arguments s2b _%string_scope.

(* ---- refinement: for EVERY history and every stored content, folding the store
   model gives the results and callbacks of folding the map specification from the
   abstract content, and ends in the abstraction of the final content ---- *)
Theorem refines_badger : forall pfx st ops,
  run (spec_step cfg_badger) (abs pfx st) ops =
  let '(st', outs) := run (bstep pfx) st ops in (abs pfx st', outs).
Proof. exact refines_badger_pf. Qed.

Theorem refines_mock : forall newid st ops,
  run (spec_step (cfg_mock newid)) (abs [] st) ops =
  let '(st', outs) := run (mstep newid) st ops in (abs [] st', outs).
Proof. exact refines_mock_pf. Qed.

(* the abstract content is exactly what a reader sees; with a prefix two ids never share a key *)
Theorem abs_lookup : forall pfx st i, abs pfx st !! i = view pfx st i.
Proof. exact abs_lookup_pf. Qed.
Theorem prefix_keys_injective : forall pfx i j, bkey pfx i = bkey pfx j -> i = j.
Proof. exact bkey_inj. Qed.

(* ---- what one specification step does: a success is a mutation that calls back
   exactly once with (id, value before, value after) and touches no other id;
   anything else changes nothing and calls nothing ---- *)
Theorem spec_step_exact : forall c m o m' r cbs,
  spec_step c m o = (m', r, cbs) ->
  (r = ROk /\ is_mutation o = true /\
   cbs = [(touch c o, m !! touch c o, m' !! touch c o)] /\
   (forall k, k <> touch c o -> m' !! k = m !! k)) \/
  (r <> ROk /\ cbs = [] /\ m' = m).
Proof. exact spec_step_exact_pf. Qed.

Theorem failed_changes_nothing : forall c m o m' r cbs,
  spec_step c m o = (m', r, cbs) -> is_failure r = true -> m' = m /\ cbs = [].
Proof. exact failed_changes_nothing_pf. Qed.

Theorem reads_change_nothing : forall c m o m' r cbs,
  spec_step c m o = (m', r, cbs) -> is_mutation o = false -> m' = m /\ cbs = [].
Proof. exact reads_change_nothing_pf. Qed.

(* the error clauses *)
Theorem create_existing_duplicate : forall c (m : smap) (i : id) v e b,
  is_nil i = false -> (s_checks c && e_wrongtype e) = false -> m !! i = Some b ->
  spec_step c m (OCreate i v e) = (m, EDuplicate, []).
Proof. exact create_existing_duplicate_pf. Qed.

Theorem create_empty_id_fails : forall c m v e,
  s_genid c = false -> exists r, is_failure r = true /\ spec_step c m (OCreate [] v e) = (m, r, []).
Proof. exact create_empty_id_fails_pf. Qed.

Theorem missing_not_found : forall c (m : smap) (i : id),
  m !! i = None ->
  (forall v e, (s_checks c && e_wrongtype e) = false -> spec_step c m (OUpdate i v e) = (m, ENotFound, [])) /\
  (forall e, spec_step c m (ODelete i e) = (m, ENotFound, [])) /\
  spec_step c m (OValue i) = (m, ENotFound, []) /\
  spec_step c m (OExists i) = (m, RBool false, []).
Proof. exact missing_not_found_pf. Qed.

Theorem wrongtype_or_veto_fails : forall c m o m' r cbs,
  s_checks c = true ->
  match o with
  | OCreate _ _ e | OUpdate _ _ e => e_wrongtype e || e_veto e || e_unenc e
  | ODelete _ e => e_veto e
  | _ => false
  end = true ->
  spec_step c m o = (m', r, cbs) -> is_failure r = true /\ m' = m /\ cbs = [].
Proof. exact wrongtype_or_veto_fails_pf. Qed.

(* reads after a successful write see it *)
Theorem read_your_writes : forall c m o m' cbs,
  spec_step c m o = (m', ROk, cbs) ->
  spec_step c m' (OValue (touch c o)) =
    (m', match m' !! touch c o with Some v => RVal v | None => ENotFound end, []) /\
  match o with
  | OCreate _ v _ | OUpdate _ v _ => m' !! touch c o = Some v
  | ODelete _ _ => m' !! touch c o = None
  | _ => True
  end.
Proof. exact read_your_writes_pf. Qed.

(* ---- callback chain: per id, before_{k+1} = after_k, the first before is the
   initial content and the last after is the final content ---- *)
Theorem callback_chain : forall c m ops i m' outs,
  run (spec_step c) m ops = (m', outs) ->
  chain (m !! i) (cbs_on i (cbs_of outs)) /\ chain_end (m !! i) (cbs_on i (cbs_of outs)) = m' !! i.
Proof. exact callback_chain_spec_pf. Qed.

Theorem callback_chain_badger : forall pfx st ops i st' outs,
  run (bstep pfx) st ops = (st', outs) ->
  chain (view pfx st i) (cbs_on i (cbs_of outs)) /\
  chain_end (view pfx st i) (cbs_on i (cbs_of outs)) = view pfx st' i.
Proof. exact callback_chain_badger_pf. Qed.

Theorem callback_chain_mock : forall newid st ops i st' outs,
  run (mstep newid) st ops = (st', outs) ->
  chain (view [] st i) (cbs_on i (cbs_of outs)) /\
  chain_end (view [] st i) (cbs_on i (cbs_of outs)) = view [] st' i.
Proof. exact callback_chain_mock_pf. Qed.

(* ---- BeforeChange listeners: the calls made by the badgerstore model are those of the
   specification, along every history; mockstore has none ---- *)
Theorem bc_refines_badger : forall pfx nl st o,
  bstep_bc pfx nl st o = spec_bc cfg_badger nl (abs pfx st) o.
Proof. exact bstep_bc_refines_pf. Qed.

Theorem run_bc_refines_badger : forall pfx nl ops st,
  run_bc (bstep pfx) (bstep_bc pfx nl) st ops =
  run_bc (spec_step cfg_badger) (spec_bc cfg_badger nl) (abs pfx st) ops.
Proof. exact run_bc_refines_badger_pf. Qed.

Theorem bc_mock_none : forall newid nl m o, spec_bc (cfg_mock newid) nl m o = [].
Proof. exact spec_bc_mock_pf. Qed.

(* an operation calls the listeners exactly when it ends in success, in a veto or in the
   encoder's error (the value is encoded after the listeners ran) (whatever
   the value written, equal to the stored one or not); then the outcome is the veto error
   iff some listener vetoes, and the calls are listeners 1, 2, ... in registration order,
   each once with (id, current value, new value), up to and including the first veto *)
Theorem bc_listener_stage : forall c nl m o m' r cbs,
  s_checks c = true -> spec_step c m o = (m', r, cbs) ->
  (is_mutation o = true /\
   r = (if negb (Nat.eqb (vetoat_of o) 0) then EVeto else if unenc_of o then EEncode else ROk) /\
   spec_bc c nl m o = bc_calls nl (vetoat_of o) (touch c o) (m !! touch c o) (after_of o)) \/
  (r <> ROk /\ r <> EVeto /\ r <> EEncode /\ spec_bc c nl m o = []).
Proof. exact spec_bc_stage_pf. Qed.

Theorem bc_calls_shape : forall nl k i b a,
  bc_calls nl k i b a =
  map (fun x => (x, i, b, a)) (seq 1 (if Nat.eqb k 0 || (nl <? k)%nat then nl else k)).
Proof. exact bc_calls_shape_pf. Qed.

(* results, stored content and change callbacks of a step do not depend on how many listeners
   are registered or on which of them vetoes, only on whether one does: in particular a store
   without any listener behaves like one with listeners that all accept *)
Theorem results_independent_of_listeners : forall pfx newid c st (m : smap) o o',
  op_sim o o' ->
  bstep pfx st o = bstep pfx st o' /\ mstep newid st o = mstep newid st o' /\ spec_step c m o = spec_step c m o'.
Proof. exact results_independent_of_listeners_pf. Qed.

(* ---- locking: in EVERY execution of the transaction LTS (any step function, any
   lock key function: identity = keylock per id, constant = one global RWMutex),
   transactions sharing a lock key are open together only if all of them read ---- *)
Theorem per_id_serial : forall St (step : St -> op -> St * result * list cbcall) lkey db ls s evs,
  texec step lkey (tinit db) ls = Some (s, evs) -> excl lkey (t_open s).
Proof. intros St. exact per_id_serial_pf. Qed.

(* while x is open on ix, no other transaction begins a write on that lock key (nor a read
   if x writes), and one that is open there is a reader whose mutating steps are disabled *)
Theorem no_write_progress : forall St (step : St -> op -> St * result * list cbcall) lkey db ls s evs x mx ix,
  texec step lkey (tinit db) ls = Some (s, evs) ->
  oget x (t_open s) = Some (mx, ix) ->
  forall y, y <> x ->
    (forall i, lkey i = lkey ix -> tstep step lkey s (LBegin y MWrite i) = None) /\
    (mx = MWrite -> forall i, lkey i = lkey ix -> tstep step lkey s (LBegin y MRead i) = None) /\
    (forall k my iy, oget y (t_open s) = Some (my, iy) -> lkey iy = lkey ix ->
       my = MRead /\ (is_mut k = true -> tstep step lkey s (LDo y k) = None)).
Proof. intros St. exact no_write_progress_pf. Qed.

(* an interleaved execution is the fold of the step function over its operations in order *)
Theorem exec_is_history : forall St (step : St -> op -> St * result * list cbcall) lkey ls s s' evs,
  texec step lkey s ls = Some (s', evs) ->
  run step (t_db s) (map ev_op evs) = (t_db s', map ev_out evs).
Proof. intros St. exact texec_is_run_pf. Qed.

(* ---- one operation at a time PER ID: the outcomes on id i and the final value of i
   are those of running only i's operations ---- *)
Theorem per_id_independent : forall c m ops i m' outs mi outsi,
  run (spec_step c) m ops = (m', outs) ->
  run (spec_step c) m (ops_on c i ops) = (mi, outsi) ->
  outs_on c i ops outs = outsi /\ m' !! i = mi !! i.
Proof. exact per_id_independent_pf. Qed.

Theorem spec_step_commute : forall c m o1 o2 m' x1 x2,
  touch c o1 <> touch c o2 ->
  run (spec_step c) m [o1; o2] = (m', [x1; x2]) ->
  run (spec_step c) m [o2; o1] = (m', [x2; x1]).
Proof. exact spec_step_commute_pf. Qed.

(* every interleaved execution is equivalent to the one in which each id's operations
   are contiguous: same final map, same outcomes per id in the same order *)
Theorem exec_equiv_contiguous : forall c lkey m ls s evs ids m2 outs2,
  texec (spec_step c) lkey (tinit m) ls = Some (s, evs) ->
  List.NoDup ids -> (forall o, In o (map ev_op evs) -> In (touch c o) ids) ->
  run (spec_step c) m (serialize c ids (map ev_op evs)) = (m2, outs2) ->
  t_db s = m2 /\
  forall i, outs_on c i (map ev_op evs) (map ev_out evs) = outs_on c i (serialize c ids (map ev_op evs)) outs2.
Proof. exact exec_equiv_contiguous_pf. Qed.

(* ---- the code before the fix commit violated two clauses (witnesses) ---- *)
Definition pfx_p : bytes := mk_prefix (s2b "p").
Theorem create_duplicate_error_refuted :
  snd (fst (bstep_v0 [] [(s2b "a", s2b "1")] (OCreate (s2b "a") (s2b "2") env0))) <> EDuplicate.
Proof. vm_compute. discriminate. Qed.
Theorem empty_id_with_prefix_refuted :
  snd (fst (bstep_v0 pfx_p [] (OCreate [] (s2b "1") env0))) = ROk.
Proof. vm_compute. reflexivity. Qed.

(* ---- non-vacuity ---- *)
Definition va := s2b "{""n"":1}". Definition vb := s2b "{""n"":2}".
Definition veto_env := Env false 1%nat [] false. Definition wrong_env := Env true 0%nat [] false.
Definition unenc_env := Env false 0%nat [] true.
Definition demo_ops : list op :=
  [OCreate (s2b "a") va env0; OCreate (s2b "a") vb env0; OUpdate (s2b "a") vb veto_env;
   OUpdate (s2b "a") vb env0; OValue (s2b "a"); OCreate [] va env0; OUpdate (s2b "b") va wrong_env;
   OUpdate (s2b "b") va env0; ODelete (s2b "a") env0; OExists (s2b "a")].

Example badger_demo :
  run (bstep pfx_p) [] demo_ops =
  ([], [(ROk, [(s2b "a", None, Some va)]); (EDuplicate, []); (EVeto, []);
        (ROk, [(s2b "a", Some va, Some vb)]); (RVal vb, []); (EMissingID, []); (EType, []);
        (ENotFound, []); (ROk, [(s2b "a", Some vb, None)]); (RBool false, [])]).
Proof. vm_compute. reflexivity. Qed.

Example mock_newid_demo :
  run (mstep true) [] [OCreate [] va (Env false 0%nat (s2b "g1") false); OValue (s2b "g1"); OValue [];
                        OCreate [] vb (Env false 0%nat (s2b "g1") false); OCreate [] vb env0] =
  ([(s2b "g1", va)], [(ROk, [(s2b "g1", None, Some va)]); (RVal va, []); (ENotFound, []); (EDuplicate, []); (RPanic, [])]).
Proof. vm_compute. reflexivity. Qed.

(* an Update to the value already stored is vetoed like any other: veto error, no OnChange,
   listener 1 accepts and listener 2 vetoes, both see (id, stored value, same value) *)
Example same_value_update_vetoed :
  let st := [(s2b "a", va)] in
  bstep [] st (OUpdate (s2b "a") va (Env false 2%nat [] false)) = (st, EVeto, []) /\
  bstep_bc [] 2 st (OUpdate (s2b "a") va (Env false 2%nat [] false)) =
    [(1%nat, s2b "a", Some va, Some va); (2%nat, s2b "a", Some va, Some va)] /\
  bstep_bc [] 2 st (OUpdate (s2b "a") va env0) =
    [(1%nat, s2b "a", Some va, Some va); (2%nat, s2b "a", Some va, Some va)] /\
  bstep_bc [] 2 st (OUpdate (s2b "a") va (Env false 1%nat [] false)) = [(1%nat, s2b "a", Some va, Some va)] /\
  bstep_bc [] 2 st (OCreate (s2b "a") va env0) = [].
Proof. vm_compute. repeat split. Qed.

(* a value of the right type that cannot be encoded (NaN, func, failing MarshalJSON ...): badgerstore
   fails with the encoder's error after calling the listeners, nothing is written, no OnChange,
   and the id stays fully usable; mockstore, which never encodes, stores it *)
Example unencodable_value :
  let st := [(s2b "a", va)] in
  run (bstep []) st [OUpdate (s2b "a") vb unenc_env; OValue (s2b "a"); OExists (s2b "a");
                     OCreate (s2b "b") vb unenc_env; OExists (s2b "b"); OUpdate (s2b "a") vb env0; ODelete (s2b "a") env0] =
    ([], [(EEncode, []); (RVal va, []); (RBool true, []); (EEncode, []); (RBool false, []);
          (ROk, [(s2b "a", Some va, Some vb)]); (ROk, [(s2b "a", Some vb, None)])]) /\
  bstep_bc [] 1 st (OUpdate (s2b "a") vb unenc_env) = [(1%nat, s2b "a", Some va, Some vb)] /\
  bstep [] st (OUpdate (s2b "a") vb (Env false 1%nat [] true)) = (st, EVeto, []) /\
  mstep false st (OUpdate (s2b "a") vb unenc_env) = ([(s2b "a", vb)], ROk, [(s2b "a", Some va, Some vb)]).
Proof. vm_compute. repeat split. Qed.

(* two write transactions on one id cannot be open together; on two ids (keylock) they can,
   under one global lock (mockstore) they cannot; readers share *)
Example lts_same_id_blocks :
  texec (bstep []) lkey_badger (tinit []) [LBegin 1 MWrite (s2b "a"); LBegin 2 MWrite (s2b "a")] = None /\
  texec (bstep []) lkey_badger (tinit []) [LBegin 1 MRead (s2b "a"); LBegin 2 MWrite (s2b "a")] = None /\
  texec (bstep []) lkey_mock (tinit []) [LBegin 1 MWrite (s2b "a"); LBegin 2 MWrite (s2b "b")] = None /\
  texec (bstep []) lkey_badger (tinit []) [LBegin 1 MRead (s2b "a"); LDo 1 (KUpdate va env0)] = None.
Proof. vm_compute. repeat split. Qed.

(* Close on a transaction that is not open (already closed) is not a step: nothing changes *)
Example lts_close_twice_disabled :
  texec (bstep []) lkey_badger (tinit []) [LBegin 1 MWrite (s2b "a"); LClose 1; LClose 1] = None /\
  (match texec (bstep []) lkey_badger (tinit []) [LBegin 1 MWrite (s2b "a"); LClose 1; LBegin 2 MWrite (s2b "a")] with
   | Some (s, _) => t_open s = [(2, (MWrite, s2b "a"))] | None => False end).
Proof. vm_compute. repeat split. Qed.

Example lts_interleaving_runs :
  match texec (bstep []) lkey_badger (tinit [])
      [LBegin 1 MWrite (s2b "a"); LBegin 2 MWrite (s2b "b"); LDo 1 (KCreate va env0); LDo 2 (KCreate vb env0);
       LBegin 3 MRead (s2b "c"); LBegin 4 MRead (s2b "c"); LDo 1 KValue; LClose 1; LBegin 5 MRead (s2b "a");
       LDo 5 KValue; LDo 2 (KUpdate va env0); LClose 2; LClose 3; LClose 4; LClose 5; LBegin 6 MWrite (s2b "a");
       LDo 6 (KDelete env0); LClose 6] with
  | Some (s, evs) => t_open s = [] /\ List.length evs = 6%nat /\ t_db s = [(s2b "b", va)]
  | None => False
  end.
Proof. vm_compute. repeat split. Qed.
