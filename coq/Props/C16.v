(* C16 - no data race under any concurrent use the API permits (PARTIAL, see DESIGN.md).
   Only statements; proofs are `exact <lemma of Sched/Proofs_C16.v>`. *)
From stdpp Require Import gmap.
From Coq Require Import String NArith.
From GoRes Require Import Sched.Access Sched.AccessTable Sched.AccessLTS Sched.Proofs_C16.

(* (1) every access site of the table extracted from the source obeys the lockset discipline
   (the table is finite, so computation is a proof; the check regenerates the table from /repo on
   every run and compares) *)
Theorem lockset_discipline : forallb loc_ok access_table = true.
Proof. exact lockset_discipline_pf. Qed.

(* (1b) lock granularity: the atomic steps LSect / LEnq of the scheduler LTS (on which C01-C03 and the
   happens-before theorem below rest) are single critical sections of s.mu in the code: the worker tests the
   work item's queue and removes the rwork entry under one hold of the lock; runWith tests the queue for nil,
   looks up rwork and appends/registers under one hold of the lock *)
Theorem lock_granularity : granularity_ok access_table = true.
Proof. exact lock_granularity_pf. Qed.

(* (2) in every execution that respects the mutex, any two accesses made while holding it are
   ordered by happens-before (program order + unlock->lock), whatever the threads and locations *)
Theorem locked_accesses_ordered : forall tr i j t1 t2 l1 l2 w1 w2,
  wf None tr = true -> (i < j)%nat ->
  nth_error tr i = Some (EAcc t1 l1 w1 true) -> nth_error tr j = Some (EAcc t2 l2 w2 true) ->
  hb tr i j.
Proof. exact locked_accesses_ordered_pf. Qed.

(* (3) on every trace of the scheduler LTS: the end of a callback of group g happens-before the
   start of every later callback of g (so memory touched only by a group's callbacks is race-free
   without user synchronisation), and accepting a callback happens-before starting it *)
Theorem group_memory_hb : forall tr s i j k1 c1 k2 c2 g,
  run init tr = Some s -> (i < j)%nat ->
  tr !! i = Some (LEnd k1 c1) -> tr !! j = Some (LStart k2 c2) ->
  lgroup tr i = Some g -> lgroup tr j = Some g -> g <> 0%N ->
  lhb tr i j.
Proof. exact group_memory_hb_pf. Qed.
Theorem submit_hb_start : forall tr s i j p r k c g,
  run init tr = Some s -> NoDup (checked_cbs tr) -> (i < j)%nat ->
  tr !! i = Some (LEnq p r) -> lenq tr i = Some (g, c) -> tr !! j = Some (LStart k c) ->
  lhb tr i j.
Proof. exact submit_hb_start_pf. Qed.

(* the hypotheses are met with two DIFFERENT workers running consecutive callbacks of one group *)
Example hb_nonvacuous : exists tr s i j k1 k2 c1 c2,
  run init tr = Some s /\ (i < j)%nat /\ k1 <> k2 /\
  tr !! i = Some (LEnd k1 c1) /\ tr !! j = Some (LStart k2 c2) /\
  lgroup tr i = Some 5%N /\ lgroup tr j = Some 5%N.
Proof. exact hb_nonvacuous_pf. Qed.
