(* C04 - every request gets exactly one response, whatever the handler does.
   Only statements; every proof is `exact <lemma of Req/Proofs.v>`.
   A configuration [cfg] gives, for every resource name, the routed handler set
   whose handlers are arbitrary SCRIPTS (any list of reply / event / timeout /
   panic / meta / nested Value actions), so "forall cfg" is "for every handler
   behaviour". *)
From Coq Require Import String.
From GoRes Require Import Req.Spec Req.Proofs.
Open Scope N_scope.

(* a request with a reply subject and a well-formed subject gets exactly one
   message on the reply subject that is not a timeout pre-response - except the
   deliberately unanswered ones (matched resource, decodable payload, access
   without access handler or a type that is none of the four), which get none *)
Theorem exactly_one_response : forall cfg m rt rn me,
  ms_reply m <> [] -> inbox_like (ms_reply m) = true ->
  split_subject (ms_subj m) = Some (rt, rn, me) ->
  List.length (responses (ms_reply m) (pubs (snd (handle_request cfg m)))) =
  if silent cfg m rt rn then 0%nat else 1%nat.
Proof. exact exactly_one_response_pf. Qed.

(* ... and in that case nothing at all is published and no handler runs *)
Theorem access_unhandled_silent : forall cfg m rt rn me,
  ms_reply m <> [] -> split_subject (ms_subj m) = Some (rt, rn, me) ->
  silent cfg m rt rn = true ->
  pubs (snd (handle_request cfg m)) = [] /\ log (snd (handle_request cfg m)) = [].
Proof. exact access_unhandled_silent_pf. Qed.

(* no panic escapes: for every configuration (every script) and message *)
Theorem panic_contained : forall cfg m, fst (handle_request cfg m) = Done.
Proof. exact panic_contained_pf. Qed.

(* ... so a worker answers a sequence of requests as if each came alone *)
Theorem sequence_unaffected : forall cfg ms,
  handle_requests cfg ms = (Done, map (fun m => snd (handle_request cfg m)) ms).
Proof. exact sequence_unaffected_pf. Qed.

(* the recover switch as it was before fix 2eb2ca1 let a panic escape:
   reply, then panic with a nil pointer of the library's error type *)
Theorem recover_v0_refuted :
  fst (execute_handler_v0 v0_ctx) = Crash /\ fst (execute_handler v0_ctx) = Done /\
  List.length (responses (c_reply v0_ctx) (pubs (snd (execute_handler v0_ctx)))) = 1%nat.
Proof. exact recover_v0_refuted_pf. Qed.

(* ---------- non-vacuity ---------- *)
Definition ex_err := RErr (s2b "test.custom") (s2b "Custom") (VInt 7).
Definition ex_handlers : handlers :=
  H 1 None
    (Some [AEvent (s2b "seen") VNull; AReply (KModel (VMap [(s2b "a", s2b "b")]))])
    (Some [])                                                     (* new handler that never replies *)
    [ (s2b "twice", [AReply (KOK (VInt 1)); AReply (KOK (VInt 2))]);
      (s2b "late", [ATimeout 3000; AReply (KOK VNull); APanic PNilErr]);
      (s2b "nested", [AValue true; AValue false; APanic (PErr ex_err)]);
      ([star], [ASetStatus 402; APanic (POther (s2b "42"))]) ]
    [ (s2b "login", [ATokenEvent (VStr (s2b "tok")); AReply (KResource (s2b "a..b"))]) ].
Definition ex_cfg : config :=
  fun rn => if beq rn (s2b "test.call.get") then Some (HM ex_handlers [] rn) else None.
Definition ex_msg (subj : string) : msg := Msg (s2b subj) (s2b "_INBOX.r1") InEmpty.
Definition ex_count (subj : string) : nat :=
  List.length (responses (s2b "_INBOX.r1") (pubs (snd (handle_request ex_cfg (ex_msg subj))))).

(* the hypotheses are met and each listed handler behaviour yields one response *)
Example one_response_nonvacuous :
  inbox_like (s2b "_INBOX.r1") = true /\
  split_subject (s2b "call.test.call.get.twice") = Some (t_call, s2b "test.call.get", s2b "twice") /\
  map ex_count ["call.test.call.get.twice"; "call.test.call.get.late"; "call.test.call.get.nested";
                "call.test.call.get.other"; "call.test.call.get.new"; "auth.test.call.get.login";
                "auth.test.call.get.nope"; "get.test.call.get"; "get.test.nothing"]%string
  = [1; 1; 1; 1; 1; 1; 1; 1; 1]%nat /\
  (* the pre-response is there but not counted; the second reply was not sent *)
  List.length (pubs (snd (handle_request ex_cfg (ex_msg "call.test.call.get.late")))) = 2%nat /\
  List.length (pubs (snd (handle_request ex_cfg (ex_msg "call.test.call.get.twice")))) = 1%nat.
Proof. vm_compute. repeat split. Qed.

Example silent_nonvacuous :
  silent ex_cfg (ex_msg "access.test.call.get") t_access (s2b "test.call.get") = true /\
  ex_count "access.test.call.get" = 0%nat /\
  (* not silent when the resource is unknown or the payload does not decode *)
  silent ex_cfg (ex_msg "access.test.other") t_access (s2b "test.other") = false /\
  ex_count "access.test.other" = 1%nat /\
  List.length (responses (s2b "_INBOX.r1")
     (pubs (snd (handle_request ex_cfg (Msg (s2b "access.test.call.get") (s2b "_INBOX.r1") (InBad (s2b "bad"))))))) = 1%nat.
Proof. vm_compute. repeat split. Qed.
