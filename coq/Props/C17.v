(* C17 - pattern operations agree with one token-wise grammar.
   Only statements; every proof is `exact <lemma of Pattern/Proofs.v>`. *)
From Coq Require Import String.
From GoRes Require Import Pattern.Spec Pattern.Proofs Pattern.RidPattern Pattern.Repeated.
Open Scope N_scope.

(* the five scanners are the token-wise functions of Pattern/Spec.v, for EVERY byte string *)
Theorem is_valid_spec : forall p, is_valid p = tvalid p.
Proof. exact is_valid_spec_pf. Qed.
Theorem matches_tokenwise : forall p s, matches p s = tmatch (tokens p) (tokens s).
Proof. exact matches_tokenwise_pf. Qed.
Theorem values_tokenwise : forall p s, values p s = tvalues (tokens p) (tokens s) [].
Proof. exact values_tokenwise_pf. Qed.
Theorem replace_tokenwise : forall f p, replace f p = join (map (treplace f) (tokens p)).
Proof. exact replace_tokenwise_pf. Qed.
Theorem index_wildcard_spec : forall p, index_wildcard p = tindex 0 (tokens p).
Proof. exact index_wildcard_spec_pf. Qed.

(* a pattern matches a name exactly when extraction succeeds *)
Theorem matches_iff_values : forall p s, no_gt_start s = true -> matches p s = isSome (values p s).
Proof. exact matches_iff_values_pf. Qed.

(* extracted values substituted back still match; they give the name itself without anonymous wildcards *)
Theorem replace_roundtrip : forall p s m,
  no_gt_start s = true -> nodupb (tag_names p) = true -> values p s = Some m ->
  matches (replace_tags m p) s = true /\ (no_anon p = true -> replace_tags m p = s).
Proof. exact replace_roundtrip_pf. Qed.

(* ... also for patterns in which a tag occurs more than once.  Values keeps one value per tag (the last
   occurrence's token) and ReplaceTags substitutes every occurrence, so the round trip needs the extraction to be
   [consistent]: at every position where the pattern has $t the name token is the value of t *)
Theorem replace_roundtrip_repeated : forall p s m,
  no_gt_start s = true -> values p s = Some m -> consistent p s m = true ->
  matches (replace_tags m p) s = true /\ (no_anon p = true -> replace_tags m p = s).
Proof. exact replace_roundtrip_repeated_pf. Qed.
(* it subsumes replace_roundtrip: without repeated tags every extraction is consistent *)
Theorem nodup_consistent : forall p s m,
  nodupb (tag_names p) = true -> values p s = Some m -> consistent p s m = true.
Proof. exact nodup_consistent_pf. Qed.
(* and consistency is necessary: whenever the substitution gives back the name the extraction was consistent *)
Theorem roundtrip_consistent : forall p s m,
  values p s = Some m -> replace_tags m p = s -> consistent p s m = true.
Proof. exact roundtrip_consistent_pf. Qed.
(* "$a.x.$a": on "q.x.q" the round trip gives the name; on "q.x.r" extraction succeeds with a = "r" (last wins),
   is not consistent, and the substitution gives "r.x.r", which does not even match the name *)
Example repeated_tag_consistent :
  let p := s2b "$a.x.$a" in let s := s2b "q.x.q" in
  no_gt_start s = true /\ nodupb (tag_names p) = false /\ no_anon p = true /\
  exists m, values p s = Some m /\ consistent p s m = true /\ replace_tags m p = s.
Proof. vm_compute. repeat split. eexists. repeat split. Qed.
Example repeated_tag_inconsistent :
  let p := s2b "$a.x.$a" in let s := s2b "q.x.r" in
  no_gt_start s = true /\ no_anon p = true /\
  exists m, values p s = Some m /\ consistent p s m = false /\
            replace_tags m p = s2b "r.x.r" /\ matches (replace_tags m p) s = false.
Proof. vm_compute. repeat split. eexists. repeat split. Qed.

(* Matches(p,q) = true means p covers q: every name of q is a name of p *)
Theorem covers_sound : forall p q s,
  no_gt_start s = true -> matches p q = true -> matches q s = true -> matches p s = true.
Proof. exact covers_sound_pf. Qed.

(* validators *)
Theorem valid_part_spec : forall t,
  is_valid_part t = negb (is_nil t) && forallb (fun c => rid_char_ok c && negb (c =? dot)) t.
Proof. exact valid_part_spec_pf. Qed.
Theorem valid_rid_spec : forall r,
  is_valid_rid r = forallb (fun t => negb (is_nil t) && forallb rid_char_ok t) (tokens (before_q r)).
Proof. exact valid_rid_spec_pf. Qed.
Theorem valid_path_spec : forall p,
  is_valid_path p = is_nil p || (tvalid p && forallb (fun t => match kind t with KLit => true | _ => false end) (tokens p)).
Proof. exact valid_path_spec_pf. Qed.

(* and conversely: when Matches(p,q) is false some name of q is not a name of p *)
Theorem covers_complete : forall p q,
  is_valid p = true -> is_valid q = true -> matches p q = false ->
  exists s, no_gt_start s = true /\ matches q s = true /\ matches p s = false.
Proof. exact covers_complete_pf. Qed.

(* id -> rid -> id is the identity for every id that is a valid name part (valid pattern) *)
Theorem id_roundtrip : forall tag p id,
  is_valid p = true ->
  is_valid_part id = true -> nodupb (tag_names p) = true -> existsb (beq tag) (tag_names p) = true ->
  rid_to_id tag p (id_to_rid tag p id) = Some id.
Proof. exact id_roundtrip_valid_pf. Qed.
(* ... and validity of the pattern is needed: ">.$a" is a counterexample *)
Theorem id_roundtrip_invalid_pattern_refuted : exists tag p id,
  is_valid_part id = true /\ nodupb (tag_names p) = true /\ existsb (beq tag) (tag_names p) = true /\
  rid_to_id tag p (id_to_rid tag p id) <> Some id.
Proof. exact id_roundtrip_refuted_pf. Qed.

(* name parts and resource ids agree: whatever is accepted as a name part (ids handed to the id transformers,
   event and method names, connection ids) is a valid resource id of one token *)
Theorem valid_part_is_valid_rid : forall t, is_valid_part t = true -> is_valid_rid t = true.
Proof. exact valid_part_is_rid_pf. Qed.

(* resource ids agree with the pattern grammar: a resource id without query part and without $-tokens is a valid
   pattern and a valid path, i.e. whatever IsValidRID accepts as a plain resource name can be registered and routed
   (the $-token exclusion is needed: "a.$" is a valid resource id but not a valid pattern) *)
Theorem valid_rid_is_valid_pattern : forall r,
  is_valid_rid r = true -> no_qmark r = true -> no_dollar_tokens r = true ->
  is_valid r = true /\ is_valid_path r = true.
Proof. exact valid_rid_is_valid_pattern_pf. Qed.
Example valid_rid_dollar_token_not_pattern :
  is_valid_rid (s2b "a.$") = true /\ no_qmark (s2b "a.$") = true /\ is_valid (s2b "a.$") = false.
Proof. vm_compute. repeat split. Qed.

(* the scanner before the fix violated matches_iff_values (witness "a$b" / "axyz") *)
Theorem matches_v0_refuted : exists p s,
  is_valid p = true /\ no_gt_start s = true /\ matches_v0 p s <> isSome (values p s).
Proof. exact matches_v0_refuted_pf. Qed.

(* non-vacuity: hypotheses are met by non-trivial inputs *)
Example roundtrip_nonvacuous :
  let p := s2b "lib.$kind.*.$id" in let s := s2b "lib.book..42" in
  no_gt_start s = true /\ nodupb (tag_names p) = true /\ isSome (values p s) = true /\ matches p s = true.
Proof. vm_compute. repeat split. Qed.
Example id_roundtrip_nonvacuous :
  let p := s2b "library.$shelf.book.$bookid" in
  is_valid_part (s2b "$42") = true /\ nodupb (tag_names p) = true /\ existsb (beq (s2b "bookid")) (tag_names p) = true /\
  id_to_rid (s2b "bookid") p (s2b "$42") = s2b "library.$shelf.book.$42".
Proof. vm_compute. repeat split. Qed.
