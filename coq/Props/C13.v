(* C13 - index queries equal a sorted, filtered, windowed scan of the store.
   Only statements; every proof is `exact <lemma of Index/Proofs.v>`. *)
From GoRes Require Import Index.Proofs Index.RunCommon Index.InitStep.
Open Scope N_scope.

(* After ANY mutation history (creates, updates changing or keeping keys,
   deletes, failing operations) applied through update_index, the index key
   space is sorted and is exactly { name:key\0id | (id, v) stored, key v <> nil },
   for every index of the query store (values whose key is nil are not indexed).
   Hypotheses: index names are distinct and contain no ':', ids contain no NUL. *)
Theorem index_invariant : forall {V} (idxs : list (index V)) ncb ms st d es,
  names_ok idxs -> muts_ids_nul_free ms = true ->
  run_history idxs ncb ms = (st, d, es) -> index_state idxs st d.
Proof. intros V. exact index_invariant_pf. Qed.

(* the same for every per-id chained sequence of changes, i.e. for every
   interleaving of concurrent writers on different ids *)
Theorem index_invariant_chains : forall {V} (idxs : list (index V)) ncb cs,
  names_ok idxs -> chain_ok [] cs ->
  index_state idxs (fold_left apply_change cs []) (fst (run_changes idxs ncb [] cs)).
Proof. intros V. exact index_invariant_chains_pf. Qed.

(* in such a state the keys under "name:" are exactly the index's entries *)
Theorem index_slices : forall {V} (idxs : list (index V)) s d ix,
  names_ok idxs -> index_state idxs s d -> In ix idxs ->
  index_slice (iname ix) d (entries_of ix s) /\ NoDup (entries_of ix s) /\
  (forall e, In e (entries_of ix s) -> nul_free (snd e) = true).
Proof. intros V. exact index_slices_pf. Qed.

(* FetchCollection over a sorted key space whose "name:" slice is [entries]
   returns the ids of the entries whose key has the prefix and passes the
   filter, ordered bytewise by (key, id), reversed if asked, cut by offset and
   limit (limit < 0 unlimited, = 0 empty) - for every prefix, filter, offset,
   limit and direction.  Keys and ids are NUL-free; Reverse needs real bytes
   (< 256); limit < 0 needs fewer than maxInt keys. *)
Theorem query_spec : forall {V} (d : kdb) (q : iquery V) (entries : list entry),
  sortedb d = true -> index_slice (iname (qidx q)) d entries -> NoDup entries ->
  entries_nul_free entries = true ->
  (qrev q = true -> db_bytes_ok d = true) ->
  ((qlimit q < 0)%Z -> (Z.of_nat (length d) < max_int)%Z) ->
  fetch_collection d q = FOk (spec_query q entries).
Proof. intros V. exact query_spec_pf. Qed.

(* BadgerDB iterates over the WHOLE key space: the database also holds the raw
   value keys (and whatever else the application stores).  Any sorted key space
   d' that contains the index's keys, and whose other keys do not start with
   "<index name>:", gives the same answer - forward and reverse, in particular
   when a foreign key is exactly the prefix successor the reverse scan seeks to *)
Theorem query_with_foreign_keys : forall {V} (idxs : list (index V)) s d d' (q : iquery V),
  names_ok idxs -> index_state idxs s d -> In (qidx q) idxs ->
  sortedb d' = true ->
  (forall k, In k d -> In k d') ->
  (forall k, In k d' -> ~ In k d -> has_prefix (iname (qidx q) ++ [colon]) k = false) ->
  entries_nul_free (entries_of (qidx q) s) = true ->
  (qrev q = true -> db_bytes_ok d' = true) ->
  ((qlimit q < 0)%Z -> (Z.of_nat (length d') < max_int)%Z) ->
  fetch_collection d' q = FOk (spec_query q (entries_of (qidx q) s)).
Proof. intros V. exact query_with_foreign_keys_pf. Qed.

(* both together: a query after any flushed history *)
Theorem query_after_history : forall {V} (idxs : list (index V)) ncb ms st d es (q : iquery V),
  names_ok idxs -> muts_ids_nul_free ms = true -> run_history idxs ncb ms = (st, d, es) ->
  In (qidx q) idxs ->
  entries_nul_free (entries_of (qidx q) st) = true ->
  (qrev q = true -> db_bytes_ok d = true) ->
  ((qlimit q < 0)%Z -> (Z.of_nat (length d) < max_int)%Z) ->
  fetch_collection d q = FOk (spec_query q (entries_of (qidx q) st)).
Proof. intros V. exact query_after_history_pf. Qed.

(* when QueryStore.Flush returns, every task accepted before its sentinel has
   finished: it is neither pending nor running *)
Theorem flush_complete : forall c ls s,
  tq_run (tq_init c) ls = Some s ->
  forall f t, In f (returned s) -> accepted_before s t (TSentinel f) ->
  In t (finished s) /\ ~ In t (pending s) /\ running s <> Some t.
Proof. exact flush_complete_pf. Qed.

(* taskqueue.Flush alone (QueryStore.Flush before the fix) does not give that *)
Theorem taskqueue_flush_refuted : exists ls s t f,
  tq_run (tq_init 256) ls = Some s /\ In f (old_returned s) /\ In t (accepted s) /\
  running s = Some t /\ ~ In t (finished s).
Proof. exact taskqueue_flush_refuted_pf. Qed.

(* layout limitation (known finding nul-in-key): with a NUL byte inside an
   index key the (key, id) order is broken although ids are NUL-free *)
Theorem nul_key_order_refuted :
  exists (ix : index bytes) (ms : list (mutation bytes)) (q : iquery bytes),
    qidx q = ix /\ muts_ids_nul_free ms = true /\
    let '(st, d, _) := run_history [ix] 0 ms in
    entries_nul_free (entries_of ix st) = false /\
    forallb (fun e => nul_free (snd e)) (entries_of ix st) = true /\
    sortedb d = true /\
    fetch_collection d q <> FOk (spec_query q (entries_of ix st)).
Proof. exact nul_key_order_refuted_pf. Qed.

(* Store.Init as a history step (SInit of Index/RunCommon.v, the step the harness histories contain): on an
   initialised store it produces no mutation; otherwise one create per seed, of which exactly those whose id holds
   no value take effect - each once, in seed order - and the store is initialised afterwards *)
Theorem init_step_writes_absent_only : forall (seeds : list (bytes * val)) (st : vstore val),
  NoDup (map fst seeds) -> (forall p, In p seeds -> is_nil (fst p) = false) ->
  flatten_steps true [SInit seeds] = ([], true) /\
  flatten_steps false [SInit seeds] = (map seed_create seeds, true) /\
  changes_of st (map seed_create seeds) = map seed_change (filter (seed_absent st) seeds) /\
  NoDup (map (fun c => fst (fst c)) (changes_of st (map seed_create seeds))).
Proof. exact init_step_writes_absent_only_pf. Qed.

(* the index invariant and query_spec hold after any history containing Init steps *)
Theorem init_step_preserves_invariant : forall (ixs : list (index val)) ncb (steps : list step) inited st d es,
  names_ok ixs ->
  muts_ids_nul_free (fst (flatten_steps inited steps)) = true ->
  run_history ixs ncb (fst (flatten_steps inited steps)) = (st, d, es) ->
  index_state ixs st d /\
  forall q : iquery val, In (qidx q) ixs ->
    entries_nul_free (entries_of (qidx q) st) = true ->
    (qrev q = true -> db_bytes_ok d = true) ->
    ((qlimit q < 0)%Z -> (Z.of_nat (length d) < max_int)%Z) ->
    fetch_collection d q = FOk (spec_query q (entries_of (qidx q) st)).
Proof. exact init_step_preserves_invariant_pf. Qed.

(* ---- non-vacuity ---- *)
(* byte strings are written as ASCII codes: "k" = [107], "a" = [97], "1" = [49] ... *)
Definition ex_ix1 : index (bytes * option bytes)%type := Index [107] (fun v => Some (fst v)).
Definition ex_ix2 : index (bytes * option bytes)%type := Index [107; 98] (fun v => snd v).
Definition ex_ms : list (mutation (bytes * option bytes)%type) :=
  [MCreate [49] ([97; 98], None); MCreate [50] ([97], Some [120]);
   MCreate [51] ([97; 98], Some [121]); MUpdate [50] ([98], Some [120]);
   MCreate [52] ([97], None); MDelete [57]; MCreate [49] ([122; 122], None)].

Example names_ok_nonvacuous : names_ok [ex_ix1; ex_ix2].
Proof.
  split.
  - intros ix [H|[H|[]]]; subst; reflexivity.
  - repeat constructor; cbn; intuition discriminate.
Qed.

(* hypotheses of query_after_history hold on a real history, results are non-trivial *)
Example query_nonvacuous :
  let '(st, d, _) := run_history [ex_ix1; ex_ix2] 0 ex_ms in
  muts_ids_nul_free ex_ms = true /\
  entries_nul_free (entries_of ex_ix1 st) = true /\ db_bytes_ok d = true /\
  fetch_collection d (IQ ex_ix1 [97] None 0%Z (-1)%Z false) = FOk [[52]; [49]; [51]] /\
  fetch_collection d (IQ ex_ix1 [97] None 1%Z 1%Z true) = FOk [[49]] /\
  fetch_collection d (IQ ex_ix1 [] None 0%Z 0%Z false) = FOk [] /\
  fetch_collection d (IQ ex_ix2 [] None 0%Z (-1)%Z false) = FOk [[50]; [51]] /\
  fetch_collection d (IQ ex_ix1 [97; 98; 99] None 0%Z (-1)%Z false) = FOk [] /\
  length d = 6%nat.
Proof. vm_compute. repeat split. Qed.

(* an unprefixed store holding a value with id "k;" : the raw value key "k;" is
   exactly prefix_successor("k:"), the key the reverse scan seeks to and steps over *)
Example successor_neighbour_nonvacuous :
  let '(st, d, _) := run_history [ex_ix1; ex_ix2] 0 ex_ms in
  let d' := db_set [107; 59] d in
  psucc (get_query [107] []) = Some [107; 59] /\ In [107; 59] d' /\
  fetch_collection d' (IQ ex_ix1 [] None 0%Z (-1)%Z true) = fetch_collection d (IQ ex_ix1 [] None 0%Z (-1)%Z true) /\
  fetch_collection d' (IQ ex_ix1 [] None 0%Z 2%Z true) = FOk [[50]; [51]].
Proof. vm_compute. repeat split. do 4 right. left. reflexivity. Qed.

(* an Init whose seeds name an existing id (other key) and a new one: only the new one is written *)
Example init_step_nonvacuous :
  let steps := [SMut (MCreate [49] ([97], None)); SInit [([49], ([122], None)); ([50], ([98], Some [120]))];
                SInit [([51], ([99], None))]] in
  let '(st, d, _) := run_history idxs 0 (fst (flatten_steps false steps)) in
  length (fst (flatten_steps false steps)) = 3%nat /\
  st_get [49] st = Some ([97], None) /\ st_get [50] st = Some ([98], Some [120]) /\ st_get [51] st = None /\
  fetch_collection d (to_iq (QD 0 [] 0 0%Z (-1)%Z false)) = FOk [[49]; [50]].
Proof. vm_compute. repeat split. Qed.

Example flush_nonvacuous : exists s,
  tq_run (tq_init 256) [LDo (TIndex 0); LPop; LDo (TSentinel 0); LFinish; LPop; LFinish; LFlushReturn 0] = Some s /\
  In 0%nat (returned s) /\ accepted_before s (TIndex 0) (TSentinel 0).
Proof.
  eexists. split; [vm_compute; reflexivity|]. split; [left; reflexivity|].
  exists 0%nat, 1%nat. repeat split. constructor.
Qed.
