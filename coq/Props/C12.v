(* C12 - acknowledged writes survive a crash; Init seeds once; indexes rebuild.
   Only statements; every proof is `exact <lemma of Crash/Proofs*.v>`.

   PARTIAL by construction: BadgerDB's own atomicity/durability is the DEFINITION of [crash]
   (keep a prefix of the committed write-sets, nothing partial) and [reopen] (replay them) in
   Crash/Model.v; it is assumed, not proved.  A process lifetime is the client goroutine's
   program interleaved with the index task-queue goroutine by an ARBITRARY schedule [sched];
   the process is killed after an ARBITRARY number [t] of events of its trace. *)
From GoRes Require Import Crash.Spec Crash.Proofs.
Open Scope N_scope.

(* every crash point of the write-set log is a kill time of the trace, and vice versa *)
Theorem crash_is_kill : forall n tr, exists t, crash n (commits tr) = commits (firstn t tr).
Proof. exact crash_is_kill_pf. Qed.
Theorem kill_is_crash : forall t tr, exists n, commits (firstn t tr) = crash n (commits tr).
Proof. exact kill_is_crash_pf. Qed.

(* For every store content c0, workload, schedule and kill time t: with k calls acknowledged
   (returned) before the kill, the reopened database holds exactly the specification state after
   the first k or the first k+1 calls: nothing acknowledged is lost, the call in flight is
   applied completely or not at all. *)
Theorem acked_durable : forall g c0 ops sched t,
  let tr := firstn t (trace (run g c0 ops sched)) in
  exists j, (j = acks tr \/ j = S (acks tr)) /\ (j <= length ops)%nat /\
            sst_eq (abs (durable c0 tr)) (spec_run (abs c0) (firstn j ops)).
Proof. exact acked_durable_pf. Qed.

(* the same, phrased with [crash n]: whenever the kill leaves the first n write-sets *)
Theorem acked_durable_crash : forall g c0 ops sched n t,
  let tr := trace (run g c0 ops sched) in
  commits (firstn t tr) = crash n (commits tr) ->
  exists j, (j = acks (firstn t tr) \/ j = S (acks (firstn t tr))) /\ (j <= length ops)%nat /\
            sst_eq (abs (reopen c0 (crash n (commits tr)))) (spec_run (abs c0) (firstn j ops)).
Proof. exact acked_durable_crash_pf. Qed.

(* Any number of lifetimes on an initially empty database, each starting with any number of
   FAILING Init calls (wrong-type seed, callback error, unencodable seed: [InitErr]; empty or
   duplicate seed id: [Init] of invalid seeds) followed by Init of the same valid seeds, each with
   its own workload, schedule and kill time (also inside Init); a failed Init never counts:
   at most one Init transaction is ever durable, no seed id is written twice by Init, and either
   the marker is absent and no value at all is stored, or the marker is present and the one
   durable Init transaction wrote all seeds and the marker - never half of them. *)
Theorem init_once : forall g seeds ls,
  valid_seeds seeds = true -> Forall (starts_with_init seeds) ls ->
  let tr := trace_all g [] ls in
  let c := run_all g [] ls in
  (length (init_commits tr) <= 1)%nat /\
  NoDup (flat_map ws_val_ids (init_commits tr)) /\
  (isSomeV (get KMark c) = false -> init_commits tr = [] /\ forall i, get (KVal i) c = None) /\
  (isSomeV (get KMark c) = true -> init_commits tr = [init_ws seeds]).
Proof. exact init_once_pf. Qed.

(* once the marker is durable no later Init (in any later lifetime, with any seeds) writes anything *)
Theorem init_noop_when_marked : forall g c0 ls, isSomeV (get KMark c0) = true ->
  init_commits (trace_all g c0 ls) = [] /\ isSomeV (get KMark (run_all g c0 ls)) = true.
Proof. exact init_noop_when_marked_pf. Qed.

(* a seed (any id) deleted after initialisation is never resurrected by a later Init *)
Theorem init_never_resurrects : forall g ls c0 i,
  isSomeV (get KMark c0) = true -> get (KVal i) c0 = None ->
  (forall l, In l ls -> creates i (fst (fst l)) = false) ->
  get (KVal i) (run_all g c0 ls) = None.
Proof. exact init_never_resurrects_pf. Qed.

(* After any lifetimes and kills RebuildIndexes succeeds, every entry of a configured index is
   present iff a stored value calls for it, and nothing else changes - for every prefix (empty
   or not), any indexes, marker present or not. *)
Theorem rebuild_restores : forall g ls,
  let c := run_all g [] ls in
  exists c', rebuild_indexes g c = RbOk c' /\ index_exact g c' /\
             (forall k, is_idx_of g k = false -> get k c' = get k c).
Proof. exact rebuild_restores_pf. Qed.

(* the same for the content after ANY log of write-sets, provided the scan cannot meet an index
   entry of an index that is not configured (possible only with an empty prefix) *)
Theorem rebuild_restores_any : forall g log,
  let c := reopen [] log in
  (no_foreign g c \/ is_nil (prefix g) = false) ->
  exists c', rebuild_indexes g c = RbOk c' /\ index_exact g c' /\
             (forall k, is_idx_of g k = false -> get k c' = get k c).
Proof. exact rebuild_restores_any_pf. Qed.

(* BadgerDB's per-transaction limit (a transaction with [lim] or more writes fails): an Init whose
   seeds + marker reach the limit IS a failing Init ([limit_op] turns it into [InitErr], to which
   acked_durable and init_once apply as to any failing Init): nothing seeded, no marker *)
Theorem limit_op_cases : forall lim c o,
  limit_op lim c o = o \/
  (exists s, o = Init s /\ valid_seeds s = true /\ limit_op lim c o = InitErr (lim - 1)
             /\ failing_init (limit_op lim c o) /\ snd (compile_op c (limit_op lim c o)) = c).
Proof. exact limit_op_cases_pf. Qed.

(* RebuildIndexes under the limit, after any lifetimes and kills: it either succeeds and then the
   indexes are exact, or it returns an error and then no value and not the marker has changed *)
Theorem rebuild_lim_exact_or_error : forall lim g ls,
  let c := run_all g [] ls in
  (exists c', rebuild_indexes_lim lim g c = RbOk c' /\ index_exact g c' /\
              (forall k, is_idx_of g k = false -> get k c' = get k c)) \/
  (exists d, rebuild_indexes_lim lim g c = RbErr d /\
             (forall k, is_idx_of g k = false -> get k d = get k c) /\
             (forall k, is_idx_of g k = true -> get k d = None)).
Proof. exact rebuild_lim_pf. Qed.

(* RebuildIndexes before the fix (marker unmarshalled as a value) fails for a store without
   prefix and leaves the index empty *)
Theorem rebuild_v0_empty_prefix_refuted :
  exists g ls, prefix g = [] /\
    (forall c', rebuild_indexes_v0 g (run_all g [] ls) <> RbOk c') /\
    (exists c', rebuild_indexes g (run_all g [] ls) = RbOk c'
                /\ has_key (KIdx [105; 97] [120] [115]) c' = true
                /\ has_key (KIdx [105; 97] [120] [115]) (rb_content (rebuild_indexes_v0 g (run_all g [] ls))) = false).
Proof. exact rebuild_v0_empty_prefix_refuted_pf. Qed.

(* the byte layout of index.go / store.go maps distinct structured keys to distinct byte keys
   when ids have no NUL and do not start with '$', index names have no ':' and the prefix has
   no NUL and does not start with '$' *)
Theorem enc_key_inj : forall g a b, safe_cfg g = true -> safe_key a = true -> safe_key b = true ->
  enc_key g a = enc_key g b -> a = b.
Proof. exact enc_key_inj_pf. Qed.

(* ---- non-vacuity ---- *)
Definition ex_g : cfg := Cfg [112; 46] [([105; 97], fun v => Some (fst v));
                                        ([105; 98], fun v => if is_nil (snd v) then None else Some (snd v))].
Definition ex_seeds : list (id * value) := [([115; 49], ([120], [])); ([115; 50], ([121], [117]))].
Definition ex_ops : list op :=
  [Init ex_seeds; Create [110] ([120], [118]); Update [115; 49] ([122], [118]); Delete [115; 50]; Init ex_seeds].
Definition ex_sched : list act := flat_map (fun _ => [AClient; AClient; AIndex]) (seq 0 30).

(* killed between the commit of the Update and its acknowledgement: 2 acks, 3 calls applied;
   killed just before that commit: 2 acks, 2 calls applied; both cases of acked_durable occur *)
Example in_flight_applied :
  let tr := firstn 21 (trace (run ex_g [] ex_ops ex_sched)) in
  acks tr = 2%nat /\ get (KVal [115; 49]) (durable [] tr) = Some ([122], [118]).
Proof. vm_compute. split; reflexivity. Qed.
Example in_flight_absent :
  let tr := firstn 19 (trace (run ex_g [] ex_ops ex_sched)) in
  acks tr = 2%nat /\ get (KVal [115; 49]) (durable [] tr) = Some ([120], []).
Proof. vm_compute. split; reflexivity. Qed.

(* the whole run acknowledges all 5 calls, commits 4 value and 5 index transactions *)
Example full_run :
  let tr := trace (run ex_g [] ex_ops ex_sched) in
  acks tr = 5%nat /\ length (commits tr) = 9%nat /\ length (init_commits tr) = 1%nat.
Proof. vm_compute. repeat split. Qed.

(* Init calls OnChange inside its transaction: the index goroutine can commit a seed's index
   entry BEFORE Init commits; a kill in between leaves an index entry without seed and marker *)
Example index_entry_of_uncommitted_init :
  let c := durable [] (trace (run ex_g [] ex_ops [AClient; AClient; AClient; AIndex])) in
  has_key (KIdx [105; 97] [120] [115; 49]) c = true /\ get (KVal [115; 49]) c = None /\ get KMark c = None
  /\ has_key (KIdx [105; 97] [120] [115; 49]) (rb_content (rebuild_indexes ex_g c)) = false.
Proof. vm_compute. repeat split. Qed.

(* two lifetimes killed inside Init (before the commit), a third one completes: one Init commit;
   a fourth lifetime after "Delete s2" does not bring s2 back *)
Example init_once_nonvacuous :
  let ls := [(ex_ops, ex_sched, 3%nat); (ex_ops, [AClient; AClient; AClient; AClient; AIndex; AIndex], 6%nat);
             (ex_ops, ex_sched, 100%nat); (ex_ops, ex_sched, 100%nat)] in
  valid_seeds ex_seeds = true /\
  length (init_commits (trace_all ex_g [] ls)) = 1%nat /\
  get KMark (run_all ex_g [] (firstn 2 ls)) = None /\
  get KMark (run_all ex_g [] ls) = Some empty_val /\
  get (KVal [115; 50]) (run_all ex_g [] ls) = None /\
  get (KVal [115; 49]) (run_all ex_g [] ls) = Some ([122], [118]).
Proof. vm_compute. repeat split. Qed.

(* failing Inits (unencodable seed after one seed was set, duplicate seed id) change nothing; the
   good Init after them seeds everything once *)
Example failing_inits_nonvacuous :
  let bad := [([115; 49], ([120], [])); ([115; 49], ([121], []))] in
  let ops := [InitErr 1; Init bad; Init ex_seeds; Delete [115; 50]; InitErr 0; Init ex_seeds] in
  let l1 := (ops, ex_sched, 2%nat) in let l2 := (ops, ex_sched, 100%nat) in
  starts_with_init ex_seeds l1 /\
  run_all ex_g [] [l1] = [] /\ acks (life_trace ex_g [] l1) = 1%nat /\
  length (init_commits (trace_all ex_g [] [l1; l2])) = 1%nat /\
  get (KVal [115; 49]) (run_all ex_g [] [l1; l2]) = Some ([120], []) /\
  get (KVal [115; 50]) (run_all ex_g [] [l1; l2]) = None.
Proof.
  split; [exists [InitErr 1; Init [([115; 49], ([120], [])); ([115; 49], ([121], []))]], [Delete [115; 50]; InitErr 0; Init ex_seeds];
          split; [reflexivity|repeat constructor]|].
  vm_compute. repeat split.
Qed.

(* a kill between value commit and index commit leaves the index stale; RebuildIndexes repairs it *)
Example stale_index_repaired :
  let c := durable [] (firstn 21 (trace (run ex_g [] ex_ops ex_sched))) in
  has_key (KIdx [105; 97] [120] [115; 49]) c = true /\ wanted ex_g c (KIdx [105; 97] [120] [115; 49]) = false /\
  has_key (KIdx [105; 97] [122] [115; 49]) c = false /\
  has_key (KIdx [105; 97] [122] [115; 49]) (rb_content (rebuild_indexes ex_g c)) = true /\
  has_key (KIdx [105; 97] [120] [115; 49]) (rb_content (rebuild_indexes ex_g c)) = false.
Proof. vm_compute. repeat split. Qed.
