(* C14 - query subscribers are always told when their result may have changed.
   Only statements; every proof is `exact <lemma of Index/Proofs.v>`. *)
From GoRes Require Import Index.Proofs.
Open Scope N_scope.

(* The index tasks of any change sequence do, per change and in order: the
   index transaction, then - iff some index key of the value changed - every
   registered query-change callback exactly once, each seeing the index after
   that transaction; nothing else. *)
Theorem callbacks_exact : forall {V} (idxs : list (index V)) ncb cs d,
  snd (run_changes idxs ncb d cs) = expected_effects idxs ncb d cs.
Proof. intros V. exact callbacks_exact_pf. Qed.

(* what callback j receives: exactly the key-changing changes, once each, in
   mutation order (hence in mutation order per id); nothing if j is not registered *)
Theorem callbacks_once : forall {V} (idxs : list (index V)) ncb cs d j,
  cb_log j (snd (run_changes idxs ncb d cs)) =
  if (j <? ncb)%nat then filter (key_changed idxs) cs else [].
Proof. intros V. exact callbacks_once_pf. Qed.

(* the same for a mutation history (failing mutations notify nobody) *)
Theorem history_callbacks : forall {V} (idxs : list (index V)) ncb ms st d es j,
  run_history idxs ncb ms = (st, d, es) ->
  es = expected_effects idxs ncb [] (changes_of [] ms) /\
  cb_log j es = if (j <? ncb)%nat then filter (key_changed idxs) (changes_of [] ms) else [].
Proof. intros V. exact history_callbacks_pf. Qed.

(* a callback runs after the index reflects the mutation it reports: the key
   space it sees is the index state of the store with that change applied *)
Theorem callback_after_index : forall {V} (idxs : list (index V)) ncb,
  names_ok idxs ->
  forall cs s d j id b a dcall,
  index_state idxs s d -> chain_ok s cs ->
  In (ECallback j id b a dcall) (snd (run_changes idxs ncb d cs)) ->
  exists pre post, cs = pre ++ (id, b, a) :: post /\
    dcall = index_after idxs d (pre ++ [(id, b, a)]) /\
    index_state idxs (fold_left apply_change (pre ++ [(id, b, a)]) s) dcall.
Proof. intros V. exact callback_after_index_pf. Qed.

Theorem mutations_chain : forall {V} (ms : list (mutation V)) s,
  muts_ids_nul_free ms = true -> chain_ok s (changes_of s ms).
Proof. intros V. exact mutations_chain_pf. Qed.

(* if the mutation changes what the query returns, the change reports it affected *)
Theorem affects_sound : forall {V} (idxs : list (index V)) (q : iquery V) s d id a,
  names_ok idxs -> In (qidx q) idxs -> index_state idxs s d -> nul_free id = true ->
  let b := st_get id s in
  let s' := st_put id a s in
  let d' := fst (update_idxs idxs id b a d false) in
  entries_nul_free (entries_of (qidx q) s) = true ->
  entries_nul_free (entries_of (qidx q) s') = true ->
  (qrev q = true -> db_bytes_ok d = true /\ db_bytes_ok d' = true) ->
  ((qlimit q < 0)%Z -> (Z.of_nat (length d) < max_int)%Z /\ (Z.of_nat (length d') < max_int)%Z) ->
  fetch_collection d q <> fetch_collection d' q -> affects_query q b a = true.
Proof. intros V. exact affects_sound_pf. Qed.

(* it reports unaffected whenever neither the old nor the new key matches the
   query (an absent value or a nil key matches nothing) *)
Theorem affects_precise : forall {V} (q : iquery V) b a,
  okey_matches (qprefix q) (qfilter q) (opt_key (qidx q) b) = false ->
  okey_matches (qprefix q) (qfilter q) (opt_key (qidx q) a) = false ->
  affects_query q b a = false.
Proof. intros V. exact affects_precise_pf. Qed.

(* before fix cbcd320 a present value with a nil key matched an empty prefix *)
Theorem affects_precise_nilkey_refuted :
  exists (q : iquery (option bytes)) b a,
    okey_matches (qprefix q) (qfilter q) (opt_key (qidx q) b) = false /\
    okey_matches (qprefix q) (qfilter q) (opt_key (qidx q) a) = false /\
    affects_query_v0 q b a = true /\ affects_query q b a = false.
Proof. exact affects_precise_nilkey_refuted_pf. Qed.

(* handler layer (store/querystorehandler.go), PARTIAL.  A client subscribed to
   resource rid with client query cq (ordinary or query resource, with or
   without path parameters / AffectedResources), holding the result of a fresh
   get before the change, holds the result of a fresh get after the handler
   reacted to it: it is reset / answered with the new result whenever its
   result differs, and left alone only if it does not.
   Gaps (not proved): the gateway's re-fetch / query request is assumed to be
   served before the next index task (d_now = d'); AffectedResources is assumed
   to announce rid whenever the resource's query is affected and the
   (Query)RequestHandlers of announced resources not to fail (user code);
   QueryTransformer is the identity; what the gateway does with the new result
   (diffing into events for its clients) is outside go-res. *)
Theorem handler_coherent_partial : forall {V} (idxs : list (index V)) (h : hconfig V) s d id a rid cq q,
  names_ok idxs -> index_state idxs s d -> nul_free id = true ->
  let b := st_get id s in
  let c := (id, b, a) in
  let s' := st_put id a s in
  let d' := fst (update_idxs idxs id b a d false) in
  h_rh h rid cq = Some q -> In (qidx q) idxs ->
  (h_isquery h = false -> cq = []) ->
  (affects_query q b a = true -> mem rid (announced h c) = true) ->
  (h_isquery h = false -> forall r, In r (announced h c) -> h_rh h r [] <> None) ->
  entries_nul_free (entries_of (qidx q) s) = true ->
  entries_nul_free (entries_of (qidx q) s') = true ->
  (qrev q = true -> db_bytes_ok d = true /\ db_bytes_ok d' = true) ->
  ((qlimit q < 0)%Z -> (Z.of_nat (length d) < max_int)%Z /\ (Z.of_nat (length d') < max_int)%Z) ->
  client_after idxs h d' c rid cq (fetch_collection d q) = fetch_collection d' q.
Proof. intros V. exact handler_coherent_partial_pf. Qed.

(* ---- non-vacuity ---- *)
(* byte strings are written as ASCII codes: "k" = [107], "a" = [97], "1" = [49] ... *)
Definition ex_ix1 : index (bytes * option bytes)%type := Index [107] (fun v => Some (fst v)).
Definition ex_ix2 : index (bytes * option bytes)%type := Index [107; 98] (fun v => snd v).
Definition ex_ms : list (mutation (bytes * option bytes)%type) :=
  [MCreate [49] ([97; 98], None); MCreate [50] ([97], Some [120]);
   MUpdate [49] ([97; 98], None);                 (* keeps every key: no callback *)
   MUpdate [50] ([98], Some [120]);        (* changes the key of "k" only *)
   MDelete [55];                                  (* fails: no change at all *)
   MDelete [49]].

Example callbacks_nonvacuous :
  let '(_, _, es) := run_history [ex_ix1; ex_ix2] 2 ex_ms in
  map (fun c => fst (fst c)) (cb_log 0 es) = [[49]; [50]; [50]; [49]] /\
  cb_log 1 es = cb_log 0 es /\ cb_log 2 es = [] /\ length es = 13%nat.
Proof. vm_compute. repeat split. Qed.

(* a mutation that changes a query's result (affected), one that does not (unaffected) *)
Example affects_nonvacuous :
  let q := IQ ex_ix1 [97] None 0%Z (-1)%Z false in
  let v1 := ([97; 98], None) in let v2 := ([98], Some [120]) in let v3 := ([99], None) in
  affects_query q (Some v1) (Some v2) = true /\ affects_query q (Some v2) (Some v3) = false /\
  affects_query q None (Some v1) = true /\ affects_query q (Some v1) (Some v1) = false /\
  okey_matches (qprefix q) (qfilter q) (opt_key (qidx q) (Some v2)) = false.
Proof. vm_compute. repeat split. Qed.

(* the handler model on a query resource: told on every announced resource,
   answered with the fresh result only when affected *)
Example handler_nonvacuous :
  let q := IQ ex_ix1 [97] None 0%Z (-1)%Z false in
  let h := HC true [116; 46; 113] None (fun _ _ => Some q) in
  let c : change (bytes * option bytes)%type := ([49], None, Some ([97; 98], None)) in
  let d' := fst (update_idxs [ex_ix1; ex_ix2] [49] None (Some ([97; 98], None)) [] false) in
  handler_pubs h c = [PQueryEvent [116; 46; 113]] /\
  query_response h d' c [116; 46; 113] [120] = QRResult (FOk [[49]]) /\
  client_after [ex_ix1; ex_ix2] h d' c [116; 46; 113] [120] (FOk []) = FOk [[49]].
Proof. vm_compute. repeat split. Qed.
