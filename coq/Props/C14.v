(* C14 - query subscribers are always told when their result may have changed.
   Only statements; every proof is `exact <lemma of Index/Proofs.v>`. *)
From GoRes Require Import Index.Proofs Index.RunCommon Index.InitStep.
Open Scope N_scope.

(* The index tasks of any change sequence do, per change and in order: the
   index transaction, then - iff some index key of the value changed - every
   registered query-change callback exactly once, each seeing the index after
   that transaction; nothing else. *)
Theorem callbacks_exact : forall {V} (idxs : list (index V)) ncb cs d,
  snd (run_changes idxs ncb d cs) = expected_effects idxs ncb d cs.
Proof. intros V. exact callbacks_exact_pf. Qed.

(* what callback j receives: exactly the key-changing changes, once each, in
   mutation order (hence in mutation order per id); nothing if j is not registered *)
Theorem callbacks_once : forall {V} (idxs : list (index V)) ncb cs d j,
  cb_log j (snd (run_changes idxs ncb d cs)) =
  if (j <? ncb)%nat then filter (key_changed idxs) cs else [].
Proof. intros V. exact callbacks_once_pf. Qed.

(* the same for a mutation history (failing mutations notify nobody) *)
Theorem history_callbacks : forall {V} (idxs : list (index V)) ncb ms st d es j,
  run_history idxs ncb ms = (st, d, es) ->
  es = expected_effects idxs ncb [] (changes_of [] ms) /\
  cb_log j es = if (j <? ncb)%nat then filter (key_changed idxs) (changes_of [] ms) else [].
Proof. intros V. exact history_callbacks_pf. Qed.

(* a callback runs after the index reflects the mutation it reports: the key
   space it sees is the index state of the store with that change applied *)
Theorem callback_after_index : forall {V} (idxs : list (index V)) ncb,
  names_ok idxs ->
  forall cs s d j id b a dcall,
  index_state idxs s d -> chain_ok s cs ->
  In (ECallback j id b a dcall) (snd (run_changes idxs ncb d cs)) ->
  exists pre post, cs = pre ++ (id, b, a) :: post /\
    dcall = index_after idxs d (pre ++ [(id, b, a)]) /\
    index_state idxs (fold_left apply_change (pre ++ [(id, b, a)]) s) dcall.
Proof. intros V. exact callback_after_index_pf. Qed.

Theorem mutations_chain : forall {V} (ms : list (mutation V)) s,
  muts_ids_nul_free ms = true -> chain_ok s (changes_of s ms).
Proof. intros V. exact mutations_chain_pf. Qed.

(* if the mutation changes what the query returns, the change reports it affected *)
Theorem affects_sound : forall {V} (idxs : list (index V)) (q : iquery V) s d id a,
  names_ok idxs -> In (qidx q) idxs -> index_state idxs s d -> nul_free id = true ->
  let b := st_get id s in
  let s' := st_put id a s in
  let d' := fst (update_idxs idxs id b a d false) in
  entries_nul_free (entries_of (qidx q) s) = true ->
  entries_nul_free (entries_of (qidx q) s') = true ->
  (qrev q = true -> db_bytes_ok d = true /\ db_bytes_ok d' = true) ->
  ((qlimit q < 0)%Z -> (Z.of_nat (length d) < max_int)%Z /\ (Z.of_nat (length d') < max_int)%Z) ->
  fetch_collection d q <> fetch_collection d' q -> affects_query q b a = true.
Proof. intros V. exact affects_sound_pf. Qed.

(* it reports unaffected whenever neither the old nor the new key matches the
   query (an absent value or a nil key matches nothing) *)
Theorem affects_precise : forall {V} (q : iquery V) b a,
  okey_matches (qprefix q) (qfilter q) (opt_key (qidx q) b) = false ->
  okey_matches (qprefix q) (qfilter q) (opt_key (qidx q) a) = false ->
  affects_query q b a = false.
Proof. intros V. exact affects_precise_pf. Qed.

(* before fix cbcd320 a present value with a nil key matched an empty prefix *)
Theorem affects_precise_nilkey_refuted :
  exists (q : iquery (option bytes)) b a,
    okey_matches (qprefix q) (qfilter q) (opt_key (qidx q) b) = false /\
    okey_matches (qprefix q) (qfilter q) (opt_key (qidx q) a) = false /\
    affects_query_v0 q b a = true /\ affects_query q b a = false.
Proof. exact affects_precise_nilkey_refuted_pf. Qed.

(* handler layer (store/querystorehandler.go on badgerstore's QueryStore).
   A client subscribed to resource rid with client query cq - ordinary or query
   resource, with or without path parameters / AffectedResources, with any of
   the QueryTransformers - holds a fresh get before a sequence of changes and
   processes, for every change in order, what the handler publishes for it:
   system.reset of its resource => it re-fetches; a query event => it sends a
   query request and takes the answer (new collection / model, or nothing).
   Each of these conversations is served at SOME index state between its
   change and the end of the sequence (any number of further mutations may be
   indexed before the gateway is answered; [client_run] quantifies over all
   such schedules).  Then after the last conversation the client holds exactly
   a fresh get.  Hypotheses about user code only: AffectedResources announces
   the resource whenever the change affects its query; every announced resource
   exists and its RequestHandler returns a query; the subscription itself
   resolves to a query of an existing index ([sub_query]); plus the C13 side
   conditions at every state ([data_ok]: NUL-free keys, real bytes for Reverse). *)
Theorem handler_coherent : forall {V} (idxs : list (index V)) (h : qhandler (change V) (iquery V))
    (rid cq : bytes) (q : iquery V) (cs : list (change V)) s d w',
  names_ok idxs -> sub_query h rid cq = Some q -> In (qidx q) idxs ->
  index_state idxs s d -> chain_ok s cs ->
  (forall c, In c cs -> affects_query q (snd (fst c)) (snd c) = true -> memb rid (announced h c) = true) ->
  (forall c, In c cs -> forall r, In r (announced h c) ->
     h_resource h r = true /\ (is_query h = false -> plain_query h r <> None)) ->
  (forall pre post, cs = pre ++ post -> data_ok q (fold_left apply_change pre s) (index_after idxs d pre)) ->
  client_run idxs h rid cq d cs (fresh_get h d rid cq) w' ->
  w' = fresh_get h (index_after idxs d cs) rid cq.
Proof. intros V. exact handler_coherent_pf. Qed.

(* The handler with ANY QueryStore (one whose Events answers with add / remove
   events, or with reset) and any of the transformers (none,
   IDToRIDCollectionTransformer, IDToRIDModelTransformer): the conversation of
   one change, served before the next change, leaves the client with the
   content of a fresh get (models compared as finite maps).  Store hypotheses:
   when Events does not ask for a reset its events turn the old id list into
   the new one (and the lists are duplicate-free for the model transformer);
   the resource type fits the transformer.  Handler run: it completes without
   error (announced resources exist, request handlers succeed), announces no
   resource twice, and announces rid when there is something to tell.
   With events (not reset) the "served before the next change" restriction is
   essential: events are relative to the state before the change. *)
Theorem handler_step_coherent : forall {St C Q} (qs : qstore St C Q) (h : qhandler C Q) (rid cq : bytes) (q : Q),
  sub_query h rid cq = Some q ->
  forall s s' c l l' evs reset,
  qs_query qs s q = Some l -> qs_query qs s' q = Some l' ->
  qs_events qs c q = Some (evs, reset) ->
  (reset = false -> raw_apply evs l = Some l' /\ (forall f, h_trans h = TrModel f -> raw_nodup evs l)) ->
  (evs <> [] -> type_fits h) ->
  snd (handle_change qs h c) = HOk ->
  NoDup (announced h c) ->
  ((reset = true \/ evs <> []) -> In rid (announced h c)) ->
  view_equiv (client_step qs h s' c rid cq (view_of_get (get_resource qs h s rid cq)))
             (view_of_get (get_resource qs h s' rid cq)).
Proof. intros St C Q. exact handler_step_coherent_pf. Qed.

(* Store.Init as a history step: its query-change callbacks are exactly those of the creates it performs -
   one per written seed (a seed whose id held no value) that has an index key, per registered callback, in seed
   order; none on an initialised store.  A notification for a seed that was not written contradicts the model. *)
Theorem init_step_callbacks : forall (ixs : list (index val)) ncb (seeds : list (bytes * val)) st d j,
  NoDup (map fst seeds) -> (forall p, In p seeds -> is_nil (fst p) = false) ->
  cb_log j (snd (run_changes ixs ncb d (changes_of st (fst (flatten_steps false [SInit seeds]))))) =
    (if (j <? ncb)%nat then filter (key_changed ixs) (map seed_change (filter (seed_absent st) seeds)) else []) /\
  cb_log j (snd (run_changes ixs ncb d (changes_of st (fst (flatten_steps true [SInit seeds]))))) = [].
Proof. exact init_step_callbacks_pf. Qed.

(* ---- non-vacuity ---- *)
(* byte strings are written as ASCII codes: "k" = [107], "a" = [97], "1" = [49] ... *)
Definition ex_ix1 : index (bytes * option bytes)%type := Index [107] (fun v => Some (fst v)).
Definition ex_ix2 : index (bytes * option bytes)%type := Index [107; 98] (fun v => snd v).
Definition ex_ms : list (mutation (bytes * option bytes)%type) :=
  [MCreate [49] ([97; 98], None); MCreate [50] ([97], Some [120]);
   MUpdate [49] ([97; 98], None);                 (* keeps every key: no callback *)
   MUpdate [50] ([98], Some [120]);        (* changes the key of "k" only *)
   MDelete [55];                                  (* fails: no change at all *)
   MDelete [49]].

Example callbacks_nonvacuous :
  let '(_, _, es) := run_history [ex_ix1; ex_ix2] 2 ex_ms in
  map (fun c => fst (fst c)) (cb_log 0 es) = [[49]; [50]; [50]; [49]] /\
  cb_log 1 es = cb_log 0 es /\ cb_log 2 es = [] /\ length es = 13%nat.
Proof. vm_compute. repeat split. Qed.

(* a mutation that changes a query's result (affected), one that does not (unaffected) *)
Example affects_nonvacuous :
  let q := IQ ex_ix1 [97] None 0%Z (-1)%Z false in
  let v1 := ([97; 98], None) in let v2 := ([98], Some [120]) in let v3 := ([99], None) in
  affects_query q (Some v1) (Some v2) = true /\ affects_query q (Some v2) (Some v3) = false /\
  affects_query q None (Some v1) = true /\ affects_query q (Some v1) (Some v1) = false /\
  okey_matches (qprefix q) (qfilter q) (opt_key (qidx q) (Some v2)) = false.
Proof. vm_compute. repeat split. Qed.

(* the handler model: a query collection without transformer and a query model
   with IDToRIDModelTransformer; two changes, the gateway answered only after
   both were indexed *)
Definition ex_q : iquery (bytes * option bytes)%type := IQ ex_ix1 [97] None 0%Z (-1)%Z false.
Definition ex_ref (id : bytes) : bytes := [105; 46] ++ id.
Definition ex_h (tr : qtrans) (t : rtype) : qhandler (change (bytes * option bytes)%type) (iquery (bytes * option bytes)%type) :=
  QH t [116; 46; 113] false (Some (fun _ cq => Some (ex_q, cq))) None ex_q (fun _ => true) tr None.
Definition ex_cs : list (change (bytes * option bytes)%type) :=
  [([49], None, Some ([97; 98], None)); ([50], None, Some ([97], None))].

Example handler_nonvacuous :
  let h := ex_h TrNone TCollection in
  let d2 := index_after [ex_ix1; ex_ix2] [] ex_cs in
  fst (handle_change bs_store h (hd ([], None, None) ex_cs)) = [PQueryEvent [116; 46; 113]] /\
  fresh_get h [] [116; 46; 113] [120] = Some (TCollection, VColl []) /\
  fresh_get h d2 [116; 46; 113] [120] = Some (TCollection, VColl [[50]; [49]]) /\
  fresh_get (ex_h (TrModel ex_ref) TModel) d2 [116; 46; 113] [120]
    = Some (TModel, VModel [([49], [105; 46; 49]); ([50], [105; 46; 50])]) /\
  chain_ok [] ex_cs /\
  client_run [ex_ix1; ex_ix2] h [116; 46; 113] [120] [] ex_cs
             (fresh_get h [] [116; 46; 113] [120]) (fresh_get h d2 [116; 46; 113] [120]).
Proof.
  cbv zeta. repeat split; try (vm_compute; reflexivity).
  eapply CRcons with (dn := index_after [ex_ix1; ex_ix2] [] ex_cs).
  - exists [([50], None, Some ([97], None))], []. split; reflexivity.
  - eapply CRcons with (dn := index_after [ex_ix1; ex_ix2] [] ex_cs).
    + exists [], []. split; reflexivity.
    + vm_compute. apply CRnil.
Qed.

(* a QueryStore answering with events, through IDToRIDCollectionTransformer *)
Example handler_events_nonvacuous :
  let qs : qstore (list bytes) unit unit :=
    QS (fun s _ => Some s) (fun _ _ => Some ([EvRemove [49] 0%Z; EvAdd [51] 1%Z], false)) in
  let h : qhandler unit unit :=
    QH TCollection [116] false None None tt (fun _ => true) (TrColl ex_ref) None in
  raw_apply [EvRemove [49] 0%Z; EvAdd [51] 1%Z] [[49]; [50]] = Some [[50]; [51]] /\
  fst (handle_change qs h tt) = [PEvent [116] (EvRemove [49] 0%Z); PEvent [116] (EvAdd [105; 46; 51] 1%Z)] /\
  client_step qs h [[50]; [51]] tt [116] [] (view_of_get (get_resource qs h [[49]; [50]] [116] []))
    = view_of_get (get_resource qs h [[50]; [51]] [116] []).
Proof. vm_compute. repeat split. Qed.
