(* C15 - query events: one response per query request, one final nil call, nothing leaked.
   Only statements; every proof is `exact <lemma of Query/Proofs*.v>`.

   Model: Query/Model.v.  [handle] interprets one query request (payload class, the callback as a
   script of QueryRequest calls and panics, the recover of executeCallback, the fallback response);
   [step true] is the labelled transition system of ONE query event of the code as it is now,
   [step false] the code before the listener fix.  Query events share nothing but the resource's
   group queue; [q_gq] is the projection of that queue onto the callbacks of this query event and
   "callbacks appended to the group queue run one at a time, in append order" (C01/C02) is the
   modelling assumption behind [LQRun] ([c_serial c = false] = Parallel resource: any order).
   nats.go's Drain is modelled, not verified: late arrivals are allowed without limit, buffered
   messages stay readable, the channel is never closed. *)
From Coq Require Import List NArith Bool.
From GoRes Require Import Query.Spec Query.ProofsReq Query.ProofsInv Query.ProofsLTS.
Import ListNotations.
Open Scope N_scope.

(* ---- one response per request ---- *)
(* whatever the payload and whatever the callback does (any script of replies, events, timeouts and
   panics), exactly one response - not counting timeout pre-responses - is published on the reply
   subject; a malformed payload or a missing query gets the corresponding error *)
Theorem query_one_response : forall ty m,
  nresp (handle ty m) = 1%nat /\
  (exists r, the_resp (handle ty m) = Some r) /\
  (m_pl m = PMalformed -> handle ty m = [PResp (RErr CInternal MMalformed)]) /\
  (m_pl m = PMissing -> handle ty m = [PResp (RErr CInternal MMissingQuery)]).
Proof. exact query_one_response_pf. Qed.

(* a callback that neither replies nor panics gets the accumulated events (or the no-events response) *)
Theorem query_events_when_silent : forall ty m s,
  m_pl m = PQuery -> run_script ty rs0 (m_script m) = Cont s -> r_replied s = false ->
  the_resp (handle ty m) =
    Some (match r_evs s with [] => REvents [] | evs => if r_evok s then REvents evs else RErr CInternal MStd end).
Proof. exact query_events_when_silent_pf. Qed.

(* in every run of a query event, what was published for requests is exactly [handle] of the request
   callbacks that ran, one response each *)
Theorem lts_one_response : forall c tr s, run c init tr = Some s ->
  q_outs s = outs_of (c_ty c) (q_calls s) /\
  (forall id out, In (id, out) (q_outs s) ->
     nresp out = 1%nat /\ exists m, In (CReq m) (q_calls s) /\ id = m_id m /\ out = handle (c_ty c) m).
Proof. exact lts_one_response_pf. Qed.

(* ---- the nil call ---- *)
(* in the sequence of callback invocations (made so far, then queued in the group) there is at most
   one nil call; for a serialised resource nothing comes after it; once the listener has returned
   and runWith never refused (service started) there is exactly one *)
Theorem nil_once_last : forall c tr s, run c init tr = Some s ->
  (count_nil (q_calls s) + count_nil (q_gq s) <= 1)%nat /\
  (c_serial c = true -> forall l1 l2, cb_seq s = l1 ++ CNil :: l2 -> l2 = [] /\ count_nil l1 = 0%nat) /\
  (q_sub s = Some true -> q_pc s = LExited -> has_refusal tr = false -> count_nil (cb_seq s) = 1%nat).
Proof. exact nil_once_last_pf. Qed.

(* ---- no request lost while the query event is active ---- *)
(* a request put into the channel before the expiry (and not dropped by a full channel: [early_of]
   lists the accepted ones) is in the channel, in the listener's hand or has its callback queued/run;
   when the listener has seen the channel empty it has its callback; after the listener returned the
   callback precedes the nil call, and once the group queue is empty its response was published *)
Theorem no_request_dropped_while_active : forall c tr s m,
  run c init tr = Some s -> has_refusal tr = false -> In m (early_of tr) ->
  (In m (q_ch s) \/ q_pc s = LHold m \/ In (CReq m) (cb_seq s)) /\
  (q_pc s = LNilPend \/ q_pc s = LExited -> In (CReq m) (cb_seq s)) /\
  (q_pc s = LExited -> c_serial c = true -> exists l, cb_seq s = l ++ [CNil] /\ In (CReq m) l) /\
  (q_pc s = LExited -> q_gq s = [] -> In (m_id m, handle (c_ty c) m) (q_outs s)).
Proof. exact no_request_dropped_pf. Qed.

(* ---- release ---- *)
(* once done is closed the listener can always leave: [exit_tr s] consists of listener steps only,
   is enabled, is no longer than 2 * buffered + 4, and ends with the listener returned *)
Theorem released_progress : forall c s, q_done s = true -> q_pc s <> LNone ->
  listener_only (exit_tr s) /\
  (length (exit_tr s) <= 2 * length (q_ch s) + 4)%nat /\
  exists s', run c s (exit_tr s) = Some s' /\ q_pc s' = LExited.
Proof. exact released_progress_pf. Qed.
(* ... and every reachable state with done closed satisfies its hypothesis *)
Theorem released_progress_reachable : forall c s, reachable c s -> q_done s = true -> q_pc s <> LNone.
Proof. exact released_progress_reachable_pf. Qed.
(* whatever else happens, the listener makes at most 2 * (buffered + later accepted arrivals) + 4 steps *)
Theorem released_bound : forall c s tr s', run c s tr = Some s' ->
  (n_listener tr <= 2 * (length (q_ch s) + n_accept tr) + 4)%nat.
Proof. exact released_bound_pf. Qed.
(* after the listener returned no listener step is enabled, ever again; later arrivals only pile up
   in the (unreachable) channel; the callback sequence does not grow *)
Theorem released : forall c s, reachable c s -> q_pc s = LExited ->
  (forall l, is_listener l = true -> step true c s l = None) /\
  (forall tr s', run c s tr = Some s' ->
     q_pc s' = LExited /\ n_listener tr = 0%nat /\ (exists extra, q_ch s' = q_ch s ++ extra) /\
     (c_serial c = true -> cb_seq s' = cb_seq s) /\
     count_nil (cb_seq s') = count_nil (cb_seq s) /\ (forall y, In y (cb_seq s') <-> In y (cb_seq s))).
Proof. exact released_final_pf. Qed.

(* ---- failed subscription ---- *)
(* cb(nil) once, synchronously; nothing published, no listener, no channel use, and no further step *)
Theorem failed_sub : forall c tr s, run c init (LQSub false :: tr) = Some s ->
  tr = [] /\ s = QS (Some false) false [] false LNone [] [CNil] [] [] false.
Proof. exact failed_sub_pf. Qed.

(* ---- any number of query events ---- *)
Theorem multi_component : forall cs tr ss' i c s', mrun cs (repeat init (length cs)) tr = Some ss' ->
  nth_error cs i = Some c -> nth_error ss' i = Some s' -> run c init (proj i tr) = Some s'.
Proof. exact multi_component_pf. Qed.

(* ---- fresh subjects ----
   [subs] = the subjects of the query events of a service object over its whole history.  When they
   are pairwise distinct, a request published on the subject of query event i is delivered to query
   event i and to no other, and (mstep_local) the step it causes leaves every other query event
   untouched: with [multi_component], query events do not interfere.  Freshness itself is a property
   of the subject generator (nats.NewInbox); it is checked on the implementation's outputs over
   restart histories (Run_C15, violation code 9), not proved. *)
Theorem fresh_subjects_route : forall subs i subj, NoDup subs -> nth_error subs i = Some subj ->
  In i (route subs subj) /\ forall j, In j (route subs subj) -> j = i.
Proof. exact fresh_subjects_route_pf. Qed.
Theorem mstep_local : forall cs ss i l ss' j, mstep cs ss (i, l) = Some ss' -> j <> i -> nth_error ss' j = nth_error ss j.
Proof. exact mstep_local_pf. Qed.
(* ... and without freshness a request addressed to one query event is received by another *)
Example stale_subject_refuted : route [7; 8; 7] 7 = [0%nat; 2%nat].
Proof. vm_compute. reflexivity. Qed.

(* ---- the code before the fix ---- *)
(* a request received BEFORE the expiry had its callback run after the nil call ... *)
Theorem late_callback_v0_refuted : exists c tr s m,
  c_serial c = true /\ run_v0 c init tr = Some s /\ In m (early_of tr) /\
  exists l1 l2, q_calls s = l1 ++ CNil :: l2 /\ In (CReq m) l2.
Proof. exact late_callback_v0_pf. Qed.
(* ... and the listener goroutine never returned *)
Theorem listener_leak_v0_refuted : forall c tr s, run_v0 c init tr = Some s -> q_pc s <> LExited.
Proof. exact listener_leak_v0_pf. Qed.

(* ---- non-vacuity ---- *)
Definition ex_m1 : msg := Msg 1 PQuery [ATimeout false 500; AAdd 7 false 0 true; ARemove false 2].
Definition ex_m2 : msg := Msg 2 PQuery [AModel 3 true; ANotFound; APanic (VString (SUser 9))].
Definition ex_m3 : msg := Msg 3 PMissing [].
Definition ex_m4 : msg := Msg 4 PQuery [APanic VNilErr].
(* requests before the expiry, one held by the listener across the expiry, one arriving after the drain
   was requested, one after the listener returned *)
Definition ex_trace : list label :=
  [LQSub true; LQPublish; LQArrive ex_m1 true; LQTake; LQArrive ex_m2 true; LQExpire; LQArrive ex_m3 true;
   LQForward true; LQDone; LQDrain true; LQRun (Some 1); LQDrain true; LQEmpty; LQArrive ex_m4 true; LQNil true;
   LQRun (Some 2); LQRun (Some 3); LQRun None].

Example handle_nonvacuous :
  handle TCollection ex_m1 = [PPre 500; PResp (REvents [EvAdd 7 0; EvRemove 2])] /\
  handle TModel ex_m1 = [PPre 500; PResp (RErr CInternal (MLib 4))] /\
  handle TModel ex_m2 = [PResp (RModel 3)] /\
  handle TCollection ex_m2 = [PResp (RErr CInternal (MLib 1))] /\
  handle TModel ex_m4 = [PResp (RErr CInternal MStd)].
Proof. vm_compute. repeat split. Qed.

Example run_nonvacuous :
  exists s, run (Cfg true TCollection) init ex_trace = Some s /\
    q_pc s = LExited /\ has_refusal ex_trace = false /\ early_of ex_trace = [ex_m1; ex_m2] /\
    q_calls s = [CReq ex_m1; CReq ex_m2; CReq ex_m3; CNil] /\ q_gq s = [] /\ q_ch s = [ex_m4] /\
    map fst (q_outs s) = [1; 2; 3].
Proof. eexists. vm_compute. repeat split. Qed.

Example released_nonvacuous :
  let s := match run (Cfg true TModel) init [LQSub true; LQPublish; LQArrive ex_m1 true; LQTake; LQArrive ex_m2 true; LQArrive ex_m3 true; LQExpire] with
           | Some s => s | None => init end in
  q_done s = true /\ q_pc s = LHold ex_m1 /\ length (q_ch s) = 2%nat /\
  exit_tr s = [LQForward true; LQDone; LQDrain true; LQDrain true; LQEmpty; LQNil true].
Proof. vm_compute. repeat split. Qed.

Example full_channel_nonvacuous :
  let arr := map (fun i => LQArrive (Msg i PQuery []) true) [1;2;3;4;5;6;7;8;9;10] in
  exists s, run (Cfg true TModel) init ([LQSub true; LQPublish] ++ arr ++ [LQArrive (Msg 11 PQuery []) false]) = Some s /\
    length (q_ch s) = 10%nat /\
    run (Cfg true TModel) init ([LQSub true; LQPublish] ++ arr ++ [LQArrive (Msg 11 PQuery []) true]) = None.
Proof. eexists. vm_compute. repeat split. Qed.

Example multi_nonvacuous :
  exists ss, mrun [Cfg true TModel; Cfg false TCollection] [init; init]
    [(0%nat, LQSub true); (1%nat, LQSub false); (0%nat, LQPublish); (0%nat, LQExpire); (0%nat, LQDone); (0%nat, LQEmpty);
     (0%nat, LQNil true); (0%nat, LQRun None)] = Some ss /\
    map q_calls ss = [[CNil]; [CNil]] /\ map q_pc ss = [LExited; LNone].
Proof. eexists. vm_compute. repeat split. Qed.
