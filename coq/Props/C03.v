(* C03 - Shutdown always completes, drains in-flight work, and allows restart.
   Only statements; proofs are `exact <lemma of Sched/Proofs_C03.v>`.
   PARTIAL: "bounded time" is a bound on the number of system steps under fair scheduling of
   an LTS model of goroutines, not wall-clock time. *)
From stdpp Require Import gmap.
From GoRes Require Import Sched.Spec Sched.Proofs_C03.

(* when wg.Wait has returned (and until the next Serve) every worker is gone: every callback that
   had started has finished and none can start *)
Theorem drained : forall tr s,
  run init tr = Some s -> (shut s = SWaited \/ shut s = SCleared \/ svc s = Stopped) -> all_exited s = true.
Proof. exact drained_pf. Qed.
Theorem no_start_when_stopped : forall tr s k c,
  run init tr = Some s -> svc s = Stopped -> step s (LStart k c) = None.
Proof. exact no_start_when_stopped_pf. Qed.

(* the connection is closed exactly once per serve cycle *)
Theorem closed_once : forall tr s,
  run init tr = Some s ->
  (closes s <= 1)%nat /\ ((shut s = SConnClosed \/ shut s = SWaited \/ shut s = SCleared) -> closes s = 1%nat).
Proof. exact closed_once_pf. Qed.

(* once close() has set the queue to nil it stays nil until the next Serve *)
Theorem close_sticky : forall tr s,
  run init tr = Some s -> shut s <> SIdle -> shut s <> SCas -> wq s = None.
Proof. exact close_sticky_pf. Qed.

(* no concurrent call panics: a publisher that passed the started-check finds the connection or is refused *)
Theorem never_panics : forall tr s, run init tr = Some s -> panicked s = false.
Proof. exact never_panics_pf. Qed.

(* progress: while stopping, some worker/shutdown step is always enabled (callbacks are assumed to return:
   LEnd is enabled whenever a callback runs) ... *)
Theorem shutdown_progress : forall tr s,
  run init tr = Some s -> svc s = Stopping -> exists l, sys_label s l = true /\ step s l <> None.
Proof. exact shutdown_progress_pf. Qed.
(* ... and only boundedly many such steps fit before LStopped, whatever producers, publishers and
   other Shutdown/Serve callers do meanwhile: under fair scheduling Shutdown returns. *)
Theorem shutdown_bounded : forall tr s,
  run init tr = Some s -> svc s = Stopping -> shut s <> SCas ->
  exists B, forall tr' s', run s tr' = Some s' -> ~ In LStopped tr' -> (count_sys s tr' <= B)%nat.
Proof. exact shutdown_bounded_pf. Qed.
(* (between the CAS and close() setting the queue to nil the Shutdown thread's own step is enabled;
   a bound on OTHER threads' steps does not exist there because the model allows spurious wake-ups
   of waiting workers, which then wait again) *)
Theorem close_nil_enabled : forall tr s, run init tr = Some s -> shut s = SCas -> step s LCloseNil <> None.
Proof. exact close_nil_enabled_pf. Qed.
Theorem shutdown_unbounded_before_close_refuted : exists tr s,
  run init tr = Some s /\ svc s = Stopping /\
  forall B, exists tr' s', run s tr' = Some s' /\ ~ In LStopped tr' /\ (B < count_sys s tr')%nat.
Proof. exact shutdown_bounded_cex_pf. Qed.

(* a stopped service can be served again (and all theorems above quantify over traces with any
   number of cycles) *)
Theorem restart : forall tr s n,
  run init tr = Some s -> svc s = Stopped -> (0 < n)%nat ->
  exists s', run s [LServeCAS true; LServeInit n; LServeStarted] = Some s' /\ svc s' = Started /\
             workers s' = replicate n WStart /\ wq s' = Some [] /\ closes s' = 0%nat.
Proof. exact restart_pf. Qed.

(* The code before the fixes: Shutdown can hang forever, and a publisher can dereference nil. *)
Theorem shutdown_hang_v0_refuted : exists tr s,
  run_gen false init tr = Some s /\ svc s = Stopping /\
  forall tr' s', run_gen false s tr' = Some s' -> svc s' = Stopping.
Proof. exact shutdown_hang_v0_pf. Qed.
Theorem publish_panic_v0_refuted : exists tr s, run_gen false init tr = Some s /\ panicked s = true.
Proof. exact publish_panic_v0_pf. Qed.

Example three_cycles_nonvacuous : exists tr s,
  run init tr = Some s /\ svc s = Stopped /\ length (filter (fun l => l = LStopped) tr) = 3%nat.
Proof. exact three_cycles_pf. Qed.
