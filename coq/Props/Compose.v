(* Composition of the scheduler engine (Sched/, C01 C02 C16) with the event engine (Event/, C08) and
   the query-event engine (Query/, C15).  Only statements; every proof is `exact <lemma of Compose/*.v>`.

   C08.group_total_order ASSUMES that the callbacks of a group execute one after the other in submission
   order while groups interleave arbitrarily; the query-event LTS of C15 (label LQRun) ASSUMES that the
   callbacks appended to a group queue run one at a time in append order.  Both are derived here from the
   scheduler LTS (Sched/Model.v), for every accepted trace: any number of producers, workers, Shutdowns and
   serve cycles.  Vocabulary: Compose/Defs.v.
     group_events tr g    the LStart / LEnd labels of tr whose callback belongs to group g (lgroup, C16)
     sequential cs o      Start c1, End c1, Start c2, End c2, ..., then an unmatched Start c if o = Some c
     started_cbs tr g     the callbacks of g in LStart order
     accepted_cbs tr g    the callbacks accepted for g, in the order of the accepting critical sections (lenq, C16)
     consistent msgs tr pd ps   ps is a global publication sequence of an execution with scheduler trace tr
                          in which callback c publishes msgs c, in order, between its LStart and its LEnd
     gproj g ps           the messages of group g in ps (= Event.Spec.project)
   Group 0 is the empty worker id (Parallel resources, WithGroup("")): its callbacks do overlap. *)
From Coq Require Import String.
From GoRes Require Import Event.Spec.
From stdpp Require Import gmap.
From Coq Require Import NArith.
From GoRes Require Import Sched.Spec Sched.AccessLTS Compose.Defs Compose.DefsC08 Compose.SchedSeq Compose.SchedEvent
  Compose.SchedC08 Compose.SchedQuery Compose.Examples.

(* ================= 1. one group at a time ================= *)

(* the executions of a group g <> 0 never overlap: its Start / End labels alternate strictly, each End
   closing the Start just before it; at most the last callback is still executing *)
Theorem group_sequential : forall tr s g,
  run init tr = Some s -> g <> 0%N ->
  exists cs o, group_events tr g = sequential cs o /\ started_cbs tr g = cs ++ option_list o.
Proof. exact group_sequential_pf. Qed.

(* the same with the decidable check, and the check is the definition *)
Theorem group_alternates : forall tr s g,
  run init tr = Some s -> g <> 0%N -> alternates None (group_events tr g) = true.
Proof. exact group_alternates_pf. Qed.
Theorem alternates_sequential : forall l,
  alternates None l = true <-> exists cs o, l = sequential cs o.
Proof. exact alternates_iff. Qed.

(* the trace-level sequences are the ghost histories of C02 *)
Theorem started_cbs_ghost : forall tr x g, irun iinit tr = Some x -> started_cbs tr g = glog (gstart x) g.
Proof. exact started_cbs_glog. Qed.
Theorem accepted_cbs_ghost : forall tr x g, irun iinit tr = Some x -> accepted_cbs tr g = glog (genq x) g.
Proof. exact accepted_cbs_glog. Qed.

(* the started callbacks are a subsequence of the accepted ones, in acceptance order ... *)
Theorem group_starts_in_order : forall tr s g,
  run init tr = Some s -> g <> 0%N -> sublist (started_cbs tr g) (accepted_cbs tr g).
Proof. exact group_starts_sublist_pf. Qed.
(* ... pairwise distinct (any group) when the callbacks handed to runWith are distinct ... *)
Theorem group_starts_distinct : forall tr s g,
  run init tr = Some s -> NoDup (checked_cbs tr) -> NoDup (started_cbs tr g).
Proof. exact group_starts_distinct_pf. Qed.
(* ... a prefix of the accepted sequence as long as Shutdown has not begun closing, the rest pending ... *)
Theorem group_starts_prefix : forall tr s g,
  run init tr = Some s -> has_close tr = false -> g <> 0%N ->
  accepted_cbs tr g = started_cbs tr g ++ pend s g.
Proof. exact group_starts_prefix_pf. Qed.
(* ... and exactly the accepted sequence once nothing more can happen without the environment *)
Theorem group_starts_all : forall tr s g,
  run init tr = Some s -> has_close tr = false -> svc s = Started -> quiescent s ->
  NoDup (checked_cbs tr) -> g <> 0%N ->
  started_cbs tr g = accepted_cbs tr g.
Proof. exact group_starts_all_pf. Qed.

(* ================= 2. what the executing callbacks publish (C08) ================= *)

(* the publications of a group g <> 0 are the message lists of its callbacks, one after the other, in
   start order; of the callback still executing (if any) a prefix *)
Theorem group_pubs_concat : forall (M : Type) (msgs : N -> list M) tr s pd ps g,
  run init tr = Some s -> consistent msgs tr pd ps -> g <> 0%N ->
  exists cs o, group_events tr g = sequential cs o /\ started_cbs tr g = cs ++ option_list o /\
    match o with
    | None => gproj g ps = concat (map msgs cs)
    | Some c => exists pre, pre `prefix_of` msgs c /\ gproj g ps = concat (map msgs cs) ++ pre
    end.
Proof. exact @group_pubs_concat_pf. Qed.

(* no callback of g executing in the final state: the whole lists *)
Theorem group_pubs_idle : forall (M : Type) (msgs : N -> list M) tr s pd ps g,
  run init tr = Some s -> consistent msgs tr pd ps -> g <> 0%N -> idle s g ->
  gproj g ps = concat (map msgs (started_cbs tr g)).
Proof. exact @group_pubs_idle_pf. Qed.

(* at quiescence, without Shutdown: the messages of ALL the callbacks accepted for g, in acceptance order *)
Theorem group_pubs_all : forall (M : Type) (msgs : N -> list M) tr s pd ps g,
  run init tr = Some s -> consistent msgs tr pd ps -> g <> 0%N ->
  has_close tr = false -> svc s = Started -> quiescent s -> NoDup (checked_cbs tr) ->
  gproj g ps = concat (map msgs (accepted_cbs tr g)).
Proof. exact @group_pubs_all_pf. Qed.

(* [consistent] is not vacuous: every accepted trace has a consistent publication sequence *)
Theorem consistent_exists : forall (M : Type) (msgs : N -> list M) tr s,
  run init tr = Some s -> exists pd ps, consistent msgs tr pd ps.
Proof. exact @consistent_exists_pf. Qed.

(* In C08's own vocabulary.  The callback identity c of the scheduler stands for the event-engine callback
   [cb_of c], which publishes [callback_msgs (cb_of c)] (C08.program_order); [cmsgs cb_of c] is that list.
   The conclusion of C08.group_total_order, from the scheduler instead of from its premises: *)
Theorem group_total_order_from_sched : forall (cb_of : N -> callback) tr s pd trace g,
  run init tr = Some s -> consistent (cmsgs cb_of) tr pd trace -> g <> 0%N ->
  has_close tr = false -> svc s = Started -> quiescent s -> NoDup (checked_cbs tr) ->
  project g trace = concat (map callback_msgs (map cb_of (accepted_cbs tr g))).
Proof. exact group_total_order_from_sched_pf. Qed.
Theorem group_total_order_started : forall (cb_of : N -> callback) tr s pd trace g,
  run init tr = Some s -> consistent (cmsgs cb_of) tr pd trace -> g <> 0%N -> idle s g ->
  project g trace = concat (map callback_msgs (map cb_of (started_cbs tr g))).
Proof. exact group_total_order_started_pf. Qed.

(* ... and the premises of C08.group_total_order themselves: the publications of the serialised groups
   ARE an interleaving [merges] of the per-group traces [group_trace] of the callbacks each group started,
   in start order (gs: distinct groups <> 0, none executing at the end, covering the trace) *)
Theorem sched_merges : forall (cb_of : N -> callback) tr s pd trace gs,
  run init tr = Some s -> consistent (cmsgs cb_of) tr pd trace ->
  List.NoDup gs -> (forall g, In g gs -> g <> 0%N /\ idle s g) ->
  (forall m, In m trace -> fst m <> 0%N -> In (fst m) gs) ->
  List.NoDup (map fst (sched_groups cb_of tr gs)) /\
  merges (map group_trace (sched_groups cb_of tr gs)) (serial_part trace).
Proof. exact sched_merges_pf. Qed.

(* ================= 3. acceptance order is start order (C15) ================= *)

(* two callbacks of one group g <> 0 accepted (LEnq) at positions i < j, e.g. handed to runWith one after
   the other by the query listener goroutine: if both start, the first starts first and has returned, on
   the worker that started it, before the second starts *)
Theorem enq_order_is_start_order : forall tr s i j c1 c2 g a b k1 k2,
  run init tr = Some s -> NoDup (checked_cbs tr) -> g <> 0%N -> i < j ->
  lenq tr i = Some (g, c1) -> lenq tr j = Some (g, c2) ->
  tr !! a = Some (LStart k1 c1) -> tr !! b = Some (LStart k2 c2) ->
  a < b /\ exists e, a < e < b /\ tr !! e = Some (LEnd k1 c1).
Proof. exact enq_order_is_start_order_pf. Qed.

(* ================= non-vacuity ================= *)

(* two workers, group 5's callbacks migrate between them, group 6 overlaps with group 5, a Shutdown and a
   second serve cycle: alternation, one callback still executing *)
Example sequential_nonvacuous : exists s,
  run init tr_long = Some s /\
  group_events tr_long 5 = sequential [100; 101; 102]%N (Some 103%N) /\
  group_events tr_long 6 = sequential [200%N] None /\
  started_cbs tr_long 5 = [100; 101; 102; 103]%N /\ accepted_cbs tr_long 5 = [100; 101; 102; 103]%N.
Proof. exact sequential_nonvacuous_pf. Qed.
Example sequential_computed :
  group_events tr_long 5 =
    [GStart 100; GEnd 100; GStart 101; GEnd 101; GStart 102; GEnd 102; GStart 103] /\
  alternates None (group_events tr_long 5) = true.
Proof. vm_compute. split; reflexivity. Qed.

(* g <> 0 is needed: the executions of group 0 overlap *)
Example parallel_overlaps : exists s,
  run init tr_par0 = Some s /\ group_events tr_par0 0 = [GStart 100; GStart 101] /\
  alternates None (group_events tr_par0 0) = false.
Proof. exact parallel_overlaps_pf. Qed.

(* publications of two groups interleaved, one callback half-way *)
Example consistent_nonvacuous : exists s pd,
  run init tr_pub = Some s /\ consistent ex_msgs tr_pub pd ps_pub /\
  gproj 5 ps_pub = [1000; 1001; 1010]%N /\ gproj 6 ps_pub = [2000; 2001]%N /\
  group_events tr_pub 5 = sequential [100%N] (Some 101%N).
Proof. exact consistent_nonvacuous_pf. Qed.

(* the premises of group_total_order_from_sched are met by event-engine callbacks whose publications
   interleave across groups *)
Example c08_nonvacuous : exists s pd,
  run init tr_ev = Some s /\ consistent (cmsgs ex_cb_of) tr_ev pd trace_ev /\
  has_close tr_ev = false /\ svc s = Started /\ quiescent s /\ NoDup (checked_cbs tr_ev) /\
  accepted_cbs tr_ev 5 = [100; 101]%N /\ accepted_cbs tr_ev 6 = [200%N] /\
  map fst trace_ev = [5; 6; 5; 5; 5]%N.
Proof. exact c08_nonvacuous_pf. Qed.

(* the premises of enq_order_is_start_order are met with two DIFFERENT workers *)
Example enq_order_nonvacuous : exists s,
  run init tr_q = Some s /\ NoDup (checked_cbs tr_q) /\
  lenq tr_q 4 = Some (5, 100)%N /\ lenq tr_q 10 = Some (5, 101)%N /\
  tr_q !! 6 = Some (LStart 0 100%N) /\ tr_q !! 12 = Some (LStart 1 101%N) /\
  tr_q !! 7 = Some (LEnd 0 100%N).
Proof. exact enq_order_nonvacuous_pf. Qed.
