(* Composition of the scheduler engine (Sched/, C01 C02 C16) with the event engine (Event/, C08) and
   the query-event engine (Query/, C15).  Only statements; every proof is `exact <lemma of Compose/*.v>`.

   C08.group_total_order ASSUMES that the callbacks of a group execute one after the other in submission
   order while groups interleave arbitrarily; the query-event LTS of C15 (label LQRun) ASSUMES that the
   callbacks appended to a group queue run one at a time in append order.  Both are derived here from the
   scheduler LTS (Sched/Model.v), for every accepted trace: any number of producers, workers, Shutdowns and
   serve cycles.  Vocabulary: Compose/Defs.v.
     group_events tr g    the LStart / LEnd labels of tr whose callback belongs to group g (lgroup, C16)
     sequential cs o      Start c1, End c1, Start c2, End c2, ..., then an unmatched Start c if o = Some c
     started_cbs tr g     the callbacks of g in LStart order
     accepted_cbs tr g    the callbacks accepted for g, in the order of the accepting critical sections (lenq, C16)
     consistent msgs tr pd ps   ps is a global publication sequence of an execution with scheduler trace tr
                          in which callback c publishes msgs c, in order, between its LStart and its LEnd
     gproj g ps           the messages of group g in ps (= Event.Spec.project)
   Section 4 composes the scheduler with the request engine (Req/, C04); vocabulary: Compose/DefsReq.v.
     req_msgs cfg req_of  callback c handles the request [req_of c] with the C04 interpreter [handle_request cfg]
                          and publishes its messages, each tagged (ghost) with c; an element of ps is
                          (group, (callback, message))
     wire ps              the messages on the connection;  from_cb c ps  those callback c published
     started_all / ended_all tr   the callbacks of the LStart / LEnd labels of tr (any group)
     distinct_replies req_of cs   the requests of different callbacks of cs have different reply subjects
   Group 0 is the empty worker id (Parallel resources, WithGroup("")): its callbacks do overlap. *)
From Coq Require Import String.
From GoRes Require Import Subs.Spec.
From GoRes Require Import Req.Spec.
From GoRes Require Import Event.Spec.
From stdpp Require Import gmap.
From Coq Require Import NArith.
From GoRes Require Import Sched.Spec Sched.AccessLTS Compose.Defs Compose.DefsC08 Compose.SchedSeq Compose.SchedEvent
  Compose.SchedC08 Compose.SchedQuery Compose.Examples
  Compose.DefsReq Compose.ReqFrame Compose.SchedTag Compose.SchedReq Compose.ExamplesReq Compose.Delivery.

(* ================= 1. one group at a time ================= *)

(* the executions of a group g <> 0 never overlap: its Start / End labels alternate strictly, each End
   closing the Start just before it; at most the last callback is still executing *)
Theorem group_sequential : forall tr s g,
  run init tr = Some s -> g <> 0%N ->
  exists cs o, group_events tr g = sequential cs o /\ started_cbs tr g = cs ++ option_list o.
Proof. exact group_sequential_pf. Qed.

(* the same with the decidable check, and the check is the definition *)
Theorem group_alternates : forall tr s g,
  run init tr = Some s -> g <> 0%N -> alternates None (group_events tr g) = true.
Proof. exact group_alternates_pf. Qed.
Theorem alternates_sequential : forall l,
  alternates None l = true <-> exists cs o, l = sequential cs o.
Proof. exact alternates_iff. Qed.

(* the trace-level sequences are the ghost histories of C02 *)
Theorem started_cbs_ghost : forall tr x g, irun iinit tr = Some x -> started_cbs tr g = glog (gstart x) g.
Proof. exact started_cbs_glog. Qed.
Theorem accepted_cbs_ghost : forall tr x g, irun iinit tr = Some x -> accepted_cbs tr g = glog (genq x) g.
Proof. exact accepted_cbs_glog. Qed.

(* the started callbacks are a subsequence of the accepted ones, in acceptance order ... *)
Theorem group_starts_in_order : forall tr s g,
  run init tr = Some s -> g <> 0%N -> sublist (started_cbs tr g) (accepted_cbs tr g).
Proof. exact group_starts_sublist_pf. Qed.
(* ... pairwise distinct (any group) when the callbacks handed to runWith are distinct ... *)
Theorem group_starts_distinct : forall tr s g,
  run init tr = Some s -> NoDup (checked_cbs tr) -> NoDup (started_cbs tr g).
Proof. exact group_starts_distinct_pf. Qed.
(* ... a prefix of the accepted sequence as long as Shutdown has not begun closing, the rest pending ... *)
Theorem group_starts_prefix : forall tr s g,
  run init tr = Some s -> has_close tr = false -> g <> 0%N ->
  accepted_cbs tr g = started_cbs tr g ++ pend s g.
Proof. exact group_starts_prefix_pf. Qed.
(* ... and exactly the accepted sequence once nothing more can happen without the environment *)
Theorem group_starts_all : forall tr s g,
  run init tr = Some s -> has_close tr = false -> svc s = Started -> quiescent s ->
  NoDup (checked_cbs tr) -> g <> 0%N ->
  started_cbs tr g = accepted_cbs tr g.
Proof. exact group_starts_all_pf. Qed.

(* ================= 2. what the executing callbacks publish (C08) ================= *)

(* the publications of a group g <> 0 are the message lists of its callbacks, one after the other, in
   start order; of the callback still executing (if any) a prefix *)
Theorem group_pubs_concat : forall (M : Type) (msgs : N -> list M) tr s pd ps g,
  run init tr = Some s -> consistent msgs tr pd ps -> g <> 0%N ->
  exists cs o, group_events tr g = sequential cs o /\ started_cbs tr g = cs ++ option_list o /\
    match o with
    | None => gproj g ps = concat (map msgs cs)
    | Some c => exists pre, pre `prefix_of` msgs c /\ gproj g ps = concat (map msgs cs) ++ pre
    end.
Proof. exact @group_pubs_concat_pf. Qed.

(* no callback of g executing in the final state: the whole lists *)
Theorem group_pubs_idle : forall (M : Type) (msgs : N -> list M) tr s pd ps g,
  run init tr = Some s -> consistent msgs tr pd ps -> g <> 0%N -> idle s g ->
  gproj g ps = concat (map msgs (started_cbs tr g)).
Proof. exact @group_pubs_idle_pf. Qed.

(* at quiescence, without Shutdown: the messages of ALL the callbacks accepted for g, in acceptance order *)
Theorem group_pubs_all : forall (M : Type) (msgs : N -> list M) tr s pd ps g,
  run init tr = Some s -> consistent msgs tr pd ps -> g <> 0%N ->
  has_close tr = false -> svc s = Started -> quiescent s -> NoDup (checked_cbs tr) ->
  gproj g ps = concat (map msgs (accepted_cbs tr g)).
Proof. exact @group_pubs_all_pf. Qed.

(* [consistent] is not vacuous: every accepted trace has a consistent publication sequence *)
Theorem consistent_exists : forall (M : Type) (msgs : N -> list M) tr s,
  run init tr = Some s -> exists pd ps, consistent msgs tr pd ps.
Proof. exact @consistent_exists_pf. Qed.

(* In C08's own vocabulary.  The callback identity c of the scheduler stands for the event-engine callback
   [cb_of c], which publishes [callback_msgs (cb_of c)] (C08.program_order); [cmsgs cb_of c] is that list.
   The conclusion of C08.group_total_order, from the scheduler instead of from its premises: *)
Theorem group_total_order_from_sched : forall (cb_of : N -> callback) tr s pd trace g,
  run init tr = Some s -> consistent (cmsgs cb_of) tr pd trace -> g <> 0%N ->
  has_close tr = false -> svc s = Started -> quiescent s -> NoDup (checked_cbs tr) ->
  project g trace = concat (map callback_msgs (map cb_of (accepted_cbs tr g))).
Proof. exact group_total_order_from_sched_pf. Qed.
Theorem group_total_order_started : forall (cb_of : N -> callback) tr s pd trace g,
  run init tr = Some s -> consistent (cmsgs cb_of) tr pd trace -> g <> 0%N -> idle s g ->
  project g trace = concat (map callback_msgs (map cb_of (started_cbs tr g))).
Proof. exact group_total_order_started_pf. Qed.

(* ... and the premises of C08.group_total_order themselves: the publications of the serialised groups
   ARE an interleaving [merges] of the per-group traces [group_trace] of the callbacks each group started,
   in start order (gs: distinct groups <> 0, none executing at the end, covering the trace) *)
Theorem sched_merges : forall (cb_of : N -> callback) tr s pd trace gs,
  run init tr = Some s -> consistent (cmsgs cb_of) tr pd trace ->
  List.NoDup gs -> (forall g, In g gs -> g <> 0%N /\ idle s g) ->
  (forall m, In m trace -> fst m <> 0%N -> In (fst m) gs) ->
  List.NoDup (map fst (sched_groups cb_of tr gs)) /\
  merges (map group_trace (sched_groups cb_of tr gs)) (serial_part trace).
Proof. exact sched_merges_pf. Qed.

(* ================= 3. acceptance order is start order (C15) ================= *)

(* two callbacks of one group g <> 0 accepted (LEnq) at positions i < j, e.g. handed to runWith one after
   the other by the query listener goroutine: if both start, the first starts first and has returned, on
   the worker that started it, before the second starts *)
Theorem enq_order_is_start_order : forall tr s i j c1 c2 g a b k1 k2,
  run init tr = Some s -> NoDup (checked_cbs tr) -> g <> 0%N -> i < j ->
  lenq tr i = Some (g, c1) -> lenq tr j = Some (g, c2) ->
  tr !! a = Some (LStart k1 c1) -> tr !! b = Some (LStart k2 c2) ->
  a < b /\ exists e, a < e < b /\ tr !! e = Some (LEnd k1 c1).
Proof. exact enq_order_is_start_order_pf. Qed.

(* ================= non-vacuity ================= *)

(* two workers, group 5's callbacks migrate between them, group 6 overlaps with group 5, a Shutdown and a
   second serve cycle: alternation, one callback still executing *)
Example sequential_nonvacuous : exists s,
  run init tr_long = Some s /\
  group_events tr_long 5 = sequential [100; 101; 102]%N (Some 103%N) /\
  group_events tr_long 6 = sequential [200%N] None /\
  started_cbs tr_long 5 = [100; 101; 102; 103]%N /\ accepted_cbs tr_long 5 = [100; 101; 102; 103]%N.
Proof. exact sequential_nonvacuous_pf. Qed.
Example sequential_computed :
  group_events tr_long 5 =
    [GStart 100; GEnd 100; GStart 101; GEnd 101; GStart 102; GEnd 102; GStart 103] /\
  alternates None (group_events tr_long 5) = true.
Proof. vm_compute. split; reflexivity. Qed.

(* g <> 0 is needed: the executions of group 0 overlap *)
Example parallel_overlaps : exists s,
  run init tr_par0 = Some s /\ group_events tr_par0 0 = [GStart 100; GStart 101] /\
  alternates None (group_events tr_par0 0) = false.
Proof. exact parallel_overlaps_pf. Qed.

(* publications of two groups interleaved, one callback half-way *)
Example consistent_nonvacuous : exists s pd,
  run init tr_pub = Some s /\ consistent ex_msgs tr_pub pd ps_pub /\
  gproj 5 ps_pub = [1000; 1001; 1010]%N /\ gproj 6 ps_pub = [2000; 2001]%N /\
  group_events tr_pub 5 = sequential [100%N] (Some 101%N).
Proof. exact consistent_nonvacuous_pf. Qed.

(* the premises of group_total_order_from_sched are met by event-engine callbacks whose publications
   interleave across groups *)
Example c08_nonvacuous : exists s pd,
  run init tr_ev = Some s /\ consistent (cmsgs ex_cb_of) tr_ev pd trace_ev /\
  has_close tr_ev = false /\ svc s = Started /\ quiescent s /\ NoDup (checked_cbs tr_ev) /\
  accepted_cbs tr_ev 5 = [100; 101]%N /\ accepted_cbs tr_ev 6 = [200%N] /\
  map fst trace_ev = [5; 6; 5; 5; 5]%N.
Proof. exact c08_nonvacuous_pf. Qed.

(* the premises of enq_order_is_start_order are met with two DIFFERENT workers *)
Example enq_order_nonvacuous : exists s,
  run init tr_q = Some s /\ NoDup (checked_cbs tr_q) /\
  lenq tr_q 4 = Some (5, 100)%N /\ lenq tr_q 10 = Some (5, 101)%N /\
  tr_q !! 6 = Some (LStart 0 100%N) /\ tr_q !! 12 = Some (LStart 1 101%N) /\
  tr_q !! 7 = Some (LEnd 0 100%N).
Proof. exact enq_order_nonvacuous_pf. Qed.

(* ================= 4. every request gets exactly one response (C04) ================= *)
(* C04.exactly_one_response is about ONE request handled by one callback execution; C02 says every callback
   accepted while started runs exactly once.  Together, for executions of any number of workers, groups
   (group 0 included) and serve cycles.  The premise on the inputs [distinct_replies] (every request carries
   its own inbox, as NATS requests do) is explicit; [NoDup (checked_cbs tr)] = distinct callback identities. *)

(* a request publishes no response on any other inbox (the frame of C04.exactly_one_response) *)
Theorem foreign_inbox_silent : forall cfg m R,
  inbox_like R = true -> ms_reply m <> R ->
  responses R (Req.Model.pubs (snd (handle_request cfg m))) = [].
Proof. exact foreign_inbox_silent_pf. Qed.

(* distinct callback identities: a callback is started at most once, and only if handed to runWith *)
Theorem started_all_NoDup : forall tr s,
  run init tr = Some s -> NoDup (checked_cbs tr) -> NoDup (started_all tr).
Proof. exact started_all_NoDup_pf. Qed.

(* what a callback has put on the connection is a prefix of its message list, all of it after its LEnd *)
Theorem from_cb_prefix : forall (B : Type) (body : N -> list B) tr s pd ps c,
  run init tr = Some s -> NoDup (checked_cbs tr) -> consistent (tagged body) tr pd ps ->
  from_cb c ps `prefix_of` body c.
Proof. exact @from_cb_prefix_pf. Qed.
Theorem from_cb_ended : forall (B : Type) (body : N -> list B) tr s pd ps c,
  run init tr = Some s -> NoDup (checked_cbs tr) -> consistent (tagged body) tr pd ps ->
  c ∈ ended_all tr -> from_cb c ps = body c.
Proof. exact @from_cb_ended_pf. Qed.

(* (1) the execution ended quiescent, service started, no Shutdown: every accepted request with a reply
   subject that is not one of the deliberately unanswered ones has EXACTLY ONE response (pre-responses not
   counted) on its reply subject in the global publication sequence; its callback published it (and the whole
   message list of the request), no other callback published a response on that subject *)
Theorem requests_answered_once : forall cfg req_of tr s pd ps i g c rt rn me,
  run init tr = Some s -> NoDup (checked_cbs tr) -> consistent (req_msgs cfg req_of) tr pd ps ->
  has_close tr = false -> svc s = Started -> quiescent s ->
  distinct_replies req_of (checked_cbs tr) -> lenq tr i = Some (g, c) ->
  ms_reply (req_of c) <> [] -> inbox_like (ms_reply (req_of c)) = true ->
  split_subject (ms_subj (req_of c)) = Some (rt, rn, me) -> silent cfg (req_of c) rt rn = false ->
  List.length (responses (ms_reply (req_of c)) (wire ps)) = 1%nat /\
  from_cb c ps = req_body cfg req_of c /\
  List.length (responses (ms_reply (req_of c)) (from_cb c ps)) = 1%nat /\
  forall c', c' <> c -> responses (ms_reply (req_of c)) (from_cb c' ps) = [].
Proof. exact requests_answered_once_pf. Qed.

(* (2) safety, no side condition on the final state (every prefix of an execution is an execution): at
   most one response per accepted request, Shutdown or not, callbacks still executing or not *)
Theorem requests_answered_at_most_once_always : forall cfg req_of tr s pd ps i g c rt rn me,
  run init tr = Some s -> NoDup (checked_cbs tr) -> consistent (req_msgs cfg req_of) tr pd ps ->
  distinct_replies req_of (checked_cbs tr) -> lenq tr i = Some (g, c) ->
  ms_reply (req_of c) <> [] -> inbox_like (ms_reply (req_of c)) = true ->
  split_subject (ms_subj (req_of c)) = Some (rt, rn, me) ->
  (List.length (responses (ms_reply (req_of c)) (wire ps)) <= 1)%nat /\
  from_cb c ps `prefix_of` req_body cfg req_of c /\
  forall c', c' <> c -> responses (ms_reply (req_of c)) (from_cb c' ps) = [].
Proof. exact requests_answered_at_most_once_always_pf. Qed.

(* the deliberately unanswered requests (C04.access_unhandled_silent) stay unanswered *)
Theorem silent_requests_unanswered : forall cfg req_of tr s pd ps i g c rt rn me,
  run init tr = Some s -> NoDup (checked_cbs tr) -> consistent (req_msgs cfg req_of) tr pd ps ->
  distinct_replies req_of (checked_cbs tr) -> lenq tr i = Some (g, c) ->
  ms_reply (req_of c) <> [] -> inbox_like (ms_reply (req_of c)) = true ->
  split_subject (ms_subj (req_of c)) = Some (rt, rn, me) -> silent cfg (req_of c) rt rn = true ->
  responses (ms_reply (req_of c)) (wire ps) = [].
Proof. exact silent_requests_unanswered_pf. Qed.

(* (3) a panic elsewhere does not matter.  Once callback c has returned, what it published is what handling
   its request ALONE gives (C04.panic_contained: no handler kills its worker) ... *)
Theorem callback_alone : forall cfg req_of tr s pd ps c,
  run init tr = Some s -> NoDup (checked_cbs tr) -> consistent (req_msgs cfg req_of) tr pd ps ->
  c ∈ ended_all tr ->
  from_cb c ps = Req.Model.pubs (snd (handle_request cfg (req_of c))) /\
  forall c', fst (handle_request cfg (req_of c')) = Done.
Proof. exact callback_alone_pf. Qed.
(* ... so in two executions - other interleavings, other handlers and requests for the OTHER callbacks,
   panicking ones included - in which c handles the same request the same way, c publishes the same *)
Theorem panic_isolated : forall cfg cfg' req_of req_of' tr tr' s s' pd pd' ps ps' c,
  run init tr = Some s -> NoDup (checked_cbs tr) -> consistent (req_msgs cfg req_of) tr pd ps ->
  run init tr' = Some s' -> NoDup (checked_cbs tr') -> consistent (req_msgs cfg' req_of') tr' pd' ps' ->
  c ∈ ended_all tr -> c ∈ ended_all tr' ->
  handle_request cfg (req_of c) = handle_request cfg' (req_of' c) ->
  from_cb c ps = from_cb c ps'.
Proof. exact panic_isolated_pf. Qed.
(* ... and a group g <> 0, whose callbacks migrate between workers, answers its requests as the single
   worker of C04.sequence_unaffected handling them one after the other *)
Theorem group_as_sequence : forall cfg req_of tr s pd ps g,
  run init tr = Some s -> consistent (req_msgs cfg req_of) tr pd ps -> g <> 0%N -> idle s g ->
  handle_requests cfg (map req_of (started_cbs tr g)) =
    (Done, map (fun c => snd (handle_request cfg (req_of c))) (started_cbs tr g)) /\
  map snd (gproj g ps) =
    concat (map Req.Model.pubs (snd (handle_requests cfg (map req_of (started_cbs tr g))))).
Proof. exact group_as_sequence_pf. Qed.

(* (4) two workers, groups 5 and 6 and the Parallel group, publications interleaved; callbacks 100 (pre-response,
   reply, panic), 101 (nested Value() calls, panic with an error), 400 (panics at once) and 200 (replies
   twice) get one response each, the access request 300 none; all premises of (1) hold *)
Example req_nonvacuous : exists s pd,
  run init tr_req = Some s /\ consistent (req_msgs rx_cfg rx_req) tr_req pd ps_req /\
  has_close tr_req = false /\ svc s = Started /\ quiescent s /\ NoDup (checked_cbs tr_req) /\
  distinct_replies rx_req (checked_cbs tr_req) /\
  map (lenq tr_req) [4; 7; 10; 12; 15]%nat =
    [Some (5, 100); Some (6, 200); Some (5, 101); Some (0, 400); Some (0, 300)]%N /\
  map (fun c => inbox_like (rx_reply c)) [100; 200; 101; 400; 300]%N = [true; true; true; true; true] /\
  split_subject (ms_subj (rx_req 100)) = Some (t_call, s2b "test.call.get", s2b "late") /\
  split_subject (ms_subj (rx_req 300)) = Some (t_access, s2b "test.call.get", []) /\
  silent rx_cfg (rx_req 100) t_call (s2b "test.call.get") = false /\
  silent rx_cfg (rx_req 300) t_access (s2b "test.call.get") = true /\
  map (fun x => (fst x, fst (snd x), p_subj (snd (snd x)))) ps_req =
    [(5, 100, s2b "_INBOX.r100"); (6, 200, s2b "_INBOX.r200"); (5, 100, s2b "_INBOX.r100");
     (5, 101, s2b "event.test.call.get.seen"); (0, 400, s2b "_INBOX.rx");
     (5, 101, s2b "event.test.call.get.seen"); (5, 101, s2b "_INBOX.r101")]%N /\
  map rx_count [100; 200; 101; 400; 300]%N = [1; 1; 1; 1; 0]%nat.
Proof. exact req_nonvacuous_pf. Qed.
(* the counts, computed *)
Example req_counts_computed :
  map rx_count [100; 200; 101; 400; 300]%N = [1; 1; 1; 1; 0]%nat /\
  map (fun c => List.length (from_cb c ps_req)) [100; 200; 101; 400; 300]%N = [2; 1; 3; 1; 0]%nat.
Proof. vm_compute. split; reflexivity. Qed.

(* ================= 5. delivered once, hence answered once (C09 + C04) ================= *)
(* Vocabulary: Compose/Delivery.v.  [deliveries c s] = number of subscriptions of configuration c (Subs/, C09)
   the subject s matches = number of times the connection hands the message to the service; [handed c m] =
   the hand-overs of request m, each handled by its own callback; [all_pubs cfg ms] = what handling them
   publishes (C04 interpreter).  [default_cfg name l q] = service `name`, handler registrations l, default
   ownership; [below name r] = r is the service name or below it (anything for the empty name). *)

(* C09.default_layout_delivered_once / default_layout_outside, as hand-over counts *)
Theorem default_request_delivered_once : forall name l q r,
  name_ok name = true -> nats_concrete r = true -> below name r = true ->
  (has_res l ->
     deliveries (default_cfg name l q) (subj_plain Subs.Model.t_get r) = 1%nat /\
     (forall t m, t = Subs.Model.t_call \/ t = Subs.Model.t_auth -> method_ok m = true ->
        deliveries (default_cfg name l q) (subj_method t r m) = 1%nat)) /\
  (has_acc l -> deliveries (default_cfg name l q) (subj_plain Subs.Model.t_access r) = 1%nat).
Proof. exact default_request_delivered_once_pf. Qed.

(* n hand-overs of a request (hypotheses of C04.exactly_one_response) give n responses, 0 for the
   deliberately unanswered ones: exactly one response iff handed over exactly once *)
Theorem responses_of_handed : forall cfg c m rt rn me,
  ms_reply m <> [] -> inbox_like (ms_reply m) = true ->
  split_subject (ms_subj m) = Some (rt, rn, me) ->
  List.length (responses (ms_reply m) (all_pubs cfg (handed c m))) =
  (deliveries c (ms_subj m) * (if silent cfg m rt rn then 0 else 1))%nat.
Proof. exact responses_of_handed_pf. Qed.
Theorem one_response_iff_delivered_once : forall cfg c m rt rn me,
  ms_reply m <> [] -> inbox_like (ms_reply m) = true ->
  split_subject (ms_subj m) = Some (rt, rn, me) -> silent cfg m rt rn = false ->
  (List.length (responses (ms_reply m) (all_pubs cfg (handed c m))) = 1%nat <-> deliveries c (ms_subj m) = 1%nat).
Proof. exact one_response_iff_delivered_once_pf. Qed.
(* [all_pubs] is what one worker handling the hand-overs one after the other publishes (C04.sequence_unaffected) *)
Theorem all_pubs_worker : forall cfg ms,
  fst (handle_requests cfg ms) = Done /\
  all_pubs cfg ms = concat (map Req.Model.pubs (snd (handle_requests cfg ms))).
Proof. exact all_pubs_worker_pf. Qed.

(* default ownership: a get / call / auth request for the service name or below is handed over once and
   answered once; likewise an access request when an access handler is registered *)
Theorem default_request_answered_once : forall cfg name l q r m rt rn me,
  name_ok name = true -> nats_concrete r = true -> below name r = true ->
  has_res l -> request_subject r (ms_subj m) ->
  ms_reply m <> [] -> inbox_like (ms_reply m) = true ->
  split_subject (ms_subj m) = Some (rt, rn, me) -> silent cfg m rt rn = false ->
  handed (default_cfg name l q) m = [m] /\
  List.length (responses (ms_reply m) (all_pubs cfg (handed (default_cfg name l q) m))) = 1%nat.
Proof. exact default_request_answered_once_pf. Qed.
Theorem default_access_answered_once : forall cfg name l q r m rt rn me,
  name_ok name = true -> nats_concrete r = true -> below name r = true ->
  has_acc l -> ms_subj m = subj_plain Subs.Model.t_access r ->
  ms_reply m <> [] -> inbox_like (ms_reply m) = true ->
  split_subject (ms_subj m) = Some (rt, rn, me) -> silent cfg m rt rn = false ->
  handed (default_cfg name l q) m = [m] /\
  List.length (responses (ms_reply m) (all_pubs cfg (handed (default_cfg name l q) m))) = 1%nat.
Proof. exact default_access_answered_once_pf. Qed.
(* a request for a resource outside the ownership of a named service is never handed over: nothing published *)
Theorem outside_request_not_handed : forall cfg name l q r m,
  name_ok name = true -> outside name r = true ->
  (request_subject r (ms_subj m) \/ ms_subj m = subj_plain Subs.Model.t_access r) ->
  handed (default_cfg name l q) m = [] /\ all_pubs cfg (handed (default_cfg name l q) m) = [].
Proof. exact outside_request_not_handed'_pf. Qed.

(* service "test", handler "m" (resource + access): call.test.m.go is matched by one of the 6 subscriptions
   and answered once; get.other by none *)
Example delivery_nonvacuous :
  name_ok dx_name = true /\ nats_concrete dx_res = true /\ below dx_name dx_res = true /\
  method_ok [103; 111]%N = true /\ inbox_like dx_inbox = true /\
  split_subject (ms_subj dx_msg) = Some (Req.Model.t_call, dx_res, [103; 111]%N) /\
  silent dx_cfg dx_msg Req.Model.t_call dx_res = false /\
  List.length (subscriptions (default_cfg dx_name dx_layout [])) = 6%nat /\
  deliveries (default_cfg dx_name dx_layout []) (ms_subj dx_msg) = 1%nat /\
  List.length (responses dx_inbox (all_pubs dx_cfg (handed (default_cfg dx_name dx_layout []) dx_msg))) = 1%nat /\
  outside dx_name [111; 116; 104; 101; 114]%N = true /\
  deliveries (default_cfg dx_name dx_layout []) (ms_subj dx_out) = 0%nat.
Proof. vm_compute. repeat split. Qed.

(* all of section 5 is closed under the global context *)
Print Assumptions default_request_delivered_once.
Print Assumptions responses_of_handed.
Print Assumptions one_response_iff_delivered_once.
Print Assumptions all_pubs_worker.
Print Assumptions default_request_answered_once.
Print Assumptions default_access_answered_once.
Print Assumptions outside_request_not_handed.
Print Assumptions delivery_nonvacuous.
