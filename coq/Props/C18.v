(* C18 - values and responses survive the wire (PARTIAL: encoding/json's parser and generic
   marshaller are trusted and appear as the [view] / [print] of Codec/Json.v; go-res's own byte
   surgery and its decoding decisions are modelled and proved).
   Only statements; every proof is `exact <lemma of Codec/Proofs*.v>`. *)
From GoRes Require Import Codec.Spec Codec.Proofs Codec.ProofsJson Codec.ProofsStr Codec.ProofsValue Codec.ProofsResp.
From Coq Require Import String.
Open Scope N_scope.

(* --- references: the make/copy offset arithmetic of types.go, for EVERY byte list q standing for
       the marshalled id --- *)
Theorem ref_layout : forall q, ref_marshal_q q = Ok (s2b "{""rid"":" ++ q ++ [125]).
Proof. exact ref_layout_pf. Qed.
Theorem softref_layout : forall q, softref_marshal_q q = Ok (s2b "{""rid"":" ++ q ++ s2b ",""soft"":true}").
Proof. exact softref_layout_pf. Qed.

(* --- strings: decode (encode s) = s with ill-formed UTF-8 replaced by U+FFFD, for EVERY byte
       list; so = s exactly for valid UTF-8 (and not for [255]) --- *)
Theorem string_roundtrip_any : forall s, json_unescape (json_escape s) = Some (utf8_sanitize s).
Proof. exact string_roundtrip_sanitize_pf. Qed.
Theorem sanitize_valid_id : forall s, utf8_valid s = true -> utf8_sanitize s = s.
Proof. exact sanitize_valid. Qed.
Theorem string_roundtrip : forall s, utf8_valid s = true -> json_unescape (json_escape s) = Some s.
Proof. exact string_roundtrip_pf. Qed.
Theorem string_roundtrip_needs_utf8 : json_unescape (json_escape [255]) = Some [239; 191; 189].
Proof. exact string_roundtrip_needs_utf8_pf. Qed.
(* the encoder's output between quotes is exactly one string token, whatever follows *)
Theorem quoted_is_one_token : forall s rest, scan_string (quote s ++ rest) = Some (json_escape s, rest).
Proof. exact scan_quote_pf. Qed.

(* Unmarshal(Marshal(ref)) = ref and the same for soft references, for every valid UTF-8 id
   (the parser restricted to the two layouts go-res emits is parse_ref_text) *)
Theorem ref_roundtrip : forall rid, utf8_valid rid = true ->
  (exists t, ref_marshal rid = Ok t /\ ref_unmarshal (parse_ref_text t) = Some rid) /\
  (exists t, softref_marshal rid = Ok t /\ ref_unmarshal (parse_ref_text t) = Some rid).
Proof. exact ref_roundtrip_pf. Qed.

(* --- data values: the len+9 wrap and its inverse, for every JSON value (a number's text starts like a number) --- *)
Theorem wrap_layout : forall data c r, data = c :: r ->
  marshal_data_value_b data = Ok (if (c =? lbrack) || (c =? lbrace) then s2b "{""data"":" ++ data ++ [125] else data).
Proof. exact wrap_layout_b. Qed.
Theorem data_value_inverse : forall j, top_num_ok j = true ->
  exists t,
    marshal_data_value j = Ok t /\
    t = (if is_obj j || is_arr j then s2b "{""data"":" ++ print j ++ [125] else print j) /\
    t = print (wrap_ast j) /\
    unmarshal_data_value t (view_of (wrap_ast j)) = Ok j.
Proof. exact data_value_inverse_pf. Qed.

(* --- store values: the classifier is the protocol table for every text and every view of it that
       satisfies wf_view (first significant byte and first byte of each member's raw text agree with
       the AST); wf_view holds for every compact text with white space around it --- *)
Theorem classify_spec : forall data v, v <> VSyntax -> wf_view data v = true ->
  value_unmarshal data v = classify_table data v.
Proof. exact classify_spec_pf. Qed.
Theorem wf_view_print : forall j lead trail,
  top_num_ok j = true -> members_num_ok j = true -> forallb is_ws lead = true ->
  wf_view (lead ++ print j ++ trail) (view_of j) = true.
Proof. exact wf_view_print_pf. Qed.
Theorem classify_printed : forall j lead trail,
  top_num_ok j = true -> members_num_ok j = true -> forallb is_ws lead = true ->
  value_unmarshal (lead ++ print j ++ trail) (view_of j) = classify_table (lead ++ print j ++ trail) (view_of j).
Proof. exact classify_printed_pf. Qed.

Theorem equal_equivalence :
  (forall a, value_equal a a = true) /\
  (forall a b, value_equal a b = value_equal b a) /\
  (forall a b c, value_equal a b = true -> value_equal b c = true -> value_equal a c = true).
Proof. exact (conj equal_refl_pf (conj equal_sym_pf equal_trans_pf)). Qed.
(* Equal values have the same canonical JSON text (references: what Ref/SoftRef marshal to) *)
Theorem equal_implies_json_equal : forall a b, value_equal a b = true -> canon_text a = canon_text b.
Proof. exact equal_implies_json_equal_pf. Qed.

(* --- responses --- *)
(* any parsed response is exactly one of result / resource / error *)
Theorem response_partition : forall r : response, exactly_one (has_flags r) = true.
Proof. exact response_partition_pf. Qed.
(* the published payload (static texts included) is the compact text of its AST *)
Theorem published_is_print : forall m h, published m h = print (published_ast m h).
Proof. exact published_is_print_pf. Qed.
(* for every handler outcome and meta, the client sees the class the outcome calls for *)
Theorem response_class : forall m h, class_of (has_flags (client_parse m h)) = Some (expected_class h).
Proof. exact class_supplied_pf. Qed.
(* ... and decodes the supplied data *)
Theorem decode_supplied :
  (forall m res, match res with Some j => top_num_ok j = true | None => True end ->
     parse_result (client_parse m (HOk res)) = Ok (supplied_result res)) /\
  (forall m rid, is_valid_rid rid = true -> client_parse m (HResource rid) = MkResponse None rid None) /\
  (forall m h e, supplied_error h = Some e ->
     r_error (client_parse m h) = Some (PEDecoded e) /\ r_result (client_parse m h) = None /\ r_resource (client_parse m h) = []) /\
  (forall m v q, parse_model (client_parse m (HModel v q)) = Ok (v, q) /\
                 parse_collection (client_parse m (HCollection v q)) = Ok (v, q)) /\
  (forall m get call, negb get && is_nil call = false ->
     access_result (client_parse m (HAccess get call)) = Ok (get, call) /\
     access_result (client_parse m HAccessGranted) = Ok (true, [42])) /\
  (forall m rid, is_valid_rid rid = true ->
     exists j, parse_result (client_parse m (HNew rid)) = Ok (Some j) /\ ref_unmarshal_ast j = Some rid).
Proof.
  exact (conj decode_result_pf (conj decode_resource_pf (conj decode_error_pf
        (conj decode_get_pf (conj decode_access_pf decode_new_pf))))).
Qed.

(* the AST equality used by the correspondence check is exact *)
Theorem json_eqb_eq : forall a b, json_eqb a b = true <-> a = b.
Proof. exact json_eqb_eq_pf. Qed.

(* --- non-vacuity --- *)
Example ref_example :
  ref_marshal (s2b "lib.book.42") = Ok (s2b "{""rid"":""lib.book.42""}") /\
  softref_marshal (s2b "a""b") = Ok (s2b "{""rid"":""a\""b"",""soft"":true}") /\
  utf8_valid (s2b "a""b") = true /\
  ref_unmarshal (parse_ref_text (s2b "{""rid"":""a\""b"",""soft"":true}")) = Some (s2b "a""b").
Proof. vm_compute. repeat split. Qed.
(* backspace, form feed, line feed, NUL, DEL, quote, backslash, less-than, U+2028, e-acute *)
Example escape_example :
  json_escape [8; 12; 10; 0; 127; 34; 92; 60; 226; 128; 168; 195; 169] =
    [92; 98; 92; 102; 92; 110] ++ [92; 117; 48; 48; 48; 48] ++ [127] ++ [92; 34; 92; 92] ++
    [92; 117; 48; 48; 51; 99] ++ [92; 117; 50; 48; 50; 56] ++ [195; 169] /\
  utf8_valid [8; 12; 10; 0; 127; 34; 92; 60; 226; 128; 168; 195; 169] = true /\
  utf8_valid [255] = false.
Proof. vm_compute. repeat split. Qed.
Example classify_examples :
  let t (j : json) := value_unmarshal ([32] ++ print j ++ [10]) (view_of j) in
  let text (j : json) := [32] ++ print j ++ [10] in
  let ref := JObj [(s2b "x", JNum [49]); (s2b "rid", JStr (s2b "a.b"))] in
  let soft := JObj [(s2b "rid", JStr (s2b "a.b")); (s2b "soft", JBool true)] in
  let data := JObj [(s2b "data", JArr [JNum [49]])] in
  let dprim := JObj [(s2b "data", JNum [49])] in
  let del := JObj [(s2b "action", JStr (s2b "delete"))] in
  t ref = Ok (MkValue (text ref) TRef (s2b "a.b") []) /\
  t soft = Ok (MkValue (text soft) TSoft (s2b "a.b") []) /\
  t data = Ok (MkValue (text data) TData [] (s2b "[1]")) /\
  t dprim = Ok (MkValue [49] TPrim [] [49]) /\
  t del = Ok (MkValue (text del) TDelete [] []) /\
  t (JStr [65]) = Ok (MkValue (text (JStr [65])) TPrim [] []) /\
  t (JArr []) = Err /\ t (JObj []) = Err /\
  t (JObj [(s2b "rid", JStr (s2b "a.b")); (s2b "data", JNull)]) = Err /\
  wf_view (text ref) (view_of ref) = true.
Proof. vm_compute. repeat split. Qed.
Example equal_example :
  let a := MkValue (s2b "{""rid"":""a"",""x"":1}") TRef [97] [] in
  let b := MkValue (s2b "{""rid"":""a""}") TRef [97] [] in
  value_equal a b = true /\ v_raw a <> v_raw b /\ canon_text a = s2b "{""rid"":""a""}".
Proof. vm_compute. repeat split. discriminate. Qed.
Example response_example :
  let m := meta_of (MkMeta 404 [(s2b "Location", [s2b "/x"])]) in
  published m (HResource (s2b "a.b")) = s2b "{""resource"":{""rid"":""a.b""},""meta"":{""status"":404,""header"":{""Location"":[""/x""]}}}" /\
  has_flags (client_parse m (HResource (s2b "a.b"))) = (false, true, false) /\
  has_flags (client_parse m (HOk (Some (JArr [JNull])))) = (true, false, false) /\
  has_flags (client_parse None HNoReply) = (false, false, true) /\
  has_flags (client_parse None (HResource (s2b "a..b"))) = (false, false, true) /\
  published None (HError None) = s2b "{""error"":{""code"":""system.internalError"",""message"":""Internal error""}}".
Proof. vm_compute. repeat split. Qed.
