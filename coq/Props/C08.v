(* C08 - events apply, publish and notify in order; failed applies publish nothing.
   Only statements; every proof is `exact <lemma of Event/Proofs*.v>`.
   Vocabulary (Event/Spec.v): invalid_call (wrong resource type, negative index, reserved or
   malformed event name), empty_change, apply_fails, nothing_changed (apply-change returned a
   non-nil empty revert map), ret_of (what the apply handler returned, None without a handler),
   expected_record (what a listener must be handed), marshalable (documented precondition of
   the API: the values to publish are JSON-serialisable). *)
From Coq Require Import String.
From GoRes Require Import Event.Spec Event.Proofs Event.ProofsOrder Event.ProofsOracle Event.ProofsReentrant Run.Run_C08.
Open Scope N_scope.

(* the model of each event method IS the property's case table, for every resource type,
   apply behaviour, listener list and argument *)
Theorem event_call_spec : forall ty rid ls a,
  is_event a = true -> event_call ty rid ls a = spec_call ty rid ls a.
Proof. exact event_call_spec_pf. Qed.

(* the effects of one event call are: nothing (invalid call / empty change) ; or the apply
   handler alone, followed by a panic (it failed) or by nothing (it reported no change) ; or
   apply (iff a handler exists) strictly before ONE publish strictly before the listeners, which
   run in registration order and all get the same record *)
Theorem event_shape : forall ty rid ls a effs p,
  is_event a = true -> marshalable a = true -> event_call ty rid ls a = (effs, p) ->
  ((invalid_call ty a <> None \/ empty_change a = true) /\ effs = [] /\ p = invalid_call ty a)
  \/
  (invalid_call ty a = None /\ empty_change a = false /\
   exists ret, ret_of a = Some ret /\ effs = [EApply (kind_of a) (apply_args rid a) ret] /\
     ((exists e, apply_fails a = Some e /\ ret = RFail e /\ p = Some (PApply e)) \/
      (apply_fails a = None /\ nothing_changed a = true /\ p = None)))
  \/
  (invalid_call ty a = None /\ empty_change a = false /\ apply_fails a = None /\
   nothing_changed a = false /\ p = None /\
   exists pay,
     effs = match ret_of a with
            | Some ret => [EApply (kind_of a) (apply_args rid a) ret]
            | None => []
            end
            ++ [EPublish (subject rid (event_name a)) pay]
            ++ map (fun l => EListen l (expected_record rid a)) ls).
Proof. exact event_shape_pf. Qed.

(* in every failing / no-op / invalid case of the property nothing is published and no listener
   runs (no hypothesis on the values) *)
Theorem failed_publishes_nothing : forall ty rid ls a effs p,
  is_event a = true -> event_call ty rid ls a = (effs, p) ->
  (invalid_call ty a <> None \/ empty_change a = true \/ apply_fails a <> None \/ nothing_changed a = true) ->
  no_pub_no_listen effs /\
  ((invalid_call ty a <> None \/ empty_change a = true) -> effs = []) /\
  (invalid_call ty a <> None -> p = invalid_call ty a) /\
  (invalid_call ty a = None -> empty_change a = false -> forall e, apply_fails a = Some e -> p = Some (PApply e)).
Proof. exact failed_publishes_nothing_pf. Qed.

(* listeners receive the event name, the resource, the new values and exactly what the apply
   handler returned (old values / removed value / deleted data; nil without a handler) *)
Theorem listener_payload : forall ty rid ls a effs p l ev,
  is_event a = true -> event_call ty rid ls a = (effs, p) -> In (EListen l ev) effs ->
  In l ls /\ ev = expected_record rid a /\ ev_name ev = event_name a /\ ev_rid ev = rid.
Proof. exact listener_payload_pf. Qed.

Theorem apply_receives_call_args : forall ty rid ls a effs p k x r,
  is_event a = true -> event_call ty rid ls a = (effs, p) -> In (EApply k x r) effs ->
  k = kind_of a /\ x = apply_args rid a /\ ret_of a = Some r.
Proof. exact apply_args_pf. Qed.

(* the messages of one callback = the messages of its actions in call order (events,
   pre-responses, reply), then the closing reply of executeHandler *)
Theorem program_order : forall cx ty rid ls s,
  pubs (fst (run_callback cx ty rid ls s)) =
  concat (map (action_msgs cx ty rid ls) (executed cx ty rid ls false s)) ++ closing_msgs cx ty rid ls s.
Proof. exact program_order_pf. Qed.

(* ... where the executed actions are a prefix of the script: all of it without a panic,
   and nothing after the first panicking action *)
Theorem executed_prefix : forall cx ty rid ls s,
  (exists k, map fst (executed cx ty rid ls false s) = firstn k s) /\
  (snd (run_callback cx ty rid ls s) = None -> map fst (executed cx ty rid ls false s) = s).
Proof. exact executed_prefix_pf. Qed.
Theorem panic_ends_script : forall cx ty rid ls s pre a rp post,
  executed cx ty rid ls false s = pre ++ (a, rp) :: post ->
  snd (fst (exec_action cx ty rid ls rp a)) <> None -> post = [].
Proof. exact panic_ends_script_pf. Qed.

(* Given (C01/C02) that the callbacks of a group execute sequentially in submission order
   [run_group] and that different groups interleave arbitrarily [merges], the publication trace
   projected to one group is the concatenation of its callbacks' message lists in that order *)
Theorem group_total_order : forall (groups : list (N * list callback)) trace,
  NoDup (map fst groups) ->
  merges (map group_trace groups) trace ->
  forall g cbs, In (g, cbs) groups -> project g trace = concat (map callback_msgs cbs).
Proof. exact group_total_order_pf. Qed.

(* the log Run_C08 compares with the implementation is the model's log *)
Theorem tag_group_erase : forall cbs i, map snd (tag_group i cbs) = run_group cbs.
Proof. exact tag_group_erase_pf. Qed.

(* outside the precondition (a value json.Marshal rejects): the code runs the apply handler and
   the listeners but publishes nothing - reported to the requester, kept in the model *)
Theorem unmarshalable_listens_without_publish : forall ty rid ls a,
  is_event a = true -> invalid_call ty a = None -> empty_change a = false -> apply_fails a = None ->
  nothing_changed a = false -> payload_of a = None ->
  event_call ty rid ls a =
  (match ret_of a with Some r => [EApply (kind_of a) (apply_args rid a) r] | None => [] end
   ++ map (fun l => EListen l (expected_record rid a)) ls, None).
Proof. exact unmarshalable_listens_without_publish_pf. Qed.

(* ---- re-entrant listeners: a listener may react by emitting an event on ev.Resource from
   inside its call (Event/Model.v notify_r; one level).  [block inner ev l] = the entry of
   listener l with record ev followed by the effects of its reaction; [ran] = the listeners
   called: all, up to and including the first whose reaction panics ---- *)
Theorem event_call_any_listener_loop : forall nf ty rid a,
  is_event a = true -> event_call_g nf ty rid a = spec_call_g nf ty rid a.
Proof. exact event_call_g_spec_pf. Qed.
Theorem notify_r_spec : forall inner ls ev,
  notify_r inner ls ev = (concat (map (block inner ev) (ran inner ls)), first_panic inner ls).
Proof. exact notify_r_spec_pf. Qed.
(* event_shape with re-entrant listeners: the inner event's effects lie inside the outer listener
   loop, and EVERY outer listener - also those after the re-entrant one - is handed the OUTER
   event's record (expected_record rid a) *)
Theorem event_shape_reentrant : forall ty rid ls a effs p,
  is_event a = true -> marshalable a = true -> event_call_r ty rid ls a = (effs, p) ->
  let inner := event_call ty rid (map l_id ls) in
  ((invalid_call ty a <> None \/ empty_change a = true) /\ effs = [] /\ p = invalid_call ty a)
  \/
  (invalid_call ty a = None /\ empty_change a = false /\
   exists ret, ret_of a = Some ret /\ effs = [EApply (kind_of a) (apply_args rid a) ret] /\
     ((exists e, apply_fails a = Some e /\ ret = RFail e /\ p = Some (PApply e)) \/
      (apply_fails a = None /\ nothing_changed a = true /\ p = None)))
  \/
  (invalid_call ty a = None /\ empty_change a = false /\ apply_fails a = None /\
   nothing_changed a = false /\ p = first_panic inner ls /\
   exists pay,
     effs = match ret_of a with
            | Some ret => [EApply (kind_of a) (apply_args rid a) ret]
            | None => []
            end
            ++ [EPublish (subject rid (event_name a)) pay]
            ++ concat (map (block inner (expected_record rid a)) (ran inner ls))).
Proof. exact event_shape_reentrant_pf. Qed.
Theorem listener_payload_reentrant : forall ty rid ls a l,
  let inner := event_call ty rid (map l_id ls) in
  In l (ran inner ls) ->
  exists tl, block inner (expected_record rid a) l = EListen (l_id l) (expected_record rid a) :: tl /\
             tl = match l_react l with Some a' => fst (inner a') | None => [] end.
Proof. exact listener_payload_reentrant_pf. Qed.
Theorem ran_all : forall inner ls, first_panic inner ls = None -> ran inner ls = ls.
Proof. exact ran_all_pf. Qed.
Theorem ran_prefix : forall inner ls, exists k, ran inner ls = firstn k ls.
Proof. exact ran_prefix_pf. Qed.
Theorem failed_publishes_nothing_reentrant : forall ty rid ls a effs p,
  is_event a = true -> event_call_r ty rid ls a = (effs, p) ->
  (invalid_call ty a <> None \/ empty_change a = true \/ apply_fails a <> None \/ nothing_changed a = true) ->
  no_pub_no_listen effs /\
  ((invalid_call ty a <> None \/ empty_change a = true) -> effs = []) /\
  (invalid_call ty a <> None -> p = invalid_call ty a) /\
  (invalid_call ty a = None -> empty_change a = false -> forall e, apply_fails a = Some e -> p = Some (PApply e)).
Proof. exact failed_publishes_nothing_reentrant_pf. Qed.
(* without reacting listeners this is the plain model of the theorems above *)
Theorem reentrant_conservative : forall ty rid ls a,
  is_event a = true -> no_reaction ls = true -> event_call_r ty rid ls a = event_call ty rid (map l_id ls) a.
Proof. exact reentrant_conservative_pf. Qed.

(* ---- non-vacuity ---- *)
Definition ex_rid := s2b "t.m".
Definition ex_changed : vmap := [(s2b "a", VJson (s2b "1")); (s2b "b", VNil)].
Definition ex_rev : vmap := [(s2b "a", VJson (s2b "0"))].

(* case (iii) with a handler and two listeners: apply, publish, listeners, exact bytes *)
Example change_ok_nonvacuous :
  event_call TModel ex_rid [1; 2] (AChange ex_changed (Ok (Some ex_rev))) =
  ([EApply KChange (Ev n_change ex_rid (Some ex_changed) None VNil 0 VNil VNil) (RChange (Some ex_rev));
    EPublish (s2b "event.t.m.change") (s2b "{""values"":{""a"":1,""b"":null}}");
    EListen 1 (Ev n_change ex_rid (Some ex_changed) (Some ex_rev) VNil 0 VNil VNil);
    EListen 2 (Ev n_change ex_rid (Some ex_changed) (Some ex_rev) VNil 0 VNil VNil)], None).
Proof. vm_compute. reflexivity. Qed.
(* case (ii): empty revert map = nothing changed ; nil revert map = published *)
Example change_empty_vs_nil_revert_nonvacuous :
  event_call TModel ex_rid [1] (AChange ex_changed (Ok (Some []))) =
    ([EApply KChange (Ev n_change ex_rid (Some ex_changed) None VNil 0 VNil VNil) (RChange (Some []))], None) /\
  pubs (fst (event_call TModel ex_rid [1] (AChange ex_changed (Ok None)))) =
    [(s2b "event.t.m.change", s2b "{""values"":{""a"":1,""b"":null}}")] /\
  lids (fst (event_call TModel ex_rid [1] (AChange ex_changed (Ok None)))) = [1].
Proof. vm_compute. repeat split. Qed.
(* case (ii) failing and case (i) invalid are inhabited *)
Example failing_and_invalid_nonvacuous :
  (exists e, apply_fails (ARemove 2 (Fails e)) = Some e /\
     snd (event_call TCollection ex_rid [1] (ARemove 2 (Fails e))) = Some (PApply e)) /\
  invalid_call TModel (AAdd VNil 0 Absent) = Some (PWrongType KAdd) /\
  invalid_call TUnset (ARemove (-1) Absent) = Some (PNegIdx KRemove) /\
  invalid_call TUnset (ACustom (s2b "unsubscribe") VNil) = Some (PReserved (s2b "unsubscribe")) /\
  invalid_call TUnset (ACustom (s2b "a.b") VNil) = Some PBadName /\
  invalid_call TUnset (ACustom (s2b "create") VNil) = Some (PReserved (s2b "create")) /\
  invalid_call TUnset (ACustom (s2b "created") VNil) = None /\
  empty_change (AChange [] Absent) = true.
Proof. split; [exists (EPlain (s2b "x")); vm_compute; split; reflexivity|]. vm_compute. repeat split. Qed.
(* a callback: event, pre-response, reply, event after the reply, then an invalid call; the
   panic after the reply publishes nothing more *)
Example program_order_nonvacuous :
  pubs (fst (run_callback (CtxCall (s2b "r0")) TCollection ex_rid [L 7 None]
    [AAdd (VJson (s2b "5")) 3 (Ok tt); ATimeout 100000; AReply; AReaccess; ARemove (-1) Absent; AReset])) =
  [(s2b "event.t.m.add", s2b "{""value"":5,""idx"":3}");
   (s2b "r0", s2b "timeout:""100""");
   (s2b "r0", s2b "{""result"":null}");
   (s2b "event.t.m.reaccess", [])].
Proof. vm_compute. reflexivity. Qed.
Example panic_reply_nonvacuous :
  pubs (fst (run_callback (CtxCall (s2b "r0")) TModel ex_rid [] [ACustom (s2b "delete") VNil])) =
  [(s2b "r0", s2b "{""error"":{""code"":""system.internalError"",""message"":""Internal error: res: \""delete\"" is a reserved event name""}}")].
Proof. vm_compute. reflexivity. Qed.
(* two groups interleaved: hypotheses of group_total_order are satisfiable non-trivially *)
Example group_total_order_nonvacuous :
  let cb1 := CB CtxWith TUnset (s2b "a") [] [AReaccess; AReset] in
  let cb2 := CB CtxWith TUnset (s2b "b") [] [AReaccess] in
  let groups := [(1, [cb1; cb1]); (2, [cb2])] in
  NoDup (map fst groups) /\
  exists trace, merges (map group_trace groups) trace /\ length trace = 5%nat /\
    nth_error (map fst trace) 1 = Some 2.
Proof.
  cbv zeta. split.
  - repeat constructor; cbn; intuition discriminate.
  - eexists. split; [|split].
    + cbn [map merges]. eexists. split; [eexists; split; [reflexivity|]|].
      * vm_compute. repeat constructor.
      * vm_compute. apply Merge_l. apply Merge_r. repeat constructor.
    + reflexivity.
    + reflexivity.
Qed.

(* ---- the decidable form of the property used by Run_C08.violations ---- *)
(* it accepts every log the model produces (no false alarm on conforming behaviour) ... *)
Theorem oracle_accepts_model : forall ty rid ls a,
  is_event a = true -> viol_event ty rid ls a (fst (event_call ty rid ls a)) = [].
Proof. exact oracle_accepts_model_pf. Qed.
(* ... and ANY recorded effect list it accepts has the shape required by the property, with the
   listener records determined by what the log says the apply handler returned *)
Theorem oracle_complete : forall ty rid ls a l,
  is_event a = true -> marshalable a = true -> viol_event ty rid ls a l = [] ->
  ((invalid_call ty a <> None \/ empty_change a = true) /\ l = [])
  \/
  (invalid_call ty a = None /\ empty_change a = false /\
   exists r, l = [EApply (kind_of a) (apply_args rid a) r] /\
             (ret_failed (Some r) = true \/ ret_nothing (Some r) = true))
  \/
  (invalid_call ty a = None /\ empty_change a = false /\
   ret_failed (log_ret l) = false /\ ret_nothing (log_ret l) = false /\
   (has_apply a = true -> log_ret l <> None) /\
   exists subj pay,
     l = match log_ret l with
         | Some r => [EApply (kind_of a) (apply_args rid a) r]
         | None => []
         end
         ++ [EPublish subj pay]
         ++ map (fun i => EListen i (record_from rid a (log_ret l))) ls).
Proof. exact oracle_complete_pf. Qed.

(* listener 2 reacts to the add event with a custom event: the inner event (publish, listeners
   1 2 3 with the inner record) lies between the outer entries of listeners 2 and 3, and
   listener 3 still gets the add event's record *)
Example reentrant_nonvacuous :
  let ls := [L 1 None; L 2 (Some (ACustom (s2b "x") VNil)); L 3 None] in
  let outer := Ev n_add ex_rid None None (VJson (s2b "5")) 0 VNil VNil in
  let inner := Ev (s2b "x") ex_rid None None VNil 0 VNil VNil in
  event_call_r TCollection ex_rid ls (AAdd (VJson (s2b "5")) 0 Absent) =
  ([EPublish (s2b "event.t.m.add") (s2b "{""value"":5,""idx"":0}");
    EListen 1 outer; EListen 2 outer;
    EPublish (s2b "event.t.m.x") []; EListen 1 inner; EListen 2 inner; EListen 3 inner;
    EListen 3 outer], None).
Proof. vm_compute. reflexivity. Qed.
(* a reaction that panics (reserved name) unwinds the outer call: listener 3 is not called *)
Example reentrant_panic_nonvacuous :
  let ls := [L 1 None; L 2 (Some (ACustom (s2b "patch") VNil)); L 3 None] in
  lids (fst (event_call_r TCollection ex_rid ls (AAdd VNil 0 Absent))) = [1; 2] /\
  snd (event_call_r TCollection ex_rid ls (AAdd VNil 0 Absent)) = Some (PReserved (s2b "patch")).
Proof. vm_compute. split; reflexivity. Qed.
