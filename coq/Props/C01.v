(* C01 - at most one callback of a worker group executes at any instant.
   Only statements; proofs are `exact <lemma of Sched/Proofs_C01.v>`. *)
From stdpp Require Import gmap.
From GoRes Require Import Sched.Spec Sched.Proofs_C01.

(* every reachable state, i.e. every interleaving of any number of producers, workers,
   shutdowns and serve cycles, any worker count: the groups (<> "") of the callbacks
   executing right now are pairwise different *)
Theorem mutex : forall tr s, run init tr = Some s -> NoDup (running_groups s).
Proof. exact mutex_pf. Qed.

(* stronger: a group's work item belongs to one worker for the whole time between fetching a
   callback and re-locking after it returned (so nothing of the group runs "between" callbacks) *)
Theorem group_owned_once : forall tr s k1 k2 p1 p2 w1 w2 g,
  run init tr = Some s -> k1 <> k2 ->
  workers s !! k1 = Some p1 -> workers s !! k2 = Some p2 ->
  owned p1 = Some w1 -> owned p2 = Some w2 ->
  gid_of s w1 = Some g -> gid_of s w2 = Some g -> g = 0%N.
Proof. exact group_owned_once_pf. Qed.

(* the exemption is real: two callbacks of the empty group (Parallel) do run at the same time *)
Example parallel_exempt_nonvacuous : exists tr s,
  run init tr = Some s /\ workers s = [WRun 0%N 0 100%N; WRun 1%N 0 101%N] /\
  gid_of s 0%N = Some 0%N /\ gid_of s 1%N = Some 0%N.
Proof. exact parallel_exempt_pf. Qed.
(* and two different groups do run at the same time *)
Example two_groups_nonvacuous : exists tr s,
  run init tr = Some s /\ running_groups s = [5%N; 6%N].
Proof. exact two_groups_pf. Qed.
