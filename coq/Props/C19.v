(* C19 - SendRequest returns the first real response within the extended deadline.
   Only statements; every proof is `exact <lemma of Client/Proofs.v>`.

   [send ncb k T arr] (Client/Model.v) is SendRequest in virtual time: ncb extension
   callbacks, failing step k (FNone: none), timeout argument T, inbox history arr
   (arrival time, payload) in FIFO order.  [received now dl pre now' dl'] (Client/Spec.v)
   says that the run pre of pre-responses is taken from the inbox, each message strictly
   before the deadline then in force, a valid timeout announcement d arriving at t moving
   the deadline to t + d and anything else leaving it alone.  All statements hold for
   EVERY history, timeout, payload and number of callbacks.
   Outside the theorems (claimed partial): real timers and the tie when a message and the
   timer are ready at the same instant (the model lets the timer win). *)
From GoRes Require Import Client.Spec Client.Proofs Client.ProofsFormat.
Open Scope Z_scope.

(* the first message that is not a pre-response, if it arrives before the deadline then in
   force, is what is returned (ParseResponse of its payload), at its arrival time, after
   notifying the callbacks for exactly the pre-responses before it; whatever follows it on
   the inbox has no effect on any observable of the call *)
Theorem first_real_response : forall ncb T pre t0 p post now' dl',
  received 0 T pre now' dl' -> is_pre p = false -> Z.max now' t0 < dl' ->
  let r := send ncb FNone T (pre ++ (t0, p) :: post) in
  r_out r = OResponse p /\ r_time r = Z.max now' t0 /\ r_taken r = S (length pre) /\
  r_cbs r = notes ncb pre /\
  forall post', send ncb FNone T (pre ++ (t0, p) :: post') = r.
Proof. exact first_real_response_pf. Qed.

(* every history splits into received pre-responses followed by silence or by an answer,
   so the hypotheses of the theorems here cover all cases *)
Theorem history_decomposes : forall T arr,
  exists pre rest now' dl',
    arr = pre ++ rest /\ received 0 T pre now' dl' /\
    (silent now' dl' rest \/ exists t p, answered now' dl' rest t p).
Proof. exact history_decomposes_pf. Qed.

(* the deadline in force at the return is the one [received] computes (arrival + announced
   duration of the last valid announcement, else T), and the callback log is: for each
   received pre-response with a valid announcement d, in order, every callback 0..ncb-1
   once with d ([notes], [note], [notify]); nothing else is ever notified *)
Theorem deadline_extended : forall ncb T pre rest now' dl',
  received 0 T pre now' dl' ->
  (silent now' dl' rest \/ exists t p, answered now' dl' rest t p) ->
  let r := send ncb FNone T (pre ++ rest) in
  r_deadline r = dl' /\ r_cbs r = notes ncb pre /\ (length pre <= r_taken r <= S (length pre))%nat.
Proof. exact deadline_extended_pf. Qed.

(* the same, one step at a time: a valid announcement d received at time t, followed by
   silence, times out at t + d (at once when d <= 0) and adds (0,d) ... (ncb-1,d) to the log *)
Theorem deadline_step : forall ncb T pre t0 p d now' dl',
  received 0 T pre now' dl' -> is_pre p = true -> Z.max now' t0 < dl' -> pre_timeout p = Some d ->
  let r := send ncb FNone T (pre ++ [(t0, p)]) in
  r_out r = OTimeout /\ r_deadline r = Z.max now' t0 + d /\
  r_time r = Z.max (Z.max now' t0) (Z.max now' t0 + d) /\
  r_cbs r = r_cbs (send ncb FNone T pre) ++ map (fun i => (i, d)) (seq 0 ncb).
Proof. exact deadline_step_pf. Qed.

(* a pre-response without a usable timeout tag (no tag, unquote or Atoi error) is dropped:
   the call continues exactly as if the wait had started at its arrival with the same deadline *)
Theorem invalid_pre_ignored : forall ncb T pre t0 p rest now' dl',
  received 0 T pre now' dl' -> is_pre p = true -> Z.max now' t0 < dl' -> pre_timeout p = None ->
  let r := send ncb FNone T (pre ++ (t0, p) :: rest) in
  let r' := ret true true true (wait ncb (Z.max now' t0) dl' rest) in
  r_out r = r_out r' /\ r_deadline r = r_deadline r' /\ r_time r = r_time r' /\
  r_cbs r = notes ncb pre ++ r_cbs r'.
Proof. exact invalid_pre_ignored_pf. Qed.

(* the timeout error exactly when no real response arrives before the current deadline *)
Theorem timeout_iff_silence : forall ncb T arr,
  r_out (send ncb FNone T arr) = OTimeout <-> ~ some_answer T arr.
Proof. exact timeout_iff_silence_pf. Qed.

(* ... and then it is returned when the timer fires, having taken only the pre-responses *)
Theorem timeout_when_silent : forall ncb T pre rest now' dl',
  received 0 T pre now' dl' -> silent now' dl' rest ->
  let r := send ncb FNone T (pre ++ rest) in
  r_out r = OTimeout /\ r_time r = Z.max now' dl' /\ r_taken r = length pre.
Proof. exact timeout_when_silent_pf. Qed.

(* marshal / subscribe / publish failures, for EVERY error value the failing step may return
   (plain, wrapped, a *res.Error carrying its own code such as system.accessDenied or
   system.timeout, a nil *res.Error, a wrapper around one): the Error is
   res.InternalError(err), i.e. code system.internalError and message
   "Internal error: " ++ err.Error() (errString's fallback text if Error() panics); no waiting,
   no callback, nothing read from the inbox *)
Theorem failures_are_internal_no_wait : forall ncb k e T arr,
  fail_err k = Some e ->
  let r := send ncb k T arr in
  r_out r = OInternal k /\
  res_error (r_out r) = Some (code_internal, prefix_internal ++ err_string e) /\
  r_time r = 0 /\ r_cbs r = [] /\ r_taken r = 0%nat /\ r_published r = false.
Proof. exact failures_are_internal_no_wait_pf. Qed.

(* a failing step never lends its own code to the result *)
Theorem failure_keeps_no_code : forall ncb k T arr code msg,
  k <> FNone ->
  res_error (r_out (send ncb k T arr)) = Some (code, msg) ->
  code = code_internal /\ code <> code_timeout /\
  exists e, fail_err k = Some e /\ msg = prefix_internal ++ err_string e.
Proof. exact failure_keeps_no_code_pf. Qed.

(* ... and an internal error of the call itself has no other cause *)
Theorem internal_only_on_failure : forall ncb k T arr k',
  r_out (send ncb k T arr) = OInternal k' -> k = k' /\ k <> FNone.
Proof. exact internal_only_on_failure_pf. Qed.

(* the timeout code comes from the timer only (with timeout_iff_silence: exactly when no real
   response arrives before the current deadline), never from a step failing with res.ErrTimeout *)
Theorem timeout_code_only_from_timer : forall ncb k T arr msg,
  res_error (r_out (send ncb k T arr)) = Some (code_timeout, msg) ->
  k = FNone /\ r_out (send ncb k T arr) = OTimeout.
Proof. exact timeout_code_only_from_timer_pf. Qed.

(* the inbox subscription is released on every return path after a successful subscribe
   (publish failure included); when marshal or subscribe failed there is none to release *)
Theorem unsubscribed_on_every_path : forall ncb k T arr,
  let r := send ncb k T arr in
  r_released r = r_subscribed r /\
  (r_subscribed r = true <-> (forall e, k <> FMarshal e) /\ (forall e, k <> FSubscribe e)).
Proof. exact unsubscribed_on_every_path_pf. Qed.

(* ---- when the choice of select is open (the claimed-partial part, made precise): a message
   and the timer ready within W of each other, including a deadline that expires and messages that
   queue up while slow extension callbacks (cbd each) run.  Every result [wait_nd] allows is:
   the timeout error after handling some pre-responses each as what it is, or the FIRST message
   that is not a pre-response after handling all pre-responses before it - in both cases the
   callbacks are exactly those of the pre-responses handled.  A pre-response is never returned as
   if it were the response, and no message is skipped.  The deterministic model is one of them. ---- *)
Theorem race_outcomes : forall W cbd ncb arr now dl r,
  In r (wait_nd W cbd ncb now dl arr) ->
  exists pre rest,
    arr = pre ++ rest /\ Forall (fun a => is_pre (snd a) = true) pre /\ l_cbs r = notes ncb pre /\
    (l_out r = OTimeout \/
     exists t0 p post, rest = (t0, p) :: post /\ is_pre p = false /\ l_out r = OResponse p).
Proof. exact nd_outcomes_pf. Qed.

Theorem tie_rule_is_allowed : forall W ncb arr now dl,
  0 <= W -> In (wait ncb now dl arr) (wait_nd W 0 ncb now dl arr).
Proof. exact det_in_nd_pf. Qed.

(* the payload the service writes in Request.Timeout, `timeout:"<decimal ms>"`, is a valid
   announcement of ms milliseconds for every ms that fits a Duration *)
Theorem service_format_understood : forall ms : N,
  (Z.of_N ms < 2 ^ 63)%Z ->
  is_pre (timeout_payload ms) = true /\
  pre_timeout (timeout_payload ms) = Some (wrap64 (Z.of_N ms * 1000000)).
Proof. exact service_format_understood_pf. Qed.

(* ---- non-vacuity ---- *)
Definition ms (n : Z) : Z := n * 1000000.
Definition ex_pre1 : bytes := timeout_payload 300.                       (* timeout:"300" *)
Definition ex_bad : bytes := [116; 105; 109; 101; 111; 117; 116; 58; 51; 48; 48]%N.   (* timeout:300 *)
Definition ex_res1 : bytes := [123; 34; 114; 101; 115; 117; 108; 116; 34; 58; 49; 125]%N.  (* {"result":1} *)
Definition ex_res2 : bytes := [123; 34; 114; 101; 115; 117; 108; 116; 34; 58; 50; 125]%N.  (* {"result":2} *)

(* T = 200 ms; announcement of 300 ms at 40; junk at 120; response at 320 (> 200, < 340); a later response is ignored *)
Example answered_after_extension :
  let arr := [(ms 40, ex_pre1); (ms 120, ex_bad); (ms 320, ex_res1); (ms 330, ex_res2)] in
  received 0 (ms 200) [(ms 40, ex_pre1); (ms 120, ex_bad)] (ms 120) (ms 340) /\
  send 2 FNone (ms 200) arr =
    R (OResponse ex_res1) [(0%nat, ms 300); (1%nat, ms 300)] (ms 320) (ms 340) 3 true true true.
Proof.
  split.
  - eapply rec_extend with (d := ms 300); [reflexivity | reflexivity | vm_compute; reflexivity |].
    eapply rec_ignore; [reflexivity | reflexivity | vm_compute; reflexivity |].
    apply rec_nil.
  - vm_compute. reflexivity.
Qed.

(* without the announcement the same response comes too late *)
Example timeout_without_extension :
  send 2 FNone (ms 200) [(ms 120, ex_bad); (ms 320, ex_res1)] =
    R OTimeout [] (ms 200) (ms 200) 1 true true true
  /\ ~ some_answer (ms 200) [(ms 120, ex_bad); (ms 320, ex_res1)].
Proof.
  split; [vm_compute; reflexivity |].
  apply (timeout_iff_silence 2). vm_compute. reflexivity.
Qed.

Example publish_failure_releases :
  let e := ERes code_timeout msg_timeout in     (* the step fails with res.ErrTimeout itself *)
  send 2 (FPublish e) (ms 200) [(ms 40, ex_res1)] = R (OInternal (FPublish e)) [] 0 0 0 true false true
  /\ send 2 (FSubscribe EResNil) (ms 200) [(ms 40, ex_res1)] = R (OInternal (FSubscribe EResNil)) [] 0 0 0 false false false
  /\ res_error (OInternal (FPublish e)) = Some (code_internal, prefix_internal ++ msg_timeout)
  /\ res_error (OInternal (FSubscribe EResNil)) = Some (code_internal, prefix_internal ++ panic_text)
  /\ res_error (OInternal (FMarshal (ELazy [106; 58; 32]%N EResNil))) = Some (code_internal, prefix_internal ++ panic_text).
Proof. repeat split; vm_compute; reflexivity. Qed.

(* a 40 ms announcement whose callback blocks 200 ms: the new deadline (80) expires and a second
   announcement (at 120) queues up meanwhile; at 240 both are ready: timeout, or the announcement
   is handled (deadline 240 + 300) and the queued response is returned at 440 *)
Example slow_callback_race :
  map (fun r => (l_out r, l_cbs r, l_time r))
      (wait_nd (ms 40) (ms 200) 1 0 (ms 200) [(ms 40, timeout_payload 40); (ms 120, ex_pre1); (ms 160, ex_res1)])
  = [(OTimeout, [(0%nat, ms 40)], ms 240);
     (OResponse ex_res1, [(0%nat, ms 40); (0%nat, ms 300)], ms 440)].
Proof. vm_compute. reflexivity. Qed.
