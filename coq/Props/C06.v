(* C06 - routing returns the most specific matching pattern, params and group.
   Only statements; every proof is `exact <lemma of Mux/Proofs*.v>`.
   Model: Mux/Model.v (the trie of mux.go + group.go as of /repo de9a2b8), spec and the
   definitions used below: Mux/Spec.v.

   Proved, for EVERY accepted op list (NewMux / Handle / AddListener / Mount / Route in any order and
   nesting) and every mux of it: mount_patterns, lookup_most_specific, lookup_total,
   params_exact_group_spec (through any number of mount points), accepted_full_patterns_distinct,
   arrangement_invariant.  For one Mux without mounts the same statements also hold for op lists with
   rejected (panicking) calls in them (the *_flat theorems), and registration_complete on a fresh mux.
   Not proved: the listeners half of the result (which listener ids are returned) - covered by the
   correspondence harness and oracle code V7 only. *)
From Coq Require Import String.
From GoRes Require Import Mux.Spec Mux.ProofsMatch Mux.ProofsFlat Mux.ProofsTop Mux.ProofsReg Mux.ProofsGroup Mux.ProofsPG
  Mux.ProofsMountSt Mux.ProofsTotal Mux.ProofsMountLookup Mux.ProofsExact Mux.ProofsUniq Mux.ProofsArr Mux.ProofsLoc.
Open Scope N_scope.

(* ---- fetch_spec: a registration adds exactly its own pattern (as a skeleton: placeholder
        names forgotten) and keeps all others; a rejected one and a listener change nothing ---- *)
Theorem fetch_spec : forall root pat hid grp par root',
  add root pat hid grp par = Ok root' ->
  exists g, forall q h, has_pattern root' q h <-> (q = skel (ptoks pat) /\ h = (hid, g)) \/ has_pattern root q h.
Proof. exact fetch_spec_pf. Qed.
Theorem fetch_spec_rejected : forall root pat hid grp par e root',
  add root pat hid grp par = Panic e root' -> forall q h, has_pattern root' q h <-> has_pattern root q h.
Proof. exact fetch_spec_rejected_pf. Qed.
Theorem listener_keeps_patterns : forall root pat l q h,
  has_pattern (out_state (add_listener root pat l)) q h <-> has_pattern root q h.
Proof. exact listener_keeps_patterns_pf. Qed.

(* ---- lookup_most_specific, one mux (path prefix allowed, no mounts), any op list.
   [flat_state path ops] = the state after NewMux(path) and the ops (Handle / AddListener in any
   order, each attempted, panicking ones leaving their partial nodes behind);
   [fregs empty_node ops] = (pattern skeleton, handler id) of the Handle calls that were accepted. ---- *)
Theorem lookup_most_specific_flat : forall path ops name,
  is_valid_path path = true ->
  validate_listeners (flat_state path ops) 0 = true ->
  match spec_strip path name with
  | None => get_handler (flat_state path ops) 0 name = LNone
  | Some toks =>
    match best_of fst (fregs empty_node ops) toks with
    | None => get_handler (flat_state path ops) 0 name = LNone
    | Some (p, hid) => exists ls ps g, get_handler (flat_state path ops) 0 name = LHit hid ls ps g
    end
  end.
Proof. exact lookup_most_specific_flat_pf. Qed.

(* ---- params_exact and group_spec, one mux, any op list (listeners included):
   [fent empty_node ops] = the accepted Handle calls (pattern, handler id, group template, Parallel);
   the lookup returns the handler id of the most specific matching one, its params are exactly the
   name's tokens at the pattern's $-placeholders, and the group is the substituted template
   (the resource name when no group is set, "" for Parallel). ---- *)
Theorem params_exact_group_spec_flat : forall path ops name,
  is_valid_path path = true ->
  validate_listeners (flat_state path ops) 0 = true ->
  match spec_strip path name with
  | None => get_handler (flat_state path ops) 0 name = LNone
  | Some toks =>
    match best_of e_skel (fent empty_node ops) toks with
    | None => get_handler (flat_state path ops) 0 name = LNone
    | Some e => exists ls gs,
        get_handler (flat_state path ops) 0 name = LHit (e_hid e) ls (pvalues (ptoks (e_pat e)) toks) gs /\
        group_spec_of (e_par e) (e_grp e) name (pvalues (ptoks (e_pat e)) toks) = Some gs
    end
  end.
Proof. exact lookup_full_flat_pf. Qed.
(* accepted Handle calls have pairwise different skeletons, so [e] above is THE registration of that pattern *)
Theorem accepted_patterns_distinct : forall ops root e1 e2, In e1 (fent root ops) -> In e2 (fent root ops) ->
  e_skel e1 = e_skel e2 -> e1 = e2.
Proof. exact fent_unique. Qed.

(* ---- lookup_total, one mux: GetHandler never panics, for every op list and every name ---- *)
Theorem lookup_total_flat : forall path ops name,
  is_valid_path path = true -> get_handler (flat_state path ops) 0 name <> LPanic.
Proof. exact lookup_total_flat_pf. Qed.

(* ================= mounted arrangements: any accepted op list =================
   [run_all [] ops = Some st]: every operation of ops (NewMux / Handle / AddListener / Mount / Route, in
   any order, on any of the muxes) is accepted; [desugar ops 0] is ops with every Route replaced by
   NewMux("") ; the callback's calls ; Mount (run_all_desugar: it runs to the same state);
   [handles ..] are its Handle calls; [top_of st k = Some (t, a)]: mux k's root is the node at the
   literal path a of top-level mux t (pure bookkeeping of the Mount calls). *)

(* mount_patterns: the registered patterns of every top-level trie are exactly the full patterns
   (mount position of the mux ++ pattern) of the Handle calls that ended up in it *)
Theorem mount_patterns : forall ops st, run_all [] ops = Some st ->
  forall t p T, nth_error st t = Some (p, Top T) -> forall q hid,
  has_hid T q hid <->
  exists r a, In r (handles (desugar ops 0)) /\ sr_hid r = hid /\
              top_of st (sr_mux r) = Some (t, a) /\ q = skel (map ptok_of (a ++ split_pattern (sr_pat r))).
Proof. exact mount_patterns_skel_pf. Qed.
(* the same with the positions computed from the op list alone: [slocs ops'] folds the NewMux and Mount
   calls (path of the parent's root ++ mount path ++ sub-mux path), never looking at a trie; it agrees
   with the model's bookkeeping *)
Theorem mount_patterns_from_ops : forall ops st, run_all [] ops = Some st ->
  let ops' := desugar ops 0 in
  forall t p T, nth_error st t = Some (p, Top T) -> forall q hid,
  has_hid T q hid <->
  exists r, In r (handles ops') /\ sr_hid r = hid /\ top_mux (slocs ops') (sr_mux r) = Some t /\
            q = skel (map ptok_of (full_toks (slocs ops') r)).
Proof. exact mount_patterns_ops_pf. Qed.
Theorem slocs_spec : forall ops st, run_all [] ops = Some st ->
  forall k, nth_error (slocs (desugar ops 0)) k =
            match top_of st k with Some (t, a) => Some (path_of st k, t, a) | None => None end.
Proof. exact slocs_spec_pf. Qed.
Theorem route_is_new_calls_mount : forall ops st st', run_all st ops = Some st' ->
  run_all st (desugar ops (length st)) = Some st'.
Proof. exact run_all_desugar. Qed.

(* lookup_most_specific for every mux k of every accepted arrangement: [mcands st R k] are the Handle
   calls at or below k's root with their pattern relative to it; GetHandler on k returns the handler of
   the most specific one matching the name (after k's own path prefix), nil when none matches *)
Theorem lookup_most_specific : forall ops st k name,
  run_all [] ops = Some st -> (k < length st)%nat -> validate_listeners st k = true ->
  match spec_strip (path_of st k) name with
  | None => get_handler st k name = LNone
  | Some tk =>
    match best_of ckey (mcands st (handles (desugar ops 0)) k) tk with
    | None => get_handler st k name = LNone
    | Some x => exists ls ps g, get_handler st k name = LHit (sr_hid (snd x)) ls ps g
    end
  end.
Proof. exact lookup_most_specific_pf. Qed.

(* params_exact and group_spec through any number of mount points: the reported params are exactly the
   name's tokens at the $-placeholders of the (relative) full pattern of the matched Handle call, and the
   group is that call's template with its ${tags} substituted (the resource name when no group is set,
   "" for Parallel) *)
Theorem params_exact_group_spec : forall ops st k name,
  run_all [] ops = Some st -> (k < length st)%nat -> validate_listeners st k = true ->
  match spec_strip (path_of st k) name with
  | None => get_handler st k name = LNone
  | Some tk =>
    match best_of ckey (mcands st (handles (desugar ops 0)) k) tk with
    | None => get_handler st k name = LNone
    | Some x => exists ls gs,
        get_handler st k name = LHit (sr_hid (snd x)) ls (pvalues (map ptok_of (fst x)) tk) gs /\
        group_spec_of (sr_par (snd x)) (sr_grp (snd x)) name (pvalues (map ptok_of (fst x)) tk) = Some gs
    end
  end.
Proof. exact lookup_exact_pf. Qed.
(* the candidates of a mux have pairwise different pattern skeletons: [x] above is THE registration *)
Theorem accepted_full_patterns_distinct : forall ops st k x y, run_all [] ops = Some st ->
  In x (mcands st (handles (desugar ops 0)) k) -> In y (mcands st (handles (desugar ops 0)) k) ->
  ckey x = ckey y -> x = y.
Proof. exact mcands_unique. Qed.

(* lookup_total for every mux of every accepted arrangement: every params / group index read through
   any number of mount points is in range *)
Theorem lookup_total : forall ops st k name, run_all [] ops = Some st -> (k < length st)%nat ->
  get_handler st k name <> LPanic.
Proof. exact lookup_total_pf. Qed.

(* arrangement_invariant: two accepted arrangements (flat, Mount, Route, path prefixes, in any nesting)
   whose muxes k1 / k2 see the same relative full patterns with the same handler ids, group templates and
   Parallel flags answer alike (same handler, same params, same group for the same resource name) on
   names with the same tokens below the mux path; ValidateListeners must pass on both *)
Theorem arrangement_invariant : forall ops1 st1 k1 name1 ops2 st2 k2 name2,
  run_all [] ops1 = Some st1 -> run_all [] ops2 = Some st2 ->
  (k1 < length st1)%nat -> (k2 < length st2)%nat ->
  validate_listeners st1 k1 = true -> validate_listeners st2 k2 = true ->
  spec_strip (path_of st1 k1) name1 = spec_strip (path_of st2 k2) name2 ->
  (forall e, In e (map cproj (mcands st1 (handles (desugar ops1 0)) k1)) <->
             In e (map cproj (mcands st2 (handles (desugar ops2 0)) k2))) ->
  same_result name1 name2 (get_handler st1 k1 name1) (get_handler st2 k2 name2).
Proof. exact arrangement_invariant_pf. Qed.

(* for ANY trie (however built): what GetHandler returns is the handler of a registered pattern that
   matches and that no matching registered pattern beats; nil only when no registered pattern matches *)
Theorem lookup_most_specific_any_trie : forall root path name sub,
  strip_path path name = SName sub -> wild_handled root ->
  match get_handler_node path root name with
  | LNone => forall p h, has_pattern root p h -> pmatch p (tokens sub) = false
  | LHit hid ls ps g =>
      exists p g', has_pattern root p (hid, g') /\ pmatch p (tokens sub) = true /\
                   forall p' h', has_pattern root p' h' -> pmatch p' (tokens sub) = true -> better p' p = false
  | LPanic => True
  end.
Proof. exact lookup_any_trie_pf. Qed.

(* ---- registration_complete: on a fresh mux a pattern is accepted exactly when it is
        token-wise valid, its placeholder names are unique and its group template parses ---- *)
Theorem registration_complete : forall pat hid grp par,
  is_ok (add empty_node pat hid grp par) =
  tvalid pat && nodupb (placeholder_names (ptoks pat)) && isSome (pgroup par grp pat).
Proof. exact registration_complete_pf. Qed.

(* ---- the code before the two fixes ---- *)
(* before 8a739ee: the documented anonymous placeholder could not be registered *)
Theorem registration_complete_v0_refuted : exists pat hid grp par,
  tvalid pat && nodupb (placeholder_names (ptoks pat)) && isSome (pgroup par grp pat) = true /\
  is_ok (add_v0star empty_node pat hid grp par) = false.
Proof. exact registration_v0_refuted_pf. Qed.
(* before d78f562: a group tag of a pattern registered through a mount point made lookup panic *)
Theorem lookup_total_v0_refuted : exists root pat hid grp name,
  let root' := out_state (add_v0grp root pat hid grp false) in
  is_ok (add_v0grp root pat hid grp false) = true /\ get_handler_node [] root' name = LPanic /\
  exists g, get_handler_node [] (out_state (add root pat hid grp false)) name = LHit hid [] [(s2b "id", s2b "x")] g.
Proof. exact lookup_total_v0_refuted_pf. Qed.

(* before de9a2b8: AddListener("a.$w") after Handle("a.*") was accepted and made lookup report
   params for a pattern without $-placeholder *)
Theorem params_exact_v0_refuted : exists pat hid lpat l name,
  let root1 := out_state (add empty_node pat hid [] false) in
  is_ok (add empty_node pat hid [] false) = true /\
  is_ok (add_listener root1 lpat l) = false /\
  is_ok (add_listener_v0 root1 lpat l) = true /\
  pvalues (ptoks pat) (tokens name) = [] /\
  exists g, get_handler_node [] (out_state (add_listener_v0 root1 lpat l)) name = LHit hid [l] [(s2b "w", s2b "foo")] g.
Proof. exact params_exact_v0_refuted_pf. Qed.
(* before 4459494: "<path>." was taken for the mux path itself, so lookup_most_specific_flat failed
   (NewMux("svc"), Handle("*"): "svc." has the one-token remainder [""], which "*" matches) *)
Theorem lookup_most_specific_v0_refuted : exists path ops name,
  let root := frun empty_node ops in
  is_valid_path path = true /\ validate_node root = true /\
  (exists toks p hid, spec_strip path name = Some toks /\ best_of fst (fregs empty_node ops) toks = Some (p, hid) /\
      get_handler_node_v0dot path root name = LNone /\
      exists ls ps g, get_handler_node path root name = LHit hid ls ps g).
Proof. exact lookup_v0dot_refuted_pf. Qed.

(* ---- non-vacuity ---- *)
Definition ex_ops : list fop :=
  [FHandle (s2b "user.$id") 1 (s2b "u.${id}") false;
   FHandle (s2b "user.*.posts.>") 2 [] false;
   FHandle (s2b "user.me") 3 [] true;
   FListen (s2b "user.$id") 7;
   FHandle (s2b "user.$id.$id") 4 [] false;       (* rejected: placeholder twice *)
   FHandle (s2b "user.*") 5 [] false].            (* rejected: same skeleton as user.$id *)
Example lookup_nonvacuous :
  let st := flat_state (s2b "svc") ex_ops in
  is_valid_path (s2b "svc") = true /\ validate_listeners st 0 = true /\
  map snd (fregs empty_node ex_ops) = [1; 2; 3] /\
  get_handler st 0 (s2b "svc.user.me") = LHit 3 [] [] [] /\
  get_handler st 0 (s2b "svc.user.42") = LHit 1 [7] [(s2b "id", s2b "42")] (s2b "u.42") /\
  get_handler st 0 (s2b "svc.user..posts.a.b") = LHit 2 [] [] (s2b "svc.user..posts.a.b") /\
  get_handler st 0 (s2b "svc.user.42.x") = LNone /\
  get_handler st 0 (s2b "svc.user.") = LHit 1 [7] [(s2b "id", [])] (s2b "u.") /\
  get_handler st 0 (s2b "user.me") = LNone.
Proof. vm_compute. repeat split. Qed.

(* the same full patterns, flat and through Mount / Route / a path prefix, answer alike *)
Example arrangement_example :
  let flat := fst (replay [] [ONew []; OHandle 0 (s2b "a.b.$x") 1 (s2b "g.${x}") false;
                              OHandle 0 (s2b "a.b.c") 2 [] false; OHandle 0 (s2b "a.>") 3 [] false]) in
  let nested := fst (replay [] [ONew []; ONew (s2b "b");
                                OHandle 1 (s2b "c") 2 [] false;
                                OMount 0 (s2b "a") 1;
                                OHandle 0 (s2b "a.b.$x") 1 (s2b "g.${x}") false;
                                OHandle 0 (s2b "a.>") 3 [] false]) in
  let routed := fst (replay [] [ONew []; ORoute 0 (s2b "a") [RRoute (s2b "b") [RHandle (s2b "$x") 1 (s2b "g.${x}") false;
                                                                               RHandle (s2b "c") 2 [] false];
                                                             RHandle (s2b ">") 3 [] false]]) in
  forallb (fun n => match get_handler flat 0 n, get_handler nested 0 n, get_handler routed 0 n with
                    | LHit h1 _ p1 g1, LHit h2 _ p2 g2, LHit h3 _ p3 g3 =>
                        (h1 =? h2) && (h2 =? h3) && amap_eq p1 p2 && amap_eq p2 p3 && beq g1 g2 && beq g2 g3
                    | LNone, LNone, LNone => true
                    | _, _, _ => false end)
          [s2b "a.b.c"; s2b "a.b.zz"; s2b "a.b"; s2b "a.x.y"; s2b "a"; s2b "b"; s2b "a.b."; s2b "a.b.c.d"] = true /\
  get_handler nested 1 (s2b "b.q") = LHit 1 [] [(s2b "x", s2b "q")] (s2b "g.q").
Proof. vm_compute. repeat split. Qed.

(* non-vacuity of arrangement_invariant: a flat mux and a doubly routed one see the same patterns *)
Definition arr_flat : list op :=
  [ONew []; OHandle 0 (s2b "a.b.$x") 1 (s2b "g.${x}") false; OHandle 0 (s2b "a.b.c") 2 [] false;
   OHandle 0 (s2b "a.>") 3 [] false].
Definition arr_routed : list op :=
  [ONew []; ORoute 0 (s2b "a") [RRoute (s2b "b") [RHandle (s2b "$x") 1 (s2b "g.${x}") false;
                                                 RHandle (s2b "c") 2 [] false];
                                RHandle (s2b ">") 3 [] false]].
Example arrangement_nonvacuous : exists st1 st2,
  run_all [] arr_flat = Some st1 /\ run_all [] arr_routed = Some st2 /\
  validate_listeners st1 0 = true /\ validate_listeners st2 0 = true /\
  (forall e, In e (map cproj (mcands st1 (handles (desugar arr_flat 0)) 0)) <->
             In e (map cproj (mcands st2 (handles (desugar arr_routed 0)) 0))) /\
  get_handler st2 0 (s2b "a.b.zz") = LHit 1 [] [(s2b "x", s2b "zz")] (s2b "g.zz") /\
  get_handler st2 2 (s2b "zz") = LHit 1 [] [(s2b "x", s2b "zz")] (s2b "g.zz").
Proof.
  eexists. eexists. split; [vm_compute; reflexivity|]. split; [vm_compute; reflexivity|].
  split; [vm_compute; reflexivity|]. split; [vm_compute; reflexivity|].
  split; [intros e; vm_compute; tauto|]. split; vm_compute; reflexivity.
Qed.
