(* C10 - clients of store-backed resources stay coherent with a fresh get.
   Only statements; every proof is `exact <lemma of Diff/Proofs*.v>`.
   V is an arbitrary value type and veq stands for store.Value.Equal; what a theorem
   needs of veq (reflexive / an equivalence) is an explicit premise.  Results are
   stated up to veq (Forall2 (veqP veq) for collections, model_equiv for models);
   for the concrete value type jv, whose jv_eqb is Leibniz equality, the collection
   theorem is restated with plain equality. *)
From GoRes Require Import Diff.Spec Diff.Proofs.
From Coq Require Import Arith.
Local Open Scope nat_scope.

(* remove/add events turn the old collection into the new one, every index in range at
   the moment it is applied (apply_colls = Some ..), for ALL lists *)
Theorem collection_script_correct :
  forall (V : Type) (veq : V -> V -> bool), veq_refl veq ->
  forall a b : list V, exists es r,
    collection_diff V veq a b = DOk es /\ apply_colls es a = Some r /\ Forall2 (veqP veq) r b.
Proof. exact collection_script_correct_pf. Qed.

(* ... and this does not depend on the LCS table: it holds for ANY answers of the two
   table comparisons of the back-track loop (answers that are consistent with each other) *)
Theorem collection_script_correct_any_oracle :
  forall (V : Type) (veq : V -> V -> bool), veq_refl veq ->
  forall ge lt, oracle_ok ge lt ->
  forall a b : list V, exists es r,
    collection_diff_with V veq ge lt a b = DOk es /\ apply_colls es a = Some r /\ Forall2 (veqP veq) r b.
Proof. exact collection_script_correct_any_oracle_pf. Qed.

Theorem collection_script_correct_jv :
  forall a b : list jv, exists es, collection_diff jv jv_eqb a b = DOk es /\ apply_colls es a = Some b.
Proof. exact collection_script_correct_jv_pf. Qed.

Theorem no_events_iff_equal :
  forall (V : Type) (veq : V -> V -> bool), veq_refl veq ->
  forall a b : list V, collection_diff V veq a b = DOk [] <-> Forall2 (veqP veq) a b.
Proof. exact no_events_iff_equal_pf. Qed.

(* change events turn the old served model into the new one; removed keys are delete
   actions; set values are the new values; no event when nothing differs *)
Theorem model_script_correct :
  forall (V : Type) (veq : V -> V -> bool) (a b : amapV V),
  veq_equivalence veq -> NoDup (map fst a) -> NoDup (map fst b) ->
  model_equiv veq (apply_change (model_diff V veq a b) a) b /\
  (forall k, In (k, MDelete) (model_diff V veq a b) <-> (vlookup k a <> None /\ vlookup k b = None)) /\
  (forall k v, In (k, MSet v) (model_diff V veq a b) -> vlookup k b = Some v) /\
  (model_diff V veq a b = [] <-> model_equiv veq b a) /\
  change_event (@nil (bytes * mval V)) = [].
Proof. exact model_script_correct_pf. Qed.

(* every history of store mutations, every handler configuration: the client that fetched
   before and applied every published event holds what a fresh get serves afterwards;
   no step panics or runs out of fuel; every event is on the resource id *)
Theorem coherent :
  forall (V : Type) (veq : V -> V -> bool), veq_equivalence veq ->
  forall (cfg : config V) (id rid : bytes) (st0 : option (rv V)) (ops : list (op V)),
  cfg_ok cfg id rid -> oraw_ok cfg st0 -> Forall (op_ok cfg) ops ->
  exists st' evs c',
    run_history V veq cfg id st0 ops = (st', HOk evs) /\
    Forall (fun e => fst e = rid) evs /\
    apply_events (map snd evs) (view cfg id rid st0) = Some c' /\
    cstate_equiv veq c' (view cfg id rid st').
Proof. exact coherent_pf. Qed.

(* a mutation that does not alter the served representation publishes nothing *)
Theorem unchanged_publishes_nothing :
  forall (V : Type) (veq : V -> V -> bool), veq_equivalence veq ->
  forall (cfg : config V) (id rid : bytes) (x y : option (rv V)),
  cfg_ok cfg id rid -> oraw_ok cfg x -> oraw_ok cfg y ->
  cstate_equiv veq (view cfg id rid x) (view cfg id rid y) ->
  change_handler V veq cfg id x y = HOk [].
Proof. exact unchanged_publishes_nothing_pf. Qed.

(* creation / deletion of a resource that get reports as missing is announced as exactly one
   create / delete on the resource id chosen by the transformer; otherwise only diff events *)
Theorem create_delete_on_rid :
  forall (V : Type) (veq : V -> V -> bool), veq_equivalence veq ->
  forall (cfg : config V) (id rid : bytes) (x y : option (rv V)),
  cfg_ok cfg id rid -> oraw_ok cfg x -> oraw_ok cfg y ->
  exists evs, change_handler V veq cfg id x y = HOk evs /\
  match view cfg id rid x, view cfg id rid y with
  | CMissing, CMissing => evs = []
  | CMissing, CPresent v => evs = [(rid, ECreate v)]
  | CPresent _, CMissing => evs = [(rid, EDelete)]
  | CPresent _, CPresent _ => Forall (fun e => fst e = rid /\ is_diff_event V (snd e)) evs
  end.
Proof. exact create_delete_on_rid_pf. Qed.

Theorem jv_equivalence : veq_equivalence jv_eqb.
Proof. exact jv_equivalence_pf. Qed.

(* ---------- non-vacuity ---------- *)
(* removes and adds both occur and the compensated index matters: the adds were discovered
   at idx 4 and 3 (before two removes) and are published at 2 and 3 *)
Example collection_removes_and_adds :
  collection_diff nat Nat.eqb [1;2;3;4] [2;4;5;1] = DOk [ERemove 2; ERemove 0; EAdd 5 2; EAdd 1 3] /\
  apply_colls [ERemove 2; ERemove 0; EAdd 5 2; EAdd 1 3] [1;2;3;4] = Some [2;4;5;1] /\
  apply_colls [ERemove 2; ERemove 0; EAdd 5 4; EAdd 1 3] [1;2;3;4] = None.
Proof. vm_compute. repeat split. Qed.

(* a deliberately bad (but self-consistent) oracle still produces a correct, longer script *)
Example bad_oracle_still_correct :
  let ge := fun (_ : list nat) (_ _ _ : nat) => Some false in
  let lt := fun (_ : list nat) (_ _ _ : nat) => Some true in
  oracle_ok ge lt /\
  collection_diff_with nat Nat.eqb ge lt [1;2;3] [2;3;4] = DOk [ERemove 2; ERemove 1; ERemove 0; EAdd 2 0; EAdd 3 1; EAdd 4 2] /\
  collection_diff nat Nat.eqb [1;2;3] [2;3;4] = DOk [ERemove 0; EAdd 4 2].
Proof. split; [intros c m n i j _ _ _; exists false; split; reflexivity|vm_compute; split; reflexivity]. Qed.

Definition kA : bytes := [97%N].
Definition kB : bytes := [98%N].
Definition kC : bytes := [99%N].
Definition kD : bytes := [100%N].
Example model_delete_and_set :
  let a := [(kA, 1); (kB, 2); (kC, 3)] in
  let b := [(kB, 2); (kC, 4); (kD, 5)] in
  model_diff nat Nat.eqb a b = [(kA, MDelete); (kC, MSet 4); (kD, MSet 5)] /\
  apply_change (model_diff nat Nat.eqb a b) a = [(kB, 2); (kC, 4); (kD, 5)] /\
  change_event (model_diff nat Nat.eqb a a) = [].
Proof. vm_compute. repeat split. Qed.

(* a transformer + default configuration: the hypotheses of [coherent] are satisfiable and the
   history really creates, diffs, hides (transform error -> delete), and falls back to the default *)
Definition ex_id : bytes := [120%N].                      (* "x" *)
Definition ex_rid : bytes := [116%N; 46%N; 120%N].        (* "t.x" *)
Definition ex_tr : transformer nat :=
  Tr (fun rid => skipn 2 rid) (fun id _ => [116%N; 46%N] ++ id)
     (fun _ v => match v with RC (0 :: _) => None | RC c => Some (RC c) | _ => None end).
Definition ex_cfg : config nat := Cfg TCollection (Some ex_tr) (Some (RC [7])) (fun _ => true).
Example coherent_nonvacuous :
  cfg_ok ex_cfg ex_id ex_rid /\
  run_history nat Nat.eqb ex_cfg ex_id (Some (RC [0])) [OUpdate (RC [1;2]); OUpdate (RC [2;3]); OUpdate (RC [0;9]); ODelete; OCreate (RC [7])] =
    (Some (RC [7]),
     HOk [(ex_rid, ECreate (RC [1;2])); (ex_rid, ERemove 0); (ex_rid, EAdd 3 1);
          (ex_rid, EDelete); (ex_rid, ECreate (RC [7]))]) /\
  view ex_cfg ex_id ex_rid (Some (RC [0])) = CMissing /\
  view ex_cfg ex_id ex_rid None = CPresent (RC [7]).
Proof.
  split; [|vm_compute; repeat split].
  unfold cfg_ok, ex_cfg, ex_tr. cbn. repeat split; try discriminate.
  - intros d H. injection H as <-. exact I.
  - intros v v' H. destruct v as [m|[|[|n] c]|]; try discriminate; injection H as <-; exact I.
Qed.
