(* C20 - the deprecated BadgerDB middlewares (middleware/badgerdb.go, middleware/resbadger) serve the
   fold of the events they applied.  Only statements; every proof is `exact <lemma of Legacy/Proofs.v>`.
   c : handler configuration (package, model/collection, Type, Default, index set)
   s : what the database holds for the resource (entry, index entries)     es : any event sequence *)
From GoRes Require Import Legacy.Spec Legacy.Proofs.
Open Scope N_scope.

(* After ANY event sequence, folding the events that were published (as a client reads them) over the
   initial-or-default value with the reference semantics of Spec.v is defined - every published event is
   applicable to the client's view - and gives the stored-or-default value, which is what get serves
   (handlers without Map callback; with resbadger.Model.WithMap get serves Map of it: mapped_get);
   reopening serves the same. *)
Theorem served_is_fold : forall c s es,
  exists v,
    spec_fold (c_def c) (published c s es) (served (c_def c) (st_val s)) = Some v /\
    veqv (served (c_def c) (st_val (final c s es))) v /\
    (maps c = None -> geqv (get_resource c (final c s es)) (gres_of v)) /\
    get_resource c (reopen (final c s es)) = get_resource c (final c s es) /\
    value_resource c (reopen (final c s es)) = value_resource c (final c s es).
Proof. exact served_is_fold_pf. Qed.

(* Value() returns what get serves whenever Default, initial entry and events are of the handler's Type *)
Theorem value_is_fold : forall c s es,
  maps c = None -> well_typed c s es = true ->
  value_resource c (final c s es) = get_resource c (final c s es).
Proof. exact value_is_fold_pf. Qed.

(* resbadger.Model.WithMap: get serves Map(the stored entry unmarshalled into Type), an error when the entry
   does not unmarshal or Map fails; the Default is served unmapped; Value() is not mapped *)
Theorem mapped_get : forall c s f,
  maps c = Some f ->
  get_resource c s =
    match st_val s with
    | Some r => match decode c r with
                | Some r' => match f r' with Some x => GOk x | None => GErr end
                | None => GErr
                end
    | None => gres_of (c_def c)
    end.
Proof. exact mapped_get_pf. Qed.

(* the handlers keep nothing outside the database *)
Theorem reopen_same : forall s, reopen s = s.
Proof. exact reopen_same_pf. Qed.

(* an event that publishes nothing leaves the database (entry and index entries) unchanged *)
Theorem silent_unchanged : forall c s e,
  o_pub (fire c s e) = None -> o_state (fire c s e) = s.
Proof. exact silent_unchanged_pf. Qed.

(* the old values handed to change listeners: exactly the properties the handler regards as changed, each
   with its previously served value (the delete action for a property that did not exist) *)
Theorem old_values_exact : forall c s cs l,
  NoDup (map fst cs) ->
  o_call (fire c s (EChange cs)) = Some l ->
  exists m0 rev,
    served (c_def c) (st_val s) = Some (RModel m0) /\
    l = LChange (pubvals cs) rev /\
    o_pub (fire c s (EChange cs)) = Some (PChange (pubvals cs)) /\
    forall k, rget k rev =
      match cget k cs with
      | Some a => if changed m0 k a then Some (oldv m0 k) else None
      | None => None
      end.
Proof. exact old_values_exact_pf. Qed.

(* "regards as changed" is "the JSON value differs" unless the new value is a Go int (reflect.DeepEqual
   of an int and the decoded float64 is false, so an int always counts as a change) *)
Theorem changed_is_json_changed : forall m k a, no_int a = true -> changed m k a = jchanged m k a.
Proof. exact changed_jchanged_pf. Qed.

(* the data handed to delete listeners is the previously stored entry, unmarshalled into the handler's Type
   (delete_view); that IS the stored entry when the Type is interface-valued or the entry is of the Type.
   (Into a float64-valued Type encoding/json turns a stored null into 0: Example null_into_float_type.) *)
Theorem delete_data_exact : forall c s l,
  o_call (fire c s EDelete) = Some l ->
  l = LDelete (option_map (delete_view c) (st_val s)) /\ o_pub (fire c s EDelete) = Some PDelete.
Proof. exact delete_data_exact_pf. Qed.
Theorem delete_view_typed : forall c r, fits c r = true -> delete_view c r = r.
Proof. exact delete_view_typed_pf. Qed.
Theorem delete_view_any : forall c r, c_ty c = TyAny -> delete_view c r = r.
Proof. exact delete_view_any_pf. Qed.

(* index out of range (or negative), create on an existing resource (stored or Default), change / remove on a
   missing resource without Default: the event method panics, nothing is published, no listener is called,
   the database is unchanged *)
Theorem unappliable_silent : forall c s e,
  unappliable (served (c_def c) (st_val s)) e = true -> fire c s e = silent true s.
Proof. exact unappliable_silent_pf. Qed.

(* resbadger.Model with an index set and without Default: the index entries are exactly the keys of the
   stored value after any event sequence, provided no Key callback returns an empty non-nil slice and the
   Type is interface-valued or entry and events are of the Type (the Key callbacks see the value as
   unmarshalled into Type) *)
Theorem idx_consistent : forall c ks s es,
  c_pkg c = ResB -> c_type c = TModel -> c_idx c = Some ks -> c_def c = None ->
  c_ty c = TyAny \/ well_typed c s es = true ->
  keys_nonempty ks -> idx_ok ks s -> idx_ok ks (final c s es).
Proof. exact idx_consistent_pf. Qed.

(* ---- non-vacuity and witnesses ---- *)
Definition Cfg0 p t y d i := Cfg p t y d i None.
Definition ka : key := [97].
Definition kb : key := [98].
Definition cfg_legacy_model := Cfg0 Legacy TModel TyAny None None.
Definition cfg_resb_coll_num := Cfg0 ResB TColl TyNum None None.
Definition empty := St None [].

(* a run that publishes create, change, delete, create and ends serving the fold *)
Example served_nonvacuous :
  let es := [ECreate (RModel [(ka, JNum 1)]); EChange [(ka, Put (GInt 2)); (kb, Put (GStr [120]))];
             EChange [(ka, Del)]; ECreate (RModel []); EDelete; ECreate (RModel [(kb, JNum 7)])] in
  published cfg_legacy_model empty es =
    [SCreate (RModel [(ka, JNum 1)]); SChange [(ka, Put (JNum 2)); (kb, Put (JStr [120]))];
     SChange [(ka, Del)]; SDelete; SCreate (RModel [(kb, JNum 7)])] /\
  get_resource cfg_legacy_model (final cfg_legacy_model empty es) = GOk (RModel [(kb, JNum 7)]) /\
  well_typed cfg_legacy_model empty es = true.
Proof. vm_compute. repeat split. Qed.

Example collection_nonvacuous :
  let c := Cfg0 ResB TColl TyAny (Some (RColl [JNum 1])) None in
  let es := [EAdd (GStr [120]) 1; EAdd (GNum 5) 3; ERemove 0; ERemove 7; EDelete; EAdd (GInt 9) 0] in
  published c empty es = [SAdd (JStr [120]) 1; SRemove 0; SDelete; SAdd (JNum 9) 0] /\
  get_resource c (final c empty es) = GOk (RColl [JNum 9; JNum 1]).
Proof. vm_compute. repeat split. Qed.

(* each kind of unappliable event occurs *)
Example unappliable_nonvacuous :
  unappliable (Some (RColl [JNum 1])) (EAdd (GNum 2) 2) = true /\
  unappliable (Some (RColl [JNum 1])) (ERemove 1) = true /\
  unappliable (Some (RModel [])) (ECreate (RModel [])) = true /\
  unappliable None (EChange [(ka, Put (GNum 1))]) = true /\
  unappliable (Some (RColl [JNum 1])) (EAdd (GNum 2) 1) = false.
Proof. vm_compute. repeat split. Qed.

(* old values: a changed property, a new property (delete action), an unchanged one (absent),
   and a Go int equal to the stored number (present although the JSON value is the same) *)
Example old_values_nonvacuous :
  let s := St (Some (RModel [(ka, JNum 1); (kb, JStr [120]); ([99], JNum 3)])) [] in
  o_call (fire cfg_legacy_model s (EChange [(ka, Put (GNum 2)); (kb, Put (GStr [120])); ([99], Put (GInt 3)); ([100], Put (GNum 0))])) =
  Some (LChange [(ka, Put (JNum 2)); (kb, Put (JStr [120])); ([99], Put (JNum 3)); ([100], Put (JNum 0))]
                [(ka, Put (JNum 1)); ([99], Put (JNum 3)); ([100], Del)]).
Proof. vm_compute. reflexivity. Qed.

(* a property that is present with value null is not an absent property (both packages: `ov, ok := m[k]`):
   null -> "x" hands the listeners null (not the delete action) as old value; deleting a null-valued
   property is published and removes it; null -> null is no change (nothing published); absent -> null
   is a change with the delete action as old value *)
Example null_is_not_absent :
  let c := Cfg0 ResB TModel TyAny None None in
  let s := St (Some (RModel [(ka, JNull); (kb, JNum 1)])) [] in
  o_call (fire c s (EChange [(ka, Put (GStr [120]))])) = Some (LChange [(ka, Put (JStr [120]))] [(ka, Put JNull)]) /\
  fire c s (EChange [(ka, Del)]) =
    Obs false (Some (PChange [(ka, Del)])) (Some (LChange [(ka, Del)] [(ka, Put JNull)])) (St (Some (RModel [(kb, JNum 1)])) []) /\
  fire c s (EChange [(ka, Put GNull)]) = silent false s /\
  o_call (fire cfg_legacy_model s (EChange [([99], Put GNull)])) = Some (LChange [([99], Put JNull)] [([99], Del)]) /\
  get_resource cfg_legacy_model (final cfg_legacy_model s [EChange [([99], Put GNull)]]) =
    GOk (RModel [(ka, JNull); (kb, JNum 1); ([99], JNull)]).
Proof. vm_compute. repeat split. Qed.

(* note on the current code: a null stored under a float64-valued Type (an event value that is not of the
   Type) is served as null by get but as 0 by Value(), and handed as 0 to delete listeners *)
Example null_into_float_type :
  let c := Cfg0 Legacy TModel TyNum None None in
  let s := final c empty [ECreate (RModel [(ka, JNum 1)]); EChange [(ka, Put GNull)]] in
  get_resource c s = GOk (RModel [(ka, JNull)]) /\ value_resource c s = GOk (RModel [(ka, JNum 0)]) /\
  o_call (fire c s EDelete) = Some (LDelete (Some (RModel [(ka, JNum 0)]))).
Proof. vm_compute. repeat split. Qed.

(* a stored entry that is the JSON text null (CreateEvent(nil)) is served as null, distinct from an empty
   collection; an add at 0 treats it as empty, a remove is out of range, setting a property panics *)
Example null_resource :
  let c := Cfg0 Legacy TColl TyAny None None in
  let s := final c empty [ECreate RNull] in
  get_resource c s = GOk RNull /\ value_resource c s = GOk RNull /\
  fire c s (ERemove 0) = silent true s /\
  get_resource c (final c s [EAdd (GNum 1) 0]) = GOk (RColl [JNum 1]) /\
  fire cfg_legacy_model (St (Some RNull) []) (EChange [(ka, Put (GNum 1))]) = silent true (St (Some RNull) []).
Proof. vm_compute. repeat split. Qed.

(* resbadger applyDelete BEFORE fix ec218ca: an entry that does not decode into Type was deleted although
   the handler returned an error (nothing published) *)
Example resb_delete_v0_refuted :
  let s := St (Some (RColl [JStr [121]])) [] in
  apply_delete_v0 cfg_resb_coll_num s = Failed (St None []) /\ apply_delete cfg_resb_coll_num s = Failed s.
Proof. vm_compute. split; reflexivity. Qed.

(* notes on the current code (not violations of C20): DeleteEvent on a missing resource publishes a delete
   event with null data; AddEvent at 0 on a missing collection creates it *)
Example delete_on_missing_publishes :
  fire cfg_legacy_model empty EDelete = Obs false (Some PDelete) (Some (LDelete None)) empty.
Proof. vm_compute. reflexivity. Qed.
Example add_on_missing_creates :
  let c := Cfg0 ResB TColl TyAny None None in
  fire c empty (EAdd (GNum 1) 0) = Obs false (Some (PAdd (JNum 1) 0)) (Some (LAdd (JNum 1) 0)) (St (Some (RColl [JNum 1])) []).
Proof. vm_compute. reflexivity. Qed.

(* idx_consistent needs its hypotheses: with a Default the entry of a first change is never written ... *)
Example idx_stale_with_default :
  let ks := [field_key ka] in
  let c := Cfg0 ResB TModel TyAny (Some (RModel [(ka, JStr [120])])) (Some ks) in
  final c empty [EChange [(kb, Put (GNum 1))]] = St (Some (RModel [(ka, JStr [120]); (kb, JNum 1)])) [] /\
  idx_spec ks (Some (RModel [(ka, JStr [120]); (kb, JNum 1)])) = [(0, [120])].
Proof. vm_compute. split; reflexivity. Qed.
(* ... and an empty non-nil key written by applyCreate is never removed by applyChange *)
Example idx_stale_empty_key :
  let ks := [field_key ka] in
  let c := Cfg0 ResB TModel TyAny None (Some ks) in
  st_idx (final c empty [ECreate (RModel [(ka, JStr [])]); EChange [(ka, Put (GStr [120]))]]) = [(0, []); (0, [120])].
Proof. vm_compute. reflexivity. Qed.

(* a value that cannot be marshalled: nothing is published, nothing changes *)
Example unmarshalable_values :
  let s := St (Some (RModel [(ka, JNum 1)])) [] in
  fire cfg_legacy_model s (EChange [(kb, Put GBad)]) = silent true s /\
  fire cfg_legacy_model empty ECreateBad = silent true empty /\
  fire (Cfg0 ResB TColl TyAny None None) empty (EAdd GBad 0) = silent true empty.
Proof. vm_compute. repeat split. Qed.

(* WithMap: get serves the mapped value, Value() the stored one; index listener calls of one change *)
Example mapped_and_listeners :
  let ks := [field_key ka; field_key kb] in
  let c := Cfg ResB TModel TyAny None (Some ks) (Some std_map) in
  let s := final c empty [ECreate (RModel [(ka, JNum 1); (kb, JStr [120])])] in
  get_resource c s = GOk (RModel [(ka, JNum 1); (fld_m, JNum 1)]) /\
  value_resource c s = GOk (RModel [(ka, JNum 1); (kb, JStr [120])]) /\
  idx_calls c s (EChange [(ka, Put (GNum 2))]) =
    [IC (Some 0) (Some (RModel [(ka, JNum 1); (kb, JStr [120])])) (Some (RModel [(ka, JNum 2); (kb, JStr [120])]));
     IC None (Some (RModel [(ka, JNum 1); (kb, JStr [120])])) (Some (RModel [(ka, JNum 2); (kb, JStr [120])]))] /\
  rebuild c true s = RbOk [(0, [49]); (1, [120])].
Proof. vm_compute. repeat split. Qed.
