(* C07 - everything the service publishes is protocol-conformant.
   Only statements; every proof is `exact <lemma of Conform/Proofs.v>` or a computation on a witness.
   PARTIAL: JSON is handled at AST level (encoding/json trusted): a handler value is the AST it
   marshals to, or its marshal error.  [conformant] (Conform/Spec.v) is the validator that the
   harness also evaluates on the real messages. *)
From Coq Require Import String.
From GoRes Require Import Conform.Model Conform.Proofs.
Open Scope N_scope.

(* For ALL configurations and ALL finite sequences of: service start, requests (any dispatch
   outcome, any handler script over every reply method / Timeout / meta setter / TokenEvent / event /
   panic, any handler value incl. unmarshalable ones), With callbacks, query requests and direct
   Service calls - with valid resource names, valid reply subjects, and a protocol-conformant cid
   where a handler sends a token event ([top_ok]) - every published message is conformant. *)
Theorem all_published_conformant : forall c ts, forallb top_ok ts = true ->
  Forall (fun m => conformant m = true) (publications c ts).
Proof. exact all_published_conformant_pf. Qed.

(* per publishing site *)
Theorem request_conformant : forall c r d, top_ok (TRequest r d) = true ->
  Forall (fun m => conformant m = true) (run_request error_json c r d).
Proof. exact request_conformant_pf. Qed.
Theorem with_conformant : forall c r s, top_ok (TWith r s) = true ->
  Forall (fun m => conformant m = true) (run_with c r s).
Proof. exact with_conformant_pf. Qed.
Theorem query_conformant : forall c r q d, top_ok (TQuery r q d) = true ->
  Forall (fun m => conformant m = true) (run_query error_json c r q d).
Proof. exact query_conformant_pf. Qed.
Theorem service_call_conformant : forall c a out, run_svc c a = EOk out ->
  Forall (fun m => conformant m = true) out.
Proof. exact svc_conformant_pf. Qed.
Theorem start_conformant : forall c, Forall (fun m => conformant m = true) (run_top error_json c TStart).
Proof. exact start_conformant_pf. Qed.

(* a request delivered without a reply subject is dropped: no handler runs, nothing is published
   (in particular nothing on the empty subject) *)
Theorem no_reply_subject_dropped : forall c r d, rreply r = [] -> run_request error_json c r d = [].
Proof. exact no_reply_subject_dropped_pf. Qed.

(* a reply whose value cannot be marshalled (OK / Model / Collection value, Error data) yields exactly
   one message: a conformant system.internalError response *)
Theorem unmarshalable_becomes_internal_error : forall c r st k,
  rk_unmarshalable k = true -> replied st = false -> valid_subject (rreply r) = true ->
  exists j,
    step error_json c r st (AReply k) = SCont (RSt true (status st) (rheader st)) [reply_pub r (PJson j)] /\
    is_internal_error j = true /\
    conformant (reply_pub r (PJson j)) = true.
Proof. exact unmarshalable_becomes_internal_error_pf. Qed.
Theorem unmarshalable_request : forall c r k,
  rk_unmarshalable k = true -> valid_subject (rreply r) = true ->
  exists j, run_request error_json c r (DRun [AReply k]) = [reply_pub r (PJson j)] /\
            is_internal_error j = true /\ conformant (reply_pub r (PJson j)) = true.
Proof. exact unmarshalable_request_pf. Qed.
(* AS-IS behaviour for events: an unmarshalable event / token value publishes NOTHING (error logged) *)
Theorem unmarshalable_event_dropped : forall c r msg,
  (forall name out, run_event r (EvCustom name (HBad msg)) = EOk out -> out = []) /\
  (forall idx ap out, run_event r (EvAdd (HBad msg) idx ap) = EOk out -> out = []) /\
  (forall ap out, run_event r (EvChange None ap) = EOk out -> out = []) /\
  (forall cid out, run_svc c (STokenEvent cid (HBad msg)) = EOk out -> out = []) /\
  (forall cid tid out, run_svc c (STokenEventID cid tid (HBad msg)) = EOk out -> out = []).
Proof. exact unmarshalable_event_dropped_pf. Qed.

(* meta appears only on responses to requests flagged HTTP, and the setters panic otherwise *)
Theorem meta_only_http : forall c r d m h s,
  top_ok (TRequest r d) = true -> In m (run_request error_json c r d) ->
  pctx m = CReply h s -> has_meta m = true -> rhttp r = true /\ h = true.
Proof. exact meta_only_http_pf. Qed.
Theorem meta_setters_panic : forall c r st n k vs, rhttp r = false ->
  (exists p, step error_json c r st (ASetStatus n) = SPanic p) /\
  (exists p, step error_json c r st (AHeader k vs) = SPanic p).
Proof. exact meta_setters_panic_pf. Qed.

(* a nil pointer of type res.Error, passed to r.Error or to panic, yields a conformant internalError *)
Theorem nil_error_conformant : forall c r, valid_subject (rreply r) = true ->
  let m := reply_pub r (PJson (error_json None None)) in
  run_request error_json c r (DRun [AReply (KError ENilPtr)]) = [m] /\
  run_request error_json c r (DRun [AW (WPanic (PPtr None))]) = [m] /\
  conformant m = true /\ is_internal_error (error_json None None) = true.
Proof. exact nil_error_conformant_pf. Qed.
Theorem nil_error_meta_conformant : forall c r st, valid_subject (rreply r) = true ->
  (rhttp r = false -> status st = 0%Z /\ rheader st = []) -> replied st = false ->
  let m := reply_pub r (PJson (error_json None (st_meta st))) in
  step error_json c r st (AReply (KError ENilPtr)) = SCont (RSt true (status st) (rheader st)) [m] /\
  finish error_json r (st, [], Some (PPtr None)) = [m] /\
  conformant m = true /\ is_internal_error (error_json None (st_meta st)) = true.
Proof. exact nil_error_meta_conformant_pf. Qed.

(* before the fix in request.go error(): the payload was {"error":null} *)
Definition w_cfg := Cfg (s2b "test") None None true true.
Definition w_req := Req (Res (s2b "test.model.1") RTModel) (s2b "_INBOX.abc") (s2b "cid1") false.
Theorem nil_error_v0_refuted : exists c r,
  top_ok (TRequest r (DRun [AW (WPanic (PPtr None))])) = true /\
  publications_v0 c [TRequest r (DRun [AW (WPanic (PPtr None))])] =
    [reply_pub r (PJson (JObj [(k_error, JNull)]))] /\
  forallb conformant (publications_v0 c [TRequest r (DRun [AW (WPanic (PPtr None))])]) = false /\
  forallb conformant (publications_v0 c [TRequest r (DRun [AReply (KError ENilPtr)])]) = false.
Proof. exists w_cfg, w_req. vm_compute. repeat split. Qed.

(* before the fix in resource.go Event(): the name "create" was not rejected, so Event("create", payload)
   published a create event WITH a payload (found by this check, oracle code V3); now it panics *)
Theorem custom_create_payload_refuted : exists rn v,
  valid_rname rn = true /\
  custom_event false rn n_create (HV v) = EOk [ev (ev_subject rn n_create) (PJson v)] /\
  conformant (ev (ev_subject rn n_create) (PJson v)) = false /\
  (exists p, custom_event true rn n_create (HV v) = EPanic p).
Proof.
  exists (s2b "test.model.1"), (JObj [(s2b "a", JNum (s2b "1"))]). vm_compute.
  repeat split. eexists. reflexivity.
Qed.

(* ---------- non-vacuity ---------- *)
Definition ex_http := Req (Res (s2b "test.model.1") RTModel) (s2b "_INBOX.r1") (s2b "bl3c7q") true.
Definition ex_tops : list top :=
  [ TStart;
    TRequest ex_http (DRun [ASetStatus 404%Z; AHeader (s2b "Set-Cookie") [s2b "a=b"]; ATimeout 3000000000%Z;
                            ATokenEvent (HV (JObj [(s2b "user", JStr (s2b "x"))]));
                            AW (WEvent (EvChange (Some [(s2b "a", JNum (s2b "1"))]) ApOk));
                            AReply (KOK (HBad (s2b "json: unsupported type: chan int")))]);
    TRequest w_req (DRun [AW (WPanic (PPtr None))]);
    TRequest ex_http (DRun [ASetStatus 303%Z; AHeader (s2b "Location") [s2b "/x"]; AReply (KResource (s2b "test.model.2?q=1"))]);
    TWith (Res (s2b "test.coll.1") RTCollection)
          [WEvent (EvAdd (HV (JStr (s2b "q""uote"))) 2%Z ApAbsent); WEvent (EvRemove 0%Z ApOk); WEvent (EvCreate ApOk);
           WEvent (EvDelete ApOk); WEvent EvReaccess; WEvent EvReset; WEvent (EvQuery (s2b "_INBOX.q") true);
           WEvent (EvCustom (s2b "foo") (HV JNull)); WSvc (STokenEventID (s2b "cid") (s2b "tid") HNil);
           WSvc (STokenReset (s2b "auth.renew") [s2b "tid"])];
    TQuery (Res (s2b "test.coll.1") RTCollection) (s2b "_INBOX.q1")
           (QRun [QTimeout 0%Z; QAdd (HV JNull) 1%Z; QRemove 0%Z]);
    TSvc (SReset [s2b "test.>"] []) ].

(* the hypotheses hold for a sequence exercising every kind of publication, 20 messages are published,
   one of them carries meta, one is a pre-response, one an internalError for an unmarshalable value *)
Example all_published_nonvacuous :
  forallb top_ok ex_tops = true /\
  length (publications w_cfg ex_tops) = 20%nat /\
  forallb conformant (publications w_cfg ex_tops) = true /\
  existsb has_meta (publications w_cfg ex_tops) = true /\
  existsb (fun m => match pay m with PRaw (_ :: _) => true | _ => false end) (publications w_cfg ex_tops) = true /\
  existsb (fun m => match pay m with PJson j => is_internal_error j | _ => false end) (publications w_cfg ex_tops) = true.
Proof. vm_compute. repeat split. Qed.

(* the validator is not trivially true: it rejects malformed messages *)
Example conformant_rejects :
  let rp := s2b "_INBOX.r" in
  map conformant
    [ Pub rp (PJson (JObj [(k_result, JNull); (k_error, JObj [(k_code, JStr []); (k_message, JStr [])])])) (CReply false rp);
      Pub rp (PJson (JObj [])) (CReply false rp);
      Pub rp (PJson (JObj [(k_error, JObj [(k_code, JNum (s2b "1")); (k_message, JStr [])])])) (CReply false rp);
      Pub rp (PJson (JObj [(k_result, JNull); (k_meta, JObj [(k_status, JNum (s2b "404"))])])) (CReply false rp);
      Pub rp (PJson (JObj [(k_result, JNull); (k_meta, JObj [(s2b "x", JNull)])])) (CReply true rp);
      Pub rp (PRaw (s2b "timeout:""12a""")) (CReply false rp);
      Pub rp (PRaw []) (CReply false rp);
      Pub (s2b "event.test..change") (PJson (JObj [(k_values, JObj [])])) CEvent;
      Pub (s2b "event.test.model.change") (PJson (JObj [(k_values, JArr [])])) CEvent;
      Pub (s2b "event.test.coll.add") (PJson (JObj [(k_value, JNull); (s2b "index", JNum (s2b "1"))])) CEvent;
      Pub (s2b "event.test.coll.remove") (PJson (JObj [(k_idx, JNum (s2b "-1"))])) CEvent;
      Pub (s2b "event.test.model.delete") (PJson JNull) CEvent;
      Pub (s2b "event.test.model.patch") (PRaw []) CEvent;
      Pub (s2b "conn..token") (PJson (JObj [(k_token, JNull)])) CEvent;
      Pub (s2b "conn.a b.token") (PJson (JObj [(k_token, JNull)])) CEvent;
      Pub (s2b "system.reset") (PJson (JObj [(k_resources, JStr (s2b "a"))])) CEvent;
      Pub (s2b "system.tokenReset") (PJson (JObj [(k_tids, JArr [])])) CEvent;
      Pub (s2b "other.subject") (PRaw []) CEvent;
      Pub rp (PJson (JObj [(k_result, JObj [(k_events, JArr [JObj [(k_event, JStr (s2b "custom")); (k_data, JNull)]])])])) (CQueryReply rp)
    ] = repeat false 19.
Proof. vm_compute. reflexivity. Qed.

(* both setters really panic on a non-HTTP request, and a script using them gets an internalError without meta *)
Example meta_nonvacuous :
  run_request error_json w_cfg w_req (DRun [ASetStatus 404%Z; AReply (KOK HNil)]) =
    [reply_pub w_req (PJson (error_json (Some (internal_err (s2b "call to SetResponseStatus when IsHTTP is false"))) None))] /\
  existsb has_meta (run_request error_json w_cfg w_req (DRun [ASetStatus 404%Z; AReply (KOK HNil)])) = false /\
  existsb has_meta (run_request error_json w_cfg ex_http (DRun [ASetStatus 404%Z; AReply (KOK HNil)])) = true.
Proof. vm_compute. repeat split. Qed.
