(* C09 - subscriptions cover exactly the owned resources; system.reset announces them.
   Only statements; every proof is `exact <lemma of Subs/Proofs*.v>`.

   Reading of the property.  A configuration [c] is the service name, the two lists given to
   SetOwnedResources (None = nil), which handler kinds are registered, and the queue group.
   [cfg_ok c]: the name is empty or consists of literal tokens (what NewService accepts, see
   [valid_path_name_ok]); every entry of an explicit ownership list is a valid NATS wildcard subject
   in which '*' and '>' are whole tokens, '>' is last, and no token starts with '$' (ownership
   patterns use the wildcards * and > only; a "$tag" token would be a placeholder for Pattern.Matches
   but a literal for NATS).  [owned_res c]/[owned_acc c] are the lists after defaulting,
   [subscriptions c] the subjects subscribe() subscribes to, [reset_nth c _ n] the payload of the
   ResetAll sent on start (n = 0) and of every later ResetAll / reconnect. *)
From Coq Require Import String.
From GoRes Require Import Pattern.Spec Subs.Spec.
From GoRes Require Import Subs.Proofs Subs.ProofsSem Subs.ProofsOnce Subs.ProofsDefault.
Open Scope N_scope.

(* every request subject for a resource name under an owned pattern reaches some subscription:
   get.<name>, call.<name>.<method>, auth.<name>.<method> for the owned resources, access.<name> for
   the owned access patterns *)
Theorem coverage : forall c, cfg_ok c = true ->
  (forall p name, In p (owned_res c) -> nats_concrete name = true -> nats_match p name = true ->
     (exists sub, In sub (subscriptions c) /\ nats_match sub (subj_plain t_get name) = true) /\
     (forall t m, t = t_call \/ t = t_auth -> method_ok m = true ->
        exists sub, In sub (subscriptions c) /\ nats_match sub (subj_method t name m) = true)) /\
  (forall p name, In p (owned_acc c) -> nats_concrete name = true -> nats_match p name = true ->
     exists sub, In sub (subscriptions c) /\ nats_match sub (subj_plain t_access name) = true).
Proof. exact coverage_pf. Qed.

(* a resource name matches an ownership pattern in the RES sense (Pattern.Matches) exactly when it
   does in the NATS sense *)
Theorem matches_nats_match : forall p name, owned_pattern_ok p = true -> nats_concrete name = true ->
  matches p name = nats_match p name.
Proof. exact matches_nats_match_pf. Qed.

(* no subscription is covered by another one (in particular no subject is subscribed twice) *)
Theorem nonredundant : forall c, cfg_ok c = true ->
  forall i j a b, nth_error (subscriptions c) i = Some a -> nth_error (subscriptions c) j = Some b -> i <> j ->
  nats_covers b a = false.
Proof. exact nonredundant_pf. Qed.

(* the covering test means what it should: sound and complete for concrete subjects *)
Theorem nats_covers_sound : forall a b s, nats_covers a b = true -> nats_match b s = true -> nats_match a s = true.
Proof. exact nats_covers_sound_pf. Qed.
Theorem nats_covers_complete : forall a b, nats_valid_subject a = true -> nats_valid_subject b = true ->
  nats_covers a b = false ->
  exists s, nats_concrete s = true /\ nats_match b s = true /\ nats_match a s = false.
Proof. exact nats_covers_complete_pf. Qed.

(* hence: each subscription receives some subject that any given other subscription does not *)
Theorem nonredundant_semantic : forall c, cfg_ok c = true ->
  forall i j a b, nth_error (subscriptions c) i = Some a -> nth_error (subscriptions c) j = Some b -> i <> j ->
  exists s, nats_concrete s = true /\ nats_match a s = true /\ nats_match b s = false.
Proof. exact nonredundant_semantic_pf. Qed.

(* delivery counts: a subject matched by k >= 1 entries of the (pre-elimination) pattern list is
   delivered on at least one and at most k subscriptions; exactly once when k = 1 *)
Theorem delivered_bounds : forall c s, cfg_ok c = true -> (1 <= match_count s (all_patterns c))%nat ->
  (1 <= match_count s (subscriptions c) <= match_count s (all_patterns c))%nat.
Proof. exact delivered_bounds_pf. Qed.
Theorem delivered_once : forall c s, cfg_ok c = true -> match_count s (all_patterns c) = 1%nat ->
  match_count s (subscriptions c) = 1%nat.
Proof. exact delivered_once_pf. Qed.
(* a get / access request for a name that falls under exactly one entry of the owned list is
   delivered exactly once (for call / auth see delivered_once_method_refuted below) *)
Theorem delivered_once_plain : forall c name, cfg_ok c = true ->
  (match_count name (owned_res c) = 1%nat -> match_count (subj_plain t_get name) (subscriptions c) = 1%nat) /\
  (match_count name (owned_acc c) = 1%nat -> match_count (subj_plain t_access name) (subscriptions c) = 1%nat).
Proof. exact delivered_once_plain_pf. Qed.

(* every subscribed subject is a valid NATS subject, for every service name including "" *)
Theorem subjects_valid : forall c, cfg_ok c = true ->
  forall s, In s (subscriptions c) -> nats_valid_subject s = true.
Proof. exact subjects_valid_pf. Qed.

(* the system.reset sent on start (n = 0) and on every later ResetAll / reconnect lists exactly the
   owned patterns; a list is omitted exactly when empty; nothing is sent exactly when both are empty *)
Theorem reset_exact : forall c n,
  match reset_nth c (served_ownership c) n with
  | None => owned_res c = [] /\ owned_acc c = []
  | Some p => payload_lists p = (owned_res c, owned_acc c) /\ fst p <> Some [] /\ snd p <> Some [] /\
              ~ (owned_res c = [] /\ owned_acc c = [])
  end.
Proof. exact reset_exact_pf. Qed.
(* a reconnect of the serving service publishes that same system.reset (reset_event of the owned lists,
   see reset_exact) and then calls the OnReconnect callback; a disconnect only calls OnDisconnect; a
   service that is not started refuses the reset, publishes nothing and still calls the callback *)
Theorem reconnect_exact : forall c,
  handle_reconnect c (Some (served_ownership c)) =
    (match reset_event (owned_res c) (owned_acc c) with Some p => [EReset p] | None => [] end) ++ [EOnReconnect] /\
  handle_disconnect = [EOnDisconnect] /\
  handle_reconnect c None = [ERefused; EOnReconnect].
Proof. exact reconnect_exact_pf. Qed.
Theorem no_resources : forall c, subscribe c = NoResources <-> (owned_res c = [] /\ owned_acc c = []).
Proof. exact no_resources_pf. Qed.

(* defaults: per handler kind actually registered; explicit lists are kept ... *)
Theorem default_lists : forall c,
  (c_res c = None -> owned_res c = if c_has_res c then default_ownership (c_name c) else []) /\
  (c_acc c = None -> owned_acc c = if c_has_acc c then default_ownership (c_name c) else []) /\
  (forall l, c_res c = Some l -> owned_res c = l) /\ (forall l, c_acc c = Some l -> owned_acc c = l).
Proof. exact default_lists_pf. Qed.
(* ... and the default owns the service name and everything below it, everything when the name is empty *)
Theorem default_spec : forall name r, name_ok name = true ->
  existsb (fun p => nats_match p r) (default_ownership name) = is_nil name || is_prefix (tokens name) (tokens r).
Proof. exact default_spec_pf. Qed.
(* names accepted by NewService (mux.go isValidPath) satisfy name_ok *)
Theorem valid_path_name_ok : forall name, is_valid_path name = true -> name_ok name = true.
Proof. exact valid_path_name_ok_pf. Qed.

(* handler layouts.  [cfg_layout name res acc l q] is the configuration of a service whose mux tree
   holds the registrations l (one entry per Handle call: nested below other handlers, on placeholder
   or wildcard patterns, inside mounted muxes, on the root pattern ""); the hypothesis relating the
   layout to c_has_res / c_has_acc is exactly "SOME registered handler has a method of the kind": *)
Theorem layout_kinds : forall name res acc l q,
  (c_has_res (cfg_layout name res acc l q) = true <-> exists h, In h l /\ h_res h = true) /\
  (c_has_acc (cfg_layout name res acc l q) = true <-> exists h, In h l /\ h_acc h = true).
Proof. exact layout_kinds_pf. Qed.
Theorem default_layout : forall name l q,
  owned_res (cfg_layout name None None l q) = (if existsb h_res l then default_ownership name else []) /\
  owned_acc (cfg_layout name None None l q) = (if existsb h_acc l then default_ownership name else []) /\
  reset_payload (cfg_layout name None None l q) =
    reset_event (if existsb h_res l then default_ownership name else [])
                (if existsb h_acc l then default_ownership name else []).
Proof. exact default_layout_pf. Qed.
(* with the default ownership: as soon as some registered handler, wherever it sits, has a method of a
   kind, every request of that kind for the service name or anything below it reaches a subscription
   (coverage, nonredundant, subjects_valid and reset_exact above hold for every configuration, so in
   particular for every layout) *)
Theorem default_layout_coverage : forall name l q r, name_ok name = true -> nats_concrete r = true ->
  is_nil name || is_prefix (tokens name) (tokens r) = true ->
  ((exists h, In h l /\ h_res h = true) ->
     (exists sub, In sub (subscriptions (cfg_layout name None None l q)) /\ nats_match sub (subj_plain t_get r) = true) /\
     (forall t m, t = t_call \/ t = t_auth -> method_ok m = true ->
        exists sub, In sub (subscriptions (cfg_layout name None None l q)) /\ nats_match sub (subj_method t r m) = true)) /\
  ((exists h, In h l /\ h_acc h = true) ->
     exists sub, In sub (subscriptions (cfg_layout name None None l q)) /\ nats_match sub (subj_plain t_access r) = true).
Proof. exact default_layout_coverage_pf. Qed.

(* EXACTLY once under the default ownership: as soon as some registered handler has a method of a kind,
   every request of that kind for the service name or anything below it (anything at all for the
   empty name) is matched by exactly one subscription - in particular a call / auth on the service's
   own name is delivered once although both call.<name>.* and call.<name>.> are in the pattern list *)
Theorem default_layout_delivered_once : forall name l q r, name_ok name = true -> nats_concrete r = true ->
  is_nil name || is_prefix (tokens name) (tokens r) = true ->
  ((exists h, In h l /\ h_res h = true) ->
     match_count (subj_plain t_get r) (subscriptions (cfg_layout name None None l q)) = 1%nat /\
     (forall t m, t = t_call \/ t = t_auth -> method_ok m = true ->
        match_count (subj_method t r m) (subscriptions (cfg_layout name None None l q)) = 1%nat)) /\
  ((exists h, In h l /\ h_acc h = true) ->
     match_count (subj_plain t_access r) (subscriptions (cfg_layout name None None l q)) = 1%nat).
Proof. exact default_layout_delivered_once_pf. Qed.
(* and conversely: a named service with the default ownership receives no request for a resource that
   is neither its name nor below it, whatever handlers are registered *)
Theorem default_layout_outside : forall name l q r, name_ok name = true -> is_nil name = false ->
  is_prefix (tokens name) (tokens r) = false ->
  match_count (subj_plain t_get r) (subscriptions (cfg_layout name None None l q)) = 0%nat /\
  match_count (subj_plain t_access r) (subscriptions (cfg_layout name None None l q)) = 0%nat /\
  (forall t m, t = t_call \/ t = t_auth -> method_ok m = true ->
     match_count (subj_method t r m) (subscriptions (cfg_layout name None None l q)) = 0%nat).
Proof. exact default_layout_outside_pf. Qed.

(* the subscribed subjects do not depend on the queue group; every call carries the configured one *)
Theorem queue_group_irrelevant : forall c q,
  map fst (subscribe_calls (with_queue c q)) = subscriptions c /\
  forall x, In x (subscribe_calls (with_queue c q)) -> snd x = q.
Proof. exact queue_group_irrelevant_pf. Qed.

(* the code before the fixes: duplicated entries ["t.>","t.>"] eliminated each other (no subscription
   receives get.t.x); the empty service name subscribed to the invalid subject "get." *)
Theorem coverage_v0_refuted : exists c p name,
  cfg_ok c = true /\ In p (owned_res c) /\ nats_concrete name = true /\ nats_match p name = true /\
  existsb (fun sub => nats_match sub (subj_plain t_get name)) (subscriptions_v0 c) = false.
Proof. exact coverage_v0_refuted_pf. Qed.
Theorem subjects_valid_v0_refuted : exists c s,
  cfg_ok c = true /\ In s (subscriptions_v0 c) /\ nats_valid_subject s = false.
Proof. exact subjects_valid_v0_refuted_pf. Qed.

(* "under a single owned pattern => delivered once" does NOT extend to call / auth: the owned resources
   a.* and a.b.> have no resource name in common, a.b is matched by a.* only and get.a.b is delivered
   once, yet call.a.b.m (resource a.b, method m) is matched by the two pattern-list entries call.a.*.*
   and call.a.b.> , neither of which covers the other, hence by two subscriptions (inherent to the
   subject scheme call.<resource>.<method>; delivered_once above is the form that holds) *)
Theorem delivered_once_method_refuted : exists c name m,
  cfg_ok c = true /\ nats_concrete name = true /\ method_ok m = true /\
  (forall n p q, nth_error (owned_res c) 0 = Some p -> nth_error (owned_res c) 1 = Some q ->
     nats_match p n = true -> nats_match q n = true -> False) /\
  length (owned_res c) = 2%nat /\
  match_count name (owned_res c) = 1%nat /\
  match_count (subj_plain t_get name) (subscriptions c) = 1%nat /\
  match_count (subj_method t_call name m) (all_patterns c) = 2%nat /\
  match_count (subj_method t_call name m) (subscriptions c) = 2%nat.
Proof. exact delivered_once_method_refuted_pf. Qed.

(* ---- non-vacuity and worked instances ---- *)
(* overlapping, nested, duplicated and wildcarded entries, empty service name *)
Example nonvacuous_overlap :
  let c := Cfg [] (Some [s2b "a.>"; s2b "a.b"; s2b "a.b"; s2b "*.b"; s2b "b.*"]) (Some [s2b ">"; s2b "a"]) true true (s2b "q") in
  cfg_ok c = true /\
  subscriptions c = [s2b "get.a.>"; s2b "get.*.b"; s2b "get.b.*"; s2b "call.a.>"; s2b "call.*.b.*"; s2b "call.b.*.*";
                     s2b "auth.a.>"; s2b "auth.*.b.*"; s2b "auth.b.*.*"; s2b "access.>"] /\
  reset_payload c = Some (Some [s2b "a.>"; s2b "a.b"; s2b "a.b"; s2b "*.b"; s2b "b.*"], Some [s2b ">"; s2b "a"]).
Proof. vm_compute. repeat split. Qed.
(* defaults *)
Example nonvacuous_default :
  cfg_ok (Cfg (s2b "svc") None None true false (s2b "svc")) = true /\
  subscriptions (Cfg (s2b "svc") None None true false (s2b "svc")) =
    [s2b "get.svc"; s2b "get.svc.>"; s2b "call.svc.>"; s2b "auth.svc.>"] /\
  reset_payload (Cfg (s2b "svc") None None true false (s2b "svc")) = Some (Some [s2b "svc"; s2b "svc.>"], None) /\
  subscriptions (Cfg [] None None true true []) = [s2b "get.>"; s2b "call.>"; s2b "auth.>"; s2b "access.>"] /\
  subscribe (Cfg (s2b "svc") None None false false []) = NoResources.
Proof. vm_compute. repeat split. Qed.
(* the hypotheses of coverage are met by a wildcard pattern and a method request *)
Example nonvacuous_coverage :
  let c := Cfg (s2b "svc") (Some [s2b "lib.*.book"; s2b "lib.>"]) None true false [] in
  cfg_ok c = true /\ In (s2b "lib.*.book") (owned_res c) /\ nats_concrete (s2b "lib.x.book") = true /\
  nats_match (s2b "lib.*.book") (s2b "lib.x.book") = true /\ method_ok (s2b "set") = true /\
  match_count (subj_method t_call (s2b "lib.x.book") (s2b "set")) (subscriptions c) = 1%nat.
Proof. vm_compute. repeat split. left. reflexivity. Qed.
(* the only Access handler sits below another handler's pattern *)
Example nonvacuous_layout :
  let l := [HReg (s2b "users") true false; HReg (s2b "users.$id") true true] in
  let c := cfg_layout (s2b "svc") None None l (s2b "svc") in
  cfg_ok c = true /\ c_has_acc c = true /\
  subscriptions c = [s2b "get.svc"; s2b "get.svc.>"; s2b "call.svc.>"; s2b "auth.svc.>"; s2b "access.svc"; s2b "access.svc.>"] /\
  reset_payload c = Some (Some [s2b "svc"; s2b "svc.>"], Some [s2b "svc"; s2b "svc.>"]).
Proof. vm_compute. repeat split. Qed.
(* a root handler and a nested one; the service's own name and a name two levels below it *)
Example nonvacuous_default_once :
  let l := [HReg [] true false; HReg (s2b "a.$id") false true] in
  let c := cfg_layout (s2b "svc") None None l (s2b "svc") in
  name_ok (s2b "svc") = true /\ nats_concrete (s2b "svc") = true /\ nats_concrete (s2b "svc.a.b") = true /\
  method_ok (s2b "m") = true /\
  is_prefix (tokens (s2b "svc")) (tokens (s2b "svc")) = true /\
  is_prefix (tokens (s2b "svc")) (tokens (s2b "svc.a.b")) = true /\
  map (fun s => match_count s (subscriptions c))
      [subj_plain t_get (s2b "svc"); subj_method t_call (s2b "svc") (s2b "m"); subj_method t_auth (s2b "svc") (s2b "m");
       subj_plain t_access (s2b "svc"); subj_plain t_get (s2b "svc.a.b"); subj_method t_call (s2b "svc.a.b") (s2b "m");
       subj_method t_auth (s2b "svc.a.b") (s2b "m"); subj_plain t_access (s2b "svc.a.b")] = [1; 1; 1; 1; 1; 1; 1; 1]%nat /\
  match_count (subj_method t_call (s2b "svc") (s2b "m")) (all_patterns c) = 2%nat /\
  map (fun s => match_count s (subscriptions c))
      [subj_plain t_get (s2b "svcx"); subj_method t_call (s2b "other.svc") (s2b "m"); subj_plain t_access (s2b "sv")] = [0; 0; 0]%nat.
Proof. vm_compute. repeat split. Qed.
