(* Composition of the subscription engine (Subs/, C09) with the request engine (Req/, C04).
   A NATS connection hands a message to the service once per matching subscription, so a request with
   subject s is handed over [deliveries c s] times; every hand-over is one runWith callback handling the
   request (C04).  Under the default ownership a request for the service name or below is handed over
   exactly once - hence answered exactly once - and a request outside is never handed over. *)
From GoRes Require Import Req.Spec Req.Proofs.
From GoRes Require Import Pattern.Spec Subs.Spec Subs.ProofsDefault.
From Coq Require Import Lia.
Local Open Scope N_scope.

(* number of subscriptions of configuration c that the subject s matches = number of hand-overs *)
Definition deliveries (c : Subs.Model.config) (s : bytes) : nat := match_count s (subscriptions c).

(* the hand-overs of request m, and everything published by handling a list of hand-overs *)
Definition handed (c : Subs.Model.config) (m : msg) : list msg := repeat m (deliveries c (ms_subj m)).
Definition all_pubs (cfg : Req.Model.config) (ms : list msg) : list pubmsg :=
  concat (map (fun m => Req.Model.pubs (snd (handle_request cfg m))) ms).

(* ---------- C09, restated for hand-overs ---------- *)
Lemma default_request_delivered_once_pf : forall name l q r, name_ok name = true -> nats_concrete r = true ->
  is_nil name || is_prefix (tokens name) (tokens r) = true ->
  ((exists h, In h l /\ h_res h = true) ->
     deliveries (cfg_layout name None None l q) (subj_plain Subs.Model.t_get r) = 1%nat /\
     (forall t m, t = Subs.Model.t_call \/ t = Subs.Model.t_auth -> method_ok m = true ->
        deliveries (cfg_layout name None None l q) (subj_method t r m) = 1%nat)) /\
  ((exists h, In h l /\ h_acc h = true) ->
     deliveries (cfg_layout name None None l q) (subj_plain Subs.Model.t_access r) = 1%nat).
Proof. exact default_layout_delivered_once_pf. Qed.

Lemma default_request_outside_pf : forall name l q r, name_ok name = true -> is_nil name = false ->
  is_prefix (tokens name) (tokens r) = false ->
  deliveries (cfg_layout name None None l q) (subj_plain Subs.Model.t_get r) = 0%nat /\
  deliveries (cfg_layout name None None l q) (subj_plain Subs.Model.t_access r) = 0%nat /\
  (forall t m, t = Subs.Model.t_call \/ t = Subs.Model.t_auth -> method_ok m = true ->
     deliveries (cfg_layout name None None l q) (subj_method t r m) = 0%nat).
Proof. exact default_layout_outside_pf. Qed.

(* ---------- n hand-overs, each answered once, give n responses ---------- *)
Lemma all_pubs_repeat_cnt : forall cfg m R n,
  cnt R (all_pubs cfg (repeat m n)) = (n * cnt R (Req.Model.pubs (snd (handle_request cfg m))))%nat.
Proof.
  intros cfg m R n. induction n as [|n IH]; [reflexivity|].
  unfold all_pubs in *. cbn [repeat map concat]. rewrite cnt_app, IH. lia.
Qed.

(* the hand-overs processed by one worker one after the other (C04.sequence_unaffected) publish [all_pubs] *)
Lemma all_pubs_worker_pf : forall cfg ms,
  fst (handle_requests cfg ms) = Done /\
  all_pubs cfg ms = concat (map Req.Model.pubs (snd (handle_requests cfg ms))).
Proof.
  intros cfg ms. rewrite sequence_unaffected_pf. cbn [fst snd]. split; [reflexivity|].
  unfold all_pubs. rewrite map_map. reflexivity.
Qed.

(* hypotheses = those of C04.exactly_one_response, for the request m *)
Lemma responses_of_handed_pf : forall cfg c m rt rn me,
  ms_reply m <> [] -> inbox_like (ms_reply m) = true ->
  split_subject (ms_subj m) = Some (rt, rn, me) ->
  length (responses (ms_reply m) (all_pubs cfg (handed c m))) =
  (deliveries c (ms_subj m) * (if silent cfg m rt rn then 0 else 1))%nat.
Proof.
  intros cfg c m rt rn me HR HI HS. unfold handed.
  fold (cnt (ms_reply m) (all_pubs cfg (repeat m (deliveries c (ms_subj m))))).
  rewrite all_pubs_repeat_cnt. unfold cnt.
  rewrite (exactly_one_response_pf cfg m rt rn me HR HI HS). reflexivity.
Qed.

(* exactly one response iff handed over exactly once (request not one of the deliberately unanswered) *)
Lemma one_response_iff_delivered_once_pf : forall cfg c m rt rn me,
  ms_reply m <> [] -> inbox_like (ms_reply m) = true ->
  split_subject (ms_subj m) = Some (rt, rn, me) -> silent cfg m rt rn = false ->
  (length (responses (ms_reply m) (all_pubs cfg (handed c m))) = 1%nat <-> deliveries c (ms_subj m) = 1%nat).
Proof.
  intros cfg c m rt rn me HR HI HS Hsil.
  rewrite (responses_of_handed_pf cfg c m rt rn me HR HI HS), Hsil. lia.
Qed.

(* ---------- default ownership: answered exactly once / never handed over ---------- *)
Definition request_subject (r : bytes) (s : bytes) : Prop :=
  s = subj_plain Subs.Model.t_get r \/
  (exists t me, (t = Subs.Model.t_call \/ t = Subs.Model.t_auth) /\ method_ok me = true /\ s = subj_method t r me).

Lemma default_request_answered_once_pf : forall cfg name l q r m rt rn me,
  name_ok name = true -> nats_concrete r = true ->
  is_nil name || is_prefix (tokens name) (tokens r) = true ->
  (exists h, In h l /\ h_res h = true) -> request_subject r (ms_subj m) ->
  ms_reply m <> [] -> inbox_like (ms_reply m) = true ->
  split_subject (ms_subj m) = Some (rt, rn, me) -> silent cfg m rt rn = false ->
  handed (cfg_layout name None None l q) m = [m] /\
  length (responses (ms_reply m) (all_pubs cfg (handed (cfg_layout name None None l q) m))) = 1%nat.
Proof.
  intros cfg name l q r m rt rn me N C P Hh Hsub HR HI HS Hsil.
  destruct (default_request_delivered_once_pf name l q r N C P) as [Hres _].
  destruct (Hres Hh) as [Hget Hmeth].
  assert (Hd : deliveries (cfg_layout name None None l q) (ms_subj m) = 1%nat).
  { destruct Hsub as [->|(t & me' & Ht & Hm & ->)]; [exact Hget|exact (Hmeth t me' Ht Hm)]. }
  split.
  - unfold handed. rewrite Hd. reflexivity.
  - apply (one_response_iff_delivered_once_pf cfg _ m rt rn me HR HI HS Hsil). exact Hd.
Qed.

Lemma default_access_answered_once_pf : forall cfg name l q r m rt rn me,
  name_ok name = true -> nats_concrete r = true ->
  is_nil name || is_prefix (tokens name) (tokens r) = true ->
  (exists h, In h l /\ h_acc h = true) -> ms_subj m = subj_plain Subs.Model.t_access r ->
  ms_reply m <> [] -> inbox_like (ms_reply m) = true ->
  split_subject (ms_subj m) = Some (rt, rn, me) -> silent cfg m rt rn = false ->
  handed (cfg_layout name None None l q) m = [m] /\
  length (responses (ms_reply m) (all_pubs cfg (handed (cfg_layout name None None l q) m))) = 1%nat.
Proof.
  intros cfg name l q r m rt rn me N C P Hh Hsub HR HI HS Hsil.
  destruct (default_request_delivered_once_pf name l q r N C P) as [_ Hacc].
  assert (Hd : deliveries (cfg_layout name None None l q) (ms_subj m) = 1%nat).
  { rewrite Hsub. exact (Hacc Hh). }
  split.
  - unfold handed. rewrite Hd. reflexivity.
  - apply (one_response_iff_delivered_once_pf cfg _ m rt rn me HR HI HS Hsil). exact Hd.
Qed.

Lemma outside_request_not_handed_pf : forall cfg name l q r m,
  name_ok name = true -> is_nil name = false -> is_prefix (tokens name) (tokens r) = false ->
  (request_subject r (ms_subj m) \/ ms_subj m = subj_plain Subs.Model.t_access r) ->
  handed (cfg_layout name None None l q) m = [] /\
  all_pubs cfg (handed (cfg_layout name None None l q) m) = [].
Proof.
  intros cfg name l q r m N NE OUT Hsub.
  destruct (default_request_outside_pf name l q r N NE OUT) as (Hget & Hacc & Hmeth).
  assert (Hd : deliveries (cfg_layout name None None l q) (ms_subj m) = 0%nat).
  { destruct Hsub as [[->|(t & me' & Ht & Hm & ->)]| ->]; [exact Hget|exact (Hmeth t me' Ht Hm)|exact Hacc]. }
  unfold handed. rewrite Hd. split; reflexivity.
Qed.

(* ---------- non-vacuity ---------- *)
Definition dx_name : bytes := [116; 101; 115; 116].                                   (* "test" *)
Definition dx_res : bytes := [116; 101; 115; 116; 46; 109].                           (* "test.m" *)
Definition dx_layout : layout := [HReg [109] true true].                              (* handler "m": resource + access *)
Definition dx_inbox : bytes := [95; 73; 78; 66; 79; 88; 46; 49].                      (* "_INBOX.1" *)
Definition dx_msg : msg := Msg (subj_method Subs.Model.t_call dx_res [103; 111]) dx_inbox InEmpty.   (* call.test.m.go *)
Definition dx_out : msg := Msg (subj_plain Subs.Model.t_get [111; 116; 104; 101; 114]) dx_inbox InEmpty. (* get.other *)
Definition dx_cfg : Req.Model.config := fun _ => None.

Lemma delivery_nonvacuous_pf :
  name_ok dx_name = true /\ nats_concrete dx_res = true /\
  is_nil dx_name || is_prefix (tokens dx_name) (tokens dx_res) = true /\
  method_ok [103; 111] = true /\ inbox_like dx_inbox = true /\
  split_subject (ms_subj dx_msg) = Some (Req.Model.t_call, dx_res, [103; 111]) /\
  silent dx_cfg dx_msg Req.Model.t_call dx_res = false /\
  length (subscriptions (cfg_layout dx_name None None dx_layout [])) = 6%nat /\
  deliveries (cfg_layout dx_name None None dx_layout []) (ms_subj dx_msg) = 1%nat /\
  length (responses dx_inbox (all_pubs dx_cfg (handed (cfg_layout dx_name None None dx_layout []) dx_msg))) = 1%nat /\
  is_prefix (tokens dx_name) (tokens [111; 116; 104; 101; 114]) = false /\
  deliveries (cfg_layout dx_name None None dx_layout []) (ms_subj dx_out) = 0%nat.
Proof. vm_compute. repeat split. Qed.

(* vocabulary for Props/Compose.v (where [tokens] is also a field of the scheduler state) *)
Definition below (name r : bytes) : bool := is_nil name || is_prefix (tokens name) (tokens r).
Definition outside (name r : bytes) : bool := negb (is_nil name) && negb (is_prefix (tokens name) (tokens r)).
Definition has_res (l : layout) : Prop := exists h, In h l /\ h_res h = true.
Definition has_acc (l : layout) : Prop := exists h, In h l /\ h_acc h = true.
Definition default_cfg (name : bytes) (l : layout) (q : bytes) : Subs.Model.config := cfg_layout name None None l q.

Lemma outside_inv name r : outside name r = true ->
  is_nil name = false /\ is_prefix (tokens name) (tokens r) = false.
Proof.
  unfold outside. intros H. apply andb_prop in H as [H1 H2].
  split; [destruct (is_nil name)|destruct (is_prefix _ _)]; auto; discriminate.
Qed.

Lemma outside_request_not_handed'_pf : forall cfg name l q r m,
  name_ok name = true -> outside name r = true ->
  (request_subject r (ms_subj m) \/ ms_subj m = subj_plain Subs.Model.t_access r) ->
  handed (default_cfg name l q) m = [] /\ all_pubs cfg (handed (default_cfg name l q) m) = [].
Proof.
  intros cfg name l q r m N O Hs. destruct (outside_inv _ _ O) as [NE OUT].
  exact (outside_request_not_handed_pf cfg name l q r m N NE OUT Hs).
Qed.
