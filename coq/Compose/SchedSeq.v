(* Composition, part 1: what a trace of the scheduler LTS says about one worker group.
   The LStart / LEnd labels of a group g <> 0 alternate strictly (no two executions of g overlap), the
   started callbacks are those of the ghost history [gstart] (so C02 applies to the labels of the trace). *)
From stdpp Require Import gmap.
From Coq Require Import NArith Lia.
From GoRes Require Import Sched.Model Sched.Spec Sched.Inv Sched.Proofs_C01 Sched.Lemmas_Ghost
  Sched.Lemmas_AMO Sched.Shut_Base Sched.AccessLTS Sched.HB_Trace Sched.HB_Init Sched.Proofs_C02
  Sched.Proofs_C16 Compose.Defs.

(* ---------- runs, by the last label ---------- *)
Lemma run_snoc s tr l s' :
  run s (tr ++ [l]) = Some s' <-> exists s1, run s tr = Some s1 /\ step s1 l = Some s'.
Proof.
  rewrite run_app. destruct (run s tr) as [s1|].
  - unfold run, step. simpl. split.
    + intros H. exists s1. split; [done|]. destruct (step_gen true s1 l); done.
    + intros (s2 & Heq & H). inversion Heq; subst. rewrite H. done.
  - split; [done|]. intros (s1 & ? & _). done.
Qed.

Lemma run_ind (P : list label -> st -> Prop) :
  P [] init ->
  (forall tr s l s', run init tr = Some s -> P tr s -> step s l = Some s' -> P (tr ++ [l]) s') ->
  forall tr s, run init tr = Some s -> P tr s.
Proof.
  intros H0 Hs tr. induction tr as [|l tr IH] using rev_ind; intros s Hr.
  - inversion Hr; subst. done.
  - apply run_snoc in Hr as (s1 & Hr1 & Hst). eauto.
Qed.

(* ---------- the event of the last label, from the state before it ---------- *)
Definition ev_of (s : st) (l : label) (g : N) : option gev :=
  match l with
  | LStart k c => match wgroup s k with
                  | Some g' => if N.eqb g' g then Some (GStart c) else None
                  | None => None end
  | LEnd k c => match wgroup s k with
                | Some g' => if N.eqb g' g then Some (GEnd c) else None
                | None => None end
  | _ => None
  end.

Lemma omap_ext_in {A B} (f h : A -> option B) (l : list A) :
  (forall x, x ∈ l -> f x = h x) -> omap f l = omap h l.
Proof.
  induction l as [|a l IH]; intros H; [done|]. csimpl.
  rewrite (H a) by (by left). rewrite IH; [done|]. intros x Hx. apply H. by right.
Qed.

Lemma lgroup_app_l tr tr2 i : i < length tr -> lgroup (tr ++ tr2) i = lgroup tr i.
Proof. intros Hi. unfold lgroup. rewrite take_app_le by lia. rewrite lookup_app_l by done. done. Qed.
Lemma lenq_app_l tr tr2 i : i < length tr -> lenq (tr ++ tr2) i = lenq tr i.
Proof. intros Hi. unfold lenq. rewrite take_app_le by lia. rewrite lookup_app_l by done. done. Qed.
Lemma gev_at_app_l tr tr2 g i : i < length tr -> gev_at (tr ++ tr2) g i = gev_at tr g i.
Proof. intros Hi. unfold gev_at. rewrite lgroup_app_l by done. rewrite lookup_app_l by done. done. Qed.
Lemma accepted_at_app_l tr tr2 g i : i < length tr -> accepted_at (tr ++ tr2) g i = accepted_at tr g i.
Proof. intros Hi. unfold accepted_at. rewrite lenq_app_l by done. done. Qed.

Lemma group_events_app tr tr2 g :
  group_events (tr ++ tr2) g =
  group_events tr g ++ omap (gev_at (tr ++ tr2) g) (seq (length tr) (length tr2)).
Proof.
  unfold group_events. rewrite app_length, seq_app, omap_app. f_equal.
  apply omap_ext_in. intros i Hi. apply elem_of_seq in Hi. apply gev_at_app_l. lia.
Qed.
Lemma accepted_cbs_app tr tr2 g :
  accepted_cbs (tr ++ tr2) g =
  accepted_cbs tr g ++ omap (accepted_at (tr ++ tr2) g) (seq (length tr) (length tr2)).
Proof.
  unfold accepted_cbs. rewrite app_length, seq_app, omap_app. f_equal.
  apply omap_ext_in. intros i Hi. apply elem_of_seq in Hi. apply accepted_at_app_l. lia.
Qed.

Lemma gev_at_last tr s l g : run init tr = Some s -> gev_at (tr ++ [l]) g (length tr) = ev_of s l g.
Proof.
  intros Hr. unfold gev_at, lgroup. rewrite take_app, Hr.
  rewrite lookup_app_r by lia. rewrite Nat.sub_diag. simpl.
  unfold ev_of, wgroup. destruct l; done.
Qed.

Lemma group_events_snoc tr s l g : run init tr = Some s ->
  group_events (tr ++ [l]) g = group_events tr g ++ option_list (ev_of s l g).
Proof.
  intros Hr. rewrite group_events_app. simpl. rewrite (gev_at_last _ _ _ _ Hr).
  destruct (ev_of s l g); done.
Qed.

(* the callback accepted by the last label *)
Definition acc_of (s : st) (l : label) : option (N * N) :=
  match l with
  | LEnq p ENew | LEnq p EAppend =>
    match prods s !! p with Some (PChecked g c) => Some (g, c) | _ => None end
  | _ => None
  end.
Lemma lenq_last tr s l : run init tr = Some s -> lenq (tr ++ [l]) (length tr) = acc_of s l.
Proof.
  intros Hr. unfold lenq. rewrite take_app, Hr.
  rewrite lookup_app_r by lia. rewrite Nat.sub_diag. simpl. done.
Qed.
Lemma accepted_cbs_snoc tr s l g : run init tr = Some s ->
  accepted_cbs (tr ++ [l]) g =
  accepted_cbs tr g ++ match acc_of s l with
                       | Some (g', c) => if N.eqb g' g then [c] else []
                       | None => [] end.
Proof.
  intros Hr. rewrite accepted_cbs_app. simpl. unfold accepted_at. rewrite (lenq_last _ _ _ Hr).
  destruct (acc_of s l) as [[g' c]|]; [|done]. destruct (N.eqb g' g); done.
Qed.

(* ---------- group events of a prefix ---------- *)
Lemma group_events_prefix tr n g :
  exists rest, group_events tr g = group_events (take n tr) g ++ rest.
Proof.
  pose proof (group_events_app (take n tr) (drop n tr) g) as H. rewrite take_drop in H. eauto.
Qed.

(* ---------- the callback of group g executing in a state ---------- *)
Definition runs (s : st) (g : N) (k : nat) (c : N) : Prop :=
  exists w i, workers s !! k = Some (WRun w i c) /\ gid_of s w = Some g.
Definition open_rel (s : st) (g : N) (o : option N) : Prop :=
  match o with
  | Some c => exists k, runs s g k c
  | None => forall k c, ~ runs s g k c
  end.

Lemma runs_same s g k1 k2 c1 c2 :
  Inv s -> g <> 0%N -> runs s g k1 c1 -> runs s g k2 c2 -> k1 = k2 /\ c1 = c2.
Proof.
  intros HI Hg (w1 & i1 & H1 & G1) (w2 & i2 & H2 & G2).
  assert (k1 = k2) as ->.
  { eapply (same_group_same_worker s k1 k2 _ _ w1 w2 g); eauto. }
  split; [done|]. congruence.
Qed.

Lemma gid_of_set_workers s k p w : gid_of (set_workers s k p) w = gid_of s w.
Proof. done. Qed.

Lemma runs_set_workers s k p g k' c' : k < length (workers s) ->
  runs (set_workers s k p) g k' c' <->
  (k' = k /\ exists w i, p = WRun w i c' /\ gid_of s w = Some g) \/ (k' <> k /\ runs s g k' c').
Proof.
  intros Hlt. unfold runs. setoid_rewrite gid_of_set_workers. rewrite set_workers_workers.
  destruct (decide (k' = k)) as [->|Hne].
  - rewrite list_lookup_insert by done. split.
    + intros (w & i & [= ->] & Hg). left. eauto.
    + intros [(_ & w & i & -> & Hg)|[? _]]; [eauto|done].
  - rewrite list_lookup_insert_ne by done. split.
    + intros H. right. done.
    + intros [[? _]|[_ H]]; done.
Qed.

(* ---------- which labels move a worker into or out of WRun ---------- *)
Definition not_run (p : wpc) : Prop := forall w i c, p <> WRun w i c.

Lemma insert_not_run (wk : list wpc) k0 p p' k w i c :
  wk !! k0 = Some p -> not_run p -> not_run p' ->
  <[k0 := p']> wk !! k = Some (WRun w i c) <-> wk !! k = Some (WRun w i c).
Proof.
  intros Hk0 Hp Hp'. assert (k0 < length wk) by eauto using lookup_lt_Some.
  destruct (decide (k = k0)) as [->|Hne].
  - rewrite list_lookup_insert by done. rewrite Hk0. split; intros [= E]; exfalso.
    + by eapply Hp'.
    + by eapply Hp.
  - rewrite list_lookup_insert_ne by done. done.
Qed.

Lemma head_eval_not_run s k s1 r :
  head_eval s k = Some (s1, r) -> exists p', workers s1 = <[k := p']> (workers s) /\ not_run p'.
Proof.
  intros H. apply head_eval_inv in H as [(_ & -> & _)|[(_ & -> & _)|(w & q & W & c & _ & _ & _ & -> & _)]];
    eexists; (split; [reflexivity|]); intros ? ? ?; done.
Qed.

Lemma step_sect_workers s k rt r s' : step s (LSect k rt r) = Some s' ->
  exists p p', workers s !! k = Some p /\ workers s' = <[k := p']> (workers s) /\ not_run p /\ not_run p'.
Proof.
  intros Hs. apply step_sect_inv in Hs
    as [(p & Hk & Hp & _ & Hh)|[(w & i & W & c & Hk & _ & _ & _ & _ & ->)|(w & i & W & Hk & _ & _ & _ & Hh)]].
  - apply head_eval_not_run in Hh as (p' & Hw & Hn). exists p, p'. split_and!; [done..| |done].
    destruct Hp as [-> | ->]; intros ? ? ?; done.
  - exists (WPost w i), (WPre w i c). split_and!; [done|done| |]; intros ? ? ?; done.
  - apply head_eval_not_run in Hh as (p' & Hw & Hn). exists (WPost w i), p'.
    split_and!; [done|exact Hw| |done]. intros ? ? ?; done.
Qed.

Lemma step_WRun s l s' k w i c :
  step s l = Some s' -> is_exec l = false -> is_init l = false ->
  workers s' !! k = Some (WRun w i c) <-> workers s !! k = Some (WRun w i c).
Proof.
  intros Hs Hse Hin.
  destruct l as [p g0 c0 ok|p r|p|k0 rt r|k0|k0 c0|k0 c0|ok| | | | | | |ok|n| |p ok|p sent];
    try discriminate;
    try (apply step_workers in Hs; simpl in Hs; rewrite Hs; done).
  - apply step_sect_workers in Hs as (p & p' & Hk & -> & Hp & Hp'). eapply insert_not_run; eauto.
  - apply step_wake_inv in Hs as [Hk ->]. simpl.
    eapply insert_not_run; [exact Hk| |]; intros ? ? ?; done.
Qed.

(* ---------- one step and the executing callback of g ---------- *)
Lemma wgroup_WPre s k w i c : Inv s -> workers s !! k = Some (WPre w i c) ->
  exists g', gid_of s w = Some g' /\ wgroup s k = Some g'.
Proof.
  intros HI Hk. destruct (i_pc _ _ _ _ _ HI _ _ Hk) as (W & HW & _).
  exists (w_gid W). unfold wgroup, gid_of. rewrite Hk. simpl. rewrite HW. done.
Qed.
Lemma wgroup_WRun s k w i c : Inv s -> workers s !! k = Some (WRun w i c) ->
  exists g', gid_of s w = Some g' /\ wgroup s k = Some g'.
Proof.
  intros HI Hk. destruct (i_pc _ _ _ _ _ HI _ _ Hk) as (W & HW & _).
  exists (w_gid W). unfold wgroup, gid_of. rewrite Hk. simpl. rewrite HW. done.
Qed.

Definition otrans (e : option gev) (o o' : option N) : Prop :=
  (e = None /\ o' = o) \/
  (exists c, e = Some (GStart c) /\ o = None /\ o' = Some c) \/
  (exists c, e = Some (GEnd c) /\ o = Some c /\ o' = None).

Lemma open_rel_iff s s' g o :
  (forall k c, runs s' g k c <-> runs s g k c) -> open_rel s g o -> open_rel s' g o.
Proof.
  intros H. destruct o as [c|]; simpl.
  - intros [k Hk]. exists k. by apply H.
  - intros Hn k c Hk. apply (Hn k c). by apply H.
Qed.

Lemma runs_step_other s l s' g k c :
  Inv s -> step s l = Some s' -> is_exec l = false -> is_init l = false ->
  runs s' g k c <-> runs s g k c.
Proof.
  intros HI Hs Hse Hin. pose proof (Inv_step _ _ _ HI Hs) as HI'. unfold runs. split.
  - intros (w & i & Hk & Hgw). exists w, i.
    pose proof (proj1 (step_WRun _ _ _ k w i c Hs Hse Hin) Hk) as Hk0. split; [done|].
    rewrite <- Hgw. symmetry. apply (step_gid_of _ _ _ _ HI Hs).
    + eapply owned_works; [exact HI|exact Hk0|done].
    + eapply owned_works; [exact HI'|exact Hk|done].
  - intros (w & i & Hk0 & Hgw). exists w, i.
    pose proof (proj2 (step_WRun _ _ _ k w i c Hs Hse Hin) Hk0) as Hk. split; [done|].
    rewrite <- Hgw. apply (step_gid_of _ _ _ _ HI Hs).
    + eapply owned_works; [exact HI|exact Hk0|done].
    + eapply owned_works; [exact HI'|exact Hk|done].
Qed.

Lemma runs_step_init s n s' g k c :
  all_exited s = true -> step s (LServeInit n) = Some s' -> ~ runs s g k c /\ ~ runs s' g k c.
Proof.
  intros Hex Hs. split.
  - intros (w & i & Hk & _). apply (all_exited_lookup _ _ _ Hex) in Hk. done.
  - intros (w & i & Hk & _). apply (step_init_workers _ _ _ _ _ Hs) in Hk. done.
Qed.

Lemma open_step s l s' g o :
  Inv s -> (forall n, l = LServeInit n -> all_exited s = true) ->
  step s l = Some s' -> g <> 0%N -> open_rel s g o ->
  exists o', open_rel s' g o' /\ otrans (ev_of s l g) o o'.
Proof.
  intros HI Hex Hs Hg Ho.
  destruct (is_exec l) eqn:Hse.
  - destruct l as [ | | | | |k c|k c| | | | | | | | | | | | ]; try discriminate.
    + (* LStart *)
      apply step_start_inv in Hs as (w & i & Hk & ->).
      assert (Hlt : k < length (workers s)) by eauto using lookup_lt_Some.
      destruct (wgroup_WPre _ _ _ _ _ HI Hk) as (g' & Hgw & Hwg).
      unfold ev_of. rewrite Hwg. destruct (N.eqb_spec g' g) as [->|Hne].
      * assert (o = None) as ->.
        { destruct o as [c'|]; [|done]. exfalso. destruct Ho as (k' & w' & i' & Hk' & Hg').
          assert (k' = k).
          { eapply (same_group_same_worker s k' k _ _ w' w g); eauto. }
          subst k'. congruence. }
        exists (Some c). split.
        -- exists k. apply runs_set_workers; [done|]. left. split; [done|]. eauto.
        -- right; left. eauto.
      * exists o. split; [|left; done]. eapply open_rel_iff; [|exact Ho].
        intros k' c'. rewrite runs_set_workers by done. split.
        -- intros [(-> & w' & i' & [= -> -> ->] & Hg')|[_ H]]; [congruence|done].
        -- intros H. right. split; [|done]. intros ->. destruct H as (w' & i' & Hk' & _). congruence.
    + (* LEnd *)
      apply step_end_inv in Hs as (w & i & Hk & ->).
      assert (Hlt : k < length (workers s)) by eauto using lookup_lt_Some.
      destruct (wgroup_WRun _ _ _ _ _ HI Hk) as (g' & Hgw & Hwg).
      unfold ev_of. rewrite Hwg. destruct (N.eqb_spec g' g) as [->|Hne].
      * assert (Hrun : runs s g k c) by (exists w, i; done).
        assert (o = Some c) as ->.
        { destruct o as [c'|].
          - destruct Ho as (k' & Hk'). destruct (runs_same _ _ _ _ _ _ HI Hg Hk' Hrun) as [_ ->]. done.
          - exfalso. by eapply Ho. }
        exists None. split.
        -- intros k' c' H. apply runs_set_workers in H as [(_ & w' & i' & ? & _)|[Hne H]]; [done| |done].
           apply Hne. by destruct (runs_same _ _ _ _ _ _ HI Hg H Hrun).
        -- right; right. eauto.
      * exists o. split; [|left; done]. eapply open_rel_iff; [|exact Ho].
        intros k' c'. rewrite runs_set_workers by done. split.
        -- intros [(_ & w' & i' & ? & _)|[_ H]]; done.
        -- intros H. right. split; [|done]. intros ->. destruct H as (w' & i' & Hk' & Hg').
           rewrite Hk in Hk'. simplify_eq; congruence.
  - assert (He : ev_of s l g = None) by (destruct l; done). rewrite He.
    exists o. split; [|left; done].
    destruct (is_init l) eqn:Hin.
    + (* a serve cycle starts: nothing was executing, nothing is *)
      destruct l; try discriminate. specialize (Hex _ eq_refl).
      eapply open_rel_iff; [|exact Ho]. intros k c.
      destruct (runs_step_init _ _ _ g k c Hex Hs). tauto.
    + eapply open_rel_iff; [|exact Ho]. intros k c. by apply (runs_step_other s l s').
Qed.

(* ---------- alternation ---------- *)
Lemma sequential_start cs c : sequential cs None ++ [GStart c] = sequential cs (Some c).
Proof. unfold sequential. simpl. by rewrite app_nil_r. Qed.
Lemma sequential_end cs c : sequential cs (Some c) ++ [GEnd c] = sequential (cs ++ [c]) None.
Proof.
  unfold sequential. simpl. rewrite map_app, concat_app. simpl.
  rewrite !app_nil_r, <- app_assoc. done.
Qed.

Lemma sequential_otrans cs o e o' :
  otrans e o o' -> exists cs', sequential cs o ++ option_list e = sequential cs' o' /\
    cs' ++ option_list o' = (cs ++ option_list o) ++ starts (option_list e).
Proof.
  intros [(-> & ->)|[(c & -> & -> & ->)|(c & -> & -> & ->)]]; simpl.
  - exists cs. by rewrite !app_nil_r.
  - exists cs. split; [apply sequential_start|]. by rewrite app_nil_r.
  - exists (cs ++ [c]). split; [apply sequential_end|]. by rewrite !app_nil_r.
Qed.

Lemma starts_app l1 l2 : starts (l1 ++ l2) = starts l1 ++ starts l2.
Proof. apply omap_app. Qed.

Lemma group_sequential_open tr s g :
  run init tr = Some s -> g <> 0%N ->
  exists cs o, group_events tr g = sequential cs o /\ open_rel s g o /\
               started_cbs tr g = cs ++ option_list o.
Proof.
  intros Hr Hg. revert tr s Hr.
  apply (run_ind (fun tr s => exists cs o, group_events tr g = sequential cs o /\ open_rel s g o /\
                                           started_cbs tr g = cs ++ option_list o)).
  - exists [], None. split; [done|]. split; [|done]. intros k c (w & i & Hk & _). done.
  - intros tr s l s' Hr (cs & o & Hev & Ho & Hst) Hs.
    destruct (open_step s l s' g o) as (o' & Ho' & Ht); [by eapply Inv_run| |done..|].
    { intros n ->. eapply init_all_exited; eauto. }
    destruct (sequential_otrans cs o _ o' Ht) as (cs' & Hseq & Hcs).
    exists cs', o'. unfold started_cbs.
    rewrite (group_events_snoc _ _ _ _ Hr), Hev, starts_app. fold (started_cbs tr g).
    rewrite <- Hev at 2. fold (started_cbs tr g). rewrite Hst. done.
Qed.

Lemma group_sequential_pf : forall tr s g,
  run init tr = Some s -> g <> 0%N ->
  exists cs o, group_events tr g = sequential cs o /\ started_cbs tr g = cs ++ option_list o.
Proof.
  intros tr s g Hr Hg. destruct (group_sequential_open tr s g Hr Hg) as (cs & o & H1 & _ & H2). eauto.
Qed.

(* the decidable form *)
Lemma alternates_sequential cs o : alternates None (sequential cs o) = true.
Proof.
  induction cs as [|c cs IH].
  - destruct o; done.
  - change (sequential (c :: cs) o) with (GStart c :: GEnd c :: sequential cs o).
    simpl. rewrite N.eqb_refl. exact IH.
Qed.
Lemma alternates_inv l : forall o0, alternates o0 l = true ->
  exists cs o, (match o0 with Some c => GStart c :: l | None => l end) = sequential cs o.
Proof.
  induction l as [|e l IH]; intros o0 H.
  - destruct o0 as [c|]; [exists [], (Some c)|exists [], None]; done.
  - destruct e as [c|c], o0 as [c'|]; simpl in H; try done.
    + apply IH in H. exact H.
    + apply andb_true_iff in H as [Hc H]. apply N.eqb_eq in Hc. subst c'.
      apply IH in H as (cs & o & ->). exists (c :: cs), o. done.
Qed.
Lemma alternates_iff l : alternates None l = true <-> exists cs o, l = sequential cs o.
Proof.
  split.
  - intros H. exact (alternates_inv l None H).
  - intros (cs & o & ->). apply alternates_sequential.
Qed.

Lemma group_alternates_pf : forall tr s g,
  run init tr = Some s -> g <> 0%N -> alternates None (group_events tr g) = true.
Proof.
  intros tr s g Hr Hg. apply alternates_iff.
  destruct (group_sequential_pf tr s g Hr Hg) as (cs & o & H & _). eauto.
Qed.

(* ---------- the labels of the trace and the ghost histories ---------- *)
Lemma started_cbs_snoc tr s l g : run init tr = Some s ->
  started_cbs (tr ++ [l]) g = started_cbs tr g ++ starts (option_list (ev_of s l g)).
Proof. intros Hr. unfold started_cbs. rewrite (group_events_snoc _ _ _ _ Hr). apply starts_app. Qed.

Lemma started_cbs_glog tr x g : irun iinit tr = Some x -> started_cbs tr g = glog (gstart x) g.
Proof.
  revert tr x. apply (irun_ind (fun tr x => started_cbs tr g = glog (gstart x) g)).
  - done.
  - intros tr x l x' Hr IH Hs. pose proof (irun_base _ _ _ Hr) as Hb. simpl in Hb.
    rewrite (started_cbs_snoc _ _ _ _ Hb), IH.
    unfold istep, istep_gen in Hs.
    destruct (step_gen true (base x) l) as [b'|] eqn:Hst; [|done]. injection Hs as <-. simpl.
    destruct l; simpl; rewrite ?app_nil_r; try done.
    + (* LStart *)
      apply step_start_inv in Hst as (w & i & Hk & _). unfold wgroup. rewrite Hk. simpl.
      destruct (gid_of (base x) w) as [g'|]; [|by rewrite app_nil_r].
      destruct (N.eqb_spec g' g) as [->|Hne].
      * by rewrite glog_gpush_eq.
      * rewrite glog_gpush_ne by done. by rewrite app_nil_r.
    + (* LEnd *)
      destruct (wgroup (base x) k) as [g'|]; [|by rewrite app_nil_r].
      destruct (N.eqb g' g); by rewrite app_nil_r.
Qed.

Lemma accepted_cbs_glog tr x g : irun iinit tr = Some x -> accepted_cbs tr g = glog (genq x) g.
Proof.
  revert tr x. apply (irun_ind (fun tr x => accepted_cbs tr g = glog (genq x) g)).
  - done.
  - intros tr x l x' Hr IH Hs. pose proof (irun_base _ _ _ Hr) as Hb. simpl in Hb.
    rewrite (accepted_cbs_snoc _ _ _ _ Hb), IH.
    unfold istep, istep_gen in Hs.
    destruct (step_gen true (base x) l) as [b'|] eqn:Hst; [|done]. injection Hs as <-. simpl.
    assert (Hpush : forall g' c, glog (genq x) g ++ (if N.eqb g' g then [c] else []) =
                                 glog (gpush (genq x) g' c) g).
    { intros g' c. destruct (N.eqb_spec g' g) as [->|Hne].
      - by rewrite glog_gpush_eq.
      - rewrite glog_gpush_ne by done. by rewrite app_nil_r. }
    destruct l as [ |p r| | | | | | | | | | | | | | | | | ]; simpl; rewrite ?app_nil_r; try done.
    destruct r; simpl; rewrite ?app_nil_r; try done;
      (destruct (prods (base x) !! p) as [[g' c|]|]; rewrite ?app_nil_r; [apply Hpush|done|done]).
Qed.

Lemma run_irun_init tr s : run init tr = Some s -> exists x, irun iinit tr = Some x /\ base x = s.
Proof. intros Hr. apply (run_irun tr iinit s Hr). Qed.

(* started callbacks: a subsequence of the accepted ones, in acceptance order *)
Lemma group_starts_sublist_pf : forall tr s g,
  run init tr = Some s -> g <> 0%N -> sublist (started_cbs tr g) (accepted_cbs tr g).
Proof.
  intros tr s g Hr Hg. destruct (run_irun_init _ _ Hr) as (x & Hx & _).
  rewrite (started_cbs_glog _ _ g Hx), (accepted_cbs_glog _ _ g Hx).
  etrans; [|exact (started_in_order_pf _ _ g Hx Hg)]. by apply sublist_inserts_r.
Qed.

(* ... pairwise distinct *)
Lemma group_starts_distinct_pf : forall tr s g,
  run init tr = Some s -> NoDup (checked_cbs tr) -> NoDup (started_cbs tr g).
Proof.
  intros tr s g Hr Hnd. destruct (run_irun_init _ _ Hr) as (x & Hx & _).
  rewrite (started_cbs_glog _ _ g Hx). by apply (at_most_once_pf tr).
Qed.

(* ... without Shutdown: started ++ pending = accepted *)
Lemma group_starts_prefix_pf : forall tr s g,
  run init tr = Some s -> has_close tr = false -> g <> 0%N ->
  accepted_cbs tr g = started_cbs tr g ++ pend s g.
Proof.
  intros tr s g Hr Hc Hg. destruct (run_irun_init _ _ Hr) as (x & Hx & <-).
  rewrite (started_cbs_glog _ _ g Hx), (accepted_cbs_glog _ _ g Hx). by apply (fifo_prefix_pf tr).
Qed.

(* ... and exactly the accepted sequence at quiescence *)
Lemma group_starts_all_pf : forall tr s g,
  run init tr = Some s -> has_close tr = false -> svc s = Started -> quiescent s ->
  NoDup (checked_cbs tr) -> g <> 0%N ->
  started_cbs tr g = accepted_cbs tr g.
Proof.
  intros tr s g Hr Hc Hsv Hq Hnd Hg. destruct (run_irun_init _ _ Hr) as (x & Hx & <-).
  rewrite (started_cbs_glog _ _ g Hx), (accepted_cbs_glog _ _ g Hx).
  destruct (no_loss_pf _ _ g Hx Hc Hsv Hq Hnd) as [_ H]. by apply H.
Qed.
