(* Composition with the request engine: a concrete execution (two workers, two serialised groups and
   the Parallel group, publications interleaved, one callback panicking, one deliberately unanswered
   access request) for the non-vacuity examples of Props/Compose.v. *)
From Coq Require Import String.
From GoRes Require Import Req.Spec.
From stdpp Require Import gmap.
From Coq Require Import NArith Lia.
From GoRes Require Import Sched.Model Sched.Spec Sched.AccessLTS Compose.Defs Compose.DefsReq Compose.Examples.
Local Open Scope N_scope.

(* handlers of resource test.call.get (those of Props/C04.v): a get handler, call methods that reply
   twice / send a pre-response, reply and panic / call Value() and panic / panic at once; no access handler *)
Definition rx_err := RErr (s2b "test.custom") (s2b "Custom") (VInt 7).
Definition rx_handlers : handlers :=
  H 1 None
    (Some [AEvent (s2b "seen") VNull; AReply (KModel (VMap [(s2b "a", s2b "b")]))])
    (Some [])
    [ (s2b "twice", [AReply (KOK (VInt 1)); AReply (KOK (VInt 2))]);
      (s2b "late", [ATimeout 3000; AReply (KOK VNull); APanic PNilErr]);
      (s2b "nested", [AValue true; AValue false; APanic (PErr rx_err)]);
      ([star], [ASetStatus 402; APanic (POther (s2b "42"))]) ]
    [].
Definition rx_cfg : config :=
  fun rn => if beq rn (s2b "test.call.get") then Some (HM rx_handlers [] rn) else None.
(* the request each callback handles; every request has its own inbox *)
Definition rx_req (c : N) : msg :=
  if c =? 100 then Msg (s2b "call.test.call.get.late") (s2b "_INBOX.r100") InEmpty
  else if c =? 101 then Msg (s2b "call.test.call.get.nested") (s2b "_INBOX.r101") InEmpty
  else if c =? 200 then Msg (s2b "call.test.call.get.twice") (s2b "_INBOX.r200") InEmpty
  else if c =? 300 then Msg (s2b "access.test.call.get") (s2b "_INBOX.r300") InEmpty
  else Msg (s2b "call.test.call.get.other") (s2b "_INBOX.rx") InEmpty.

(* group 5: 100 then 101 (worker 0); group 6: 200 (worker 1); group 0: 400 (panics at once) and 300
   (unanswered access), worker 1 *)
Definition sched_req : list act :=
  map ALabel [LServeCAS true; LServeInit 2; LServeStarted;
              LCheck 1 5 100 true; LEnq 1 ENew; LSignal 1; LCheck 2 6 200 true; LEnq 2 ENew; LSignal 2;
              LCheck 3 5 101 true; LEnq 3 EAppend; LCheck 4 0 400 true; LEnq 4 ENew; LSignal 4;
              LCheck 5 0 300 true; LEnq 5 ENew; LSignal 5;
              LSect 0 false (RTake 0); LSect 1 false (RTake 1); LStart 0 100] ++
  [APub 0; ALabel (LStart 1 200); APub 1; APub 0; ALabel (LEnd 1 200); ALabel (LEnd 0 100);
   ALabel (LSect 0 false RNext); ALabel (LStart 0 101); APub 0;
   ALabel (LSect 1 true (RTake 2)); ALabel (LStart 1 400); APub 1; APub 0; ALabel (LEnd 1 400);
   ALabel (LSect 1 true (RTake 3)); APub 0; ALabel (LEnd 0 101); ALabel (LSect 0 true RWait);
   ALabel (LStart 1 300); ALabel (LEnd 1 300); ALabel (LSect 1 true RWait)].
Definition tr_req : list label :=
  [LServeCAS true; LServeInit 2; LServeStarted;
   LCheck 1 5 100 true; LEnq 1 ENew; LSignal 1; LCheck 2 6 200 true; LEnq 2 ENew; LSignal 2;
   LCheck 3 5 101 true; LEnq 3 EAppend; LCheck 4 0 400 true; LEnq 4 ENew; LSignal 4;
   LCheck 5 0 300 true; LEnq 5 ENew; LSignal 5;
   LSect 0 false (RTake 0); LSect 1 false (RTake 1); LStart 0 100;
   LStart 1 200; LEnd 1 200; LEnd 0 100; LSect 0 false RNext; LStart 0 101;
   LSect 1 true (RTake 2); LStart 1 400; LEnd 1 400; LSect 1 true (RTake 3); LEnd 0 101;
   LSect 0 true RWait; LStart 1 300; LEnd 1 300; LSect 1 true RWait].
Definition ps_req : list (N * (N * pubmsg)) :=
  match crun (req_msgs rx_cfg rx_req) sched_req with Some (_, _, ps) => ps | None => [] end.

Definition rx_reply (c : N) : bytes := ms_reply (rx_req c).
Definition rx_count (c : N) : nat := List.length (responses (rx_reply c) (wire ps_req)).

Lemma rx_distinct : distinct_replies rx_req [100; 200; 101; 400; 300].
Proof.
  intros c1 c2 H1 H2 Hne. rewrite !elem_of_cons, elem_of_nil in H1, H2.
  destruct H1 as [->|[->|[->|[->|[->|[]]]]]]; destruct H2 as [->|[->|[->|[->|[->|[]]]]]];
    try done; vm_compute; intros E; discriminate E.
Qed.

Lemma req_nonvacuous_pf : exists s pd,
  run init tr_req = Some s /\ consistent (req_msgs rx_cfg rx_req) tr_req pd ps_req /\
  has_close tr_req = false /\ svc s = Started /\ quiescent s /\ NoDup (checked_cbs tr_req) /\
  distinct_replies rx_req (checked_cbs tr_req) /\
  (* the five requests are accepted, groups 5, 6, 5, 0, 0 *)
  map (lenq tr_req) [4; 7; 10; 12; 15]%nat =
    [Some (5, 100); Some (6, 200); Some (5, 101); Some (0, 400); Some (0, 300)] /\
  (* they have inboxes and well-formed subjects; only the access request is deliberately unanswered *)
  map (fun c => inbox_like (rx_reply c)) [100; 200; 101; 400; 300] = [true; true; true; true; true] /\
  split_subject (ms_subj (rx_req 100)) = Some (t_call, s2b "test.call.get", s2b "late") /\
  split_subject (ms_subj (rx_req 300)) = Some (t_access, s2b "test.call.get", []) /\
  silent rx_cfg (rx_req 100) t_call (s2b "test.call.get") = false /\
  silent rx_cfg (rx_req 300) t_access (s2b "test.call.get") = true /\
  (* the publications of the two workers interleave: (group, callback, subject) *)
  map (fun x => (fst x, fst (snd x), p_subj (snd (snd x)))) ps_req =
    [(5, 100, s2b "_INBOX.r100"); (6, 200, s2b "_INBOX.r200"); (5, 100, s2b "_INBOX.r100");
     (5, 101, s2b "event.test.call.get.seen"); (0, 400, s2b "_INBOX.rx");
     (5, 101, s2b "event.test.call.get.seen"); (5, 101, s2b "_INBOX.r101")] /\
  (* one response each (the pre-response of 100 not counted, the panics of 100, 101, 400 contained),
     none for the access request *)
  map rx_count [100; 200; 101; 400; 300] = [1; 1; 1; 1; 0]%nat.
Proof.
  destruct (run init tr_req) as [s|] eqn:E; [|by vm_compute in E].
  destruct (crun_sound (req_msgs rx_cfg rx_req) sched_req tr_req ps_req) as [pd Hpd].
  { vm_compute. split; reflexivity. }
  exists s, pd. split; [done|]. split; [done|].
  vm_compute in E. inversion E; subst s; clear E.
  split; [reflexivity|]. split; [reflexivity|]. split.
  { split; [reflexivity|]. split; [|reflexivity]. apply map_to_list_empty_iff. vm_compute. reflexivity. }
  split.
  { apply (bool_decide_unpack _). vm_compute. exact I. }
  split.
  { change (checked_cbs tr_req) with [100; 200; 101; 400; 300]. apply rx_distinct. }
  split_and!; vm_compute; reflexivity.
Qed.
