(* C04 helper for the composition with the scheduler: handling a request publishes NO response on
   any OTHER inbox (a subject that is neither the request's reply subject nor an event / connection
   token subject).  Companion of Req/Proofs.v: same structure, the invariant "the count of responses on
   R does not change" instead of "replied <-> one response". *)
From GoRes Require Import Req.Spec Req.Proofs.
From Coq Require Import String Lia.
Local Open Scope N_scope.

Section Frame.
  Context (R : bytes) (c : ctx).
  Context (HI : inbox_like R = true) (HR : beq (c_reply c) R = false).

  Lemma reply_frame : forall s p s' o, reply c s p = (s', o) -> cnt R (pubs s') = cnt R (pubs s).
  Proof.
    intros s p s' o H. apply reply_cases in H. destruct H as [[_ [-> _]]|[_ [-> _]]]; [reflexivity|].
    cbn [pubs]. rewrite cnt_app, cnt_other by exact HR. lia.
  Qed.
  Lemma reply_error_frame : forall s e m s' o,
    reply_error c s e m = (s', o) -> cnt R (pubs s') = cnt R (pubs s).
  Proof. intros s e m s' o H. eapply reply_frame; exact H. Qed.
  Lemma success_frame : forall s v w m s' o,
    success c s v w m = (s', o) -> cnt R (pubs s') = cnt R (pubs s).
  Proof.
    intros s v w m s' o H. unfold success in H. destruct (val_ok v).
    - eapply reply_frame; exact H.
    - eapply reply_error_frame; exact H.
  Qed.
  Lemma do_replyk_frame : forall s k s' o,
    do_replyk c s k = (s', o) -> cnt R (pubs s') = cnt R (pubs s).
  Proof.
    intros s k s' o H. unfold do_replyk in H.
    destruct k;
      repeat match type of H with
             | context [if ?b then _ else _] => destruct b eqn:?
             end;
      try (eapply success_frame; eassumption);
      try (eapply reply_error_frame; eassumption);
      try (eapply reply_frame; eassumption);
      try (inversion H; subst; reflexivity).
  Qed.

  Lemma step_frame : forall s a s' o, step c s a = (s', o) -> cnt R (pubs s') = cnt R (pubs s).
  Proof.
    intros s a s' o H. unfold step in H.
    destruct a as [k|ms|n v|p|n|k v|v|rq|tk zero po].
    - eapply do_replyk_frame; eassumption.
    - destruct (ms <? 0)%Z; inversion H; subst; [reflexivity|].
      cbn [publish pubs]. rewrite cnt_app, cnt_pre. lia.
    - destruct (event_out c n v) as [ms p] eqn:E. inversion H; subst.
      cbn [publish_all pubs]. rewrite cnt_app. eapply event_out_cnt in E; [|exact HI]. rewrite E. lia.
    - inversion H; subst; reflexivity.
    - destruct (negb (q_ishttp (c_d c))); [inversion H; subst; reflexivity|].
      destruct (replied s); inversion H; subst; reflexivity.
    - destruct (negb (q_ishttp (c_d c))); [inversion H; subst; reflexivity|].
      destruct (replied s); inversion H; subst; reflexivity.
    - destruct (val_ok v); inversion H; subst; [|reflexivity].
      cbn [publish pubs]. rewrite cnt_app, cnt_other by (apply inbox_not_token; exact HI). lia.
    - destruct (run_get c) as [[[ms ls] v] e] eqn:E.
      apply run_get_cnt with (R := R) in E; [|exact HI].
      assert (HS : cnt R (pubs (St (replied s) (status s) (rhdr s) (pubs s ++ ms) (log s ++ ls))) = cnt R (pubs s)).
      { cbn [pubs]. rewrite cnt_app, E. lia. }
      destruct rq; [destruct e|]; inversion H; subst; exact HS.
    - destruct (is_nil (if tk then q_token (c_d c) else q_params (c_d c)));
        [inversion H; subst; reflexivity|].
      destruct po; inversion H; subst; reflexivity.
  Qed.

  Lemma run_script_frame : forall sc s s' o,
    run_script c s sc = (s', o) -> cnt R (pubs s') = cnt R (pubs s).
  Proof.
    induction sc as [|a sc IH]; intros s s' o H; cbn [run_script] in H.
    - inversion H; subst; reflexivity.
    - destruct (step c s a) as [s1 [p|]] eqn:E.
      + inversion H; subst. eapply step_frame; eassumption.
      + rewrite (IH _ _ _ H). eapply step_frame; eassumption.
  Qed.

  Lemma reply_error_fst_frame : forall s e m, cnt R (pubs (fst (reply_error c s e m))) = cnt R (pubs s).
  Proof.
    intros s e m. destruct (reply_error c s e m) as [s' o] eqn:E. cbn [fst].
    eapply reply_error_frame; exact E.
  Qed.

  Lemma finish_frame : forall s out, cnt R (pubs (snd (finish c (s, out)))) = cnt R (pubs s).
  Proof.
    intros s out. cbn [finish]. destruct out as [p|].
    - unfold recover, recover_gen. destruct (replied s).
      + destruct p as [[[e|]|m]|m|m]; reflexivity.
      + destruct p as [g|m|m]; cbn [snd]; apply reply_error_fst_frame.
    - destruct (replied s); cbn [snd]; [reflexivity|apply reply_error_fst_frame].
  Qed.

  Lemma execute_handler_frame : cnt R (pubs (snd (execute_handler c))) = 0%nat.
  Proof.
    unfold execute_handler.
    destruct (select_handler (c_h c) (c_rtype c) (c_method c)) as [|e|h sc].
    - reflexivity.
    - cbn [snd]. rewrite reply_error_fst_frame. reflexivity.
    - destruct (run_script c (add_log st0 (LInvoke (outer_obs c h))) sc) as [s out] eqn:E.
      rewrite finish_frame. rewrite (run_script_frame _ _ _ _ E). reflexivity.
  Qed.
End Frame.

(* a request answers on its own reply subject only *)
Lemma foreign_inbox_silent_pf : forall cfg m R,
  inbox_like R = true -> ms_reply m <> R ->
  responses R (pubs (snd (handle_request cfg m))) = [].
Proof.
  intros cfg m R HI HN. apply List.length_zero_iff_nil.
  fold (cnt R (pubs (snd (handle_request cfg m)))).
  assert (HR : beq (ms_reply m) R = false) by (apply beq_false_of_neq; exact HN).
  unfold handle_request. destruct (is_nil (ms_reply m)); [reflexivity|].
  destruct (split_subject (ms_subj m)) as [[[rt rn] me]|]; [|reflexivity].
  unfold process_request. destruct (cfg rn) as [mh|].
  - destruct (ms_data m) as [|d|em].
    + apply execute_handler_frame; [exact HI|exact HR].
    + apply execute_handler_frame; [exact HI|exact HR].
    + cbn [snd]. rewrite (reply_error_fst_frame R (bare_ctx (ms_reply m))); [reflexivity|exact HR].
  - cbn [snd]. rewrite (reply_error_fst_frame R (bare_ctx (ms_reply m))); [reflexivity|exact HR].
Qed.
