(* Composition, generic part of the request layer: publications tagged with the callback that makes
   them.  Along every scheduler trace with distinct callback identities each callback is started at most
   once, and what a callback has put on the connection is a prefix of its message list: nothing before
   its LStart, everything after its LEnd. *)
From stdpp Require Import gmap.
From Coq Require Import NArith Lia.
From GoRes Require Import Sched.Model Sched.Spec Sched.Inv Sched.Proofs_C01 Sched.Lemmas_Ghost
  Sched.Lemmas_AMO Sched.Shut_Base Sched.AccessLTS Sched.HB_Trace Sched.HB_Init Sched.Proofs_C02
  Compose.Defs Compose.DefsReq Compose.SchedSeq Compose.SchedEvent Compose.SchedQuery.

(* ---------- LStart / LEnd callbacks of a trace ---------- *)
Lemma started_all_app tr1 tr2 : started_all (tr1 ++ tr2) = started_all tr1 ++ started_all tr2.
Proof. apply omap_app. Qed.
Lemma ended_all_app tr1 tr2 : ended_all (tr1 ++ tr2) = ended_all tr1 ++ ended_all tr2.
Proof. apply omap_app. Qed.
Lemma started_all_other tr l : is_exec l = false -> started_all (tr ++ [l]) = started_all tr.
Proof. intros H. rewrite started_all_app. destruct l; try done; by rewrite app_nil_r. Qed.
Lemma ended_all_other tr l : is_exec l = false -> ended_all (tr ++ [l]) = ended_all tr.
Proof. intros H. rewrite ended_all_app. destruct l; try done; by rewrite app_nil_r. Qed.
Lemma started_all_start tr k c : started_all (tr ++ [LStart k c]) = started_all tr ++ [c].
Proof. by rewrite started_all_app. Qed.
Lemma started_all_end tr k c : started_all (tr ++ [LEnd k c]) = started_all tr.
Proof. rewrite started_all_app. by rewrite app_nil_r. Qed.
Lemma ended_all_start tr k c : ended_all (tr ++ [LStart k c]) = ended_all tr.
Proof. rewrite ended_all_app. by rewrite app_nil_r. Qed.
Lemma ended_all_end tr k c : ended_all (tr ++ [LEnd k c]) = ended_all tr ++ [c].
Proof. by rewrite ended_all_app. Qed.

Lemma started_all_elem tr c : c ∈ started_all tr <-> exists a k, tr !! a = Some (LStart k c).
Proof.
  unfold started_all. rewrite elem_of_list_omap. split.
  - intros (l & Hl & Hc). apply elem_of_list_lookup in Hl as [a Ha].
    destruct l; try done. simplify_eq. eauto.
  - intros (a & k & Ha). exists (LStart k c). split; [|done]. by eapply elem_of_list_lookup_2.
Qed.

(* a callback identity is started at one position only *)
Lemma lstart_unique tr s a a' k k' c :
  run init tr = Some s -> NoDup (checked_cbs tr) ->
  tr !! a = Some (LStart k c) -> tr !! a' = Some (LStart k' c) -> a = a'.
Proof.
  intros Hr Hnd Ha Ha'. destruct (lstart_gev _ _ _ _ _ Hr Ha) as (g & Hev).
  assert (Hin : c ∈ accepted_cbs tr g).
  { eapply started_in_accepted; [done|]. unfold started_cbs, starts. apply elem_of_list_omap.
    exists (GStart c). split; [|done]. apply omap_seq_elem. exists a. split; [|done].
    by eapply gev_at_lt. }
  pose proof (lstart_group _ _ _ _ _ _ Hr Hnd Ha' Hin) as Hev'.
  destruct (decide (a = a')) as [?|Hne]; [done|]. exfalso.
  pose proof (group_starts_distinct_pf _ _ g Hr Hnd) as HndS.
  eapply (before_NoDup_ne _ c HndS). unfold started_cbs, starts.
  eapply (before_omap _ _ (GStart c) (GStart c)); [|done..].
  destruct (decide (a < a')).
  - apply (before_omap_seq _ _ a a'); [lia| |done..]. by eapply gev_at_lt.
  - apply (before_omap_seq _ _ a' a); [lia| |done..]. by eapply gev_at_lt.
Qed.

Lemma started_all_NoDup_pf : forall tr s,
  run init tr = Some s -> NoDup (checked_cbs tr) -> NoDup (started_all tr).
Proof.
  intros tr s Hr Hnd. unfold started_all. apply NoDup_omap_idx.
  intros i j x y c Hi Hj Hx Hy. destruct x; try done. destruct y; try done. simplify_eq.
  eapply lstart_unique; eauto.
Qed.

(* ... and was handed to runWith *)
Lemma started_all_checked_pf : forall tr s c,
  run init tr = Some s -> NoDup (checked_cbs tr) -> c ∈ started_all tr -> c ∈ checked_cbs tr.
Proof.
  intros tr s c Hr Hnd Hc. apply started_all_elem in Hc as (a & k & Ha).
  destruct (lstart_gev _ _ _ _ _ Hr Ha) as (g & Hev).
  assert (Hin : c ∈ accepted_cbs tr g).
  { eapply started_in_accepted; [done|]. unfold started_cbs, starts. apply elem_of_list_omap.
    exists (GStart c). split; [|done]. apply omap_seq_elem. exists a. split; [|done].
    by eapply gev_at_lt. }
  destruct (run_irun_init _ _ Hr) as (x & Hx & _). rewrite (accepted_cbs_glog _ _ g Hx) in Hin.
  exact (a_log _ _ (irun_AMO _ _ Hx Hnd) _ _ Hin).
Qed.

Lemma accepted_checked tr s g c :
  run init tr = Some s -> NoDup (checked_cbs tr) -> c ∈ accepted_cbs tr g -> c ∈ checked_cbs tr.
Proof.
  intros Hr Hnd Hin. destruct (run_irun_init _ _ Hr) as (x & Hx & _).
  rewrite (accepted_cbs_glog _ _ g Hx) in Hin. exact (a_log _ _ (irun_AMO _ _ Hx Hnd) _ _ Hin).
Qed.

Lemma started_cbs_all tr g c : c ∈ started_cbs tr g -> c ∈ started_all tr.
Proof.
  unfold started_cbs, starts. intros H. apply elem_of_list_omap in H as (e & He & Hc).
  destruct e as [c'|]; [|done]. simplify_eq. apply omap_seq_elem in He as (a & _ & Ha).
  apply gev_at_start_inv in Ha as (k & Ha). apply started_all_elem. eauto.
Qed.

(* ---------- every publication comes from a started callback ---------- *)
Lemma pubs_sound {M} (msgs : N -> list M) tr pd ps :
  consistent msgs tr pd ps ->
  (forall g y, (g, y) ∈ ps -> exists c, c ∈ started_all tr /\ y ∈ msgs c) /\
  (forall k g rest, pd k = Some (g, rest) -> exists c pre, c ∈ started_all tr /\ msgs c = pre ++ rest).
Proof.
  induction 1 as [|tr pd ps l Hc [IH1 IH2] Hl|tr pd ps s0 k c g0 Hc [IH1 IH2] Hr0 Hwg
                 |tr pd ps k g0 m rest Hc [IH1 IH2] Hpd|tr pd ps k c g0 Hc [IH1 IH2] Hpd].
  - split; [intros g y H; by apply elem_of_nil in H|done].
  - rewrite (started_all_other _ _ Hl). done.
  - rewrite started_all_start. split.
    + intros g y Hy. destruct (IH1 _ _ Hy) as (c' & ? & ?). exists c'. split; [|done].
      apply elem_of_app. by left.
    + intros k' g rest Hpd. destruct (decide (k' = k)) as [->|Hne].
      * rewrite pd_set_eq in Hpd. simplify_eq. exists c, []. split; [|done].
        apply elem_of_app. right. by apply elem_of_list_singleton.
      * rewrite pd_set_ne in Hpd by done. destruct (IH2 _ _ _ Hpd) as (c' & pre & ? & ?).
        exists c', pre. split; [|done]. apply elem_of_app. by left.
  - destruct (IH2 _ _ _ Hpd) as (c & pre & Hc0 & Hm). split.
    + intros g y Hy. apply elem_of_app in Hy as [Hy|Hy]; [eauto|].
      apply elem_of_list_singleton in Hy. simplify_eq. exists c. split; [done|].
      rewrite Hm. apply elem_of_app. right. by left.
    + intros k' g rest' Hpd'. destruct (decide (k' = k)) as [->|Hne].
      * rewrite pd_set_eq in Hpd'. simplify_eq. exists c, (pre ++ [m]). split; [done|].
        by rewrite Hm, <- app_assoc.
      * rewrite pd_set_ne in Hpd' by done. eauto.
  - rewrite started_all_end. split; [done|].
    intros k' g rest Hpd'. destruct (decide (k' = k)) as [->|Hne].
    + by rewrite pd_set_eq in Hpd'.
    + rewrite pd_set_ne in Hpd' by done. eauto.
Qed.

(* ---------- worker k executes callback c ---------- *)
Definition cruns (s : st) (k : nat) (c : N) : Prop := exists w i, workers s !! k = Some (WRun w i c).

Lemma runs_cruns s g k c : runs s g k c -> cruns s k c.
Proof. intros (w & i & H & _). by exists w, i. Qed.
Lemma cruns_fun s k c c' : cruns s k c -> cruns s k c' -> c = c'.
Proof. intros (w & i & H) (w' & i' & H'). congruence. Qed.

Lemma cruns_step_other s l s' k c :
  step s l = Some s' -> is_exec l = false -> is_init l = false -> cruns s' k c <-> cruns s k c.
Proof.
  intros Hs Hl Hin. unfold cruns. split; intros (w & i & H); exists w, i;
    by apply (step_WRun _ _ _ k w i c Hs Hl Hin).
Qed.
Lemma cruns_step_init s n s' k c :
  all_exited s = true -> step s (LServeInit n) = Some s' -> ~ cruns s k c /\ ~ cruns s' k c.
Proof.
  intros Hex Hs. split.
  - intros (w & i & Hk). apply (all_exited_lookup _ _ _ Hex) in Hk. done.
  - intros (w & i & Hk). apply (step_init_workers _ _ _ _ _ Hs) in Hk. done.
Qed.
Lemma cruns_set_workers s k p k' c' : k < length (workers s) ->
  cruns (set_workers s k p) k' c' <->
  (k' = k /\ exists w i, p = WRun w i c') \/ (k' <> k /\ cruns s k' c').
Proof.
  intros Hlt. unfold cruns. rewrite set_workers_workers.
  destruct (decide (k' = k)) as [->|Hne].
  - rewrite list_lookup_insert by done. split.
    + intros (w & i & [= ->]). left. eauto.
    + intros [(_ & w & i & ->)|[? _]]; [eauto|done].
  - rewrite list_lookup_insert_ne by done. split.
    + intros H. by right.
    + intros [[? _]|[_ H]]; done.
Qed.

(* ---------- tagged publications, one callback ---------- *)
Lemma by_cb_app {B} c (a b : list (N * (N * B))) : by_cb c (a ++ b) = by_cb c a ++ by_cb c b.
Proof. unfold by_cb. by rewrite List.filter_app. Qed.
Lemma from_cb_app {B} c (a b : list (N * (N * B))) : from_cb c (a ++ b) = from_cb c a ++ from_cb c b.
Proof. unfold from_cb, wire. by rewrite by_cb_app, map_app. Qed.
Lemma from_cb_one {B} c g c' (b : B) : from_cb c [(g, (c', b))] = if N.eqb c' c then [b] else [].
Proof. unfold from_cb, wire, by_cb. simpl. destruct (N.eqb c' c); done. Qed.

Lemma tagged_elem {B} (body : N -> list B) c y : y ∈ tagged body c -> fst y = c /\ snd y ∈ body c.
Proof. unfold tagged. intros H. apply elem_of_list_fmap in H as (b & -> & Hb). done. Qed.

(* where callback c0 stands: not started, executing on worker k (rest still to publish), or returned;
   [pre] = what it has published *)
Inductive cstatus {B} (body : N -> list B) (tr : list label) (s : st) (pd : pending (N * B))
    (c0 : N) (pre : list B) : Prop :=
  | CS_not : c0 ∉ started_all tr -> c0 ∉ ended_all tr -> (forall k, ~ cruns s k c0) -> pre = [] ->
             cstatus body tr s pd c0 pre
  | CS_run k g rest :
      c0 ∈ started_all tr -> c0 ∉ ended_all tr -> cruns s k c0 -> (forall k', cruns s k' c0 -> k' = k) ->
      pd k = Some (g, map (pair c0) rest) -> body c0 = pre ++ rest -> cstatus body tr s pd c0 pre
  | CS_end : c0 ∈ started_all tr -> c0 ∈ ended_all tr -> (forall k, ~ cruns s k c0) -> pre = body c0 ->
             cstatus body tr s pd c0 pre.

Lemma cstatus_transfer {B} (body : N -> list B) tr tr' s s' pd pd' c0 pre :
  (c0 ∈ started_all tr' <-> c0 ∈ started_all tr) -> (c0 ∈ ended_all tr' <-> c0 ∈ ended_all tr) ->
  (forall k, cruns s' k c0 <-> cruns s k c0) -> (forall k, cruns s k c0 -> pd' k = pd k) ->
  cstatus body tr s pd c0 pre -> cstatus body tr' s' pd' c0 pre.
Proof.
  intros Hst Hen Hiff Hpd [H1 H2 H3 H4|k g rest H1 H2 H3 H4 H5 H6|H1 H2 H3 H4].
  - apply CS_not; [by rewrite Hst|by rewrite Hen| |done]. intros k Hk. apply (H3 k). by apply Hiff.
  - apply (CS_run _ _ _ _ _ _ k g rest); [by rewrite Hst|by rewrite Hen|by apply Hiff| | |done].
    + intros k' Hk'. apply H4. by apply Hiff.
    + by rewrite (Hpd _ H3).
  - apply CS_end; [by rewrite Hst|by rewrite Hen| |done]. intros k Hk. apply (H3 k). by apply Hiff.
Qed.

Lemma elem_snoc_ne {A} (l : list A) x y : x <> y -> x ∈ l ++ [y] <-> x ∈ l.
Proof.
  intros Hne. rewrite elem_of_app, elem_of_list_singleton. split; [intros [?|?]; done|by left].
Qed.

Lemma map_pair_nil {B} (c : N) (l : list B) : map (pair c) l = [] -> l = [].
Proof. by destruct l. Qed.

Lemma cstatus_inv {B} (body : N -> list B) tr pd ps c0 :
  consistent (tagged body) tr pd ps -> forall s, run init tr = Some s -> NoDup (checked_cbs tr) ->
  cstatus body tr s pd c0 (from_cb c0 ps).
Proof.
  induction 1 as [|tr pd ps l Hc IH Hl|tr pd ps s0 k c g0 Hc IH Hr0 Hwg|tr pd ps k g0 m rest Hc IH Hpd
                 |tr pd ps k c g0 Hc IH Hpd]; intros s Hr Hnd.
  - inversion Hr; subst s. apply CS_not; try done.
    + intros H. by apply elem_of_nil in H.
    + intros H. by apply elem_of_nil in H.
    + intros k (w & i & Hk). done.
  - (* neither a start nor an end *)
    apply run_init_snoc in Hr as (s1 & Hr1 & Hs & HI).
    assert (Hnd1 : NoDup (checked_cbs tr)).
    { rewrite checked_cbs_app in Hnd. by apply NoDup_app in Hnd as (? & _ & _). }
    apply (cstatus_transfer body tr _ s1 s pd pd c0); [by rewrite (started_all_other _ _ Hl)
      |by rewrite (ended_all_other _ _ Hl)| |done|by apply IH].
    intros k. destruct (is_init l) eqn:Hin.
    + destruct l; try discriminate.
      destruct (cruns_step_init s1 n s k c0); [eapply init_all_exited; eauto|done|tauto].
    + by apply (cruns_step_other s1 l s).
  - (* LStart k c *)
    pose proof (started_all_NoDup_pf _ _ Hr Hnd) as HndS. rewrite started_all_start in HndS.
    apply run_init_snoc in Hr as (s1 & Hr1 & Hs & HI). rewrite Hr0 in Hr1. simplify_eq.
    assert (Hnd1 : NoDup (checked_cbs tr)).
    { rewrite checked_cbs_app in Hnd. by apply NoDup_app in Hnd as (? & _ & _). }
    specialize (IH _ Hr0 Hnd1). apply step_start_inv in Hs as (w & i & Hk & ->).
    assert (Hlt : k < length (workers s1)) by eauto using lookup_lt_Some.
    assert (Hfresh : c ∉ started_all tr).
    { intros Hin. apply NoDup_app in HndS as (_ & Hd & _). apply (Hd c Hin). by apply elem_of_list_singleton. }
    destruct (decide (c = c0)) as [->|Hne].
    + destruct IH as [H1 H2 H3 H4|k1 g1 rest1 H1 _ _ _ _ _|H1 _ _ _]; [|done..].
      apply (CS_run _ _ _ _ _ _ k g0 (body c0)).
      * rewrite started_all_start. apply elem_of_app. right. by apply elem_of_list_singleton.
      * by rewrite ended_all_start.
      * apply cruns_set_workers; [done|]. left. eauto.
      * intros k' Hk'. apply (proj1 (cruns_set_workers _ _ _ _ _ Hlt)) in Hk' as [[? _]|[_ Hk']]; [done|].
        by apply H3 in Hk'.
      * by rewrite pd_set_eq.
      * by rewrite H4.
    + apply (cstatus_transfer body tr _ s1 _ pd _ c0); [| | | |exact IH].
      * rewrite started_all_start. by apply elem_snoc_ne.
      * by rewrite ended_all_start.
      * intros k'. rewrite cruns_set_workers by done. split.
        -- intros [(_ & w' & i' & [= _ _ ?])|[_ ?]]; done.
        -- intros H. right. split; [|done]. intros ->. destruct H as (w' & i' & H). congruence.
      * intros k' (w' & i' & H). apply pd_set_ne. intros ->. congruence.
  - (* a publication by worker k *)
    specialize (IH _ Hr Hnd).
    destruct (pd_ok_inv (tagged body) _ _ _ Hc _ Hr _ _ _ Hpd) as (c & pre1 & Hrun & Hm).
    apply runs_cruns in Hrun.
    assert (Hmt : fst m = c).
    { apply (tagged_elem body c m). rewrite Hm. apply elem_of_app. right. by left. }
    destruct m as [c' b]. simpl in Hmt. subst c'.
    rewrite from_cb_app, from_cb_one. destruct (N.eqb_spec c c0) as [->|Hne].
    + destruct IH as [_ _ H3 _|k1 g1 rest1 H1 H2 H3 H4 H5 H6|_ _ H3 _]; [by apply H3 in Hrun| |by apply H3 in Hrun].
      assert (k = k1) as <- by (by apply H4). rewrite Hpd in H5. simplify_eq.
      destruct rest1 as [|b1 rest1]; [done|]. simpl in H0. simplify_eq.
      apply (CS_run _ _ _ _ _ _ k g1 rest1); try done.
      * by rewrite pd_set_eq.
      * by rewrite H6, <- app_assoc.
    + rewrite app_nil_r. apply (cstatus_transfer body tr tr s s pd _ c0); [done..| |exact IH].
      intros k' Hk'. apply pd_set_ne. intros ->. apply Hne. by eapply cruns_fun.
  - (* LEnd k c *)
    apply run_init_snoc in Hr as (s1 & Hr1 & Hs & HI).
    assert (Hnd1 : NoDup (checked_cbs tr)).
    { rewrite checked_cbs_app in Hnd. by apply NoDup_app in Hnd as (? & _ & _). }
    specialize (IH _ Hr1 Hnd1). apply step_end_inv in Hs as (w & i & Hk & ->).
    assert (Hlt : k < length (workers s1)) by eauto using lookup_lt_Some.
    assert (Hrun : cruns s1 k c) by (by exists w, i).
    destruct (decide (c = c0)) as [->|Hne].
    + destruct IH as [_ _ H3 _|k1 g1 rest1 H1 H2 H3 H4 H5 H6|_ _ H3 _]; [by apply H3 in Hrun| |by apply H3 in Hrun].
      assert (k = k1) as <- by (by apply H4). rewrite Hpd in H5. simplify_eq.
      symmetry in H0. apply map_pair_nil in H0. subst rest1. rewrite app_nil_r in H6.
      apply CS_end.
      * by rewrite started_all_end.
      * rewrite ended_all_end. apply elem_of_app. right. by apply elem_of_list_singleton.
      * intros k' Hk'. apply (proj1 (cruns_set_workers _ _ _ _ _ Hlt)) in Hk' as [(_ & ? & ? & ?)|[Hn Hk']]; [done|].
        apply Hn. by apply H4.
      * done.
    + apply (cstatus_transfer body tr _ s1 _ pd _ c0); [| | | |exact IH].
      * by rewrite started_all_end.
      * rewrite ended_all_end. by apply elem_snoc_ne.
      * intros k'. rewrite cruns_set_workers by done. split.
        -- intros [(_ & ? & ? & ?)|[_ ?]]; done.
        -- intros H. right. split; [|done]. intros ->. apply Hne. by eapply cruns_fun.
      * intros k' H. apply pd_set_ne. intros ->. apply Hne. by eapply cruns_fun.
Qed.

(* ---------- consequences ---------- *)
Lemma cstatus_prefix {B} (body : N -> list B) tr s pd c0 pre :
  cstatus body tr s pd c0 pre -> pre `prefix_of` body c0.
Proof.
  intros [_ _ _ ->|k g rest _ _ _ _ _ H|_ _ _ ->].
  - apply prefix_nil.
  - by exists rest.
  - done.
Qed.

(* safety: what a callback has published is a prefix of its message list *)
Lemma from_cb_prefix_pf {B} (body : N -> list B) : forall tr s pd ps c,
  run init tr = Some s -> NoDup (checked_cbs tr) -> consistent (tagged body) tr pd ps ->
  from_cb c ps `prefix_of` body c.
Proof. intros tr s pd ps c Hr Hnd Hc. eapply cstatus_prefix, cstatus_inv; eauto. Qed.

(* after its LEnd: all of it *)
Lemma from_cb_ended_pf {B} (body : N -> list B) : forall tr s pd ps c,
  run init tr = Some s -> NoDup (checked_cbs tr) -> consistent (tagged body) tr pd ps ->
  c ∈ ended_all tr -> from_cb c ps = body c.
Proof.
  intros tr s pd ps c Hr Hnd Hc He.
  destruct (cstatus_inv body tr pd ps c Hc s Hr Hnd) as [_ H _ _|k g rest _ H _ _ _ _|_ _ _ H]; done.
Qed.

(* started and not executing in the final state (e.g. quiescent): all of it *)
Lemma from_cb_done_pf {B} (body : N -> list B) : forall tr s pd ps c,
  run init tr = Some s -> NoDup (checked_cbs tr) -> consistent (tagged body) tr pd ps ->
  c ∈ started_all tr -> (forall k, ~ cruns s k c) -> from_cb c ps = body c.
Proof.
  intros tr s pd ps c Hr Hnd Hc Hs Hno.
  destruct (cstatus_inv body tr pd ps c Hc s Hr Hnd) as [H _ _ _|k g rest _ _ H _ _ _|_ _ _ H]; [done| |done].
  by apply Hno in H.
Qed.

(* every publication carries the tag of a started callback and is one of its messages *)
Lemma tag_sound_pf {B} (body : N -> list B) : forall tr pd ps x,
  consistent (tagged body) tr pd ps -> x ∈ ps ->
  fst (snd x) ∈ started_all tr /\ snd (snd x) ∈ body (fst (snd x)).
Proof.
  intros tr pd ps [g y] Hc Hx. destruct (pubs_sound (tagged body) _ _ _ Hc) as [H _].
  destruct (H _ _ Hx) as (c & Hs & Hy). apply tagged_elem in Hy as [<- Hy]. done.
Qed.

Lemma quiescent_no_cruns s k c : quiescent s -> ~ cruns s k c.
Proof.
  intros (Hq & _) (w & i & Hk).
  assert (worker_quiet (WRun w i c) = true); [|done].
  revert k Hk. induction (workers s) as [|a l IH]; intros k Hk; [done|]. simpl in Hq.
  apply andb_true_iff in Hq as [Ha Hq]. destruct k; simpl in Hk; [congruence|eauto].
Qed.

(* at quiescence, without Shutdown, every accepted callback (any group) has started *)
Lemma accepted_started_all tr s g c :
  run init tr = Some s -> has_close tr = false -> svc s = Started -> quiescent s ->
  NoDup (checked_cbs tr) -> c ∈ accepted_cbs tr g -> c ∈ started_all tr.
Proof.
  intros Hr Hcl Hsv Hq Hnd Hin. destruct (run_irun_init _ _ Hr) as (x & Hx & <-).
  apply (started_cbs_all tr g). rewrite (started_cbs_glog _ _ g Hx).
  rewrite (accepted_cbs_glog _ _ g Hx) in Hin.
  destruct (no_loss_pf _ _ g Hx Hcl Hsv Hq Hnd) as [Hp _]. by rewrite Hp.
Qed.
