(* Composition of the scheduler engine (C01/C02) with the request engine (C04): every request handled
   by a callback of the scheduler gets its one response on its reply subject, whatever the interleaving
   of the workers and whatever the other callbacks do. *)
From GoRes Require Import Req.Spec Req.Proofs Compose.ReqFrame.
From stdpp Require Import gmap.
From Coq Require Import NArith Lia.
From GoRes Require Import Sched.Model Sched.Spec Sched.Inv Sched.AccessLTS
  Compose.Defs Compose.DefsReq Compose.SchedSeq Compose.SchedEvent Compose.SchedQuery Compose.SchedTag.

(* ---------- lists ---------- *)
Lemma filter_map_comm {A B} (f : A -> B) (P : B -> bool) (l : list A) :
  List.filter P (map f l) = map f (List.filter (fun x => P (f x)) l).
Proof.
  induction l as [|a l IH]; [reflexivity|]. simpl. destruct (P (f a)); simpl; by rewrite IH.
Qed.
Lemma filter_filter_impl {A} (Q T : A -> bool) (l : list A) :
  (forall x, In x l -> Q x = true -> T x = true) ->
  List.filter Q l = List.filter Q (List.filter T l).
Proof.
  induction l as [|a l IH]; intros H; [reflexivity|]. simpl.
  assert (IH' : List.filter Q l = List.filter Q (List.filter T l)).
  { apply IH. intros x Hx. apply H. by right. }
  destruct (Q a) eqn:EQ.
  - rewrite (H a (or_introl eq_refl) EQ). simpl. rewrite EQ. by rewrite IH'.
  - destruct (T a); simpl; rewrite ?EQ; exact IH'.
Qed.
Lemma responses_app R a b : responses R (a ++ b) = responses R a ++ responses R b.
Proof. unfold responses. apply List.filter_app. Qed.
Lemma responses_prefix_le R (pre l : list pubmsg) :
  pre `prefix_of` l -> (List.length (responses R pre) <= List.length (responses R l))%nat.
Proof. intros [rest ->]. rewrite responses_app, List.app_length. lia. Qed.

Lemma map_snd_tagged {B} (body : N -> list B) cs :
  map snd (concat (map (tagged body) cs)) = concat (map body cs).
Proof.
  induction cs as [|c cs IH]; [reflexivity|]. simpl. rewrite map_app, IH. f_equal.
  unfold tagged. rewrite List.map_map. simpl. apply List.map_id.
Qed.

(* ---------- a response on c's reply subject comes from c ---------- *)
Section Own.
  Context (cfg : config) (req_of : N -> msg) (tr : list label) (s : st)
          (pd : pending (N * pubmsg)) (ps : list (N * (N * pubmsg))) (c : N).
  Context (Hr : run init tr = Some s) (Hnd : NoDup (checked_cbs tr))
          (Hc : consistent (req_msgs cfg req_of) tr pd ps)
          (Hd : distinct_replies req_of (checked_cbs tr)) (Hin : c ∈ checked_cbs tr)
          (HI : inbox_like (ms_reply (req_of c)) = true).

  Lemma resp_tag x : x ∈ ps -> is_response_on (ms_reply (req_of c)) (snd (snd x)) = true ->
    fst (snd x) = c.
  Proof.
    intros Hx HP. destruct (tag_sound_pf (req_body cfg req_of) tr pd ps x Hc Hx) as [Hst Hb].
    destruct (decide (fst (snd x) = c)) as [?|Hne]; [done|]. exfalso.
    pose proof (started_all_checked_pf _ _ _ Hr Hnd Hst) as Hch.
    pose proof (Hd _ _ Hch Hin Hne) as Hrep.
    pose proof (foreign_inbox_silent_pf cfg (req_of (fst (snd x))) _ HI Hrep) as Hnil.
    assert (Hf : In (snd (snd x)) (responses (ms_reply (req_of c)) (req_body cfg req_of (fst (snd x))))).
    { unfold responses. apply List.filter_In. split; [|done]. by apply elem_of_list_In. }
    unfold req_body in Hf. rewrite Hnil in Hf. done.
  Qed.

  Lemma responses_own : responses (ms_reply (req_of c)) (wire ps) = responses (ms_reply (req_of c)) (from_cb c ps).
  Proof.
    unfold responses, from_cb, wire, by_cb. rewrite !filter_map_comm. f_equal.
    apply filter_filter_impl. intros x Hx HP. apply N.eqb_eq. apply resp_tag; [|done].
    by apply elem_of_list_In.
  Qed.

  Lemma responses_other c' : c' <> c -> responses (ms_reply (req_of c)) (from_cb c' ps) = [].
  Proof.
    intros Hne. destruct (responses _ (from_cb c' ps)) as [|b l] eqn:E; [done|]. exfalso.
    assert (Hb : In b (responses (ms_reply (req_of c)) (from_cb c' ps))) by (rewrite E; by left).
    unfold responses, from_cb, wire, by_cb in Hb. apply List.filter_In in Hb as [Hb HP].
    apply List.in_map_iff in Hb as (x & <- & Hx). apply List.filter_In in Hx as [Hx Ht].
    apply N.eqb_eq in Ht. apply Hne. rewrite <- Ht. apply resp_tag; [|done]. by apply elem_of_list_In.
  Qed.
End Own.

Lemma lenq_accepted tr g c i : lenq tr i = Some (g, c) -> c ∈ accepted_cbs tr g.
Proof.
  intros H. assert (Ha : accepted_at tr g i = Some c) by (unfold accepted_at; by rewrite H, N.eqb_refl).
  apply omap_seq_elem. exists i. split; [by eapply accepted_at_lt|done].
Qed.

(* ---------- (2) safety: at most one response, in every reachable situation ---------- *)
Lemma requests_answered_at_most_once_always_pf : forall cfg req_of tr s pd ps i g c rt rn me,
  run init tr = Some s -> NoDup (checked_cbs tr) -> consistent (req_msgs cfg req_of) tr pd ps ->
  distinct_replies req_of (checked_cbs tr) -> lenq tr i = Some (g, c) ->
  ms_reply (req_of c) <> [] -> inbox_like (ms_reply (req_of c)) = true ->
  split_subject (ms_subj (req_of c)) = Some (rt, rn, me) ->
  (List.length (responses (ms_reply (req_of c)) (wire ps)) <= 1)%nat /\
  from_cb c ps `prefix_of` req_body cfg req_of c /\
  forall c', c' <> c -> responses (ms_reply (req_of c)) (from_cb c' ps) = [].
Proof.
  intros cfg req_of tr s pd ps i g c rt rn me Hr Hnd Hc Hd Hq HR HI HS.
  assert (Hin : c ∈ checked_cbs tr) by (eapply accepted_checked; eauto using lenq_accepted).
  pose proof (from_cb_prefix_pf (req_body cfg req_of) tr s pd ps c Hr Hnd Hc) as Hpre.
  split; [|split; [done|]].
  - rewrite (responses_own cfg req_of tr s pd ps c Hr Hnd Hc Hd Hin HI).
    etransitivity; [apply responses_prefix_le; exact Hpre|].
    unfold req_body. rewrite (exactly_one_response_pf cfg (req_of c) rt rn me HR HI HS).
    destruct (silent cfg (req_of c) rt rn); lia.
  - intros c'. by apply (responses_other cfg req_of tr s pd ps c Hr Hnd Hc Hd Hin HI).
Qed.

(* ---------- (1) liveness at quiescence: exactly one ---------- *)
Lemma requests_answered_once_pf : forall cfg req_of tr s pd ps i g c rt rn me,
  run init tr = Some s -> NoDup (checked_cbs tr) -> consistent (req_msgs cfg req_of) tr pd ps ->
  has_close tr = false -> svc s = Started -> quiescent s ->
  distinct_replies req_of (checked_cbs tr) -> lenq tr i = Some (g, c) ->
  ms_reply (req_of c) <> [] -> inbox_like (ms_reply (req_of c)) = true ->
  split_subject (ms_subj (req_of c)) = Some (rt, rn, me) -> silent cfg (req_of c) rt rn = false ->
  List.length (responses (ms_reply (req_of c)) (wire ps)) = 1%nat /\
  from_cb c ps = req_body cfg req_of c /\
  List.length (responses (ms_reply (req_of c)) (from_cb c ps)) = 1%nat /\
  forall c', c' <> c -> responses (ms_reply (req_of c)) (from_cb c' ps) = [].
Proof.
  intros cfg req_of tr s pd ps i g c rt rn me Hr Hnd Hc Hcl Hsv Hq Hd Hl HR HI HS Hsil.
  pose proof (lenq_accepted _ _ _ _ Hl) as Hacc.
  assert (Hin : c ∈ checked_cbs tr) by (eapply accepted_checked; eauto).
  pose proof (accepted_started_all _ _ _ _ Hr Hcl Hsv Hq Hnd Hacc) as Hst.
  assert (Hall : from_cb c ps = req_body cfg req_of c).
  { apply (from_cb_done_pf (req_body cfg req_of) tr s pd ps c Hr Hnd Hc Hst).
    intros k. by apply quiescent_no_cruns. }
  assert (Hone : List.length (responses (ms_reply (req_of c)) (from_cb c ps)) = 1%nat).
  { rewrite Hall. unfold req_body. rewrite (exactly_one_response_pf cfg (req_of c) rt rn me HR HI HS).
    by rewrite Hsil. }
  split_and!; [|done|done|].
  - by rewrite (responses_own cfg req_of tr s pd ps c Hr Hnd Hc Hd Hin HI).
  - intros c'. by apply (responses_other cfg req_of tr s pd ps c Hr Hnd Hc Hd Hin HI).
Qed.

(* the deliberately unanswered requests stay unanswered *)
Lemma silent_requests_unanswered_pf : forall cfg req_of tr s pd ps i g c rt rn me,
  run init tr = Some s -> NoDup (checked_cbs tr) -> consistent (req_msgs cfg req_of) tr pd ps ->
  distinct_replies req_of (checked_cbs tr) -> lenq tr i = Some (g, c) ->
  ms_reply (req_of c) <> [] -> inbox_like (ms_reply (req_of c)) = true ->
  split_subject (ms_subj (req_of c)) = Some (rt, rn, me) -> silent cfg (req_of c) rt rn = true ->
  responses (ms_reply (req_of c)) (wire ps) = [].
Proof.
  intros cfg req_of tr s pd ps i g c rt rn me Hr Hnd Hc Hd Hq HR HI HS Hsil.
  assert (Hin : c ∈ checked_cbs tr) by (eapply accepted_checked; eauto using lenq_accepted).
  rewrite (responses_own cfg req_of tr s pd ps c Hr Hnd Hc Hd Hin HI).
  pose proof (from_cb_prefix_pf (req_body cfg req_of) tr s pd ps c Hr Hnd Hc) as Hpre.
  destruct (access_unhandled_silent_pf cfg (req_of c) rt rn me HR HS Hsil) as [Hnil _].
  unfold req_body in Hpre. rewrite Hnil in Hpre. destruct Hpre as [rest Hrest].
  symmetry in Hrest. apply app_eq_nil in Hrest as [-> _]. done.
Qed.

(* ---------- (3) the other callbacks do not matter ---------- *)
(* once callback c has returned, what it put on the connection is what handling its request ALONE
   gives, whatever the other callbacks do (panic included); and no callback kills its worker *)
Lemma callback_alone_pf : forall cfg req_of tr s pd ps c,
  run init tr = Some s -> NoDup (checked_cbs tr) -> consistent (req_msgs cfg req_of) tr pd ps ->
  c ∈ ended_all tr ->
  from_cb c ps = Req.Model.pubs (snd (handle_request cfg (req_of c))) /\
  forall c', fst (handle_request cfg (req_of c')) = Done.
Proof.
  intros cfg req_of tr s pd ps c Hr Hnd Hc He. split.
  - exact (from_cb_ended_pf (req_body cfg req_of) tr s pd ps c Hr Hnd Hc He).
  - intros c'. apply panic_contained_pf.
Qed.

(* two executions (other traces, other handlers and requests for the other callbacks, e.g. panicking
   ones) in which c handles the same request the same way: c's publications are the same *)
Lemma panic_isolated_pf : forall cfg cfg' req_of req_of' tr tr' s s' pd pd' ps ps' c,
  run init tr = Some s -> NoDup (checked_cbs tr) -> consistent (req_msgs cfg req_of) tr pd ps ->
  run init tr' = Some s' -> NoDup (checked_cbs tr') -> consistent (req_msgs cfg' req_of') tr' pd' ps' ->
  c ∈ ended_all tr -> c ∈ ended_all tr' ->
  handle_request cfg (req_of c) = handle_request cfg' (req_of' c) ->
  from_cb c ps = from_cb c ps'.
Proof.
  intros cfg cfg' req_of req_of' tr tr' s s' pd pd' ps ps' c Hr Hnd Hc Hr' Hnd' Hc' He He' Heq.
  rewrite (from_cb_ended_pf (req_body cfg req_of) tr s pd ps c Hr Hnd Hc He).
  rewrite (from_cb_ended_pf (req_body cfg' req_of') tr' s' pd' ps' c Hr' Hnd' Hc' He').
  unfold req_body. by rewrite Heq.
Qed.

(* a group g <> 0 answers its requests as ONE worker handling them one after the other would
   (C04.sequence_unaffected), although its callbacks migrate between workers *)
Lemma group_as_sequence_pf : forall cfg req_of tr s pd ps g,
  run init tr = Some s -> consistent (req_msgs cfg req_of) tr pd ps -> g <> 0%N -> idle s g ->
  handle_requests cfg (map req_of (started_cbs tr g)) =
    (Done, map (fun c => snd (handle_request cfg (req_of c))) (started_cbs tr g)) /\
  map snd (gproj g ps) =
    concat (map Req.Model.pubs (snd (handle_requests cfg (map req_of (started_cbs tr g))))).
Proof.
  intros cfg req_of tr s pd ps g Hr Hc Hg Hid.
  assert (Hseq : handle_requests cfg (map req_of (started_cbs tr g)) =
                 (Done, map (fun c => snd (handle_request cfg (req_of c))) (started_cbs tr g))).
  { rewrite sequence_unaffected_pf. by rewrite List.map_map. }
  split; [done|]. rewrite Hseq. cbn [snd]. rewrite List.map_map.
  rewrite (group_pubs_idle_pf (req_msgs cfg req_of) tr s pd ps g Hr Hc Hg Hid).
  apply (map_snd_tagged (req_body cfg req_of)).
Qed.
