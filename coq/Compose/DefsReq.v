(* Vocabulary of the composition of the scheduler engine with the request engine (Req/, C04).
   Only definitions.

   An execution = a scheduler trace tr (run init tr = Some s) + an assignment of a request message to
   every callback identity ([req_of c], handled by the C04 interpreter [handle_request cfg]) + a global
   publication sequence ps [consistent] (Compose/Defs.v) with tr, in which callback c publishes the
   messages of its request, each tagged (ghost) with c.  An element of ps is (group, (callback, message)). *)
From GoRes Require Import Req.Spec.
From stdpp Require Import gmap.
From Coq Require Import NArith.
From GoRes Require Import Sched.Model Sched.Spec Compose.Defs.

(* callbacks of the LStart / LEnd labels of a trace, any group *)
Definition started_all (tr : list label) : list N :=
  omap (fun l => match l with LStart _ c => Some c | _ => None end) tr.
Definition ended_all (tr : list label) : list N :=
  omap (fun l => match l with LEnd _ c => Some c | _ => None end) tr.

(* messages tagged with the callback that publishes them *)
Definition tagged {B} (body : N -> list B) (c : N) : list (N * B) := map (pair c) (body c).
(* what is on the connection / what callback c put there *)
Definition wire {B} (ps : list (N * (N * B))) : list B := map (fun x => snd (snd x)) ps.
Definition by_cb {B} (c : N) (ps : list (N * (N * B))) : list (N * (N * B)) :=
  List.filter (fun x => N.eqb (fst (snd x)) c) ps.
Definition from_cb {B} (c : N) (ps : list (N * (N * B))) : list B := wire (by_cb c ps).

(* the request engine: callback c handles the request [req_of c] *)
Definition req_body (cfg : config) (req_of : N -> msg) (c : N) : list pubmsg :=
  Req.Model.pubs (snd (handle_request cfg (req_of c))).
Definition req_msgs (cfg : config) (req_of : N -> msg) : N -> list (N * pubmsg) :=
  tagged (req_body cfg req_of).

(* premise on the inputs: the requests of different callbacks have different reply subjects
   (NATS: every request carries its own unique inbox) *)
Definition distinct_replies (req_of : N -> msg) (cs : list N) : Prop :=
  forall c1 c2, c1 ∈ cs -> c2 ∈ cs -> c1 <> c2 -> ms_reply (req_of c1) <> ms_reply (req_of c2).
