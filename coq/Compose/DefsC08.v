(* Vocabulary of the composition theorems that are stated with C08's own definitions
   (Event/Spec.v: callback, callback_msgs, group_trace, merges, project).  Only definitions. *)
From stdpp Require Import gmap.
From Coq Require Import NArith.
From GoRes Require Import Event.Spec.
From GoRes Require Import Sched.Model Sched.Spec Compose.Defs.

(* a callback identity c of the scheduler LTS stands for the event-engine callback [cb_of c]; what
   executing it publishes (Props/C08.program_order) *)
Definition cmsgs (cb_of : N -> callback) (c : N) : list (bytes * bytes) := callback_msgs (cb_of c).

(* the groups gs, each with the event-engine callbacks it started, in start order *)
Definition sched_groups (cb_of : N -> callback) (tr : list label) (gs : list N) : list (N * list callback) :=
  map (fun g => (g, map cb_of (started_cbs tr g))) gs.

(* the publications of the serialised groups (group 0 = Parallel resources / WithGroup("") excluded:
   its callbacks execute concurrently, [group_trace] does not describe them) *)
Definition serial_part {M} (trace : list (N * M)) : list (N * M) :=
  List.filter (fun m => negb (N.eqb (fst m) 0)) trace.
