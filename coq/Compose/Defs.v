(* Vocabulary of the composition theorems (Props/Compose.v): what a trace of the scheduler LTS
   (Sched/Model.v) says about ONE worker group, as seen by the engines that sit on top of the
   scheduler (Event/ = C08, Query/ = C15).  Only definitions here, no proofs.

   - [group_events tr g]   the sub-sequence of the LStart / LEnd labels of [tr] whose callback belongs to
                           group g ([lgroup] of Sched/AccessLTS.v: the group of the work item the label's
                           worker owns in the state before the label), as [GStart c] / [GEnd c]
   - [sequential cs o]     Start c1, End c1, Start c2, End c2, ... followed, when o = Some c, by one
                           unmatched Start c: the executions of cs one after the other, c still running
   - [started_cbs tr g]    the callbacks of g in LStart order
   - [accepted_cbs tr g]   the callbacks runWith accepted for g, in the order of the critical sections
                           (LEnq ENew / EAppend) that accepted them ([lenq] of Sched/AccessLTS.v)
   - [consistent msgs ..]  the publications of the callbacks executing along a trace (Compose/SchedEvent.v) *)
From stdpp Require Import gmap.
From Coq Require Import NArith.
From GoRes Require Export Sched.Spec Sched.AccessLTS.

Inductive gev := GStart (c : N) | GEnd (c : N).
Global Instance gev_eq_dec : EqDecision gev.
Proof. solve_decision. Defined.

(* the event of group g at position i of the trace, if any *)
Definition gev_at (tr : list label) (g : N) (i : nat) : option gev :=
  match lgroup tr i with
  | Some g' =>
    if N.eqb g' g then
      match tr !! i with
      | Some (LStart _ c) => Some (GStart c)
      | Some (LEnd _ c) => Some (GEnd c)
      | _ => None
      end
    else None
  | None => None
  end.
Definition group_events (tr : list label) (g : N) : list gev :=
  omap (gev_at tr g) (seq 0 (length tr)).

Definition open_list (o : option N) : list gev := match o with Some c => [GStart c] | None => [] end.
Definition sequential (cs : list N) (o : option N) : list gev :=
  concat (map (fun c => [GStart c; GEnd c]) cs) ++ open_list o.

(* the same as a decidable check: [alternates None l = true] iff l = sequential cs o for some cs, o *)
Fixpoint alternates (o : option N) (l : list gev) : bool :=
  match l, o with
  | [], _ => true
  | GStart c :: r, None => alternates (Some c) r
  | GEnd c :: r, Some c' => N.eqb c c' && alternates None r
  | _, _ => false
  end.

Definition starts (l : list gev) : list N :=
  omap (fun e => match e with GStart c => Some c | GEnd _ => None end) l.
Definition started_cbs (tr : list label) (g : N) : list N := starts (group_events tr g).

Definition accepted_at (tr : list label) (g : N) (i : nat) : option N :=
  match lenq tr i with
  | Some (g', c) => if N.eqb g' g then Some c else None
  | None => None
  end.
Definition accepted_cbs (tr : list label) (g : N) : list N :=
  omap (accepted_at tr g) (seq 0 (length tr)).

(* ---------- what executing callbacks publish ---------- *)
(* [msgs c] = the messages callback c publishes, in program order (for the event engine:
   Event.Spec.callback_msgs of the callback with identity c, see Props/C08.program_order).

   [consistent msgs tr pd ps]: [ps] (group, message) is a global publication sequence of an execution
   whose scheduler trace is [tr]; [pd k] = Some (g, rest) while worker k executes a callback of group g
   that has still to publish [rest].  A callback publishes its messages in order, at arbitrary moments
   between its LStart and its LEnd label (so the publications of concurrently executing callbacks
   interleave arbitrarily), and it has published all of them when it returns. *)
Definition wgroup (s : st) (k : nat) : option N :=
  match workers s !! k with
  | Some p => match owned p with Some w => gid_of s w | None => None end
  | None => None
  end.

Definition pending (M : Type) := nat -> option (N * list M).
Definition pd_set {M} (pd : pending M) (k : nat) (v : option (N * list M)) : pending M :=
  fun k' => if Nat.eqb k' k then v else pd k'.
Definition is_exec (l : label) : bool :=
  match l with LStart _ _ | LEnd _ _ => true | _ => false end.

Inductive consistent {M : Type} (msgs : N -> list M) : list label -> pending M -> list (N * M) -> Prop :=
  | cons_nil : consistent msgs [] (fun _ => None) []
  | cons_other tr pd ps l :
      consistent msgs tr pd ps -> is_exec l = false -> consistent msgs (tr ++ [l]) pd ps
  | cons_start tr pd ps s k c g :
      consistent msgs tr pd ps -> run init tr = Some s -> wgroup s k = Some g ->
      consistent msgs (tr ++ [LStart k c]) (pd_set pd k (Some (g, msgs c))) ps
  | cons_pub tr pd ps k g m rest :
      consistent msgs tr pd ps -> pd k = Some (g, m :: rest) ->
      consistent msgs tr (pd_set pd k (Some (g, rest))) (ps ++ [(g, m)])
  | cons_end tr pd ps k c g :
      consistent msgs tr pd ps -> pd k = Some (g, []) ->
      consistent msgs (tr ++ [LEnd k c]) (pd_set pd k None) ps.

(* the messages of group g, in publication order (Event.Spec.project at M = bytes * bytes) *)
Definition gproj {M} (g : N) (ps : list (N * M)) : list M :=
  map snd (List.filter (fun m => N.eqb (fst m) g) ps).

(* no callback of group g is executing in state s *)
Definition idle (s : st) (g : N) : Prop :=
  forall k w i c, workers s !! k = Some (WRun w i c) -> gid_of s w <> Some g.
