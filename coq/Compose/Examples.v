(* Composition: an executable generator of [consistent] publication sequences (a schedule of
   scheduler labels and "worker k publishes its next message" actions), and the concrete traces of
   the non-vacuity examples of Props/Compose.v. *)
From Coq Require Import String.
From GoRes Require Import Event.Spec.
From stdpp Require Import gmap.
From Coq Require Import NArith Lia.
From GoRes Require Import Sched.Model Sched.Spec Compose.Defs Compose.DefsC08 Compose.SchedSeq Compose.SchedEvent
  Compose.SchedC08.

(* ---------- schedules ---------- *)
Inductive act := ALabel (l : label) | APub (k : nat).
Definition cstate (M : Type) : Type := list label * pending M * list (N * M).

Definition cstep {M} (msgs : N -> list M) (x : cstate M) (a : act) : option (cstate M) :=
  let '(tr, pd, ps) := x in
  match a with
  | ALabel (LStart k c) =>
    match run init tr with
    | Some s => match wgroup s k with
                | Some g => Some (tr ++ [LStart k c], pd_set pd k (Some (g, msgs c)), ps)
                | None => None end
    | None => None
    end
  | ALabel (LEnd k c) =>
    match pd k with
    | Some (g, []) => Some (tr ++ [LEnd k c], pd_set pd k None, ps)
    | _ => None
    end
  | ALabel l => Some (tr ++ [l], pd, ps)
  | APub k =>
    match pd k with
    | Some (g, m :: rest) => Some (tr, pd_set pd k (Some (g, rest)), ps ++ [(g, m)])
    | _ => None
    end
  end.
Fixpoint crun_from {M} (msgs : N -> list M) (x : cstate M) (acts : list act) : option (cstate M) :=
  match acts with
  | [] => Some x
  | a :: r => match cstep msgs x a with Some x' => crun_from msgs x' r | None => None end
  end.
Definition crun {M} (msgs : N -> list M) (acts : list act) : option (cstate M) :=
  crun_from msgs ([], fun _ => None, []) acts.

Lemma cstep_sound {M} (msgs : N -> list M) tr pd ps a tr' pd' ps' :
  consistent msgs tr pd ps -> cstep msgs (tr, pd, ps) a = Some (tr', pd', ps') ->
  consistent msgs tr' pd' ps'.
Proof.
  intros Hc Hs. destruct a as [l|k]; simpl in Hs.
  - destruct l; try (injection Hs as <- <- <-; by apply cons_other).
    + destruct (run init tr) as [s|] eqn:Hr; [|done]. destruct (wgroup s k) as [g|] eqn:Hg; [|done].
      injection Hs as <- <- <-. by eapply cons_start.
    + destruct (pd k) as [[g [|m rest]]|] eqn:Hk; try done.
      injection Hs as <- <- <-. by eapply cons_end.
  - destruct (pd k) as [[g [|m rest]]|] eqn:Hk; try done.
    injection Hs as <- <- <-. by eapply cons_pub.
Qed.

Lemma crun_from_sound {M} (msgs : N -> list M) acts : forall tr pd ps tr' pd' ps',
  consistent msgs tr pd ps -> crun_from msgs (tr, pd, ps) acts = Some (tr', pd', ps') ->
  consistent msgs tr' pd' ps'.
Proof.
  induction acts as [|a acts IH]; intros tr pd ps tr' pd' ps' Hc Hr; cbn [crun_from] in Hr.
  - inversion Hr; subst. exact Hc.
  - destruct (cstep msgs (tr, pd, ps) a) as [[[tr1 pd1] ps1]|] eqn:Hs; [|done].
    eapply IH; [|exact Hr]. eapply cstep_sound; eauto.
Qed.

Lemma crun_sound {M} (msgs : N -> list M) acts tr ps :
  match crun msgs acts with Some (tr', _, ps') => tr' = tr /\ ps' = ps | None => False end ->
  exists pd, consistent msgs tr pd ps.
Proof.
  unfold crun. destruct (crun_from msgs _ acts) as [[[tr' pd'] ps']|] eqn:Hr; [|done].
  intros [-> ->]. exists pd'. eapply crun_from_sound; [|exact Hr]. constructor.
Qed.

(* ---------- traces ---------- *)
(* two groups (5, 6) on two workers; 5's callbacks run on both workers in turn; a Shutdown; a second
   serve cycle with one worker *)
Definition tr_long : list label :=
  [LServeCAS true; LServeInit 2; LServeStarted;
   LCheck 1 5 100 true; LEnq 1 ENew; LCheck 2 6 200 true; LEnq 2 ENew; LCheck 3 5 101 true; LEnq 3 EAppend;
   LSect 0 false (RTake 0); LSect 1 false (RTake 1); LStart 0 100; LStart 1 200; LEnd 1 200; LEnd 0 100;
   LSect 0 false RNext; LStart 0 101; LCheck 4 5 102 true; LEnd 0 101; LSect 0 true RWait; LEnq 4 ENew;
   LSect 1 true (RTake 2); LStart 1 102; LEnd 1 102; LSect 1 true RWait;
   LShutCAS true; LCloseNil; LBroadcast; LConnClose; LWake 0; LWake 1; LSect 0 false RExit; LSect 1 false RExit;
   LWgDone; LClearConn; LStopped;
   LServeCAS true; LServeInit 1; LServeStarted; LCheck 5 5 103 true; LEnq 5 ENew; LSect 0 false (RTake 3);
   LStart 0 103]%N.

Lemma sequential_nonvacuous_pf : exists s,
  run init tr_long = Some s /\
  group_events tr_long 5 = sequential [100; 101; 102]%N (Some 103%N) /\
  group_events tr_long 6 = sequential [200%N] None /\
  started_cbs tr_long 5 = [100; 101; 102; 103]%N /\ accepted_cbs tr_long 5 = [100; 101; 102; 103]%N.
Proof.
  destruct (run init tr_long) as [s|] eqn:E; [|by vm_compute in E].
  exists s. split; [done|]. split_and!; vm_compute; reflexivity.
Qed.

(* group 0 (Parallel): the executions do overlap *)
Definition tr_par0 : list label :=
  [LServeCAS true; LServeInit 2; LServeStarted;
   LCheck 1 0 100 true; LEnq 1 ENew; LCheck 2 0 101 true; LEnq 2 ENew;
   LSect 0 false (RTake 0); LSect 1 false (RTake 1); LStart 0 100; LStart 1 101]%N.
Lemma parallel_overlaps_pf : exists s,
  run init tr_par0 = Some s /\ group_events tr_par0 0 = [GStart 100; GStart 101] /\
  alternates None (group_events tr_par0 0) = false.
Proof.
  destruct (run init tr_par0) as [s|] eqn:E; [|by vm_compute in E].
  exists s. split; [done|]. split; vm_compute; reflexivity.
Qed.

(* publications: group 5 runs 100 then 101 on worker 0, group 6 runs 200 on worker 1; the messages of
   the two groups interleave, 101 is still executing at the end and has published one message *)
Definition ex_msgs (c : N) : list N := [10 * c; 10 * c + 1]%N.
Definition sched_pub : list act :=
  map ALabel [LServeCAS true; LServeInit 2; LServeStarted;
              LCheck 1 5 100 true; LEnq 1 ENew; LCheck 2 6 200 true; LEnq 2 ENew; LCheck 3 5 101 true;
              LEnq 3 EAppend; LSect 0 false (RTake 0); LSect 1 false (RTake 1); LStart 0 100]%N ++
  [APub 0; ALabel (LStart 1 200%N); APub 1; APub 0; ALabel (LEnd 0 100%N); ALabel (LSect 0 false RNext);
   ALabel (LStart 0 101%N); APub 0; APub 1; ALabel (LEnd 1 200%N)].
Definition tr_pub : list label :=
  [LServeCAS true; LServeInit 2; LServeStarted;
   LCheck 1 5 100 true; LEnq 1 ENew; LCheck 2 6 200 true; LEnq 2 ENew; LCheck 3 5 101 true;
   LEnq 3 EAppend; LSect 0 false (RTake 0); LSect 1 false (RTake 1); LStart 0 100;
   LStart 1 200; LEnd 0 100; LSect 0 false RNext; LStart 0 101; LEnd 1 200]%N.
Definition ps_pub : list (N * N) := [(5, 1000); (6, 2000); (5, 1001); (5, 1010); (6, 2001)]%N.

Lemma consistent_nonvacuous_pf : exists s pd,
  run init tr_pub = Some s /\ consistent ex_msgs tr_pub pd ps_pub /\
  gproj 5 ps_pub = [1000; 1001; 1010]%N /\ gproj 6 ps_pub = [2000; 2001]%N /\
  group_events tr_pub 5 = sequential [100%N] (Some 101%N).
Proof.
  destruct (run init tr_pub) as [s|] eqn:E; [|by vm_compute in E].
  destruct (crun_sound ex_msgs sched_pub tr_pub ps_pub) as [pd Hpd].
  { vm_compute. split; reflexivity. }
  exists s, pd. split; [done|]. split; [done|]. split_and!; vm_compute; reflexivity.
Qed.

(* query events: c1 = 100 and c2 = 101 of group 5 are accepted at 4 < 10, run on DIFFERENT workers *)
Definition tr_q : list label :=
  [LServeCAS true; LServeInit 2; LServeStarted;
   LCheck 1 5 100 true; LEnq 1 ENew; LSect 0 false (RTake 0); LStart 0 100; LEnd 0 100;
   LSect 0 true RWait;
   LCheck 2 5 101 true; LEnq 2 ENew; LSect 1 false (RTake 1); LStart 1 101]%N.
Lemma enq_order_nonvacuous_pf : exists s,
  run init tr_q = Some s /\ NoDup (checked_cbs tr_q) /\
  lenq tr_q 4 = Some (5, 100)%N /\ lenq tr_q 10 = Some (5, 101)%N /\
  tr_q !! 6 = Some (LStart 0 100%N) /\ tr_q !! 12 = Some (LStart 1 101%N) /\
  tr_q !! 7 = Some (LEnd 0 100%N).
Proof.
  destruct (run init tr_q) as [s|] eqn:E; [|by vm_compute in E].
  exists s. split; [done|]. split.
  - apply (bool_decide_unpack _). vm_compute. exact I.
  - split_and!; vm_compute; reflexivity.
Qed.

(* the event engine: callbacks of Event/Model.v, executed by the scheduler *)
Definition ex_cb_of (c : N) : callback :=
  if N.eqb c 200 then CB CtxWith TUnset (s2b "b"%string) [] [AReaccess]
  else CB CtxWith TUnset (s2b "a"%string) [] [AReaccess; AReset].
Definition sched_ev : list act :=
  map ALabel [LServeCAS true; LServeInit 2; LServeStarted;
              LCheck 1 5 100 true; LEnq 1 ENew; LCheck 2 6 200 true; LEnq 2 ENew; LCheck 3 5 101 true;
              LEnq 3 EAppend; LSignal 1; LSignal 2;
              LSect 0 false (RTake 0); LSect 1 false (RTake 1); LStart 0 100]%N ++
  [APub 0; ALabel (LStart 1 200%N); APub 1; APub 0; ALabel (LEnd 0 100%N); ALabel (LSect 0 false RNext);
   ALabel (LStart 0 101%N); APub 0; ALabel (LEnd 1 200%N); APub 0; ALabel (LEnd 0 101%N);
   ALabel (LSect 0 true RWait); ALabel (LSect 1 true RWait)].
Definition tr_ev : list label :=
  [LServeCAS true; LServeInit 2; LServeStarted;
   LCheck 1 5 100 true; LEnq 1 ENew; LCheck 2 6 200 true; LEnq 2 ENew; LCheck 3 5 101 true;
   LEnq 3 EAppend; LSignal 1; LSignal 2; LSect 0 false (RTake 0); LSect 1 false (RTake 1); LStart 0 100;
   LStart 1 200; LEnd 0 100; LSect 0 false RNext; LStart 0 101; LEnd 1 200; LEnd 0 101;
   LSect 0 true RWait; LSect 1 true RWait]%N.
Definition trace_ev : list (N * (bytes * bytes)) :=
  [(5%N, (s2b "event.a.reaccess", [])); (6%N, (s2b "event.b.reaccess", []));
   (5%N, (s2b "system.reset", s2b "{""resources"":[""a""]}"));
   (5%N, (s2b "event.a.reaccess", []));
   (5%N, (s2b "system.reset", s2b "{""resources"":[""a""]}"))]%string.

(* the premises of group_total_order_from_sched / sched_merges are met by an execution in which the
   publications of two groups interleave *)
Lemma c08_nonvacuous_pf : exists s pd,
  run init tr_ev = Some s /\ consistent (cmsgs ex_cb_of) tr_ev pd trace_ev /\
  has_close tr_ev = false /\ svc s = Started /\ quiescent s /\ NoDup (checked_cbs tr_ev) /\
  accepted_cbs tr_ev 5 = [100; 101]%N /\ accepted_cbs tr_ev 6 = [200%N] /\
  map fst trace_ev = [5; 6; 5; 5; 5]%N.
Proof.
  destruct (run init tr_ev) as [s|] eqn:E; [|by vm_compute in E].
  destruct (crun_sound (cmsgs ex_cb_of) sched_ev tr_ev trace_ev) as [pd Hpd].
  { vm_compute. split; reflexivity. }
  exists s, pd. split; [done|]. split; [done|].
  vm_compute in E. inversion E; subst s; clear E.
  split; [reflexivity|]. split; [reflexivity|]. split.
  { split; [reflexivity|]. split; [|reflexivity]. apply map_to_list_empty_iff. vm_compute. reflexivity. }
  split.
  { apply (bool_decide_unpack _). vm_compute. exact I. }
  split_and!; vm_compute; reflexivity.
Qed.
