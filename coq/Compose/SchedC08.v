(* Composition, part 2b: the premises of Props/C08.group_total_order, in C08's own vocabulary
   (Event/Spec.v: callback_msgs, project, group_trace, merges), derived from the scheduler LTS.

   Instantiation: a callback identity c of the scheduler LTS stands for the event-engine callback
   [cb_of c]; what executing c publishes is [callback_msgs (cb_of c)] (Props/C08.program_order); the
   global publication trace is any sequence [consistent] with the scheduler trace (Compose/Defs.v). *)
From stdpp Require Import gmap.
From Coq Require Import NArith Lia.
From GoRes Require Import Event.Spec Event.ProofsOrder.
From GoRes Require Import Sched.Model Sched.Spec Sched.Inv Compose.Defs Compose.DefsC08 Compose.SchedSeq Compose.SchedEvent.


Lemma gproj_project g (trace : list (N * (bytes * bytes))) : gproj g trace = project g trace.
Proof. reflexivity. Qed.

Lemma concat_cmsgs cb_of cs : concat (map (cmsgs cb_of) cs) = concat (map callback_msgs (map cb_of cs)).
Proof. unfold cmsgs. by rewrite List.map_map. Qed.

(* the conclusion of C08.group_total_order, for the callbacks STARTED so far, when none of g executes *)
Lemma group_total_order_started_pf : forall cb_of tr s pd trace g,
  run init tr = Some s -> consistent (cmsgs cb_of) tr pd trace -> g <> 0%N -> idle s g ->
  project g trace = concat (map callback_msgs (map cb_of (started_cbs tr g))).
Proof.
  intros cb_of tr s pd trace g Hr Hc Hg Hid. rewrite <- gproj_project, <- concat_cmsgs.
  exact (group_pubs_idle_pf (cmsgs cb_of) tr s pd trace g Hr Hc Hg Hid).
Qed.

(* ... and for ALL the callbacks submitted to g, in submission order, at quiescence without Shutdown *)
Lemma group_total_order_from_sched_pf : forall cb_of tr s pd trace g,
  run init tr = Some s -> consistent (cmsgs cb_of) tr pd trace -> g <> 0%N ->
  has_close tr = false -> svc s = Started -> quiescent s -> base.NoDup (checked_cbs tr) ->
  project g trace = concat (map callback_msgs (map cb_of (accepted_cbs tr g))).
Proof.
  intros cb_of tr s pd trace g Hr Hc Hg Hcl Hsv Hq Hnd. rewrite <- gproj_project, <- concat_cmsgs.
  exact (group_pubs_all_pf (cmsgs cb_of) tr s pd trace g Hr Hc Hg Hcl Hsv Hq Hnd).
Qed.

(* ---------- the premise [merges] itself ---------- *)
Lemma Merge_partition {A} (f : A -> bool) (l : list A) :
  Merge (List.filter f l) (List.filter (fun x => negb (f x)) l) l.
Proof.
  induction l as [|a l IH]; simpl; [constructor|]. destruct (f a); simpl; by constructor.
Qed.

Lemma filter_filter_ne {M} (g g' : N) (l : list (N * M)) : g' <> g ->
  List.filter (fun m => N.eqb (fst m) g') (List.filter (fun m => negb (N.eqb (fst m) g)) l) =
  List.filter (fun m => N.eqb (fst m) g') l.
Proof.
  intros Hne. induction l as [|a l IH]; [done|]. simpl.
  destruct (N.eqb_spec (fst a) g) as [E|E]; simpl.
  - destruct (N.eqb_spec (fst a) g') as [E'|E']; [congruence|done].
  - by rewrite IH.
Qed.

Lemma merges_by_label {M} (gs : list N) : forall (trace : list (N * M)),
  List.NoDup gs -> (forall m, In m trace -> In (fst m) gs) ->
  merges (map (fun g => List.filter (fun m => N.eqb (fst m) g) trace) gs) trace.
Proof.
  induction gs as [|g gs IH]; intros trace Hnd Hall.
  - simpl. destruct trace as [|m t]; [done|]. destruct (Hall m); by left.
  - inversion Hnd as [|x xs Hg Hnd']; subst. cbn [map merges].
    exists (List.filter (fun m => negb (N.eqb (fst m) g)) trace). split; [|apply Merge_partition].
    assert (Hmap : map (fun g' => List.filter (fun m => N.eqb (fst m) g') trace) gs =
                   map (fun g' => List.filter (fun m => N.eqb (fst m) g')
                                    (List.filter (fun m => negb (N.eqb (fst m) g)) trace)) gs).
    { apply List.map_ext_in. intros g' Hin. symmetry. apply filter_filter_ne. intros ->.
      by apply Hg. }
    rewrite Hmap. apply IH; [done|]. intros m Hm. apply List.filter_In in Hm as [Hm Hne].
    destruct (Hall m Hm) as [E|?]; [|done]. rewrite E, N.eqb_refl in Hne. done.
Qed.

Lemma filter_label {M} g (trace : list (N * M)) :
  List.filter (fun m => N.eqb (fst m) g) trace = map (pair g) (gproj g trace).
Proof.
  unfold gproj. induction trace as [|[g' m] t IH]; [reflexivity|]. simpl.
  destruct (N.eqb_spec g' g) as [->|]; simpl; [f_equal; exact IH|exact IH].
Qed.



Lemma sched_merges_pf : forall cb_of tr s pd trace gs,
  run init tr = Some s -> consistent (cmsgs cb_of) tr pd trace ->
  List.NoDup gs -> (forall g, In g gs -> g <> 0%N /\ idle s g) ->
  (forall m, In m trace -> fst m <> 0%N -> In (fst m) gs) ->
  List.NoDup (map fst (sched_groups cb_of tr gs)) /\
  merges (map group_trace (sched_groups cb_of tr gs)) (serial_part trace).
Proof.
  intros cb_of tr s pd trace gs Hr Hc Hnd Hgs Hall. unfold sched_groups. split.
  - rewrite List.map_map. cbn [fst]. rewrite List.map_id. exact Hnd.
  - rewrite List.map_map.
    assert (Hmap : map (fun g => group_trace (g, map cb_of (started_cbs tr g))) gs =
                   map (fun g => List.filter (fun m => N.eqb (fst m) g) (serial_part trace)) gs).
    { apply List.map_ext_in. intros g Hin. destruct (Hgs g Hin) as [Hg Hid].
      unfold serial_part. rewrite filter_filter_ne by done.
      rewrite filter_label, (group_pubs_idle_pf (cmsgs cb_of) tr s pd trace g Hr Hc Hg Hid).
      unfold group_trace. cbn [fst snd]. rewrite run_group_msgs, concat_cmsgs. reflexivity. }
    rewrite Hmap. apply merges_by_label; [done|]. intros m Hm. unfold serial_part in Hm.
    apply List.filter_In in Hm as [Hm Hne]. apply Hall; [done|]. intros E. rewrite E in Hne. done.
Qed.

(* so Props/C08.group_total_order applies to the scheduler's executions *)
Lemma c08_applies_pf : forall cb_of tr s pd trace gs g,
  run init tr = Some s -> consistent (cmsgs cb_of) tr pd trace ->
  List.NoDup gs -> (forall g, In g gs -> g <> 0%N /\ idle s g) ->
  (forall m, In m trace -> fst m <> 0%N -> In (fst m) gs) -> In g gs ->
  project g (serial_part trace) = concat (map callback_msgs (map cb_of (started_cbs tr g))).
Proof.
  intros cb_of tr s pd trace gs g Hr Hc Hnd Hgs Hall Hin.
  destruct (sched_merges_pf cb_of tr s pd trace gs Hr Hc Hnd Hgs Hall) as [H1 H2].
  apply (group_total_order_pf _ _ H1 H2 g). unfold sched_groups.
  apply List.in_map_iff. exists g. done.
Qed.
