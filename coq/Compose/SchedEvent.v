(* Composition, part 2: what the callbacks executing along a scheduler trace publish.
   For a group g <> 0 the publications of g are the message lists of its callbacks, one after the
   other, in start order: this is the premise "callbacks of a group execute sequentially in
   submission order" of Props/C08.group_total_order, derived from the scheduler LTS. *)
From stdpp Require Import gmap.
From Coq Require Import NArith Lia.
From GoRes Require Import Sched.Model Sched.Spec Sched.Inv Sched.Proofs_C01 Sched.Shut_Base
  Sched.AccessLTS Sched.HB_Trace Sched.HB_Init Compose.Defs Compose.SchedSeq.

(* ---------- projections ---------- *)
Lemma gproj_app {M} g (a b : list (N * M)) : gproj g (a ++ b) = gproj g a ++ gproj g b.
Proof. unfold gproj. by rewrite List.filter_app, map_app. Qed.
Lemma gproj_one {M} g g0 (m : M) : gproj g [(g0, m)] = if N.eqb g0 g then [m] else [].
Proof. unfold gproj. simpl. destruct (N.eqb g0 g); done. Qed.

Lemma pd_set_eq {M} (pd : pending M) k v : pd_set pd k v k = v.
Proof. unfold pd_set. by rewrite Nat.eqb_refl. Qed.
Lemma pd_set_ne {M} (pd : pending M) k v k' : k' <> k -> pd_set pd k v k' = pd k'.
Proof. intros H. unfold pd_set. destruct (Nat.eqb_spec k' k); done. Qed.

(* ---------- the pending table describes the executing callbacks ---------- *)
Definition pd_ok {M} (msgs : N -> list M) (s : st) (pd : pending M) : Prop :=
  forall k g rest, pd k = Some (g, rest) -> exists c pre, runs s g k c /\ msgs c = pre ++ rest.

Lemma runs_group_unique s g g' k c c' : runs s g k c -> runs s g' k c' -> g = g' /\ c = c'.
Proof. intros (w & i & Hk & Hg) (w' & i' & Hk' & Hg'). rewrite Hk in Hk'. simplify_eq. split; congruence. Qed.

Lemma wgroup_gid s k p w g : workers s !! k = Some p -> owned p = Some w -> wgroup s k = Some g ->
  gid_of s w = Some g.
Proof. intros Hk Ho. unfold wgroup. rewrite Hk, Ho. done. Qed.

Lemma run_init_snoc tr l s' : run init (tr ++ [l]) = Some s' ->
  exists s1, run init tr = Some s1 /\ step s1 l = Some s' /\ Inv s1.
Proof.
  intros H. apply run_snoc in H as (s1 & Hr & Hs). exists s1. split_and!; [done..|]. by eapply Inv_run.
Qed.

Lemma pd_ok_inv {M} (msgs : N -> list M) tr pd ps :
  consistent msgs tr pd ps -> forall s, run init tr = Some s -> pd_ok msgs s pd.
Proof.
  induction 1 as [|tr pd ps l Hc IH Hl|tr pd ps s0 k c g0 Hc IH Hr0 Hwg|tr pd ps k g0 m rest Hc IH Hpd
                 |tr pd ps k c g0 Hc IH Hpd]; intros s Hr.
  - intros k g rest Hpd. done.
  - apply run_init_snoc in Hr as (s1 & Hr1 & Hs & HI). specialize (IH _ Hr1).
    intros k g rest Hpd. destruct (IH _ _ _ Hpd) as (c & pre & Hrun & Hm). exists c, pre. split; [|done].
    destruct (is_init l) eqn:Hin.
    + destruct l; try discriminate. exfalso.
      destruct (runs_step_init s1 n s g k c) as [Hn _]; [eapply init_all_exited; eauto|done|]. by apply Hn.
    + by apply (runs_step_other s1 l s).
  - apply run_init_snoc in Hr as (s1 & Hr1 & Hs & HI). rewrite Hr0 in Hr1. simplify_eq.
    specialize (IH _ Hr0). apply step_start_inv in Hs as (w & i & Hk & ->).
    assert (Hlt : k < length (workers s1)) by eauto using lookup_lt_Some.
    intros k' g rest Hpd. destruct (decide (k' = k)) as [->|Hne].
    + rewrite pd_set_eq in Hpd. simplify_eq. exists c, []. split; [|done].
      apply runs_set_workers; [done|]. left. split; [done|]. exists w, i. split; [done|].
      eapply wgroup_gid; eauto; done.
    + rewrite pd_set_ne in Hpd by done. destruct (IH _ _ _ Hpd) as (c' & pre & Hrun & Hm).
      exists c', pre. split; [|done]. apply runs_set_workers; [done|]. right. done.
  - specialize (IH _ Hr). intros k' g rest' Hpd'. destruct (decide (k' = k)) as [->|Hne].
    + rewrite pd_set_eq in Hpd'. simplify_eq. destruct (IH _ _ _ Hpd) as (c & pre & Hrun & Hm).
      exists c, (pre ++ [m]). split; [done|]. rewrite Hm, <- app_assoc. done.
    + rewrite pd_set_ne in Hpd' by done. eauto.
  - apply run_init_snoc in Hr as (s1 & Hr1 & Hs & HI). specialize (IH _ Hr1).
    apply step_end_inv in Hs as (w & i & Hk & ->).
    assert (Hlt : k < length (workers s1)) by eauto using lookup_lt_Some.
    intros k' g rest Hpd'. destruct (decide (k' = k)) as [->|Hne].
    + rewrite pd_set_eq in Hpd'. done.
    + rewrite pd_set_ne in Hpd' by done. destruct (IH _ _ _ Hpd') as (c' & pre & Hrun & Hm).
      exists c', pre. split; [|done]. apply runs_set_workers; [done|]. right. done.
Qed.

(* ---------- the publications of one group ---------- *)
Definition pubs_ok {M} (msgs : N -> list M) (s : st) (pd : pending M) (ps : list (N * M))
    (g : N) (cs : list N) (o : option N) : Prop :=
  match o with
  | None => gproj g ps = concat (map msgs cs)
  | Some c => exists k pre rest, runs s g k c /\ pd k = Some (g, rest) /\ msgs c = pre ++ rest /\
                                 gproj g ps = concat (map msgs cs) ++ pre
  end.

Lemma transfer {M} (msgs : N -> list M) s s' pd pd' ps g cs o :
  (forall k c, runs s' g k c <-> runs s g k c) -> (forall k c, runs s g k c -> pd' k = pd k) ->
  open_rel s g o -> pubs_ok msgs s pd ps g cs o ->
  open_rel s' g o /\ pubs_ok msgs s' pd' ps g cs o.
Proof.
  intros Hiff Hpd Ho Hp. split; [by eapply open_rel_iff|]. destruct o as [c|]; [|done].
  destruct Hp as (k & pre & rest & Hrun & Hk & Hm & Hg). exists k, pre, rest.
  split_and!; [by apply Hiff|by rewrite (Hpd _ _ Hrun)|done..].
Qed.

Definition cinv {M} (msgs : N -> list M) tr s pd ps g : Prop :=
  exists cs o, group_events tr g = sequential cs o /\ started_cbs tr g = cs ++ option_list o /\
               open_rel s g o /\ pubs_ok msgs s pd ps g cs o.

Lemma ev_of_other s l g : is_exec l = false -> ev_of s l g = None.
Proof. by destruct l. Qed.

Lemma cinv_inv {M} (msgs : N -> list M) tr pd ps g :
  consistent msgs tr pd ps -> g <> 0%N -> forall s, run init tr = Some s -> cinv msgs tr s pd ps g.
Proof.
  intros Hcons Hg.
  induction Hcons as [|tr pd ps l Hc IH Hl|tr pd ps s0 k c g0 Hc IH Hr0 Hwg|tr pd ps k g0 m rest Hc IH Hpd
                     |tr pd ps k c g0 Hc IH Hpd]; intros s Hr.
  - (* nothing happened *)
    inversion Hr; subst s. exists [], None. split_and!; try done. intros k c (w & i & Hk & _). done.
  - (* a label that neither starts nor ends a callback *)
    apply run_init_snoc in Hr as (s1 & Hr1 & Hs & HI).
    destruct (IH _ Hr1) as (cs & o & Hev & Hst & Ho & Hp).
    exists cs, o. rewrite (started_cbs_snoc _ _ _ _ Hr1), (group_events_snoc _ _ _ _ Hr1).
    rewrite (ev_of_other _ _ _ Hl). simpl. rewrite !app_nil_r. split; [done|]. split; [done|].
    apply (transfer msgs s1 s pd pd ps g cs o); [|done..].
    intros k c. destruct (is_init l) eqn:Hin.
    + destruct l; try discriminate.
      destruct (runs_step_init s1 n s g k c); [eapply init_all_exited; eauto|done|tauto].
    + by apply (runs_step_other s1 l s).
  - (* LStart k c, group g0 *)
    apply run_init_snoc in Hr as (s1 & Hr1 & Hs & HI). rewrite Hr0 in Hr1. simplify_eq.
    pose proof (pd_ok_inv msgs _ _ _ Hc _ Hr0) as Hok.
    destruct (IH _ Hr0) as (cs & o & Hev & Hst & Ho & Hp).
    unfold cinv. rewrite (started_cbs_snoc _ _ _ _ Hr0), (group_events_snoc _ _ _ _ Hr0).
    pose proof Hs as Hs0. apply step_start_inv in Hs as (w & i & Hk & ->).
    assert (Hlt : k < length (workers s1)) by eauto using lookup_lt_Some.
    assert (Hgw : gid_of s1 w = Some g0) by (eapply wgroup_gid; eauto; done).
    assert (Hev0 : ev_of s1 (LStart k c) g = if N.eqb g0 g then Some (GStart c) else None).
    { unfold ev_of. by rewrite Hwg. }
    rewrite Hev0. destruct (N.eqb_spec g0 g) as [->|Hne].
    + destruct (open_step s1 (LStart k c) _ g o HI ltac:(done) Hs0 Hg Ho) as (o' & Ho' & Ht).
      rewrite Hev0 in Ht.
      destruct Ht as [(? & _)|[(c' & [= <-] & -> & ->)|(c' & ? & _)]]; try done.
      exists cs, (Some c). simpl in *. rewrite app_nil_r in Hst.
      rewrite Hev, Hst, sequential_start. split_and!; [done..|].
      exists k, [], (msgs c). split_and!; [|by rewrite pd_set_eq|done|by rewrite app_nil_r].
      apply runs_set_workers; [done|]. left. split; [done|]. eauto.
    + exists cs, o. simpl. rewrite !app_nil_r. split; [done|]. split; [done|].
      apply (transfer msgs s1 _ pd _ ps g cs o); [| |done..].
      * intros k' c'. rewrite runs_set_workers by done. split.
        -- intros [(-> & w' & i' & [= -> -> ->] & Hg')|[_ H]]; [congruence|done].
        -- intros H. right. split; [|done]. intros ->. destruct H as (w' & i' & Hk' & _). congruence.
      * intros k' c' (w' & i' & Hk' & _). apply pd_set_ne. intros ->. congruence.
  - (* a publication by worker k, executing a callback of group g0 *)
    pose proof (pd_ok_inv msgs _ _ _ Hc _ Hr) as Hok. pose proof (Inv_run _ _ Hr) as HI.
    destruct (IH _ Hr) as (cs & o & Hev & Hst & Ho & Hp).
    destruct (Hok _ _ _ Hpd) as (c & pre & Hrun & Hm).
    exists cs, o. split; [done|]. split; [done|].
    destruct (N.eqb_spec g0 g) as [->|Hne].
    + split; [done|]. destruct o as [c0|]; [|exfalso; by eapply Ho].
      destruct Hp as (k0 & pre0 & rest0 & Hrun0 & Hk0 & Hm0 & Hg0).
      destruct (runs_same _ _ _ _ _ _ HI Hg Hrun0 Hrun) as [-> ->]. rewrite Hpd in Hk0. simplify_eq.
      exists k, (pre0 ++ [m]), rest. split_and!; [done|by rewrite pd_set_eq| |].
      * rewrite Hm0, <- app_assoc. done.
      * rewrite gproj_app, gproj_one, N.eqb_refl, Hg0, <- app_assoc. done.
    + assert (Hgp : gproj g (ps ++ [(g0, m)]) = gproj g ps).
      { rewrite gproj_app, gproj_one. destruct (N.eqb_spec g0 g); [done|]. by rewrite app_nil_r. }
      destruct (transfer msgs s s pd (pd_set pd k (Some (g0, rest))) ps g cs o) as [Ho' Hp']; [done| |done..|].
      { intros k' c' Hrun'. apply pd_set_ne. intros ->.
        destruct (runs_group_unique _ _ _ _ _ _ Hrun Hrun'). done. }
      split; [done|]. destruct o as [c0|]; simpl in *.
      * destruct Hp' as (k0 & pre0 & rest0 & ? & ? & ? & Hg0). exists k0, pre0, rest0. by rewrite Hgp.
      * by rewrite Hgp.
  - (* LEnd k c, the callback (group g0) has published everything *)
    apply run_init_snoc in Hr as (s1 & Hr1 & Hs & HI).
    pose proof (pd_ok_inv msgs _ _ _ Hc _ Hr1) as Hok.
    destruct (IH _ Hr1) as (cs & o & Hev & Hst & Ho & Hp).
    unfold cinv. rewrite (started_cbs_snoc _ _ _ _ Hr1), (group_events_snoc _ _ _ _ Hr1).
    pose proof Hs as Hs0. apply step_end_inv in Hs as (w & i & Hk & ->).
    assert (Hlt : k < length (workers s1)) by eauto using lookup_lt_Some.
    destruct (Hok _ _ _ Hpd) as (c' & pre & Hrun & Hm).
    assert (c' = c) as ->.
    { destruct Hrun as (w' & i' & Hk' & _). congruence. }
    assert (Hwg : wgroup s1 k = Some g0).
    { destruct Hrun as (w' & i' & Hk' & Hg'). unfold wgroup. rewrite Hk'. done. }
    assert (Hev0 : ev_of s1 (LEnd k c) g = if N.eqb g0 g then Some (GEnd c) else None).
    { unfold ev_of. by rewrite Hwg. }
    rewrite Hev0. destruct (N.eqb_spec g0 g) as [->|Hne].
    + destruct (open_step s1 (LEnd k c) _ g o HI ltac:(done) Hs0 Hg Ho) as (o' & Ho' & Ht).
      rewrite Hev0 in Ht.
      destruct Ht as [(? & _)|[(c' & ? & _)|(c' & [= <-] & -> & ->)]]; try done.
      exists (cs ++ [c]), None. simpl in *.
      rewrite Hev, Hst, sequential_end, !app_nil_r. split_and!; [done..|].
      destruct Hp as (k0 & pre0 & rest0 & Hrun0 & Hk0 & Hm0 & Hg0).
      destruct (runs_same _ _ _ _ _ _ HI Hg Hrun0 Hrun) as [-> _]. rewrite Hpd in Hk0. simplify_eq.
      rewrite app_nil_r in Hm0. rewrite Hg0, map_app, concat_app. simpl. by rewrite app_nil_r, Hm0.
    + exists cs, o. simpl. rewrite !app_nil_r. split; [done|]. split; [done|].
      apply (transfer msgs s1 _ pd _ ps g cs o); [| |done..].
      * intros k' c'. rewrite runs_set_workers by done. split.
        -- intros [(_ & w' & i' & ? & _)|[_ H]]; done.
        -- intros H. right. split; [|done]. intros ->.
           destruct (runs_group_unique _ _ _ _ _ _ Hrun H). done.
      * intros k' c' Hrun'. apply pd_set_ne. intros ->.
        destruct (runs_group_unique _ _ _ _ _ _ Hrun Hrun'). done.
Qed.

(* ---------- the theorem ---------- *)
Lemma group_pubs_concat_pf {M} (msgs : N -> list M) : forall tr s pd ps g,
  run init tr = Some s -> consistent msgs tr pd ps -> g <> 0%N ->
  exists cs o, group_events tr g = sequential cs o /\ started_cbs tr g = cs ++ option_list o /\
    match o with
    | None => gproj g ps = concat (map msgs cs)
    | Some c => exists pre, pre `prefix_of` msgs c /\ gproj g ps = concat (map msgs cs) ++ pre
    end.
Proof.
  intros tr s pd ps g Hr Hc Hg. destruct (cinv_inv msgs tr pd ps g Hc Hg s Hr) as (cs & o & Hev & Hst & Ho & Hp).
  exists cs, o. split; [done|]. split; [done|]. destruct o as [c|]; [|done].
  destruct Hp as (k & pre & rest & _ & _ & Hm & Hgp). exists pre. split; [|done]. exists rest. done.
Qed.

(* no callback of g executing at the end of the trace: all of it *)

Lemma group_pubs_idle_pf {M} (msgs : N -> list M) : forall tr s pd ps g,
  run init tr = Some s -> consistent msgs tr pd ps -> g <> 0%N -> idle s g ->
  gproj g ps = concat (map msgs (started_cbs tr g)).
Proof.
  intros tr s pd ps g Hr Hc Hg Hid. destruct (cinv_inv msgs tr pd ps g Hc Hg s Hr) as (cs & o & Hev & Hst & Ho & Hp).
  destruct o as [c|].
  - exfalso. destruct Ho as (k & w & i & Hk & Hgw). by eapply Hid.
  - simpl in *. by rewrite Hst, app_nil_r.
Qed.

Lemma quiescent_idle s g : quiescent s -> idle s g.
Proof.
  intros (Hq & _) k w i c Hk. exfalso.
  assert (worker_quiet (WRun w i c) = true); [|done].
  revert k Hk. induction (workers s) as [|a l IH]; intros k Hk; [done|]. simpl in Hq.
  apply andb_true_iff in Hq as [Ha Hq]. destruct k; simpl in Hk; [congruence|eauto].
Qed.

(* at quiescence, without Shutdown: the publications of g are those of ALL the callbacks accepted
   for g, in acceptance order *)
Lemma group_pubs_all_pf {M} (msgs : N -> list M) : forall tr s pd ps g,
  run init tr = Some s -> consistent msgs tr pd ps -> g <> 0%N ->
  has_close tr = false -> svc s = Started -> quiescent s -> NoDup (checked_cbs tr) ->
  gproj g ps = concat (map msgs (accepted_cbs tr g)).
Proof.
  intros tr s pd ps g Hr Hc Hg Hcl Hsv Hq Hnd.
  rewrite <- (group_starts_all_pf tr s g Hr Hcl Hsv Hq Hnd Hg).
  eapply group_pubs_idle_pf; eauto. by apply quiescent_idle.
Qed.

(* ---------- non-vacuity: every accepted trace has a consistent publication sequence ---------- *)
Lemma pub_all {M} (msgs : N -> list M) tr k g : forall l pd ps,
  consistent msgs tr pd ps -> pd k = Some (g, l) ->
  exists pd', consistent msgs tr pd' (ps ++ map (pair g) l) /\ pd' k = Some (g, []) /\
              forall k', k' <> k -> pd' k' = pd k'.
Proof.
  induction l as [|m l IH]; intros pd ps Hc Hpd.
  - exists pd. simpl. rewrite app_nil_r. done.
  - pose proof (cons_pub msgs tr pd ps k g m l Hc Hpd) as Hc'.
    destruct (IH _ _ Hc' (pd_set_eq _ _ _)) as (pd' & Hc'' & Hk & Hne).
    exists pd'. simpl. rewrite <- app_assoc in Hc''. split_and!; [done..|].
    intros k' Hk'. rewrite (Hne _ Hk'). by apply pd_set_ne.
Qed.

Lemma consistent_exists_pf {M} (msgs : N -> list M) : forall tr s,
  run init tr = Some s -> exists pd ps, consistent msgs tr pd ps.
Proof.
  intros tr s Hr.
  cut (exists pd ps, consistent msgs tr pd ps /\
         forall k w i c, workers s !! k = Some (WRun w i c) -> exists g, pd k = Some (g, [])).
  { intros (pd & ps & H & _). eauto. }
  revert tr s Hr.
  apply (run_ind (fun tr s => exists pd ps, consistent msgs tr pd ps /\
         forall k w i c, workers s !! k = Some (WRun w i c) -> exists g, pd k = Some (g, []))).
  - exists (fun _ => None), []. split; [constructor|]. intros k w i c Hk. done.
  - intros tr s l s' Hr (pd & ps & Hc & Hrun) Hs. pose proof (Inv_run _ _ Hr) as HI.
    destruct (is_exec l) eqn:Hl.
    + destruct l as [ | | | | |k c|k c| | | | | | | | | | | | ]; try discriminate.
      * pose proof Hs as Hs0. apply step_start_inv in Hs as (w & i & Hk & ->).
        assert (Hlt : k < length (workers s)) by eauto using lookup_lt_Some.
        destruct (wgroup_WPre _ _ _ _ _ HI Hk) as (g & _ & Hwg).
        pose proof (cons_start msgs tr pd ps s k c g Hc Hr Hwg) as Hc1.
        destruct (pub_all msgs _ k g _ _ _ Hc1 (pd_set_eq _ _ _)) as (pd' & Hc2 & Hk' & Hne).
        exists pd', (ps ++ map (pair g) (msgs c)). split; [done|].
        intros k' w' i' c' Hk2. rewrite set_workers_workers in Hk2.
        destruct (decide (k' = k)) as [->|Hn]; [eauto|].
        rewrite list_lookup_insert_ne in Hk2 by done. rewrite (Hne _ Hn), pd_set_ne by done. eauto.
      * pose proof Hs as Hs0. apply step_end_inv in Hs as (w & i & Hk & ->).
        assert (Hlt : k < length (workers s)) by eauto using lookup_lt_Some.
        destruct (Hrun _ _ _ _ Hk) as (g & Hpd).
        exists (pd_set pd k None), ps. split; [by eapply cons_end|].
        intros k' w' i' c' Hk2. rewrite set_workers_workers in Hk2.
        destruct (decide (k' = k)) as [->|Hn].
        -- rewrite list_lookup_insert in Hk2 by done. done.
        -- rewrite list_lookup_insert_ne in Hk2 by done. rewrite pd_set_ne by done. eauto.
    + exists pd, ps. split; [by apply cons_other|].
      intros k w i c Hk. destruct (is_init l) eqn:Hin.
      * destruct l; try discriminate. apply (step_init_workers _ _ _ _ _ Hs) in Hk. done.
      * apply (step_WRun _ _ _ k w i c Hs Hl Hin) in Hk. eauto.
Qed.
