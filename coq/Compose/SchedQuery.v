(* Composition, part 3: the order in which runWith accepts the callbacks of one group is the order in
   which they start, and the earlier one has returned before the later one starts.  This is the
   modelling premise of the query-event LTS (Query/Model.v, label LQRun: "callbacks appended to the
   group queue run one at a time in append order"), derived from the scheduler LTS. *)
From stdpp Require Import gmap.
From Coq Require Import NArith Lia.
From GoRes Require Import Sched.Model Sched.Spec Sched.Inv Sched.Proofs_C01 Sched.Lemmas_Ghost
  Sched.Lemmas_AMO Sched.Shut_Base Sched.AccessLTS Sched.HB_Trace Sched.HB_Init Sched.Proofs_C02
  Sched.Proofs_C16 Compose.Defs Compose.SchedSeq.

(* ---------- x occurs before y ---------- *)
Definition before {A} (l : list A) (x y : A) : Prop := exists l1 l2 l3, l = l1 ++ x :: l2 ++ y :: l3.

Lemma before_lookup {A} (l : list A) x y :
  before l x y -> exists p q, p < q /\ l !! p = Some x /\ l !! q = Some y.
Proof.
  intros (l1 & l2 & l3 & ->). exists (length l1), (length (l1 ++ x :: l2)). split_and!.
  - rewrite app_length. simpl. lia.
  - by apply list_lookup_middle.
  - replace (l1 ++ x :: l2 ++ y :: l3) with ((l1 ++ x :: l2) ++ y :: l3) by (by rewrite <- app_assoc).
    by apply list_lookup_middle.
Qed.

Lemma before_NoDup {A} (l : list A) x y : NoDup l -> before l x y -> before l y x -> False.
Proof.
  intros Hnd H1 H2. apply before_lookup in H1 as (p1 & q1 & Hlt1 & Hp1 & Hq1).
  apply before_lookup in H2 as (p2 & q2 & Hlt2 & Hp2 & Hq2).
  pose proof (NoDup_lookup _ _ _ _ Hnd Hp1 Hq2). pose proof (NoDup_lookup _ _ _ _ Hnd Hq1 Hp2). lia.
Qed.
Lemma before_NoDup_ne {A} (l : list A) x : NoDup l -> before l x x -> False.
Proof. intros Hnd H. by eapply before_NoDup. Qed.

Lemma before_sublist {A} (l k : list A) x y : sublist l k -> before l x y -> before k x y.
Proof.
  intros Hs (l1 & l2 & l3 & ->).
  apply sublist_app_l in Hs as (k1 & k2 & -> & _ & Hs).
  apply sublist_cons_l in Hs as (k3 & k4 & -> & Hs).
  apply sublist_app_l in Hs as (k5 & k6 & -> & _ & Hs).
  apply sublist_cons_l in Hs as (k7 & k8 & -> & _).
  exists (k1 ++ k3), (k5 ++ k7), k8. by rewrite <- !app_assoc.
Qed.

Lemma before_omap {A B} (h : A -> option B) (l : list A) a b x y :
  before l a b -> h a = Some x -> h b = Some y -> before (omap h l) x y.
Proof.
  intros (l1 & l2 & l3 & ->) Ha Hb. exists (omap h l1), (omap h l2), (omap h l3).
  rewrite omap_app. csimpl. rewrite Ha, omap_app. csimpl. rewrite Hb. done.
Qed.

Lemma omap_seq_split {B} (f : nat -> option B) n i x : i < n -> f i = Some x ->
  omap f (seq 0 n) = omap f (seq 0 i) ++ x :: omap f (seq (S i) (n - S i)).
Proof.
  intros Hlt Hf. replace n with (i + S (n - S i)) at 1 by lia.
  rewrite seq_app, omap_app. simpl. csimpl. rewrite Hf. done.
Qed.

Lemma before_omap_seq {B} (f : nat -> option B) n i j x y :
  i < j -> j < n -> f i = Some x -> f j = Some y -> before (omap f (seq 0 n)) x y.
Proof.
  intros Hij Hjn Hi Hj. rewrite (omap_seq_split f n j y Hjn Hj), (omap_seq_split f j i x Hij Hi).
  eexists _, _, _. rewrite <- app_assoc. simpl. reflexivity.
Qed.

Lemma omap_seq_elem {B} (f : nat -> option B) n x :
  x ∈ omap f (seq 0 n) <-> exists i, i < n /\ f i = Some x.
Proof.
  rewrite elem_of_list_omap. split.
  - intros (i & Hi & Hf). apply elem_of_seq in Hi. exists i. split; [lia|done].
  - intros (i & Hi & Hf). exists i. split; [|done]. apply elem_of_seq. lia.
Qed.

(* ---------- positions and events ---------- *)
Lemma gev_at_lt tr g i e : gev_at tr g i = Some e -> i < length tr.
Proof.
  unfold gev_at. destruct (lgroup tr i); [|done]. destruct (N.eqb n g); [|done].
  destruct (tr !! i) eqn:E; [|done]. intros _. eauto using lookup_lt_Some.
Qed.
Lemma gev_at_start_inv tr g i c : gev_at tr g i = Some (GStart c) -> exists k, tr !! i = Some (LStart k c).
Proof.
  unfold gev_at. destruct (lgroup tr i); [|done]. destruct (N.eqb n g); [|done].
  destruct (tr !! i) as [[]|]; try done. intros [= ->]. eauto.
Qed.
Lemma gev_at_end_inv tr g i c : gev_at tr g i = Some (GEnd c) -> exists k, tr !! i = Some (LEnd k c).
Proof.
  unfold gev_at. destruct (lgroup tr i); [|done]. destruct (N.eqb n g); [|done].
  destruct (tr !! i) as [[]|]; try done. intros [= ->]. eauto.
Qed.
Lemma accepted_at_lt tr g i c : accepted_at tr g i = Some c -> i < length tr.
Proof.
  unfold accepted_at, lenq. destruct (run init (take i tr)); [|done].
  destruct (tr !! i) eqn:E; [|done]. intros _. eauto using lookup_lt_Some.
Qed.

Lemma gev_at_take tr g n i : i < n -> i < length tr -> gev_at (take n tr) g i = gev_at tr g i.
Proof.
  intros H1 H2. rewrite <- (take_drop n tr) at 2. symmetry. apply gev_at_app_l.
  rewrite take_length. lia.
Qed.

Lemma group_events_take_elem tr g n i e :
  i < n -> gev_at tr g i = Some e -> e ∈ group_events (take n tr) g.
Proof.
  intros Hlt He. pose proof (gev_at_lt _ _ _ _ He) as Hl. apply omap_seq_elem. exists i.
  split; [rewrite take_length; lia|]. by rewrite gev_at_take.
Qed.

Lemma run_take tr s n : run init tr = Some s -> exists sn, run init (take n tr) = Some sn.
Proof. intros Hr. exact (st_at_total tr s n Hr). Qed.

Lemma checked_take tr n : NoDup (checked_cbs tr) -> NoDup (checked_cbs (take n tr)).
Proof.
  intros H. rewrite <- (take_drop n tr), checked_cbs_app in H. by apply NoDup_app in H as (? & _ & _).
Qed.

(* ---------- an LStart label is an event of the group its callback was accepted for ---------- *)
Lemma lstart_gev tr s a k c : run init tr = Some s -> tr !! a = Some (LStart k c) ->
  exists g', gev_at tr g' a = Some (GStart c).
Proof.
  intros Hr Ha. destruct (st_at_total tr s a Hr) as [sa Hsa].
  destruct (st_at_step _ _ _ _ _ Hr Hsa Ha) as (sa' & _ & Hst).
  apply step_start_inv in Hst as (w & i & Hk & _).
  destruct (wgroup_WPre _ _ _ _ _ (st_at_Inv _ _ _ Hsa) Hk) as (g' & Hg' & _). exists g'.
  unfold gev_at, lgroup. change (run init (take a tr)) with (st_at tr a). rewrite Hsa, Ha, Hk. simpl.
  rewrite Hg', N.eqb_refl. done.
Qed.

Lemma started_in_accepted tr s g c :
  run init tr = Some s -> c ∈ started_cbs tr g -> c ∈ accepted_cbs tr g.
Proof.
  intros Hr Hin. destruct (run_irun_init _ _ Hr) as (x & Hx & _).
  rewrite (started_cbs_glog _ _ g Hx) in Hin. rewrite (accepted_cbs_glog _ _ g Hx).
  destruct (decide (g = 0%N)) as [->|Hg].
  - eapply elem_of_submseteq; [|exact (zero_sub _ _ Hx)]. apply elem_of_app. by left.
  - eapply elem_of_submseteq; [|apply sublist_submseteq, (started_in_order_pf _ _ g Hx Hg)].
    apply elem_of_app. by left.
Qed.

(* a callback is accepted for one group only *)
Lemma genq_disjoint tr x :
  irun iinit tr = Some x -> NoDup (checked_cbs tr) ->
  forall g g' c, c ∈ glog (genq x) g -> c ∈ glog (genq x) g' -> g = g'.
Proof.
  revert tr x. apply (irun_ind (fun tr x => NoDup (checked_cbs tr) ->
    forall g g' c, c ∈ glog (genq x) g -> c ∈ glog (genq x) g' -> g = g')).
  - intros _ g g' c H. unfold glog in H. simpl in H. rewrite lookup_empty in H. simpl in H.
    by apply elem_of_nil in H.
  - intros tr x l x' Hr IH Hs Hnd.
    assert (Hnd0 : NoDup (checked_cbs tr)).
    { rewrite checked_cbs_app in Hnd. by apply NoDup_app in Hnd as (? & _ & _). }
    specialize (IH Hnd0). pose proof (irun_AMO _ _ Hr Hnd0) as HA.
    destruct (istep_pchange _ _ _ Hs) as
      [(p & g0 & c0 & _ & _ & _ & He)|[_ [[_ He]|[(p & g0 & c0 & Hp & He & _)|(p & _ & He)]]]];
      rewrite He; try exact IH.
    destruct (a_prod _ _ HA _ _ _ Hp) as [_ Hno].
    assert (Hcase : forall g c, c ∈ glog (gpush (genq x) g0 c0) g ->
                                c ∈ glog (genq x) g \/ (g = g0 /\ c = c0)).
    { intros g c Hin. destruct (decide (g = g0)) as [->|Hne].
      - rewrite glog_gpush_eq in Hin. apply elem_of_app in Hin as [?|Hin]; [by left|].
        apply elem_of_list_singleton in Hin. by right.
      - rewrite glog_gpush_ne in Hin by done. by left. }
    intros g g' c H1 H2. apply Hcase in H1 as [H1|[E1 E2]]; apply Hcase in H2 as [H2|[E3 E4]]; subst.
    + eauto.
    + exfalso. by eapply Hno.
    + exfalso. by eapply Hno.
    + done.
Qed.

Lemma lstart_group tr s a k c g :
  run init tr = Some s -> NoDup (checked_cbs tr) -> tr !! a = Some (LStart k c) ->
  c ∈ accepted_cbs tr g -> gev_at tr g a = Some (GStart c).
Proof.
  intros Hr Hnd Ha Hacc. destruct (lstart_gev _ _ _ _ _ Hr Ha) as (g' & Hev).
  assert (Hin : c ∈ accepted_cbs tr g').
  { eapply started_in_accepted; [done|]. unfold started_cbs, starts. apply elem_of_list_omap.
    exists (GStart c). split; [|done]. apply omap_seq_elem. exists a. split; [|done].
    by eapply gev_at_lt. }
  destruct (run_irun_init _ _ Hr) as (x & Hx & _).
  rewrite (accepted_cbs_glog _ _ g Hx) in Hacc. rewrite (accepted_cbs_glog _ _ g' Hx) in Hin.
  by rewrite (genq_disjoint _ _ Hx Hnd _ _ _ Hacc Hin).
Qed.

(* ---------- the worker executing c is the one that started it ---------- *)
Lemma step_to_WRun s l s' k w n c :
  step s l = Some s' -> workers s' !! k = Some (WRun w n c) ->
  workers s !! k = Some (WRun w n c) \/ l = LStart k c.
Proof.
  intros Hs Hk. destruct (is_exec l) eqn:Hl.
  - destruct l as [ | | | | |k0 c0|k0 c0| | | | | | | | | | | | ]; try discriminate.
    + apply step_start_inv in Hs as (w0 & i0 & Hk0 & ->). rewrite set_workers_workers in Hk.
      destruct (decide (k = k0)) as [->|Hne].
      * rewrite list_lookup_insert in Hk by eauto using lookup_lt_Some. simplify_eq. by right.
      * rewrite list_lookup_insert_ne in Hk by done. by left.
    + apply step_end_inv in Hs as (w0 & i0 & Hk0 & ->). rewrite set_workers_workers in Hk.
      destruct (decide (k = k0)) as [->|Hne].
      * rewrite list_lookup_insert in Hk by eauto using lookup_lt_Some. done.
      * rewrite list_lookup_insert_ne in Hk by done. by left.
  - destruct (is_init l) eqn:Hin.
    + destruct l; try discriminate. apply (step_init_workers _ _ _ _ _ Hs) in Hk. done.
    + left. by apply (step_WRun _ _ _ k w n c Hs Hl Hin).
Qed.

Lemma last_start tr s : run init tr = Some s -> forall j sj k w n c,
  st_at tr j = Some sj -> workers sj !! k = Some (WRun w n c) ->
  exists b, b < j /\ tr !! b = Some (LStart k c).
Proof.
  intros Hr j. induction j as [|j IH]; intros sj k w n c Hj Hk.
  - rewrite st_at_0 in Hj. by simplify_eq.
  - destruct (tr !! j) as [l|] eqn:El.
    + destruct (st_at_total tr s j Hr) as [sj0 Hj0].
      rewrite (st_at_S _ _ _ _ Hj0 El) in Hj.
      destruct (step_to_WRun _ _ _ _ _ _ _ Hj Hk) as [Hk0| ->].
      * destruct (IH _ _ _ _ _ Hj0 Hk0) as (b & Hb & Hlb). exists b. split; [lia|done].
      * exists j. split; [lia|done].
    + rewrite (st_at_S_None _ _ El) in Hj.
      destruct (IH _ _ _ _ _ Hj Hk) as (b & Hb & Hlb). exists b. split; [lia|done].
Qed.

(* ---------- a Start of g needs g to be idle ---------- *)
Lemma start_needs_idle tr s b g c :
  run init tr = Some s -> g <> 0%N -> gev_at tr g b = Some (GStart c) ->
  exists cs, group_events (take b tr) g = sequential cs None /\ started_cbs (take b tr) g = cs.
Proof.
  intros Hr Hg Hev. pose proof (gev_at_lt _ _ _ _ Hev) as Hlt.
  destruct (gev_at_start_inv _ _ _ _ Hev) as (k & Hb).
  destruct (st_at_total tr s b Hr) as [sb Hsb]. unfold st_at in Hsb.
  destruct (group_sequential_open _ _ g Hsb Hg) as (cs & o & Hge & Ho & Hst).
  destruct (st_at_step _ _ _ _ _ Hr Hsb Hb) as (sb' & _ & Hstep).
  destruct (open_step sb (LStart k c) sb' g o (Inv_run _ _ Hsb) ltac:(done) Hstep Hg Ho) as (o' & _ & Ht).
  assert (Hevof : ev_of sb (LStart k c) g = Some (GStart c)).
  { rewrite <- (gev_at_last (take b tr) sb (LStart k c) g Hsb).
    rewrite <- (take_S_r _ _ _ Hb). rewrite take_length_le by lia.
    rewrite gev_at_take by lia. done. }
  rewrite Hevof in Ht. destruct Ht as [(? & _)|[(c' & _ & -> & _)|(c' & ? & _)]]; try done.
  exists cs. simpl in Hst. rewrite app_nil_r in Hst. done.
Qed.

Lemma sequential_end_elem cs o c : GEnd c ∈ sequential cs o <-> c ∈ cs.
Proof.
  unfold sequential. rewrite elem_of_app. split.
  - intros [H|H].
    + induction cs as [|c0 cs IH]; simpl in H; [by apply elem_of_nil in H|].
      apply elem_of_cons in H as [?|H]; [done|]. apply elem_of_cons in H as [[= ->]|H]; [by left|].
      right. by apply IH.
    + destruct o; simpl in H; [|by apply elem_of_nil in H].
      apply elem_of_list_singleton in H. done.
  - intros H. left. induction cs as [|c0 cs IH]; [by apply elem_of_nil in H|].
    apply elem_of_cons in H as [->|H]; simpl.
    + right. by left.
    + right. right. by apply IH.
Qed.
Lemma sequential_starts cs o : starts (sequential cs o) = cs ++ option_list o.
Proof.
  unfold sequential. rewrite starts_app. f_equal.
  - induction cs as [|c cs IH]; [done|]. simpl. unfold starts in *. csimpl. by rewrite IH.
  - by destruct o.
Qed.

(* ---------- the theorem ---------- *)
Lemma enq_order_is_start_order_pf : forall tr s i j c1 c2 g a b k1 k2,
  run init tr = Some s -> NoDup (checked_cbs tr) -> g <> 0%N -> i < j ->
  lenq tr i = Some (g, c1) -> lenq tr j = Some (g, c2) ->
  tr !! a = Some (LStart k1 c1) -> tr !! b = Some (LStart k2 c2) ->
  a < b /\ exists e, a < e < b /\ tr !! e = Some (LEnd k1 c1).
Proof.
  intros tr s i j c1 c2 g a b k1 k2 Hr Hnd Hg Hij Hi Hj Ha Hb.
  assert (Hai : accepted_at tr g i = Some c1) by (unfold accepted_at; by rewrite Hi, N.eqb_refl).
  assert (Haj : accepted_at tr g j = Some c2) by (unfold accepted_at; by rewrite Hj, N.eqb_refl).
  pose proof (accepted_at_lt _ _ _ _ Haj) as Hjn.
  assert (Hacc : before (accepted_cbs tr g) c1 c2).
  { unfold accepted_cbs. apply (before_omap_seq _ _ i j); done. }
  assert (Hin1 : c1 ∈ accepted_cbs tr g).
  { apply omap_seq_elem. exists i. split; [lia|done]. }
  assert (Hin2 : c2 ∈ accepted_cbs tr g).
  { apply omap_seq_elem. exists j. split; [lia|done]. }
  pose proof (lstart_group _ _ _ _ _ _ Hr Hnd Ha Hin1) as Hea.
  pose proof (lstart_group _ _ _ _ _ _ Hr Hnd Hb Hin2) as Heb.
  pose proof (gev_at_lt _ _ _ _ Hea) as Han. pose proof (gev_at_lt _ _ _ _ Heb) as Hbn.
  assert (HndA : NoDup (accepted_cbs tr g)).
  { destruct (run_irun_init _ _ Hr) as (x & Hx & _). rewrite (accepted_cbs_glog _ _ g Hx).
    apply (a_nd _ _ (irun_AMO _ _ Hx Hnd)). }
  assert (Hne : c1 <> c2).
  { intros ->. by eapply before_NoDup_ne. }
  (* start order = acceptance order *)
  assert (Hab : a < b).
  { destruct (decide (a < b)) as [?|Hnlt]; [done|]. exfalso.
    assert (a <> b) by (intros ->; congruence).
    assert (Hst : before (started_cbs tr g) c2 c1).
    { unfold started_cbs, starts. eapply (before_omap _ _ (GStart c2) (GStart c1)); [|done..].
      apply (before_omap_seq _ _ b a); [lia|done..]. }
    eapply before_NoDup; [exact HndA|exact Hacc|].
    eapply before_sublist; [|exact Hst]. by eapply group_starts_sublist_pf. }
  split; [done|].
  (* c1 has returned when c2 starts *)
  destruct (start_needs_idle _ _ _ _ _ Hr Hg Heb) as (cs & Hge & Hcs).
  assert (Hc1 : c1 ∈ cs).
  { rewrite <- Hcs. unfold started_cbs, starts. apply elem_of_list_omap. exists (GStart c1).
    split; [|done]. by eapply group_events_take_elem. }
  apply (sequential_end_elem cs None) in Hc1. rewrite <- Hge in Hc1.
  apply omap_seq_elem in Hc1 as (e & He & Hev). rewrite take_length in He.
  rewrite gev_at_take in Hev by lia.
  destruct (gev_at_end_inv _ _ _ _ Hev) as (k & Hle).
  assert (Hae : a < e).
  { destruct (decide (a < e)) as [?|Hnlt]; [done|]. exfalso.
    assert (a <> e) by (intros ->; congruence).
    (* c1 would have returned before it starts: started twice *)
    destruct (run_take _ _ (S a) Hr) as (sa & Hsa).
    pose proof (group_starts_distinct_pf _ _ g Hsa (checked_take _ (S a) Hnd)) as HndS.
    destruct (run_take _ _ a Hr) as (sa0 & Hsa0).
    destruct (group_sequential_open _ _ g Hsa0 Hg) as (cs0 & o0 & Hge0 & _ & Hst0).
    assert (Hc0 : c1 ∈ cs0).
    { apply (sequential_end_elem cs0 o0). rewrite <- Hge0. eapply group_events_take_elem; [|done]. lia. }
    rewrite (take_S_r _ _ _ Ha), (started_cbs_snoc _ _ _ _ Hsa0) in HndS.
    rewrite <- (gev_at_last (take a tr) sa0 (LStart k1 c1) g Hsa0) in HndS.
    rewrite <- (take_S_r _ _ _ Ha), take_length_le in HndS by lia.
    rewrite gev_at_take, Hea in HndS by lia. simpl in HndS.
    apply NoDup_app in HndS as (_ & Hdisj & _). apply (Hdisj c1).
    - rewrite Hst0. apply elem_of_app. by left.
    - by apply elem_of_list_singleton. }
  exists e. split; [lia|].
  (* ... on the worker that started it *)
  destruct (st_at_total tr s e Hr) as [se Hse].
  destruct (st_at_step _ _ _ _ _ Hr Hse Hle) as (se' & _ & Hstep).
  apply step_end_inv in Hstep as (w & n & Hk & _).
  destruct (last_start tr s Hr e se k w n c1 Hse Hk) as (a' & Ha'e & Ha').
  pose proof (lstart_group _ _ _ _ _ _ Hr Hnd Ha' Hin1) as Hea'.
  assert (a' = a) as ->.
  { destruct (decide (a' = a)) as [?|Hna]; [done|]. exfalso.
    pose proof (group_starts_distinct_pf _ _ g Hr Hnd) as HndS.
    eapply (before_NoDup_ne _ c1 HndS). unfold started_cbs, starts.
    eapply (before_omap _ _ (GStart c1) (GStart c1)); [|done..].
    destruct (decide (a' < a)).
    - apply (before_omap_seq _ _ a' a); [lia|done..].
    - apply (before_omap_seq _ _ a a'); [lia| |done..]. by eapply gev_at_lt. }
  congruence.
Qed.
