(* Invariant of traces in which Shutdown never reached the "workqueue = nil" step: the queue
   exists while the service is started, nothing is accepted before the first serve, no worker
   has exited, and a non-empty queue is always going to be looked at (no lost wake-up). *)
From stdpp Require Import gmap.
From Coq Require Import NArith Lia.
From GoRes Require Import Sched.Model Sched.Spec.

Definition has_sig (s : st) : Prop := exists p, prods s !! p = Some PSignal.
Definition nonquiet (s : st) : Prop :=
  exists k p, workers s !! k = Some p /\ worker_quiet p = false.

Record NC (s : st) : Prop := {
  nc_shut : shut s = SIdle \/ shut s = SCas;
  nc_wq : svc s = Started \/ svc s = Stopping -> wq s <> None;
  nc_idle : svc s = Stopped \/ svc s = Starting ->
            works s = ∅ /\ rwork s = ∅ /\ forall p g c, prods s !! p <> Some (PChecked g c);
  nc_wake : forall q, wq s = Some q ->
            workers s <> [] /\ (forall k, workers s !! k <> Some WExited) /\
            (q <> [] -> nonquiet s \/ 0 < tokens s \/ has_sig s)
}.

Lemma NC_init : NC init.
Proof.
  split; simpl.
  - by left.
  - intros [?|?]; done.
  - intros _. split_and!; [done..|]. intros p g c. by rewrite lookup_empty.
  - intros q ?. done.
Qed.

Lemma insert_ne_nil {A} (l : list A) k x : l <> [] -> <[k:=x]> l <> [].
Proof. destruct l; [done|]. destruct k; done. Qed.

Lemma no_exited_insert (wk : list wpc) (k : nat) (p : wpc) :
  (forall j, wk !! j <> Some WExited) -> p <> WExited -> forall j, <[k:=p]> wk !! j <> Some WExited.
Proof.
  intros H Hp j. destruct (decide (j = k)) as [->|Hne].
  - destruct (decide (k < length wk)).
    + rewrite list_lookup_insert by done. congruence.
    + rewrite list_insert_ge by lia. apply H.
  - rewrite list_lookup_insert_ne by done. apply H.
Qed.

Lemma nonquiet_at (wk : list wpc) (k : nat) (p : wpc) : k < length wk -> worker_quiet p = false ->
  exists j q, <[k:=p]> wk !! j = Some q /\ worker_quiet q = false.
Proof. intros Hlt Hp. exists k, p. by rewrite list_lookup_insert. Qed.

Lemma n_waiting_0 s k p : n_waiting s = 0 -> workers s !! k = Some p -> is_waiting p = false.
Proof.
  unfold n_waiting. intros H Hk. apply nil_length_inv in H.
  destruct (is_waiting p) eqn:E; [|done]. exfalso.
  assert (Hin : p ∈ filter (fun p => is_waiting p = true) (workers s)).
  { apply elem_of_list_filter. split; [done|]. eapply elem_of_list_lookup_2; eauto. }
  rewrite H in Hin. by apply elem_of_nil in Hin.
Qed.

Lemma svc_of_started s : started s = true -> svc s = Started.
Proof. unfold started. apply bool_decide_eq_true. Qed.

Lemma head_eval_NC s k s1 r :
  NC s -> k < length (workers s) -> head_eval s k = Some (s1, r) -> NC s1.
Proof.
  intros [H1 H2 H3 H4] Hlt He. unfold head_eval in He.
  destruct (wq s) as [[|w q]|] eqn:Eq.
  - inversion He; subst. destruct (H4 [] eq_refl) as (Ha & Hb & _).
    split; simpl; rewrite ?Eq; try done.
    intros q' [= <-]. split_and!; [by apply insert_ne_nil|by apply no_exited_insert|done].
  - destruct (works s !! w) as [W|] eqn:EW; [|done].
    destruct (w_queue W !! 0%nat) as [c|] eqn:Ec; [|done].
    inversion He; subst. destruct (H4 _ eq_refl) as (Ha & Hb & _).
    split; simpl; try done.
    intros q' [= <-]. split_and!; [by apply insert_ne_nil|by apply no_exited_insert|].
    intros _. left. unfold nonquiet. simpl. by apply nonquiet_at.
  - inversion He; subst. split; simpl; rewrite ?Eq; try done.
Qed.

Lemma NC_step s l s' : NC s -> step s l = Some s' -> l <> LCloseNil -> NC s'.
Proof.
  intros HN Hs Hl. pose proof HN as [H1 H2 H3 H4]. unfold step, step_gen in Hs.
  destruct l as [p g c ok|p r|p|k retd r|k|k c|k c|ok| | | | | | |ok|n| |p ok|p sent].
  - (* LCheck *)
    destruct (prods s !! p) eqn:Ep; [done|].
    destruct ok; simpl in Hs.
    + destruct (started s) eqn:Est; [|done]. apply svc_of_started in Est.
      inversion Hs; subst. split; simpl; try done.
      * intros [?|?]; congruence.
      * intros q Hq. destruct (H4 q Hq) as (Ha & Hb & Hc). split_and!; [done..|].
        intros Hne. destruct (Hc Hne) as [?|[?|(p' & Hp')]]; [left; done|right; left; done|].
        right; right. exists p'. simpl. rewrite lookup_insert_ne; [done|]. intros <-. congruence.
    + destruct (negb (started s)); [|done]. inversion Hs; subst. done.
  - (* LEnq *)
    destruct (prods s !! p) as [[g c|]|] eqn:Ep; try done.
    assert (Hsvc : svc s = Started \/ svc s = Stopping).
    { destruct (svc s) eqn:E; auto; exfalso.
      - destruct H3 as (_ & _ & H3); [by left|]. by eapply H3.
      - destruct H3 as (_ & _ & H3); [by right|]. by eapply H3. }
    assert (Hidle : ~ (svc s = Stopped \/ svc s = Starting)).
    { intros [?|?]; destruct Hsvc; congruence. }
    destruct (wq s) as [q|] eqn:Eq.
    + destruct (H4 q eq_refl) as (Ha & Hb & Hc).
      assert (Hnew : forall rw ws nx,
        NC (St (svc s) (Some (q ++ [nextw s])) rw ws nx (workers s) (<[p:=PSignal]> (prods s))
               (pubs s) (nc s) (closes s) (shut s) (tokens s) (panicked s))).
      { intros rw ws nx. split; simpl; try done.
        intros q' [= <-]. split_and!; [done..|]. intros _. right; right. exists p. simpl.
        by rewrite lookup_insert. }
      destruct (N.eqb g 0).
      * destruct (enq_eq r ENew); [|done]. inversion Hs; subst. apply Hnew.
      * destruct (rwork s !! g) as [w|] eqn:Er.
        -- destruct (works s !! w) as [W|] eqn:EW; [|done].
           destruct (enq_eq r EAppend); [|done]. inversion Hs; subst.
           split; simpl; rewrite ?Eq; try done.
           intros q' [= <-]. split_and!; [done..|].
           intros Hne. destruct (Hc Hne) as [?|[?|(p' & Hp')]]; [left; done|right; left; done|].
           right; right. exists p'. simpl. rewrite lookup_delete_ne; [done|]. intros <-. congruence.
        -- destruct (enq_eq r ENew); [|done]. inversion Hs; subst. apply Hnew.
    + destruct (enq_eq r EClosing); [|done]. inversion Hs; subst.
      split; simpl; rewrite ?Eq; try done.
  - (* LSignal *)
    destruct (prods s !! p) as [[|]|] eqn:Ep; try done.
    assert (Hidle : svc s = Stopped \/ svc s = Starting ->
              forall p' g c, delete p (prods s) !! p' <> Some (PChecked g c)).
    { intros Hsv p' g c Hp'. apply lookup_delete_Some in Hp' as [_ Hp'].
      destruct (H3 Hsv) as (_ & _ & H). by eapply H. }
    destruct (Nat.ltb_spec (tokens s) (n_waiting s)) as [Hlt|Hge]; inversion Hs; subst.
    + split; simpl; try done.
      * intros Hsv. destruct (H3 Hsv) as (? & ? & _). split_and!; auto.
      * intros q Hq. destruct (H4 q Hq) as (Ha & Hb & Hc). split_and!; [done..|].
        intros _. right; left. lia.
    + split; simpl; try done.
      * intros Hsv. destruct (H3 Hsv) as (? & ? & _). split_and!; auto.
      * intros q Hq. destruct (H4 q Hq) as (Ha & Hb & Hc). split_and!; [done..|].
        intros Hne. destruct (Hc Hne) as [?|[?|(p' & Hp')]]; [left; done|right; left; done|].
        destruct (decide (0 < tokens s)) as [?|Hz]; [right; left; done|]. left.
        assert (Hnw : n_waiting s = 0) by lia.
        destruct (workers s) as [|p0 wk] eqn:Ewk; [done|].
        exists 0, p0. simpl. rewrite Ewk. split; [done|].
        pose proof (n_waiting_0 s 0 p0 Hnw) as Hw. rewrite Ewk in Hw. specialize (Hw eq_refl).
        specialize (Hb 0). simpl in Hb.
        destruct p0; simpl in *; try done.
  - (* LSect *)
    destruct (workers s !! k) as [pc|] eqn:Ek; [|done].
    assert (Hlt : k < length (workers s)) by eauto using lookup_lt_Some.
    destruct pc as [| | |w i c|w i c|w i|]; try done.
    + destruct retd; [done|]. destruct (head_eval s k) as [[s1 r1]|] eqn:Eh; [|done].
      destruct (res_eq r r1); [|done]. inversion Hs; subst. eapply head_eval_NC; eauto.
    + destruct retd; [done|]. destruct (head_eval s k) as [[s1 r1]|] eqn:Eh; [|done].
      destruct (res_eq r r1); [|done]. inversion Hs; subst. eapply head_eval_NC; eauto.
    + destruct (works s !! w) as [W|] eqn:EW; [|done].
      assert (Hidle : ~ (svc s = Stopped \/ svc s = Starting)).
      { intros Hsv. destruct (H3 Hsv) as (Hws & _). rewrite Hws, lookup_empty in EW. done. }
      destruct (w_queue W !! i) as [c|] eqn:Ec.
      * destruct (negb retd && res_eq r RNext); [|done]. inversion Hs; subst.
        split; simpl; try done.
        intros q Hq. destruct (H4 q Hq) as (Ha & Hb & Hc).
        split_and!; [by apply insert_ne_nil|by apply no_exited_insert|].
        intros _. left. unfold nonquiet. simpl. by apply nonquiet_at.
      * destruct retd; [|done].
        match type of Hs with context [head_eval ?s0 k] =>
          destruct (head_eval s0 k) as [[s1 r1]|] eqn:Eh; [|done] end.
        destruct (res_eq r r1); [|done]. inversion Hs; subst.
        eapply head_eval_NC; [| |exact Eh]; [|done].
        split; simpl; try done.
  - (* LWake *)
    destruct (workers s !! k) as [[]|] eqn:Ek; try done. inversion Hs; subst.
    assert (Hlt : k < length (workers s)) by eauto using lookup_lt_Some.
    split; simpl; try done.
    intros q Hq. destruct (H4 q Hq) as (Ha & Hb & Hc).
    split_and!; [by apply insert_ne_nil|by apply no_exited_insert|].
    intros _. left. unfold nonquiet. simpl. by apply nonquiet_at.
  - (* LStart *)
    destruct (workers s !! k) as [[| | |w i c'| | |]|] eqn:Ek; try done.
    destruct (N.eqb c c'); [|done]. inversion Hs; subst.
    assert (Hlt : k < length (workers s)) by eauto using lookup_lt_Some.
    split; simpl; try done.
    intros q Hq. destruct (H4 q Hq) as (Ha & Hb & Hc).
    split_and!; [by apply insert_ne_nil|by apply no_exited_insert|].
    intros _. left. unfold nonquiet. simpl. by apply nonquiet_at.
  - (* LEnd *)
    destruct (workers s !! k) as [[| | | |w i c'| |]|] eqn:Ek; try done.
    destruct (N.eqb c c'); [|done]. inversion Hs; subst.
    assert (Hlt : k < length (workers s)) by eauto using lookup_lt_Some.
    split; simpl; try done.
    intros q Hq. destruct (H4 q Hq) as (Ha & Hb & Hc).
    split_and!; [by apply insert_ne_nil|by apply no_exited_insert|].
    intros _. left. unfold nonquiet. simpl. by apply nonquiet_at.
  - (* LShutCAS *)
    destruct ok; simpl in Hs.
    + destruct (started s) eqn:Est; [|done]. apply svc_of_started in Est.
      inversion Hs; subst. split; simpl; try done; auto.
      intros [?|?]; congruence.
    + destruct (negb (started s)); [|done]. inversion Hs; subst. done.
  - done.
  - destruct (shut s); try done; destruct H1; congruence.
  - destruct (shut s); try done; destruct H1; congruence.
  - destruct (shut s); try done; destruct H1; congruence.
  - destruct (shut s); try done; destruct H1; congruence.
  - destruct (shut s); try done; destruct H1; congruence.
  - (* LServeCAS *)
    destruct ok; simpl in Hs.
    + destruct (bool_decide (svc s = Stopped)) eqn:Est; [|done]. apply bool_decide_eq_true in Est.
      inversion Hs; subst. split; simpl; try done.
      * intros [?|?]; congruence.
      * intros _. apply H3. by left.
    + destruct (negb (bool_decide (svc s = Stopped))); [|done]. inversion Hs; subst. done.
  - (* LServeInit *)
    destruct (svc s) eqn:Esv; try done. destruct (wq s) eqn:Ewq0; [done|]. destruct n; [done|]. inversion Hs; subst.
    split; simpl; try done.
    + intros _. split_and!; [done..|]. apply H3. by right.
    + intros q [= <-]. split_and!; [done| |done].
      intros k Hk. apply (lookup_replicate (S n)) in Hk as [? _]. done.
  - (* LServeStarted *)
    destruct (svc s) eqn:Esv; try done. destruct (wq s) eqn:Eq; [|done]. inversion Hs; subst.
    split; simpl; rewrite ?Eq; try done.
    intros [?|?]; congruence.
  - destruct (bool_decide (p ∈ pubs s)); [done|]. destruct (bool_eq ok (started s)); [|done].
    inversion Hs; subst. destruct ok; [|done]. split; simpl; done.
  - destruct (bool_decide (p ∈ pubs s)); [|done]. destruct (bool_eq sent (nc s)); [|done].
    inversion Hs; subst. split; simpl; done.
Qed.
