(* C03 helpers: inversion lemmas for the steps of the scheduler LTS and list facts
   (all_exited, n_waiting under insert). *)
From stdpp Require Import gmap.
From Coq Require Import NArith Lia.
From GoRes Require Import Sched.Spec.

Lemma res_eq_true a b : res_eq a b = true -> a = b.
Proof. destruct a, b; cbn; try done. intros H%N.eqb_eq. by subst. Qed.
Lemma res_eq_refl a : res_eq a a = true.
Proof. destruct a; cbn; try done. apply N.eqb_refl. Qed.
Lemma enq_eq_true a b : enq_eq a b = true -> a = b.
Proof. by destruct a, b. Qed.
Lemma bool_eq_true a b : bool_eq a b = true -> a = b.
Proof. by destruct a, b. Qed.
Lemma bool_eq_refl a : bool_eq a a = true.
Proof. by destruct a. Qed.

(* ---------- projections of the setters ---------- *)
Lemma set_workers_workers s k p : workers (set_workers s k p) = <[k := p]> (workers s).
Proof. done. Qed.

(* ---------- inversion of the worker steps ---------- *)
Lemma head_eval_inv s k s' r : head_eval s k = Some (s', r) ->
  (wq s = None /\ s' = set_workers s k WExited /\ r = RExit) \/
  (wq s = Some [] /\ s' = set_workers s k WWaiting /\ r = RWait) \/
  (exists w q W c, wq s = Some (w :: q) /\ works s !! w = Some W /\ w_queue W !! 0%nat = Some c /\
     s' = set_workers (set_q s (Some q) (rwork s) (works s)) k (WPre w 0 c) /\ r = RTake w).
Proof.
  unfold head_eval. intros H. destruct (wq s) as [[|w q]|] eqn:Eq.
  - right; left. by simplify_eq.
  - destruct (works s !! w) as [W|] eqn:EW; [|done].
    destruct (w_queue W !! 0%nat) as [c|] eqn:Ec; [|done]. simplify_eq.
    right; right. exists w, q, W, c. done.
  - left. by simplify_eq.
Qed.

Definition retire_rw (s : st) (W : work) : gmap N N :=
  if N.eqb (w_gid W) 0 then rwork s else delete (w_gid W) (rwork s).

Lemma step_sect_inv s k retired r s' : step s (LSect k retired r) = Some s' ->
  (exists p, workers s !! k = Some p /\ (p = WStart \/ p = WWoken) /\ retired = false /\
     head_eval s k = Some (s', r)) \/
  (exists w i W c, workers s !! k = Some (WPost w i) /\ works s !! w = Some W /\ w_queue W !! i = Some c /\
     retired = false /\ r = RNext /\ s' = set_workers s k (WPre w i c)) \/
  (exists w i W, workers s !! k = Some (WPost w i) /\ works s !! w = Some W /\ w_queue W !! i = None /\
     retired = true /\
     head_eval (set_q s (wq s) (retire_rw s W) (delete w (works s))) k = Some (s', r)).
Proof.
  unfold step, step_gen, retire_rw. intros H.
  destruct (workers s !! k) as [p|] eqn:Ek; [|done].
  destruct p as [| | |w i c|w i c|w i|]; try done.
  - destruct retired; [done|]. destruct (head_eval s k) as [[s1 r1]|] eqn:Eh; [|done].
    destruct (res_eq r r1) eqn:Er; [|done]. apply res_eq_true in Er. simplify_eq.
    left. exists WStart. auto.
  - destruct retired; [done|]. destruct (head_eval s k) as [[s1 r1]|] eqn:Eh; [|done].
    destruct (res_eq r r1) eqn:Er; [|done]. apply res_eq_true in Er. simplify_eq.
    left. exists WWoken. auto.
  - destruct (works s !! w) as [W|] eqn:EW; [|done].
    destruct (w_queue W !! i) as [c|] eqn:Ec.
    + destruct retired; [done|]. cbn in H. destruct (res_eq r RNext) eqn:Er; [|done].
      apply res_eq_true in Er. simplify_eq. right; left. exists w, i, W, c. done.
    + destruct retired; [|done].
      match type of H with match ?h with _ => _ end = _ => destruct h as [[s1 r1]|] eqn:Eh; [|done] end.
      destruct (res_eq r r1) eqn:Er; [|done]. apply res_eq_true in Er. simplify_eq.
      right; right. exists w, i, W. done.
Qed.

Lemma step_wake_inv s k s' : step s (LWake k) = Some s' ->
  workers s !! k = Some WWaiting /\ s' = set_tokens (set_workers s k WWoken) (Nat.pred (tokens s)).
Proof.
  unfold step, step_gen. intros H. destruct (workers s !! k) as [[]|]; try done. by simplify_eq.
Qed.
Lemma step_start_inv s k c s' : step s (LStart k c) = Some s' ->
  exists w i, workers s !! k = Some (WPre w i c) /\ s' = set_workers s k (WRun w i c).
Proof.
  unfold step, step_gen. intros H. destruct (workers s !! k) as [[| | |w i c'| | |]|]; try done.
  destruct (N.eqb_spec c c'); [|done]. simplify_eq. eauto.
Qed.
Lemma step_end_inv s k c s' : step s (LEnd k c) = Some s' ->
  exists w i, workers s !! k = Some (WRun w i c) /\ s' = set_workers s k (WPost w (S i)).
Proof.
  unfold step, step_gen. intros H. destruct (workers s !! k) as [[| | | |w i c'| |]|]; try done.
  destruct (N.eqb_spec c c'); [|done]. simplify_eq. eauto.
Qed.

(* ---------- inversion of the producer critical section (fixed code) ---------- *)
Lemma step_enq_inv s p r s' : step s (LEnq p r) = Some s' ->
  exists g c, prods s !! p = Some (PChecked g c) /\
  ((wq s = None /\ r = EClosing /\ s' = set_prods s (delete p (prods s))) \/
   (exists q w W, wq s = Some q /\ (if N.eqb g 0 then None else rwork s !! g) = Some w /\
      works s !! w = Some W /\ r = EAppend /\
      s' = set_prods (set_q s (wq s) (rwork s) (<[w := Work (w_gid W) (w_queue W ++ [c])]> (works s)))
                     (delete p (prods s))) \/
   (exists q, wq s = Some q /\ (if N.eqb g 0 then None else rwork s !! g) = None /\ r = ENew /\
      s' = St (svc s) (Some (q ++ [nextw s])) (if N.eqb g 0 then rwork s else <[g := nextw s]> (rwork s))
              (<[nextw s := Work g [c]]> (works s)) (N.succ (nextw s)) (workers s)
              (<[p := PSignal]> (prods s)) (pubs s) (nc s) (closes s) (shut s) (tokens s) (panicked s))).
Proof.
  unfold step, step_gen. intros H.
  destruct (prods s !! p) as [[g c|]|] eqn:Ep; try done. exists g, c. split; [done|].
  destruct (wq s) as [q|] eqn:Eq.
  - destruct (if N.eqb g 0 then None else rwork s !! g) as [w|] eqn:Eg.
    + destruct (works s !! w) as [W|] eqn:EW; [|done].
      destruct (enq_eq r EAppend) eqn:Er; [|done]. apply enq_eq_true in Er. simplify_eq.
      right; left. exists q, w, W. done.
    + destruct (enq_eq r ENew) eqn:Er; [|done]. apply enq_eq_true in Er. simplify_eq.
      right; right. exists q. done.
  - destruct (enq_eq r EClosing) eqn:Er; [|done]. apply enq_eq_true in Er. simplify_eq. by left.
Qed.

(* ---------- lists of worker pcs ---------- *)
Lemma all_exited_lookup ws k p : forallb is_exited ws = true -> ws !! k = Some p -> p = WExited.
Proof.
  revert k; induction ws as [|a ws IH]; intros k H E; [done|].
  cbn in H. apply andb_true_iff in H as [H1 H2]. destruct k; cbn in E.
  - simplify_eq. by destruct p.
  - eauto.
Qed.
Lemma not_all_exited s k p : workers s !! k = Some p -> p <> WExited -> all_exited s = false.
Proof.
  intros E N. unfold all_exited. destruct (forallb is_exited (workers s)) eqn:F; [|done].
  exfalso. apply N. eapply all_exited_lookup; eauto.
Qed.
Lemma not_all_exited_ex ws : forallb is_exited ws = false -> exists k p, ws !! k = Some p /\ p <> WExited.
Proof.
  induction ws as [|a ws IH]; cbn; [done|]. intros H.
  destruct (is_exited a) eqn:Ea.
  - cbn in H. destruct (IH H) as (k & p & E & N). exists (S k), p. done.
  - exists 0%nat, a. split; [done|]. intros ->. done.
Qed.

Definition nwait (ws : list wpc) : nat := length (filter (fun p => is_waiting p = true) ws).
Lemma n_waiting_nwait s : n_waiting s = nwait (workers s).
Proof. done. Qed.
Definition w1 (p : wpc) : nat := if is_waiting p then 1 else 0.
Lemma nwait_cons p ws : nwait (p :: ws) = w1 p + nwait ws.
Proof.
  unfold nwait, w1. rewrite filter_cons. destruct (decide (is_waiting p = true)) as [E|E].
  - rewrite E. done.
  - destruct (is_waiting p); done.
Qed.
Lemma nwait_insert ws k p p' : ws !! k = Some p ->
  nwait (<[k := p']> ws) + w1 p = nwait ws + w1 p'.
Proof.
  revert k; induction ws as [|a ws IH]; intros k E; [done|]. destruct k; cbn in E.
  - simplify_eq. change (<[0%nat := p']> (p :: ws)) with (p' :: ws). rewrite !nwait_cons. lia.
  - change (<[S k := p']> (a :: ws)) with (a :: <[k := p']> ws). rewrite !nwait_cons.
    specialize (IH k E). lia.
Qed.
Lemma nwait_pos ws k : ws !! k = Some WWaiting -> 0 < nwait ws.
Proof.
  revert k; induction ws as [|a ws IH]; intros k E; [done|]. destruct k; cbn in E.
  - simplify_eq. rewrite nwait_cons. cbn. lia.
  - rewrite nwait_cons. specialize (IH k E). lia.
Qed.
