(* Ghost histories on top of the scheduler LTS, and the trace/state predicates the
   C01-C03 theorems are stated with.  No proofs here. *)
From stdpp Require Import gmap.
From Coq Require Import NArith.
From GoRes Require Export Sched.Model.

(* instrumented state: per group, the callbacks accepted by runWith (in the order of the
   critical sections that accepted them) and the callbacks started (in LStart order) *)
Record ist := ISt { base : st; genq : gmap N (list N); gstart : gmap N (list N) }.

Definition glog (m : gmap N (list N)) (g : N) : list N := default [] (m !! g).
Definition gpush (m : gmap N (list N)) (g c : N) : gmap N (list N) := <[g := glog m g ++ [c]]> m.

Definition istep_gen (fixed : bool) (s : ist) (l : label) : option ist :=
  match step_gen fixed (base s) l with
  | None => None
  | Some b' =>
    let e := match l with
             | LEnq p ENew | LEnq p EAppend =>
               match prods (base s) !! p with
               | Some (PChecked g c) => gpush (genq s) g c
               | _ => genq s
               end
             | _ => genq s
             end in
    let t := match l with
             | LStart k c =>
               match workers (base s) !! k with
               | Some (WPre w _ _) => match gid_of (base s) w with Some g => gpush (gstart s) g c | None => gstart s end
               | _ => gstart s
               end
             | _ => gstart s
             end in
    Some (ISt b' e t)
  end.
Definition istep := istep_gen true.
Fixpoint irun_gen (fixed : bool) (s : ist) (tr : list label) : option ist :=
  match tr with
  | [] => Some s
  | l :: tr' => match istep_gen fixed s l with Some s' => irun_gen fixed s' tr' | None => None end
  end.
Definition irun := irun_gen true.
Definition iinit : ist := ISt init ∅ ∅.

(* callback ids handed to runWith in a trace (LCheck that passed) *)
Fixpoint checked_cbs (tr : list label) : list N :=
  match tr with
  | [] => []
  | LCheck _ _ c true :: tr' => c :: checked_cbs tr'
  | _ :: tr' => checked_cbs tr'
  end.
Fixpoint has_close (tr : list label) : bool :=
  match tr with [] => false | LCloseNil :: _ => true | _ :: tr' => has_close tr' end.

(* callbacks of group g accepted but not yet started, in order: the rest of the live work
   item registered for g *)
Definition rest_of (s : st) (w : N) (from : nat) : list N :=
  match works s !! w with Some W => drop from (w_queue W) | None => [] end.
Definition holder_from (s : st) (w : N) : nat :=     (* first not-yet-started index of work w *)
  match list_find (fun p => owned p = Some w) (workers s) with
  | Some (_, WPre _ i _) => i
  | Some (_, WRun _ i _) => S i
  | Some (_, WPost _ i) => i
  | _ => 0
  end.
Definition pend (s : st) (g : N) : list N :=
  match rwork s !! g with
  | Some w => rest_of s w (holder_from s w)
  | None => []
  end.

(* nothing more can happen without the environment: no worker step, no producer mid-runWith *)
Definition worker_quiet (p : wpc) : bool := match p with WWaiting | WExited => true | _ => false end.
Definition quiescent (s : st) : Prop :=
  forallb worker_quiet (workers s) = true /\ prods s = ∅ /\ tokens s = 0%nat.

(* system labels: steps of workers and of the Shutdown thread, wake-ups only when signalled *)
Definition sys_label (s : st) (l : label) : bool :=
  match l with
  | LSect _ _ _ | LStart _ _ | LEnd _ _ | LCloseNil | LBroadcast | LConnClose | LWgDone | LClearConn | LStopped => true
  | LWake _ => Nat.ltb 0 (tokens s)
  | _ => false
  end.
Fixpoint count_sys (s : st) (tr : list label) : nat :=
  match tr with
  | [] => 0
  | l :: tr' => (if sys_label s l then 1 else 0) +
                match step s l with Some s' => count_sys s' tr' | None => 0 end
  end.
