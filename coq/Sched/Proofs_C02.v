(* C02: callbacks of a group run exactly once, in submission order. *)
From stdpp Require Import gmap.
From Coq Require Import NArith Lia.
From GoRes Require Import Sched.Model Sched.Spec Sched.Inv Sched.Lemmas_Ghost Sched.Lemmas_Order.

Lemma pend_init g : pend init g = [].
Proof. done. Qed.

Lemma started_in_order_pf : forall tr s g,
  irun iinit tr = Some s -> g <> 0%N ->
  sublist (glog (gstart s) g ++ pend (base s) g) (glog (genq s) g).
Proof.
  intros tr s g Hr Hg. revert tr s Hr.
  apply (irun_ind (fun _ s => sublist (glog (gstart s) g ++ pend (base s) g) (glog (genq s) g))).
  - simpl. constructor.
  - intros tr s l s' Hr IH Hs. pose proof (irun_Inv _ _ Hr) as HI.
    destruct (gstep _ _ _ g HI Hs Hg) as [(-> & -> & ->)|[(c & -> & -> & ->)|[(c & -> & -> & Hp)|(-> & -> & -> & _)]]].
    + done.
    + rewrite app_assoc. by apply sublist_app.
    + rewrite Hp in IH. by rewrite <- app_assoc.
    + etrans; [|exact IH]. apply sublist_app; [done|apply sublist_nil_l].
Qed.

Definition tr_fifo : list label :=
  [LServeCAS true; LServeInit 1; LServeStarted;
   LCheck 1 5 100 true; LEnq 1 ENew; LCheck 2 5 101 true; LEnq 2 EAppend;
   LSect 0 false (RTake 0); LStart 0 100; LCheck 3 5 102 true; LEnq 3 EAppend;
   LEnd 0 100; LSect 0 false RNext; LStart 0 101]%N.

Lemma fifo_nonvacuous_pf : exists tr s,
  irun iinit tr = Some s /\ has_close tr = false /\
  glog (genq s) 5%N = [100; 101; 102]%N /\ glog (gstart s) 5%N = [100; 101]%N /\
  pend (base s) 5%N = [102%N].
Proof.
  exists tr_fifo. destruct (irun iinit tr_fifo) as [s|] eqn:E; [|by vm_compute in E].
  exists s. split; [done|]. vm_compute in E. inversion E; subst s.
  split_and!; vm_compute; reflexivity.
Qed.

(* ---------- traces without the nil-queue step ---------- *)
From GoRes Require Import Sched.Lemmas_NC.

Lemma irun_NC tr s : irun iinit tr = Some s -> has_close tr = false -> NC (base s).
Proof.
  revert tr s. apply (irun_ind (fun tr s => has_close tr = false -> NC (base s))).
  - intros _. apply NC_init.
  - intros tr s l s' Hr IH Hs Hc. apply has_close_snoc in Hc as [Hc Hl].
    eapply NC_step; [by apply IH|by apply istep_base|done].
Qed.

Lemma serve_init_starting s n s' : step s (LServeInit n) = Some s' -> svc s = Starting.
Proof. unfold step, step_gen. destruct (svc s); done. Qed.

Lemma fifo_prefix_pf : forall tr s g,
  irun iinit tr = Some s -> has_close tr = false -> g <> 0%N ->
  glog (genq s) g = glog (gstart s) g ++ pend (base s) g.
Proof.
  intros tr s g Hr Hc Hg. revert tr s Hr Hc.
  apply (irun_ind (fun tr s => has_close tr = false ->
                     glog (genq s) g = glog (gstart s) g ++ pend (base s) g)).
  - intros _. done.
  - intros tr s l s' Hr IH Hs Hc. apply has_close_snoc in Hc as [Hc Hl]. specialize (IH Hc).
    pose proof (irun_Inv _ _ Hr) as HI. pose proof (irun_NC _ _ Hr Hc) as HN.
    destruct (gstep _ _ _ g HI Hs Hg) as [(-> & -> & ->)|[(c & -> & -> & ->)|[(c & -> & -> & Hp)|(-> & -> & -> & n & ->)]]].
    + done.
    + rewrite IH. by rewrite app_assoc.
    + rewrite IH, Hp. by rewrite <- app_assoc.
    + rewrite IH. f_equal. apply istep_base, serve_init_starting in Hs.
      destruct (nc_idle _ HN (or_intror Hs)) as (_ & Hrw & _).
      unfold pend. rewrite Hrw, lookup_empty. done.
Qed.

(* ---------- at most once ---------- *)
From GoRes Require Import Sched.Lemmas_Zero Sched.Lemmas_AMO.

Lemma submseteq_NoDup_l {A} (l k : list A) : l ⊆+ k -> NoDup k -> NoDup l.
Proof.
  intros Hs Hk. apply submseteq_Permutation in Hs as [k' Hk']. rewrite Hk' in Hk.
  by apply NoDup_app in Hk as [? _].
Qed.

Lemma zero_sub tr s :
  irun iinit tr = Some s -> glog (gstart s) 0%N ++ pend0 (base s) ⊆+ glog (genq s) 0%N.
Proof.
  revert tr s.
  apply (irun_ind (fun _ s => glog (gstart s) 0%N ++ pend0 (base s) ⊆+ glog (genq s) 0%N)).
  - done.
  - intros tr s l s' Hr IH Hs. pose proof (irun_Inv _ _ Hr) as HI.
    destruct (zstep _ _ _ HI Hs) as
      [(A & B & C)|[(c & A & B & C)|[(c & A & B & C)|[(A & B & C & D)|(A & B & C & D)]]]];
      rewrite A, B.
    + by rewrite C.
    + rewrite C, app_assoc. by apply submseteq_app.
    + rewrite <- app_assoc. simpl. by rewrite <- C.
    + etrans; [|exact IH]. by apply submseteq_app.
    + rewrite D, app_nil_r. etrans; [|exact IH]. by apply submseteq_inserts_r.
Qed.

Lemma at_most_once_pf : forall tr s g,
  irun iinit tr = Some s -> NoDup (checked_cbs tr) -> NoDup (glog (gstart s) g).
Proof.
  intros tr s g Hr Hnd. pose proof (a_nd _ _ (irun_AMO _ _ Hr Hnd) g) as Hg.
  destruct (decide (g = 0%N)) as [->|Hne].
  - pose proof (submseteq_NoDup_l _ _ (zero_sub _ _ Hr) Hg) as H.
    by apply NoDup_app in H as [? _].
  - pose proof (started_in_order_pf _ _ g Hr Hne) as Hs. apply sublist_submseteq in Hs.
    pose proof (submseteq_NoDup_l _ _ Hs Hg) as H. by apply NoDup_app in H as [? _].
Qed.

(* ---------- no loss ---------- *)
Lemma zero_perm tr s :
  irun iinit tr = Some s -> has_close tr = false ->
  glog (gstart s) 0%N ++ pend0 (base s) ≡ₚ glog (genq s) 0%N.
Proof.
  revert tr s.
  apply (irun_ind (fun tr s => has_close tr = false ->
                     glog (gstart s) 0%N ++ pend0 (base s) ≡ₚ glog (genq s) 0%N)).
  - done.
  - intros tr s l s' Hr IH Hs Hc. apply has_close_snoc in Hc as [Hc Hl]. specialize (IH Hc).
    pose proof (irun_Inv _ _ Hr) as HI. pose proof (irun_NC _ _ Hr Hc) as HN.
    destruct (zstep _ _ _ HI Hs) as
      [(A & B & C)|[(c & A & B & C)|[(c & A & B & C)|[(A & B & C & D)|(A & B & (n & ->) & D)]]]];
      rewrite A, B.
    + by rewrite C.
    + rewrite C, app_assoc. by rewrite IH.
    + rewrite <- app_assoc. simpl. by rewrite <- C.
    + done.
    + rewrite D. rewrite <- IH. f_equiv.
      apply istep_base, serve_init_starting in Hs.
      destruct (nc_idle _ HN (or_intror Hs)) as (Hws & _).
      unfold pend0. rewrite Hws. by rewrite pend0_empty_works.
Qed.

Lemma quiet_lookup wk k p :
  forallb worker_quiet wk = true -> wk !! k = Some p -> worker_quiet p = true.
Proof.
  revert k. induction wk as [|a wk IH]; intros k H Hk; [done|]. simpl in H.
  apply andb_true_iff in H as [Ha H]. destruct k; simpl in Hk; [congruence|eauto].
Qed.

Lemma quiet_owned p : worker_quiet p = true -> owned p = None.
Proof. destruct p; done. Qed.

Lemma no_loss_pf : forall tr s g,
  irun iinit tr = Some s -> has_close tr = false -> svc (base s) = Started -> quiescent (base s) ->
  NoDup (checked_cbs tr) ->
  glog (gstart s) g ≡ₚ glog (genq s) g /\ (g <> 0%N -> glog (gstart s) g = glog (genq s) g).
Proof.
  intros tr s g Hr Hc Hsvc (Hq & Hp & Ht) _.
  pose proof (irun_Inv _ _ Hr) as HI. pose proof (irun_NC _ _ Hr Hc) as HN.
  assert (Hno : forall k w, ~ owns (workers (base s)) k w).
  { intros k w (p & Hk & Ho). pose proof (quiet_lookup _ _ _ Hq Hk) as Hqp.
    apply quiet_owned in Hqp. congruence. }
  destruct (wq (base s)) as [q|] eqn:Eq; [|by destruct (nc_wq _ HN (or_introl Hsvc))].
  assert (q = []) as ->.
  { destruct q as [|w q]; [done|]. exfalso.
    destruct (nc_wake _ HN _ Eq) as (_ & _ & Hw).
    destruct Hw as [(k & p & Hk & Hqp)|[Hw|(p & Hw)]]; [done| | |].
    - pose proof (quiet_lookup _ _ _ Hq Hk). congruence.
    - lia.
    - rewrite Hp, lookup_empty in Hw. done. }
  assert (Hne : g <> 0%N -> glog (gstart s) g = glog (genq s) g).
  { intros Hg. rewrite (fifo_prefix_pf _ _ g Hr Hc Hg).
    assert (pend (base s) g = []) as ->; [|by rewrite app_nil_r].
    unfold pend. destruct (rwork (base s) !! g) as [w|] eqn:Er; [|done]. exfalso.
    unfold Inv in HI. rewrite Eq in HI.
    destruct (i_rl _ _ _ _ _ HI g w) as [Hin|[k Hk]]; [done|done| |].
    - simpl in Hin. by apply elem_of_nil in Hin.
    - by eapply Hno. }
  split; [|done].
  destruct (decide (g = 0%N)) as [->|Hg]; [|by rewrite Hne].
  rewrite <- (zero_perm _ _ Hr Hc).
  assert (pend0 (base s) = []) as ->; [|by rewrite app_nil_r].
  unfold pend0, pend0c. rewrite Eq. simpl. apply bind_nil_all.
  intros p Hin. apply elem_of_list_lookup in Hin as [k Hk].
  apply held0_None, quiet_owned. eapply quiet_lookup; eauto.
Qed.
