(* The empty group (Parallel): accepted callbacks not yet started, as a multiset, and what
   one instrumented step does to it. *)
From stdpp Require Import gmap.
From Coq Require Import NArith Lia.
From GoRes Require Import Sched.Model Sched.Spec Sched.Inv Sched.Lemmas_Ghost Sched.Lemmas_Order.

Definition rest0 (ws : gmap N work) (w : N) (i : nat) : list N :=
  match ws !! w with
  | Some W => if N.eqb (w_gid W) 0 then drop i (w_queue W) else []
  | None => []
  end.
Definition held0 (ws : gmap N work) (p : wpc) : list N :=
  match owned p with Some w => rest0 ws w (hidx p) | None => [] end.
Definition pend0c (q : list N) (ws : gmap N work) (wk : list wpc) : list N :=
  (q ≫= fun w => rest0 ws w 0) ++ (wk ≫= held0 ws).
Definition pend0 (s : st) : list N := pend0c (default [] (wq s)) (works s) (workers s).

Definition zchange (s s' : ist) (l : label) : Prop :=
  (glog (genq s') 0%N = glog (genq s) 0%N /\ glog (gstart s') 0%N = glog (gstart s) 0%N /\
   pend0 (base s') ≡ₚ pend0 (base s))
  \/ (exists c, glog (genq s') 0%N = glog (genq s) 0%N ++ [c] /\
                glog (gstart s') 0%N = glog (gstart s) 0%N /\
                pend0 (base s') ≡ₚ pend0 (base s) ++ [c])
  \/ (exists c, glog (genq s') 0%N = glog (genq s) 0%N /\
                glog (gstart s') 0%N = glog (gstart s) 0%N ++ [c] /\
                pend0 (base s) ≡ₚ c :: pend0 (base s'))
  \/ (glog (genq s') 0%N = glog (genq s) 0%N /\ glog (gstart s') 0%N = glog (gstart s) 0%N /\
      l = LCloseNil /\ pend0 (base s') ⊆+ pend0 (base s))
  \/ (glog (genq s') 0%N = glog (genq s) 0%N /\ glog (gstart s') 0%N = glog (gstart s) 0%N /\
      (exists n, l = LServeInit n) /\ pend0 (base s') = []).

(* ---------- bind helpers ---------- *)
Lemma bind_nil' {A B} (f : A -> list B) : [] ≫= f = [].
Proof. done. Qed.
Lemma bind_ext_in {A B} (f g : A -> list B) (l : list A) :
  (forall x, x ∈ l -> f x = g x) -> l ≫= f = l ≫= g.
Proof.
  induction l as [|a l IH]; intros H; [done|]. rewrite !bind_cons.
  rewrite H by (by apply elem_of_cons; left). rewrite IH; [done|].
  intros x Hx. apply H. by apply elem_of_cons; right.
Qed.

Lemma bind_nil_all {A B} (f : A -> list B) (l : list A) :
  (forall x, x ∈ l -> f x = []) -> l ≫= f = [].
Proof.
  induction l as [|a l IH]; intros H; [done|]. rewrite bind_cons.
  rewrite H by (by apply elem_of_cons; left). rewrite IH; [done|].
  intros x Hx. apply H. by apply elem_of_cons; right.
Qed.

Lemma bind_insert {A B} (f : A -> list B) (l : list A) k x :
  l !! k = Some x ->
  exists rem, l ≫= f ≡ₚ f x ++ rem /\ forall y, <[k:=y]> l ≫= f ≡ₚ f y ++ rem.
Proof.
  revert k. induction l as [|a l IH]; intros k Hk; [done|]. destruct k as [|k]; simpl in Hk.
  - inversion Hk; subst. exists (l ≫= f). split; [by rewrite bind_cons|].
    intros y. change (<[0:=y]> (x :: l)) with (y :: l). by rewrite bind_cons.
  - destruct (IH k Hk) as (rem & H1 & H2). exists (f a ++ rem). split.
    + rewrite bind_cons, H1. apply Permutation_app_swap_app.
    + intros y. change (<[S k:=y]> (a :: l)) with (a :: <[k:=y]> l).
      rewrite bind_cons, H2. apply Permutation_app_swap_app.
Qed.

(* ---------- rest0 / held0 under heap updates ---------- *)
Lemma rest0_insert_ne ws w w' W i : w' <> w -> rest0 (<[w:=W]> ws) w' i = rest0 ws w' i.
Proof. intros. unfold rest0. by rewrite lookup_insert_ne. Qed.
Lemma rest0_delete_ne ws w w' i : w' <> w -> rest0 (delete w ws) w' i = rest0 ws w' i.
Proof. intros. unfold rest0. by rewrite lookup_delete_ne. Qed.
Lemma held0_insert_ne ws w W p : owned p <> Some w -> held0 (<[w:=W]> ws) p = held0 ws p.
Proof.
  intros H. unfold held0. destruct (owned p) as [w'|]; [|done].
  apply rest0_insert_ne. congruence.
Qed.
Lemma held0_delete_ne ws w p : owned p <> Some w -> held0 (delete w ws) p = held0 ws p.
Proof.
  intros H. unfold held0. destruct (owned p) as [w'|]; [|done].
  apply rest0_delete_ne. congruence.
Qed.
Lemma held0_None ws p : owned p = None -> held0 ws p = [].
Proof. intros H. unfold held0. by rewrite H. Qed.

Lemma pend0_empty_works q wk : pend0c q ∅ wk = [].
Proof.
  unfold pend0c. rewrite !bind_nil_all; [done|..].
  - intros p _. unfold held0, rest0. destruct (owned p); [|done]. by rewrite lookup_empty.
  - intros w _. unfold rest0. by rewrite lookup_empty.
Qed.

(* ---------- effect of each kind of step ---------- *)
Lemma ieff_zchange s l s' :
  Inv (base s) -> Inv (base s') -> ieff s l s' -> zchange s s' l.
Proof.
  intros HI HI' He. unfold zchange, pend0.
  destruct He as [He Ht Hrw Hws Hwk Hq'
                 |g0 c q Hq Hg0 He Ht Hq' Hrw Hws Hwk
                 |g0 c w W Hg0 Hr HW He Ht Hq' Hrw Hws Hwk
                 |k p p' Hk Ho Hh He Ht Hq' Hrw Hws Hwk
                 |k w i c g0 W Hk HW HgW Hi He Ht Hq' Hrw Hws Hwk
                 |k p w r W c Hq Hk Ho HW Hc He Ht Hq' Hrw Hws Hwk
                 |n Hl He Ht Hq' Hrw Hws Hwk].
  - rewrite He, Ht, Hws, Hwk. destruct Hq' as [->|[-> ->]].
    + left. done.
    + right; right; right; left. split_and!; [done..|]. simpl. unfold pend0c at 1. simpl.
      apply submseteq_inserts_l. done.
  - rewrite He, Ht, Hq, Hq', Hws, Hwk. simpl. unfold Inv in HI. rewrite Hq in HI.
    assert (Hfresh : works (base s) !! nextw (base s) = None).
    { destruct (works (base s) !! nextw (base s)) eqn:E; [|done].
      apply (i_lt _ _ _ _ _ HI) in E. lia. }
    assert (HQ : (q ≫= fun w => rest0 (<[nextw (base s) := Work g0 [c]]> (works (base s))) w 0)
                 = (q ≫= fun w => rest0 (works (base s)) w 0)).
    { apply bind_ext_in. intros w Hw. apply rest0_insert_ne. intros ->.
      apply (i_qworks _ _ _ _ _ HI) in Hw as [? ?]. congruence. }
    assert (HK : workers (base s) ≫= held0 (<[nextw (base s) := Work g0 [c]]> (works (base s)))
                 = workers (base s) ≫= held0 (works (base s))).
    { apply bind_ext_in. intros p Hp. apply held0_insert_ne. intros Ho.
      apply elem_of_list_lookup in Hp as [j Hj].
      assert (Hw : owns (workers (base s)) j (nextw (base s))) by (exists p; done).
      eapply owns_works in Hw as [? ?]; [|exact HI]. congruence. }
    assert (HN : rest0 (<[nextw (base s) := Work g0 [c]]> (works (base s))) (nextw (base s)) 0
                 = if N.eqb g0 0 then [c] else []).
    { unfold rest0. rewrite lookup_insert. simpl. destruct (N.eqb g0 0); done. }
    unfold pend0c. rewrite bind_app, bind_cons, bind_nil', HQ, HK, HN, app_nil_r.
    destruct (N.eqb_spec g0 0) as [->|Hne].
    + right; left. exists c. rewrite glog_gpush_eq. split_and!; [done..|]. simpl.
      rewrite <- !app_assoc. apply Permutation_app_head. apply Permutation_app_comm.
    + left. rewrite glog_gpush_ne by done. split_and!; [done..|]. by rewrite app_nil_r.
  - rewrite He, Ht, Hq', Hws, Hwk. left. rewrite glog_gpush_ne by done. split_and!; [done..|].
    assert (HgW : w_gid W = g0).
    { destruct (i_rw _ _ _ _ _ HI _ _ Hr) as (_ & W' & HW' & <-). congruence. }
    assert (Hr0 : forall w' i, rest0 (<[w := Work (w_gid W) (w_queue W ++ [c])]> (works (base s))) w' i
                               = rest0 (works (base s)) w' i).
    { intros w' i. destruct (decide (w' = w)) as [->|Hne]; [|by apply rest0_insert_ne].
      unfold rest0. rewrite lookup_insert, HW. simpl.
      destruct (N.eqb_spec (w_gid W) 0); [congruence|done]. }
    unfold pend0c. f_equiv.
    + erewrite bind_ext_in; [done|]. intros w' _. apply Hr0.
    + erewrite bind_ext_in; [done|]. intros p _. unfold held0. destruct (owned p); [|done]. apply Hr0.
  - rewrite He, Ht, Hq', Hws, Hwk. left. split_and!; [done..|]. unfold pend0c. f_equiv.
    destruct (bind_insert (held0 (works (base s))) _ _ _ Hk) as (rem & H1 & H2).
    rewrite H1, (H2 p'). f_equiv. unfold held0. by rewrite Ho, Hh.
  - rewrite He, Ht, Hq', Hws, Hwk.
    destruct (bind_insert (held0 (works (base s))) _ _ _ Hk) as (rem & H1 & H2).
    specialize (H2 (WRun w i c)). unfold held0 in H1 at 2. unfold held0 in H2 at 2.
    simpl in H1, H2. unfold rest0 in H1, H2. rewrite HW, HgW in H1, H2.
    destruct (N.eqb_spec g0 0) as [->|Hne].
    + right; right; left. exists c. rewrite glog_gpush_eq. split_and!; [done..|].
      unfold pend0c. rewrite H1, H2. rewrite (drop_S _ _ _ Hi). simpl.
      by rewrite <- Permutation_middle.
    + left. rewrite glog_gpush_ne by done. split_and!; [done..|].
      unfold pend0c. by rewrite H1, H2.
  - rewrite He, Ht, Hq, Hq', Hws, Hwk. left. split_and!; [done..|]. simpl.
    destruct (bind_insert (held0 (works (base s))) _ _ _ Hk) as (rem & H1 & H2).
    unfold pend0c. rewrite H1, (H2 (WPre w 0 c)), bind_cons. rewrite (held0_None _ p Ho).
    unfold held0. simpl.
    rewrite <- !app_assoc. apply Permutation_app_swap_app.
  - rewrite He, Ht, Hq', Hws, Hwk. right; right; right; right. split_and!; [done..|eauto|].
    simpl. apply pend0_empty_works.
Qed.

Lemma retired_pend0 b k w i W :
  Inv b -> workers b !! k = Some (WPost w i) -> works b !! w = Some W -> w_queue W !! i = None ->
  pend0 (retired b k w W) ≡ₚ pend0 b.
Proof.
  intros HI Hk HW Hi. unfold pend0, retired, pend0c. simpl.
  assert (Hlt : k < length (workers b)) by eauto using lookup_lt_Some.
  assert (Hkw : owns (workers b) k w) by (exists (WPost w i); done).
  f_equiv.
  - erewrite bind_ext_in; [done|]. intros w' Hw'. simpl. apply rest0_delete_ne. intros ->.
    by eapply (i_oq _ _ _ _ _ HI).
  - assert (HK : <[k:=WStart]> (workers b) ≫= held0 (delete w (works b))
                 = <[k:=WStart]> (workers b) ≫= held0 (works b)).
    { apply bind_ext_in. intros p Hp. apply elem_of_list_lookup in Hp as [j Hj].
      destruct (decide (j = k)) as [->|Hne].
      - rewrite list_lookup_insert in Hj by done. inversion Hj; subst. done.
      - rewrite list_lookup_insert_ne in Hj by done. apply held0_delete_ne. intros Ho.
        apply Hne. eapply (i_oo _ _ _ _ _ HI); [exists p; done|done]. }
    rewrite HK. destruct (bind_insert (held0 (works b)) _ _ _ Hk) as (rem & H1 & H2).
    rewrite H1, (H2 WStart). f_equiv. unfold held0. simpl. unfold rest0. rewrite HW.
    destruct (N.eqb (w_gid W) 0); [|done]. rewrite drop_ge; [done|]. by apply lookup_ge_None.
Qed.

Lemma zstep s l s' : Inv (base s) -> istep s l = Some s' -> zchange s s' l.
Proof.
  intros HI Hs. pose proof (istep_Inv _ _ _ HI Hs) as HI'.
  destruct (istep_inv _ _ _ HI Hs) as [He|(k & w & i & W & Hk & HW & Hi & He)].
  - by apply ieff_zchange.
  - pose proof (retired_Inv _ k w i W HI Hk HW) as HIm.
    pose proof (ieff_zchange (ISt (retired (base s) k w W) (genq s) (gstart s)) l s' HIm HI' He) as Hc.
    unfold zchange in *. simpl in Hc.
    pose proof (retired_pend0 _ k w i W HI Hk HW Hi) as Hp.
    destruct Hc as [(A & B & C)|[(c & A & B & C)|[(c & A & B & C)|[(A & B & C & D)|(A & B & C & D)]]]].
    + left. split_and!; [done..|]. by rewrite C.
    + right; left. exists c. split_and!; [done..|]. by rewrite C, Hp.
    + right; right; left. exists c. split_and!; [done..|]. by rewrite <- Hp.
    + right; right; right; left. split_and!; [done..|]. by rewrite <- Hp.
    + right; right; right; right. done.
Qed.
