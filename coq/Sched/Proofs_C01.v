(* C01: at most one callback of a worker group executes at any instant. *)
From stdpp Require Import gmap.
From Coq Require Import NArith Lia.
From GoRes Require Import Sched.Model Sched.Spec Sched.Inv.

Lemma NoDup_omap_idx {A B} (f : A -> option B) (l : list A) :
  (forall i j x y b, l !! i = Some x -> l !! j = Some y -> f x = Some b -> f y = Some b -> i = j) ->
  NoDup (omap f l).
Proof.
  induction l as [|a l IH]; intros H; simpl; [constructor|].
  assert (Hl : NoDup (omap f l)).
  { apply IH. intros i j x y b Hi Hj Hx Hy.
    assert (S i = S j) by (eapply (H (S i) (S j)); eauto). lia. }
  destruct (f a) as [b|] eqn:Ea; [|done].
  constructor; [|done]. intros Hin. apply elem_of_list_omap in Hin as (y & Hy & Hfy).
  apply elem_of_list_lookup in Hy as [j Hj].
  assert (0 = S j) by (eapply (H 0 (S j) a y b); eauto). lia.
Qed.

(* two workers holding work items of the same group g <> 0 are the same worker *)
Lemma same_group_same_worker s k1 k2 p1 p2 w1 w2 g :
  Inv s -> workers s !! k1 = Some p1 -> workers s !! k2 = Some p2 ->
  owned p1 = Some w1 -> owned p2 = Some w2 ->
  gid_of s w1 = Some g -> gid_of s w2 = Some g -> g <> 0%N -> k1 = k2.
Proof.
  intros HI H1 H2 Ho1 Ho2 Hg1 Hg2 Hg. unfold gid_of in *.
  destruct (works s !! w1) as [W1|] eqn:E1; [|done].
  destruct (works s !! w2) as [W2|] eqn:E2; [|done].
  simpl in *. inversion Hg1 as [Hg1']. inversion Hg2 as [Hg2'].
  assert (Ha : rwork s !! w_gid W1 = Some w1).
  { eapply (i_reg _ _ _ _ _ HI); [right; exists k1, p1; done|done|congruence]. }
  assert (Hb : rwork s !! w_gid W2 = Some w2).
  { eapply (i_reg _ _ _ _ _ HI); [right; exists k2, p2; done|done|congruence]. }
  assert (w1 = w2) by congruence. subst w2.
  eapply (i_oo _ _ _ _ _ HI); [exists p1; done|exists p2; done].
Qed.

Lemma mutex_pf : forall tr s, run init tr = Some s -> NoDup (running_groups s).
Proof.
  intros tr s Hr. apply Inv_run in Hr. unfold running_groups. apply NoDup_omap_idx.
  intros i j x y b Hi Hj Hx Hy.
  destruct x as [| | | |w1 i1 c1| |]; simpl in Hx; try done.
  destruct y as [| | | |w2 i2 c2| |]; simpl in Hy; try done.
  destruct (gid_of s w1) as [g1|] eqn:E1; [|done].
  destruct (gid_of s w2) as [g2|] eqn:E2; [|done].
  destruct (N.eqb_spec g1 0) as [?|Hn1]; [done|].
  destruct (N.eqb_spec g2 0) as [?|Hn2]; [done|].
  inversion Hx; inversion Hy; subst.
  eapply (same_group_same_worker s i j _ _ w1 w2 b); eauto.
Qed.

Lemma group_owned_once_pf : forall tr s k1 k2 p1 p2 w1 w2 g,
  run init tr = Some s -> k1 <> k2 ->
  workers s !! k1 = Some p1 -> workers s !! k2 = Some p2 ->
  owned p1 = Some w1 -> owned p2 = Some w2 ->
  gid_of s w1 = Some g -> gid_of s w2 = Some g -> g = 0%N.
Proof.
  intros tr s k1 k2 p1 p2 w1 w2 g Hr Hne H1 H2 Ho1 Ho2 Hg1 Hg2. apply Inv_run in Hr.
  destruct (N.eq_dec g 0) as [?|Hg]; [done|]. exfalso. apply Hne.
  eapply same_group_same_worker; eauto.
Qed.

Definition tr_par : list label :=
  [LServeCAS true; LServeInit 2; LServeStarted;
   LCheck 1 0 100 true; LEnq 1 ENew; LCheck 2 0 101 true; LEnq 2 ENew;
   LSect 0 false (RTake 0); LSect 1 false (RTake 1); LStart 0 100; LStart 1 101]%N.

Lemma parallel_exempt_pf : exists tr s,
  run init tr = Some s /\ workers s = [WRun 0%N 0 100%N; WRun 1%N 0 101%N] /\
  gid_of s 0%N = Some 0%N /\ gid_of s 1%N = Some 0%N.
Proof.
  exists tr_par. destruct (run init tr_par) as [s|] eqn:E; [|by vm_compute in E].
  exists s. split; [done|]. vm_compute in E. inversion E; subst s.
  split; [|split]; vm_compute; reflexivity.
Qed.

Definition tr_two : list label :=
  [LServeCAS true; LServeInit 2; LServeStarted;
   LCheck 1 5 100 true; LEnq 1 ENew; LCheck 2 6 101 true; LEnq 2 ENew;
   LSect 0 false (RTake 0); LSect 1 false (RTake 1); LStart 0 100; LStart 1 101]%N.

Lemma two_groups_pf : exists tr s,
  run init tr = Some s /\ running_groups s = [5%N; 6%N].
Proof.
  exists tr_two. destruct (run init tr_two) as [s|] eqn:E; [|by vm_compute in E].
  exists s. split; [done|]. vm_compute in E. inversion E; subst s.
  vm_compute; reflexivity.
Qed.
