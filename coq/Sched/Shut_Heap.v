(* C03 progress: heap well-formedness of the work items held by the queue / the workers, the
   wake-up tokens after the broadcast, and the progress theorem. *)
From stdpp Require Import gmap.
From Coq Require Import NArith Lia.
From GoRes Require Import Sched.Spec Sched.Shut_Base Sched.Shut_Safe.

(* every work id in the queue or owned by a worker is allocated, and is held exactly once *)
Definition hwf4 (q : list N) (ws : gmap N work) (wk : list wpc) (nw : N) : Prop :=
  NoDup q /\
  (forall w, w ∈ q -> is_Some (ws !! w)) /\
  (forall k p w, wk !! k = Some p -> owned p = Some w -> is_Some (ws !! w) /\ w ∉ q) /\
  (forall k k' p p' w, wk !! k = Some p -> wk !! k' = Some p' -> owned p = Some w -> owned p' = Some w -> k = k') /\
  (forall w, is_Some (ws !! w) -> (w < nw)%N).

Definition qlist (s : st) : list N := default [] (wq s).
Definition hwf (s : st) : Prop := hwf4 (qlist s) (works s) (workers s) (nextw s).

Lemma hwf4_keep q ws wk nw k p p' :
  hwf4 q ws wk nw -> wk !! k = Some p -> (owned p' = None \/ owned p' = owned p) ->
  hwf4 q ws (<[k := p']> wk) nw.
Proof.
  intros (H1 & H2 & H3 & H4 & H5) Ek Ho. assert (Hk : k < length wk) by (eapply lookup_lt_Some; eauto).
  split_and!; auto.
  - intros k1 p1 w E1 O1. destruct (decide (k1 = k)) as [->|N].
    + rewrite list_lookup_insert in E1 by done. simplify_eq.
      destruct Ho as [Ho|Ho]; [congruence|]. rewrite Ho in O1. eauto.
    + rewrite list_lookup_insert_ne in E1 by done. eauto.
  - intros k1 k2 p1 p2 w E1 E2 O1 O2.
    destruct (decide (k1 = k)) as [->|N1], (decide (k2 = k)) as [->|N2]; try done.
    + rewrite list_lookup_insert in E1 by done. rewrite list_lookup_insert_ne in E2 by done. simplify_eq.
      destruct Ho as [Ho|Ho]; [congruence|]. rewrite Ho in O1. eauto.
    + rewrite list_lookup_insert in E2 by done. rewrite list_lookup_insert_ne in E1 by done. simplify_eq.
      destruct Ho as [Ho|Ho]; [congruence|]. rewrite Ho in O2. eauto.
    + rewrite list_lookup_insert_ne in E1 by done. rewrite list_lookup_insert_ne in E2 by done. eauto.
Qed.

Lemma hwf4_take w q ws wk nw k p i c :
  hwf4 (w :: q) ws wk nw -> wk !! k = Some p -> owned p = None ->
  hwf4 q ws (<[k := WPre w i c]> wk) nw.
Proof.
  intros (H1 & H2 & H3 & H4 & H5) Ek Ho. assert (Hk : k < length wk) by (eapply lookup_lt_Some; eauto).
  apply NoDup_cons in H1 as [H1a H1b].
  split_and!; auto.
  - intros w1 Hw. apply H2. by right.
  - intros k1 p1 w1 E1 O1. destruct (decide (k1 = k)) as [->|N].
    + rewrite list_lookup_insert in E1 by done. simplify_eq. cbn in O1. simplify_eq.
      split; [|done]. apply H2. by left.
    + rewrite list_lookup_insert_ne in E1 by done. destruct (H3 _ _ _ E1 O1) as [Ha Hb].
      split; [done|]. intros Hin. apply Hb. by right.
  - intros k1 k2 p1 p2 w1 E1 E2 O1 O2.
    destruct (decide (k1 = k)) as [->|N1], (decide (k2 = k)) as [->|N2]; try done.
    + rewrite list_lookup_insert in E1 by done. rewrite list_lookup_insert_ne in E2 by done. simplify_eq.
      cbn in O1. simplify_eq. destruct (H3 _ _ _ E2 O2) as [_ Hb]. exfalso. apply Hb. by left.
    + rewrite list_lookup_insert in E2 by done. rewrite list_lookup_insert_ne in E1 by done. simplify_eq.
      cbn in O2. simplify_eq. destruct (H3 _ _ _ E1 O1) as [_ Hb]. exfalso. apply Hb. by left.
    + rewrite list_lookup_insert_ne in E1 by done. rewrite list_lookup_insert_ne in E2 by done. eauto.
Qed.

Lemma hwf4_retire q ws wk nw k p w :
  hwf4 q ws wk nw -> wk !! k = Some p -> owned p = Some w ->
  hwf4 q (delete w ws) (<[k := WStart]> wk) nw.
Proof.
  intros H Ek Ho. assert (Hk : k < length wk) by (eapply lookup_lt_Some; eauto).
  pose proof (hwf4_keep _ _ _ _ k p WStart H Ek (or_introl eq_refl)) as (G1 & G2 & G3 & G4 & G5).
  destruct H as (H1 & H2 & H3 & H4 & H5).
  assert (Hq : w ∉ q) by (eapply H3; eauto).
  assert (Hno : forall k1 p1, <[k := WStart]> wk !! k1 = Some p1 -> owned p1 <> Some w).
  { intros k1 p1 E1 O1. destruct (decide (k1 = k)) as [->|N].
    - rewrite list_lookup_insert in E1 by done. by simplify_eq.
    - rewrite list_lookup_insert_ne in E1 by done. apply N. eauto. }
  split_and!; auto.
  - intros w1 Hw. rewrite lookup_delete_ne by (intros ->; done). auto.
  - intros k1 p1 w1 E1 O1. destruct (G3 _ _ _ E1 O1) as [Ga Gb]. split; [|done].
    rewrite lookup_delete_ne; [done|]. intros ->. by eapply Hno.
  - intros w1 Hw. apply H5. destruct (decide (w = w1)) as [->|N].
    + rewrite lookup_delete in Hw. by destruct Hw.
    + by rewrite lookup_delete_ne in Hw.
Qed.

Lemma hwf4_append q ws wk nw w W W' :
  hwf4 q ws wk nw -> ws !! w = Some W -> hwf4 q (<[w := W']> ws) wk nw.
Proof.
  intros (H1 & H2 & H3 & H4 & H5) Ew.
  assert (X : forall w1, is_Some (<[w := W']> ws !! w1) <-> is_Some (ws !! w1)).
  { intros w1. rewrite lookup_insert_is_Some. split; [|destruct (decide (w = w1)); auto].
    intros [->|[_ ?]]; [eauto|done]. }
  split_and!; auto.
  - intros w1 Hw. apply X. auto.
  - intros k p w1 E O. destruct (H3 _ _ _ E O). split; [|done]. by apply X.
  - intros w1 Hw. apply H5. by apply X.
Qed.

Lemma hwf4_new q ws wk nw W :
  hwf4 q ws wk nw -> hwf4 (q ++ [nw]) (<[nw := W]> ws) wk (N.succ nw).
Proof.
  intros (H1 & H2 & H3 & H4 & H5).
  assert (F : forall w, is_Some (ws !! w) -> w <> nw). { intros w Hw ->. apply H5 in Hw. lia. }
  split_and!; auto.
  - apply NoDup_app. split; [done|]. split; [|apply NoDup_singleton].
    intros w Hw Hw'. apply elem_of_list_singleton in Hw'. subst. by eapply F; eauto.
  - intros w Hw. apply elem_of_app in Hw as [Hw|Hw].
    + rewrite lookup_insert_is_Some. destruct (decide (nw = w)); auto.
    + apply elem_of_list_singleton in Hw. subst. rewrite lookup_insert. eauto.
  - intros k p w E O. destruct (H3 _ _ _ E O) as [Ha Hb]. split.
    + rewrite lookup_insert_is_Some. destruct (decide (nw = w)); auto.
    + intros Hw. apply elem_of_app in Hw as [Hw|Hw]; [done|].
      apply elem_of_list_singleton in Hw. by eapply F; eauto.
  - intros w Hw. apply lookup_insert_is_Some in Hw as [<-|[_ Hw]]; [lia|]. apply H5 in Hw. lia.
Qed.

Lemma hwf4_close q ws wk nw : hwf4 q ws wk nw -> hwf4 [] ws wk nw.
Proof.
  intros (H1 & H2 & H3 & H4 & H5). split_and!; auto.
  - apply NoDup_nil_2.
  - intros w Hw. by apply elem_of_nil in Hw.
  - intros k p w E O. destruct (H3 _ _ _ E O). split; [done|]. apply not_elem_of_nil.
Qed.

Lemma hwf4_init n nw : hwf4 [] ∅ (replicate n WStart) nw.
Proof.
  split_and!.
  - apply NoDup_nil_2.
  - intros w Hw. by apply elem_of_nil in Hw.
  - intros k p w E O. apply lookup_replicate in E as [-> _]. done.
  - intros k k' p p' w E _ O. apply lookup_replicate in E as [-> _]. done.
  - intros w Hw. rewrite lookup_empty in Hw. by destruct Hw.
Qed.

Lemma hwf_init : hwf init.
Proof.
  unfold hwf, init; cbn. split_and!.
  - apply NoDup_nil_2.
  - intros w Hw. by apply elem_of_nil in Hw.
  - intros k p w E. done.
  - intros k k' p p' w E. done.
  - intros w Hw. rewrite lookup_empty in Hw. by destruct Hw.
Qed.

(* head_eval on a state whose worker k does not own anything *)
Lemma hwf_head s k p s' r :
  hwf s -> workers s !! k = Some p -> owned p = None -> head_eval s k = Some (s', r) -> hwf s'.
Proof.
  intros H Ek Ho Hh.
  apply head_eval_inv in Hh as [(E & -> & _)|[(E & -> & _)|(w & q & W & c & E & _ & _ & -> & _)]];
    unfold hwf in *; cbn.
  - eapply hwf4_keep; eauto.
  - eapply hwf4_keep; eauto.
  - unfold qlist in *. rewrite E in H. cbn in *. eapply hwf4_take; eauto.
Qed.

Lemma hwf_step s l s' : hwf s -> step s l = Some s' -> hwf s'.
Proof.
  intros HI HS.
  destruct l as [p g c ok|p r|p|k rt r|k|k c|k c|ok| | | | | | |ok|n| |p ok|p sent].
  - unfold step, step_gen in HS. destruct (prods s !! p); [done|].
    destruct (bool_eq ok (started s)); [|done]. destruct ok; simplify_eq; exact HI.
  - apply step_enq_inv in HS as (g & c & _ & [(Eq & _ & ->)|[(q & w & W & Eq & _ & EW & _ & ->)|(q & Eq & _ & _ & ->)]]).
    + exact HI.
    + unfold hwf in *; cbn. eapply hwf4_append; eauto.
    + unfold hwf, qlist in *; cbn. rewrite Eq in HI. cbn in HI. by apply hwf4_new.
  - unfold step, step_gen in HS. destruct (prods s !! p) as [[|]|]; try done.
    destruct (tokens s <? n_waiting s)%nat; simplify_eq; exact HI.
  - apply step_sect_inv in HS as [(p & Ek & Hp & _ & Hh)|[(w & i & W & c & Ek & _ & _ & _ & _ & ->)|(w & i & W & Ek & _ & _ & _ & Hh)]].
    + eapply hwf_head; eauto. destruct Hp; by subst.
    + unfold hwf in *; cbn. eapply hwf4_keep; eauto.
    + assert (Hk : k < length (workers s)) by (eapply lookup_lt_Some; eauto).
      pose proof (hwf4_retire _ _ _ _ k _ w HI Ek eq_refl) as H1.
      apply head_eval_inv in Hh as [(E & -> & _)|[(E & -> & _)|(w' & q & W' & c & E & _ & _ & -> & _)]];
        unfold hwf, qlist in *; cbn in *.
      * rewrite <- (list_insert_insert (workers s) k WExited WStart).
        eapply (hwf4_keep _ _ _ _ k WStart); [exact H1|by apply list_lookup_insert|by left].
      * rewrite <- (list_insert_insert (workers s) k WWaiting WStart).
        eapply (hwf4_keep _ _ _ _ k WStart); [exact H1|by apply list_lookup_insert|by left].
      * rewrite <- (list_insert_insert (workers s) k (WPre w' 0 c) WStart).
        rewrite E in H1. cbn in H1.
        eapply (hwf4_take _ _ _ _ _ k WStart); [exact H1|by apply list_lookup_insert|done].
  - apply step_wake_inv in HS as [Ek ->]. unfold hwf in *; cbn. eapply hwf4_keep; eauto.
  - apply step_start_inv in HS as (w & i & Ek & ->). unfold hwf in *; cbn. eapply hwf4_keep; eauto.
  - apply step_end_inv in HS as (w & i & Ek & ->). unfold hwf in *; cbn. eapply hwf4_keep; eauto.
  - unfold step, step_gen in HS. destruct (bool_eq ok (started s)); [|done].
    destruct ok; simplify_eq; exact HI.
  - unfold step, step_gen in HS. destruct (shut s); try done. simplify_eq.
    unfold hwf in *; cbn. eapply hwf4_close; eauto.
  - unfold step, step_gen in HS. destruct (shut s); try done. simplify_eq. exact HI.
  - unfold step, step_gen in HS. destruct (shut s); try done. simplify_eq. exact HI.
  - unfold step, step_gen in HS. destruct (shut s); try done. destruct (all_exited s); [|done].
    simplify_eq. exact HI.
  - unfold step, step_gen in HS. destruct (shut s); try done. simplify_eq. exact HI.
  - unfold step, step_gen in HS. destruct (shut s); try done. simplify_eq. exact HI.
  - unfold step, step_gen in HS. destruct (bool_eq ok (bool_decide (svc s = Stopped))); [|done].
    destruct ok; simplify_eq; exact HI.
  - unfold step, step_gen in HS. destruct (svc s); try done. destruct (wq s); [done|]. destruct n as [|n]; [done|]. simplify_eq.
    unfold hwf; cbn. apply (hwf4_init (S n)).
  - unfold step, step_gen in HS. destruct (svc s); try done. destruct (wq s); [|done]. simplify_eq.
    exact HI.
  - unfold step, step_gen in HS. destruct (bool_decide (p ∈ pubs s)); [done|].
    destruct (bool_eq ok (started s)); [|done]. destruct ok; simplify_eq; exact HI.
  - unfold step, step_gen in HS. destruct (bool_decide (p ∈ pubs s)); [|done].
    destruct (bool_eq sent (nc s)); [|done]. simplify_eq. exact HI.
Qed.

(* after the broadcast every waiting worker has a pending wake-up *)
Definition tokinv (s : st) : Prop :=
  (shut s = SBcast \/ shut s = SConnClosed) -> n_waiting s <= tokens s.

Lemma inv_closed s : inv s -> (shut s = SBcast \/ shut s = SConnClosed) -> wq s = None.
Proof. unfold inv. intros [_ H] [E|E]; rewrite E in H; tauto. Qed.

Ltac simp_st := cbn [workers tokens shut set_workers set_q set_tokens set_prods set_shut].

Lemma tokinv_step s l s' : inv s -> tokinv s -> step s l = Some s' -> tokinv s'.
Proof.
  intros HV HI HS. unfold tokinv in *.
  destruct l as [p g c ok|p r|p|k rt r|k|k c|k c|ok| | | | | | |ok|n| |p ok|p sent].
  - unfold step, step_gen in HS. destruct (prods s !! p); [done|].
    destruct (bool_eq ok (started s)); [|done]. destruct ok; simplify_eq; exact HI.
  - apply step_enq_inv in HS as (g & c & _ & [(Eq & _ & ->)|[(q & w & W & Eq & _ & EW & _ & ->)|(q & Eq & _ & _ & ->)]]);
      exact HI.
  - unfold step, step_gen in HS. destruct (prods s !! p) as [[|]|]; try done.
    destruct (Nat.ltb_spec (tokens s) (n_waiting s)); simplify_eq; [|exact HI].
    change (shut s = SBcast \/ shut s = SConnClosed -> n_waiting s <= S (tokens s)).
    intros Hs. specialize (HI Hs). lia.
  - intros Hs.
    assert (Hsh : shut s' = shut s).
    { match type of HS with step _ ?l = _ => destruct (worker_step_frame s l s' I HS) as [F _] end. apply F. }
    rewrite Hsh in Hs. pose proof (inv_closed s HV Hs) as Eq. specialize (HI Hs).
    apply step_sect_inv in HS as [(p & Ek & Hp & _ & Hh)|[(w & i & W & c & Ek & _ & _ & _ & _ & ->)|(w & i & W & Ek & _ & _ & _ & Hh)]].
    + apply head_eval_inv in Hh as [(E & -> & _)|[(E & -> & _)|(w' & q & W' & c & E & _ & _ & -> & _)]];
        try congruence.
      rewrite !n_waiting_nwait in *. simp_st.
      pose proof (nwait_insert _ _ _ WExited Ek) as X. destruct Hp; subst; cbn in X; lia.
    + rewrite !n_waiting_nwait in *. simp_st.
      pose proof (nwait_insert _ _ _ (WPre w i c) Ek) as X. cbn in X; lia.
    + apply head_eval_inv in Hh as [(E & -> & _)|[(E & -> & _)|(w' & q & W' & c & E & _ & _ & -> & _)]];
        cbn in E; try congruence.
      rewrite !n_waiting_nwait in *. simp_st.
      pose proof (nwait_insert _ _ _ WExited Ek) as X. cbn in X; lia.
  - apply step_wake_inv in HS as [Ek ->]. simp_st. intros Hs. specialize (HI Hs).
    rewrite !n_waiting_nwait in *. simp_st.
    pose proof (nwait_insert _ _ _ WWoken Ek) as X. cbn in X. lia.
  - apply step_start_inv in HS as (w & i & Ek & ->). simp_st. intros Hs. specialize (HI Hs).
    rewrite !n_waiting_nwait in *. simp_st.
    pose proof (nwait_insert _ _ _ (WRun w i c) Ek) as X. cbn in X. lia.
  - apply step_end_inv in HS as (w & i & Ek & ->). simp_st. intros Hs. specialize (HI Hs).
    rewrite !n_waiting_nwait in *. simp_st.
    pose proof (nwait_insert _ _ _ (WPost w (S i)) Ek) as X. cbn in X. lia.
  - unfold step, step_gen in HS. destruct (bool_eq ok (started s)); [|done].
    destruct ok; simplify_eq; [|exact HI]. cbn. intros [?|?]; done.
  - unfold step, step_gen in HS. destruct (shut s); try done. simplify_eq. cbn. intros [?|?]; done.
  - unfold step, step_gen in HS. destruct (shut s); try done. simplify_eq. intros _.
    change (n_waiting s <= n_waiting s). lia.
  - unfold step, step_gen in HS. destruct (shut s) eqn:Es; try done. simplify_eq. intros _.
    change (n_waiting s <= tokens s). apply HI. auto.
  - unfold step, step_gen in HS. destruct (shut s); try done. destruct (all_exited s); [|done].
    simplify_eq. cbn. intros [?|?]; done.
  - unfold step, step_gen in HS. destruct (shut s); try done. simplify_eq. cbn. intros [?|?]; done.
  - unfold step, step_gen in HS. destruct (shut s); try done. simplify_eq. cbn. intros [?|?]; done.
  - unfold step, step_gen in HS. destruct (bool_eq ok (bool_decide (svc s = Stopped))); [|done].
    destruct ok; simplify_eq; exact HI.
  - unfold step, step_gen in HS. destruct (svc s) eqn:Ev; try done. destruct (wq s) eqn:Ewq0; [done|]. destruct n as [|n]; [done|]. simplify_eq.
    cbn. intros Hs. exfalso. destruct HV as [_ HV]. rewrite Ev in HV.
    destruct Hs as [Hs|Hs]; rewrite Hs in HV; intuition congruence.
  - unfold step, step_gen in HS. destruct (svc s); try done. destruct (wq s); [|done]. simplify_eq.
    exact HI.
  - unfold step, step_gen in HS. destruct (bool_decide (p ∈ pubs s)); [done|].
    destruct (bool_eq ok (started s)); [|done]. destruct ok; simplify_eq; exact HI.
  - unfold step, step_gen in HS. destruct (bool_decide (p ∈ pubs s)); [|done].
    destruct (bool_eq sent (nc s)); [|done]. simplify_eq. exact HI.
Qed.

Definition pinv (s : st) : Prop := inv s /\ hwf s /\ tokinv s.

Lemma pinv_run tr : forall s s', pinv s -> run s tr = Some s' -> pinv s'.
Proof.
  induction tr as [|l tr IH]; intros s s' HI HR; cbn in HR.
  - by simplify_eq.
  - change (step_gen true s l) with (step s l) in HR. destruct (step s l) as [s1|] eqn:E; [|done].
    eapply IH; [|exact HR]. destruct HI as (H1 & H2 & H3). split_and!.
    + eapply inv_step; eauto.
    + eapply hwf_step; eauto.
    + eapply tokinv_step; eauto.
Qed.

Lemma pinv_reach tr s : run init tr = Some s -> pinv s.
Proof.
  apply pinv_run. split_and!; [apply inv_init|apply hwf_init|]. intros [?|?]; done.
Qed.

(* ---------- progress ---------- *)
Lemma progress_pinv s : pinv s -> svc s = Stopping -> exists l, sys_label s l = true /\ step s l <> None.
Proof.
  intros (HV & HH & HT) Ev. pose proof HV as [_ HV'].
  destruct (shut s) eqn:Es.
  - rewrite Ev in HV'. done.
  - exists LCloseNil. split; [done|]. unfold step, step_gen. by rewrite Es.
  - exists LBroadcast. split; [done|]. unfold step, step_gen. by rewrite Es.
  - exists LConnClose. split; [done|]. unfold step, step_gen. by rewrite Es.
  - destruct HV' as (_ & Eq & _).
    destruct (all_exited s) eqn:Ex.
    + exists LWgDone. split; [done|]. unfold step, step_gen. by rewrite Es, Ex.
    + apply not_all_exited_ex in Ex as (k & p & Ek & Np).
      destruct p as [| | |w i c|w i c|w i|]; [| | | | | |done].
      * exists (LSect k false RExit). split; [done|]. unfold step, step_gen, head_eval. rewrite Ek, Eq. done.
      * exists (LWake k). split.
        -- change ((0 <? tokens s) = true). apply Nat.ltb_lt. assert (X : n_waiting s <= tokens s) by (apply HT; auto).
           pose proof (nwait_pos _ _ Ek). rewrite n_waiting_nwait in X. lia.
        -- unfold step, step_gen. rewrite Ek. done.
      * exists (LSect k false RExit). split; [done|]. unfold step, step_gen, head_eval. rewrite Ek, Eq. done.
      * exists (LStart k c). split; [done|]. unfold step, step_gen. rewrite Ek, N.eqb_refl. done.
      * exists (LEnd k c). split; [done|]. unfold step, step_gen. rewrite Ek, N.eqb_refl. done.
      * destruct HH as (_ & _ & H3 & _). destruct (H3 _ _ w Ek eq_refl) as [[W EW] _].
        destruct (w_queue W !! i) as [c|] eqn:Ec.
        -- exists (LSect k false RNext). split; [done|]. unfold step, step_gen. rewrite Ek, EW, Ec. done.
        -- exists (LSect k true RExit). split; [done|]. unfold step, step_gen, head_eval.
           rewrite Ek, EW, Ec. cbn. rewrite Eq. done.
  - exists LClearConn. split; [done|]. unfold step, step_gen. by rewrite Es.
  - exists LStopped. split; [done|]. unfold step, step_gen. by rewrite Es.
Qed.
