(* C03 bound: an explicit variant [mu] for the system steps of a closing service (queue already
   nil): every system step decreases it, no other step increases it. *)
From stdpp Require Import gmap.
From Coq Require Import NArith Lia.
From GoRes Require Import Sched.Spec Sched.Shut_Base Sched.Shut_Safe.

Definition qlen (ws : gmap N work) (w : N) : nat :=
  match ws !! w with Some W => length (w_queue W) | None => 0 end.
(* system steps a worker can still take once the queue is nil *)
Definition fw (ws : gmap N work) (p : wpc) : nat :=
  match p with
  | WStart | WWoken => 1
  | WWaiting => 2
  | WPre w i _ => 3 * (qlen ws w - S i) + 3
  | WRun w i _ => 3 * (qlen ws w - S i) + 2
  | WPost w i => 3 * (qlen ws w - i) + 1
  | WExited => 0
  end.
Fixpoint wsum (ws : gmap N work) (l : list wpc) : nat :=
  match l with [] => 0 | p :: l => fw ws p + wsum ws l end.
Definition dist (p : spc) : nat :=
  match p with SIdle => 0 | SCas => 5 | SNil => 4 | SBcast => 3 | SConnClosed => 2 | SWaited => 1 | SCleared => 0 end.
Definition mu (s : st) : nat := dist (shut s) + wsum (works s) (workers s).

Lemma wsum_insert ws l k p p' : l !! k = Some p ->
  wsum ws (<[k := p']> l) + fw ws p = wsum ws l + fw ws p'.
Proof.
  revert k; induction l as [|a l IH]; intros k E; [done|]. destruct k; cbn in E.
  - simplify_eq. change (<[0%nat := p']> (p :: l)) with (p' :: l). cbn [wsum]. lia.
  - change (<[S k := p']> (a :: l)) with (a :: <[k := p']> l). cbn [wsum]. specialize (IH k E). lia.
Qed.
Lemma wsum_mono ws ws' l : (forall p, fw ws' p <= fw ws p) -> wsum ws' l <= wsum ws l.
Proof. intros H. induction l as [|a l IH]; cbn [wsum]; [lia|]. specialize (H a). lia. Qed.
Lemma qlen_delete ws w w' : qlen (delete w ws) w' <= qlen ws w'.
Proof.
  unfold qlen. destruct (decide (w = w')) as [->|N].
  - rewrite lookup_delete. lia.
  - rewrite lookup_delete_ne by done. lia.
Qed.
Lemma fw_delete ws w p : fw (delete w ws) p <= fw ws p.
Proof.
  destruct p as [| | |w' i c|w' i c|w' i|]; cbn [fw]; try lia; pose proof (qlen_delete ws w w'); lia.
Qed.

Ltac simp_mu := cbn [workers works tokens shut svc wq set_workers set_q set_tokens set_prods set_shut].

Lemma mu_step s l s' :
  svc s = Stopping -> wq s = None -> step s l = Some s' -> l <> LStopped ->
  svc s' = Stopping /\ wq s' = None /\ mu s' + (if sys_label s l then 1 else 0) <= mu s.
Proof.
  intros Ev Eq HS NL.
  destruct l as [p g c ok|p r|p|k rt r|k|k c|k c|ok| | | | | | |ok|n| |p ok|p sent]; [..|done| | | | |].
  - unfold step, step_gen in HS. destruct (prods s !! p); [done|].
    destruct (bool_eq ok (started s)); [|done].
    destruct ok; simplify_eq; (split; [exact Ev|split; [exact Eq|]]); cbn [sys_label]; unfold mu; simp_mu; lia.
  - apply step_enq_inv in HS as (g & c & _ & [(_ & _ & ->)|[(q & w & W & Eq' & _)|(q & Eq' & _)]]);
      [|congruence|congruence].
    split; [exact Ev|split; [exact Eq|]]. cbn [sys_label]. unfold mu; simp_mu; lia.
  - unfold step, step_gen in HS. destruct (prods s !! p) as [[|]|]; try done.
    destruct (tokens s <? n_waiting s)%nat; simplify_eq; (split; [exact Ev|split; [exact Eq|]]);
      cbn [sys_label]; unfold mu; simp_mu; lia.
  - cbn [sys_label].
    apply step_sect_inv in HS as [(p & Ek & Hp & _ & Hh)|[(w & i & W & c & Ek & EW & Ec & _ & _ & ->)|(w & i & W & Ek & _ & _ & _ & Hh)]].
    + apply head_eval_inv in Hh as [(_ & -> & _)|[(E & _)|(w' & q & W' & c & E & _)]]; [|congruence|congruence].
      split; [exact Ev|split; [exact Eq|]]. unfold mu; simp_mu.
      pose proof (wsum_insert (works s) _ _ _ WExited Ek) as X. destruct Hp; subst; cbn [fw] in X; lia.
    + split; [exact Ev|split; [exact Eq|]]. unfold mu; simp_mu.
      pose proof (wsum_insert (works s) _ _ _ (WPre w i c) Ek) as X. cbn [fw] in X.
      assert (L : qlen (works s) w = length (w_queue W)) by (unfold qlen; by rewrite EW).
      apply lookup_lt_Some in Ec. lia.
    + apply head_eval_inv in Hh as [(_ & -> & _)|[(E & _)|(w' & q & W' & c & E & _)]];
        [|cbn in E; congruence|cbn in E; congruence].
      split; [exact Ev|split; [exact Eq|]]. unfold mu; simp_mu.
      pose proof (wsum_insert (works s) _ _ _ WExited Ek) as X. cbn [fw] in X.
      pose proof (wsum_mono (works s) (delete w (works s)) (<[k := WExited]> (workers s))
                    (fw_delete (works s) w)). lia.
  - apply step_wake_inv in HS as [Ek ->]. split; [exact Ev|split; [exact Eq|]]. unfold mu; simp_mu.
    pose proof (wsum_insert (works s) _ _ _ WWoken Ek) as X. cbn [fw] in X.
    destruct (sys_label s (LWake k)); lia.
  - apply step_start_inv in HS as (w & i & Ek & ->). split; [exact Ev|split; [exact Eq|]]. unfold mu; simp_mu.
    pose proof (wsum_insert (works s) _ _ _ (WRun w i c) Ek) as X. cbn [fw sys_label] in *. lia.
  - apply step_end_inv in HS as (w & i & Ek & ->). split; [exact Ev|split; [exact Eq|]]. unfold mu; simp_mu.
    pose proof (wsum_insert (works s) _ _ _ (WPost w (S i)) Ek) as X. cbn [fw sys_label] in *. lia.
  - unfold step, step_gen in HS. destruct (bool_eq ok (started s)) eqn:E; [|done].
    apply bool_eq_true in E. destruct ok.
    + exfalso. symmetry in E. apply started_true in E. congruence.
    + simplify_eq. split; [exact Ev|split; [exact Eq|]]. cbn [sys_label]. lia.
  - unfold step, step_gen in HS. destruct (shut s) eqn:Es; try done. simplify_eq.
    split; [exact Ev|split; [done|]]. unfold mu; simp_mu. rewrite Es. cbn [dist sys_label]. lia.
  - unfold step, step_gen in HS. destruct (shut s) eqn:Es; try done. simplify_eq.
    split; [exact Ev|split; [exact Eq|]]. unfold mu; simp_mu. rewrite Es. cbn [dist sys_label]. lia.
  - unfold step, step_gen in HS. destruct (shut s) eqn:Es; try done. simplify_eq.
    split; [exact Ev|split; [exact Eq|]]. unfold mu; simp_mu. rewrite Es. cbn [dist sys_label]. lia.
  - unfold step, step_gen in HS. destruct (shut s) eqn:Es; try done. destruct (all_exited s); [|done].
    simplify_eq.
    split; [exact Ev|split; [exact Eq|]]. unfold mu; simp_mu. rewrite Es. cbn [dist sys_label]. lia.
  - unfold step, step_gen in HS. destruct (shut s) eqn:Es; try done. simplify_eq.
    split; [exact Ev|split; [exact Eq|]]. unfold mu; simp_mu. rewrite Es. cbn [dist sys_label]. lia.
  - unfold step, step_gen in HS. destruct (bool_eq ok (bool_decide (svc s = Stopped))) eqn:E; [|done].
    apply bool_eq_true in E. destruct ok.
    + exfalso. symmetry in E. apply bool_decide_eq_true_1 in E. congruence.
    + simplify_eq. split; [exact Ev|split; [exact Eq|]]. cbn [sys_label]. lia.
  - unfold step, step_gen in HS. rewrite Ev in HS. done.
  - unfold step, step_gen in HS. rewrite Ev in HS. done.
  - unfold step, step_gen in HS. destruct (bool_decide (p ∈ pubs s)); [done|].
    destruct (bool_eq ok (started s)); [|done].
    destruct ok; simplify_eq; (split; [exact Ev|split; [exact Eq|]]); cbn [sys_label]; unfold mu; simp_mu; lia.
  - unfold step, step_gen in HS. destruct (bool_decide (p ∈ pubs s)); [|done].
    destruct (bool_eq sent (nc s)); [|done]. simplify_eq.
    split; [exact Ev|split; [exact Eq|]]. cbn [sys_label]. unfold mu; simp_mu. lia.
Qed.

Lemma bounded_gen tr' : forall s s',
  svc s = Stopping -> wq s = None -> run s tr' = Some s' -> ~ In LStopped tr' -> count_sys s tr' <= mu s.
Proof.
  induction tr' as [|l tr IH]; intros s s' Ev Eq HR NI; cbn [count_sys]; [lia|].
  cbn in HR. change (step_gen true s l) with (step s l) in HR.
  destruct (step s l) as [s1|] eqn:E; [|done].
  assert (NL : l <> LStopped). { intros ->. apply NI. by left. }
  destruct (mu_step s l s1 Ev Eq E NL) as (Ev1 & Eq1 & Hm).
  assert (H1 : count_sys s1 tr <= mu s1). { eapply IH; eauto. intros Hin. apply NI. by right. }
  lia.
Qed.
