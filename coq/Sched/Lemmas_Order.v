(* What one instrumented step does to (accepted, started, pending) of a group g <> 0. *)
From stdpp Require Import gmap.
From Coq Require Import NArith Lia.
From GoRes Require Import Sched.Model Sched.Spec Sched.Inv Sched.Lemmas_Ghost.

Definition gchange (s s' : ist) (l : label) (g : N) : Prop :=
  (glog (genq s') g = glog (genq s) g /\ glog (gstart s') g = glog (gstart s) g /\
   pend (base s') g = pend (base s) g)
  \/ (exists c, glog (genq s') g = glog (genq s) g ++ [c] /\ glog (gstart s') g = glog (gstart s) g /\
                pend (base s') g = pend (base s) g ++ [c])
  \/ (exists c, glog (genq s') g = glog (genq s) g /\ glog (gstart s') g = glog (gstart s) g ++ [c] /\
                pend (base s) g = c :: pend (base s') g)
  \/ (glog (genq s') g = glog (genq s) g /\ glog (gstart s') g = glog (gstart s) g /\
      pend (base s') g = [] /\ exists n, l = LServeInit n).

Lemma Inv_uniq b : Inv b -> uniq (workers b).
Proof. intros HI. exact (i_oo _ _ _ _ _ HI). Qed.

Lemma rw_works_ne oq rw ws nx wk g w :
  InvC oq rw ws nx wk -> rw !! g = Some w -> w <> nx.
Proof.
  intros HI Hg. destruct (i_rw _ _ _ _ _ HI _ _ Hg) as (_ & W & HW & _).
  apply (i_lt _ _ _ _ _ HI) in HW. lia.
Qed.

Lemma rw_inj_gid oq rw ws nx wk g1 g2 w :
  InvC oq rw ws nx wk -> rw !! g1 = Some w -> rw !! g2 = Some w -> g1 = g2.
Proof.
  intros HI H1 H2.
  destruct (i_rw _ _ _ _ _ HI _ _ H1) as (_ & W1 & HW1 & <-).
  destruct (i_rw _ _ _ _ _ HI _ _ H2) as (_ & W2 & HW2 & <-). congruence.
Qed.

Lemma ieff_gchange s l s' g :
  Inv (base s) -> Inv (base s') -> ieff s l s' -> g <> 0%N -> gchange s s' l g.
Proof.
  intros HI HI' He Hg. pose proof (Inv_uniq _ HI) as Hu. pose proof (Inv_uniq _ HI') as Hu'.
  unfold gchange. rewrite !pend_eq.
  destruct He as [He Ht Hrw Hws Hwk _
                 |g0 c q Hq Hg0 He Ht Hq' Hrw Hws Hwk
                 |g0 c w W Hg0 Hr HW He Ht Hq' Hrw Hws Hwk
                 |k p p' Hk Ho Hh He Ht Hq' Hrw Hws Hwk
                 |k w i c g0 W Hk HW HgW Hi He Ht Hq' Hrw Hws Hwk
                 |k p w r W c Hq Hk Ho HW Hc He Ht Hq' Hrw Hws Hwk
                 |n Hl He Ht Hq' Hrw Hws Hwk].
  - left. rewrite He, Ht, Hrw, Hws, Hwk. done.
  - rewrite He, Ht, Hrw, Hws, Hwk. unfold Inv in HI. rewrite Hq in HI.
    destruct (decide (g = g0)) as [->|Hne].
    + right; left. exists c. rewrite glog_gpush_eq. split_and!; [done..|].
      destruct Hg0 as [?|Hg0]; [done|]. unfold pendc.
      destruct (N.eqb_spec g0 0) as [?|_]; [done|].
      rewrite Hg0, !lookup_insert. simpl.
      rewrite holderc_none; [done|]. intros j Hj.
      eapply owns_works in Hj as [W' HW']; [|exact HI].
      apply (i_lt _ _ _ _ _ HI) in HW'. lia.
    + left. rewrite glog_gpush_ne by done. split_and!; [done..|]. unfold pendc.
      assert ((if N.eqb g0 0 then rwork (base s) else <[g0:=nextw (base s)]> (rwork (base s))) !! g
              = rwork (base s) !! g) as ->.
      { destruct (N.eqb g0 0); [done|]. by rewrite lookup_insert_ne. }
      destruct (rwork (base s) !! g) as [w|] eqn:Er; [|done].
      rewrite lookup_insert_ne; [done|]. intros Heq. symmetry in Heq.
      exact (rw_works_ne _ _ _ _ _ _ _ HI Er Heq).
  - rewrite He, Ht, Hrw, Hws, Hwk. destruct (decide (g = g0)) as [->|Hne].
    + right; left. exists c. rewrite glog_gpush_eq. split_and!; [done..|]. unfold pendc.
      rewrite Hr, HW, lookup_insert. simpl. apply drop_app_le.
      destruct (holderc_spec (workers (base s)) w) as [(j & pj & Hj & Hoj & ->)|[_ ->]]; [|lia].
      eapply hidx_le; [|done|done]. eapply (i_pc _ _ _ _ _ HI); eauto.
    + left. rewrite glog_gpush_ne by done. split_and!; [done..|]. unfold pendc.
      destruct (rwork (base s) !! g) as [w'|] eqn:Er; [|done].
      rewrite lookup_insert_ne; [done|]. intros <-. apply Hne.
      exact (rw_inj_gid _ _ _ _ _ _ _ _ HI Er Hr).
  - left. rewrite He, Ht, Hrw, Hws, Hwk. split_and!; [done..|]. unfold pendc.
    destruct (rwork (base s) !! g) as [w'|]; [|done].
    destruct (works (base s) !! w') as [W'|]; [|done].
    by rewrite (holderc_insert_same _ k p p' w' Hu Hk Ho Hh).
  - rewrite He, Ht, Hrw, Hws, Hwk.
    assert (Hlt : k < length (workers (base s))) by eauto using lookup_lt_Some.
    assert (Hu2 : uniq (<[k:=WRun w i c]> (workers (base s)))).
    { eapply uniq_insert_same; eauto. }
    destruct (decide (g = g0)) as [->|Hne].
    + right; right; left. exists c. rewrite glog_gpush_eq. split_and!; [done..|]. unfold pendc.
      assert (Hr : rwork (base s) !! g0 = Some w).
      { rewrite <- HgW. eapply (i_reg _ _ _ _ _ HI); [|done|congruence].
        right. exists k, (WPre w i c). done. }
      rewrite Hr, HW.
      rewrite (holderc_at _ k (WPre w i c) w Hu Hk eq_refl).
      rewrite (holderc_at _ k (WRun w i c) w Hu2 (list_lookup_insert _ _ _ Hlt) eq_refl).
      simpl. by apply drop_S.
    + left. rewrite glog_gpush_ne by done. split_and!; [done..|]. unfold pendc.
      destruct (rwork (base s) !! g) as [w'|] eqn:Er; [|done].
      destruct (works (base s) !! w') as [W'|] eqn:EW'; [|done].
      assert (w' <> w).
      { intros ->. apply Hne. destruct (i_rw _ _ _ _ _ HI _ _ Er) as (_ & W2 & HW2 & <-). congruence. }
      rewrite (holderc_insert _ k (WPre w i c) (WRun w i c) w' Hu Hu2 Hk). simpl.
      destruct (decide (Some w = Some w')); [congruence|]. done.
  - left. rewrite He, Ht, Hrw, Hws. split_and!; [done..|]. unfold pendc.
    destruct (rwork (base s) !! g) as [w'|]; [|done].
    destruct (works (base s) !! w') as [W'|]; [|done].
    rewrite Hwk in Hu' |- *.
    rewrite (holderc_insert _ k p (WPre w 0 c) w' Hu Hu' Hk). simpl.
    destruct (decide (Some w = Some w')) as [[= <-]|_].
    + rewrite holderc_none; [done|]. intros j Hj. unfold Inv in HI. rewrite Hq in HI.
      eapply (i_oq _ _ _ _ _ HI); [exact Hj|]. simpl. by apply elem_of_cons; left.
    + destruct (decide (owned p = Some w')); [congruence|done].
  - right; right; right. rewrite He, Ht, Hrw. split_and!; [done..| |eauto].
    unfold pendc. by rewrite lookup_empty.
Qed.

Lemma retired_pend b k w i W g :
  Inv b -> workers b !! k = Some (WPost w i) -> works b !! w = Some W -> w_queue W !! i = None ->
  pend (retired b k w W) g = pend b g.
Proof.
  intros HI Hk HW Hi. pose proof (Inv_uniq _ HI) as Hu.
  pose proof (Inv_uniq _ (retired_Inv b k w i W HI Hk HW)) as Hu'.
  rewrite !pend_eq. unfold retired, pendc in *. simpl in *.
  assert (Hpw : forall w', w' <> w ->
            holderc (<[k:=WStart]> (workers b)) w' = holderc (workers b) w').
  { intros w' Hne. rewrite (holderc_insert _ k (WPost w i) WStart w' Hu Hu' Hk). simpl.
    destruct (decide (Some w = Some w')); [congruence|done]. }
  assert (Hold : forall g', rwork b !! g' = Some w ->
            match works b !! w with Some W0 => drop (holderc (workers b) w) (w_queue W0) | None => [] end = []).
  { intros g' _. rewrite HW. rewrite (holderc_at _ k (WPost w i) w Hu Hk eq_refl). simpl.
    apply drop_ge. by apply lookup_ge_None. }
  assert (Hreg : w_gid W <> 0%N -> rwork b !! w_gid W = Some w).
  { intros Hg. eapply (i_reg _ _ _ _ _ HI); [|done|done]. right. exists k, (WPost w i). done. }
  destruct (N.eqb_spec (w_gid W) 0) as [E|E].
  - destruct (rwork b !! g) as [w'|] eqn:Er; [|done].
    destruct (decide (w' = w)) as [->|Hne].
    + destruct (i_rw _ _ _ _ _ HI _ _ Er) as (Hg0 & W2 & HW2 & HgW). congruence.
    + rewrite lookup_delete_ne by done. destruct (works b !! w'); [|done]. by rewrite Hpw.
  - destruct (decide (g = w_gid W)) as [->|Hne].
    + rewrite lookup_delete. rewrite (Hreg E). symmetry. eapply Hold. eauto.
    + rewrite lookup_delete_ne by done.
      destruct (rwork b !! g) as [w'|] eqn:Er; [|done].
      assert (w' <> w).
      { intros ->. apply Hne. eapply rw_inj_gid; eauto. }
      rewrite lookup_delete_ne by done. destruct (works b !! w'); [|done]. by rewrite Hpw.
Qed.

Lemma istep_Inv s l s' : Inv (base s) -> istep s l = Some s' -> Inv (base s').
Proof. intros HI Hs. apply istep_base in Hs. eapply Inv_step; eauto. Qed.

Lemma gstep s l s' g :
  Inv (base s) -> istep s l = Some s' -> g <> 0%N -> gchange s s' l g.
Proof.
  intros HI Hs Hg. pose proof (istep_Inv _ _ _ HI Hs) as HI'.
  destruct (istep_inv _ _ _ HI Hs) as [He|(k & w & i & W & Hk & HW & Hi & He)].
  - by apply ieff_gchange.
  - pose proof (retired_Inv _ k w i W HI Hk HW) as HIm.
    pose proof (ieff_gchange (ISt (retired (base s) k w W) (genq s) (gstart s)) l s' g HIm HI' He Hg) as Hc.
    unfold gchange in *. simpl in Hc. rewrite (retired_pend _ k w i W g HI Hk HW Hi) in Hc. exact Hc.
Qed.
