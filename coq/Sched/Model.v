(* Executable labelled transition system, at lock granularity, of
     service.go  serve / Shutdown / close / runWith / With* / handleRequest enqueue /
                 Reset-TokenEvent-style publishers (state check + connection use)
     worker.go   startWorker / processQueue
   Every critical section under s.mu is ONE atomic step; every access outside the lock
   (the atomic state check in runWith and in the publishers, Signal after the unlock,
   the callback f() itself, the steps of Shutdown) is its own step, so every
   check-then-act window of the Go code exists in the model.

   [step_gen true]  = the code as it is now (after the fix: commits "runWith does not enqueue
                      work once the service has begun closing" and "events sent while Shutdown
                      clears the connection are refused").
   [step_gen false] = the code before those fixes (append to the nil queue revives it;
                      publishers dereference the cleared connection), kept for the
                      [_refuted] theorems.

   Groups are numbers: 0 is the empty worker id (Parallel resources / WithGroup("")),
   which runWith never enters into rwork.  Callback ids are numbers chosen by the
   environment.  No proofs in this file. *)
From stdpp Require Import gmap.
From Coq Require Import NArith.

Inductive sstate := Stopped | Starting | Started | Stopping.
Global Instance sstate_eq_dec : EqDecision sstate.
Proof. solve_decision. Defined.

Record work := Work { w_gid : N; w_queue : list N }.

(* worker program counter (always a position where the worker does NOT hold s.mu) *)
Inductive wpc :=
  | WStart                           (* started by `go`, has not taken the lock yet *)
  | WWaiting                         (* inside workcond.Wait *)
  | WWoken                           (* Wait is returning: needs the lock *)
  | WPre (w : N) (i : nat) (c : N)   (* unlocked, f = queue[i] = c fetched, not yet called *)
  | WRun (w : N) (i : nat) (c : N)   (* f() executing *)
  | WPost (w : N) (i : nat)          (* f() returned; needs the lock; i = next index *)
  | WExited.

Inductive ppc := PChecked (g c : N) | PSignal.       (* producer inside runWith *)
Inductive spc := SIdle | SCas | SNil | SBcast | SConnClosed | SWaited | SCleared.  (* Shutdown thread *)

Record st := St {
  svc : sstate;
  wq : option (list N);       (* s.workqueue: None = nil slice = closing *)
  rwork : gmap N N;           (* group -> work id *)
  works : gmap N work;        (* heap of work items *)
  nextw : N;                  (* allocation counter *)
  workers : list wpc;
  prods : gmap N ppc;
  pubs : gset N;              (* publishers that passed the started-check *)
  nc : bool;                  (* s.nc <> nil *)
  closes : nat;               (* Conn.Close calls in this serve cycle *)
  shut : spc;
  tokens : nat;               (* pending wake-ups of the condition variable *)
  panicked : bool
}.

Inductive enq_res := EClosing | ENew | EAppend.
Inductive sect_res := RExit | RWait | RTake (w : N) | RNext.

Inductive label :=
  | LCheck (p g c : N) (ok : bool)          (* runWith: atomic.LoadInt32(&s.state) == started *)
  | LEnq (p : N) (r : enq_res)              (* runWith: the critical section *)
  | LSignal (p : N)                         (* runWith: workcond.Signal() after the unlock *)
  | LSect (k : nat) (retired : bool) (r : sect_res)   (* one critical section of worker k *)
  | LWake (k : nat)                         (* Cond.Wait returns *)
  | LStart (k : nat) (c : N)                (* f() called *)
  | LEnd (k : nat) (c : N)                  (* f() returned *)
  | LShutCAS (ok : bool)
  | LCloseNil | LBroadcast | LConnClose | LWgDone | LClearConn | LStopped
  | LServeCAS (ok : bool) | LServeInit (n : nat) | LServeStarted
  | LPubCheck (p : N) (ok : bool)           (* Reset/TokenEvent/...: started-check *)
  | LPubUse (p : N) (sent : bool).          (* event(): use of the connection *)

Global Instance work_eq_dec : EqDecision work.
Proof. solve_decision. Defined.
Global Instance wpc_eq_dec : EqDecision wpc.
Proof. solve_decision. Defined.
Global Instance enq_res_eq_dec : EqDecision enq_res.
Proof. solve_decision. Defined.
Global Instance sect_res_eq_dec : EqDecision sect_res.
Proof. solve_decision. Defined.
Global Instance spc_eq_dec : EqDecision spc.
Proof. solve_decision. Defined.
Global Instance label_eq_dec : EqDecision label.
Proof. solve_decision. Defined.

Definition is_waiting (p : wpc) : bool := match p with WWaiting => true | _ => false end.
Definition n_waiting (s : st) : nat := length (filter (fun p => is_waiting p = true) (workers s)).
Definition is_exited (p : wpc) : bool := match p with WExited => true | _ => false end.
Definition all_exited (s : st) : bool := forallb is_exited (workers s).

Definition set_workers (s : st) (k : nat) (p : wpc) : st :=
  St (svc s) (wq s) (rwork s) (works s) (nextw s) (<[k := p]> (workers s)) (prods s) (pubs s)
     (nc s) (closes s) (shut s) (tokens s) (panicked s).
Definition set_q (s : st) (q : option (list N)) (rw : gmap N N) (ws : gmap N work) : st :=
  St (svc s) q rw ws (nextw s) (workers s) (prods s) (pubs s) (nc s) (closes s) (shut s) (tokens s) (panicked s).
Definition set_prods (s : st) (ps : gmap N ppc) : st :=
  St (svc s) (wq s) (rwork s) (works s) (nextw s) (workers s) ps (pubs s) (nc s) (closes s) (shut s) (tokens s) (panicked s).
Definition set_tokens (s : st) (t : nat) : st :=
  St (svc s) (wq s) (rwork s) (works s) (nextw s) (workers s) (prods s) (pubs s) (nc s) (closes s) (shut s) t (panicked s).
Definition set_shut (s : st) (v : sstate) (p : spc) : st :=
  St v (wq s) (rwork s) (works s) (nextw s) (workers s) (prods s) (pubs s) (nc s) (closes s) p (tokens s) (panicked s).

(* loop head of startWorker, entered holding the lock: exit / wait / take the first work.
   (A work item in the queue whose callback list is empty would be retired at once and the
   head evaluated again; runWith never creates one, and the model rejects it.) *)
Definition head_eval (s : st) (k : nat) : option (st * sect_res) :=
  match wq s with
  | None => Some (set_workers s k WExited, RExit)
  | Some [] => Some (set_workers s k WWaiting, RWait)
  | Some (w :: r) =>
    match works s !! w with
    | Some W =>
      match w_queue W !! 0%nat with
      | Some c => Some (set_workers (set_q s (Some r) (rwork s) (works s)) k (WPre w 0 c), RTake w)
      | None => None
      end
    | None => None
    end
  end.

Definition bool_eq (a b : bool) : bool := if a then b else negb b.
Definition res_eq (a b : sect_res) : bool :=
  match a, b with
  | RExit, RExit | RWait, RWait | RNext, RNext => true
  | RTake x, RTake y => N.eqb x y
  | _, _ => false
  end.
Definition enq_eq (a b : enq_res) : bool :=
  match a, b with EClosing, EClosing | ENew, ENew | EAppend, EAppend => true | _, _ => false end.

Definition started (s : st) : bool := bool_decide (svc s = Started).

Definition step_gen (fixed : bool) (s : st) (l : label) : option st :=
  match l with
  | LCheck p g c ok =>
    match prods s !! p with
    | Some _ => None
    | None =>
      if bool_eq ok (started s)
      then Some (if ok then set_prods s (<[p := PChecked g c]> (prods s)) else s)
      else None
    end
  | LEnq p r =>
    match prods s !! p with
    | Some (PChecked g c) =>
      match wq s with
      | None =>
        if fixed then
          if enq_eq r EClosing then Some (set_prods s (delete p (prods s))) else None
        else
          (* before the fix: append(nil, w) revives the queue *)
          match (if N.eqb g 0 then None else rwork s !! g) with
          | Some w =>
            match works s !! w with
            | Some W => if enq_eq r EAppend
                        then Some (set_prods (set_q s (wq s) (rwork s) (<[w := Work (w_gid W) (w_queue W ++ [c])]> (works s)))
                                             (delete p (prods s)))
                        else None
            | None => None
            end
          | None =>
            if enq_eq r ENew then
              let w := nextw s in
              let s1 := St (svc s) (Some [w]) (if N.eqb g 0 then rwork s else <[g := w]> (rwork s))
                           (<[w := Work g [c]]> (works s)) (N.succ w) (workers s)
                           (<[p := PSignal]> (prods s)) (pubs s) (nc s) (closes s) (shut s) (tokens s) (panicked s) in
              Some s1
            else None
          end
      | Some q =>
        match (if N.eqb g 0 then None else rwork s !! g) with
        | Some w =>
          match works s !! w with
          | Some W => if enq_eq r EAppend
                      then Some (set_prods (set_q s (wq s) (rwork s) (<[w := Work (w_gid W) (w_queue W ++ [c])]> (works s)))
                                           (delete p (prods s)))
                      else None
          | None => None
          end
        | None =>
          if enq_eq r ENew then
            let w := nextw s in
            Some (St (svc s) (Some (q ++ [w])) (if N.eqb g 0 then rwork s else <[g := w]> (rwork s))
                     (<[w := Work g [c]]> (works s)) (N.succ w) (workers s)
                     (<[p := PSignal]> (prods s)) (pubs s) (nc s) (closes s) (shut s) (tokens s) (panicked s))
          else None
        end
      end
    | _ => None
    end
  | LSignal p =>
    match prods s !! p with
    | Some PSignal =>
      let s1 := set_prods s (delete p (prods s)) in
      Some (if Nat.ltb (tokens s) (n_waiting s) then set_tokens s1 (S (tokens s)) else s1)
    | _ => None
    end
  | LSect k retired r =>
    match workers s !! k with
    | Some WStart | Some WWoken =>
      if retired then None else
      match head_eval s k with
      | Some (s1, r1) => if res_eq r r1 then Some s1 else None
      | None => None
      end
    | Some (WPost w i) =>
      match works s !! w with
      | Some W =>
        match w_queue W !! i with
        | Some c => if negb retired && res_eq r RNext then Some (set_workers s k (WPre w i c)) else None
        | None =>
          (* Work complete: delete(rwork, wid) when wid <> "", then back to the loop head *)
          if retired then
            let rw := if N.eqb (w_gid W) 0 then rwork s else delete (w_gid W) (rwork s) in
            match head_eval (set_q s (wq s) rw (delete w (works s))) k with
            | Some (s1, r1) => if res_eq r r1 then Some s1 else None
            | None => None
            end
          else None
        end
      | None => None
      end
    | _ => None
    end
  | LWake k =>
    match workers s !! k with
    | Some WWaiting => Some (set_tokens (set_workers s k WWoken) (Nat.pred (tokens s)))
    | _ => None
    end
  | LStart k c =>
    match workers s !! k with
    | Some (WPre w i c') => if N.eqb c c' then Some (set_workers s k (WRun w i c')) else None
    | _ => None
    end
  | LEnd k c =>
    match workers s !! k with
    | Some (WRun w i c') => if N.eqb c c' then Some (set_workers s k (WPost w (S i))) else None
    | _ => None
    end
  | LShutCAS ok =>
    if bool_eq ok (started s)
    then Some (if ok then set_shut s Stopping SCas else s)
    else None
  | LCloseNil =>
    match shut s with SCas => Some (set_shut (set_q s None (rwork s) (works s)) (svc s) SNil) | _ => None end
  | LBroadcast =>
    match shut s with SNil => Some (set_shut (set_tokens s (n_waiting s)) (svc s) SBcast) | _ => None end
  | LConnClose =>
    match shut s with
    | SBcast => Some (St (svc s) (wq s) (rwork s) (works s) (nextw s) (workers s) (prods s) (pubs s) (nc s)
                         (S (closes s)) SConnClosed (tokens s) (panicked s))
    | _ => None end
  | LWgDone =>
    match shut s with SConnClosed => if all_exited s then Some (set_shut s (svc s) SWaited) else None | _ => None end
  | LClearConn =>
    match shut s with
    | SWaited => Some (St (svc s) (wq s) (rwork s) (works s) (nextw s) (workers s) (prods s) (pubs s) false
                          (closes s) SCleared (tokens s) (panicked s))
    | _ => None end
  | LStopped =>
    match shut s with SCleared => Some (set_shut s Stopped SIdle) | _ => None end
  | LServeCAS ok =>
    if bool_eq ok (bool_decide (svc s = Stopped))
    then Some (if ok then set_shut s Starting (shut s) else s)
    else None
  | LServeInit n =>
    (* serve() initialises once per successful CAS: the queue is still nil from the previous close()
       (or from the zero value) *)
    match svc s, wq s, n with
    | Starting, None, S _ =>
      Some (St Starting (Some []) ∅ ∅ (nextw s) (replicate n WStart) (prods s) (pubs s) true 0 (shut s) 0 (panicked s))
    | _, _, _ => None
    end
  | LServeStarted =>
    match svc s, wq s with
    | Starting, Some _ => Some (set_shut s Started (shut s))
    | _, _ => None
    end
  | LPubCheck p ok =>
    if bool_decide (p ∈ pubs s) then None else
    if bool_eq ok (started s)
    then Some (if ok then St (svc s) (wq s) (rwork s) (works s) (nextw s) (workers s) (prods s) ({[p]} ∪ pubs s)
                             (nc s) (closes s) (shut s) (tokens s) (panicked s) else s)
    else None
  | LPubUse p sent =>
    if bool_decide (p ∈ pubs s) then
      let s1 := St (svc s) (wq s) (rwork s) (works s) (nextw s) (workers s) (prods s) (pubs s ∖ {[p]})
                   (nc s) (closes s) (shut s) (tokens s) (panicked s || (negb fixed && negb (nc s))) in
      if bool_eq sent (nc s) then Some s1 else None
    else None
  end.

Definition step := step_gen true.
Definition step_v0 := step_gen false.

Fixpoint run_gen (fixed : bool) (s : st) (tr : list label) : option st :=
  match tr with
  | [] => Some s
  | l :: tr' => match step_gen fixed s l with Some s' => run_gen fixed s' tr' | None => None end
  end.
Definition run := run_gen true.

Definition init : st := St Stopped None ∅ ∅ 0%N [] ∅ ∅ false 0 SIdle 0 false.

(* index of the first label the model refuses; None = the whole trace is accepted *)
Fixpoint first_reject (s : st) (tr : list label) (i : nat) : option nat :=
  match tr with
  | [] => None
  | l :: tr' => match step s l with Some s' => first_reject s' tr' (S i) | None => Some i end
  end.

(* ---------- what a state says about groups ---------- *)
(* work owned by worker pc (a callback of it is about to run, running, or just returned) *)
Definition owned (p : wpc) : option N :=
  match p with WPre w _ _ | WRun w _ _ | WPost w _ => Some w | _ => None end.
Definition running_cb (p : wpc) : option (N * N) :=    (* (work, callback) while f() executes *)
  match p with WRun w _ c => Some (w, c) | _ => None end.
Definition gid_of (s : st) (w : N) : option N := w_gid <$> works s !! w.

(* groups (<> 0) of the callbacks executing right now, one entry per executing worker *)
Definition running_groups (s : st) : list N :=
  omap (fun p => match running_cb p with
                 | Some (w, _) => match gid_of s w with Some g => if N.eqb g 0 then None else Some g | None => None end
                 | None => None end) (workers s).
