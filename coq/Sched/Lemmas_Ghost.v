(* Ghost-history lemmas for C02: inversion of the instrumented step into a few kinds of
   effect, and what each kind does to [pend] (groups <> 0). *)
From stdpp Require Import gmap.
From Coq Require Import NArith Lia.
From GoRes Require Import Sched.Model Sched.Spec Sched.Inv.

(* ---------- runs ---------- *)
Lemma irun_app s tr1 tr2 :
  irun s (tr1 ++ tr2) = match irun s tr1 with Some s1 => irun s1 tr2 | None => None end.
Proof.
  revert s. induction tr1 as [|l tr1 IH]; intros s; [done|].
  unfold irun in *. simpl. destruct (istep_gen true s l); [apply IH|done].
Qed.

Lemma irun_snoc s tr l s' :
  irun s (tr ++ [l]) = Some s' <-> exists s1, irun s tr = Some s1 /\ istep s1 l = Some s'.
Proof.
  rewrite irun_app. destruct (irun s tr) as [s1|].
  - unfold irun, istep. simpl. split.
    + intros H. exists s1. split; [done|]. destruct (istep_gen true s1 l); done.
    + intros (s2 & Heq & H). inversion Heq; subst. rewrite H. done.
  - split; [done|]. intros (s1 & ? & _). done.
Qed.

Lemma irun_ind (P : list label -> ist -> Prop) :
  P [] iinit ->
  (forall tr s l s', irun iinit tr = Some s -> P tr s -> istep s l = Some s' -> P (tr ++ [l]) s') ->
  forall tr s, irun iinit tr = Some s -> P tr s.
Proof.
  intros H0 Hs tr. induction tr as [|l tr IH] using rev_ind; intros s Hr.
  - inversion Hr; subst. done.
  - apply irun_snoc in Hr as (s1 & Hr1 & Hst). eauto.
Qed.

Lemma istep_base s l s' : istep s l = Some s' -> step (base s) l = Some (base s').
Proof.
  unfold istep, istep_gen, step. destruct (step_gen true (base s) l); [|done].
  intros [= <-]. done.
Qed.

Lemma irun_base s tr s' : irun s tr = Some s' -> run (base s) tr = Some (base s').
Proof.
  revert s. induction tr as [|l tr IH]; intros s Hr.
  - inversion Hr; subst. done.
  - unfold irun in Hr. simpl in Hr. destruct (istep_gen true s l) as [s1|] eqn:E; [|done].
    apply istep_base in E. unfold run, step in *. simpl. rewrite E. apply IH. done.
Qed.

Lemma irun_Inv tr s : irun iinit tr = Some s -> Inv (base s).
Proof. intros Hr. apply irun_base in Hr. eapply Inv_run. exact Hr. Qed.

Lemma checked_cbs_app tr1 tr2 : checked_cbs (tr1 ++ tr2) = checked_cbs tr1 ++ checked_cbs tr2.
Proof.
  induction tr1 as [|l tr1 IH]; [done|]. simpl.
  destruct l as [p g c [|]| | | | | | | | | | | | | | | | | |]; simpl; rewrite ?IH; done.
Qed.

Lemma has_close_app tr1 tr2 : has_close (tr1 ++ tr2) = has_close tr1 || has_close tr2.
Proof.
  induction tr1 as [|l tr1 IH]; [done|]. simpl. destruct l; simpl; rewrite ?IH; done.
Qed.

Lemma has_close_snoc tr l : has_close (tr ++ [l]) = false -> has_close tr = false /\ l <> LCloseNil.
Proof.
  rewrite has_close_app. intros H. apply orb_false_iff in H as [H1 H2]. split; [done|].
  intros ->. done.
Qed.

(* ---------- glog / gpush ---------- *)
Lemma glog_gpush_eq m g c : glog (gpush m g c) g = glog m g ++ [c].
Proof. unfold glog at 1, gpush. by rewrite lookup_insert. Qed.
Lemma glog_gpush_ne m g g' c : g <> g' -> glog (gpush m g c) g' = glog m g'.
Proof. intros. unfold glog at 1, gpush. rewrite lookup_insert_ne by done. done. Qed.

(* ---------- the holder index ---------- *)
Definition hidx (p : wpc) : nat :=
  match p with WPre _ i _ => i | WRun _ i _ => S i | WPost _ i => i | _ => 0 end.
Definition holderc (wk : list wpc) (w : N) : nat :=
  match list_find (fun p => owned p = Some w) wk with Some (_, p) => hidx p | None => 0 end.
Definition uniq (wk : list wpc) : Prop :=
  forall k1 k2 w, owns wk k1 w -> owns wk k2 w -> k1 = k2.

Lemma holder_from_eq s w : holder_from s w = holderc (workers s) w.
Proof. unfold holder_from, holderc. destruct (list_find _ _) as [[? []]|]; done. Qed.

Lemma owned_None_hidx p : owned p = None -> hidx p = 0.
Proof. destruct p; done. Qed.

Lemma holderc_at wk k p w :
  uniq wk -> wk !! k = Some p -> owned p = Some w -> holderc wk w = hidx p.
Proof.
  intros Hu Hk Ho. unfold holderc.
  assert (list_find (fun p => owned p = Some w) wk = Some (k, p)) as ->; [|done].
  apply list_find_Some. split_and!; [done..|]. intros j y Hj Hlt Hy.
  assert (j = k) by (eapply Hu; [exists y|exists p]; done). lia.
Qed.

Lemma holderc_none wk w : (forall k, ~ owns wk k w) -> holderc wk w = 0.
Proof.
  intros Hn. unfold holderc. destruct (list_find _ wk) as [[j y]|] eqn:E; [|done].
  apply list_find_Some in E as (Hj & Hy & _). exfalso. apply (Hn j). exists y; done.
Qed.

Lemma holderc_spec wk w :
  (exists k p, wk !! k = Some p /\ owned p = Some w /\ holderc wk w = hidx p) \/
  ((forall k, ~ owns wk k w) /\ holderc wk w = 0).
Proof.
  unfold holderc. destruct (list_find _ wk) as [[j y]|] eqn:E.
  - apply list_find_Some in E as (Hj & Hy & _). left. eauto.
  - right. split; [|done]. intros k (p & Hk & Ho).
    apply list_find_None in E. eapply Forall_lookup_1 in E; [|exact Hk]. done.
Qed.

Lemma holderc_insert wk k p p' w :
  uniq wk -> uniq (<[k:=p']> wk) -> wk !! k = Some p ->
  holderc (<[k:=p']> wk) w =
    if decide (owned p' = Some w) then hidx p'
    else if decide (owned p = Some w) then 0 else holderc wk w.
Proof.
  intros Hu Hu' Hk. assert (Hlt : k < length wk) by eauto using lookup_lt_Some.
  destruct (decide (owned p' = Some w)) as [Ho'|Ho'].
  { eapply holderc_at; [done| |done]. by apply list_lookup_insert. }
  destruct (decide (owned p = Some w)) as [Ho|Ho].
  { apply holderc_none. intros j Hj. apply owns_insert in Hj as [[_ ?]|[Hne Hj]]; [done| |done].
    apply Hne. eapply Hu; [exact Hj|]. exists p; done. }
  destruct (holderc_spec wk w) as [(j & pj & Hj & Hoj & ->)|[Hn ->]].
  - assert (j <> k) by (intros ->; congruence).
    eapply holderc_at; [done| |done]. rewrite list_lookup_insert_ne by done. done.
  - apply holderc_none. intros j Hj. apply owns_insert in Hj as [[_ ?]|[Hne Hj]]; [done| |done].
    by eapply Hn.
Qed.

Lemma uniq_insert_same wk k p p' :
  uniq wk -> wk !! k = Some p -> owned p' = owned p -> uniq (<[k:=p']> wk).
Proof.
  intros Hu Hk Ho k1 k2 w H1 H2.
  apply (owns_insert_same wk k p p' _ _ Hk Ho) in H1.
  apply (owns_insert_same wk k p p' _ _ Hk Ho) in H2. eauto.
Qed.

Lemma holderc_insert_same wk k p p' w :
  uniq wk -> wk !! k = Some p -> owned p' = owned p -> hidx p' = hidx p ->
  holderc (<[k:=p']> wk) w = holderc wk w.
Proof.
  intros Hu Hk Ho Hh.
  rewrite (holderc_insert wk k p p' w Hu (uniq_insert_same _ _ _ _ Hu Hk Ho) Hk).
  destruct (decide (owned p' = Some w)) as [E|E].
  - symmetry. rewrite Hh. eapply holderc_at; [done..|]. congruence.
  - destruct (decide (owned p = Some w)); [congruence|done].
Qed.

Lemma hidx_le ws p w W :
  pc_ok ws p -> owned p = Some w -> ws !! w = Some W -> hidx p <= length (w_queue W).
Proof.
  destruct p; simpl; try done; intros (W0 & HW0 & Hi) [= ->] HW;
    assert (W0 = W) by congruence; subst.
  - apply lookup_lt_Some in Hi. lia.
  - apply lookup_lt_Some in Hi. lia.
  - done.
Qed.

(* ---------- pend on components ---------- *)
Definition pendc (rw : gmap N N) (ws : gmap N work) (wk : list wpc) (g : N) : list N :=
  match rw !! g with
  | Some w => match ws !! w with Some W => drop (holderc wk w) (w_queue W) | None => [] end
  | None => []
  end.
Lemma pend_eq s g : pend s g = pendc (rwork s) (works s) (workers s) g.
Proof. unfold pend, pendc, rest_of. destruct (rwork s !! g); [|done]. by rewrite holder_from_eq. Qed.

(* ---------- kinds of effect of an instrumented step ---------- *)
Inductive ieff (s : ist) (l : label) (s' : ist) : Prop :=
  | IE_frame :
      genq s' = genq s -> gstart s' = gstart s ->
      rwork (base s') = rwork (base s) -> works (base s') = works (base s) ->
      workers (base s') = workers (base s) ->
      (wq (base s') = wq (base s) \/ (l = LCloseNil /\ wq (base s') = None)) -> ieff s l s'
  | IE_new g c q :
      wq (base s) = Some q -> (g = 0%N \/ rwork (base s) !! g = None) ->
      genq s' = gpush (genq s) g c -> gstart s' = gstart s ->
      wq (base s') = Some (q ++ [nextw (base s)]) ->
      rwork (base s') = (if N.eqb g 0 then rwork (base s) else <[g := nextw (base s)]> (rwork (base s))) ->
      works (base s') = <[nextw (base s) := Work g [c]]> (works (base s)) ->
      workers (base s') = workers (base s) -> ieff s l s'
  | IE_append g c w W :
      g <> 0%N -> rwork (base s) !! g = Some w -> works (base s) !! w = Some W ->
      genq s' = gpush (genq s) g c -> gstart s' = gstart s ->
      wq (base s') = wq (base s) -> rwork (base s') = rwork (base s) ->
      works (base s') = <[w := Work (w_gid W) (w_queue W ++ [c])]> (works (base s)) ->
      workers (base s') = workers (base s) -> ieff s l s'
  | IE_setw k p p' :
      workers (base s) !! k = Some p -> owned p' = owned p -> hidx p' = hidx p ->
      genq s' = genq s -> gstart s' = gstart s ->
      wq (base s') = wq (base s) -> rwork (base s') = rwork (base s) ->
      works (base s') = works (base s) ->
      workers (base s') = <[k := p']> (workers (base s)) -> ieff s l s'
  | IE_start k w i c g W :
      workers (base s) !! k = Some (WPre w i c) -> works (base s) !! w = Some W -> w_gid W = g ->
      w_queue W !! i = Some c ->
      genq s' = genq s -> gstart s' = gpush (gstart s) g c ->
      wq (base s') = wq (base s) -> rwork (base s') = rwork (base s) ->
      works (base s') = works (base s) ->
      workers (base s') = <[k := WRun w i c]> (workers (base s)) -> ieff s l s'
  | IE_take k p w r W c :
      wq (base s) = Some (w :: r) -> workers (base s) !! k = Some p -> owned p = None ->
      works (base s) !! w = Some W -> w_queue W !! 0%nat = Some c ->
      genq s' = genq s -> gstart s' = gstart s ->
      wq (base s') = Some r -> rwork (base s') = rwork (base s) ->
      works (base s') = works (base s) ->
      workers (base s') = <[k := WPre w 0 c]> (workers (base s)) -> ieff s l s'
  | IE_init n :
      l = LServeInit n ->
      genq s' = genq s -> gstart s' = gstart s ->
      wq (base s') = Some [] -> rwork (base s') = ∅ -> works (base s') = ∅ ->
      workers (base s') = replicate n WStart -> ieff s l s'.

(* state after the retire half of a critical section (worker k parked on WStart) *)
Definition retired (b : st) (k : nat) (w : N) (W : work) : st :=
  set_workers (set_q b (wq b) (if N.eqb (w_gid W) 0 then rwork b else delete (w_gid W) (rwork b))
                     (delete w (works b))) k WStart.

Lemma head_eval_ieff b k p b1 r e t l :
  workers b !! k = Some p -> owned p = None -> head_eval b k = Some (b1, r) ->
  ieff (ISt b e t) l (ISt b1 e t).
Proof.
  intros Hk Ho He. unfold head_eval in He.
  destruct (wq b) as [[|w q]|] eqn:Eq.
  - inversion He; subst. eapply (IE_setw _ _ _ k p WWaiting); simpl; try done.
    by rewrite owned_None_hidx.
  - destruct (works b !! w) as [W|] eqn:EW; [|done].
    destruct (w_queue W !! 0%nat) as [c|] eqn:Ec; [|done].
    inversion He; subst. eapply (IE_take _ _ _ k p w q W c); simpl; done.
  - inversion He; subst. eapply (IE_setw _ _ _ k p WExited); simpl; try done.
    by rewrite owned_None_hidx.
Qed.

Lemma istep_inv s l s' :
  Inv (base s) -> istep s l = Some s' ->
  ieff s l s' \/
  exists k w i W, workers (base s) !! k = Some (WPost w i) /\ works (base s) !! w = Some W /\
                  w_queue W !! i = None /\
                  ieff (ISt (retired (base s) k w W) (genq s) (gstart s)) l s'.
Proof.
  intros HI Hs. destruct s as [b e t]. unfold istep, istep_gen in Hs. simpl in *.
  destruct (step_gen true b l) as [b'|] eqn:Hb; [|done]. inversion Hs; subst s'. clear Hs.
  unfold step_gen in Hb.
  destruct l as [p g c ok|p r|p|k retd r|k|k c|k c|ok| | | | | | |ok|n| |p ok|p sent].
  - (* LCheck *) left.
    destruct (prods b !! p); [done|]. destruct (bool_eq ok (started b)); [|done].
    inversion Hb; subst. apply IE_frame; simpl; destruct ok; auto.
  - (* LEnq *)
    destruct (prods b !! p) as [[g c|]|] eqn:Ep; try done.
    destruct (wq b) as [q|] eqn:Eq.
    + destruct (N.eqb_spec g 0) as [Eg|Eg].
      * destruct r; try done. inversion Hb; subst. left.
        eapply (IE_new _ _ _ 0%N c q); simpl; auto.
      * destruct (rwork b !! g) as [w|] eqn:Er.
        -- destruct (works b !! w) as [W|] eqn:EW; [|done].
           destruct r; try done. inversion Hb; subst. left.
           eapply (IE_append _ _ _ g c w W); simpl; auto.
        -- destruct r; try done. inversion Hb; subst. left.
           eapply (IE_new _ _ _ g c q); simpl; auto.
           destruct (N.eqb_spec g 0); done.
    + destruct r; try done. inversion Hb; subst. left. apply IE_frame; simpl; auto.
  - (* LSignal *) left.
    destruct (prods b !! p) as [[|]|]; try done. inversion Hb; subst.
    apply IE_frame; simpl; destruct (tokens b <? n_waiting b)%nat; auto.
  - (* LSect *)
    destruct (workers b !! k) as [pc|] eqn:Ek; [|done].
    destruct pc as [| | |w i c|w i c|w i|]; try done.
    + destruct retd; [done|]. destruct (head_eval b k) as [[s1 r1]|] eqn:Eh; [|done].
      destruct (res_eq r r1); [|done]. inversion Hb; subst. left.
      eapply head_eval_ieff; eauto; done.
    + destruct retd; [done|]. destruct (head_eval b k) as [[s1 r1]|] eqn:Eh; [|done].
      destruct (res_eq r r1); [|done]. inversion Hb; subst. left.
      eapply head_eval_ieff; eauto; done.
    + destruct (works b !! w) as [W|] eqn:EW; [|done].
      destruct (w_queue W !! i) as [c|] eqn:Ec.
      * destruct (negb retd && res_eq r RNext); [|done]. inversion Hb; subst. left.
        eapply (IE_setw _ _ _ k (WPost w i) (WPre w i c)); simpl; done.
      * destruct retd; [|done]. right. exists k, w, i, W. split_and!; [done..|].
        assert (Hlt : k < length (workers b)) by eauto using lookup_lt_Some.
        rewrite head_eval_reset in Hb by done.
        match type of Hb with context [head_eval ?s0 k] =>
          destruct (head_eval s0 k) as [[s1 r1]|] eqn:Eh; [|done] end.
        destruct (res_eq r r1); [|done]. inversion Hb; subst.
        eapply (head_eval_ieff _ k WStart); [|done|exact Eh].
        simpl. by apply list_lookup_insert.
  - (* LWake *) left.
    destruct (workers b !! k) as [[]|] eqn:Ek; try done. inversion Hb; subst.
    eapply (IE_setw _ _ _ k WWaiting WWoken); simpl; done.
  - (* LStart *) left.
    destruct (workers b !! k) as [[| | |w i c'| | |]|] eqn:Ek; try done.
    destruct (N.eqb_spec c c') as [->|]; [|done]. inversion Hb; subst.
    destruct (i_pc _ _ _ _ _ HI _ _ Ek) as (W & HW & Hi).
    eapply (IE_start _ _ _ k w i c' (w_gid W) W); simpl; try done.
    unfold gid_of. rewrite HW. done.
  - (* LEnd *) left.
    destruct (workers b !! k) as [[| | | |w i c'| |]|] eqn:Ek; try done.
    destruct (N.eqb c c'); [|done]. inversion Hb; subst.
    eapply (IE_setw _ _ _ k (WRun w i c') (WPost w (S i))); simpl; done.
  - left. destruct (bool_eq ok (started b)); [|done]. inversion Hb; subst.
    apply IE_frame; simpl; destruct ok; auto.
  - left. destruct (shut b); try done. inversion Hb; subst. apply IE_frame; simpl; auto.
  - left. destruct (shut b); try done. inversion Hb; subst. apply IE_frame; simpl; auto.
  - left. destruct (shut b); try done. inversion Hb; subst. apply IE_frame; simpl; auto.
  - left. destruct (shut b); try done. destruct (all_exited b); [|done]. inversion Hb; subst.
    apply IE_frame; simpl; auto.
  - left. destruct (shut b); try done. inversion Hb; subst. apply IE_frame; simpl; auto.
  - left. destruct (shut b); try done. inversion Hb; subst. apply IE_frame; simpl; auto.
  - left. destruct (bool_eq ok (bool_decide (svc b = Stopped))); [|done]. inversion Hb; subst.
    apply IE_frame; simpl; destruct ok; auto.
  - left. destruct (svc b); try done. destruct (wq b); [done|]. destruct n; [done|]. inversion Hb; subst.
    eapply (IE_init _ _ _ (S n)); simpl; done.
  - left. destruct (svc b); try done. destruct (wq b); [|done]. inversion Hb; subst.
    apply IE_frame; simpl; auto.
  - left. destruct (bool_decide (p ∈ pubs b)); [done|]. destruct (bool_eq ok (started b)); [|done].
    inversion Hb; subst. apply IE_frame; simpl; destruct ok; auto.
  - left. destruct (bool_decide (p ∈ pubs b)); [|done]. destruct (bool_eq sent (nc b)); [|done].
    inversion Hb; subst. apply IE_frame; simpl; auto.
Qed.

Lemma retired_Inv b k w i W :
  Inv b -> workers b !! k = Some (WPost w i) -> works b !! w = Some W -> Inv (retired b k w W).
Proof. intros HI Hk HW. unfold Inv, retired. simpl. eapply InvC_retire; eauto. Qed.
