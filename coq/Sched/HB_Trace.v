(* C16 helper: states along a trace of the scheduler LTS, which labels move a worker's
   program counter, stability of a work item's group, and the two trace lemmas
   "last critical section before a WPre" / "first critical section after a WPost". *)
From stdpp Require Import gmap.
From Coq Require Import NArith Lia.
From GoRes Require Import Sched.Model Sched.Spec Sched.Inv Sched.Lemmas_Ghost Sched.Shut_Base
  Sched.AccessLTS.

(* ---------- the state after the first n labels ---------- *)
Definition st_at (tr : list label) (n : nat) : option st := run init (take n tr).

Lemma run_app s tr1 tr2 :
  run s (tr1 ++ tr2) = match run s tr1 with Some s1 => run s1 tr2 | None => None end.
Proof.
  revert s. induction tr1 as [|l tr1 IH]; intros s; [done|].
  unfold run in *. simpl. destruct (step_gen true s l); [apply IH|done].
Qed.

Lemma st_at_0 tr : st_at tr 0 = Some init.
Proof. unfold st_at. by rewrite take_0. Qed.

Lemma st_at_S tr n s l : st_at tr n = Some s -> tr !! n = Some l -> st_at tr (S n) = step s l.
Proof.
  unfold st_at. intros Hs Hl. rewrite (take_S_r _ _ _ Hl), run_app, Hs.
  unfold run, step. simpl. destruct (step_gen true s l); done.
Qed.

Lemma st_at_ge tr n : length tr <= n -> st_at tr n = run init tr.
Proof. intros. unfold st_at. by rewrite take_ge. Qed.

Lemma st_at_S_None tr n : tr !! n = None -> st_at tr (S n) = st_at tr n.
Proof. intros H. apply lookup_ge_None in H. rewrite !st_at_ge by lia. done. Qed.

Lemma st_at_total tr s n : run init tr = Some s -> exists sn, st_at tr n = Some sn.
Proof.
  intros Hr. rewrite <- (take_drop n tr), run_app in Hr. unfold st_at.
  destruct (run init (take n tr)); [eauto|done].
Qed.

Lemma st_at_Inv tr n s : st_at tr n = Some s -> Inv s.
Proof. apply Inv_run. Qed.

Lemma st_at_step tr s n sn l :
  run init tr = Some s -> st_at tr n = Some sn -> tr !! n = Some l ->
  exists sn', st_at tr (S n) = Some sn' /\ step sn l = Some sn'.
Proof.
  intros Hr Hn Hl. destruct (st_at_total tr s (S n) Hr) as [sn' H']. exists sn'. split; [done|].
  rewrite (st_at_S _ _ _ _ Hn Hl) in H'. done.
Qed.

(* ---------- what a step does to the list of worker pcs ---------- *)
Definition wk_eff (l : label) (wk wk' : list wpc) : Prop :=
  match l with
  | LSect k _ _ | LWake k | LStart k _ | LEnd k _ => exists p, wk' = <[k := p]> wk
  | LServeInit n => wk' = replicate n WStart
  | _ => wk' = wk
  end.

Lemma head_eval_workers s k s1 r :
  head_eval s k = Some (s1, r) -> exists p, workers s1 = <[k:=p]> (workers s).
Proof.
  intros H. apply head_eval_inv in H as [(_ & -> & _)|[(_ & -> & _)|(w & q & W & c & _ & _ & _ & -> & _)]];
    eexists; reflexivity.
Qed.

Lemma step_workers s l s' : step s l = Some s' -> wk_eff l (workers s) (workers s').
Proof.
  intros Hs. destruct l as [p g c ok|p r|p|k rt r|k|k c|k c|ok| | | | | | |ok|n| |p ok|p sent]; simpl.
  - unfold step, step_gen in Hs. destruct (prods s !! p); [done|].
    destruct (bool_eq ok (started s)); [|done]. destruct ok; simplify_eq; done.
  - apply step_enq_inv in Hs as (g & c & _ & [(_ & _ & ->)|[(q & w & W & _ & _ & _ & _ & ->)|(q & _ & _ & _ & ->)]]);
      done.
  - unfold step, step_gen in Hs. destruct (prods s !! p) as [[|]|]; try done.
    destruct (tokens s <? n_waiting s)%nat; simplify_eq; done.
  - apply step_sect_inv in Hs as [(p & _ & _ & _ & Hh)|[(w & i & W & c & _ & _ & _ & _ & _ & ->)|(w & i & W & _ & _ & _ & _ & Hh)]].
    + eapply head_eval_workers; eauto.
    + eexists; reflexivity.
    + apply head_eval_workers in Hh. exact Hh.
  - apply step_wake_inv in Hs as [_ ->]. eexists; reflexivity.
  - apply step_start_inv in Hs as (w & i & _ & ->). eexists; reflexivity.
  - apply step_end_inv in Hs as (w & i & _ & ->). eexists; reflexivity.
  - unfold step, step_gen in Hs. destruct (bool_eq ok (started s)); [|done]. destruct ok; simplify_eq; done.
  - unfold step, step_gen in Hs. destruct (shut s); try done. simplify_eq. done.
  - unfold step, step_gen in Hs. destruct (shut s); try done. simplify_eq. done.
  - unfold step, step_gen in Hs. destruct (shut s); try done. simplify_eq. done.
  - unfold step, step_gen in Hs. destruct (shut s); try done. destruct (all_exited s); [|done].
    simplify_eq. done.
  - unfold step, step_gen in Hs. destruct (shut s); try done. simplify_eq. done.
  - unfold step, step_gen in Hs. destruct (shut s); try done. simplify_eq. done.
  - unfold step, step_gen in Hs. destruct (bool_eq ok (bool_decide (svc s = Stopped))); [|done].
    destruct ok; simplify_eq; done.
  - unfold step, step_gen in Hs. destruct (svc s), (wq s), n; try done; simplify_eq; done.
  - unfold step, step_gen in Hs. destruct (svc s); try done. destruct (wq s); [|done]. simplify_eq. done.
  - unfold step, step_gen in Hs. destruct (bool_decide (p ∈ pubs s)); [done|].
    destruct (bool_eq ok (started s)); [|done]. destruct ok; simplify_eq; done.
  - unfold step, step_gen in Hs. destruct (bool_decide (p ∈ pubs s)); [|done].
    destruct (bool_eq sent (nc s)); [|done]. simplify_eq. done.
Qed.

Lemma step_other_worker s l s' k :
  step s l = Some s' -> lthread l <> TWorker k -> is_init l = false ->
  workers s' !! k = workers s !! k.
Proof.
  intros Hs Ht Hi. apply step_workers in Hs.
  destruct l; simpl in *; try discriminate; try (rewrite Hs; reflexivity);
    destruct Hs as [p ->]; apply list_lookup_insert_ne; congruence.
Qed.

Lemma step_init_workers s n s' k p :
  step s (LServeInit n) = Some s' -> workers s' !! k = Some p -> p = WStart.
Proof.
  intros Hs Hk. apply step_workers in Hs. simpl in Hs. rewrite Hs in Hk.
  apply lookup_replicate in Hk as [? _]. done.
Qed.

Lemma step_to_WPre s l s' k w n c :
  step s l = Some s' -> workers s' !! k = Some (WPre w n c) ->
  workers s !! k = Some (WPre w n c) \/ exists rt r, l = LSect k rt r.
Proof.
  intros Hs Hk. destruct (decide (lthread l = TWorker k)) as [Ht|Ht].
  - destruct l; simpl in Ht; try discriminate; inversion Ht; subst.
    + right; eauto.
    + apply step_wake_inv in Hs as [Hk0 ->]. simpl in Hk.
      rewrite list_lookup_insert in Hk by eauto using lookup_lt_Some. done.
    + apply step_start_inv in Hs as (w' & i' & Hk0 & ->). simpl in Hk.
      rewrite list_lookup_insert in Hk by eauto using lookup_lt_Some. done.
    + apply step_end_inv in Hs as (w' & i' & Hk0 & ->). simpl in Hk.
      rewrite list_lookup_insert in Hk by eauto using lookup_lt_Some. done.
  - destruct (is_init l) eqn:Hi.
    + destruct l; try done. apply (step_init_workers _ _ _ _ _ Hs) in Hk. done.
    + left. rewrite <- (step_other_worker _ _ _ k Hs Ht Hi). done.
Qed.

Lemma step_from_WPost s l s' k w n :
  step s l = Some s' -> workers s !! k = Some (WPost w n) ->
  workers s' !! k = Some (WPost w n) \/ (exists rt r, l = LSect k rt r) \/ is_init l = true.
Proof.
  intros Hs Hk. destruct (decide (lthread l = TWorker k)) as [Ht|Ht].
  - destruct l; simpl in Ht; try discriminate; inversion Ht; subst.
    + right; left; eauto.
    + apply step_wake_inv in Hs as [Hk0 _]. congruence.
    + apply step_start_inv in Hs as (w' & i' & Hk0 & _). congruence.
    + apply step_end_inv in Hs as (w' & i' & Hk0 & _). congruence.
  - destruct (is_init l) eqn:Hi; [right; right; done|]. left.
    rewrite (step_other_worker _ _ _ k Hs Ht Hi). done.
Qed.

(* ---------- the group of a work item never changes while the item exists ---------- *)
Lemma step_istep s l s' e t :
  step s l = Some s' -> exists e' t', istep (ISt s e t) l = Some (ISt s' e' t').
Proof. intros Hs. unfold istep, istep_gen. simpl. unfold step in Hs. rewrite Hs. eauto. Qed.

Lemma ieff_works s l s' w W' :
  ieff s l s' -> works (base s') !! w = Some W' ->
  (exists W, works (base s) !! w = Some W /\ w_gid W' = w_gid W) \/ w = nextw (base s).
Proof.
  intros He HW'.
  destruct He as [He Ht Hrw Hws Hwk _
                 |g0 c q Hq Hg0 He Ht Hq' Hrw Hws Hwk
                 |g0 c w0 W0 Hg0 Hr HW0 He Ht Hq' Hrw Hws Hwk
                 |k p p' Hk Ho Hh He Ht Hq' Hrw Hws Hwk
                 |k w0 i c g0 W0 Hk HW0 HgW Hi He Ht Hq' Hrw Hws Hwk
                 |k p w0 r W0 c Hq Hk Ho HW0 Hc He Ht Hq' Hrw Hws Hwk
                 |n Hl He Ht Hq' Hrw Hws Hwk]; rewrite Hws in HW'.
  - left; eauto.
  - apply lookup_insert_Some in HW' as [[<- <-]|[_ HW']]; [right; done|left; eauto].
  - apply lookup_insert_Some in HW' as [[<- <-]|[_ HW']]; [left; eauto|left; eauto].
  - left; eauto.
  - left; eauto.
  - left; eauto.
  - by rewrite lookup_empty in HW'.
Qed.

Lemma step_gid s l s' w W W' :
  Inv s -> step s l = Some s' -> works s !! w = Some W -> works s' !! w = Some W' ->
  w_gid W' = w_gid W.
Proof.
  intros HI Hs HW HW'. destruct (step_istep s l s' ∅ ∅ Hs) as (e' & t' & Hi).
  pose proof (i_lt _ _ _ _ _ HI _ _ HW) as Hlt.
  destruct (istep_inv (ISt s ∅ ∅) _ _ HI Hi) as [He|(k & w0 & i & W0 & Hk & HW0 & Hq & He)].
  - destruct (ieff_works _ _ _ _ _ He HW') as [(W2 & H2 & Hg)| ->]; simpl in *; [congruence|lia].
  - destruct (ieff_works _ _ _ _ _ He HW') as [(W2 & H2 & Hg)| ->]; simpl in *; [|lia].
    apply lookup_delete_Some in H2 as [_ H2]. congruence.
Qed.

Lemma step_gid_of s l s' w :
  Inv s -> step s l = Some s' -> is_Some (works s !! w) -> is_Some (works s' !! w) ->
  gid_of s' w = gid_of s w.
Proof.
  intros HI Hs [W HW] [W' HW']. unfold gid_of. rewrite HW, HW'. simpl. f_equal.
  eapply step_gid; eauto.
Qed.

Lemma owned_works s k p w : Inv s -> workers s !! k = Some p -> owned p = Some w -> is_Some (works s !! w).
Proof. intros HI Hk Ho. eapply owned_pc_ok; [eapply (i_pc _ _ _ _ _ HI); eauto|done]. Qed.

(* ---------- the last critical section before a worker sits at WPre ---------- *)
Lemma last_sect tr s : run init tr = Some s -> forall j sj k w n c,
  st_at tr j = Some sj -> workers sj !! k = Some (WPre w n c) ->
  exists b rt r, b < j /\ tr !! b = Some (LSect k rt r) /\
    forall m sm, b < m <= j -> st_at tr m = Some sm -> workers sm !! k = Some (WPre w n c).
Proof.
  intros Hr j. induction j as [|j IH]; intros sj k w n c Hj Hk.
  - rewrite st_at_0 in Hj. by simplify_eq.
  - destruct (tr !! j) as [l|] eqn:El.
    + destruct (st_at_total tr s j Hr) as [sj0 Hj0]. pose proof Hj as Hj'.
      rewrite (st_at_S _ _ _ _ Hj0 El) in Hj.
      destruct (step_to_WPre _ _ _ _ _ _ _ Hj Hk) as [Hk0|(rt & r & ->)].
      * destruct (IH _ _ _ _ _ Hj0 Hk0) as (b & rt & r & Hb & Hlb & Hc). exists b, rt, r.
        split; [lia|]. split; [done|]. intros m sm Hm Hsm.
        destruct (decide (m = S j)) as [->|Hne].
        -- rewrite Hj' in Hsm. by simplify_eq.
        -- apply (Hc m sm); [lia|done].
      * exists j, rt, r. split; [lia|]. split; [done|]. intros m sm Hm Hsm.
        assert (m = S j) as -> by lia. rewrite Hj' in Hsm. by simplify_eq.
    + pose proof (st_at_S_None _ _ El) as He. rewrite He in Hj.
      destruct (IH _ _ _ _ _ Hj Hk) as (b & rt & r & Hb & Hlb & Hc). exists b, rt, r.
      split; [lia|]. split; [done|]. intros m sm Hm Hsm.
      destruct (decide (m = S j)) as [->|Hne].
      * rewrite He, Hj in Hsm. by simplify_eq.
      * apply (Hc m sm); [lia|done].
Qed.

(* a worker whose pc is constant over (b, j] sees no serve cycle start in (b, j) *)
Lemma const_no_init tr s b j k w n c :
  run init tr = Some s ->
  (forall m sm, b < m <= j -> st_at tr m = Some sm -> workers sm !! k = Some (WPre w n c)) ->
  same_cycle tr b j.
Proof.
  intros Hr Hc m l Hm Hl. destruct (is_init l) eqn:Hi; [|done]. exfalso.
  destruct l; try done.
  destruct (st_at_total tr s m Hr) as [sm Hsm].
  destruct (st_at_step _ _ _ _ _ Hr Hsm Hl) as (sm' & Hsm' & Hst).
  assert (Hk : workers sm' !! k = Some (WPre w n c)) by (eapply Hc; [|done]; lia).
  apply (step_init_workers _ _ _ _ _ Hst) in Hk. done.
Qed.

(* the group of a work item is constant while one worker owns it *)
Lemma gid_const_owned tr s k p w lo hi :
  run init tr = Some s ->
  (forall m sm, lo <= m <= hi -> st_at tr m = Some sm -> workers sm !! k = Some p) ->
  owned p = Some w ->
  forall d m1 s1 s2, lo <= m1 -> m1 + d <= hi -> st_at tr m1 = Some s1 -> st_at tr (m1 + d) = Some s2 ->
  gid_of s2 w = gid_of s1 w.
Proof.
  intros Hr Hc Ho d. induction d as [|d IH]; intros m1 s1 s2 Hlo Hhi H1 H2.
  - rewrite Nat.add_0_r in H2. congruence.
  - replace (m1 + S d) with (S (m1 + d)) in H2 by lia.
    destruct (st_at_total tr s (m1 + d) Hr) as [sd Hsd].
    rewrite <- (IH m1 s1 sd Hlo ltac:(lia) H1 Hsd).
    destruct (tr !! (m1 + d)) as [l|] eqn:El.
    + rewrite (st_at_S _ _ _ _ Hsd El) in H2.
      apply (step_gid_of _ _ _ _ (st_at_Inv _ _ _ Hsd) H2).
      * eapply owned_works; [eapply st_at_Inv; eauto| |exact Ho]. eapply Hc; [|done]. lia.
      * assert (H2' : st_at tr (S (m1 + d)) = Some s2) by (rewrite (st_at_S _ _ _ _ Hsd El); done).
        eapply owned_works; [eapply st_at_Inv; eauto| |exact Ho]. eapply Hc; [|done]. lia.
    + rewrite (st_at_S_None _ _ El), Hsd in H2. by simplify_eq.
Qed.

(* ---------- the first critical section after a worker reaches WPost ---------- *)
Lemma first_sect tr s : run init tr = Some s -> forall i si k w n g,
  st_at tr i = Some si -> workers si !! k = Some (WPost w n) -> gid_of si w = Some g ->
  forall m sm, i <= m -> st_at tr m = Some sm ->
  (workers sm !! k = Some (WPost w n) /\ gid_of sm w = Some g /\
   (forall m' l', i <= m' < m -> tr !! m' = Some l' -> is_init l' = false)) \/
  exists a l sa, i <= a < m /\ tr !! a = Some l /\ st_at tr a = Some sa /\
    workers sa !! k = Some (WPost w n) /\
    (forall m' l', i <= m' < a -> tr !! m' = Some l' -> is_init l' = false) /\
    ((exists rt r, l = LSect k rt r) \/ is_init l = true).
Proof.
  intros Hr i si k w n g Hi Hk Hg m. induction m as [|m IH]; intros sm Hle Hm.
  - assert (i = 0) as -> by lia. rewrite Hi in Hm. simplify_eq. left. split_and!; [done..|]. intros; lia.
  - destruct (decide (i = S m)) as [->|Hne].
    { rewrite Hi in Hm. simplify_eq. left. split_and!; [done..|]. intros; lia. }
    destruct (st_at_total tr s m Hr) as [sm0 Hm0].
    destruct (IH sm0 ltac:(lia) Hm0) as [(Hk0 & Hg0 & Hn0)|(a & l & sa & Ha & Hl & Hsa & Hka & Hni & Hlab)].
    + destruct (tr !! m) as [l|] eqn:El.
      * pose proof Hm as Hm'. rewrite (st_at_S _ _ _ _ Hm0 El) in Hm.
        destruct (is_init l) eqn:Hin.
        { right. exists m, l, sm0. split; [lia|]. split_and!; auto. }
        destruct (step_from_WPost _ _ _ _ _ _ Hm Hk0) as [Hk1|[Hsec|Hinit]]; [| |congruence].
        -- left. split; [done|]. split.
           ++ rewrite <- Hg0. apply (step_gid_of _ _ _ _ (st_at_Inv _ _ _ Hm0) Hm).
              ** eapply owned_works; [eapply st_at_Inv; eauto|exact Hk0|done].
              ** eapply owned_works; [eapply st_at_Inv; exact Hm'|exact Hk1|done].
           ++ intros m' l' Hm'' Hl'. destruct (decide (m' = m)) as [->|Hnm].
              ** rewrite El in Hl'. by simplify_eq.
              ** eapply Hn0; [|done]. lia.
        -- right. exists m, l, sm0. split; [lia|]. split_and!; auto.
      * rewrite (st_at_S_None _ _ El), Hm0 in Hm. simplify_eq. left. split_and!; [done..|].
        intros m' l' Hm'' Hl'. destruct (decide (m' = m)) as [->|Hnm]; [congruence|].
        eapply Hn0; [|done]. lia.
    + right. exists a, l, sa. split; [lia|]. done.
Qed.
